// C03 correspondence and oracle: the validation functions of /repo run under
// recover() on byte strings built around each accept shape (then truncated /
// extended / patched), against coq/model/C03_Script.v and C03_Validate.v.
// Oracle: any panic.
package main

import (
	"bytes"
	"fmt"
	"math/big"
	"strings"

	"github.com/elastos/Elastos.ELA/auxpow"
	"github.com/elastos/Elastos.ELA/blockchain"
	"github.com/elastos/Elastos.ELA/common"
	"github.com/elastos/Elastos.ELA/core/contract"
	"github.com/elastos/Elastos.ELA/core/contract/program"
	"github.com/elastos/Elastos.ELA/crypto"

	"verifharness/elaenv"
	"verifharness/lib"
)

type H struct {
	run *lib.Run
	rng *lib.Rng
	st  *lib.Stats
	sh  *lib.Shards
	id  int
	ks  []keypair
}

func (h *H) next() int { h.id++; return h.id }

// outcome enum shared with coq/lib/C03_GoSem.v [outcome]
func kindOf(v interface{}) int {
	s := fmt.Sprint(v)
	switch {
	case strings.Contains(s, "index out of range"):
		return 2
	case strings.Contains(s, "slice bounds out of range"):
		return 3
	case strings.Contains(s, "divide by zero"):
		return 4
	}
	return 9
}

// call runs f (returning accept?) under recover and maps to the enum; every
// panic is reported to the property oracle under the call site's signature.
func (h *H) call(site string, input interface{}, f func() bool) int {
	var acc bool
	p, v := lib.Recover(func() { acc = f() })
	if p {
		h.st.Fail(site+":panic", fmt.Sprintf("%s panicked: %v", site, v), input)
		return kindOf(v)
	}
	if acc {
		return 0
	}
	return 1
}

// callQuiet is call without the oracle report (for calls made outside the
// guard their callers establish; the caller of callQuiet decides).
func (h *H) callQuiet(f func() bool) int {
	var acc bool
	p, v := lib.Recover(func() { acc = f() })
	if p {
		return kindOf(v)
	}
	if acc {
		return 0
	}
	return 1
}

func hx(b []byte) string { return common.BytesToHexString(b) }

func zl(b []byte) string { return lib.CoqBytes(b) }

func zll(bs [][]byte) string {
	xs := make([]string, len(bs))
	for i, b := range bs {
		xs[i] = zl(b)
	}
	return lib.CoqList(xs)
}

func zpairs(ps [][2][]byte) string {
	xs := make([]string, len(ps))
	for i, p := range ps {
		xs[i] = "(" + zl(p[0]) + ", " + zl(p[1]) + ")"
	}
	return lib.CoqList(xs)
}

func cp(b []byte) []byte { // exact-capacity copy, like ReadVarBytes
	c := make([]byte, len(b))
	copy(c, b)
	return c
}

func cat(parts ...[]byte) []byte {
	var r []byte
	for _, p := range parts {
		r = append(r, p...)
	}
	return cp(r)
}

// ---------------------------------------------------------------- keys

type keypair struct {
	priv []byte
	pub  *crypto.PublicKey
	enc  []byte // 33 bytes compressed
}

func (h *H) makeKeys(n int) {
	for i := 0; i < n; i++ {
		d := h.rng.Bytes(32)
		d[0] &= 0x7f
		d[31] |= 1
		x, y := crypto.DefaultCurve.ScalarBaseMult(d)
		pub := &crypto.PublicKey{X: x, Y: y}
		enc, err := pub.EncodePoint(true)
		if err != nil {
			panic(err)
		}
		h.ks = append(h.ks, keypair{d, pub, enc})
	}
}

func (h *H) sign(k int, data []byte) []byte {
	s, err := crypto.Sign(h.ks[k].priv, data)
	if err != nil {
		panic(err)
	}
	return s
}

// ---------------------------------------------------------------- code shapes

func (h *H) randKey() []byte {
	if h.rng.Chance(70) {
		return h.ks[h.rng.Intn(len(h.ks))].enc
	}
	k := h.rng.Bytes(33)
	k[0] = byte(h.rng.PickU64(2, 3, 4, 5, 0))
	return k
}

func stdCode(key []byte) []byte { return cat([]byte{33}, key, []byte{0xAC}) }
func schCode(key []byte) []byte { return cat([]byte{0x51, 33}, key) }

// numeric operand encodings used by IsMultiSig: PUSHk, (1,k), (2,hi,lo)
func num(style int, k int) []byte {
	switch style {
	case 1:
		return []byte{1, byte(k)}
	case 2:
		return []byte{2, byte(k >> 8), byte(k)}
	}
	return []byte{byte(0x50 + k)}
}

func msCode(mStyle, m int, keys [][]byte, nStyle, n int, last byte) []byte {
	parts := [][]byte{num(mStyle, m)}
	for _, k := range keys {
		parts = append(parts, []byte{33}, k)
	}
	parts = append(parts, num(nStyle, n), []byte{last})
	return cat(parts...)
}

// mutate returns the byte string itself and its neighbours: truncated by 1..4
// at the end, extended by one element, one byte patched near a boundary.
func (h *H) neighbours(b []byte) [][]byte {
	out := [][]byte{cp(b)}
	for d := 1; d <= 4 && d <= len(b); d++ {
		out = append(out, cp(b[:len(b)-d]))
	}
	out = append(out, cat(b, []byte{byte(h.rng.U64())}), cat(b, []byte{0xAE}), cat(b, []byte{33}))
	if len(b) > 0 {
		for _, pos := range []int{0, 1, len(b) - 1, len(b) - 2, len(b) - 3} {
			if pos >= 0 && pos < len(b) {
				c := cp(b)
				c[pos] = byte(h.rng.PickU64(0, 1, 2, 33, 0x50, 0x51, 0x52, 0x60, 0x61, 0xAC, 0xAE, 0xAF, 0xff, h.rng.U64()&0xff))
				out = append(out, c)
			}
		}
		out = append(out, cp(b[1:]))
	}
	return out
}

func (h *H) randomCode() []byte {
	n := h.rng.Intn(6)
	switch h.rng.Intn(8) {
	case 0:
		return stdCode(h.randKey())
	case 1:
		return schCode(h.randKey())
	case 2:
		return h.rng.Bytes(h.rng.Range(0, 80))
	case 3: // only key-shaped runs
		var parts [][]byte
		parts = append(parts, num(h.rng.Intn(3), 1+h.rng.Intn(3)))
		for i := 0; i < 1+n; i++ {
			parts = append(parts, []byte{33}, h.randKey())
		}
		return cat(parts...)
	}
	var keys [][]byte
	for i := 0; i < 1+n; i++ {
		keys = append(keys, h.randKey())
	}
	m := 1 + h.rng.Intn(len(keys))
	nn := len(keys)
	if h.rng.Chance(15) {
		nn += h.rng.Intn(3) - 1
	}
	if h.rng.Chance(10) {
		m = nn + 1
	}
	last := byte(0xAE)
	if h.rng.Chance(25) {
		last = 0xAF
	}
	return msCode(h.rng.Intn(3), m, keys, h.rng.Intn(3), nn, last)
}

// ---------------------------------------------------------------- classifiers

func (h *H) classify(code []byte) {
	in := map[string]interface{}{"code": hx(code)}
	o1 := h.call("contract.IsStandard", in, func() bool { return contract.IsStandard(code) })
	o2 := h.call("contract.IsSchnorr", in, func() bool { return contract.IsSchnorr(code) })
	o3 := h.call("contract.IsMultiSig", in, func() bool { return contract.IsMultiSig(code) })
	var ty contract.ContractType
	p, v := lib.Recover(func() { ty = contract.GetCodeType(code) })
	o4, val := 0, int(ty)
	if p {
		o4, val = kindOf(v), 0
		h.st.Fail("contract.GetCodeType:panic", fmt.Sprintf("GetCodeType panicked: %v", v), in)
	}
	i := h.next()
	h.sh.Add(fmt.Sprintf("CCls %d %s %d %d %d %d %d", i, zl(code), o1, o2, o3, o4, val))
	h.st.LogCase(h.run.Out, i, map[string]interface{}{"op": "IsStandard/IsSchnorr/IsMultiSig/GetCodeType", "code": hx(code), "out": []int{o1, o2, o3, o4}, "type": val})
	h.st.Count(fmt.Sprintf("cls:%x", code), val != 2 || len(code) >= 35, "CCls")
}

func (h *H) classifierCases() {
	k := h.ks[0].enc
	k2 := h.ks[1].enc
	// corpus: the three tail witnesses of the repaired IsMultiSig panic
	w := msCode(0, 1, [][]byte{k, k2}, 0, 2, 0xAE)
	w = w[:len(w)-1] // [0x51, 33,k, 33,k, 0x52]: index 70 of 70 before the fix
	w1 := cp(w)
	w1[len(w1)-1] = 1
	w2 := cat(w[:69], []byte{2, 0, 2})
	corpus := [][]byte{w, w1, w2, {}, {33}, stdCode(k), schCode(k)}
	var codes [][]byte
	codes = append(codes, corpus...)
	// every accept shape of IsMultiSig (3 m-encodings x 3 n-encodings x 1..3 keys), all neighbours
	for ms := 0; ms < 3; ms++ {
		for ns := 0; ns < 3; ns++ {
			for n := 1; n <= 3; n++ {
				keys := [][]byte{k, k2, h.ks[2].enc}[:n]
				good := msCode(ms, 1, keys, ns, n, 0xAE)
				if n == 3 && !h.run.Thorough() {
					codes = append(codes, good, cp(good[:len(good)-1]), cp(good[:len(good)-2]))
					continue
				}
				codes = append(codes, h.neighbours(good)...)
				// all prefixes from length 30 (the truncation sweep)
				if n == 1 || (n == 2 && (ms == ns || h.run.Thorough())) {
					for l := 34; l < len(good); l++ {
						codes = append(codes, cp(good[:l]))
					}
				}
			}
		}
	}
	codes = append(codes, h.neighbours(stdCode(k))...)
	codes = append(codes, h.neighbours(schCode(k))...)
	// int16 boundaries: m = 0, 1024, 1025, negative (2,0xff,0xff)
	for _, m := range []int{0, 255, 1024, 1025, 0x7fff, 0xffff} {
		codes = append(codes, msCode(2, m, [][]byte{k, k2}, 2, 2, 0xAE), msCode(2, 1, [][]byte{k, k2}, 2, m, 0xAE))
	}
	for i := 0; i < h.run.N(60, 1200); i++ {
		c := h.randomCode()
		if h.rng.Chance(40) {
			nb := h.neighbours(c)
			c = nb[h.rng.Intn(len(nb))]
		}
		codes = append(codes, c)
	}
	for _, c := range codes {
		h.classify(c)
	}
	h.st.Sample(map[string]interface{}{"op": "IsMultiSig", "code": hx(w), "out": "reject (panicked before the fix)"})
}

// ---------------------------------------------------------------- auxpow

func expectedIndexRef(nonce uint32, chainID int, hh int) (int, bool) { // independent: exact arithmetic
	m := big.NewInt(1 << 32)
	r := new(big.Int).SetUint64(uint64(nonce))
	r.Mul(r, big.NewInt(1103515245)).Add(r, big.NewInt(12345)).Mod(r, m)
	r.Add(r, new(big.Int).Mod(big.NewInt(int64(chainID)), m)).Mod(r, m)
	r.Mul(r, big.NewInt(1103515245)).Add(r, big.NewInt(12345)).Mod(r, m)
	if hh < 0 || hh >= 32 {
		return 0, false
	}
	return int(new(big.Int).Mod(r, new(big.Int).Lsh(big.NewInt(1), uint(hh))).Int64()), true
}

func (h *H) expectedIndexCases() {
	type t struct {
		nonce uint32
		chain int
		hh    int
	}
	cs := []t{{5, 1224, 32}, {0, 1224, 32}, {7, 1224, 33}, {7, 1224, 64}, {7, 1224, -1}, {7, 1224, 1 << 32}, {7, 1224, 31}, {7, 1224, 0}, {0xffffffff, -1, 5}}
	for hh := -2; hh <= 42; hh++ {
		cs = append(cs, t{uint32(h.rng.U64()), 1224, hh})
	}
	for i := 0; i < h.run.N(100, 1000); i++ {
		cs = append(cs, t{uint32(h.rng.U64()), int(int32(h.rng.U64())) * h.rng.Intn(3), h.rng.Range(-3, 45)})
	}
	for _, c := range cs {
		var val int
		in := map[string]interface{}{"nonce": c.nonce, "chainID": c.chain, "h": c.hh}
		p, v := lib.Recover(func() { val = auxpow.GetExpectedIndex(c.nonce, c.chain, c.hh) })
		out := 0
		if p {
			out, val = kindOf(v), 0
			h.st.Fail("auxpow.GetExpectedIndex:panic", fmt.Sprintf("GetExpectedIndex panicked: %v", v), in)
		} else if ref, ok := expectedIndexRef(c.nonce, c.chain, c.hh); ok && ref != val {
			h.st.Fail("auxpow.GetExpectedIndex:value", "index differs from rand mod 2^h in exact arithmetic", in)
		}
		i := h.next()
		h.sh.Add(fmt.Sprintf("CExp %d %d %s %s %d %s", i, c.nonce, lib.CoqZi(int64(c.chain)), lib.CoqZi(int64(c.hh)), out, lib.CoqZi(int64(val))))
		in["out"], in["val"] = out, val
		h.st.LogCase(h.run.Out, i, in)
		h.st.Count(fmt.Sprintf("exp:%d:%d:%d", c.nonce, c.chain, c.hh), c.hh >= 0, "CExp")
	}
}

func hz(u common.Uint256) string { return new(big.Int).SetBytes(u[:]).String() }

type htable struct {
	rows []string
	seen map[string]bool
}

// foldRef is an independent replay of the merkle branch fold; it records the
// hash triples it used (the oracle table handed to the model).
func (t *htable) foldRef(hash common.Uint256, branch []common.Uint256, index int) common.Uint256 {
	if index == -1 {
		return common.Uint256{}
	}
	idx := big.NewInt(int64(index))
	for _, it := range branch {
		l, r := hash, it
		if idx.Bit(0) == 1 {
			l, r = it, hash
		}
		out := common.Uint256(common.Sha256D(append(append([]byte{}, l[:]...), r[:]...)))
		key := hz(l) + "," + hz(r)
		if t.seen == nil {
			t.seen = map[string]bool{}
		}
		if !t.seen[key] {
			t.seen[key] = true
			t.rows = append(t.rows, fmt.Sprintf("(%s, %s, %s)", hz(l), hz(r), hz(out)))
		}
		hash = out
		idx.Rsh(idx, 1)
	}
	return hash
}

func (h *H) randHash() common.Uint256 {
	var u common.Uint256
	copy(u[:], h.rng.Bytes(32))
	return u
}

func hashList(hs []common.Uint256) string {
	xs := make([]string, len(hs))
	for i, x := range hs {
		xs[i] = hz(x)
	}
	return lib.CoqList(xs)
}

func (h *H) merkleRootCases() {
	for l := 0; l <= 40; l++ {
		reps := 1
		if l <= 6 {
			reps = h.run.N(3, 10)
		}
		for r := 0; r < reps; r++ {
			var br []common.Uint256
			for i := 0; i < l; i++ {
				br = append(br, h.randHash())
			}
			index := int(uint32(h.rng.U64()))
			switch h.rng.Intn(6) {
			case 0:
				index = -1
			case 1:
				index = h.rng.Intn(1 << uint(l%20+1))
			case 2:
				index = -int(h.rng.Intn(1000)) - 2
			}
			hash := h.randHash()
			var t htable
			ref := t.foldRef(hash, br, index)
			var got common.Uint256
			in := map[string]interface{}{"len": l, "index": index}
			p, v := lib.Recover(func() { got = auxpow.GetMerkleRoot(hash, br, index) })
			if p {
				h.st.Fail("auxpow.GetMerkleRoot:panic", fmt.Sprintf("GetMerkleRoot panicked: %v", v), in)
				continue
			}
			if got != ref {
				h.st.Fail("auxpow.GetMerkleRoot:value", "root differs from the independent fold", in)
			}
			i := h.next()
			h.sh.Add(fmt.Sprintf("CRoot %d %s %s %s %s %s", i, lib.CoqList(t.rows), hz(hash), hashList(br), lib.CoqZi(int64(index)), hz(got)))
			h.st.LogCase(h.run.Out, i, in)
			h.st.Count(fmt.Sprintf("root:%d:%d", l, index&0xff), l > 0 && index != -1, "CRoot")
		}
	}
}

type auxSpec struct {
	branch    int
	nonce     uint32
	sizeDelta int  // added to the correct size
	idxDelta  int  // added to the expected index
	noTxIn    bool
	cut       int  // bytes removed from the end of the script (after size+nonce and suffix)
	suffix    int  // random bytes after the nonce
	prefix    int  // random bytes before the header
	dupHeader bool // second header in the suffix
	cbBranch  int
	badRoot   bool
	nibble    bool // shift the commitment by half a byte
	note      string
}

func (h *H) auxCase(s auxSpec) {
	blockHash := h.randHash()
	rev, _ := common.Uint256FromBytes(common.BytesReverse(blockHash.Bytes()))
	var t htable
	var br []common.Uint256
	for i := 0; i < s.branch; i++ {
		br = append(br, h.randHash())
	}
	auxIndex := 0
	if ref, ok := expectedIndexRef(s.nonce, auxpow.AuxPowChainID, s.branch); ok {
		auxIndex = ref + s.idxDelta
	} else {
		auxIndex = int(h.rng.U64()&0xffff) + s.idxDelta
	}
	if auxIndex < 0 {
		auxIndex = 1
	}
	root := t.foldRef(*rev, br, auxIndex)
	size := uint32(0)
	if s.branch < 32 {
		size = uint32(1) << uint(s.branch)
	}
	size += uint32(s.sizeDelta)
	le := func(x uint32) []byte { return []byte{byte(x), byte(x >> 8), byte(x >> 16), byte(x >> 24)} }
	commit := cat([]byte{0xfa, 0xbe, 'm', 'm'}, common.BytesReverse(root.Bytes()), le(size), le(s.nonce))
	if s.nibble { // shift by one nibble: 0x?f ab e6 d6 d. ... keeps the hex pattern at an odd offset
		sh := make([]byte, len(commit)+1)
		for i, b := range commit {
			sh[i] |= b >> 4
			sh[i+1] |= b << 4
		}
		commit = sh
	}
	pre := h.rng.Bytes(s.prefix)
	for i := range pre { // keep the header pattern out of the random parts
		pre[i] &= 0x7f
	}
	suf := h.rng.Bytes(s.suffix)
	for i := range suf {
		suf[i] &= 0x7f
	}
	if s.dupHeader {
		suf = cat(suf, []byte{0xfa, 0xbe, 'm', 'm'})
	}
	script := cat(pre, commit, suf)
	if s.cut > len(script) {
		s.cut = len(script)
	}
	script = cp(script[:len(script)-s.cut])

	ap := auxpow.AuxPow{AuxMerkleBranch: br, AuxMerkleIndex: auxIndex}
	var ins []*auxpow.BtcTxIn
	if !s.noTxIn {
		ins = append(ins, &auxpow.BtcTxIn{SignatureScript: script, Sequence: 0xffffffff})
		if h.rng.Chance(20) {
			ins = append(ins, &auxpow.BtcTxIn{SignatureScript: h.rng.Bytes(5)})
		}
	}
	ap.ParCoinbaseTx = *auxpow.NewBtcTx(ins, nil)
	for i := 0; i < s.cbBranch; i++ {
		ap.ParCoinBaseMerkle = append(ap.ParCoinBaseMerkle, h.randHash())
	}
	ap.ParMerkleIndex = h.rng.Intn(1 << uint(s.cbBranch+1))
	cbHash := common.Uint256(ap.ParCoinbaseTx.Hash())
	hdrRoot := t.foldRef(cbHash, ap.ParCoinBaseMerkle, ap.ParMerkleIndex)
	cbRoot := hdrRoot
	if s.badRoot {
		hdrRoot[3] ^= 1
	}
	ap.ParBlockHeader.MerkleRoot = hdrRoot

	// the object as a peer would deliver it: through Serialize / Deserialize
	in := map[string]interface{}{"note": s.note, "branch": s.branch, "nonce": s.nonce, "script": hx(script), "txin": len(ins), "auxindex": auxIndex}
	out := h.call("auxpow.AuxPow.Check", in, func() bool {
		var dec auxpow.AuxPow
		buf := new(bytes.Buffer)
		if err := ap.Serialize(buf); err != nil {
			panic("serialize: " + err.Error())
		}
		if err := dec.Deserialize(buf); err != nil {
			panic("deserialize: " + err.Error())
		}
		return dec.Check(&blockHash, auxpow.AuxPowChainID)
	})
	var scripts [][]byte
	for _, x := range ins {
		scripts = append(scripts, x.SignatureScript)
	}
	i := h.next()
	if s.branch+s.cbBranch <= 5 {
		h.sh.Add(fmt.Sprintf("CAux %d %s %s %s %d %s %s %s %d %s %d %d", i, lib.CoqList(t.rows), hz(cbHash), hashList(ap.ParCoinBaseMerkle),
			ap.ParMerkleIndex, hz(hdrRoot), hz(*rev), hashList(br), auxIndex, zll(scripts), auxpow.AuxPowChainID, out))
	} else {
		h.sh.Add(fmt.Sprintf("CAuxC %d %s %s %s %d %d %s %d %d", i, hz(cbRoot), hz(hdrRoot), hz(root), s.branch, auxIndex, zll(scripts), auxpow.AuxPowChainID, out))
	}
	in["out"] = out
	h.st.LogCase(h.run.Out, i, in)
	h.st.Count(fmt.Sprintf("aux:%d:%d:%d:%d:%v:%d:%v:%v:%v", s.branch, s.sizeDelta, s.idxDelta, s.cut, s.noTxIn, s.suffix, s.dupHeader, s.badRoot, s.nibble),
		out == 0 || !s.badRoot, "CAux")
	if s.note == "accept" && s.branch < 32 && out != 0 {
		h.st.Extra["aux_accept_shape_rejected"] = in
	}
}

func (h *H) auxCases() {
	// corpus: the witnesses of the repaired panics
	h.auxCase(auxSpec{noTxIn: true, note: "no parent coinbase input (index 0 of 0 before the fix)"})
	h.auxCase(auxSpec{branch: 0, nonce: 9, cut: 4, note: "size without nonce (slice [:44] of 40 before the fix)"})
	h.auxCase(auxSpec{branch: 32, nonce: 9, note: "32-hash branch, size 0 (divide by zero before the fix)"})
	h.auxCase(auxSpec{branch: 3, nonce: 77, suffix: 3, note: "accept"})
	for l := 0; l <= 40; l++ { // branch lengths 0..40, accept shape and one-off neighbours
		h.auxCase(auxSpec{branch: l, nonce: uint32(h.rng.U64()), suffix: h.rng.Intn(4), prefix: h.rng.Intn(6), cbBranch: h.rng.Intn(3), note: "accept"})
		if l <= 1 || (l >= 31 && l <= 33) || (h.run.Thorough() && (l <= 8 || l >= 30)) {
			for cut := 1; cut <= 9; cut++ {
				h.auxCase(auxSpec{branch: l, nonce: uint32(h.rng.U64()), cut: cut, prefix: h.rng.Intn(3), note: "truncated"})
			}
			h.auxCase(auxSpec{branch: l, nonce: uint32(h.rng.U64()), sizeDelta: 1, note: "size+1"})
			h.auxCase(auxSpec{branch: l, nonce: uint32(h.rng.U64()), idxDelta: 1, note: "index+1"})
			h.auxCase(auxSpec{branch: l, nonce: uint32(h.rng.U64()), noTxIn: true, note: "no txin"})
			h.auxCase(auxSpec{branch: l, nonce: uint32(h.rng.U64()), nibble: true, suffix: h.rng.Intn(2), note: "nibble-shifted"})
			h.auxCase(auxSpec{branch: l, nonce: uint32(h.rng.U64()), nibble: true, cut: 1 + h.rng.Intn(6), note: "nibble-shifted truncated"})
		}
	}
	for i := 0; i < h.run.N(30, 500); i++ {
		s := auxSpec{branch: h.rng.Intn(8), nonce: uint32(h.rng.U64()), suffix: h.rng.Intn(6), prefix: h.rng.Intn(8), cbBranch: h.rng.Intn(4), note: "random"}
		if h.rng.Chance(15) {
			s.branch = h.rng.Range(28, 40)
		}
		switch h.rng.Intn(9) {
		case 0:
			s.cut = 1 + h.rng.Intn(12)
		case 1:
			s.dupHeader = true
		case 2:
			s.badRoot = true
		case 3:
			s.sizeDelta = h.rng.Intn(3) - 1
		case 4:
			s.idxDelta = h.rng.Intn(3) - 1
		case 5:
			s.noTxIn = true
		case 6:
			s.nibble = true
			s.cut = h.rng.Intn(8)
		}
		h.auxCase(s)
	}
}

func main() {
	run := lib.ParseArgs()
	elaenv.InitLog(run.Out)
	h := &H{run: run, rng: lib.NewRng(run.Seed)}
	h.st = lib.NewStats("C03", "byte strings built around every accept shape (standard / schnorr / multisig with each operand encoding; multisig and cross-chain programs with real P-256 keys and signatures; merged-mining proofs with aux branch lengths 0..40; coinbases with 0..4 outputs in each reward regime; signer index lists) then truncated by 1..4, extended by one element, patched at the boundaries, plus random bytes; corpus = witnesses of the repaired panics. nontrivial = reaches past the first length test (or accepts); distinct by canonical input")
	h.sh = &lib.Shards{Dir: run.Out, Imports: "From ELA Require Import lib.C03_GoSem model.C03_Script model.C03_Validate corr.C03_corr.",
		CaseType: "C03_corr.case", Mismatch: "C03_corr.mismatches", Scope: "Z", PerShard: 110}
	h.makeKeys(8)

	h.classifierCases()
	h.expectedIndexCases()
	h.merkleRootCases()
	h.auxCases()
	h.programCases()
	h.adversarialCases()
	h.registerProducerCases()
	h.txCases()

	h.st.Traces = h.st.Evals
	h.sh.Flush()
	h.st.Write(run.Out)
	_ = blockchain.RunPrograms
	_ = program.Program{}
}
