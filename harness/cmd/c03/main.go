package main

import (
	"bytes"
	"fmt"

	"github.com/elastos/Elastos.ELA/auxpow"
	"github.com/elastos/Elastos.ELA/blockchain"
	"github.com/elastos/Elastos.ELA/common"
	"github.com/elastos/Elastos.ELA/core/contract"
	"github.com/elastos/Elastos.ELA/core/contract/program"
	"github.com/elastos/Elastos.ELA/crypto"

	"verifharness/lib"
)

func try(name string, f func()) {
	p, v := lib.Recover(f)
	fmt.Printf("%-40s panicked=%v %v\n", name, p, v)
}

func main() {
	k := bytes.Repeat([]byte{7}, 33)
	code := append([]byte{0x51, 33}, k...)
	code = append(code, 33)
	code = append(code, k...)
	code = append(code, 0x52)
	try("IsMultiSig default tail", func() { contract.IsMultiSig(code) })
	c1 := append([]byte{}, code...)
	c1[len(c1)-1] = 1
	try("IsMultiSig case1 tail (n!=..)", func() { contract.IsMultiSig(c1) })
	// case 2 tail: [0x51, key, key, 2, 0, 2] -> i += 2 -> i == len
	c2 := append(append([]byte{}, code[:69]...), 2, 0, 2)
	try("IsMultiSig case2 tail", func() { contract.IsMultiSig(c2) })
	try("GetExpectedIndex h=32", func() { auxpow.GetExpectedIndex(5, 1224, 32) })

	// AuxPow with no parent coinbase inputs
	ap := auxpow.AuxPow{}
	ap.ParCoinbaseTx = *auxpow.NewBtcTx(nil, nil)
	ap.ParBlockHeader.MerkleRoot = ap.ParCoinbaseTx.Hash()
	var h common.Uint256
	try("AuxPow.Check no TxIn", func() { ap.Check(&h, auxpow.AuxPowChainID) })

	// AuxPow with script = header || root || size(4) and no nonce
	mk := func(tail []byte, branch int) auxpow.AuxPow {
		ap := auxpow.AuxPow{}
		for i := 0; i < branch; i++ {
			ap.AuxMerkleBranch = append(ap.AuxMerkleBranch, common.Uint256{byte(i)})
		}
		hr, _ := common.Uint256FromBytes(common.BytesReverse(h.Bytes()))
		root := auxpow.GetMerkleRoot(*hr, ap.AuxMerkleBranch, 0)
		script := append([]byte{0xfa, 0xbe, 'm', 'm'}, common.BytesReverse(root.Bytes())...)
		script = append(script, tail...)
		sc := make([]byte, len(script))
		copy(sc, script)
		ap.ParCoinbaseTx = *auxpow.NewBtcTx([]*auxpow.BtcTxIn{{SignatureScript: sc}}, nil)
		ap.ParBlockHeader.MerkleRoot = ap.ParCoinbaseTx.Hash()
		return ap
	}
	a2 := mk([]byte{1, 0, 0, 0}, 0)
	try("AuxPow.Check size but no nonce", func() { fmt.Println(a2.Check(&h, auxpow.AuxPowChainID)) })
	a3 := mk([]byte{0, 0, 0, 0, 9, 9, 9, 9}, 32)
	try("AuxPow.Check 32 branch size 0", func() { fmt.Println(a3.Check(&h, auxpow.AuxPowChainID)) })

	// RunPrograms: schnorr-shaped code under cross-chain prefix with empty parameter
	sch := append([]byte{0x51, 33}, k...)
	ph := common.Uint168{0x4B}
	try("RunPrograms schnorr short param (X)", func() {
		fmt.Println(blockchain.RunPrograms([]byte("data"), []common.Uint168{ph}, []*program.Program{{Code: sch, Parameter: []byte{}}}))
	})
	// RunPrograms: multisig prefix, 1-byte code
	short := []byte{0x51}
	pm := common.ToProgramHash(0x12, short)
	try("RunPrograms multisig short code", func() {
		fmt.Println(blockchain.RunPrograms([]byte("data"), []common.Uint168{*pm}, []*program.Program{{Code: short, Parameter: []byte{}}}))
	})
	try("RunPrograms crosschain short code", func() {
		fmt.Println(blockchain.RunPrograms([]byte("data"), []common.Uint168{ph}, []*program.Program{{Code: short, Parameter: []byte{}}}))
	})
	try("CheckMultiSigSignatures empty code", func() {
		fmt.Println(crypto.CheckMultiSigSignatures(program.Program{}, nil))
	})
	// standard prefix with the IsMultiSig witness as code
	ps := common.ToProgramHash(0x21, code)
	try("RunPrograms std prefix, multisig witness", func() {
		fmt.Println(blockchain.RunPrograms([]byte("data"), []common.Uint168{*ps}, []*program.Program{{Code: code, Parameter: []byte{}}}))
	})
}
