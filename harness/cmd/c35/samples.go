package main

import (
	"net"

	"github.com/elastos/Elastos.ELA/common"
	"github.com/elastos/Elastos.ELA/core/contract/program"
	"github.com/elastos/Elastos.ELA/core/types"
	common2 "github.com/elastos/Elastos.ELA/core/types/common"
	"github.com/elastos/Elastos.ELA/core/types/functions"
	"github.com/elastos/Elastos.ELA/core/types/interfaces"
	"github.com/elastos/Elastos.ELA/core/types/outputpayload"
	"github.com/elastos/Elastos.ELA/core/types/payload"
	dmsg "github.com/elastos/Elastos.ELA/dpos/p2p/msg"
	"github.com/elastos/Elastos.ELA/elanet/pact"
	"github.com/elastos/Elastos.ELA/p2p"
	"github.com/elastos/Elastos.ELA/p2p/msg"

	"verifharness/lib"
)

// samplePayloads returns payloads that the (layer, command) message type decodes.
func samplePayloads(layer int, ci cmdInfo, rng *lib.Rng) [][]byte {
	var out [][]byte
	add := func(m p2p.Message) {
		b, err := serialize(m)
		if err != nil {
			return
		}
		if uint32(len(b)) <= m.MaxLength() && decodeOracle(layer, ci.cmd, b) {
			out = append(out, b)
		}
	}
	add(ci.empty())
	for _, m := range richSamples(layer, ci.cmd, rng) {
		add(m)
	}
	return out
}

func sampleTx(rng *lib.Rng, nIn, nOut int) interfaces.Transaction {
	var ins []*common2.Input
	for k := 0; k < nIn; k++ {
		op, _ := common2.OutPointFromBytes(rng.Bytes(34))
		ins = append(ins, &common2.Input{Previous: *op, Sequence: uint32(rng.U64())})
	}
	var outs []*common2.Output
	for k := 0; k < nOut; k++ {
		var u common.Uint168
		copy(u[:], rng.Bytes(21))
		outs = append(outs, &common2.Output{Value: common.Fixed64(rng.Intn(1000000)), ProgramHash: u, Type: common2.OTNone, Payload: &outputpayload.DefaultOutput{}})
	}
	return functions.CreateTransaction(common2.TxVersion09, common2.TransferAsset, 0, &payload.TransferAsset{}, []*common2.Attribute{},
		ins, outs, uint32(rng.U64()), []*program.Program{{Code: rng.Bytes(35), Parameter: rng.Bytes(65)}})
}

func sampleBlock(rng *lib.Rng) *types.Block {
	cb := functions.CreateTransaction(common2.TxVersion09, common2.CoinBase, 0, &payload.CoinBase{Content: rng.Bytes(4)}, []*common2.Attribute{},
		nil, nil, 0, []*program.Program{})
	b := &types.Block{Header: common2.Header{Version: 1, Timestamp: uint32(rng.U64()), Bits: 0x1d00ffff, Height: uint32(rng.Intn(1000)), Nonce: uint32(rng.U64())},
		Transactions: []interfaces.Transaction{cb, sampleTx(rng, 1, 2)}}
	return b
}

func hash(rng *lib.Rng) *common.Uint256 {
	var h common.Uint256
	copy(h[:], rng.Bytes(32))
	return &h
}

func richSamples(layer int, cmd string, rng *lib.Rng) []p2p.Message {
	if cmd == p2p.CmdTx {
		return []p2p.Message{msg.NewTx(sampleTx(rng, 1, 1)), msg.NewTx(sampleTx(rng, 3, 4))}
	}
	if cmd == p2p.CmdBlock {
		if layer == 0 {
			return []p2p.Message{msg.NewBlock(&types.DposBlock{Block: sampleBlock(rng)})}
		}
		return []p2p.Message{msg.NewBlock(sampleBlock(rng))}
	}
	if layer == 0 {
		switch cmd {
		case p2p.CmdVersion:
			return []p2p.Message{msg.NewVersion(pact.DPOSStartVersion, 20338, 5, rng.U64(), 1234, false, ""),
				msg.NewVersion(pact.CRProposalVersion, 20338, 5, rng.U64(), 1234, true, "v0.9.9")}
		case p2p.CmdAddr:
			return []p2p.Message{msg.NewAddr([]*p2p.NetAddress{
				p2p.NewNetAddressIPPort(net.IPv4(10, 1, 2, 3), 20338, 1), p2p.NewNetAddressIPPort(net.ParseIP("2001:db8::1"), 1, 5)})}
		case p2p.CmdPing:
			return []p2p.Message{msg.NewPing(rng.U64())}
		case p2p.CmdPong:
			return []p2p.Message{msg.NewPong(rng.U64())}
		case p2p.CmdInv, p2p.CmdNotFound, p2p.CmdGetData:
			var m interface {
				p2p.Message
				AddInvVect(*msg.InvVect) error
			}
			switch cmd {
			case p2p.CmdInv:
				m = msg.NewInv()
			case p2p.CmdNotFound:
				m = msg.NewNotFound()
			default:
				m = msg.NewGetData()
			}
			m.AddInvVect(msg.NewInvVect(msg.InvTypeTx, hash(rng)))
			m.AddInvVect(msg.NewInvVect(msg.InvTypeBlock, hash(rng)))
			return []p2p.Message{m}
		case p2p.CmdGetBlocks:
			return []p2p.Message{msg.NewGetBlocks([]*common.Uint256{hash(rng), hash(rng)}, *hash(rng))}
		case p2p.CmdFilterAdd:
			return []p2p.Message{&msg.FilterAdd{Data: rng.Bytes(33)}}
		case p2p.CmdFilterLoad:
			return []p2p.Message{&msg.FilterLoad{Filter: rng.Bytes(40), HashFuncs: 7, Tweak: uint32(rng.U64()), TxTypes: []common2.TxType{2, 8}}}
		case p2p.CmdTxFilter:
			return []p2p.Message{&msg.TxFilterLoad{Type: 1, Data: rng.Bytes(20)}}
		case p2p.CmdReject:
			return []p2p.Message{&msg.Reject{Cmd: "tx", RejectCode: 0x10, Reason: "bad", Hash: *hash(rng)}}
		}
		return nil
	}
	switch cmd {
	case dmsg.CmdPing:
		return []p2p.Message{dmsg.NewPing(rng.U64())}
	case dmsg.CmdPong:
		return []p2p.Message{dmsg.NewPong(rng.U64())}
	case dmsg.CmdAddr:
		return []p2p.Message{dmsg.NewAddr("node.example.org", 20339)}
	case dmsg.CmdVerAck:
		return []p2p.Message{dmsg.NewVerAck(rng.Bytes(64))}
	case dmsg.CmdInv:
		return []p2p.Message{dmsg.NewInventory(*hash(rng))}
	case dmsg.CmdGetBlock:
		return []p2p.Message{dmsg.NewGetBlock(*hash(rng))}
	case dmsg.CmdGetBlocks:
		return []p2p.Message{&dmsg.GetBlocks{StartBlockHeight: 5, EndBlockHeight: 9}}
	case dmsg.CmdRequestConsensus:
		return []p2p.Message{&dmsg.RequestConsensus{Height: 77}}
	case dmsg.CmdRequestProposal:
		return []p2p.Message{&dmsg.RequestProposal{ProposalHash: *hash(rng)}}
	case dmsg.CmdAcceptVote, dmsg.CmdRejectVote:
		return []p2p.Message{&dmsg.Vote{Command: cmd, Vote: payload.DPOSProposalVote{ProposalHash: *hash(rng), Signer: rng.Bytes(33), Accept: cmd == dmsg.CmdAcceptVote, Sign: rng.Bytes(64)}}}
	case dmsg.CmdReceivedProposal:
		return []p2p.Message{&dmsg.Proposal{Proposal: payload.DPOSProposal{Sponsor: rng.Bytes(33), BlockHash: *hash(rng), ViewOffset: 3, Sign: rng.Bytes(64)}}}
	}
	return nil
}
