// C35 correspondence and oracle: p2p.ReadMessage / p2p.WriteMessage with the
// real message tables of the three peer layers (p2p/peer + elanet server,
// dpos/p2p/peer + dpos network) of /repo against coq/model/C35_Framing.v.
package main

import (
	"bytes"
	"crypto/sha256"
	"encoding/binary"
	"errors"
	"fmt"
	"io"
	"net"
	"runtime"
	"strings"
	"time"

	"github.com/elastos/Elastos.ELA/common"
	"github.com/elastos/Elastos.ELA/core/transaction"
	"github.com/elastos/Elastos.ELA/core/types"
	common2 "github.com/elastos/Elastos.ELA/core/types/common"
	"github.com/elastos/Elastos.ELA/core/types/functions"
	"github.com/elastos/Elastos.ELA/core/types/outputpayload"
	"github.com/elastos/Elastos.ELA/core/types/payload"
	"github.com/elastos/Elastos.ELA/dpos"
	dmsg "github.com/elastos/Elastos.ELA/dpos/p2p/msg"
	dpeer "github.com/elastos/Elastos.ELA/dpos/p2p/peer"
	"github.com/elastos/Elastos.ELA/elanet"
	"github.com/elastos/Elastos.ELA/elanet/pact"
	"github.com/elastos/Elastos.ELA/p2p"
	"github.com/elastos/Elastos.ELA/p2p/msg"
	ppeer "github.com/elastos/Elastos.ELA/p2p/peer"

	"verifharness/elaenv"
	"verifharness/lib"
)

const sigCmd = "p2p.ReadMessage:command-corruption:read-as-other-known-command"

// memConn is an in-memory connection: reads come from a byte string and end
// with EOF (the peer closed), writes are collected.
type memConn struct {
	r *bytes.Reader
	w bytes.Buffer
}

func (c *memConn) Read(b []byte) (int, error)         { return c.r.Read(b) }
func (c *memConn) Write(b []byte) (int, error)        { return c.w.Write(b) }
func (c *memConn) Close() error                       { return nil }
func (c *memConn) LocalAddr() net.Addr                { return &net.TCPAddr{} }
func (c *memConn) RemoteAddr() net.Addr               { return &net.TCPAddr{} }
func (c *memConn) SetDeadline(t time.Time) error      { return nil }
func (c *memConn) SetReadDeadline(t time.Time) error  { return nil }
func (c *memConn) SetWriteDeadline(t time.Time) error { return nil }

// the two stacks of createMessage functions, as the node composes them
var layers = []p2p.CreateMessage{
	ppeer.CreateMessageVerif(elanet.CreateMessageVerif),
	dpeer.CreateMessageVerif(dpos.CreateMessageVerif),
}
var layerName = []string{"p2p/peer+elanet", "dpos/p2p/peer+dpos"}

// harness-side list of commands per layer with a constructor of the empty
// message (used for MaxLength, for the decode oracle and to build samples);
// independent of the tables under test.
type cmdInfo struct {
	cmd   string
	empty func() p2p.Message
}

func mainCmds() []cmdInfo {
	return []cmdInfo{
		{p2p.CmdVersion, func() p2p.Message { return &msg.Version{} }},
		{p2p.CmdVerAck, func() p2p.Message { return &msg.VerAck{} }},
		{p2p.CmdGetAddr, func() p2p.Message { return &msg.GetAddr{} }},
		{p2p.CmdAddr, func() p2p.Message { return &msg.Addr{} }},
		{p2p.CmdPing, func() p2p.Message { return &msg.Ping{} }},
		{p2p.CmdPong, func() p2p.Message { return &msg.Pong{} }},
		{p2p.CmdMemPool, func() p2p.Message { return &msg.MemPool{} }},
		{p2p.CmdTx, func() p2p.Message { return &msg.Tx{} }},
		{p2p.CmdBlock, func() p2p.Message { return msg.NewBlock(&types.DposBlock{}) }},
		{p2p.CmdInv, func() p2p.Message { return &msg.Inv{} }},
		{p2p.CmdNotFound, func() p2p.Message { return &msg.NotFound{} }},
		{p2p.CmdGetData, func() p2p.Message { return &msg.GetData{} }},
		{p2p.CmdGetBlocks, func() p2p.Message { return &msg.GetBlocks{} }},
		{p2p.CmdFilterAdd, func() p2p.Message { return &msg.FilterAdd{} }},
		{p2p.CmdFilterClear, func() p2p.Message { return &msg.FilterClear{} }},
		{p2p.CmdFilterLoad, func() p2p.Message { return &msg.FilterLoad{} }},
		{p2p.CmdTxFilter, func() p2p.Message { return &msg.TxFilterLoad{} }},
		{p2p.CmdReject, func() p2p.Message { return &msg.Reject{} }},
		{p2p.CmdDAddr, func() p2p.Message { return &msg.DAddr{} }},
	}
}

func dposCmds() []cmdInfo {
	return []cmdInfo{
		{dmsg.CmdVersion, func() p2p.Message { return &dmsg.Version{} }},
		{dmsg.CmdVerAck, func() p2p.Message { return &dmsg.VerAck{} }},
		{dmsg.CmdAddr, func() p2p.Message { return &dmsg.Addr{} }},
		{dmsg.CmdPing, func() p2p.Message { return &dmsg.Ping{} }},
		{dmsg.CmdPong, func() p2p.Message { return &dmsg.Pong{} }},
		{p2p.CmdBlock, func() p2p.Message { return msg.NewBlock(&types.Block{}) }},
		{p2p.CmdTx, func() p2p.Message { return &msg.Tx{} }},
		{dmsg.CmdAcceptVote, func() p2p.Message { return &dmsg.Vote{Command: dmsg.CmdAcceptVote} }},
		{dmsg.CmdReceivedProposal, func() p2p.Message { return &dmsg.Proposal{} }},
		{dmsg.CmdRejectVote, func() p2p.Message { return &dmsg.Vote{Command: dmsg.CmdRejectVote} }},
		{dmsg.CmdInv, func() p2p.Message { return &dmsg.Inventory{} }},
		{dmsg.CmdGetBlock, func() p2p.Message { return &dmsg.GetBlock{} }},
		{dmsg.CmdGetBlocks, func() p2p.Message { return &dmsg.GetBlocks{} }},
		{dmsg.CmdResponseBlocks, func() p2p.Message { return &dmsg.ResponseBlocks{} }},
		{dmsg.CmdRequestConsensus, func() p2p.Message { return &dmsg.RequestConsensus{} }},
		{dmsg.CmdResponseConsensus, func() p2p.Message { return &dmsg.ResponseConsensus{} }},
		{dmsg.CmdRequestProposal, func() p2p.Message { return &dmsg.RequestProposal{} }},
		{dmsg.CmdIllegalProposals, func() p2p.Message { return &dmsg.IllegalProposals{} }},
		{dmsg.CmdIllegalVotes, func() p2p.Message { return &dmsg.IllegalVotes{} }},
		{dmsg.CmdSidechainIllegalData, func() p2p.Message { return &dmsg.SidechainIllegalData{} }},
		{dmsg.CmdResponseInactiveArbitrators, func() p2p.Message { return &dmsg.ResponseInactiveArbitrators{} }},
		{dmsg.CmdResponseRevertToDPOS, func() p2p.Message { return &dmsg.ResponseRevertToDPOS{} }},
		{dmsg.CmdResetConsensusView, func() p2p.Message { return &dmsg.ResetView{} }},
	}
}

var cmdsOf = [][]cmdInfo{mainCmds(), dposCmds()}

func findCmd(layer int, cmd string) *cmdInfo {
	for i := range cmdsOf[layer] {
		if cmdsOf[layer][i].cmd == cmd {
			return &cmdsOf[layer][i]
		}
	}
	return nil
}

// decodeOracle: does the message type of (layer, cmd) decode the payload?
// Mirrors what the reader does after the checksum, on a fresh message.
func decodeOracle(layer int, cmd string, payload []byte) (ok bool) {
	ci := findCmd(layer, cmd)
	if ci == nil {
		return false
	}
	defer func() {
		if r := recover(); r != nil {
			ok = false
		}
	}()
	if cmd == p2p.CmdTx {
		r := bytes.NewReader(payload)
		txn, err := functions.GetTransactionByBytes(r)
		if err != nil {
			return false
		}
		return txn.Deserialize(r) == nil
	}
	return ci.empty().Deserialize(bytes.NewBuffer(payload)) == nil
}

func sha256d4(b []byte) []byte {
	a := sha256.Sum256(b)
	c := sha256.Sum256(a[:])
	return c[:4]
}

func buildWire(magic uint32, cmd string, declared uint32, cks []byte, payload []byte) []byte {
	var h [24]byte
	binary.LittleEndian.PutUint32(h[0:], magic)
	copy(h[4:16], cmd)
	binary.LittleEndian.PutUint32(h[16:], declared)
	copy(h[20:], cks)
	return append(h[:], payload...)
}

// classify maps the reader's error to the model's small enum.
func classify(err error) int {
	switch {
	case err == nil:
		return 0
	case err == io.EOF || err == io.ErrUnexpectedEOF:
		return 1
	case err == p2p.ErrInvalidHeader:
		return 2
	case err == p2p.ErrUnmatchedMagic:
		return 3
	case err == p2p.ErrMsgSizeExceeded:
		return 5
	case err == p2p.ErrInvalidPayload:
		return 6
	}
	s := err.Error()
	if strings.HasPrefix(s, "unhandled command") || strings.HasPrefix(s, "Received unsupported message") ||
		strings.HasPrefix(s, "invalid message") || strings.HasPrefix(s, "unhandled message") {
		return 4
	}
	return 7
}

var errName = []string{"ok", "short", "invalid-header", "unmatched-magic", "unknown-command", "size-exceeded", "invalid-payload", "decode-failed"}

type readObs struct {
	out      int
	cmd      string
	consumed int
	alloc    uint64
	msg      p2p.Message
	panicked interface{}
}

func readOnce(layer int, magic uint32, stream []byte) readObs {
	c := &memConn{r: bytes.NewReader(stream)}
	var o readObs
	var ms0, ms1 runtime.MemStats
	runtime.ReadMemStats(&ms0)
	var m p2p.Message
	var err error
	p, v := lib.Recover(func() { m, err = p2p.ReadMessage(c, magic, time.Second, layers[layer]) })
	runtime.ReadMemStats(&ms1)
	o.alloc = ms1.TotalAlloc - ms0.TotalAlloc
	o.consumed = len(stream) - c.r.Len()
	if p {
		o.panicked = v
		o.out = -1
		return o
	}
	o.out = classify(err)
	if err == nil {
		o.cmd = m.CMD()
		o.msg = m
	}
	// CheckAndCreateTxMessage returns the decoder's error unwrapped: an EOF
	// after the whole declared payload was consumed is a decode failure, not
	// a short read
	if o.out == 1 && len(stream) >= 24 {
		var h p2p.Header
		if h.Deserialize(stream[:24]) == nil && uint64(len(stream)-24) >= uint64(h.Length) && o.consumed == 24+int(h.Length) {
			o.out = 7
		}
	}
	return o
}

func serialize(m p2p.Message) (b []byte, err error) {
	defer func() {
		if r := recover(); r != nil {
			err = fmt.Errorf("panic: %v", r)
		}
	}()
	buf := new(bytes.Buffer)
	if e := m.Serialize(buf); e != nil {
		return nil, e
	}
	return buf.Bytes(), nil
}

func sampleTxUnused() interface{} {
	return nil
}

func main() {
	run := lib.ParseArgs()
	elaenv.InitLog(run.Out)
	functions.CreateTransaction = transaction.CreateTransaction
	functions.GetTransactionByTxType = transaction.GetTransaction
	functions.GetTransactionByBytes = transaction.GetTransactionByBytes
	rng := lib.NewRng(run.Seed)
	st := lib.NewStats("C35", "for every command of both stacks (19 + 23): sample messages written by WriteMessage and read back through the real tables (in-memory connection, net.Pipe for a subset), every header byte corrupted (4 variants quick / 255 thorough), sampled payload corruptions, declared lengths {0, max-1, max, max+1, 2^32-1} with and without enough payload, plus unknown / unterminated / NUL-embedded commands, wrong magic, truncated headers, random headers, a second setting of pact.MaxBlockContextSize. nontrivial = the read reached the table lookup (well-formed header with the right magic); distinct by (layer, header bytes, payload digest)")
	sh := &lib.Shards{Dir: run.Out, Imports: "From ELA Require Import model.C35_Framing corr.C35_corr.", CaseType: "C35_corr.case",
		Mismatch: "C35_corr.mismatches", Scope: "N", PerShard: 100}
	id := 0
	next := func() int { id++; return id }
	const magic = uint32(2017001)

	// emit one read observation as a Coq case (streams are kept small)
	// sweeps: many single-byte corruptions of one stream share the stream
	var sweepMuts []string
	inSweep := false
	decOf := func(layer int, stream []byte) bool {
		if len(stream) >= 24 {
			var h p2p.Header
			if h.Deserialize(stream[:24]) == nil && uint64(len(stream)-24) >= uint64(h.Length) && h.Length < 1<<20 {
				return decodeOracle(layer, h.GetCMD(), stream[24:24+int(h.Length)])
			}
		}
		return false
	}
	logRead := func(i, layer int, mg uint32, stream []byte, o readObs, kind string) {
		hd := stream
		if len(hd) > 24 {
			hd = hd[:24]
		}
		st.LogCase(run.Out, i, map[string]interface{}{"op": "ReadMessage", "kind": kind, "layer": layerName[layer], "magic": mg,
			"header": fmt.Sprintf("%x", hd), "stream_len": len(stream), "out": errName[max0(o.out)], "cmd": o.cmd, "consumed": o.consumed, "alloc": o.alloc})
		st.Count(fmt.Sprintf("rd:%d:%x:%x", layer, hd, sha256d4(stream)), o.out == 0 || o.out >= 4, kind+":"+errName[max0(o.out)])
		if o.panicked != nil {
			st.Fail("p2p.ReadMessage:panic", fmt.Sprintf("ReadMessage panicked: %v", o.panicked),
				map[string]interface{}{"layer": layerName[layer], "stream": fmt.Sprintf("%x", clip(stream, 200))})
		}
	}
	emitMut := func(layer int, mg uint32, stream []byte, pos int, x byte, o readObs, kind string) {
		if !inSweep {
			panic("emitMut outside a sweep")
		}
		i := next()
		sweepMuts = append(sweepMuts, fmt.Sprintf("(%d,%d,%d,%s,%d,%d,%s)", i, pos, x, lib.CoqBool(decOf(layer, stream)), o.out, o.consumed, lib.CoqBytes([]byte(o.cmd))))
		logRead(i, layer, mg, stream, o, kind)
	}
	beginSweep := func() { inSweep, sweepMuts = true, nil }
	endSweep := func(layer int, mg uint32, base []byte) {
		inSweep = false
		if len(base) > 24+200 && !run.Thorough() {
			sweepMuts = nil // large payloads: Go-side oracle only in the quick tier (SHA-256 in Coq costs ~4 ms per block)
		}
		for len(sweepMuts) > 0 {
			n := len(sweepMuts)
			if n > 40 {
				n = 40
			}
			sh.Add(fmt.Sprintf("CSweep %d %d %d %d %s %s", layer, pact.MaxBlockContextSize, pact.MaxBlockHeaderSize, mg, lib.CoqBytes(base), lib.CoqList(sweepMuts[:n])))
			sweepMuts = sweepMuts[n:]
		}
	}
	emitRead := func(layer int, mg uint32, stream []byte, o readObs, kind string) int {
		i := next()
		sh.Add(fmt.Sprintf("CRead %d %d %d %d %d %s %s %d %s %d", i, layer, pact.MaxBlockContextSize, pact.MaxBlockHeaderSize, mg,
			lib.CoqBytes(stream), lib.CoqBool(decOf(layer, stream)), o.out, lib.CoqBytes([]byte(o.cmd)), o.consumed))
		logRead(i, layer, mg, stream, o, kind)
		return i
	}

	type sample struct {
		layer   int
		cmd     string
		payload []byte
	}
	var samples []sample

	// ---------------------------------------------------------------- samples: one or more valid payloads per command
	for layer := 0; layer < 2; layer++ {
		for _, ci := range cmdsOf[layer] {
			ps := samplePayloads(layer, ci, rng)
			if len(ps) == 0 {
				st.Fail("harness:no-sample", "no decodable sample payload for command", map[string]interface{}{"layer": layerName[layer], "cmd": ci.cmd})
			}
			for _, p := range ps {
				samples = append(samples, sample{layer, ci.cmd, p})
			}
		}
	}

	// ---------------------------------------------------------------- A. write then read (round trip), through both real functions
	for k, s := range samples {
		ci := findCmd(s.layer, s.cmd)
		m := ci.empty()
		var derr error
		if s.cmd == p2p.CmdTx {
			r := bytes.NewReader(s.payload)
			txn, e := functions.GetTransactionByBytes(r)
			if e == nil {
				e = txn.Deserialize(r)
			}
			derr = e
			m = msg.NewTx(txn)
		} else {
			derr = m.Deserialize(bytes.NewBuffer(s.payload))
		}
		if derr != nil {
			panic(fmt.Sprintf("sample of %s does not decode: %v", s.cmd, derr))
		}
		wc := &memConn{r: bytes.NewReader(nil)}
		werr := p2p.WriteMessage(wc, magic, m, time.Second, func(p2p.Message) (*types.DposBlock, bool) { return nil, false })
		wire := append([]byte{}, wc.w.Bytes()...)
		pl, _ := serialize(m)
		if len(pl) <= 3000 {
			i := next()
			sh.Add(fmt.Sprintf("CWrite %d %d %s %s %s %s", i, magic, lib.CoqBytes([]byte(m.CMD())), lib.CoqBytes(pl), lib.CoqBool(werr == nil), lib.CoqBytes(wire)))
			st.LogCase(run.Out, i, map[string]interface{}{"op": "WriteMessage", "cmd": m.CMD(), "payload_len": len(pl), "ok": werr == nil})
			st.Count(fmt.Sprintf("wr:%s:%x", m.CMD(), sha256d4(pl)), true, "write")
		}
		if werr != nil {
			st.Fail("p2p.WriteMessage:error", "WriteMessage failed on a sample message", map[string]interface{}{"cmd": s.cmd, "err": werr.Error()})
			continue
		}
		rest := rng.Bytes(rng.Intn(5))
		stream := append(append([]byte{}, wire...), rest...)
		var o readObs
		if k%3 == 0 {
			o = readPipe(s.layer, magic, stream)
		} else {
			o = readOnce(s.layer, magic, stream)
		}
		if len(stream) <= 3100 {
			emitRead(s.layer, magic, stream, o, "roundtrip")
		} else {
			st.Count(fmt.Sprintf("rdbig:%d:%s:%d", s.layer, s.cmd, len(stream)), true, "roundtrip-large(go-oracle-only)")
		}
		// oracle: read back as an equal message, exactly the frame consumed
		back, _ := serializeMsg(o.msg)
		if o.out != 0 || o.cmd != m.CMD() || !bytes.Equal(back, pl) || o.consumed != len(wire) {
			st.Fail("p2p.ReadMessage:roundtrip", "a written message is not read back as an equal message",
				map[string]interface{}{"layer": layerName[s.layer], "cmd": s.cmd, "out": errName[max0(o.out)], "payload": fmt.Sprintf("%x", clip(pl, 100)), "consumed": o.consumed, "wire_len": len(wire)})
		}
	}
	st.Sample(map[string]interface{}{"op": "roundtrip", "commands": len(samples)})

	// ---------------------------------------------------------------- B. every header byte corrupted
	variants := []byte{0x01, 0x80, 0x20}
	for si, s := range samples {
		if len(s.payload) > 600 {
			continue
		}
		_ = si
		wire := buildWire(magic, s.cmd, uint32(len(s.payload)), sha256d4(s.payload), s.payload)
		beginSweep()
		for pos := 0; pos < 24; pos++ {
			var xs []byte
			if run.Thorough() {
				for x := 1; x < 256; x++ {
					xs = append(xs, byte(x))
				}
			} else {
				xs = variants
			}
			for _, x := range xs {
				stream := append([]byte{}, wire...)
				stream[pos] ^= x
				o := readOnce(s.layer, magic, stream)
				emitMut(s.layer, magic, stream, pos, x, o, fieldOf(pos)+"-corrupt")
				if o.out == 0 {
					back, _ := serializeMsg(o.msg)
					switch {
					case o.cmd != s.cmd && pos >= 4 && pos < 16:
						st.Fail(sigCmd, "a frame whose command field was corrupted is accepted as another known command",
							map[string]interface{}{"layer": layerName[s.layer], "sent": s.cmd, "read_as": o.cmd, "pos": pos, "xor": x})
					case o.cmd == s.cmd && bytes.Equal(back, s.payload):
						st.Fail("p2p.ReadMessage:header-corruption-accepted", "a frame with a corrupted header byte is read as the original message",
							map[string]interface{}{"layer": layerName[s.layer], "cmd": s.cmd, "pos": pos, "xor": x})
					default:
						st.Fail("p2p.ReadMessage:header-corruption-accepted", "a frame with a corrupted header byte is accepted",
							map[string]interface{}{"layer": layerName[s.layer], "cmd": s.cmd, "read_as": o.cmd, "pos": pos, "xor": x})
					}
				}
				if (pos < 16 || o.out == 5) && o.alloc > 64<<10 && o.out != 0 {
					st.Fail("p2p.ReadMessage:alloc-before-check", "a frame rejected for magic/command/length allocated more than 64 KiB",
						map[string]interface{}{"layer": layerName[s.layer], "cmd": s.cmd, "pos": pos, "alloc": o.alloc})
				}
			}
		}
		endSweep(s.layer, magic, wire)
	}

	// ---------------------------------------------------------------- C. payload corruptions
	for _, s := range samples {
		if len(s.payload) == 0 || len(s.payload) > 600 {
			continue
		}
		wire := buildWire(magic, s.cmd, uint32(len(s.payload)), sha256d4(s.payload), s.payload)
		beginSweep()
		for k := 0; k < run.N(4, 200); k++ {
			stream := append([]byte{}, wire...)
			pos := 24 + rng.Intn(len(s.payload))
			x := byte(1 << uint(rng.Intn(8)))
			stream[pos] ^= x
			o := readOnce(s.layer, magic, stream)
			emitMut(s.layer, magic, stream, pos, x, o, "payload-corrupt")
			if o.out == 0 {
				st.Fail("p2p.ReadMessage:payload-corruption-accepted", "a frame with a corrupted payload byte is accepted (or a SHA-256d 32-bit collision was found)",
					map[string]interface{}{"layer": layerName[s.layer], "cmd": s.cmd, "pos": pos})
			}
		}
		endSweep(s.layer, magic, wire)
	}

	// ---------------------------------------------------------------- D. declared lengths around MaxLength
	lengthProbe := func(tag string, only map[string]bool) {
		for layer := 0; layer < 2; layer++ {
			for _, ci := range cmdsOf[layer] {
				if only != nil && !only[ci.cmd] {
					continue
				}
				mx := ci.empty().MaxLength()
				for _, d := range []uint64{0, uint64(mx) - 1, uint64(mx), uint64(mx) + 1, uint64(mx) + 2, 0xffffffff, 1 << 31} {
					if d > 0xffffffff {
						continue
					}
					for _, have := range []int{0, 5} {
						pl := rng.Bytes(have)
						stream := buildWire(magic, ci.cmd, uint32(d), sha256d4(pl), pl)
						o := readOnce(layer, magic, stream)
						emitRead(layer, magic, stream, o, tag)
						if d > uint64(mx) && o.out != 5 {
							st.Fail("p2p.ReadMessage:oversize-not-refused", "declared length above MaxLength is not refused with ErrMsgSizeExceeded",
								map[string]interface{}{"layer": layerName[layer], "cmd": ci.cmd, "declared": d, "max": mx, "out": errName[max0(o.out)]})
						}
						if d <= uint64(mx) && o.out == 5 {
							st.Fail("p2p.ReadMessage:within-limit-refused", "declared length within MaxLength refused with ErrMsgSizeExceeded",
								map[string]interface{}{"layer": layerName[layer], "cmd": ci.cmd, "declared": d, "max": mx})
						}
						if d > uint64(mx) && o.alloc > 64<<10 {
							st.Fail("p2p.ReadMessage:alloc-before-check", "oversize declared length allocated more than 64 KiB before the refusal",
								map[string]interface{}{"layer": layerName[layer], "cmd": ci.cmd, "declared": d, "alloc": o.alloc})
						}
						if d <= uint64(mx) && o.alloc > d+uint64(mx)+(256<<10) {
							st.Fail("p2p.ReadMessage:alloc-above-limit", "allocated more than the declared length + MaxLength + 256 KiB",
								map[string]interface{}{"layer": layerName[layer], "cmd": ci.cmd, "declared": d, "alloc": o.alloc})
						}
					}
				}
			}
		}
	}
	lengthProbe("length-probe", nil)
	// a second configuration of the block limits (MaxLength of tx / block / side_ill follow it)
	oldCtx, oldHs := pact.MaxBlockContextSize, pact.MaxBlockHeaderSize
	pact.MaxBlockContextSize, pact.MaxBlockHeaderSize = 2000000, 500000
	lengthProbe("length-probe(ctx=2000000)", map[string]bool{"tx": true, "block": true, "side_ill": true, "ping": true})
	pact.MaxBlockContextSize, pact.MaxBlockHeaderSize = oldCtx, oldHs

	// ---------------------------------------------------------------- E. malformed headers
	for layer := 0; layer < 2; layer++ {
		ping := []byte{1, 2, 3, 4, 5, 6, 7, 8}
		good := buildWire(magic, "ping", 8, sha256d4(ping), ping)
		// truncated headers and payloads
		for _, n := range []int{0, 1, 4, 16, 23, 24, 25, 31} {
			o := readOnce(layer, magic, good[:n])
			emitRead(layer, magic, good[:n], o, "truncated")
			if o.out != 1 {
				st.Fail("p2p.ReadMessage:truncated-accepted", "a truncated frame did not fail with EOF", map[string]interface{}{"n": n, "out": errName[max0(o.out)]})
			}
		}
		// wrong magic
		for _, mg := range []uint32{0, magic + 1, magic ^ 0x80000000, 0xffffffff} {
			o := readOnce(layer, mg, good)
			emitRead(layer, mg, good, o, "wrong-magic")
			if o.out != 3 {
				st.Fail("p2p.ReadMessage:wrong-magic-accepted", "a frame of another network was not refused with ErrUnmatchedMagic", map[string]interface{}{"magic": mg, "out": errName[max0(o.out)]})
			}
		}
		// commands: unknown, unterminated (12 bytes), embedded NUL, empty, other layer's, case
		for _, c := range []string{"", "pingx", "PING", "abcdefghijkl", "ping\x00x", "\x00ping", "versionversi", "merkleblock", "getaddr", "get_blc", "rev_to_dpos", "reset_view", "filterclear", "rev_to_dposx"} {
			stream := buildWire(magic, c, 8, sha256d4(ping), ping)
			o := readOnce(layer, magic, stream)
			emitRead(layer, magic, stream, o, "command")
			known := findCmd(layer, c) != nil
			if !known && o.out == 0 {
				st.Fail("p2p.ReadMessage:unknown-command-accepted", "a command outside the layer's table was accepted", map[string]interface{}{"layer": layerName[layer], "cmd": c})
			}
			if !known && o.alloc > 64<<10 {
				st.Fail("p2p.ReadMessage:alloc-before-check", "unknown command allocated more than 64 KiB", map[string]interface{}{"cmd": c, "alloc": o.alloc})
			}
		}
		// random headers
		for k := 0; k < run.N(60, 5000); k++ {
			stream := rng.Bytes(24 + rng.Intn(12))
			if rng.Chance(70) {
				binary.LittleEndian.PutUint32(stream[0:], magic)
			}
			if rng.Chance(60) {
				cs := cmdsOf[layer]
				copy(stream[4:16], make([]byte, 12))
				copy(stream[4:16], cs[rng.Intn(len(cs))].cmd)
			}
			if rng.Chance(50) {
				binary.LittleEndian.PutUint32(stream[16:], uint32(rng.Intn(12)))
			}
			o := readOnce(layer, magic, stream)
			emitRead(layer, magic, stream, o, "random-header")
			if o.out == 0 && len(stream) > 24 {
				var h p2p.Header
				h.Deserialize(stream[:24])
				pl := stream[24 : 24+int(h.Length)]
				if !bytes.Equal(h.Checksum[:], sha256d4(pl)) {
					st.Fail("p2p.ReadMessage:bad-checksum-accepted", "accepted although the checksum field is not SHA-256d(payload)[:4]", map[string]interface{}{"stream": fmt.Sprintf("%x", stream)})
				}
			}
		}
	}

	// the refuted statement's witness (C35_corrupt_command_rejected_refuted): ping -> pong
	{
		ping := []byte{1, 2, 3, 4, 5, 6, 7, 8}
		stream := buildWire(2017, "pong", 8, sha256d4(ping), ping)
		o := readOnce(0, 2017, stream)
		emitRead(0, 2017, stream, o, "witness:ping->pong")
		if o.out == 0 && o.cmd == "pong" {
			st.Fail(sigCmd, "a frame whose command field was corrupted is accepted as another known command",
				map[string]interface{}{"layer": layerName[0], "sent": "ping", "read_as": o.cmd, "pos": 5, "xor": 'i' ^ 'o'})
		}
	}

	st.Traces = st.Evals
	sh.Flush()
	st.Write(run.Out)
	_ = errors.New
	_ = common.Uint256{}
	_ = common2.OutPoint{}
	_ = payload.TransferAsset{}
	_ = outputpayload.DefaultOutput{}
}

func max0(i int) int {
	if i < 0 {
		return 0
	}
	return i
}

func clip(b []byte, n int) []byte {
	if len(b) > n {
		return b[:n]
	}
	return b
}

func fieldOf(pos int) string {
	switch {
	case pos < 4:
		return "magic"
	case pos < 16:
		return "command"
	case pos < 20:
		return "length"
	}
	return "checksum"
}

func serializeMsg(m p2p.Message) ([]byte, error) {
	if m == nil {
		return nil, errors.New("nil")
	}
	return serialize(m)
}

// readPipe reads through a real net.Pipe: a writer goroutine sends the stream and closes.
func readPipe(layer int, magic uint32, stream []byte) readObs {
	a, b := net.Pipe()
	go func() {
		a.Write(stream)
		a.Close()
	}()
	var o readObs
	m, err := p2p.ReadMessage(b, magic, 5*time.Second, layers[layer])
	o.out = classify(err)
	if err == nil {
		o.cmd = m.CMD()
		o.msg = m
		var h p2p.Header
		h.Deserialize(stream[:24])
		o.consumed = 24 + int(h.Length)
	}
	b.Close()
	return o
}
