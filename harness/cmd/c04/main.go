// C04 correspondence + oracle: every transaction type x payload version x
// transaction version with reflection-generated contents is serialized by the
// real code, decoded again, re-encoded, hashed; the fields the getters report
// go to the typed Coq model (coq/model/C04_Codec.v).
package main

import (
	"bytes"
	"encoding/hex"
	"fmt"
	"reflect"
	"strings"

	elacommon "github.com/elastos/Elastos.ELA/common"
	pg "github.com/elastos/Elastos.ELA/core/contract/program"
	"github.com/elastos/Elastos.ELA/core/transaction"
	"github.com/elastos/Elastos.ELA/core/types"
	common2 "github.com/elastos/Elastos.ELA/core/types/common"
	"github.com/elastos/Elastos.ELA/core/types/interfaces"

	"verifharness/codecgen"
	"verifharness/elaenv"
	"verifharness/lib"
)

func decodeTx(b []byte) (interfaces.Transaction, int, error) {
	r := bytes.NewReader(b)
	tx, err := transaction.GetTransactionByBytes(r)
	if err != nil {
		return nil, 0, err
	}
	if err := tx.Deserialize(r); err != nil {
		return nil, 0, err
	}
	return tx, r.Len(), nil
}

func ser(f func(w *bytes.Buffer) error) ([]byte, error) {
	var buf bytes.Buffer
	err := f(&buf)
	return buf.Bytes(), err
}

// semEq: structural equality on exported fields, nil slice == empty slice.
func semEq(a, b reflect.Value) bool {
	if a.Kind() != b.Kind() {
		return false
	}
	switch a.Kind() {
	case reflect.Ptr, reflect.Interface:
		if a.IsNil() || b.IsNil() {
			return a.IsNil() == b.IsNil()
		}
		return semEq(a.Elem(), b.Elem())
	case reflect.Struct:
		if a.Type() != b.Type() {
			return false
		}
		for i := 0; i < a.NumField(); i++ {
			if a.Type().Field(i).PkgPath != "" { // unexported (hash caches)
				continue
			}
			if !semEq(a.Field(i), b.Field(i)) {
				return false
			}
		}
		return true
	case reflect.Slice, reflect.Array:
		if a.Len() != b.Len() {
			return false
		}
		for i := 0; i < a.Len(); i++ {
			if !semEq(a.Index(i), b.Index(i)) {
				return false
			}
		}
		return true
	case reflect.String:
		return a.String() == b.String()
	case reflect.Bool:
		return a.Bool() == b.Bool()
	case reflect.Uint8, reflect.Uint16, reflect.Uint32, reflect.Uint64, reflect.Uint:
		return a.Uint() == b.Uint()
	case reflect.Int8, reflect.Int16, reflect.Int32, reflect.Int64, reflect.Int:
		return a.Int() == b.Int()
	}
	return true
}

func envelopeEq(a, b interfaces.Transaction, v9 bool, strict bool) string {
	if a.Version() != b.Version() && !(a.Version() < 9 && b.Version() == 0) {
		return "version"
	}
	if a.TxType() != b.TxType() || a.PayloadVersion() != b.PayloadVersion() || a.LockTime() != b.LockTime() {
		return "type/payload version/lock time"
	}
	if !semEq(reflect.ValueOf(a.Attributes()), reflect.ValueOf(b.Attributes())) {
		return "attributes"
	}
	if !semEq(reflect.ValueOf(a.Inputs()), reflect.ValueOf(b.Inputs())) {
		return "inputs"
	}
	if !semEq(reflect.ValueOf(a.Programs()), reflect.ValueOf(b.Programs())) {
		return "programs"
	}
	ao, bo := a.Outputs(), b.Outputs()
	if len(ao) != len(bo) {
		return "outputs"
	}
	for i := range ao {
		if ao[i].AssetID != bo[i].AssetID || ao[i].Value != bo[i].Value || ao[i].OutputLock != bo[i].OutputLock || ao[i].ProgramHash != bo[i].ProgramHash {
			return "output fields"
		}
		if v9 {
			// fields an output payload version does not serialize (VoteOutput version 0
			// has no Votes) are not expected to survive: compare the serialized payloads,
			// and structurally only when strict (both sides already went through a decode)
			pa, ea := ser(func(w *bytes.Buffer) error { return ao[i].Payload.Serialize(w) })
			pb, eb := ser(func(w *bytes.Buffer) error { return bo[i].Payload.Serialize(w) })
			if ao[i].Type != bo[i].Type || ea != nil || eb != nil || !bytes.Equal(pa, pb) {
				return "output payload"
			}
			if strict && !semEq(reflect.ValueOf(ao[i].Payload), reflect.ValueOf(bo[i].Payload)) {
				return "output payload (structure)"
			}
		}
	}
	return ""
}

func hx(b []byte) string { return hex.EncodeToString(b) }

func coqTx(id int, tx interfaces.Transaction, ulen int, full []byte) (string, bool) {
	pv := tx.PayloadVersion()
	pb, err := ser(func(w *bytes.Buffer) error { return tx.Payload().Serialize(w, pv) })
	if err != nil {
		return "", false
	}
	var attrs, ins, outs, progs []string
	for _, a := range tx.Attributes() {
		attrs = append(attrs, fmt.Sprintf("(%d, %s)", a.Usage, lib.CoqBytes(a.Data)))
	}
	for _, i := range tx.Inputs() {
		ins = append(ins, fmt.Sprintf("(%s, %d, %d)", lib.CoqBytes(i.Previous.TxID[:]), i.Previous.Index, i.Sequence))
	}
	for _, o := range tx.Outputs() {
		pl := "None"
		if tx.Version() >= common2.TxVersion09 {
			ob, err := ser(func(w *bytes.Buffer) error { return o.Payload.Serialize(w) })
			if err != nil {
				return "", false
			}
			pl = fmt.Sprintf("(Some (%d, %s))", o.Type, lib.CoqBytes(ob))
		}
		outs = append(outs, fmt.Sprintf("(%s, %d, %d, %s, %s)", lib.CoqBytes(o.AssetID[:]), uint64(o.Value), o.OutputLock, lib.CoqBytes(o.ProgramHash[:]), pl))
	}
	for _, p := range tx.Programs() {
		progs = append(progs, fmt.Sprintf("(%s, %s)", lib.CoqBytes(p.Parameter), lib.CoqBytes(p.Code)))
	}
	return fmt.Sprintf("CTx %d %d %d %d %s %s %s %s %d %s %d %s", id, tx.Version(), tx.TxType(), pv, lib.CoqBytes(pb),
		lib.CoqList(attrs), lib.CoqList(ins), lib.CoqList(outs), tx.LockTime(), lib.CoqList(progs), ulen, lib.CoqBytes(full)), true
}

func main() {
	run := lib.ParseArgs()
	elaenv.InitLog(run.Out)
	codecgen.Init()
	rng := lib.NewRng(run.Seed)
	st := lib.NewStats("C04", "every tx type (44) x payload version {0,1,2,3,4,200} x tx version {0 for types<9, 9, random 10..255}: payload filled by reflection (every slice 0..3 elements, byte strings 0/1/2/20/21/33 long, boundary integers), 0..3 attributes/inputs/outputs (all 8 output payload types)/programs; blocks of 0..4 such transactions. nontrivial = serialized, decoded and compared; distinct by bytes")
	sh := &lib.Shards{Dir: run.Out, Imports: "From ELA Require Import corr.C04_corr.", CaseType: "C04_corr.case",
		Mismatch: "C04_corr.mismatches", Scope: "N", PerShard: 60}
	id := 0
	skipped := 0
	typesSeen := map[string]bool{}
	reps := run.N(1, 12)
	for ti, t := range codecgen.TxTypes {
		ty := common2.TxType(t)
		pvs := []byte{0, 1, 2, 3, 4, 200}
		if !run.Thorough() { // quick: versions 0..3 and alternately 4 / 200
			pvs = []byte{0, 1, 2, 3, []byte{4, 200}[ti%2]}
		}
		for _, pv := range pvs {
			for rep := 0; rep < reps; rep++ {
				vers := []common2.TransactionVersion{common2.TxVersion09}
				if ty < 9 {
					vers = append(vers, common2.TxVersionDefault)
				}
				if rng.Chance(30) {
					vers = append(vers, common2.TransactionVersion(10+rng.Intn(246)))
				}
				for _, ver := range vers {
					x0 := codecgen.RandomTx(rng, ty, pv, ver)
					if x0 == nil {
						continue
					}
					full, err := ser(func(w *bytes.Buffer) error { return x0.Serialize(w) })
					if err != nil || len(full) > run.N(600, 4000) {
						skipped++
						continue
					}
					id++
					in := map[string]interface{}{"type": ty.Name(), "tx_type": t, "payload_version": pv, "tx_version": ver, "bytes": hx(full)}
					site := fmt.Sprintf("tx[%s,pv%d]", ty.Name(), pv)
					unsigned, _ := ser(func(w *bytes.Buffer) error { return x0.SerializeUnsigned(w) })
					// (i) decode(encode x0) succeeds and consumes everything
					x1, rem, err := decodeTx(full)
					if err != nil || rem != 0 {
						in["err"] = fmt.Sprint(err)
						in["rem"] = rem
						st.Fail(site+":decode", "a serialized transaction does not decode (completely)", in)
						st.Count(hx(full), true, "decode-failed")
						continue
					}
					// (ii) re-encoding is stable
					full1, _ := ser(func(w *bytes.Buffer) error { return x1.Serialize(w) })
					if !bytes.Equal(full1, full) {
						in["reencoded"] = hx(full1)
						st.Fail(site+":reencode", "decode then encode changes the bytes", in)
					}
					// (iii) envelope fields survive; (iv) payload is a fixed point of decode . encode
					if d := envelopeEq(x0, x1, ver >= 9, false); d != "" {
						in["field"] = d
						st.Fail(site+":fields", "decode(encode t) differs from t in "+d, in)
					}
					x2, _, err2 := decodeTx(full1)
					if err2 != nil || !semEq(reflect.ValueOf(x1.Payload()), reflect.ValueOf(x2.Payload())) || envelopeEq(x1, x2, ver >= 9, true) != "" {
						st.Fail(site+":stable", "a decoded transaction does not re-decode to itself", in)
					}
					// (v) hash = sha256d(unsigned serialization), equal across the round trip
					h0 := x0.Hash()
					if h0 != elacommon.Sha256D(unsigned) || x1.Hash() != h0 || !bytes.HasPrefix(full, unsigned) {
						st.Fail(site+":hash", "hash is not the double hash of the unsigned prefix / changes across the round trip", in)
					}
					// (vi) replacing the programs keeps the hash and changes only the program part
					x3, _, _ := decodeTx(full)
					var progs []*pg.Program
					for i, n := 0, rng.Intn(3); i < n; i++ {
						progs = append(progs, codecgen.RandomProgram(rng))
					}
					x3.SetPrograms(progs)
					full3, _ := ser(func(w *bytes.Buffer) error { return x3.Serialize(w) })
					x4, _, err4 := decodeTx(full3)
					if x3.Hash() != h0 || err4 != nil || x4.Hash() != h0 || !bytes.HasPrefix(full3, unsigned) {
						in["programs_replaced"] = hx(full3)
						st.Fail(site+":programs", "the hash changes when the programs are replaced", in)
					}
					term, ok := coqTx(id, x1, len(unsigned), full)
					if !ok {
						skipped++
						continue
					}
					sh.Add(term)
					st.LogCase(run.Out, id, in)
					st.Count(hx(full), true, fmt.Sprintf("tx:v%d", map[bool]int{true: 9, false: 0}[ver >= 9]))
					typesSeen[fmt.Sprintf("%s/pv%d", ty.Name(), pv)] = true
					if id <= 3 {
						st.Sample(in)
					}
				}
			}
		}
	}
	// blocks
	for i := 0; i < run.N(5, 80); i++ {
		b := codecgen.RandomBlock(rng, []int{0, 1, 2, 4}[rng.Intn(4)])
		full, err := ser(func(w *bytes.Buffer) error { return b.Serialize(w) })
		if err != nil || len(full) > run.N(1500, 8000) {
			skipped++
			continue
		}
		id++
		in := map[string]interface{}{"block": hx(full), "txs": len(b.Transactions)}
		b1 := &types.Block{}
		r := bytes.NewReader(full)
		if err := b1.Deserialize(r); err != nil || r.Len() != 0 {
			st.Fail("block:decode", "a serialized block does not decode (completely)", in)
			st.Count(hx(full), true, "decode-failed")
			continue
		}
		full1, _ := ser(func(w *bytes.Buffer) error { return b1.Serialize(w) })
		if !bytes.Equal(full, full1) || b1.Hash() != b.Hash() || len(b1.Transactions) != len(b.Transactions) {
			st.Fail("block:reencode", "decode then encode changes the block bytes / hash", in)
		}
		var lens []string
		for k, tx := range b1.Transactions {
			tb, _ := ser(func(w *bytes.Buffer) error { return tx.Serialize(w) })
			lens = append(lens, fmt.Sprint(len(tb)))
			if tx.Hash() != b.Transactions[k].Hash() {
				st.Fail("block:txhash", "a transaction hash changes across the block round trip", in)
			}
		}
		h := b1.Header
		sh.Add(fmt.Sprintf("CBlock %d %d %s %s %d %d %d %d %s %s", id, h.Version, lib.CoqBytes(h.Previous[:]), lib.CoqBytes(h.MerkleRoot[:]),
			h.Timestamp, h.Bits, h.Nonce, h.Height, lib.CoqList(lens), lib.CoqBytes(full)))
		st.LogCase(run.Out, id, in)
		st.Count(hx(full), true, "block")
	}
	var seen []string
	for k := range typesSeen {
		seen = append(seen, k)
	}
	st.Extra["type_x_payload_version_covered"] = len(seen)
	st.Extra["skipped_unserializable_or_large"] = skipped
	st.Extra["typed_lift"] = "transaction envelope, outputs, inputs, attributes, programs, header, block; payloads/output payloads/auxpow at descriptor level"
	_ = strings.Join
	st.Traces = st.Evals
	sh.Flush()
	st.Write(run.Out)
}
