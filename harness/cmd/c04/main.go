// C04 correspondence + oracle: every transaction type x payload version x
// transaction version with reflection-generated contents is serialized by the
// real code, decoded again, re-encoded, hashed; the fields the getters report
// go to the typed Coq model (coq/model/C04_Codec.v).
package main

import (
	"bytes"
	"encoding/hex"
	"fmt"
	"os"
	"path/filepath"
	"reflect"
	"strings"

	elacommon "github.com/elastos/Elastos.ELA/common"
	pg "github.com/elastos/Elastos.ELA/core/contract/program"
	"github.com/elastos/Elastos.ELA/core/transaction"
	"github.com/elastos/Elastos.ELA/core/types"
	common2 "github.com/elastos/Elastos.ELA/core/types/common"
	"github.com/elastos/Elastos.ELA/core/types/interfaces"

	"github.com/elastos/Elastos.ELA/core/types/payload"

	"verifharness/codecgen"
	"verifharness/elaenv"
	"verifharness/lib"
)

// recording reader: offsets and sizes of all reads (to find flag/enum/prefix bytes)
type recReader struct {
	r     *bytes.Reader
	total int
	reads [][2]int
}

func (m *recReader) Read(p []byte) (int, error) {
	off := m.total - m.r.Len()
	n, err := m.r.Read(p)
	m.reads = append(m.reads, [2]int{off, len(p)})
	return n, err
}

// hashOfValue checks, for a transaction x obtained by decoding some accepted
// byte string, that its hash is a function of its value: equal to the double
// hash of its own unsigned serialization, to the hash after one
// re-encode/decode cycle, and to the hash of an equal transaction built in memory.
func hashOfValue(x interfaces.Transaction) string {
	h := x.Hash()
	unsigned, err := ser(func(w *bytes.Buffer) error { return x.SerializeUnsigned(w) })
	if err != nil {
		return ""
	}
	if h != elacommon.Sha256D(unsigned) {
		return "Hash() != Sha256D(SerializeUnsigned()) of the decoded value"
	}
	full, err := ser(func(w *bytes.Buffer) error { return x.Serialize(w) })
	if err != nil {
		return ""
	}
	y, rem, err := decodeTx(full)
	if err != nil || rem != 0 {
		return "the re-encoding of a decoded transaction does not decode"
	}
	if y.Hash() != h {
		return "hash changes after one re-encode/decode cycle"
	}
	z := transaction.CreateTransaction(x.Version(), x.TxType(), x.PayloadVersion(), x.Payload(), x.Attributes(), x.Inputs(), x.Outputs(), x.LockTime(), x.Programs())
	if z.Hash() != h {
		return "hash differs from the hash of an equal transaction built in memory"
	}
	return ""
}

func genData(n int) []byte {
	b := make([]byte, n)
	for i := range b {
		b[i] = byte((i*7 + 3) % 251)
	}
	return b
}

func bsum(bs []byte) uint64 {
	var a uint64
	for _, b := range bs {
		a = (a*31 + uint64(b) + 1) % 4294967291
	}
	return a
}

// genTx mirrors corr/C04_corr.v [gen_tx].
func genTx(kind, n int) interfaces.Transaction {
	d := genData(n)
	switch kind {
	case 0:
		return transaction.CreateTransaction(9, common2.TransferAsset, 0, &payload.TransferAsset{},
			[]*common2.Attribute{{Usage: common2.Memo, Data: d}}, nil, nil, 0, nil)
	case 1:
		return transaction.CreateTransaction(9, common2.WithdrawFromSideChain, 2, &payload.WithdrawFromSideChain{Signers: d}, nil, nil, nil, 0, nil)
	case 2:
		progs := make([]*pg.Program, n)
		for i := range progs {
			progs[i] = &pg.Program{}
		}
		return transaction.CreateTransaction(9, common2.TransferAsset, 0, &payload.TransferAsset{}, nil, nil, nil, 0, progs)
	}
	return transaction.CreateTransaction(9, common2.Record, 0, &payload.Record{Type: "a", Content: d}, nil, nil, nil, 0, nil)
}

func decodeTx(b []byte) (interfaces.Transaction, int, error) {
	r := bytes.NewReader(b)
	tx, err := transaction.GetTransactionByBytes(r)
	if err != nil {
		return nil, 0, err
	}
	if err := tx.Deserialize(r); err != nil {
		return nil, 0, err
	}
	return tx, r.Len(), nil
}

func ser(f func(w *bytes.Buffer) error) ([]byte, error) {
	var buf bytes.Buffer
	err := f(&buf)
	return buf.Bytes(), err
}

// semEq: structural equality on exported fields, nil slice == empty slice.
func semEq(a, b reflect.Value) bool {
	if a.Kind() != b.Kind() {
		return false
	}
	switch a.Kind() {
	case reflect.Ptr, reflect.Interface:
		if a.IsNil() || b.IsNil() {
			return a.IsNil() == b.IsNil()
		}
		return semEq(a.Elem(), b.Elem())
	case reflect.Struct:
		if a.Type() != b.Type() {
			return false
		}
		for i := 0; i < a.NumField(); i++ {
			if a.Type().Field(i).PkgPath != "" { // unexported (hash caches)
				continue
			}
			if !semEq(a.Field(i), b.Field(i)) {
				return false
			}
		}
		return true
	case reflect.Slice, reflect.Array:
		if a.Len() != b.Len() {
			return false
		}
		for i := 0; i < a.Len(); i++ {
			if !semEq(a.Index(i), b.Index(i)) {
				return false
			}
		}
		return true
	case reflect.String:
		return a.String() == b.String()
	case reflect.Bool:
		return a.Bool() == b.Bool()
	case reflect.Uint8, reflect.Uint16, reflect.Uint32, reflect.Uint64, reflect.Uint:
		return a.Uint() == b.Uint()
	case reflect.Int8, reflect.Int16, reflect.Int32, reflect.Int64, reflect.Int:
		return a.Int() == b.Int()
	}
	return true
}

func envelopeEq(a, b interfaces.Transaction, v9 bool, strict bool) string {
	if a.Version() != b.Version() && !(a.Version() < 9 && b.Version() == 0) {
		return "version"
	}
	if a.TxType() != b.TxType() || a.PayloadVersion() != b.PayloadVersion() || a.LockTime() != b.LockTime() {
		return "type/payload version/lock time"
	}
	if !semEq(reflect.ValueOf(a.Attributes()), reflect.ValueOf(b.Attributes())) {
		return "attributes"
	}
	if !semEq(reflect.ValueOf(a.Inputs()), reflect.ValueOf(b.Inputs())) {
		return "inputs"
	}
	if !semEq(reflect.ValueOf(a.Programs()), reflect.ValueOf(b.Programs())) {
		return "programs"
	}
	ao, bo := a.Outputs(), b.Outputs()
	if len(ao) != len(bo) {
		return "outputs"
	}
	for i := range ao {
		if ao[i].AssetID != bo[i].AssetID || ao[i].Value != bo[i].Value || ao[i].OutputLock != bo[i].OutputLock || ao[i].ProgramHash != bo[i].ProgramHash {
			return "output fields"
		}
		if v9 {
			// fields an output payload version does not serialize (VoteOutput version 0
			// has no Votes) are not expected to survive: compare the serialized payloads,
			// and structurally only when strict (both sides already went through a decode)
			pa, ea := ser(func(w *bytes.Buffer) error { return ao[i].Payload.Serialize(w) })
			pb, eb := ser(func(w *bytes.Buffer) error { return bo[i].Payload.Serialize(w) })
			if ao[i].Type != bo[i].Type || ea != nil || eb != nil || !bytes.Equal(pa, pb) {
				return "output payload"
			}
			if strict && !semEq(reflect.ValueOf(ao[i].Payload), reflect.ValueOf(bo[i].Payload)) {
				return "output payload (structure)"
			}
		}
	}
	return ""
}

func hx(b []byte) string { return hex.EncodeToString(b) }

func coqTx(id int, tx interfaces.Transaction, ulen int, full []byte) (string, bool) {
	pv := tx.PayloadVersion()
	pb, err := ser(func(w *bytes.Buffer) error { return tx.Payload().Serialize(w, pv) })
	if err != nil {
		return "", false
	}
	var attrs, ins, outs, progs []string
	for _, a := range tx.Attributes() {
		attrs = append(attrs, fmt.Sprintf("(%d, %s)", a.Usage, lib.CoqBytes(a.Data)))
	}
	for _, i := range tx.Inputs() {
		ins = append(ins, fmt.Sprintf("(%s, %d, %d)", lib.CoqBytes(i.Previous.TxID[:]), i.Previous.Index, i.Sequence))
	}
	for _, o := range tx.Outputs() {
		pl := "None"
		if tx.Version() >= common2.TxVersion09 {
			ob, err := ser(func(w *bytes.Buffer) error { return o.Payload.Serialize(w) })
			if err != nil {
				return "", false
			}
			pl = fmt.Sprintf("(Some (%d, %s))", o.Type, lib.CoqBytes(ob))
		}
		outs = append(outs, fmt.Sprintf("(%s, %d, %d, %s, %s)", lib.CoqBytes(o.AssetID[:]), uint64(o.Value), o.OutputLock, lib.CoqBytes(o.ProgramHash[:]), pl))
	}
	for _, p := range tx.Programs() {
		progs = append(progs, fmt.Sprintf("(%s, %s)", lib.CoqBytes(p.Parameter), lib.CoqBytes(p.Code)))
	}
	return fmt.Sprintf("CTx %d %d %d %d %s %s %s %s %d %s %d %s", id, tx.Version(), tx.TxType(), pv, lib.CoqBytes(pb),
		lib.CoqList(attrs), lib.CoqList(ins), lib.CoqList(outs), tx.LockTime(), lib.CoqList(progs), ulen, lib.CoqBytes(full)), true
}

func main() {
	run := lib.ParseArgs()
	elaenv.InitLog(run.Out)
	codecgen.Init()
	rng := lib.NewRng(run.Seed)
	st := lib.NewStats("C04", "every tx type (44) x payload version {0,1,2,3,4,200} x tx version {0 for types<9, 9, random 10..255}: payload filled by reflection (every slice 0..3 elements, byte strings 0/1/2/20/21/33 long, boundary integers), 0..3 attributes/inputs/outputs (all 8 output payload types)/programs; blocks of 0..4 such transactions. nontrivial = serialized, decoded and compared; distinct by bytes")
	sh := &lib.Shards{Dir: run.Out, Imports: "From ELA Require Import corr.C04_corr model.C04_Proposal.", CaseType: "C04_corr.case",
		Mismatch: "C04_corr.mismatches", Scope: "N", PerShard: 60}
	id := 0
	skipped := 0
	noncanon := 0
	typesSeen := map[string]bool{}
	reps := run.N(1, 12)
	for ti, t := range codecgen.TxTypes {
		ty := common2.TxType(t)
		pvs := []byte{0, 1, 2, 3, 4, 200}
		if !run.Thorough() { // quick: versions 0..3 and alternately 4 / 200
			pvs = []byte{0, 1, 2, 3, []byte{4, 200}[ti%2]}
		}
		for _, pv := range pvs {
			for rep := 0; rep < reps; rep++ {
				vers := []common2.TransactionVersion{common2.TxVersion09}
				if ty < 9 {
					vers = append(vers, common2.TxVersionDefault)
				}
				if rng.Chance(30) {
					vers = append(vers, common2.TransactionVersion(10+rng.Intn(246)))
				}
				for _, ver := range vers {
					var x0 interfaces.Transaction
					var full []byte
					var err error
					for try := 0; try < 5; try++ { // retry until it serializes within the size budget
						x0 = codecgen.RandomTx(rng, ty, pv, ver)
						if x0 == nil {
							break
						}
						full, err = ser(func(w *bytes.Buffer) error { return x0.Serialize(w) })
						if err == nil && len(full) <= run.N(700, 4000) {
							break
						}
					}
					if x0 == nil {
						continue
					}
					if err != nil || len(full) > run.N(700, 4000) {
						skipped++
						continue
					}
					id++
					in := map[string]interface{}{"type": ty.Name(), "tx_type": t, "payload_version": pv, "tx_version": ver, "bytes": hx(full)}
					site := fmt.Sprintf("tx[%s,pv%d]", ty.Name(), pv)
					unsigned, _ := ser(func(w *bytes.Buffer) error { return x0.SerializeUnsigned(w) })
					// (i) decode(encode x0) succeeds and consumes everything
					x1, rem, err := decodeTx(full)
					if err != nil || rem != 0 {
						in["err"] = fmt.Sprint(err)
						in["rem"] = rem
						st.Fail(site+":decode", "a serialized transaction does not decode (completely)", in)
						st.Count(hx(full), true, "decode-failed")
						continue
					}
					// (ii) re-encoding is stable
					full1, _ := ser(func(w *bytes.Buffer) error { return x1.Serialize(w) })
					if !bytes.Equal(full1, full) {
						in["reencoded"] = hx(full1)
						st.Fail(site+":reencode", "decode then encode changes the bytes", in)
					}
					// (iii) envelope fields survive; (iv) payload is a fixed point of decode . encode
					if d := envelopeEq(x0, x1, ver >= 9, false); d != "" {
						in["field"] = d
						st.Fail(site+":fields", "decode(encode t) differs from t in "+d, in)
					}
					x2, _, err2 := decodeTx(full1)
					if err2 != nil || !semEq(reflect.ValueOf(x1.Payload()), reflect.ValueOf(x2.Payload())) || envelopeEq(x1, x2, ver >= 9, true) != "" {
						st.Fail(site+":stable", "a decoded transaction does not re-decode to itself", in)
					}
					// (v) hash = sha256d(unsigned serialization), equal across the round trip
					h0 := x0.Hash()
					if h0 != elacommon.Sha256D(unsigned) || x1.Hash() != h0 || !bytes.HasPrefix(full, unsigned) {
						st.Fail(site+":hash", "hash is not the double hash of the unsigned prefix / changes across the round trip", in)
					}
					// (vi) replacing the programs keeps the hash and changes only the program part
					x3, _, _ := decodeTx(full)
					var progs []*pg.Program
					for i, n := 0, rng.Intn(3); i < n; i++ {
						progs = append(progs, codecgen.RandomProgram(rng))
					}
					x3.SetPrograms(progs)
					full3, _ := ser(func(w *bytes.Buffer) error { return x3.Serialize(w) })
					x4, _, err4 := decodeTx(full3)
					if x3.Hash() != h0 || err4 != nil || x4.Hash() != h0 || !bytes.HasPrefix(full3, unsigned) {
						in["programs_replaced"] = hx(full3)
						st.Fail(site+":programs", "the hash changes when the programs are replaced", in)
					}
					// (vii) values decoded from accepted but non-canonical bytes: every one-byte
					// read (flag / enum / bool / prefix) replaced by other values
					{
						rr := &recReader{r: bytes.NewReader(full), total: len(full)}
						if tx, err := transaction.GetTransactionByBytes(rr); err == nil {
							tx.Deserialize(rr)
						}
						for _, rd := range rr.reads {
							if rd[1] != 1 || rd[0] >= len(full) {
								continue
							}
							for _, nb := range []byte{2, full[rd[0]] ^ 1, 0xff} {
								if nb == full[rd[0]] {
									continue
								}
								mb := append([]byte(nil), full...)
								mb[rd[0]] = nb
								xm, rem, err := decodeTx(mb)
								if err != nil || rem != 0 {
									continue
								}
								noncanon++
								if d := hashOfValue(xm); d != "" {
									st.Fail(site+":decoded-hash", d, map[string]interface{}{"type": ty.Name(), "payload_version": pv, "bytes": hx(mb), "mutated_offset": rd[0], "canonical": hx(full)})
								}
							}
						}
					}
					term, ok := coqTx(id, x1, len(unsigned), full)
					if !ok {
						skipped++
						continue
					}
					sh.Add(term)
					st.LogCase(run.Out, id, in)
					st.Count(hx(full), true, fmt.Sprintf("tx:v%d", map[bool]int{true: 9, false: 0}[ver >= 9]))
					typesSeen[fmt.Sprintf("%s/pv%d", ty.Name(), pv)] = true
					if id <= 3 {
						st.Sample(in)
					}
				}
			}
		}
	}
	// varint width boundaries through WriteVarUint / ReadVarUint
	vals := append([]uint64(nil), codecgen.VarintBoundaries...)
	for i := 0; i < run.N(12, 200); i++ {
		vals = append(vals, rng.U64()>>uint(rng.Intn(64)))
	}
	for _, v := range vals {
		id++
		enc, _ := ser(func(w *bytes.Buffer) error { return elacommon.WriteVarUint(w, v) })
		dv, err := elacommon.ReadVarUint(bytes.NewReader(enc), 0)
		in := map[string]interface{}{"value": v, "encoded": hx(enc)}
		if err != nil || dv != v || elacommon.VarUintSerializeSize(v) != len(enc) {
			in["err"] = fmt.Sprint(err)
			st.Fail("varint:roundtrip", "ReadVarUint(WriteVarUint(v)) != v", in)
		}
		sh.Add(fmt.Sprintf("CVarint %d %d %s %s %d", id, v, lib.CoqBytes(enc), lib.CoqBool(err == nil), dv))
		st.LogCase(run.Out, id, in)
		st.Count("varint:"+hx(enc), true, "varint")
	}
	// one byte field and one list per varint width class inside a transaction
	sizes := []int{0xfc, 0xfd, 0xfe, 0xffff, 0x10000, 0x10001}
	var gens []string
	for kind := 0; kind < 4; kind++ {
		for _, n := range sizes {
			if kind >= 2 && !run.Thorough() && n != 0xfd && n != 0x10000 {
				continue
			}
			id++
			x := genTx(kind, n)
			full, err := ser(func(w *bytes.Buffer) error { return x.Serialize(w) })
			in := map[string]interface{}{"generated_tx_kind": []string{"TransferAsset with a Memo attribute of n bytes", "WithdrawFromSideChain v2 with n signers", "TransferAsset with n empty programs", "Record with n bytes of content"}[kind], "n": n, "length": len(full), "bytes_prefix": hx(full[:40])}
			gok := err == nil
			if gok {
				x1, rem, derr := decodeTx(full)
				if derr != nil || rem != 0 {
					gok = false
					in["err"] = fmt.Sprint(derr)
					st.Fail(fmt.Sprintf("gen[%d]:decode", kind), "a serialized transaction with a field/list of n elements does not decode", in)
				} else {
					full1, _ := ser(func(w *bytes.Buffer) error { return x1.Serialize(w) })
					if !bytes.Equal(full1, full) || envelopeEq(x, x1, true, false) != "" || !semEq(reflect.ValueOf(x.Payload()), reflect.ValueOf(x1.Payload())) || x1.Hash() != x.Hash() {
						gok = false
						st.Fail(fmt.Sprintf("gen[%d]:fields", kind), "decode(encode t) differs from t", in)
					}
				}
			}
			gens = append(gens, fmt.Sprintf("CGen %d %d %d %d %d %s", id, kind, n, len(full), bsum(full), lib.CoqBool(gok)))
			st.LogCase(run.Out, id, in)
			st.Count(fmt.Sprintf("gen:%d:%d", kind, n), true, "sized-field")
		}
	}
	// CRCProposal, field by field: every proposal type x payload version 0/1
	for rep := 0; rep < run.N(1, 6); rep++ {
		for _, pt := range codecgen.ProposalTypes {
			for _, pv := range []byte{0, 1} {
				p0 := codecgen.RandomPayload(rng, common2.CRCProposal, pv).(*payload.CRCProposal)
				p0.ProposalType = pt
				pb, err := ser(func(w *bytes.Buffer) error { return p0.Serialize(w, pv) })
				if err != nil || len(pb) > 700 {
					continue
				}
				id++
				in := map[string]interface{}{"proposal_type": uint16(pt), "payload_version": pv, "payload_bytes": hx(pb)}
				p1 := &payload.CRCProposal{}
				r := bytes.NewReader(pb)
				if err := p1.Deserialize(r, pv); err != nil || r.Len() != 0 {
					in["err"] = fmt.Sprint(err)
					st.Fail("crcproposal:decode", "a serialized CRCProposal does not decode (completely)", in)
					st.Count(hx(pb), true, "decode-failed")
					continue
				}
				pb1, _ := ser(func(w *bytes.Buffer) error { return p1.Serialize(w, pv) })
				p2 := &payload.CRCProposal{}
				err2 := p2.Deserialize(bytes.NewReader(pb1), pv)
				if !bytes.Equal(pb, pb1) || err2 != nil || !semEq(reflect.ValueOf(p1), reflect.ValueOf(p2)) {
					st.Fail("crcproposal:stable", "decode(encode p) is not a fixed point", in)
				}
				// fields the proposal type serializes must survive from the generated value
				if d := proposalFieldsEq(p0, p1, pv); d != "" {
					in["field"] = d
					st.Fail("crcproposal:fields", "decode(encode p) differs from p in "+d, in)
				}
				sh.Add(fmt.Sprintf("CProp %d %d %s %s", id, pv, coqProposal(p1, pv), lib.CoqBytes(pb)))
				st.LogCase(run.Out, id, in)
				st.Count("prop:"+hx(pb), true, "crcproposal")
			}
		}
	}
	// blocks
	for i := 0; i < run.N(5, 80); i++ {
		b := codecgen.RandomBlock(rng, []int{0, 1, 2, 4}[rng.Intn(4)])
		full, err := ser(func(w *bytes.Buffer) error { return b.Serialize(w) })
		if err != nil || len(full) > run.N(1500, 8000) {
			skipped++
			continue
		}
		id++
		in := map[string]interface{}{"block": hx(full), "txs": len(b.Transactions)}
		b1 := &types.Block{}
		r := bytes.NewReader(full)
		if err := b1.Deserialize(r); err != nil || r.Len() != 0 {
			st.Fail("block:decode", "a serialized block does not decode (completely)", in)
			st.Count(hx(full), true, "decode-failed")
			continue
		}
		full1, _ := ser(func(w *bytes.Buffer) error { return b1.Serialize(w) })
		if !bytes.Equal(full, full1) || b1.Hash() != b.Hash() || len(b1.Transactions) != len(b.Transactions) {
			st.Fail("block:reencode", "decode then encode changes the block bytes / hash", in)
		}
		var lens []string
		for k, tx := range b1.Transactions {
			tb, _ := ser(func(w *bytes.Buffer) error { return tx.Serialize(w) })
			lens = append(lens, fmt.Sprint(len(tb)))
			if tx.Hash() != b.Transactions[k].Hash() {
				st.Fail("block:txhash", "a transaction hash changes across the block round trip", in)
			}
		}
		h := b1.Header
		sh.Add(fmt.Sprintf("CBlock %d %d %s %s %d %d %d %d %s %s", id, h.Version, lib.CoqBytes(h.Previous[:]), lib.CoqBytes(h.MerkleRoot[:]),
			h.Timestamp, h.Bits, h.Nonce, h.Height, lib.CoqList(lens), lib.CoqBytes(full)))
		st.LogCase(run.Out, id, in)
		st.Count(hx(full), true, "block")
	}
	var seen []string
	for k := range typesSeen {
		seen = append(seen, k)
	}
	st.Extra["type_x_payload_version_covered"] = len(seen)
	st.Extra["skipped_unserializable_or_large"] = skipped
	st.Extra["typed_lift"] = "transaction envelope, outputs, inputs, attributes, programs, header, block; payloads/output payloads/auxpow at descriptor level"
	_ = strings.Join
	st.Extra["noncanonical_accepted_decodes_checked"] = noncanon
	st.Traces = st.Evals
	nsh := sh.Flush()
	// the sized-field cases are expensive to evaluate: two per shard
	for i := 0; i < len(gens); i += 2 {
		j := i + 2
		if j > len(gens) {
			j = len(gens)
		}
		body := "From Coq Require Import List ZArith NArith Bool String.\nImport ListNotations.\nFrom ELA Require Import corr.C04_corr.\nLocal Open Scope N_scope.\n" +
			"Definition cases : list (C04_corr.case) := [\n  " + strings.Join(gens[i:j], ";\n  ") + "\n].\n" +
			"Definition M := Eval vm_compute in (C04_corr.mismatches cases).\nPrint M.\n"
		if err := os.WriteFile(filepath.Join(run.Out, fmt.Sprintf("cases_%03d.v", nsh)), []byte(body), 0o644); err != nil {
			panic(err)
		}
		nsh++
	}
	st.Write(run.Out)
}

func proposalKind(t payload.CRCProposalType) int {
	switch t {
	case payload.ChangeProposalOwner:
		return 1
	case payload.CloseProposal:
		return 2
	case payload.SecretaryGeneral:
		return 3
	case payload.MainChainUpgradeCode, payload.DIDUpgradeCode, payload.ETHUpgradeCode:
		return 4
	case payload.RegisterSideChain:
		return 5
	case payload.ReserveCustomID:
		return 6
	case payload.ReceiveCustomID:
		return 7
	case payload.ChangeCustomIDFee:
		return 8
	}
	return 0
}

func coqStrs(ss []string) string {
	var xs []string
	for _, s := range ss {
		xs = append(xs, lib.CoqBytes([]byte(s)))
	}
	return lib.CoqList(xs)
}

// coqProposal prints the C04_Proposal.proposal record of a decoded CRCProposal.
func coqProposal(p *payload.CRCProposal, pv byte) string {
	B := lib.CoqBytes
	k := proposalKind(p.ProposalType)
	draft := "None"
	if pv >= 1 && k != 4 {
		draft = "(Some " + B(p.DraftData) + ")"
	}
	var body string
	switch k {
	case 0:
		var bs []string
		for _, b := range p.Budgets {
			bs = append(bs, fmt.Sprintf("(%d, %d, %d)", b.Type, b.Stage, uint64(b.Amount)))
		}
		body = fmt.Sprintf("(PNormal %s %s)", lib.CoqList(bs), B(p.Recipient[:]))
	case 1:
		body = fmt.Sprintf("(PChangeOwner %s %s %s %s)", B(p.TargetProposalHash[:]), B(p.NewRecipient[:]), B(p.NewOwnerKey), B(p.NewOwnerSignature))
	case 2:
		body = fmt.Sprintf("(PClose %s)", B(p.TargetProposalHash[:]))
	case 3:
		body = fmt.Sprintf("(PSecretary %s %s %s)", B(p.SecretaryGeneralPublicKey), B(p.SecretaryGeneralDID[:]), B(p.SecretaryGeneraSignature))
	case 4:
		u := p.UpgradeCodeInfo
		f := 0
		if u.ForceUpgrade {
			f = 1
		}
		body = fmt.Sprintf("(PUpgrade %d %s %s %s %d)", u.WorkingHeight, B([]byte(u.NodeVersion)), B([]byte(u.NodeDownLoadUrl)), B(u.NodeBinHash[:]), f)
	case 5:
		s := p.SideChainInfo
		body = fmt.Sprintf("(PRegisterSideChain %s %d %s %d %d %s)", B([]byte(s.SideChainName)), s.MagicNumber, B(s.GenesisHash[:]), uint64(s.ExchangeRate), s.EffectiveHeight, B([]byte(s.ResourcePath)))
	case 6:
		body = fmt.Sprintf("(PReserveID %s)", coqStrs(p.ReservedCustomIDList))
	case 7:
		body = fmt.Sprintf("(PReceiveID %s %s)", coqStrs(p.ReceivedCustomIDList), B(p.ReceiverDID[:]))
	default:
		body = fmt.Sprintf("(PChangeFee %d %d)", uint64(p.CustomIDFeeRateInfo.RateOfCustomIDFee), p.CustomIDFeeRateInfo.EIDEffectiveHeight)
	}
	return fmt.Sprintf("(mkProposal %d %s %s %s %s %s %s %s %s)", uint16(p.ProposalType), B([]byte(p.CategoryData)), B(p.OwnerKey), B(p.DraftHash[:]),
		draft, body, B(p.Signature), B(p.CRCouncilMemberDID[:]), B(p.CRCouncilMemberSignature))
}

// proposalFieldsEq compares, between a generated proposal and its decode, the
// fields its proposal type serializes.
func proposalFieldsEq(a, b *payload.CRCProposal, pv byte) string {
	eq := func(x, y interface{}) bool { return semEq(reflect.ValueOf(x), reflect.ValueOf(y)) }
	k := proposalKind(a.ProposalType)
	if a.ProposalType != b.ProposalType || a.CategoryData != b.CategoryData || !eq(a.OwnerKey, b.OwnerKey) || a.DraftHash != b.DraftHash ||
		!eq(a.Signature, b.Signature) || a.CRCouncilMemberDID != b.CRCouncilMemberDID || !eq(a.CRCouncilMemberSignature, b.CRCouncilMemberSignature) {
		return "common fields"
	}
	if pv >= 1 && k != 4 && !eq(a.DraftData, b.DraftData) {
		return "DraftData"
	}
	switch k {
	case 0:
		if !eq(a.Budgets, b.Budgets) || a.Recipient != b.Recipient {
			return "Budgets/Recipient"
		}
	case 1:
		if a.TargetProposalHash != b.TargetProposalHash || a.NewRecipient != b.NewRecipient || !eq(a.NewOwnerKey, b.NewOwnerKey) || !eq(a.NewOwnerSignature, b.NewOwnerSignature) {
			return "TargetProposalHash/NewRecipient/NewOwnerKey/NewOwnerSignature"
		}
	case 2:
		if a.TargetProposalHash != b.TargetProposalHash {
			return "TargetProposalHash"
		}
	case 3:
		if !eq(a.SecretaryGeneralPublicKey, b.SecretaryGeneralPublicKey) || a.SecretaryGeneralDID != b.SecretaryGeneralDID || !eq(a.SecretaryGeneraSignature, b.SecretaryGeneraSignature) {
			return "SecretaryGeneral fields"
		}
	case 4:
		if !eq(a.UpgradeCodeInfo, b.UpgradeCodeInfo) {
			return "UpgradeCodeInfo"
		}
	case 5:
		if !eq(a.SideChainInfo, b.SideChainInfo) {
			return "SideChainInfo"
		}
	case 6:
		if !eq(a.ReservedCustomIDList, b.ReservedCustomIDList) {
			return "ReservedCustomIDList"
		}
	case 7:
		if !eq(a.ReceivedCustomIDList, b.ReceivedCustomIDList) || a.ReceiverDID != b.ReceiverDID {
			return "ReceivedCustomIDList/ReceiverDID"
		}
	case 8:
		if !eq(a.CustomIDFeeRateInfo, b.CustomIDFeeRateInfo) {
			return "CustomIDFeeRateInfo"
		}
	}
	return ""
}
