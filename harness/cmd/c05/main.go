// C05 correspondence and property oracle: blockchain.RunPrograms,
// crypto.VerifyMultisigSignatures, blockchain.GetTxProgramHashes,
// checkTransactionSignature (via the verif hook) and the contract shape
// predicates of /repo against coq/model/C05_Sig.v, with real P-256 / Schnorr
// keys.  The oracle tables of every case are computed with the real
// primitives for the case's data.
package main

import (
	"bytes"
	"fmt"
	"go/ast"
	"go/parser"
	"go/token"
	"os"
	"path/filepath"
	"reflect"
	"strings"

	"github.com/elastos/Elastos.ELA/blockchain"
	"github.com/elastos/Elastos.ELA/common"
	"github.com/elastos/Elastos.ELA/common/config"
	"github.com/elastos/Elastos.ELA/core/contract"
	pg "github.com/elastos/Elastos.ELA/core/contract/program"
	"github.com/elastos/Elastos.ELA/core/transaction"
	common2 "github.com/elastos/Elastos.ELA/core/types/common"
	"github.com/elastos/Elastos.ELA/core/types/functions"
	"github.com/elastos/Elastos.ELA/core/types/interfaces"
	"github.com/elastos/Elastos.ELA/core/types/outputpayload"
	"github.com/elastos/Elastos.ELA/core/types/payload"
	"github.com/elastos/Elastos.ELA/crypto"

	"verifharness/elaenv"
	"verifharness/lib"
	"verifharness/sigkit"
)

const (
	pStd   = byte(contract.PrefixStandard)
	pMulti = byte(contract.PrefixMultiSig)
	pCross = byte(contract.PrefixCrossChain)
	pDep   = byte(contract.PrefixDeposit)
	pDID   = byte(contract.PrefixCRDID)
)

const (
	sigUnknownShape = "RunPrograms:standard-or-deposit-prefix:unknown-code-shape-accepted-unsigned"
	sigCrossChain   = "RunPrograms:crosschain-prefix:code-hash-not-bound-to-address"
	sigGeneric      = "RunPrograms:accepted-without-authorising-program"
)

var (
	run  *lib.Run
	rng  *lib.Rng
	st   *lib.Stats
	sh   *lib.Shards
	keys []*sigkit.Key
	id   int
)

func next() int { id++; return id }

func addBase(c string) { sh.Add("CBase (" + c + ")") }

// clean mode: generators skip their mutations (cases that should be accepted)
var clean bool

func mut(n int) int {
	if clean {
		return n - 1
	}
	return rng.Intn(n)
}

func accepted(f func() error) (acc bool, panicked bool) {
	p, _ := lib.Recover(func() { acc = f() == nil })
	if p {
		return false, true
	}
	return acc, false
}

// pair: one (address, program) slot of a RunPrograms call
type pair struct {
	h    common.Uint168
	p    *pg.Program
	kind string
}

func flip(b []byte, r *lib.Rng) []byte {
	c := append([]byte{}, b...)
	if len(c) > 0 {
		c[r.Intn(len(c))] ^= byte(1 << uint(r.Intn(8)))
	}
	return c
}

func pickKeys(n int) []*sigkit.Key {
	perm := make([]int, len(keys))
	for i := range perm {
		perm[i] = i
	}
	for i := len(perm) - 1; i > 0; i-- {
		j := rng.Intn(i + 1)
		perm[i], perm[j] = perm[j], perm[i]
	}
	var out []*sigkit.Key
	for _, i := range perm[:n] {
		out = append(out, keys[i])
	}
	return out
}

func encs(ks []*sigkit.Key) [][]byte {
	var out [][]byte
	for _, k := range ks {
		out = append(out, k.Enc)
	}
	return out
}

// multisigProgram builds an m-of-n program with a chosen signer pattern.
func multisigProgram(data []byte, last byte) (*pg.Program, string) {
	n := rng.Range(2, 6)
	m := rng.Range(1, n)
	ks := pickKeys(n)
	kb := encs(ks)
	kind := "multisig"
	if !clean && rng.Chance(15) { // duplicated key in the script
		kb[rng.Intn(n)] = kb[rng.Intn(n)]
		kind += "+dupkey"
	}
	mm, nn := m, n
	switch mut(12) {
	case 0:
		mm = 0
		kind += "+m0"
	case 1:
		mm = n + 1
		kind += "+m>n"
	case 2:
		nn = n + 1
		kind += "+nwrong"
	}
	code := sigkit.RawMulti(mm, kb, nn, last)
	var param []byte
	signers := rng.Range(0, n)
	sw := rng.Intn(6)
	if clean {
		sw = 0
	}
	switch sw {
	case 0, 1, 2: // exactly m (or m+1) distinct signers
		signers = m
		if rng.Chance(25) && m < n {
			signers = m + 1
		}
	case 3: // one short
		signers = m - 1
		kind += "+short"
	}
	order := pickIdx(n)
	for _, i := range order[:signers] {
		param = append(param, sigkit.SigScript(ks[i], data)...)
	}
	switch mut(8) {
	case 0: // one signer twice (same signature bytes)
		if len(param) >= 65 {
			param = append(param, param[:65]...)
			kind += "+dupsig"
		}
	case 1: // one signer twice (fresh signature of the same key)
		if signers > 0 {
			param = append(param, sigkit.SigScript(ks[order[0]], data)...)
			kind += "+dupsigner"
		}
	case 2: // a signature over other data
		param = append(param, sigkit.SigScript(ks[order[n-1]], flip(data, rng))...)
		kind += "+wrongdata"
	case 3: // a signature by a key outside the script
		param = append(param, sigkit.SigScript(keys[len(keys)-1], data)...)
		kind += "+foreign"
	case 4: // m copies of one signature
		if len(param) >= 65 {
			one := param[:65]
			param = nil
			for i := 0; i < m; i++ {
				param = append(param, one...)
			}
			kind += "+copies"
		}
	case 5:
		if len(param) > 0 {
			param = flip(param, rng)
			kind += "+flip"
		}
	case 6:
		if len(param) > 0 && rng.Bool() {
			param = param[:len(param)-1]
			kind += "+trunc"
		}
	}
	return &pg.Program{Code: code, Parameter: param}, kind
}

func pickIdx(n int) []int {
	p := make([]int, n)
	for i := range p {
		p[i] = i
	}
	for i := n - 1; i > 0; i-- {
		j := rng.Intn(i + 1)
		p[i], p[j] = p[j], p[i]
	}
	return p
}

func malformedCode() ([]byte, string) {
	k := keys[rng.Intn(len(keys))]
	switch rng.Intn(9) {
	case 0:
		return rng.Bytes(rng.Intn(80)), "mal:random"
	case 1:
		c := sigkit.StdCode(k)
		c[34] = 0xad // DID-style terminator
		return c, "mal:std-ad"
	case 2:
		c := sigkit.StdCode(k)
		c[0] = 0x22
		return c, "mal:std-len"
	case 3:
		c := sigkit.StdCode(k)
		return c[:rng.Intn(35)], "mal:std-trunc"
	case 4: // the C03 witness shape: m, two keys, n, no terminator
		ks := pickKeys(2)
		c := sigkit.RawMulti(1, encs(ks), 2, 0xae)
		return c[:len(c)-1], "mal:multi-noterm"
	case 5:
		ks := pickKeys(2)
		c := sigkit.RawMulti(1, encs(ks), 2, 0xae)
		return c[:rng.Intn(len(c))], "mal:multi-trunc"
	case 6:
		c := append([]byte{}, sigkit.StdCode(k)...)
		return append(c, 0xac), "mal:std-long"
	case 7:
		return []byte{}, "mal:empty"
	default:
		ks := pickKeys(3)
		c := sigkit.RawMulti(2, encs(ks), 3, 0xae)
		c[1+34*rng.Intn(3)] = 0x20 // key length byte wrong: shape test fails, parser does not care
		return c, "mal:multi-keylen"
	}
}

// genPair builds one slot.
func genPair(data []byte) pair {
	k := keys[rng.Intn(len(keys))]
	top := rng.Intn(16)
	if clean {
		top = rng.Intn(10)
	}
	switch top {
	case 0, 1, 2: // standard
		code := sigkit.StdCode(k)
		p := &pg.Program{Code: code, Parameter: sigkit.SigScript(k, data)}
		kind := "std"
		switch mut(8) {
		case 0:
			p.Parameter = sigkit.SigScript(keys[(rng.Intn(len(keys)-1)+1+indexOf(k))%len(keys)], data)
			kind += "+otherkey"
		case 1:
			p.Parameter = sigkit.SigScript(k, flip(data, rng))
			kind += "+wrongdata"
		case 2:
			p.Parameter = flip(p.Parameter, rng)
			kind += "+flip"
		case 3:
			p.Parameter = p.Parameter[:rng.Intn(65)]
			kind += "+short"
		case 4:
			p.Parameter = append(p.Parameter, 0)
			kind += "+long"
		}
		pre := pStd
		if rng.Chance(25) {
			pre = pDep
		}
		return pair{sigkit.Hash(pre, code), p, kind}
	case 3, 4, 5, 6: // multisig under multisig / standard / deposit prefix
		p, kind := multisigProgram(data, 0xae)
		pre := pMulti
		if rng.Chance(30) {
			pre = []byte{pStd, pDep}[rng.Intn(2)]
			kind += "@std"
		}
		return pair{sigkit.Hash(pre, p.Code), p, kind}
	case 7, 8: // schnorr
		n := rng.Range(1, 3)
		ks := pickKeys(n)
		agg := aggKey(ks)
		code := sigkit.SchnorrCode(agg)
		p := &pg.Program{Code: code, Parameter: sigkit.SchnorrSig(ks, data)}
		kind := "schnorr"
		switch mut(7) {
		case 0:
			p.Parameter = sigkit.SchnorrSig(ks, flip(data, rng))
			kind += "+wrongdata"
		case 1:
			p.Parameter = flip(p.Parameter, rng)
			kind += "+flip"
		case 2:
			p.Parameter = p.Parameter[:rng.Intn(64)]
			kind += "+short"
		case 3:
			p.Parameter = sigkit.SchnorrSig(ks[:1], data)
			if n > 1 {
				kind += "+partial"
			}
		case 4:
			p.Parameter = append(p.Parameter, rng.Bytes(3)...)
			kind += "+trailing"
		}
		pre := []byte{pStd, pStd, pDep, pCross}[rng.Intn(4)]
		h := sigkit.Hash(pre, code)
		if pre == pCross {
			kind += "@cross"
		}
		return pair{h, p, kind}
	case 9, 10: // cross-chain prefix
		p, kind := multisigProgram(data, 0xaf)
		kind = "cross:" + kind
		h := sigkit.Hash(pCross, p.Code)
		if rng.Chance(60) { // address of something else (the genesis-hash script in real life)
			h = sigkit.Hash(pCross, append([]byte{0x20}, append(rng.Bytes(32), 0xaf)...))
			kind += "+foreignaddr"
		}
		return pair{h, p, kind}
	case 11, 12: // malformed code under an address that really is its hash
		code, kind := malformedCode()
		pre := []byte{pStd, pDep, pMulti, pCross, pDID, 0x00, 0x3f}[rng.Intn(7)]
		var param []byte
		switch rng.Intn(4) {
		case 0:
			param = sigkit.SigScript(k, data)
		case 1:
			param = rng.Bytes(rng.Intn(70))
		case 2:
			param = sigkit.SchnorrSig([]*sigkit.Key{k}, data)
		}
		return pair{sigkit.Hash(pre, code), &pg.Program{Code: code, Parameter: param}, fmt.Sprintf("%s@%02x", kind, pre)}
	case 13: // valid program under somebody else's address, every prefix
		other := keys[(indexOf(k)+1)%len(keys)]
		switch rng.Intn(4) {
		case 0:
			code := sigkit.StdCode(k)
			pre := []byte{pStd, pDep}[rng.Intn(2)]
			return pair{sigkit.Hash(pre, sigkit.StdCode(other)), &pg.Program{Code: code, Parameter: sigkit.SigScript(k, data)}, fmt.Sprintf("std+hashmismatch@%02x", pre)}
		case 1:
			code := sigkit.RawMulti(1, encs([]*sigkit.Key{k, other}), 2, 0xae)
			foreign := sigkit.RawMulti(1, encs([]*sigkit.Key{other, keys[(indexOf(k)+2)%len(keys)]}), 2, 0xae)
			pre := []byte{pMulti, pStd, pDep}[rng.Intn(3)]
			return pair{sigkit.Hash(pre, foreign), &pg.Program{Code: code, Parameter: sigkit.SigScript(k, data)}, fmt.Sprintf("multi+hashmismatch@%02x", pre)}
		case 2:
			code := sigkit.SchnorrCode(k)
			pre := []byte{pStd, pDep}[rng.Intn(2)]
			return pair{sigkit.Hash(pre, sigkit.SchnorrCode(other)), &pg.Program{Code: code, Parameter: sigkit.SchnorrSig([]*sigkit.Key{k}, data)}, fmt.Sprintf("schnorr+hashmismatch@%02x", pre)}
		default: // right code hash, one byte of the address body flipped
			code := sigkit.StdCode(k)
			pre := []byte{pStd, pDep}[rng.Intn(2)]
			h := sigkit.Hash(pre, code)
			h[1+rng.Intn(20)] ^= byte(1 << uint(rng.Intn(8)))
			return pair{h, &pg.Program{Code: code, Parameter: sigkit.SigScript(k, data)}, fmt.Sprintf("std+hashflip@%02x", pre)}
		}
	case 14: // unknown prefix with a valid standard program
		code := sigkit.StdCode(k)
		pre := []byte{pDID, 0x3f, 0x00, 0xff}[rng.Intn(4)]
		return pair{sigkit.Hash(pre, code), &pg.Program{Code: code, Parameter: sigkit.SigScript(k, data)}, fmt.Sprintf("std@%02x", pre)}
	default: // standard code under multisig prefix
		code := sigkit.StdCode(k)
		return pair{sigkit.Hash(pMulti, code), &pg.Program{Code: code, Parameter: sigkit.SigScript(k, data)}, "std@multi"}
	}
}

func indexOf(k *sigkit.Key) int {
	for i, x := range keys {
		if x == k {
			return i
		}
	}
	return 0
}

// aggKey is the sum public key of a Schnorr aggregate account.
func aggKey(ks []*sigkit.Key) *sigkit.Key {
	var raw [][]byte
	for _, k := range ks {
		raw = append(raw, k.Enc)
	}
	sum, _ := crypto.AggregatePublickeys(raw)
	pub, err := crypto.DecodePoint(sum)
	if err != nil {
		panic(err)
	}
	return &sigkit.Key{Pub: pub, Enc: sum}
}

// judge evaluates the property statement on an accepted RunPrograms call.
func judge(data []byte, hs []common.Uint168, ps []*pg.Program, where string, input interface{}) {
	if len(hs) != len(ps) {
		st.Fail(sigGeneric, where+": accepted with different numbers of hashes and programs", input)
		return
	}
	for i, h := range hs {
		p := ps[i]
		bound := bytes.Equal(common.ToCodeHash(p.Code).Bytes(), h[1:])
		if h[0] == pCross {
			if !bound {
				st.Fail(sigCrossChain, where+": a program whose code does not hash to the spent CrossChain-prefix address was accepted (any key set can sign)", input)
			}
			continue
		}
		ok, shape := sigkit.Authorised(p, data, 0xae)
		if bound && ok {
			continue
		}
		if bound && shape == "unknown" && (h[0] == pStd || h[0] == pDep) {
			st.Fail(sigUnknownShape, where+": Standard/Deposit-prefix address spent by a program of unknown code shape with no signature check", input)
			continue
		}
		st.Fail(sigGeneric, fmt.Sprintf("%s: accepted although slot %d (address %s) has no authorising program (bound=%v shape=%s)", where, i, sigkit.Hex(h[:]), bound, shape), input)
	}
}

// crossProduct: every shape of *valid* program (standard, 2-of-3 multisig,
// single-key Schnorr, aggregated Schnorr) of an attacker, presented for every
// kind of address it does not own: the address of another key's standard /
// multisig / Schnorr script and of the attacker's own key under another
// shape, under every prefix.  All must be rejected; fixed cases, every run.
func crossProduct(data []byte) {
	att, vic, third := keys[3], keys[4], keys[5]
	type prog struct {
		name string
		p    *pg.Program
	}
	mcode := sigkit.RawMulti(2, encs([]*sigkit.Key{att, keys[6], keys[7]}), 3, 0xae)
	agg := aggKey([]*sigkit.Key{att, keys[6]})
	attackers := []prog{
		{"std", &pg.Program{Code: sigkit.StdCode(att), Parameter: sigkit.SigScript(att, data)}},
		{"multi2of3", &pg.Program{Code: mcode, Parameter: append(sigkit.SigScript(att, data), sigkit.SigScript(keys[6], data)...)}},
		{"schnorr", &pg.Program{Code: sigkit.SchnorrCode(att), Parameter: sigkit.SchnorrSig([]*sigkit.Key{att}, data)}},
		{"schnorr-agg", &pg.Program{Code: sigkit.SchnorrCode(agg), Parameter: sigkit.SchnorrSig([]*sigkit.Key{att, keys[6]}, data)}},
	}
	victims := []struct {
		name string
		code []byte
	}{
		{"otherstd", sigkit.StdCode(vic)},
		{"othermulti", sigkit.RawMulti(1, encs([]*sigkit.Key{vic, third}), 2, 0xae)},
		{"otherschnorr", sigkit.SchnorrCode(vic)},
		{"ownkey-std", sigkit.StdCode(att)},
		{"ownkey-schnorr", sigkit.SchnorrCode(att)},
	}
	for _, a := range attackers {
		for _, v := range victims {
			if bytes.Equal(a.p.Code, v.code) {
				continue
			}
			for _, pre := range []byte{pStd, pDep, pMulti} {
				runCase(data, []pair{{sigkit.Hash(pre, v.code), a.p, "corpus"}}, fmt.Sprintf("corpus:cross:%s-for-%s@%02x", a.name, v.name, pre))
			}
		}
		// ... and for its own code under prefixes that must not accept this shape
		for _, pre := range []byte{pMulti, pDID, 0x3f, 0x00} {
			if a.name == "multi2of3" && pre == pMulti {
				continue
			}
			runCase(data, []pair{{sigkit.Hash(pre, a.p.Code), a.p, "corpus"}}, fmt.Sprintf("corpus:cross:%s-own@%02x", a.name, pre))
		}
	}
}

func runCase(data []byte, pairs []pair, kind string) {
	var hs []common.Uint168
	var ps []*pg.Program
	t := &sigkit.Tables{}
	for _, x := range pairs {
		hs = append(hs, x.h)
		ps = append(ps, x.p)
		t.AddProgram(x.p)
	}
	acc, pan := accepted(func() error { return blockchain.RunPrograms(data, hs, ps) })
	i := next()
	addBase(fmt.Sprintf("CRun %d %s %s %s %s", i, sigkit.CoqHashes(hs), sigkit.CoqProgs(ps), t.Coq(data), lib.CoqBool(acc)))
	in := map[string]interface{}{"op": "RunPrograms", "kind": kind, "data": sigkit.Hex(data), "hashes": sigkit.HashesJSON(hs),
		"programs": sigkit.ProgsJSON(ps), "accepted": acc, "panicked": pan}
	st.LogCase(run.Out, i, in)
	st.Count(sigkit.Digest(kind, fmt.Sprint(acc)), acc || len(pairs) > 0, "RunPrograms:"+outcome(acc, pan))
	st.Hist["kind:"+kind]++
	if acc {
		judge(data, hs, ps, "RunPrograms", in)
	}
	if i%97 == 1 {
		st.Sample(map[string]interface{}{"op": "RunPrograms", "kind": kind, "accepted": acc})
	}
}

func outcome(acc, pan bool) string {
	if acc {
		return "accept"
	}
	if pan {
		return "panic"
	}
	return "reject"
}

// ---------------------------------------------------------------- transactions

type txSpec struct {
	refs    []common.Uint168 // program hash of each input's referenced output
	scripts [][]byte         // data of Script attributes
	others  int              // non-script attributes
}

func buildTx(s txSpec) (interfaces.Transaction, map[*common2.Input]common2.Output) {
	var attrs []*common2.Attribute
	for i := 0; i < s.others; i++ {
		attrs = append(attrs, &common2.Attribute{Usage: common2.Nonce, Data: rng.Bytes(8)})
	}
	for _, d := range s.scripts {
		attrs = append(attrs, &common2.Attribute{Usage: common2.Script, Data: d})
	}
	var inputs []*common2.Input
	refs := map[*common2.Input]common2.Output{}
	for i, h := range s.refs {
		in := &common2.Input{Sequence: uint32(i)}
		copy(in.Previous.TxID[:], rng.Bytes(32))
		in.Previous.Index = uint16(rng.Intn(4))
		inputs = append(inputs, in)
		refs[in] = common2.Output{ProgramHash: h, Value: common.Fixed64(1000 + i)}
	}
	out := &common2.Output{Value: common.Fixed64(rng.Intn(100000)), Type: common2.OTNone, Payload: &outputpayload.DefaultOutput{}}
	copy(out.ProgramHash[:], rng.Bytes(21))
	tx := transaction.CreateTransaction(common2.TxVersion09, common2.TransferAsset, 0, &payload.TransferAsset{},
		attrs, inputs, []*common2.Output{out}, 0, nil)
	return tx, refs
}

func unsigned(tx interfaces.Transaction) []byte {
	buf := new(bytes.Buffer)
	if err := tx.SerializeUnsigned(buf); err != nil {
		panic(err)
	}
	return buf.Bytes()
}

type owner struct {
	h    common.Uint168
	sign func(data []byte) *pg.Program
	kind string
}

func genOwner() owner {
	switch rng.Intn(4) {
	case 0, 1:
		k := keys[rng.Intn(len(keys))]
		code := sigkit.StdCode(k)
		return owner{sigkit.Hash(pStd, code), func(d []byte) *pg.Program {
			return &pg.Program{Code: code, Parameter: sigkit.SigScript(k, d)}
		}, "std"}
	case 2:
		n := rng.Range(2, 5)
		m := rng.Range(1, n)
		ks := pickKeys(n)
		code := sigkit.RawMulti(m, encs(ks), n, 0xae)
		return owner{sigkit.Hash(pMulti, code), func(d []byte) *pg.Program {
			var param []byte
			for _, i := range pickIdx(n)[:m] {
				param = append(param, sigkit.SigScript(ks[i], d)...)
			}
			return &pg.Program{Code: code, Parameter: param}
		}, fmt.Sprintf("multi%dof%d", m, n)}
	default:
		ks := pickKeys(rng.Range(1, 3))
		code := sigkit.SchnorrCode(aggKey(ks))
		return owner{sigkit.Hash(pStd, code), func(d []byte) *pg.Program {
			return &pg.Program{Code: code, Parameter: sigkit.SchnorrSig(ks, d)}
		}, "schnorr"}
	}
}

func txCase() {
	nOwners := rng.Range(1, 4)
	var owners []owner
	seen := map[common.Uint168]bool{}
	for len(owners) < nOwners {
		o := genOwner()
		if !seen[o.h] {
			seen[o.h] = true
			owners = append(owners, o)
		}
	}
	var s txSpec
	kind := "tx"
	for _, o := range owners {
		s.refs = append(s.refs, o.h)
		kind += ":" + o.kind
		if rng.Chance(30) { // several inputs of one address
			s.refs = append(s.refs, o.h)
		}
	}
	s.others = rng.Intn(2)
	signing := append([]owner{}, owners...)
	if rng.Chance(25) { // a script attribute: one more required signer
		o := genOwner()
		if !seen[o.h] {
			seen[o.h] = true
			s.scripts = append(s.scripts, o.h[:])
			kind += "+script"
			if rng.Chance(80) {
				signing = append(signing, o)
			} else {
				kind += "(unsigned)"
			}
		}
	}
	if rng.Chance(5) {
		s.scripts = append(s.scripts, rng.Bytes(rng.Intn(30)))
		kind += "+badscript"
	}
	tx, refs := buildTx(s)
	data := unsigned(tx)
	var ps []*pg.Program
	for _, i := range pickIdx(len(signing)) {
		ps = append(ps, signing[i].sign(data))
	}
	switch rng.Intn(10) {
	case 0:
		if len(ps) > 0 {
			ps = ps[1:]
			kind += "-missing"
		}
	case 1:
		ps = append(ps, genOwner().sign(data))
		kind += "+extra"
	case 2: // tamper after signing: the signed content changes
		tx.Outputs()[0].Value++
		kind += "+tamper-output"
	case 3:
		tx.SetLockTime(tx.LockTime() + 1)
		kind += "+tamper-locktime"
	case 4: // somebody else signs for the first owner
		if len(ps) > 0 {
			k := keys[rng.Intn(len(keys))]
			ps[0] = &pg.Program{Code: ps[0].Code, Parameter: sigkit.SigScript(k, data)}
			kind += "+wrongsigner"
		}
	case 5, 6: // a perfectly valid program of somebody else (any shape) stands in for one owner's program
		if len(ps) > 0 {
			for tries := 0; tries < 8; tries++ {
				o := genOwner()
				if !seen[o.h] {
					ps[rng.Intn(len(ps))] = o.sign(data)
					kind += "+foreignprogram:" + o.kind
					break
				}
			}
		}
	}
	tx.SetPrograms(ps)
	data = unsigned(tx)
	finishTx(tx, refs, s.scripts, ps, data, kind)
}

// finishTx sends a built transaction through checkTransactionSignature and
// GetTxProgramHashes, logs both for the model and evaluates the statement.
func finishTx(tx interfaces.Transaction, refs map[*common2.Input]common2.Output, scripts [][]byte, ps []*pg.Program, data []byte, kind string) {
	t := &sigkit.Tables{}
	for _, p := range ps {
		t.AddProgram(p)
	}
	// program order as given (the check sorts them itself, in place)
	progsCoq, progsJSON := sigkit.CoqProgs(ps), sigkit.ProgsJSON(ps)
	var refList []common.Uint168
	for _, in := range tx.Inputs() {
		refList = append(refList, refs[in].ProgramHash)
	}
	var attrs []string
	for _, a := range tx.Attributes() {
		attrs = append(attrs, fmt.Sprintf("(%d, %s)", a.Usage, sigkit.Pack(a.Data)))
	}
	acc, pan := accepted(func() error { return transaction.CheckTransactionSignatureVerifC05(tx, refs) })
	i := next()
	addBase(fmt.Sprintf("CTx %d %s %s %s %s %s", i, sigkit.CoqHashes(refList), lib.CoqList(attrs), progsCoq, t.Coq(data), lib.CoqBool(acc)))
	in := map[string]interface{}{"op": "checkTransactionSignature", "kind": kind, "unsigned": sigkit.Hex(data),
		"refs": sigkit.HashesJSON(refList), "scripts": scripts, "programs": progsJSON, "accepted": acc, "panicked": pan}
	st.LogCase(run.Out, i, in)
	st.Count(sigkit.Digest(kind, fmt.Sprint(acc)), true, "checkTransactionSignature:"+outcome(acc, pan))
	if acc { // the statement: every distinct spent address / script hash has an authorising program
		need := map[common.Uint168]bool{}
		spent := map[common.Uint168]bool{}
		for _, h := range refList {
			need[h] = true
			spent[h] = true
		}
		for _, d := range scripts {
			if h, err := common.Uint168FromBytes(d); err == nil {
				need[*h] = true
			}
		}
		for h := range need {
			found := false
			for _, p := range tx.Programs() {
				if bytes.Equal(common.ToCodeHash(p.Code).Bytes(), h[1:]) {
					if ok, _ := sigkit.Authorised(p, data, 0xae); ok {
						found = true
					}
				}
			}
			if !found && h[0] == pCross && spent[h] {
				// the known gap (b) applies only when the spent address itself has the CrossChain prefix
				st.Fail(sigCrossChain, "checkTransactionSignature: CrossChain-prefix address spent by a program whose code does not hash to it", in)
				continue
			}
			if !found {
				st.Fail("checkTransactionSignature:accepted-without-authorising-program",
					"transaction accepted although address "+sigkit.Hex(h[:])+" has no program with matching code hash and valid signatures", in)
			}
		}
	}
	// GetTxProgramHashes observed separately
	hs, err := blockchain.GetTxProgramHashes(tx, refs)
	j := next()
	addBase(fmt.Sprintf("CHashes %d %s %s %s %s", j, sigkit.CoqHashes(refList), lib.CoqList(attrs), lib.CoqBool(err == nil), sigkit.CoqHashes(sigkit.SortedHashes(hs))))
	st.LogCase(run.Out, j, map[string]interface{}{"op": "GetTxProgramHashes", "refs": sigkit.HashesJSON(refList), "scripts": scripts, "ok": err == nil, "out": sigkit.HashesJSON(sigkit.SortedHashes(hs))})
	st.Count(sigkit.Digest("gh", kind, fmt.Sprint(len(hs))), len(refList) > len(hs), "GetTxProgramHashes")
	if i%53 == 1 {
		st.Sample(map[string]interface{}{"op": "checkTransactionSignature", "kind": kind, "accepted": acc, "hashes": len(hs)})
	}
}

// collisionCases: required hashes that agree on the 20-byte code hash but
// differ in the prefix (a spent address and a Script attribute), all prefix
// pairs, with only a stranger's program / only the owner's program / the
// owner's program twice.  GetTxProgramHashes must keep both 21-byte hashes.
func collisionCases() {
	owner, att, att2 := keys[2], keys[5], keys[6]
	type spentKind struct {
		pre  byte
		code []byte
		sign func(d []byte) *pg.Program
	}
	std := sigkit.StdCode(owner)
	multi := sigkit.RawMulti(1, encs([]*sigkit.Key{owner, keys[7]}), 2, 0xae)
	signStd := func(d []byte) *pg.Program { return &pg.Program{Code: std, Parameter: sigkit.SigScript(owner, d)} }
	signMulti := func(d []byte) *pg.Program { return &pg.Program{Code: multi, Parameter: sigkit.SigScript(owner, d)} }
	spents := []spentKind{{pStd, std, signStd}, {pDep, std, signStd}, {pMulti, multi, signMulti}}
	for _, sp := range spents {
		victim := sigkit.Hash(sp.pre, sp.code)
		for _, q := range []byte{pStd, pDep, pMulti, pCross, pDID, 0x3f, 0x00} {
			if q == sp.pre {
				continue
			}
			alias := victim
			alias[0] = q // same code hash, other prefix
			for variant := 0; variant < 3; variant++ {
				tx, refs := buildTx(txSpec{refs: []common.Uint168{victim}, scripts: [][]byte{alias[:]}})
				data := unsigned(tx)
				var ps []*pg.Program
				name := ""
				switch variant {
				case 0: // only a stranger's program, of the shape the alias prefix asks for
					name = "stranger"
					if q == pCross {
						ps = []*pg.Program{{Code: sigkit.RawMulti(1, encs([]*sigkit.Key{att, att2}), 2, 0xaf), Parameter: sigkit.SigScript(att, data)}}
					} else if q == pMulti {
						ps = []*pg.Program{{Code: sigkit.RawMulti(1, encs([]*sigkit.Key{att, att2}), 2, 0xae), Parameter: sigkit.SigScript(att, data)}}
					} else {
						ps = []*pg.Program{{Code: sigkit.StdCode(att), Parameter: sigkit.SigScript(att, data)}}
					}
				case 1:
					name = "owner-once"
					ps = []*pg.Program{sp.sign(data)}
				default:
					name = "owner-twice"
					ps = []*pg.Program{sp.sign(data), sp.sign(data)}
				}
				tx.SetPrograms(ps)
				finishTx(tx, refs, [][]byte{alias[:]}, ps, data, fmt.Sprintf("collision:%02x+script%02x:%s", sp.pre, q, name))
			}
		}
	}
	// two spent addresses of one code hash (standard + deposit of one key), owner signs twice / once
	for variant := 0; variant < 2; variant++ {
		tx, refs := buildTx(txSpec{refs: []common.Uint168{sigkit.Hash(pStd, std), sigkit.Hash(pDep, std)}})
		data := unsigned(tx)
		ps := []*pg.Program{signStd(data)}
		if variant == 0 {
			ps = append(ps, signStd(data))
		}
		tx.SetPrograms(ps)
		finishTx(tx, refs, nil, ps, data, fmt.Sprintf("collision:std+deposit-spent:%dprograms", len(ps)))
	}
}

// ---------------------------------------------------------------- VerifyMultisigSignatures

func multiCase() {
	data := rng.Bytes(rng.Range(1, 60))
	n := rng.Range(1, 6)
	ks := pickKeys(n)
	var k34 [][]byte
	for _, k := range ks {
		k34 = append(k34, append([]byte{0x21}, k.Enc...))
	}
	kind := "vm"
	switch rng.Intn(8) {
	case 0: // duplicated key with a different (unchecked) length byte: must still count once
		d := append([]byte{byte(rng.Intn(256))}, ks[0].Enc...)
		k34 = append(k34, d)
		kind += "+dupkey-lenbyte"
	case 1: // exact duplicate
		k34 = append(k34, k34[rng.Intn(len(k34))])
		kind += "+dupkey"
	case 2: // undecodable key somewhere
		bad := append([]byte{0x21, 0x05}, rng.Bytes(32)...)
		pos := rng.Intn(len(k34) + 1)
		k34 = append(k34[:pos], append([][]byte{bad}, k34[pos:]...)...)
		kind += "+badpoint"
	case 3: // x not on the curve, most likely
		bad := append([]byte{0x21, 0x02}, rng.Bytes(32)...)
		k34 = append(k34, bad)
		kind += "+offcurve"
	}
	nArg := len(k34)
	if rng.Chance(10) {
		nArg += rng.Range(-1, 1)
	}
	m := rng.Range(-1, len(k34)+1)
	if rng.Chance(60) {
		m = rng.Range(1, n)
	}
	var sigs []byte
	cnt := rng.Range(0, n)
	if rng.Chance(50) {
		cnt = m
		if cnt < 0 {
			cnt = 0
		}
		if cnt > n {
			cnt = n
		}
	}
	ord := pickIdx(n)
	for _, i := range ord[:cnt] {
		sigs = append(sigs, sigkit.SigScript(ks[i], data)...)
	}
	switch rng.Intn(8) {
	case 0:
		if cnt > 0 {
			sigs = append(sigs, sigs[:65]...)
			kind += "+dupsig"
		}
	case 1:
		if cnt > 0 {
			sigs = append(sigs, sigkit.SigScript(ks[ord[0]], data)...)
			kind += "+dupsigner"
		}
	case 2:
		sigs = append(sigs, sigkit.SigScript(keys[len(keys)-1], data)...)
		kind += "+foreign"
	case 3:
		sigs = append(sigs, sigkit.SigScript(ks[ord[n-1]], flip(data, rng))...)
		kind += "+wrongdata"
	case 4:
		if len(sigs) > 0 {
			sigs = flip(sigs, rng)
			kind += "+flip"
		}
	case 5:
		if len(sigs) > 0 && rng.Bool() {
			sigs = sigs[:len(sigs)-rng.Range(1, 3)]
			kind += "+trunc"
		}
	}
	t := &sigkit.Tables{}
	t.AddKeySig(k34, sigs)
	acc, pan := accepted(func() error { return crypto.VerifyMultisigSignatures(m, nArg, k34, sigs, data) })
	i := next()
	var kl []string
	for _, k := range k34 {
		kl = append(kl, sigkit.Pack(k))
	}
	addBase(fmt.Sprintf("CMulti %d %s %s %s %s %s %s", i, lib.CoqZi(int64(m)), lib.CoqZi(int64(nArg)), lib.CoqList(kl), sigkit.Pack(sigs), t.Coq(data), lib.CoqBool(acc)))
	var kh []string
	for _, k := range k34 {
		kh = append(kh, sigkit.Hex(k))
	}
	in := map[string]interface{}{"op": "VerifyMultisigSignatures", "kind": kind, "m": m, "n": nArg, "keys": kh, "sigs": sigkit.Hex(sigs), "data": sigkit.Hex(data), "accepted": acc, "panicked": pan}
	st.LogCase(run.Out, i, in)
	st.Count(sigkit.Digest(kind, fmt.Sprint(m, nArg, len(sigs)/65, acc)), true, "VerifyMultisigSignatures:"+outcome(acc, pan))
	if acc && m >= 1 { // statement: at least m distinct keys signed
		distinct := map[string]bool{}
		for _, k := range k34 {
			for j := 0; j+65 <= len(sigs); j += 65 {
				if sigkit.EcdsaOK(k[1:], data, sigs[j+1:j+65]) {
					distinct[string(k[1:])] = true
				}
			}
		}
		if len(distinct) < m {
			st.Fail("VerifyMultisigSignatures:fewer-than-m-distinct-signers", fmt.Sprintf("accepted with %d distinct signing keys, m=%d", len(distinct), m), in)
		}
	}
}

func shapeCase() {
	var code []byte
	switch rng.Intn(5) {
	case 0:
		code, _ = malformedCode()
	case 1:
		p, _ := multisigProgram([]byte{1}, 0xae)
		code = p.Code
		if rng.Chance(50) {
			code = flip(code, rng)
		}
	case 2:
		code = sigkit.StdCode(keys[0])
		if rng.Chance(50) {
			code = flip(code, rng)
		}
	case 3:
		code = sigkit.SchnorrCode(keys[1])
		if rng.Chance(50) {
			code = flip(code, rng)
		}
	default: // pushbytes-style m / n
		ks := pickKeys(2)
		body := []byte{}
		for _, k := range ks {
			body = append(body, 0x21)
			body = append(body, k.Enc...)
		}
		switch rng.Intn(4) {
		case 0:
			code = append(append([]byte{1, 2}, body...), 1, 2, 0xae)
		case 1:
			code = append(append([]byte{2, 0, 2}, body...), 2, 0, 2, 0xae)
		case 2:
			code = append(append([]byte{1, 1}, body...), 1) // n read out of range
		default:
			code = append(append([]byte{0x52}, body...), 2, 0)
		}
	}
	var s, c, m bool
	lib.Recover(func() { s = contract.IsStandard(code) })
	lib.Recover(func() { c = contract.IsSchnorr(code) })
	lib.Recover(func() { m = contract.IsMultiSig(code) })
	ms := 0
	if m {
		ms = 1
	}
	i := next()
	addBase(fmt.Sprintf("CShape %d %s %s %s %d", i, sigkit.Pack(code), lib.CoqBool(s), lib.CoqBool(c), ms))
	st.LogCase(run.Out, i, map[string]interface{}{"op": "shape", "code": sigkit.Hex(code), "std": s, "schnorr": c, "multisig": m})
	st.Count(sigkit.Digest("shape", sigkit.Hex(code)), s || c || m, "shape")
}

// ---------------------------------------------------------------- exemptions of checkTransactionSignature

// Mirror of model/C05_Sig.v [allowed_reason]: why a (type, payload version)
// pair may skip RunPrograms.  "" = it may not.
func allowedReason(ty, v byte) string {
	switch {
	case ty == 0x14:
		return "no-inputs"
	case ty == 0x2b, ty == 0x2a, ty == 0x29 && v == 0:
		return "inputs-restricted"
	case ty == 0x61, ty == 0x65:
		return "known"
	}
	return ""
}

func probeTx(ty, v byte, victim common.Uint168) (interfaces.Transaction, map[*common2.Input]common2.Output) {
	in := &common2.Input{Sequence: 1}
	in.Previous.TxID[0] = 7
	tx := transaction.CreateTransaction(common2.TxVersion09, common2.TxType(ty), v, nil, nil, []*common2.Input{in}, nil, 0, nil)
	return tx, map[*common2.Input]common2.Output{in: {ProgramHash: victim, Value: 1000}}
}

// restrictsInputs: source fact (go/ast over <repo>/core/transaction): the
// SpecialContextCheck of receiver type `name` ranges over t.references, looks
// at ProgramHash and returns from inside the loop.
func restrictsInputs(pkgs map[string]*ast.Package, name string) bool {
	found := false
	for _, pkg := range pkgs {
		for _, f := range pkg.Files {
			for _, d := range f.Decls {
				fd, ok := d.(*ast.FuncDecl)
				if !ok || fd.Recv == nil || fd.Name.Name != "SpecialContextCheck" || fd.Body == nil || len(fd.Recv.List) != 1 {
					continue
				}
				star, ok := fd.Recv.List[0].Type.(*ast.StarExpr)
				if !ok {
					continue
				}
				if id, ok := star.X.(*ast.Ident); !ok || id.Name != name {
					continue
				}
				ast.Inspect(fd.Body, func(n ast.Node) bool {
					rs, ok := n.(*ast.RangeStmt)
					if !ok {
						return true
					}
					sel, ok := rs.X.(*ast.SelectorExpr)
					if !ok || sel.Sel.Name != "references" {
						return true
					}
					hasPH, hasRet := false, false
					ast.Inspect(rs.Body, func(m ast.Node) bool {
						if s, ok := m.(*ast.SelectorExpr); ok && s.Sel.Name == "ProgramHash" {
							hasPH = true
						}
						if _, ok := m.(*ast.ReturnStmt); ok {
							hasRet = true
						}
						return true
					})
					if hasPH && hasRet {
						found = true
					}
					return true
				})
			}
		}
	}
	return found
}

// exemptions probes every transaction type x payload version through the real
// checkTransactionSignature, writes coq/gen/C05_exempt.v and returns the
// valid types.
func exemptions() []byte {
	victim := sigkit.Hash(pStd, sigkit.StdCode(keys[4]))
	fset := token.NewFileSet()
	pkgs, err := parser.ParseDir(fset, filepath.Join(run.Repo, "core", "transaction"), func(fi os.FileInfo) bool {
		return !strings.HasSuffix(fi.Name(), "_test.go")
	}, 0)
	if err != nil {
		panic(err)
	}
	var valid []byte
	var rows, facts []string
	total := 0
	for ty := 0; ty < 256; ty++ {
		t0, err := transaction.GetTransaction(common2.TxType(ty))
		if err != nil || t0 == nil {
			continue
		}
		valid = append(valid, byte(ty))
		var ex [256]bool
		any := false
		for v := 0; v < 256; v++ {
			tx, refs := probeTx(byte(ty), byte(v), victim)
			acc, _ := accepted(func() error { return transaction.CheckTransactionSignatureVerifC05(tx, refs) })
			ex[v] = acc
			if acc {
				any = true
				total++
			}
		}
		if !any {
			continue
		}
		for v := 0; v < 256; {
			if !ex[v] {
				v++
				continue
			}
			lo := v
			for v < 256 && ex[v] {
				v++
			}
			rows = append(rows, fmt.Sprintf("(%d, %d, %d)", ty, lo, v-1))
		}
		// facts of an exempt type
		tx, _ := probeTx(byte(ty), 0, victim)
		noInputs := false
		lib.Recover(func() {
			tx.SetParameters(&transaction.TransactionParameters{Transaction: tx, Config: &config.DefaultParams})
			noInputs = tx.CheckTransactionInput() != nil
		})
		name := reflect.TypeOf(t0).Elem().Name()
		restr := restrictsInputs(pkgs, name)
		facts = append(facts, fmt.Sprintf("(%d, %s, %s)", ty, lib.CoqBool(noInputs), lib.CoqBool(restr)))
		st.Extra[fmt.Sprintf("exempt_type_0x%02x", ty)] = map[string]interface{}{"struct": name, "no_inputs": noInputs, "restricts_inputs": restr}
	}
	st.Extra["exempt_pairs"] = total
	gen := "(* generated by harness/cmd/c05 from " + run.Repo + " on every run: (type, payload version) pairs for which\n" +
		"   checkTransactionSignature returns nil without running a program (all 256 x 256 pairs probed), and per exempt type\n" +
		"   (type, CheckTransactionInput forbids inputs, SpecialContextCheck tests the ProgramHash of t.references) *)\n" +
		"From Coq Require Import ZArith Bool List.\nFrom ELA Require Import model.C05_Sig.\nImport ListNotations.\nLocal Open Scope Z_scope.\n" +
		"Definition rows : list (Z * Z * Z) := " + lib.CoqList(rows) + ".\n" +
		"Definition facts : list (Z * bool * bool) := " + lib.CoqList(facts) + ".\n" +
		"Lemma checked : all_exemptions_justified rows facts = true.\nProof. vm_compute. reflexivity. Qed.\n"
	gen = strings.ReplaceAll(gen, "\\n", "\n")
	if err := os.WriteFile("/verif/coq/gen/C05_exempt.v", []byte(gen), 0o644); err != nil {
		panic(err)
	}
	return valid
}

// typedCases: every transaction type x payload version 0..3, 0x7f, 0xff with
// an input of a foreign address and only the sender's own (valid) program.
func typedCases(valid []byte) {
	victimKey, sender := keys[4], keys[3]
	victim := sigkit.Hash(pStd, sigkit.StdCode(victimKey))
	scode := sigkit.StdCode(sender)
	shash := sigkit.Hash(pStd, scode)
	for _, ty := range valid {
		for _, v := range []byte{0, 1, 2, 3, 0x7f, 0xff} {
			var pl interfaces.Payload
			lib.Recover(func() { pl, _ = interfaces.GetPayload(common2.TxType(ty), v) })
			in1 := &common2.Input{Sequence: 1}
			copy(in1.Previous.TxID[:], rng.Bytes(32))
			in2 := &common2.Input{Sequence: 2}
			copy(in2.Previous.TxID[:], rng.Bytes(32))
			out := &common2.Output{Value: 10, Type: common2.OTNone, Payload: &outputpayload.DefaultOutput{}}
			copy(out.ProgramHash[:], shash[:])
			tx := transaction.CreateTransaction(common2.TxVersion09, common2.TxType(ty), v, pl, nil,
				[]*common2.Input{in1, in2}, []*common2.Output{out}, 0, nil)
			refs := map[*common2.Input]common2.Output{in1: {ProgramHash: victim, Value: 1000}, in2: {ProgramHash: shash, Value: 5}}
			var data []byte
			lib.Recover(func() {
				buf := new(bytes.Buffer)
				tx.SerializeUnsigned(buf) // error ignored, exactly as checkTransactionSignature does
				data = buf.Bytes()
			})
			ps := []*pg.Program{{Code: scode, Parameter: sigkit.SigScript(sender, data)}}
			tx.SetPrograms(ps)
			t := &sigkit.Tables{}
			t.AddProgram(ps[0])
			progsCoq := sigkit.CoqProgs(ps)
			acc, pan := accepted(func() error { return transaction.CheckTransactionSignatureVerifC05(tx, refs) })
			i := next()
			sh.Add(fmt.Sprintf("CTyped %d %d %d %s [] %s %s %s", i, ty, v, sigkit.CoqHashes([]common.Uint168{victim, shash}), progsCoq, t.Coq(data), lib.CoqBool(acc)))
			in := map[string]interface{}{"op": "checkTransactionSignature", "txType": fmt.Sprintf("0x%02x %s", ty, common2.TxType(ty).Name()), "payloadVersion": v,
				"foreignInput": sigkit.Hex(victim[:]), "programs": sigkit.ProgsJSON(ps), "accepted": acc, "panicked": pan}
			st.LogCase(run.Out, i, in)
			st.Count(fmt.Sprintf("typed:%02x:%d:%v", ty, v, acc), true, "typed:"+outcome(acc, pan))
			if !acc {
				continue
			}
			// accepted although the foreign address has no authorising program
			switch allowedReason(ty, v) {
			case "no-inputs", "inputs-restricted":
				st.Hist["typed:exempt-justified"]++
			case "known":
				st.Fail(fmt.Sprintf("checkTransactionSignature:exempt-type-inputs-unrestricted:0x%02x", ty),
					"a program-less "+common2.TxType(ty).Name()+" transaction skips the signature check and its SpecialContextCheck does not restrict the input addresses", in)
			default:
				st.Fail("checkTransactionSignature:accepted-without-authorising-program",
					fmt.Sprintf("%s with payload version %d accepted although the spent address %s has no program", common2.TxType(ty).Name(), v, sigkit.Hex(victim[:])), in)
			}
		}
	}
}

func main() {
	run = lib.ParseArgs()
	elaenv.InitLog(run.Out)
	functions.GetTransactionByTxType = transaction.GetTransaction
	functions.GetTransactionByBytes = transaction.GetTransactionByBytes
	functions.CreateTransaction = transaction.CreateTransaction
	functions.GetTransactionParameters = transaction.GetTransactionparameters
	config.DefaultParams = *config.GetDefaultParams()
	rng = lib.NewRng(run.Seed)
	st = lib.NewStats("C05", "real P-256/Schnorr keys; RunPrograms slots: standard, m-of-n (n<=6) under multisig/standard/deposit prefix, aggregated Schnorr, cross-chain prefix, malformed codes under every prefix, with wrong-key / wrong-data / bit-flipped / truncated / duplicated-signer / duplicated-key / foreign-signer variants; whole transactions through checkTransactionSignature (1-4 owners, repeated addresses, Script attributes, missing/extra programs, tampering after signing); VerifyMultisigSignatures with m in -1..n+1, undecodable keys, length-byte aliases. nontrivial = reaches a signature decision; distinct by (variant kind, outcome)")
	sh = &lib.Shards{Dir: run.Out, Imports: "From Coq Require Import Uint63.\nFrom ELA Require Import model.C05_Sig corr.C05_corr corr.C05_typed_corr.\nImport C05_corr C05_typed_corr.", CaseType: "C05_typed_corr.case",
		Mismatch: "C05_typed_corr.mismatches", Scope: "Z", PerShard: 40}
	for i := 0; i < 9; i++ {
		keys = append(keys, sigkit.NewKey(rng))
	}

	// ---- corpus: fixed witnesses, every run
	data0 := []byte("C05 corpus: unsigned bytes of a spending transaction")
	k0, k1, k2 := keys[0], keys[1], keys[2]
	// (a) Standard-prefix address whose code is of no known shape, empty parameter
	for _, pre := range []byte{pStd, pDep} {
		c := sigkit.StdCode(k0)
		c[34] = 0xad
		runCase(data0, []pair{{sigkit.Hash(pre, c), &pg.Program{Code: c}, "corpus"}}, fmt.Sprintf("corpus:unknown-shape-ad@%02x", pre))
		junk := bytes.Repeat([]byte{0x6a}, 30)
		runCase(data0, []pair{{sigkit.Hash(pre, junk), &pg.Program{Code: junk}, "corpus"}}, fmt.Sprintf("corpus:unknown-shape-junk@%02x", pre))
		noterm := sigkit.RawMulti(1, encs([]*sigkit.Key{k0, k1}), 2, 0xae)
		noterm = noterm[:len(noterm)-1]
		runCase(data0, []pair{{sigkit.Hash(pre, noterm), &pg.Program{Code: noterm}, "corpus"}}, fmt.Sprintf("corpus:multi-noterm@%02x", pre))
	}
	// (b) CrossChain-prefix address spent with a 1-of-2 script of the spender's own keys
	{
		genesisScript := append([]byte{0x20}, append(bytes.Repeat([]byte{7}, 32), 0xaf)...)
		code := sigkit.RawMulti(1, encs([]*sigkit.Key{k1, k2}), 2, 0xaf)
		p := &pg.Program{Code: code, Parameter: sigkit.SigScript(k1, data0)}
		runCase(data0, []pair{{sigkit.Hash(pCross, genesisScript), p, "corpus"}}, "corpus:crosschain-foreign-keys")
		// the same with m = 0 and no signature at all
		code0 := sigkit.RawMulti(0, encs([]*sigkit.Key{k1, k2}), 2, 0xaf)
		runCase(data0, []pair{{sigkit.Hash(pCross, genesisScript), &pg.Program{Code: code0}, "corpus"}}, "corpus:crosschain-m0-unsigned")
	}
	// plain valid / invalid references
	{
		c := sigkit.StdCode(k0)
		runCase(data0, []pair{{sigkit.Hash(pStd, c), &pg.Program{Code: c, Parameter: sigkit.SigScript(k0, data0)}, "corpus"}}, "corpus:std-valid")
		runCase(data0, []pair{{sigkit.Hash(pStd, c), &pg.Program{Code: c, Parameter: sigkit.SigScript(k1, data0)}, "corpus"}}, "corpus:std-otherkey")
		mc := sigkit.RawMulti(2, encs([]*sigkit.Key{k0, k1, k2}), 3, 0xae)
		one := sigkit.SigScript(k0, data0)
		runCase(data0, []pair{{sigkit.Hash(pMulti, mc), &pg.Program{Code: mc, Parameter: append(append([]byte{}, one...), one...)}, "corpus"}}, "corpus:multi-2of3-one-signer-twice")
		runCase(data0, []pair{{sigkit.Hash(pMulti, mc), &pg.Program{Code: mc, Parameter: append(append([]byte{}, one...), sigkit.SigScript(k0, data0)...)}, "corpus"}}, "corpus:multi-2of3-one-key-two-signatures")
		runCase(data0, []pair{{sigkit.Hash(pMulti, mc), &pg.Program{Code: mc, Parameter: append(append([]byte{}, one...), sigkit.SigScript(k2, data0)...)}, "corpus"}}, "corpus:multi-2of3-valid")
		dup := sigkit.RawMulti(2, [][]byte{k0.Enc, k0.Enc, k1.Enc}, 3, 0xae)
		runCase(data0, []pair{{sigkit.Hash(pMulti, dup), &pg.Program{Code: dup, Parameter: append(append([]byte{}, one...), sigkit.SigScript(k0, data0)...)}, "corpus"}}, "corpus:multi-dupkey-one-signer")
		for _, pre := range []byte{pStd, pDep} { // a valid program under somebody else's address
			runCase(data0, []pair{{sigkit.Hash(pre, sigkit.StdCode(k1)), &pg.Program{Code: c, Parameter: sigkit.SigScript(k0, data0)}, "corpus"}}, fmt.Sprintf("corpus:std-hashmismatch@%02x", pre))
		}
		for _, pre := range []byte{pMulti, pStd, pDep} {
			mine := sigkit.RawMulti(1, encs([]*sigkit.Key{k0, k1}), 2, 0xae)
			runCase(data0, []pair{{sigkit.Hash(pre, mc), &pg.Program{Code: mine, Parameter: sigkit.SigScript(k0, data0)}, "corpus"}}, fmt.Sprintf("corpus:multi-hashmismatch@%02x", pre))
		}
		crossProduct(data0)
		runCase(data0, nil, "corpus:empty")
		runCase(data0, []pair{{sigkit.Hash(pStd, c), &pg.Program{Code: c, Parameter: sigkit.SigScript(k0, data0)}, "corpus"}, {sigkit.Hash(pStd, c), &pg.Program{Code: c, Parameter: sigkit.SigScript(k0, data0)}, "corpus"}}[:1], "corpus:one")
	}

	// ---- generated RunPrograms calls
	for i := 0; i < run.N(150, 6000); i++ {
		data := rng.Bytes(rng.Range(1, 80))
		clean = rng.Chance(40)
		np := rng.Range(1, 3)
		var pairs []pair
		kind := ""
		for j := 0; j < np; j++ {
			x := genPair(data)
			pairs = append(pairs, x)
			if j > 0 {
				kind += ","
			}
			kind += x.kind
		}
		clean = false
		if rng.Chance(4) { // count mismatch
			pairs2 := pairs[:len(pairs)-1]
			var hs []common.Uint168
			var ps []*pg.Program
			for _, x := range pairs {
				hs = append(hs, x.h)
			}
			for _, x := range pairs2 {
				ps = append(ps, x.p)
			}
			t := &sigkit.Tables{}
			for _, p := range ps {
				t.AddProgram(p)
			}
			acc, pan := accepted(func() error { return blockchain.RunPrograms(data, hs, ps) })
			k := next()
			addBase(fmt.Sprintf("CRun %d %s %s %s %s", k, sigkit.CoqHashes(hs), sigkit.CoqProgs(ps), t.Coq(data), lib.CoqBool(acc)))
			in := map[string]interface{}{"op": "RunPrograms", "kind": "countmismatch", "hashes": sigkit.HashesJSON(hs), "programs": sigkit.ProgsJSON(ps), "accepted": acc}
			st.LogCase(run.Out, k, in)
			st.Count("countmismatch", false, "RunPrograms:"+outcome(acc, pan))
			if acc {
				judge(data, hs, ps, "RunPrograms", in)
			}
			continue
		}
		runCase(data, pairs, kind)
	}
	// ---- exemption table (regenerated) and every transaction type end to end
	typedCases(exemptions())
	// ---- code-hash collisions between required hashes (fixed, every run)
	collisionCases()
	// ---- whole transactions
	for i := 0; i < run.N(70, 3000); i++ {
		txCase()
	}
	// ---- VerifyMultisigSignatures
	for i := 0; i < run.N(100, 5000); i++ {
		multiCase()
	}
	// ---- shapes
	for i := 0; i < run.N(100, 5000); i++ {
		shapeCase()
	}
	st.Traces = st.Evals
	sh.Flush()
	st.Write(run.Out)
}
