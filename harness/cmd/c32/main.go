// C32 correspondence + oracle: checkFrozenAddresses and the frozen-list
// configuration enforcement of /repo against coq/model/C32_Frozen.v.
package main

import (
	"encoding/json"
	"fmt"
	"math/big"
	"os"
	"path/filepath"
	"strings"

	elacommon "github.com/elastos/Elastos.ELA/common"
	"github.com/elastos/Elastos.ELA/common/config"
	"github.com/elastos/Elastos.ELA/common/config/settings"
	"github.com/elastos/Elastos.ELA/core/transaction"
	common2 "github.com/elastos/Elastos.ELA/core/types/common"
	"github.com/elastos/Elastos.ELA/core/types/interfaces"

	"verifharness/ctxcheck"
	"verifharness/elaenv"
	"verifharness/lib"
)

type entry struct {
	hash  *elacommon.Uint168
	start uint32
}

func hz(h elacommon.Uint168) string { return new(big.Int).SetBytes(h[:]).String() }

func entriesCoq(es []entry) string {
	var ss []string
	for _, e := range es {
		if e.hash == nil {
			ss = append(ss, fmt.Sprintf("F None %d", e.start))
		} else {
			ss = append(ss, fmt.Sprintf("F (Some %s) %d", hz(*e.hash), e.start))
		}
	}
	return lib.CoqList(ss)
}

func hashesCoq(hs []elacommon.Uint168) string {
	ss := make([]string, len(hs))
	for i, h := range hs {
		ss[i] = hz(h)
	}
	return lib.CoqList(ss)
}

func toConfig(es []entry) []config.FrozenAddress {
	var l []config.FrozenAddress
	for i, e := range es {
		l = append(l, config.FrozenAddress{Address: fmt.Sprintf("entry-%d", i), DisableStartHeight: e.start, ProgramHash: e.hash})
	}
	return l
}

// the property statement, evaluated directly
func expected(es []entry, refs, outs []elacommon.Uint168, h uint32) bool {
	for _, e := range es {
		if e.hash == nil || h < e.start {
			continue
		}
		for _, r := range refs {
			if r == *e.hash {
				return false
			}
		}
		for _, o := range outs {
			if o == *e.hash {
				return false
			}
		}
	}
	return true
}

func mixes(al []elacommon.Uint168, maxlen int) [][]elacommon.Uint168 {
	var res [][]elacommon.Uint168
	var ofLen func(n int) [][]elacommon.Uint168
	ofLen = func(n int) [][]elacommon.Uint168 {
		if n == 0 {
			return [][]elacommon.Uint168{{}}
		}
		sub := ofLen(n - 1)
		var r [][]elacommon.Uint168
		for _, a := range al {
			for _, s := range sub {
				r = append(r, append([]elacommon.Uint168{a}, s...))
			}
		}
		return r
	}
	for n := 0; n <= maxlen; n++ {
		res = append(res, ofLen(n)...)
	}
	return res
}

func cps(name string) string {
	var ss []string
	for _, r := range []rune(name) {
		ss = append(ss, fmt.Sprintf("%d", r))
	}
	return lib.CoqList(ss)
}

func isMainName(name string) bool {
	switch strings.ToLower(name) {
	case "", "mainnet", "main":
		return true
	}
	return false
}

func main() {
	run := lib.ParseArgs()
	elaenv.InitLog(run.Out)
	rng := lib.NewRng(run.Seed)
	st := lib.NewStats("C32", "exhaustive position sweep: every pair (referenced hashes, output hashes) of lists of length<=4 over {frozen, normal} (single-entry lists) and length<=2 over {frozen A, frozen B, normal} (multi-entry lists with a nil-hash entry, duplicates, different start heights), at heights start-1,start,start+1 (and around the second start); random cases with 0..4 entries, 0..6 references/outputs and near-miss hashes; configuration: enforce function and the real SetupConfig over net names x local frozen lists, followed by the real check with the resulting list. nontrivial = a frozen hash occurs among references or outputs at a height where its entry is active; distinct by full input")
	sh := &lib.Shards{Dir: run.Out, Imports: "From ELA Require Import model.C32_Frozen corr.C32_corr.", CaseType: "C32_corr.case",
		Mismatch: "C32_corr.mismatches", Scope: "Z", PerShard: 150}
	id := 0
	next := func() int { id++; return id }

	exploit, err := elacommon.Uint168FromAddress(config.ExploitIntermediateFrozenAddress)
	if err != nil {
		panic(err)
	}
	hashA := *exploit
	otherAddrs := []string{"EJMzC16Eorq9CuFCGtyMrq4Jmgw9jYCHQR", "8VYXVxKKSAxkmRrfmGpQR2Kc66XhG6m3ta"}
	bp, err := elacommon.Uint168FromAddress(otherAddrs[0])
	if err != nil {
		panic(err)
	}
	hashB := *bp
	var hashN elacommon.Uint168
	copy(hashN[:], rng.Bytes(21))
	hashN[0] = 0x21
	nearA1, nearA2 := hashA, hashA
	nearA1[20] ^= 1
	nearA2[0] ^= 0x40

	callCheck := func(es []entry, refs, outs []elacommon.Uint168, h uint32) bool {
		tx, _ := transaction.GetTransaction(common2.TransferAsset)
		var os_ []*common2.Output
		for _, o := range outs {
			os_ = append(os_, &common2.Output{ProgramHash: o, Value: 1})
		}
		tx.SetOutputs(os_)
		rm := map[*common2.Input]common2.Output{}
		for i, r := range refs {
			in := &common2.Input{}
			in.Previous.Index = uint16(i)
			rm[in] = common2.Output{ProgramHash: r, Value: 1}
		}
		return callReal(st, tx, rm, es, refs, outs, h)
	}

	// ---------------- wiring of the helper inside ContextCheck (read from the source under test)
	if m, err := ctxcheck.Load(run.Repo, "ContextCheck"); err != nil {
		st.Fail("c32:contextcheck-wiring", "cannot analyse DefaultChecker.ContextCheck: "+err.Error(), nil)
	} else {
		for _, p := range []string{
			m.OnlyReceivers("DefaultChecker", "CoinBaseTransaction"),
			m.Expect("checkFrozenAddresses", []string{"t.parameters.Transaction", "references", "t.parameters.BlockHeight",
				"t.parameters.Config.FrozenAddresses"},
				[]string{"GetTxReference"}, []string{"SpecialContextCheck", "CheckTransactionFee", "checkTransactionSignature"}),
		} {
			if p != "" {
				st.Fail("c32:contextcheck-wiring", "ContextCheck no longer applies the frozen-address check to every non-coinbase transaction before the type-specific checks: "+p, nil)
			}
		}
	}

	// ---------------- exhaustive position sweeps
	const S = 1000
	type sweepCfg struct {
		es      []entry
		al      []elacommon.Uint168
		maxlen  int
		heights []uint32
	}
	sweeps := []sweepCfg{
		{[]entry{{&hashA, S}}, []elacommon.Uint168{hashA, hashN}, 4, []uint32{S - 1, S, S + 1, 0, ^uint32(0)}},
		{[]entry{{&hashA, config.MainNetCrossChainUTXOFreezeHeight}}, []elacommon.Uint168{hashA, hashN}, 4,
			[]uint32{config.MainNetCrossChainUTXOFreezeHeight - 1, config.MainNetCrossChainUTXOFreezeHeight, config.MainNetCrossChainUTXOFreezeHeight + 1}},
		{[]entry{{nil, 0}, {&hashA, S}, {&hashB, S + 5}}, []elacommon.Uint168{hashA, hashB, hashN}, 2, []uint32{S - 1, S, S + 4, S + 5, S + 6}},
		{[]entry{{&hashA, S + 3}, {&hashA, S}}, []elacommon.Uint168{hashA, hashB, hashN}, 2, []uint32{S - 1, S, S + 3}},
		{nil, []elacommon.Uint168{hashA, hashN}, 2, []uint32{S}},
		{[]entry{{nil, 0}}, []elacommon.Uint168{hashA, hashN}, 2, []uint32{S}},
		{[]entry{{&hashA, 0}}, []elacommon.Uint168{hashA, nearA1, nearA2}, 2, []uint32{0, 1}},
	}
	if run.Thorough() {
		sweeps = append(sweeps,
			sweepCfg{[]entry{{&hashA, S}, {&hashB, S}}, []elacommon.Uint168{hashA, hashB, hashN}, 3, []uint32{S - 1, S, S + 1}},
			sweepCfg{[]entry{{&hashB, S}}, []elacommon.Uint168{hashA, hashB, hashN, nearA1}, 3, []uint32{S - 1, S}})
	}
	one := big.NewInt(1)
	sweepActive := 0
	for _, sc := range sweeps {
		ms := mixes(sc.al, sc.maxlen)
		for _, h := range sc.heights {
			mask := new(big.Int)
			bit := uint(0)
			for _, r := range ms {
				for _, o := range ms {
					ok := callCheck(sc.es, r, o, h)
					if ok {
						mask.Or(mask, new(big.Int).Lsh(one, bit))
					}
					bit++
					st.Evals++
					if !expected(sc.es, r, o, h) {
						st.Hist["sweep:frozen-hit"]++
						sweepActive++
					} else {
						st.Hist["sweep:clean"]++
					}
				}
			}
			k := next()
			sh.Add(fmt.Sprintf("CFSweep %d %s %d %s %d%%N %s", k, entriesCoq(sc.es), h, hashesCoq(sc.al), sc.maxlen, mask.String()))
			st.LogCase(run.Out, k, map[string]interface{}{"op": "sweep", "entries": entriesCoq(sc.es), "height": h, "alphabet": hashesCoq(sc.al), "maxlen": sc.maxlen, "mask": mask.String()})
			st.Hist["sweep-rows"]++
		}
	}
	st.Sample(map[string]interface{}{"op": "sweep", "rows": st.Hist["sweep-rows"], "calls": st.Evals})

	// ---------------- random cases
	pool := []elacommon.Uint168{hashA, hashB, hashN, nearA1, nearA2, {}}
	for i := 0; i < run.N(1500, 15000); i++ {
		h := uint32(S - 5 + rng.Intn(12))
		if rng.Chance(10) {
			h = uint32(rng.PickU64(0, 1, 1<<32-1, 2256109, 2256110))
		}
		var es []entry
		for j := rng.Intn(5); j > 0; j-- {
			e := entry{start: uint32(S - 3 + rng.Intn(8))}
			if rng.Chance(10) {
				e.start = uint32(rng.PickU64(0, 1<<32-1, 2256110))
			}
			if !rng.Chance(15) {
				hh := pool[rng.Intn(3)]
				e.hash = &hh
			}
			es = append(es, e)
		}
		gen := func() (l []elacommon.Uint168) {
			for j := rng.Intn(7); j > 0; j-- {
				if rng.Chance(70) {
					l = append(l, pool[2+rng.Intn(4)])
				} else {
					l = append(l, pool[rng.Intn(len(pool))])
				}
			}
			return
		}
		refs, outs := gen(), gen()
		ok := callCheck(es, refs, outs, h)
		k := next()
		sh.Add(fmt.Sprintf("CFrozen %d %s %s %s %d %s", k, entriesCoq(es), hashesCoq(refs), hashesCoq(outs), h, lib.CoqBool(ok)))
		in := map[string]interface{}{"op": "check", "entries": entriesCoq(es), "refs": hashesCoq(refs), "outs": hashesCoq(outs), "height": h, "accepted": ok}
		st.LogCase(run.Out, k, in)
		st.Count(fmt.Sprintf("%s|%s|%s|%d", entriesCoq(es), hashesCoq(refs), hashesCoq(outs), h), !expected(es, refs, outs, h), "random-check")
		if i < 2 {
			st.Sample(in)
		}
	}

	// ---------------- configuration enforcement
	addrID := map[string]int{config.ExploitIntermediateFrozenAddress: 1, otherAddrs[0]: 2, otherAddrs[1]: 3, "not-an-address": 4, "": 5}
	type cfgList []config.FrozenAddress
	lists := []cfgList{
		nil,
		{{Address: otherAddrs[0], DisableStartHeight: 1}},
		{{Address: config.ExploitIntermediateFrozenAddress, DisableStartHeight: 4000000}},
		{{Address: otherAddrs[0], DisableStartHeight: 7}, {Address: otherAddrs[1], DisableStartHeight: 9}},
		{{Address: config.ExploitIntermediateFrozenAddress, DisableStartHeight: config.MainNetCrossChainUTXOFreezeHeight}, {Address: otherAddrs[1], DisableStartHeight: 3}},
		{{Address: "not-an-address", DisableStartHeight: 2}},
	}
	names := []string{"", "mainnet", "MainNet", "MAINNET", "main", "Main", "MAİNNET", "testnet", "TestNet", "test", "regnet", "RegNet", "regtest", "reg",
		"private-net", "mainnet2", "mainnet ", " main", "mai", "devnet"}
	for i := 0; i < run.N(10, 300); i++ {
		b := []rune(names[rng.Intn(14)])
		if len(b) > 0 && rng.Bool() {
			j := rng.Intn(len(b))
			b[j] = []rune(strings.ToUpper(string(b[j])))[0]
		} else {
			b = append(b, rune(rng.PickU64('x', ' ', '1')))
		}
		names = append(names, string(b))
	}
	cfgCoq := func(l []config.FrozenAddress) string {
		var ss []string
		for _, e := range l {
			ss = append(ss, fmt.Sprintf("CE %d %d", addrID[e.Address], e.DisableStartHeight))
		}
		return lib.CoqList(ss)
	}
	outCoq := func(l []config.FrozenAddress) string {
		var ss []string
		for _, e := range l {
			hs := "None"
			if e.ProgramHash != nil {
				hs = "(Some " + hz(*e.ProgramHash) + ")"
			}
			ss = append(ss, fmt.Sprintf("(%d, %d, %s)", addrID[e.Address], e.DisableStartHeight, hs))
		}
		return lib.CoqList(ss)
	}
	emit := func(how, name string, pre, out []config.FrozenAddress, sterilized bool) {
		for _, e := range append(append([]config.FrozenAddress{}, pre...), out...) {
			if _, ok := addrID[e.Address]; !ok {
				st.Fail("c32:unknown-address-in-list", "an address the harness never configured appeared in the frozen list", map[string]interface{}{"address": e.Address})
				return
			}
		}
		k := next()
		sh.Add(fmt.Sprintf("CFEnforce %d %s %s %s", k, cps(name), cfgCoq(pre), outCoq(out)))
		in := map[string]interface{}{"op": how, "activeNet": name, "configList": cfgCoq(pre), "result": outCoq(out)}
		st.LogCase(run.Out, k, in)
		st.Count(fmt.Sprintf("%s|%q|%s", how, name, cfgCoq(pre)), true, how)
		if isMainName(name) {
			good := len(out) == 1 && out[0].Address == "EfduuvdDcAgif8njgXNJUfsBumQf9yYP72" && out[0].DisableStartHeight == 2256110
			if good && sterilized {
				good = out[0].ProgramHash != nil && *out[0].ProgramHash == hashA
			}
			if !good {
				st.Fail("c32:mainnet-list-not-forced", "mainnet node ends up with a frozen-address list other than the coordinated one (address, start height, resolved program hash)", in)
			}
		}
		if len(st.Samples) < 5 {
			st.Sample(in)
		}
	}
	for _, name := range names {
		for _, l := range lists {
			c := config.GetDefaultParams()
			c.ActiveNet = name
			c.FrozenAddresses = append([]config.FrozenAddress{}, l...)
			settings.EnforceFrozenAddressesVerif(c)
			emit("enforce", name, l, c.FrozenAddresses, false)
			if !isMainName(name) && len(c.FrozenAddresses) != len(l) {
				st.Fail("c32:other-net-list-changed", "enforceFrozenAddresses changed the list of a non-mainnet network", map[string]interface{}{"activeNet": name})
			}
		}
	}
	// through the real SetupConfig with a configuration file, then the real check with the resulting list
	origDefault, origParams := config.DefaultParams, config.Parameters
	cfgDir := filepath.Join(run.Out, "cfg")
	os.MkdirAll(cfgDir, 0o755)
	nSetup := 0
	for ni, name := range names {
		for li, l := range lists {
			if !run.Thorough() && ni >= 20 && (ni+li)%3 != 0 {
				continue
			}
			inner := map[string]interface{}{"ActiveNet": name}
			// the list the configuration carries when the enforce function runs
			var pre []config.FrozenAddress
			lower := strings.ToLower(name)
			switch {
			case l != nil:
				var fl []map[string]interface{}
				for _, e := range l {
					fl = append(fl, map[string]interface{}{"Address": e.Address, "DisableStartHeight": e.DisableStartHeight})
				}
				inner["FrozenAddresses"] = fl
				pre = l
			case lower == "testnet" || lower == "test" || lower == "regnet" || lower == "regtest" || lower == "reg":
				pre = nil // TestNet()/RegNet() clear the list
			default:
				pre = config.MainNetFrozenAddresses() // the defaults
			}
			b, _ := json.Marshal(map[string]interface{}{"Configuration": inner})
			path := filepath.Join(cfgDir, fmt.Sprintf("config_%d_%d.json", ni, li))
			if err := os.WriteFile(path, b, 0o600); err != nil {
				panic(err)
			}
			config.DefaultParams = *config.GetDefaultParams()
			config.DefaultParams.Conf = path
			var out *config.Configuration
			panicked, pv := lib.Recover(func() { out = settings.NewSettings().SetupConfig(false, "", "") })
			if panicked {
				st.Fail("c32:setupconfig-panic", fmt.Sprintf("SetupConfig panicked: %v", pv), map[string]interface{}{"activeNet": name})
				continue
			}
			if out.ActiveNet != name {
				st.Fail("c32:setupconfig-name", "SetupConfig did not take ActiveNet from the file", map[string]interface{}{"activeNet": name, "got": out.ActiveNet})
				continue
			}
			emit("SetupConfig", name, pre, out.FrozenAddresses, true)
			nSetup++
			// the node's check with the list it ended up with
			if isMainName(name) {
				var es []entry
				for _, e := range out.FrozenAddresses {
					es = append(es, entry{e.ProgramHash, e.DisableStartHeight})
				}
				for _, h := range []uint32{2256109, 2256110, 3000000} {
					for _, spend := range []bool{true, false} {
						refs, outs := []elacommon.Uint168{hashN, hashA}, []elacommon.Uint168{hashN}
						if !spend {
							refs, outs = []elacommon.Uint168{hashN}, []elacommon.Uint168{hashB, hashA}
						}
						ok := callCheck(es, refs, outs, h)
						st.Count(fmt.Sprintf("node|%q|%d|%d|%v", name, li, h, spend), h >= 2256110, "mainnet-node-check")
						if ok != (h < 2256110) {
							st.Fail("c32:mainnet-node-frozen-address-moves", "a mainnet node (after SetupConfig) accepts a transaction spending from / paying to the coordinated frozen address at or after height 2256110, or rejects one before", map[string]interface{}{"activeNet": name, "configList": cfgCoq(l), "height": h, "spend": spend, "accepted": ok})
						}
					}
				}
			}
		}
	}
	config.DefaultParams, config.Parameters = origDefault, origParams
	os.RemoveAll(cfgDir)
	st.Extra["setupconfig_runs"] = nSetup
	st.Extra["sweep_frozen_hit_points"] = sweepActive

	st.Traces = st.Evals
	sh.Flush()
	st.Write(run.Out)
	addDistinct(run.Out, sweepActive)
}

func callReal(st *lib.Stats, tx interfaces.Transaction, rm map[*common2.Input]common2.Output, es []entry, refs, outs []elacommon.Uint168, h uint32) bool {
	var err error
	panicked, pval := lib.Recover(func() {
		err = transaction.CheckFrozenAddressesVerif(tx, rm, h, toConfig(es))
	})
	in := func() interface{} {
		return map[string]interface{}{"entries": entriesCoq(es), "refs": hashesCoq(refs), "outs": hashesCoq(outs), "height": h, "accepted": err == nil}
	}
	if panicked {
		st.Fail("c32:panic", fmt.Sprintf("checkFrozenAddresses panicked: %v", pval), in())
		return false
	}
	ok := err == nil
	if exp := expected(es, refs, outs, h); exp != ok {
		if ok {
			st.Fail("c32:accepts-frozen", "a transaction spending from or paying to an address frozen at this height was accepted", in())
		} else {
			st.Fail("c32:rejects-unfrozen", "a transaction not touching any address frozen at this height was rejected by the frozen-address check", in())
		}
	}
	return ok
}

// addDistinct adds the number of (pairwise distinct) non-trivial sweep points to
// the distinct counter written by Stats.Write.
func addDistinct(dir string, n int) {
	p := filepath.Join(dir, "stats.json")
	b, err := os.ReadFile(p)
	if err != nil {
		panic(err)
	}
	var m map[string]interface{}
	if err := json.Unmarshal(b, &m); err != nil {
		panic(err)
	}
	m["distinct_nontrivial"] = int(m["distinct_nontrivial"].(float64)) + n
	b, _ = json.MarshalIndent(m, "", " ")
	os.WriteFile(p, b, 0o644)
}
