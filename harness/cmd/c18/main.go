// C18 correspondence: a real ffldb database in a temp dir with the maximum
// flat-file size shrunk to 512..4096 bytes (hook ffldb.SetMaxBlockFileSizeVerif)
// against coq/model/C18_Flat.v: stores, whole-block / region / header reads
// (inside the storing transaction and after commit), raw block locations, the
// write cursor, close/reopen, and the bytes of the flat files at the end.
package main

import (
	"bytes"
	"fmt"
	"hash/crc32"
	"os"
	"path/filepath"
	"strings"

	"github.com/btcsuite/btcd/wire"
	"github.com/elastos/Elastos.ELA/common"
	"github.com/elastos/Elastos.ELA/database"
	"github.com/elastos/Elastos.ELA/database/ffldb"

	"verifharness/elaenv"
	"verifharness/lib"
)

const hdrSize = 84

type rd struct {
	Kind   string `json:"k"` // fetch region header loc (bulk elements reuse I/Off/N)
	I      int    `json:"i"`
	Off, N uint32
}

// bulk is one FetchBlockRegions / FetchBlockHeaders / FetchBlocks call.
type bulk struct {
	Kind string `json:"k"` // regions headers blocks
	Reqs []rd   `json:"reqs"`
}

type op struct {
	Kind   string   `json:"k"` // commit read cursor reopen
	Bulks  []bulk   `json:"bulks,omitempty"` // after Reads (inside the tx for commit; the read itself for a read op)
	Blocks [][]byte `json:"-"`
	Specs  []string `json:"specs,omitempty"` // Coq bspec terms of Blocks
	Sizes  []int    `json:"sizes,omitempty"`
	Reads  []rd     `json:"reads,omitempty"`
}

func hashOf(i int) common.Uint256 {
	var h common.Uint256
	h[0], h[1], h[2], h[3] = byte(i), byte(i>>8), byte(i>>16), 0xC8
	return h
}

func errCode(err error) int {
	if de, ok := err.(database.Error); ok {
		switch de.ErrorCode {
		case database.ErrBlockNotFound:
			return 1
		case database.ErrBlockRegionInvalid:
			return 2
		case database.ErrDriverSpecific:
			return 3
		case database.ErrCorruption:
			return 4
		}
	}
	return 9
}

func coqRd(r rd) string {
	switch r.Kind {
	case "fetch":
		return fmt.Sprintf("RFetch %d", r.I)
	case "region":
		return fmt.Sprintf("RRegion %d %d %d", r.I, r.Off, r.N)
	case "header":
		return fmt.Sprintf("RHeader %d", r.I)
	}
	return fmt.Sprintf("RLoc %d", r.I)
}

func coqBulk(b bulk) string {
	var xs []string
	for _, q := range b.Reqs {
		if b.Kind == "regions" {
			xs = append(xs, fmt.Sprintf("(%d, %d, %d)", q.I, q.Off, q.N))
		} else {
			xs = append(xs, fmt.Sprintf("%d", q.I))
		}
	}
	switch b.Kind {
	case "regions":
		return "RRegions " + lib.CoqList(xs)
	case "headers":
		return "RHeaders " + lib.CoqList(xs)
	}
	return "RBlocks " + lib.CoqList(xs)
}

type scenario struct {
	max      uint32
	ops      []op
	inDomain bool // every record fits one file (block length + 12 <= max)
}

type runner struct {
	st     *lib.Stats
	dir    string
	db     database.DB
	sc     *scenario
	stored [][]byte // committed blocks by number
	obs    []string // Coq terms
	okey   strings.Builder
	edge   bool // exercised a rollover / boundary region / reopen
}

func (r *runner) fail(sig, what string, extra map[string]interface{}) {
	in := map[string]interface{}{"max": r.sc.max, "ops": r.sc.ops}
	for k, v := range extra {
		in[k] = v
	}
	r.st.Fail(sig, what, in)
}

// doRead performs one read inside tx and evaluates the property oracle on it.
// pending: blocks stored in this tx (numbers continue after r.stored).
func (r *runner) doRead(tx database.Tx, q rd, pending [][]byte) {
	h := hashOf(q.I)
	var orig []byte
	known := false
	if q.I < len(r.stored) {
		orig, known = r.stored[q.I], true
	} else if q.I-len(r.stored) < len(pending) {
		orig, known = pending[q.I-len(r.stored)], true
	}
	emit := func(b []byte, err error) {
		if err != nil {
			r.obs = append(r.obs, fmt.Sprintf("BErr %d", errCode(err)))
			fmt.Fprintf(&r.okey, "e%d;", errCode(err))
		} else {
			r.obs = append(r.obs, dig(b))
			fmt.Fprintf(&r.okey, "b%d;", len(b))
		}
	}
	switch q.Kind {
	case "fetch":
		var b []byte
		var err error
		if p, _ := lib.Recover(func() { b, err = tx.FetchBlock(&h) }); p {
			r.obs = append(r.obs, "BErr 7")
			r.fail("FetchBlock:panic", "FetchBlock panicked", map[string]interface{}{"block": q.I})
			return
		}
		emit(b, err)
		if known && (err != nil || !bytes.Equal(b, orig)) {
			r.fail("FetchBlock:mismatch", "stored block does not read back byte-for-byte", map[string]interface{}{"block": q.I, "len": len(orig), "err": fmt.Sprint(err)})
		}
		if !known && err == nil {
			r.fail("FetchBlock:phantom", "a block that was never stored is readable", map[string]interface{}{"block": q.I})
		}
	case "region", "header":
		off, n := q.Off, q.N
		var b []byte
		var err error
		if q.Kind == "header" {
			off, n = 0, hdrSize
			b, err = tx.FetchBlockHeader(&h)
		} else {
			b, err = tx.FetchBlockRegion(&database.BlockRegion{Hash: &h, Offset: off, Len: n})
		}
		emit(b, err)
		if known {
			end := uint64(off) + uint64(n)
			if end <= uint64(len(orig)) {
				if err != nil || !bytes.Equal(b, orig[off:end]) {
					r.fail("FetchBlockRegion:slice", "in-bounds region is not the corresponding slice of the stored block", map[string]interface{}{"block": q.I, "len": len(orig), "off": off, "n": n, "err": fmt.Sprint(err)})
				}
			} else if err == nil || errCode(err) != 2 {
				r.fail("FetchBlockRegion:oob-accepted", "region beyond the block is not rejected with ErrBlockRegionInvalid", map[string]interface{}{"block": q.I, "len": len(orig), "off": off, "n": n, "got": fmt.Sprint(b), "err": fmt.Sprint(err)})
			}
			if end+12 >= uint64(len(orig)) && end <= uint64(len(orig))+13 {
				r.edge = true
			}
		} else if err == nil {
			r.fail("FetchBlockRegion:phantom", "region of a block that was never stored is readable", map[string]interface{}{"block": q.I})
		}
	case "loc":
		row := ffldb.BlockLocationVerif(tx, &h)
		if row == nil {
			r.obs = append(r.obs, "BNone")
			r.okey.WriteString("n;")
		} else {
			r.obs = append(r.obs, dig(row))
			fmt.Fprintf(&r.okey, "l%v;", row)
			if len(row) == 12 && q.I < len(r.stored) && r.sc.inDomain {
				le := func(b []byte) uint32 { return uint32(b[0]) | uint32(b[1])<<8 | uint32(b[2])<<16 | uint32(b[3])<<24 }
				fo, fl := le(row[4:8]), le(row[8:12])
				if uint64(fo)+uint64(fl) > uint64(r.sc.max) || int(fl) != len(r.stored[q.I])+12 {
					r.fail("writeBlock:split", "block record crosses the maximum file size or has the wrong length", map[string]interface{}{"block": q.I, "row": row})
				}
			}
		}
	}
}

// doBulk performs one bulk call and checks it against the map of the
// single-element answers computed from the stored bytes.
func (r *runner) doBulk(tx database.Tx, b bulk, pending [][]byte) {
	hashes := make([]common.Uint256, len(b.Reqs))
	regions := make([]database.BlockRegion, len(b.Reqs))
	want := make([][]byte, len(b.Reqs))
	wantErr := 0 // first early rejection in request order
	for k, q := range b.Reqs {
		hashes[k] = hashOf(q.I)
		var orig []byte
		known := false
		if q.I < len(r.stored) {
			orig, known = r.stored[q.I], true
		} else if q.I-len(r.stored) < len(pending) {
			orig, known = pending[q.I-len(r.stored)], true
		}
		off, n := q.Off, q.N
		if b.Kind == "headers" {
			off, n = 0, hdrSize
		}
		regions[k] = database.BlockRegion{Hash: &hashes[k], Offset: off, Len: n}
		code := 0
		switch {
		case !known:
			code = 1
		case b.Kind == "blocks":
			want[k] = orig
		case uint64(off)+uint64(n) > uint64(len(orig)):
			code = 2
		default:
			want[k] = orig[off : uint64(off)+uint64(n)]
		}
		if code != 0 && wantErr == 0 {
			wantErr = code
		}
	}
	var got [][]byte
	var err error
	switch b.Kind {
	case "regions":
		got, err = tx.FetchBlockRegions(regions)
	case "headers":
		got, err = tx.FetchBlockHeaders(hashes)
	default:
		got, err = tx.FetchBlocks(hashes)
	}
	if err != nil {
		r.obs = append(r.obs, fmt.Sprintf("BErr %d", errCode(err)))
		fmt.Fprintf(&r.okey, "B%se%d;", b.Kind[:1], errCode(err))
	} else {
		var xs []string
		for _, g := range got {
			xs = append(xs, fmt.Sprintf("(%d, %d)", len(g), crc32.Checksum(g, castagnoli)))
		}
		r.obs = append(r.obs, "BBulk "+lib.CoqList(xs))
		fmt.Fprintf(&r.okey, "B%s%d;", b.Kind[:1], len(got))
	}
	distinct := map[int]bool{}
	for _, q := range b.Reqs {
		distinct[q.I] = true
	}
	if len(distinct) >= 2 {
		r.edge = true
	}
	in := map[string]interface{}{"bulk": b, "stored_blocks": len(r.stored), "pending_blocks": len(pending)}
	if wantErr != 0 {
		if err == nil || errCode(err) != wantErr {
			in["want_error_class"], in["err"] = wantErr, fmt.Sprint(err)
			r.fail("Fetch"+b.Kind+":bulk-accepted", "bulk call with an unknown block / out-of-bounds region is not rejected with the expected error", in)
		}
		return
	}
	if err != nil || len(got) != len(want) {
		in["err"] = fmt.Sprint(err)
		r.fail("Fetch"+b.Kind+":bulk-mismatch", "bulk call over stored blocks failed or returned the wrong number of elements", in)
		return
	}
	for k := range want {
		if !bytes.Equal(got[k], want[k]) {
			in["element"], in["block"] = k, b.Reqs[k].I
			r.fail("Fetch"+b.Kind+":bulk-mismatch", "element of a bulk result is not the bytes of the requested block/region (single reads of the same request are)", in)
			return
		}
	}
}

func (r *runner) open(create bool) error {
	var err error
	path := filepath.Join(r.dir, "db")
	if create {
		r.db, err = database.Create("ffldb", path, wire.MainNet)
	} else {
		r.db, err = database.Open("ffldb", path, wire.MainNet)
	}
	if err == nil {
		ffldb.SetMaxBlockFileSizeVerif(r.db, r.sc.max)
	}
	return err
}

func (r *runner) files() string {
	var out []string
	last := -1
	var data [][]byte
	for i := 0; i < 4096; i++ {
		b, err := os.ReadFile(filepath.Join(r.dir, "db", fmt.Sprintf("%09d.fdb", i)))
		if err != nil {
			data = append(data, nil)
			if i > last+8 {
				break
			}
			continue
		}
		last = i
		if b == nil {
			b = []byte{}
		}
		data = append(data, b)
	}
	for i := 0; i <= last; i++ {
		if data[i] == nil {
			out = append(out, "None")
		} else {
			out = append(out, fmt.Sprintf("Some (%d, %d)", len(data[i]), crc32.Checksum(data[i], castagnoli)))
		}
	}
	return lib.CoqList(out)
}

func (r *runner) run() (opsCoq []string, finalFiles string) {
	if err := r.open(true); err != nil {
		panic(err)
	}
	for _, o := range r.sc.ops {
		switch o.Kind {
		case "commit":
			var rs []string
			bl := o.Specs
			for _, q := range o.Reads {
				rs = append(rs, coqRd(q))
			}
			for _, b := range o.Bulks {
				rs = append(rs, coqBulk(b))
			}
			opsCoq = append(opsCoq, fmt.Sprintf("OCommit %s %s", lib.CoqList(bl), lib.CoqList(rs)))
			f0, _ := ffldb.WriteCursorVerif(r.db)
			err := r.db.Update(func(tx database.Tx) error {
				for k, b := range o.Blocks {
					if err := tx.StoreBlock(hashOf(len(r.stored)+k), b); err != nil {
						return err
					}
				}
				for _, q := range o.Reads {
					r.doRead(tx, q, o.Blocks)
				}
				for _, b := range o.Bulks {
					r.doBulk(tx, b, o.Blocks)
				}
				return nil
			})
			if err != nil {
				r.fail("Update:error", "commit of a block-storing transaction failed", map[string]interface{}{"err": err.Error()})
			}
			r.stored = append(r.stored, o.Blocks...)
			if f1, _ := ffldb.WriteCursorVerif(r.db); f1 != f0 {
				r.edge = true
				r.okey.WriteString("roll;")
			}
		case "read":
			if len(o.Bulks) > 0 {
				opsCoq = append(opsCoq, "ORead ("+coqBulk(o.Bulks[0])+")")
				r.db.View(func(tx database.Tx) error { r.doBulk(tx, o.Bulks[0], nil); return nil })
				break
			}
			opsCoq = append(opsCoq, "ORead ("+coqRd(o.Reads[0])+")")
			r.db.View(func(tx database.Tx) error { r.doRead(tx, o.Reads[0], nil); return nil })
		case "cursor":
			opsCoq = append(opsCoq, "OCursor")
			f, off := ffldb.WriteCursorVerif(r.db)
			r.obs = append(r.obs, fmt.Sprintf("BCur %d %d", f, off))
			fmt.Fprintf(&r.okey, "c%d.%d;", f, off)
		case "reopen":
			opsCoq = append(opsCoq, "OReopen")
			if err := r.db.Close(); err != nil {
				r.fail("Close:error", "Close failed", map[string]interface{}{"err": err.Error()})
			}
			r.edge = true
			if err := r.open(false); err != nil {
				r.obs = append(r.obs, fmt.Sprintf("BOpen %d", errCode(err)))
				fmt.Fprintf(&r.okey, "o%d;", errCode(err))
				if r.sc.inDomain {
					r.fail("Open:failed", "reopening a cleanly closed database failed", map[string]interface{}{"err": err.Error()})
				}
				r.db = nil
				return opsCoq, r.files()
			}
			r.obs = append(r.obs, "BOpen 0")
			r.okey.WriteString("o0;")
			// oracle: every stored block reads back after reopen (checked without
			// adding observations)
			r.db.View(func(tx database.Tx) error {
				for i, orig := range r.stored {
					h := hashOf(i)
					b, err := tx.FetchBlock(&h)
					if err != nil || !bytes.Equal(b, orig) {
						r.fail("FetchBlock:mismatch", "stored block does not read back byte-for-byte after reopen", map[string]interface{}{"block": i, "len": len(orig), "err": fmt.Sprint(err)})
					}
				}
				return nil
			})
		}
	}
	if r.db != nil {
		r.db.Close()
	}
	return opsCoq, r.files()
}

// ---------------------------------------------------------------- generation

var castagnoli = crc32.MakeTable(crc32.Castagnoli)

// dig mirrors corr/C18_corr.v [dig]: short results literally, longer ones as
// (length, CRC-32C).
func dig(b []byte) string {
	if len(b) < 16 {
		return "BBytes " + lib.CoqBytes(b)
	}
	return fmt.Sprintf("BDig %d %d", len(b), crc32.Checksum(b, castagnoli))
}

// genBlock mirrors corr/C18_corr.v [gen].
func genBlock(kind int, seed uint64, n int) ([]byte, string) {
	b := make([]byte, n)
	switch kind {
	case 0:
		x := seed
		for i := range b {
			x = (x*1103515245 + 12345) % 2147483648
			b[i] = byte(x / 65536)
		}
	case 1: // looks like framing: network magic / small lengths
		pat := []byte{0xf9, 0xbe, 0xb4, 0xd9, 0x10, 0, 0, 0}
		for i := range b {
			b[i] = pat[i%len(pat)]
		}
	default:
		for i := range b {
			b[i] = byte(seed + uint64(i))
		}
	}
	return b, fmt.Sprintf("BGen %d %d %d", kind, seed, n)
}

func fill(rng *lib.Rng, n int) ([]byte, string) {
	return genBlock(rng.Intn(3), uint64(rng.Intn(1<<20)), n)
}

// wrapReads: offsets within 16 bytes of 2^32.  All of them end far beyond the
// block and must be rejected; they exercise every place where the bound check
// could be done in 32 bits: Offset+Len itself wraps (to 0, to a small value, to
// exactly the block length), or Offset+Len does not wrap but adding the 12 bytes
// of record framing to it does, or the file read offset fileOffset+8+Offset wraps
// back into the record.
func wrapReads(i, L int) []rd {
	const top = 1 << 32
	var rs []rd
	for _, back := range []int{1, 4, 8, 11, 12, 13, 16} {
		off := uint32(top - back)
		for _, n := range []int{0, 1, back - 1, back, back + 1, back + L, back + L + 1, back + L/2, back + 8, back + 12} {
			if n < 0 {
				continue
			}
			rs = append(rs, rd{"region", i, off, uint32(n)})
		}
	}
	return rs
}

// edgeReads lists the regions at/around every edge of block i of length L.
func edgeReads(i, L int) []rd {
	u := func(x int) uint32 {
		if x < 0 {
			return 0
		}
		return uint32(x)
	}
	rs := []rd{{"fetch", i, 0, 0}, {"header", i, 0, 0}, {"loc", i, 0, 0},
		{"region", i, 0, u(L)}, {"region", i, 0, u(L + 1)}, {"region", i, u(L), 0}, {"region", i, u(L), 1},
		{"region", i, u(L + 1), 0}, {"region", i, u(L - 1), 1}, {"region", i, u(L - 1), 2}, {"region", i, u(L - 4), 8},
		{"region", i, u(L), 4}, {"region", i, u(L), 12}, {"region", i, u(L), 13}, {"region", i, u(L + 4), 8},
		{"region", i, u(L + 11), 1}, {"region", i, u(L + 12), 0}, {"region", i, u(L + 12), 1}, {"region", i, u(L + 13), 0},
		{"region", i, 0, 0}, {"region", i, 0, 1}, {"region", i, 1, u(L - 1)}, {"region", i, 1, u(L)},
		{"region", i, 0xffffffff, 1}, {"region", i, 0xffffffff, 2}, {"region", i, 1, 0xffffffff}, {"region", i, 0x80000000, 0x80000000},
		{"region", i, 0xfffffff8, 8 + u(L)}, {"region", i, 2, 0xfffffffe}, {"region", i, u(L / 2), u(L - L/2)}, {"region", i, u(L / 2), u(L - L/2 + 1)},
		{"region", i, 0, hdrSize}, {"region", i, 0, hdrSize + 1}, {"region", i, hdrSize, u(L - hdrSize)}}
	return rs
}

// genBulk builds a bulk request over blocks [0, n) (lens known): 2..5 requests
// over different blocks (first and last block included when possible, so that
// several flat files are touched), sometimes the same block twice, mostly valid.
func genBulk(rng *lib.Rng, lens []int, n int) bulk {
	b := bulk{Kind: []string{"regions", "regions", "headers", "blocks"}[rng.Intn(4)]}
	k := 2 + rng.Intn(4)
	for j := 0; j < k; j++ {
		i := rng.Intn(n)
		switch {
		case j == 0:
			i = n - 1
		case j == 1:
			i = 0
		case rng.Chance(15) && len(b.Reqs) > 0:
			i = b.Reqs[rng.Intn(len(b.Reqs))].I // same block twice
		}
		L := lens[i]
		off := rng.Intn(L + 1)
		cnt := rng.Intn(L - off + 1)
		if rng.Chance(30) {
			off, cnt = 0, L
		}
		b.Reqs = append(b.Reqs, rd{"region", i, uint32(off), uint32(cnt)})
	}
	if b.Kind == "headers" {
		// keep only blocks long enough for a header unless we want a rejection
		if !rng.Chance(15) {
			var keep []rd
			for _, q := range b.Reqs {
				if lens[q.I] >= hdrSize {
					keep = append(keep, q)
				}
			}
			b.Reqs = keep
		}
	} else if rng.Chance(20) {
		j := rng.Intn(len(b.Reqs))
		switch rng.Intn(3) {
		case 0:
			b.Reqs[j].I = n + 3 // never stored
		case 1:
			b.Reqs[j].Off, b.Reqs[j].N = uint32(lens[b.Reqs[j].I]), 1 // one byte beyond
		default: // offset near 2^32 (only meaningful for region requests)
			w := wrapReads(b.Reqs[j].I, lens[b.Reqs[j].I])
			b.Reqs[j] = w[rng.Intn(len(w))]
		}
	}
	rng.Intn(2)
	if rng.Bool() { // request order differs from storage order
		for a, z := 0, len(b.Reqs)-1; a < z; a, z = a+1, z-1 {
			b.Reqs[a], b.Reqs[z] = b.Reqs[z], b.Reqs[a]
		}
	}
	return b
}

// pickRead chooses one read of block i: an edge region, or (15%) an offset near 2^32.
func pickRead(rng *lib.Rng, i, L int) rd {
	if rng.Chance(15) {
		w := wrapReads(i, L)
		return w[rng.Intn(len(w))]
	}
	er := edgeReads(i, L)
	return er[rng.Intn(len(er))]
}

func genScenario(rng *lib.Rng, max uint32, ncommits int, oversize bool) *scenario {
	sc := &scenario{max: max, inDomain: true}
	cur := 0    // model of the cursor offset, to aim at the rollover boundary
	stored := 0 // number of blocks so far
	var lens []int
	nextLen := func() int {
		room := int(max) - cur - 12
		switch rng.Intn(10) {
		case 0:
			return room // fills the file exactly
		case 1:
			return room + 1 // one byte too many: rolls over
		case 2:
			if room > 0 {
				return room - 1
			}
			return 0
		case 3:
			return 0 // empty block
		case 4:
			return hdrSize + rng.Intn(3) - 1
		case 5:
			return int(max) - 12 // a whole file
		case 6:
			if oversize {
				return int(max) - 12 + 1 + rng.Intn(20)
			}
			return rng.Intn(40)
		default:
			return rng.Intn(int(max)/2 + 1)
		}
	}
	for c := 0; c < ncommits; c++ {
		nb := 1 + rng.Intn(3)
		if rng.Chance(10) {
			nb = 0
		}
		o := op{Kind: "commit"}
		for k := 0; k < nb; k++ {
			L := nextLen()
			if L < 0 {
				L = 0
			}
			if L+12 > int(max) {
				if !oversize {
					L = int(max) - 12
				} else {
					sc.inDomain = false
				}
			}
			if cur+L+12 > int(max) {
				cur = 0
			}
			cur += L + 12
			b, spec := fill(rng, L)
			o.Blocks = append(o.Blocks, b)
			o.Specs = append(o.Specs, spec)
			o.Sizes = append(o.Sizes, L)
			lens = append(lens, L)
		}
		// reads inside the transaction: pending and already stored blocks
		for k := 0; k < nb; k++ {
			for j := 0; j < 4; j++ {
				o.Reads = append(o.Reads, pickRead(rng, stored+k, lens[stored+k]))
			}
		}
		if stored > 0 && rng.Chance(50) {
			i := rng.Intn(stored)
			o.Reads = append(o.Reads, pickRead(rng, i, lens[i]))
		}
		o.Reads = append(o.Reads, rd{"fetch", stored + nb, 0, 0}) // never stored
		// bulk call inside the transaction: pending and on-disk blocks mixed
		if stored+nb >= 2 && rng.Chance(60) {
			o.Bulks = append(o.Bulks, genBulk(rng, lens, stored+nb))
		}
		sc.ops = append(sc.ops, o)
		stored += nb
		sc.ops = append(sc.ops, op{Kind: "cursor"})
		if rng.Chance(35) {
			sc.ops = append(sc.ops, op{Kind: "reopen"}, op{Kind: "cursor"})
		}
		// bulk calls after commit
		if stored >= 2 {
			for j := rng.Intn(3); j > 0; j-- {
				sc.ops = append(sc.ops, op{Kind: "read", Bulks: []bulk{genBulk(rng, lens, stored)}})
			}
		}
		// reads after commit
		nr := 3 + rng.Intn(6)
		for j := 0; j < nr && stored > 0; j++ {
			i := rng.Intn(stored)
			if rng.Chance(50) {
				i = stored - 1 - rng.Intn(min(stored, 3))
			}
			q := pickRead(rng, i, lens[i])
			if rng.Chance(15) {
				L := lens[i]
				a := rng.Intn(L + 14)
				q = rd{"region", i, uint32(a), uint32(rng.Intn(L + 14 - a + 1))}
			}
			sc.ops = append(sc.ops, op{Kind: "read", Reads: []rd{q}})
		}
	}
	// at the end: everything once more after a reopen
	sc.ops = append(sc.ops, op{Kind: "reopen"}, op{Kind: "cursor"})
	if stored >= 2 {
		all := bulk{Kind: "blocks"}
		part := bulk{Kind: "regions"}
		for i := stored - 1; i >= 0; i-- {
			all.Reqs = append(all.Reqs, rd{"fetch", i, 0, 0})
			part.Reqs = append(part.Reqs, rd{"region", i, uint32(lens[i] / 3), uint32(lens[i] - lens[i]/3)})
		}
		sc.ops = append(sc.ops, op{Kind: "read", Bulks: []bulk{all}}, op{Kind: "read", Bulks: []bulk{part}}, op{Kind: "read", Bulks: []bulk{genBulk(rng, lens, stored)}})
	}
	for i := 0; i < stored; i++ {
		sc.ops = append(sc.ops, op{Kind: "read", Reads: []rd{{"fetch", i, 0, 0}}}, op{Kind: "read", Reads: []rd{{"loc", i, 0, 0}}})
		er := edgeReads(i, lens[i])
		sc.ops = append(sc.ops, op{Kind: "read", Reads: []rd{er[3+rng.Intn(len(er)-3)]}})
	}
	return sc
}

func min(a, b int) int {
	if a < b {
		return a
	}
	return b
}

// fixed corpus: the repaired region-bound defect, exact fill, oversize first block
func corpus() []*scenario {
	blk := func(n int, v byte) []byte {
		b, _ := genBlock(2, uint64(v), n)
		return b
	}
	specs := func(sc *scenario) *scenario {
		for i := range sc.ops {
			for _, b := range sc.ops[i].Blocks {
				sc.ops[i].Specs = append(sc.ops[i].Specs, "BRaw "+lib.CoqBytes(b))
			}
		}
		return sc
	}
	all := func(i, L int) []op {
		var o []op
		for _, q := range append(edgeReads(i, L), wrapReads(i, L)...) {
			o = append(o, op{Kind: "read", Reads: []rd{q}})
		}
		return o
	}
	var out []*scenario
	// witness of the repaired defect: 100-byte block, region 98+3 used to return a checksum byte
	s1 := &scenario{max: 512, inDomain: true}
	s1.ops = append(s1.ops, op{Kind: "commit", Blocks: [][]byte{blk(100, 16), blk(100, 32)}, Sizes: []int{100, 100},
		Reads: []rd{{"region", 0, 98, 3}, {"region", 1, 100, 4}}})
	s1.ops = append(s1.ops, op{Kind: "read", Reads: []rd{{"region", 0, 98, 3}}}, op{Kind: "read", Reads: []rd{{"region", 0, 100, 12}}},
		op{Kind: "read", Reads: []rd{{"region", 1, 100, 12}}})
	s1.ops = append(s1.ops, all(0, 100)...)
	s1.ops = append(s1.ops, all(1, 100)...)
	s1.ops = append(s1.ops, op{Kind: "reopen"})
	s1.ops = append(s1.ops, all(0, 100)...)
	out = append(out, specs(s1))
	// exact fill then one more byte; rollover inside one transaction
	s2 := &scenario{max: 512, inDomain: true}
	s2.ops = append(s2.ops, op{Kind: "commit", Blocks: [][]byte{blk(238, 1), blk(250, 2), blk(1, 3)}, Sizes: []int{238, 250, 1}},
		op{Kind: "cursor"}, op{Kind: "commit", Blocks: [][]byte{blk(489, 4), blk(0, 5), blk(500, 6)}, Sizes: []int{489, 0, 500}}, op{Kind: "cursor"})
	for i, L := range []int{238, 250, 1, 489, 0, 500} {
		s2.ops = append(s2.ops, all(i, L)...)
	}
	s2.ops = append(s2.ops, op{Kind: "reopen"}, op{Kind: "cursor"})
	for i, L := range []int{238, 250, 1, 489, 0, 500} {
		s2.ops = append(s2.ops, all(i, L)...)
	}
	out = append(out, specs(s2))
	// outside the property's domain (record larger than a whole file): first
	// block of a fresh database skips file 0, reopen reports corruption.  Kept
	// as a correspondence case only.
	s3 := &scenario{max: 512, inDomain: false}
	s3.ops = append(s3.ops, op{Kind: "commit", Blocks: [][]byte{blk(600, 7)}, Sizes: []int{600}}, op{Kind: "cursor"},
		op{Kind: "read", Reads: []rd{{"fetch", 0, 0, 0}}}, op{Kind: "reopen"})
	out = append(out, specs(s3))
	// oversize block later in the life of the database: harmless
	s4 := &scenario{max: 512, inDomain: false}
	s4.ops = append(s4.ops, op{Kind: "commit", Blocks: [][]byte{blk(10, 7), blk(600, 8), blk(10, 9)}, Sizes: []int{10, 600, 10}}, op{Kind: "cursor"},
		op{Kind: "reopen"}, op{Kind: "read", Reads: []rd{{"fetch", 1, 0, 0}}}, op{Kind: "read", Reads: []rd{{"fetch", 2, 0, 0}}}, op{Kind: "cursor"})
	out = append(out, specs(s4))
	// bulk calls over blocks with different contents in two files, in reverse
	// order, the same block twice, mixed with a pending block
	s5 := &scenario{max: 512, inDomain: true}
	rg := func(i, off, n int) rd { return rd{"region", i, uint32(off), uint32(n)} }
	s5.ops = append(s5.ops, op{Kind: "commit", Blocks: [][]byte{blk(200, 1), blk(250, 90)}, Sizes: []int{200, 250}},
		op{Kind: "commit", Blocks: [][]byte{blk(120, 170)}, Sizes: []int{120},
			Bulks: []bulk{{"regions", []rd{rg(2, 0, 120), rg(0, 10, 50), rg(1, 100, 100)}}, {"headers", []rd{rg(1, 0, 0), rg(2, 0, 0), rg(0, 0, 0)}}, {"blocks", []rd{rg(2, 0, 0), rg(0, 0, 0)}}}},
		op{Kind: "read", Bulks: []bulk{{"regions", []rd{rg(2, 5, 100), rg(1, 0, 250), rg(0, 199, 1), rg(1, 249, 1), rg(2, 0, 0)}}}},
		op{Kind: "read", Bulks: []bulk{{"headers", []rd{rg(2, 0, 0), rg(1, 0, 0), rg(0, 0, 0), rg(1, 0, 0)}}}},
		op{Kind: "read", Bulks: []bulk{{"blocks", []rd{rg(1, 0, 0), rg(2, 0, 0), rg(0, 0, 0)}}}},
		op{Kind: "read", Bulks: []bulk{{"regions", []rd{rg(0, 0, 200), rg(1, 250, 1)}}}},
		op{Kind: "read", Bulks: []bulk{{"blocks", []rd{rg(0, 0, 0), rg(7, 0, 0)}}}},
		op{Kind: "read", Bulks: []bulk{{"regions", []rd{rg(0, 0, 200), {"region", 1, 0xfffffff8, 4}}}}},
		op{Kind: "read", Bulks: []bulk{{"regions", []rd{{"region", 2, 0xfffffff4, 0}, rg(0, 0, 10)}}}},
		op{Kind: "read", Bulks: []bulk{{"regions", []rd{rg(1, 0, 1), {"region", 0, 0xfffffffc, 4 + 200}}}}},
		op{Kind: "read", Bulks: []bulk{{"regions", []rd{{"region", 1, 0xffffffff, 2}, {"region", 2, 0xfffffff8, 9}}}}},
		op{Kind: "reopen"},
		op{Kind: "read", Bulks: []bulk{{"regions", []rd{rg(2, 5, 100), rg(0, 0, 200), rg(1, 1, 1)}}}},
		op{Kind: "read", Bulks: []bulk{{"headers", []rd{rg(0, 0, 0), rg(2, 0, 0)}}}})
	out = append(out, specs(s5))
	return out
}

func main() {
	run := lib.ParseArgs()
	elaenv.InitLog(run.Out)
	rng := lib.NewRng(run.Seed)
	st := lib.NewStats("C18", "scenarios on a real ffldb (temp dir), max file size 512..4096: 1-8 commits of 0-3 blocks whose lengths aim at the rollover boundary (exact fill, +-1, empty, whole file, header size), reads inside the storing transaction and after commit (whole block, header, ~34 regions at/around every edge incl. uint32 wrap), raw locations, write cursor, close/reopen, final file bytes. nontrivial = scenario crossed a file rollover, reopened, or read a region within 13 bytes of the block end; distinct by canonical observation string")
	sh := &lib.Shards{Dir: run.Out, Imports: "From ELA Require Import model.C18_Flat corr.C18_corr.", CaseType: "C18_corr.case",
		Mismatch: "C18_corr.mismatches", Scope: "N", PerShard: 10}
	base, err := os.MkdirTemp("", "c18-")
	if err != nil {
		panic(err)
	}
	defer os.RemoveAll(base)

	var scs []*scenario
	scs = append(scs, corpus()...)
	n := run.N(110, 3000)
	for i := 0; i < n; i++ {
		max := []uint32{512, 600, 1024, 4096}[rng.Intn(4)]
		if rng.Chance(30) {
			max = uint32(512 + rng.Intn(3585))
		}
		if max > 1024 && !run.Thorough() && rng.Chance(60) {
			max = 512 + uint32(rng.Intn(513))
		}
		scs = append(scs, genScenario(rng.Fork(), max, 1+rng.Intn(8), rng.Chance(6)))
	}
	reads := 0
	for id, sc := range scs {
		r := &runner{st: st, dir: filepath.Join(base, fmt.Sprintf("s%d", id)), sc: sc}
		os.MkdirAll(r.dir, 0o755)
		opsCoq, final := r.run()
		os.RemoveAll(r.dir)
		sh.Add(fmt.Sprintf("Case %d %d\n   %s\n   %s\n   %s", id+1, sc.max, lib.CoqList(opsCoq), lib.CoqList(r.obs), final))
		st.LogCase(run.Out, id+1, map[string]interface{}{"max": sc.max, "inDomain": sc.inDomain, "ops": sc.ops})
		kind := "scenario"
		if !sc.inDomain {
			kind = "scenario-oversize(out of domain)"
		}
		st.Count(fmt.Sprintf("%d|%s", sc.max, r.okey.String()), r.edge, kind)
		reads += len(r.obs)
		if id == 0 || id == 5 {
			st.Sample(map[string]interface{}{"max": sc.max, "ops": len(sc.ops), "observations": len(r.obs), "blocks": len(r.stored)})
		}
	}
	st.Extra["observations"] = reads
	st.Traces = st.Evals
	sh.Flush()
	st.Write(run.Out)
}
