// C02 correspondence + oracle: every registered Go decoder of /repo is run on
// serializer-produced bytes, on those bytes with each length/count prefix
// replaced by boundary values, truncated at every read boundary, and on random
// bytes. Decodes run in a child process (address-space limit, watchdog) under
// recover() with runtime.MemStats deltas, so a hostile allocation cannot take
// the harness down: a dead or hung child is the observation "crash".
package main

import (
	"bufio"
	"bytes"
	"encoding/hex"
	"encoding/json"
	"fmt"
	"io"
	"os"
	"os/exec"
	"path/filepath"
	"runtime"
	"runtime/debug"
	"strings"
	"syscall"
	"time"

	"verifharness/codecgen"
	"verifharness/elaenv"
	"verifharness/lib"
)

type inCase struct {
	Dec   int    `json:"d"` // index into codecgen.Decoders()
	Input string `json:"in"`
	Kind  string `json:"k"`
	// how the input derives from its seed: seed[:Off] + Repl + seed[Off+Del:]
	Src  int    `json:"src"` // index of the seed case (itself for seeds)
	Off  int    `json:"off"`
	Del  int    `json:"del"`
	Repl []byte `json:"-"`
}

type outCase struct {
	I        int    `json:"i"`
	Outcome  int    `json:"oc"` // 0 ok 1 err 2 panic 3 crash
	Rem      int    `json:"rem"`
	Same     bool   `json:"same"`
	Reenc    string `json:"re,omitempty"`
	Alloc    uint64 `json:"alloc"`
	LastFail int    `json:"lf"` // size of the buffer of the last read that came back short
	PanicMsg string `json:"pm,omitempty"`
}

// measuring reader: remembers the size of the last short read
type mReader struct {
	r        *bytes.Reader
	lastFail int
}

func (m *mReader) Read(p []byte) (int, error) {
	n, err := m.r.Read(p)
	if n < len(p) {
		m.lastFail = len(p)
	}
	return n, err
}

// recording reader: offsets and sizes of all reads (to find prefix boundaries)
type recReader struct {
	r     *bytes.Reader
	total int
	reads [][2]int
}

func (m *recReader) Read(p []byte) (int, error) {
	off := m.total - m.r.Len()
	n, err := m.r.Read(p)
	m.reads = append(m.reads, [2]int{off, len(p)})
	return n, err
}

func runOne(d *codecgen.Decoder, in []byte) (o outCase) {
	var m0, m1 runtime.MemStats
	mr := &mReader{r: bytes.NewReader(in)}
	var buf *bytes.Buffer
	if d.DecodeBuf != nil {
		buf = bytes.NewBuffer(append([]byte(nil), in...))
	}
	var re codecgen.Reenc
	var err error
	runtime.ReadMemStats(&m0)
	panicked, pv := lib.Recover(func() {
		if d.DecodeBuf != nil {
			re, err = d.DecodeBuf(buf)
		} else {
			re, err = d.Decode(mr)
		}
	})
	runtime.ReadMemStats(&m1)
	o.Alloc = m1.TotalAlloc - m0.TotalAlloc
	o.LastFail = mr.lastFail
	switch {
	case panicked:
		o.Outcome = 2
		o.PanicMsg = fmt.Sprint(pv)
	case err != nil:
		o.Outcome = 1
	default:
		o.Outcome = 0
		if buf != nil {
			o.Rem = buf.Len()
		} else {
			o.Rem = mr.r.Len()
		}
		var out bytes.Buffer
		if p, _ := lib.Recover(func() { err = re(&out) }); p || err != nil {
			o.Reenc = "ff" // re-serialization failed: reported as differing bytes
			if !p && err != nil {
				o.Reenc = "fe"
			}
		} else if bytes.Equal(out.Bytes(), in[:len(in)-o.Rem]) {
			o.Same = true
		} else {
			o.Reenc = hex.EncodeToString(out.Bytes())
		}
	}
	return
}

func child(inPath, outPath string, from int) {
	// address-space cap: a count-sized allocation of 2^32 elements fails here
	// instead of exhausting the machine
	lim := &syscall.Rlimit{Cur: 6 << 30, Max: 6 << 30}
	syscall.Setrlimit(syscall.RLIMIT_AS, lim)
	debug.SetGCPercent(-1)
	decs := codecgen.Decoders()
	f, err := os.Open(inPath)
	if err != nil {
		panic(err)
	}
	out, err := os.OpenFile(outPath, os.O_APPEND|os.O_CREATE|os.O_WRONLY, 0o644)
	if err != nil {
		panic(err)
	}
	sc := bufio.NewScanner(f)
	sc.Buffer(make([]byte, 1<<20), 64<<20)
	i := -1
	for sc.Scan() {
		i++
		if i < from {
			continue
		}
		var c inCase
		if err := json.Unmarshal(sc.Bytes(), &c); err != nil {
			panic(err)
		}
		in, _ := hex.DecodeString(c.Input)
		o := runOne(&decs[c.Dec], in)
		o.I = i
		b, _ := json.Marshal(o)
		out.Write(append(b, '\n'))
		if i%64 == 0 {
			runtime.GC()
		}
	}
	out.Close()
}

func varint(v uint64) []byte {
	switch {
	case v < 0xfd:
		return []byte{byte(v)}
	case v <= 0xffff:
		return []byte{0xfd, byte(v), byte(v >> 8)}
	case v <= 0xffffffff:
		return []byte{0xfe, byte(v), byte(v >> 8), byte(v >> 16), byte(v >> 24)}
	}
	b := []byte{0xff}
	for k := 0; k < 8; k++ {
		b = append(b, byte(v>>(8*uint(k))))
	}
	return b
}

func le(v uint64, w int) []byte {
	b := make([]byte, w)
	for k := 0; k < w; k++ {
		b[k] = byte(v >> (8 * uint(k)))
	}
	return b
}

func splice(in []byte, off, n int, repl []byte) []byte {
	out := append([]byte(nil), in[:off]...)
	out = append(out, repl...)
	return append(out, in[off+n:]...)
}

// values a length/count prefix is replaced with: varint width boundaries, field
// limits, and the conversion classes (top bit set: negative as int; multiples
// of 2^32 and 2^32+small: small again after a uint32 narrowing)
var hostile = []uint64{0, 1, 0xfc, 0xfd, 0xffff, 1 << 16, 1<<16 + 1, 1<<32 - 1, 1<<64 - 1, 1<<32 + 5, 50000, 50001, 33, 34, 64, 65,
	1<<63 + 16, 1<<63 - 1, 3 << 32, 10000, 10001}

// always tried at every one-byte read (a possible varint prefix): one value with
// the top bit set and one multiple of 2^32
var hostileAlways = []uint64{1 << 63, 1 << 32}

func main() {
	if len(os.Args) > 1 && os.Args[1] == "--child" {
		codecgen.Init()
		elaenv.InitLog(filepath.Dir(os.Args[3]))
		var from int
		fmt.Sscan(os.Args[4], &from)
		child(os.Args[2], os.Args[3], from)
		return
	}
	run := lib.ParseArgs()
	elaenv.InitLog(run.Out)
	codecgen.Init()
	rng := lib.NewRng(run.Seed)
	st := lib.NewStats("C02", "per Go decoder: serializer-produced bytes of reflection-filled objects (every tx type x payload version 0..4,200; every output payload; blocks; p2p/dpos messages); each read boundary found with a recording reader: truncation there, 1-byte reads replaced by varints {0,1,0xfc,0xfd,2^16,2^32-1,2^32,2^63,2^64-1,max,max+1}, 4/8-byte reads by the same values; random bytes; fixed corpus of past witnesses. nontrivial = decode succeeded or failed after consuming input; distinct by (decoder, input)")
	decs := codecgen.Decoders()
	var cases []inCase
	// add registers a stand-alone input (its own seed)
	add := func(d int, in []byte, kind string) int {
		cases = append(cases, inCase{Dec: d, Input: hex.EncodeToString(in), Kind: kind, Src: len(cases)})
		return len(cases) - 1
	}
	// mut registers seed[:off] + repl + seed[off+del:]
	mut := func(src int, seed []byte, off, del int, repl []byte, kind string) {
		cases = append(cases, inCase{Dec: cases[src].Dec, Input: hex.EncodeToString(splice(seed, off, del, repl)), Kind: kind,
			Src: src, Off: off, Del: del, Repl: repl})
	}
	decIdx := func(id int, ctx uint64) int {
		for i := range decs {
			if decs[i].ID == id && (len(decs[i].Ctx) == 0 || decs[i].Ctx[0] == ctx) {
				return i
			}
		}
		panic(fmt.Sprint("no decoder ", id))
	}
	unhex := func(s string) []byte { b, _ := hex.DecodeString(strings.ReplaceAll(s, " ", "")); return b }

	// ---- corpus: witnesses of the repaired defects (must now be clean errors)
	prop := "00" + strings.Repeat("00", 32) + "00000000" + "00" // empty sponsor, hash, offset, empty sign
	add(decIdx(7, 0), unhex(prop+"ffffffffffffff7f"), "corpus:confirm-count-2^63-1")
	add(decIdx(7, 0), unhex(prop+"ffffffff00000000"), "corpus:confirm-count-2^32-1")
	add(decIdx(7, 0), unhex(prop+"0000010000000000"), "corpus:confirm-count-2^16")
	add(decIdx(100+0x12, 0), unhex("00 00000000 ff ffffffffffffff7f"), "corpus:inactivearbitrators-count-2^63-1")
	add(decIdx(100+0x12, 0), unhex("00 00000000 fe ffffffff"), "corpus:inactivearbitrators-count-2^32-1")
	add(decIdx(100+0x11, 0), unhex("00 00000000 00"+strings.Repeat("00", 64)+"00 ff ffffffffffffff7f"), "corpus:sidechainillegal-count-2^63-1")
	add(decIdx(100+0x11, 0), unhex("00 00000000 00"+strings.Repeat("00", 64)+"00 ff 0000000000000080"), "corpus:sidechainillegal-count-2^63")
	add(decIdx(100+0x14, 1), unhex("00000000 ff ffffffffffffff7f"), "corpus:nextturn-cap-2^63-1")
	add(decIdx(100+0x14, 1), unhex("00000000 00 fe ffffffff"), "corpus:nextturn-cap-2^32-1")
	add(decIdx(100+0x10, 0), unhex("00000000 00000000 00 00 00 fe ffffffff"), "corpus:illegalblocks-signers-cap-2^32-1")
	add(decIdx(35, 0), unhex(strings.Repeat("00", 21+32)+"00000000 00 00 ff ffffffffffffff7f"), "corpus:detailedvote-count-2^63-1")
	// vote decoders ignoring the candidate error: huge candidate count, no data
	add(decIdx(100+0x63, 0), unhex("01 00 ff ffffffffffffffff"), "corpus:voting-candidates-2^64-1")
	add(decIdx(251, 0), unhex("00 01 00 ff ffffffffffffffff"), "corpus:voteoutput-candidates-2^64-1")
	add(decIdx(251, 0), unhex("01 01 00 fe ffffff7f"), "corpus:voteoutput-candidates-2^31")
	{ // a transaction carrying the vote output witness (TransferAsset, version 9)
		tx := "09 02 00" + "00 00" + "01" + strings.Repeat("00", 32) + "0000000000000000" + "00000000" + strings.Repeat("00", 21) +
			"01" + "00 01 00 ff ffffffffffffffff"
		add(decIdx(1, 0), unhex(tx), "corpus:tx-voteoutput-candidates-2^64-1")
	}
	{ // block with a 2^32-1 transaction count after a minimal header
		h := ser(decs[decIdx(3, 0)].Seed(lib.NewRng(7)))
		add(decIdx(10, 0), append(append([]byte(nil), h...), 0xff, 0xff, 0xff, 0xff), "corpus:txloc-count-2^32-1")
		add(decIdx(2, 0), append(append([]byte(nil), h...), 0xff, 0xff, 0xff, 0xff), "corpus:block-count-2^32-1")
	}
	// varint width boundaries through ReadVarUint directly: canonical encodings
	// (accepted) and the shortest non-canonical ones (rejected)
	for _, v := range codecgen.VarintBoundaries {
		add(decIdx(20, 0), varint(v), "corpus:varint-boundary")
	}
	for _, h := range []string{"fdfc00", "fd0000", "feffff0000", "fe00000000", "ffffffffff00000000", "ff0000000000000000", "fd", "fe0000", "ff00000000000000"} {
		add(decIdx(20, 0), unhex(h), "corpus:varint-noncanonical")
	}
	// byte-field length prefixes that are small only after a 32-bit narrowing or negative as int
	for _, h := range []string{"ff0000000000000080", "ff0000000001000000", "ff1000000000000080", "ff2100000001000000", "ffffffffffffffffff", "feffffffff", "21", "22"} {
		add(decIdx(21, 0), unhex(h), "corpus:varbytes-prefix")
		add(decIdx(22, 0), unhex(h), "corpus:varstring-prefix")
	}
	add(decIdx(100+0x63, 1), unhex("ff0000000000000080"), "corpus:voting-renewal-count-2^63")
	add(decIdx(100+0x63, 1), unhex("ffffffffffffffffff"), "corpus:voting-renewal-count-2^64-1")
	add(decIdx(100+0x63, 0), unhex("ff0000000000000080"), "corpus:voting-count-2^63")
	// ConsensusStatus: the first count read fails in every way (the decoder returns nil)
	for _, h := range []string{"", "fd", "fd01", "fdfc00", "fe010000", "feffff0000ab", "ff", "ff00000000000000", "ffffffffff00000000cd", "00000000", "01"} {
		add(decIdx(400, 0), unhex("01000000 02000000 0300000000000000"+h), "corpus:consensusstatus-first-count")
	}
	// dpos Version: timestamps not on a millisecond, negative ones (accepted and truncated)
	for _, h := range []string{"0100000000000000", "40420f0000000000", "ffffffffffffffff", "0000000000000080", "c0bdf0ffffffffff", "bfbdf0ffffffffff"} {
		add(decIdx(419, 0), unhex(strings.Repeat("00", 33+16+16+2)+h), "corpus:dposversion-timestamp")
	}
	// FilterLoad: absent tail, count larger than the bytes that follow, too many hash functions
	for _, h := range []string{"00 01000000 00000000 00", "00 01000000 00000000 00 00", "00 01000000 00000000 00 05 0102", "00 01000000 00000000 00 ff ffffffffffffffff 01", "00 33000000 00000000 00", "00 32000000 00000000 00 fd"} {
		add(decIdx(306, 0), unhex(h), "corpus:filterload-tail")
	}
	ncorpus := len(cases)

	// ---- generated
	seedsPer := run.N(2, 6)
	mutPer := run.N(2, 5)
	maxBound := run.N(12, 40)
	hcur := 0 // round-robin over the hostile values
	for di := range decs {
		d := &decs[di]
		n := seedsPer
		if d.ID == 1 {
			n = run.N(30, 200)
		}
		if d.ID == 11 {
			n = run.N(6, 40)
		}
		if d.ID >= 100 && d.ID < 200 && len(d.Ctx) > 0 && d.Ctx[0] > 1 {
			n = (n + 1) / 2
		}
		for s := 0; s < n; s++ {
			seed := d.Seed(rng)
			if seed == nil || len(seed) > run.N(1200, 3000) {
				continue
			}
			si := add(di, seed, "seed")
			// read boundaries
			var reads [][2]int
			if d.Decode != nil {
				rr := &recReader{r: bytes.NewReader(seed), total: len(seed)}
				lib.Recover(func() { d.Decode(rr) })
				reads = rr.reads
			} else {
				reads = [][2]int{{0, 4}, {len(seed) / 2, 1}}
			}
			if len(reads) > maxBound { // sample boundaries of long inputs
				var keep [][2]int
				for _, r := range reads {
					if rng.Intn(len(reads)) < maxBound {
						keep = append(keep, r)
					}
				}
				reads = keep
			}
			for _, rd := range reads {
				off, w := rd[0], rd[1]
				if off > len(seed) {
					continue
				}
				if rng.Chance(run.N(35, 100)) {
					mut(si, seed, off, len(seed)-off, nil, "trunc")
				}
				if off+w > len(seed) {
					continue
				}
				switch w {
				case 1:
					for _, v := range hostileAlways {
						mut(si, seed, off, 1, varint(v), "prefix-varint")
					}
					for k := 0; k < mutPer; k++ {
						hcur++
						mut(si, seed, off, 1, varint(hostile[hcur%len(hostile)]), "prefix-varint")
					}
					if rng.Chance(30) {
						mut(si, seed, off, 1, []byte{byte(rng.U64())}, "byte")
					}
				case 2, 4, 8:
					for k := 0; k < (mutPer+1)/2; k++ {
						hcur++
						mut(si, seed, off, w, le(hostile[hcur%len(hostile)], w), "prefix-fixed")
					}
				}
			}
			if len(seed) > 0 && rng.Chance(50) {
				mut(si, seed, len(seed), 0, rng.Bytes(1+rng.Intn(5)), "extended")
			}
		}
		for s := 0; s < run.N(2, 20); s++ {
			add(di, rng.Bytes(rng.Intn(60)), "random")
		}
	}

	// ---- execute in child processes
	inPath := filepath.Join(run.Out, "c02_inputs.jsonl")
	outPath := filepath.Join(run.Out, "c02_results.jsonl")
	os.Remove(outPath)
	{
		f, _ := os.Create(inPath)
		w := bufio.NewWriter(f)
		for _, c := range cases {
			b, _ := json.Marshal(c)
			w.Write(append(b, '\n'))
		}
		w.Flush()
		f.Close()
	}
	results := make([]outCase, len(cases))
	done := 0
	crashes := 0
	countLines := func() int {
		b, err := os.ReadFile(outPath)
		if err != nil {
			return 0
		}
		return bytes.Count(b, []byte{'\n'})
	}
	for done < len(cases) && crashes < 60 {
		cmd := exec.Command(os.Args[0], "--child", inPath, outPath, fmt.Sprint(done))
		cmd.Stderr = nil
		if err := cmd.Start(); err != nil {
			panic(err)
		}
		exited := make(chan error, 1)
		go func() { exited <- cmd.Wait() }()
		last, lastT := countLines(), time.Now()
		hung := false
	wait:
		for {
			select {
			case <-exited:
				break wait
			case <-time.After(500 * time.Millisecond):
				if n := countLines(); n != last {
					last, lastT = n, time.Now()
				} else if time.Since(lastT) > 20*time.Second {
					cmd.Process.Kill()
					hung = true
					<-exited
					break wait
				}
			}
		}
		n := countLines()
		if n >= len(cases) {
			done = n
			break
		}
		// the child died (or hung) on case n
		_ = hung
		f, _ := os.OpenFile(outPath, os.O_APPEND|os.O_WRONLY, 0o644)
		b, _ := json.Marshal(outCase{I: n, Outcome: 3})
		f.Write(append(b, '\n'))
		f.Close()
		crashes++
		done = n + 1
	}
	{
		f, err := os.Open(outPath)
		if err != nil {
			panic(err)
		}
		sc := bufio.NewScanner(f)
		sc.Buffer(make([]byte, 1<<20), 64<<20)
		for sc.Scan() {
			var o outCase
			if json.Unmarshal(sc.Bytes(), &o) == nil && o.I < len(results) {
				results[o.I] = o
			}
		}
		f.Close()
	}

	// ---- Coq cases + oracle
	sw := &shardWriter{dir: run.Out, per: 500, seedIdx: map[int]int{}}
	covered := map[string]bool{}
	for i, c := range cases {
		d := &decs[c.Dec]
		o := results[i]
		in, _ := hex.DecodeString(c.Input)
		id := i + 1
		ctx := "[]"
		if len(d.Ctx) > 0 {
			ctx = fmt.Sprintf("[%d]", d.Ctx[0])
		}
		re, _ := hex.DecodeString(o.Reenc)
		if c.Src == i {
			sw.newSeed(i, in)
		}
		sw.add(fmt.Sprintf("CDec %d %d %s %d %d %d %s %d %d %s %s %d", id, d.ID, ctx, sw.seedIdx[c.Src], c.Off, c.Del, lib.CoqBytes(c.Repl),
			o.Outcome, o.Rem, lib.CoqBool(o.Same), lib.CoqBytes(re), o.Alloc))
		st.LogCase(run.Out, id, map[string]interface{}{"decoder": d.Name, "fid": d.ID, "ctx": d.Ctx, "kind": c.Kind, "input": c.Input,
			"outcome": o.Outcome, "rem": o.Rem, "same": o.Same, "reenc": o.Reenc, "alloc": o.Alloc, "lastfail": o.LastFail, "panic": o.PanicMsg})
		kind := strings.SplitN(c.Kind, ":", 2)[0]
		st.Count(fmt.Sprintf("%d:%v:%s", d.ID, d.Ctx, c.Input), o.Outcome == 0 || len(in) > 0, kind+fmt.Sprintf(":oc%d", o.Outcome))
		covered[d.Name] = true
		// the property itself: no panic, no crash, allocation linear in the input
		// (+ the one buffer whose read came back short, which ReadVarBytes sizes
		// from a bounded length prefix)
		site := fmt.Sprintf("%s", d.Name)
		inp := map[string]interface{}{"decoder": d.Name, "ctx": d.Ctx, "input_hex": c.Input, "kind": c.Kind}
		switch {
		case o.Outcome == 2:
			inp["panic"] = o.PanicMsg
			st.Fail(site+":panic", "decoder panicked", inp)
		case o.Outcome == 3:
			st.Fail(site+":crash", "decoder killed or hung the process (unbounded allocation / loop)", inp)
		default:
			lf := uint64(o.LastFail)
			if lf > 16<<20 { // no field limit of the protocol exceeds common.MaxVarStringLength
				lf = 16 << 20
			}
			bound := uint64(256*len(in)) + 65536 + lf + d.Prealloc
			if d.DecodeBuf != nil {
				bound += 16 << 20
			}
			if o.Alloc > bound {
				inp["alloc"] = o.Alloc
				inp["bound"] = bound
				st.Fail(site+":alloc", "allocation not bounded by 256*len + 64KiB + last short buffer + protocol-bounded prealloc", inp)
			}
		}
		if i < ncorpus || i == ncorpus || i == ncorpus+1 {
			st.Sample(map[string]interface{}{"decoder": d.Name, "kind": c.Kind, "input_hex": c.Input, "outcome": o.Outcome, "alloc": o.Alloc})
		}
	}
	// ---- static tie: allocation sites and discarded decode errors in the source
	unexpected, sitesSeen, nfiles := scanRepo(run.Repo)
	for _, u := range unexpected {
		st.Fail("static:"+u.Func, "decoder source: "+u.What, map[string]interface{}{"func": u.Func, "pos": relPos(run.Repo, u.Pos)})
	}
	if nfiles < 80 {
		st.Fail("static:scan", "the decoder packages were not found under the repo", map[string]interface{}{"files": nfiles})
	}
	// every Deserialize method of the decoder packages must have a row in coq/model/C02_Cover.v;
	// the table goes to coq/gen/C02_decoders.v for the agreement theorems
	verifRoot := "."
	if _, err := os.Stat(filepath.Join(verifRoot, "coq", "model")); err != nil {
		verifRoot = "/verif"
	}
	rows := coverRows(verifRoot)
	var unregistered []string
	for _, d := range decoderTable {
		if _, ok := rows[d]; !ok {
			unregistered = append(unregistered, d)
			st.Fail("static:unregistered:"+d, "decoder method without a descriptor (no row in coq/model/C02_Cover.v)", map[string]interface{}{"decoder": d})
		}
	}
	if err := writeGen(verifRoot); err != nil {
		st.Fail("static:gen", "could not write coq/gen/C02_decoders.v", map[string]interface{}{"err": err.Error()})
	}
	st.Extra["decoder_methods_in_source"] = len(decoderTable)
	st.Extra["decoder_methods_unregistered"] = unregistered
	st.Extra["static_files_scanned"] = nfiles
	st.Extra["static_nonconstant_make_sites"] = sitesSeen
	names := []string{}
	for n := range covered {
		names = append(names, n)
	}
	st.Extra["decoders_with_descriptor"] = names
	st.Extra["decoders_count"] = len(names)
	st.Extra["child_crashes"] = crashes
	st.Extra["not_covered"] = "checkpoint / keyframe decoders of cr/state and dpos/state (C23), payload.CRCProposalInfo (used only by those), wallet, indexers, address managers"
	st.Traces = st.Evals
	sw.flush()
	st.Write(run.Out)
}

// shardWriter writes cases_NNN.v files with a per-shard seed table (derived
// inputs reference their seed, see corr/C02_corr.v).
type shardWriter struct {
	dir     string
	per     int
	n       int
	seeds   []string
	cases   []string
	seedIdx map[int]int // case index of a seed -> position in the current shard's table
}

func (s *shardWriter) newSeed(caseIdx int, in []byte) {
	if len(s.cases) >= s.per {
		s.flush()
	}
	s.seedIdx[caseIdx] = len(s.seeds)
	s.seeds = append(s.seeds, lib.CoqBytes(in))
}
func (s *shardWriter) add(term string) { s.cases = append(s.cases, term) }
func (s *shardWriter) flush() {
	if len(s.cases) == 0 {
		return
	}
	var sb strings.Builder
	sb.WriteString("From Coq Require Import List NArith Bool.\nImport ListNotations.\nFrom ELA Require Import corr.C02_corr.\nLocal Open Scope N_scope.\n")
	sb.WriteString("Definition seeds : list (list N) := [\n  " + strings.Join(s.seeds, ";\n  ") + "\n].\n")
	sb.WriteString("Definition cases : list C02_corr.case := [\n  " + strings.Join(s.cases, ";\n  ") + "\n].\n")
	sb.WriteString("Definition M := Eval vm_compute in (C02_corr.mismatches seeds cases).\nPrint M.\n")
	if err := os.WriteFile(filepath.Join(s.dir, fmt.Sprintf("cases_%03d.v", s.n)), []byte(sb.String()), 0o644); err != nil {
		panic(err)
	}
	s.n++
	s.seeds, s.cases = nil, nil
}

func ser(b []byte) []byte { return b }

var _ = io.EOF
