package main

import (
	"fmt"
	"go/ast"
	"go/parser"
	"go/printer"
	"go/token"
	"os"
	"path/filepath"
	"sort"
	"strings"
)

// Static second tie for C02 (reads the source under --repo): inside every
// decoder function of the packages the descriptors cover,
//   - every make(T, n[, c]) whose size is not a constant must be one of the
//     sites the descriptors know (the protocol-bounded PreLen/PreCap lists and
//     the byte buffers of common/serialize.go);
//   - no "if f(...); err != nil" may discard the result of the call it tests
//     (the defect of the vote content decoders).
// Anything else is reported as a failing site.

var decoderDirs = []string{"common", "core/types/payload", "core/types/outputpayload", "core/types/common", "core/types",
	"core/transaction", "core/contract/program", "auxpow", "p2p", "p2p/msg", "dpos/p2p/msg", "elanet/bloom", "crypto"}

// function (receiver.name or name) -> number of non-constant makes allowed
var allowedMakes = map[string]int{
	"Inv.Deserialize":         2, // bounded by MaxInvPerMsg
	"GetBlocks.Deserialize":   2, // bounded by MaxBlockLocatorsPerMsg
	"Addr.Deserialize":        2, // bounded by MaxAddrPerMsg
	"MerkleBlock.Deserialize": 2, // bounded by pact.MaxTxPerBlock
	"MerkleProof.Deserialize": 2, // bounded by pact.MaxTxPerBlock
	"ReadVarBytes":            1, // bounded by maxAllowed
	"ReadVarString":           1, // bounded by MaxVarStringLength
	"ReadBytes":               1, // callers pass the constant 1
}

type staticSite struct {
	Func, Pos, What string
}

func isDecoderFunc(name string) bool {
	l := strings.ToLower(name)
	return strings.Contains(l, "deserialize") || strings.HasPrefix(name, "Read") || strings.HasPrefix(name, "BtcRead") ||
		name == "GetTransactionByBytes"
}

// decoderTable: every Deserialize* method of the decoder packages ("pkg|Type.Method")
// and the non-constant make sites per function ("pkg|Func" -> count), as written
// to coq/gen/C02_decoders.v for the agreement theorems of proof/C02_Cover.v.
var decoderTable []string
var siteTable = map[string]int{}

func scanRepo(repo string) (unexpected []staticSite, seen map[string]int, files int) {
	seen = map[string]int{}
	decoderTable, siteTable = nil, map[string]int{}
	fset := token.NewFileSet()
	for _, d := range decoderDirs {
		ents, err := os.ReadDir(filepath.Join(repo, d))
		if err != nil {
			continue
		}
		for _, e := range ents {
			n := e.Name()
			if e.IsDir() || !strings.HasSuffix(n, ".go") || strings.HasSuffix(n, "_test.go") {
				continue
			}
			if d == "core/transaction" && n != "transaction.go" && n != "common.go" {
				continue
			}
			f, err := parser.ParseFile(fset, filepath.Join(repo, d, n), nil, 0)
			if err != nil {
				continue
			}
			files++
			for _, decl := range f.Decls {
				fd, ok := decl.(*ast.FuncDecl)
				if !ok || fd.Body == nil || !isDecoderFunc(fd.Name.Name) {
					continue
				}
				fname := fd.Name.Name
				qual := d + "|" + fname
				if fd.Recv != nil && len(fd.Recv.List) > 0 {
					t := fd.Recv.List[0].Type
					if s, ok := t.(*ast.StarExpr); ok {
						t = s.X
					}
					if id, ok := t.(*ast.Ident); ok {
						fname = id.Name + "." + fname
						qual = d + "|" + fname
						if strings.HasPrefix(fd.Name.Name, "Deserialize") {
							decoderTable = append(decoderTable, qual)
						}
					}
				}
				ast.Inspect(fd.Body, func(nd ast.Node) bool {
					switch x := nd.(type) {
					case *ast.CallExpr:
						if id, ok := x.Fun.(*ast.Ident); ok && id.Name == "make" && len(x.Args) >= 2 {
							nonconst := false
							for _, a := range x.Args[1:] {
								if _, lit := a.(*ast.BasicLit); !lit {
									nonconst = true
								}
							}
							if nonconst {
								siteTable[qual]++
								seen[fname]++
								if seen[fname] > allowedMakes[fname] {
									var sb strings.Builder
									printer.Fprint(&sb, fset, x)
									unexpected = append(unexpected, staticSite{fname, fset.Position(x.Pos()).String(), "make with a non-constant size: " + sb.String()})
								}
							}
						}
					case *ast.IfStmt:
						if es, ok := x.Init.(*ast.ExprStmt); ok {
							if _, call := es.X.(*ast.CallExpr); call {
								usesErr := false
								ast.Inspect(x.Cond, func(c ast.Node) bool {
									if id, ok := c.(*ast.Ident); ok && id.Name == "err" {
										usesErr = true
									}
									return true
								})
								if usesErr {
									var sb strings.Builder
									printer.Fprint(&sb, fset, es.X)
									unexpected = append(unexpected, staticSite{fname, fset.Position(x.Pos()).String(), "call result discarded while a stale err is tested: if " + sb.String() + "; err ..."})
								}
							}
						}
					}
					return true
				})
			}
		}
	}
	sort.Slice(unexpected, func(i, j int) bool { return unexpected[i].Pos < unexpected[j].Pos })
	return
}

func relPos(repo, pos string) string {
	return strings.TrimPrefix(strings.TrimPrefix(pos, repo), "/")
}

var _ = fmt.Sprint

// writeGen regenerates coq/gen/C02_decoders.v from the scan.
func writeGen(verifRoot string) error {
	sort.Strings(decoderTable)
	var sb strings.Builder
	sb.WriteString("(* generated by harness/cmd/c02/static.go from the Go source; do not edit *)\n")
	sb.WriteString("From Coq Require Import NArith List String.\nImport ListNotations.\nLocal Open Scope string_scope.\n")
	sb.WriteString("Definition decoders : list string := [\n")
	for i, d := range decoderTable {
		if i > 0 {
			sb.WriteString(";\n")
		}
		sb.WriteString("  \"" + d + "\"")
	}
	sb.WriteString("\n].\nDefinition make_sites : list (string * N) := [\n")
	var fns []string
	for f := range siteTable {
		fns = append(fns, f)
	}
	sort.Strings(fns)
	for i, f := range fns {
		if i > 0 {
			sb.WriteString(";\n")
		}
		fmt.Fprintf(&sb, "  (\"%s\", %d%%N)", f, siteTable[f])
	}
	sb.WriteString("\n].\n")
	dir := filepath.Join(verifRoot, "coq", "gen")
	if err := os.MkdirAll(dir, 0o755); err != nil {
		return err
	}
	path := filepath.Join(dir, "C02_decoders.v")
	if old, err := os.ReadFile(path); err == nil && string(old) == sb.String() {
		return nil // unchanged: keep the timestamp so nothing is rebuilt
	}
	return os.WriteFile(path, []byte(sb.String()), 0o644)
}

// coverRows parses the rows of coq/model/C02_Cover.v [cover].
func coverRows(verifRoot string) map[string]string {
	m := map[string]string{}
	b, err := os.ReadFile(filepath.Join(verifRoot, "coq", "model", "C02_Cover.v"))
	if err != nil {
		return m
	}
	for _, line := range strings.Split(string(b), "\n") {
		line = strings.TrimSpace(line)
		if !strings.HasPrefix(line, "(\"") {
			continue
		}
		q := strings.Index(line[2:], "\"")
		if q < 0 {
			continue
		}
		m[line[2:2+q]] = strings.Trim(line[2+q+2:], " ,);")
	}
	return m
}
