package main

import (
	"fmt"
	"go/ast"
	"go/parser"
	"go/printer"
	"go/token"
	"os"
	"path/filepath"
	"sort"
	"strings"
)

// Static second tie for C02 (reads the source under --repo): inside every
// decoder function of the packages the descriptors cover,
//   - every make(T, n[, c]) whose size is not a constant must be one of the
//     sites the descriptors know (the protocol-bounded PreLen/PreCap lists and
//     the byte buffers of common/serialize.go);
//   - no "if f(...); err != nil" may discard the result of the call it tests
//     (the defect of the vote content decoders).
// Anything else is reported as a failing site.

var decoderDirs = []string{"common", "core/types/payload", "core/types/outputpayload", "core/types/common", "core/types",
	"core/transaction", "core/contract/program", "auxpow", "p2p", "p2p/msg", "dpos/p2p/msg", "elanet/bloom"}

// function (receiver.name or name) -> number of non-constant makes allowed
var allowedMakes = map[string]int{
	"Inv.Deserialize":         2, // bounded by MaxInvPerMsg
	"GetBlocks.Deserialize":   2, // bounded by MaxBlockLocatorsPerMsg
	"Addr.Deserialize":        2, // bounded by MaxAddrPerMsg
	"MerkleBlock.Deserialize": 2, // bounded by pact.MaxTxPerBlock
	"MerkleProof.Deserialize": 2, // bounded by pact.MaxTxPerBlock
	"ReadVarBytes":            1, // bounded by maxAllowed
	"ReadVarString":           1, // bounded by MaxVarStringLength
	"ReadBytes":               1, // callers pass the constant 1
}

type staticSite struct {
	Func, Pos, What string
}

func isDecoderFunc(name string) bool {
	l := strings.ToLower(name)
	return strings.Contains(l, "deserialize") || strings.HasPrefix(name, "Read") || strings.HasPrefix(name, "BtcRead") ||
		name == "GetTransactionByBytes"
}

func scanRepo(repo string) (unexpected []staticSite, seen map[string]int, files int) {
	seen = map[string]int{}
	fset := token.NewFileSet()
	for _, d := range decoderDirs {
		ents, err := os.ReadDir(filepath.Join(repo, d))
		if err != nil {
			continue
		}
		for _, e := range ents {
			n := e.Name()
			if e.IsDir() || !strings.HasSuffix(n, ".go") || strings.HasSuffix(n, "_test.go") {
				continue
			}
			if d == "core/transaction" && n != "transaction.go" && n != "common.go" {
				continue
			}
			f, err := parser.ParseFile(fset, filepath.Join(repo, d, n), nil, 0)
			if err != nil {
				continue
			}
			files++
			for _, decl := range f.Decls {
				fd, ok := decl.(*ast.FuncDecl)
				if !ok || fd.Body == nil || !isDecoderFunc(fd.Name.Name) {
					continue
				}
				fname := fd.Name.Name
				if fd.Recv != nil && len(fd.Recv.List) > 0 {
					t := fd.Recv.List[0].Type
					if s, ok := t.(*ast.StarExpr); ok {
						t = s.X
					}
					if id, ok := t.(*ast.Ident); ok {
						fname = id.Name + "." + fname
					}
				}
				ast.Inspect(fd.Body, func(nd ast.Node) bool {
					switch x := nd.(type) {
					case *ast.CallExpr:
						if id, ok := x.Fun.(*ast.Ident); ok && id.Name == "make" && len(x.Args) >= 2 {
							nonconst := false
							for _, a := range x.Args[1:] {
								if _, lit := a.(*ast.BasicLit); !lit {
									nonconst = true
								}
							}
							if nonconst {
								seen[fname]++
								if seen[fname] > allowedMakes[fname] {
									var sb strings.Builder
									printer.Fprint(&sb, fset, x)
									unexpected = append(unexpected, staticSite{fname, fset.Position(x.Pos()).String(), "make with a non-constant size: " + sb.String()})
								}
							}
						}
					case *ast.IfStmt:
						if es, ok := x.Init.(*ast.ExprStmt); ok {
							if _, call := es.X.(*ast.CallExpr); call {
								usesErr := false
								ast.Inspect(x.Cond, func(c ast.Node) bool {
									if id, ok := c.(*ast.Ident); ok && id.Name == "err" {
										usesErr = true
									}
									return true
								})
								if usesErr {
									var sb strings.Builder
									printer.Fprint(&sb, fset, es.X)
									unexpected = append(unexpected, staticSite{fname, fset.Position(x.Pos()).String(), "call result discarded while a stale err is tested: if " + sb.String() + "; err ..."})
								}
							}
						}
					}
					return true
				})
			}
		}
	}
	sort.Slice(unexpected, func(i, j int) bool { return unexpected[i].Pos < unexpected[j].Pos })
	return
}

func relPos(repo, pos string) string {
	return strings.TrimPrefix(strings.TrimPrefix(pos, repo), "/")
}

var _ = fmt.Sprint
