// C37 correspondence and property oracle: transactions signed by the wallet
// code of /repo (account.SignStandardTransaction, SignMultiSignTransaction,
// SignMultiSignTransactionByM, NewSchnorrAggregateAccount +
// crypto.AggregateSignatures) must pass the node's signature check and fail
// it after any single-byte change of the signed bytes; Uint168.ToAddress /
// Uint168FromAddress and Fixed64.String / StringToFixed64 round-trip.
package main

import (
	"bytes"
	"fmt"
	"math"
	"math/big"
	"os"
	"sort"

	"github.com/elastos/Elastos.ELA/account"
	"github.com/elastos/Elastos.ELA/blockchain"
	"github.com/elastos/Elastos.ELA/common"
	"github.com/elastos/Elastos.ELA/common/config"
	"github.com/elastos/Elastos.ELA/core/contract"
	pg "github.com/elastos/Elastos.ELA/core/contract/program"
	"github.com/elastos/Elastos.ELA/core/transaction"
	common2 "github.com/elastos/Elastos.ELA/core/types/common"
	"github.com/elastos/Elastos.ELA/core/types/functions"
	"github.com/elastos/Elastos.ELA/core/types/interfaces"
	"github.com/elastos/Elastos.ELA/core/types/outputpayload"
	"github.com/elastos/Elastos.ELA/core/types/payload"
	"github.com/elastos/Elastos.ELA/crypto"

	"verifharness/elaenv"
	"verifharness/lib"
	"verifharness/sigkit"
)

var (
	run  *lib.Run
	rng  *lib.Rng
	st   *lib.Stats
	sh   *lib.Shards
	keys []*sigkit.Key
	accs []*account.Account
	id   int
)

func next() int { id++; return id }

func accepted(f func() error) (acc bool, panicked bool) {
	p, _ := lib.Recover(func() { acc = f() == nil })
	if p {
		return false, true
	}
	return acc, false
}

func buildTx(owners []common.Uint168, nOut int) (interfaces.Transaction, map[*common2.Input]common2.Output) {
	var inputs []*common2.Input
	refs := map[*common2.Input]common2.Output{}
	for i, h := range owners {
		in := &common2.Input{Sequence: uint32(i)}
		copy(in.Previous.TxID[:], rng.Bytes(32))
		in.Previous.Index = uint16(rng.Intn(4))
		inputs = append(inputs, in)
		refs[in] = common2.Output{ProgramHash: h, Value: common.Fixed64(1000 + i)}
	}
	var outs []*common2.Output
	for i := 0; i < nOut; i++ {
		out := &common2.Output{Value: common.Fixed64(rng.Intn(100000)), Type: common2.OTNone, Payload: &outputpayload.DefaultOutput{}}
		copy(out.ProgramHash[:], rng.Bytes(21))
		outs = append(outs, out)
	}
	attrs := []*common2.Attribute{{Usage: common2.Nonce, Data: rng.Bytes(4)}}
	tx := transaction.CreateTransaction(common2.TxVersion09, common2.TransferAsset, 0, &payload.TransferAsset{},
		attrs, inputs, outs, 0, nil)
	return tx, refs
}

func unsigned(tx interfaces.Transaction) []byte {
	buf := new(bytes.Buffer)
	if err := tx.SerializeUnsigned(buf); err != nil {
		panic(err)
	}
	return buf.Bytes()
}

func wallet(idx ...int) map[common.Uint160]*account.Account {
	m := map[common.Uint160]*account.Account{}
	for _, i := range idx {
		m[accs[i].ProgramHash.ToCodeHash()] = accs[i]
	}
	return m
}

// signer describes one owner of inputs and how the wallet signs for it.
type signer struct {
	h    common.Uint168
	kind string
	sign func(tx interfaces.Transaction) *pg.Program
}

func stdSigner(i int) signer {
	return signer{accs[i].ProgramHash, "std", func(tx interfaces.Transaction) *pg.Program {
		p, err := account.SignStandardTransaction(tx, &pg.Program{Code: accs[i].RedeemScript}, wallet(i))
		if err != nil {
			panic(err)
		}
		j := next()
		sh.Add(fmt.Sprintf("CStd %d %s %s %s %s", j, sigkit.Pack(keys[i].Enc), sigkit.Pack(p.Parameter[1:]), sigkit.Pack(p.Code), sigkit.Pack(p.Parameter)))
		st.LogCase(run.Out, j, map[string]interface{}{"op": "SignStandardTransaction", "code": sigkit.Hex(p.Code), "param": sigkit.Hex(p.Parameter)})
		st.Count("stdshape", true, "layout:standard")
		return p
	}}
}

// multiSigner: m-of-n over key indices idx; mode 0 = one wallet per signer
// (SignMultiSignTransaction m times, lowest script positions first), 1 = the
// same with a random choice of m signers, 2 = one wallet holding every key
// (SignMultiSignTransactionByM).
func multiSigner(m int, idx []int, mode int) signer {
	var pubs []*crypto.PublicKey
	for _, i := range idx {
		pubs = append(pubs, keys[i].Pub)
	}
	acc, err := account.NewMultiSigAccount(m, pubs)
	if err != nil {
		panic(err)
	}
	// script order: ascending X (our own sort)
	sorted := append([]int{}, idx...)
	sort.Slice(sorted, func(a, b int) bool { return keys[sorted[a]].Pub.X.Cmp(keys[sorted[b]].Pub.X) < 0 })
	kind := fmt.Sprintf("multi%dof%d/mode%d", m, len(idx), mode)
	return signer{acc.ProgramHash, kind, func(tx interfaces.Transaction) *pg.Program {
		p := &pg.Program{Code: acc.RedeemScript}
		var err error
		switch mode {
		case 0, 1:
			who := sorted[:m]
			if mode == 1 {
				perm := append([]int{}, sorted...)
				for i := len(perm) - 1; i > 0; i-- {
					j := rng.Intn(i + 1)
					perm[i], perm[j] = perm[j], perm[i]
				}
				who = perm[:m]
			}
			for _, i := range who {
				p, err = account.SignMultiSignTransaction(tx, p, wallet(i))
				if err != nil {
					panic(err)
				}
			}
		default:
			p, err = account.SignMultiSignTransactionByM(m, tx, p, wallet(idx...))
			if err != nil {
				panic(err)
			}
		}
		var ks, sigs []string
		for _, i := range sorted {
			ks = append(ks, sigkit.Pack(keys[i].Enc))
		}
		for j := 0; j+65 <= len(p.Parameter); j += 65 {
			sigs = append(sigs, sigkit.Pack(p.Parameter[j+1:j+65]))
		}
		j := next()
		sh.Add(fmt.Sprintf("CMultiShape %d %d %s %s %s %s", j, m, lib.CoqList(ks), lib.CoqList(sigs), sigkit.Pack(p.Code), sigkit.Pack(p.Parameter)))
		st.LogCase(run.Out, j, map[string]interface{}{"op": "SignMultiSign", "kind": kind, "code": sigkit.Hex(p.Code), "param": sigkit.Hex(p.Parameter)})
		st.Count("multishape:"+kind, true, "layout:multisig")
		return p
	}}
}

func schnorrSigner(idx []int) signer {
	var as []*account.Account
	for _, i := range idx {
		as = append(as, accs[i])
	}
	sa := account.NewSchnorrAggregateAccount(as)
	return signer{*sa.ProgramHash, fmt.Sprintf("schnorr%d", len(idx)), func(tx interfaces.Transaction) *pg.Program {
		sig, err := crypto.AggregateSignatures(sa.PrivateKeys, common.Sha256D(unsigned(tx)))
		if err != nil {
			panic(err)
		}
		p := &pg.Program{Code: sa.RedeemScript, Parameter: sig[:]}
		j := next()
		sh.Add(fmt.Sprintf("CSchnorrShape %d %s %s %s %s", j, sigkit.Pack(sa.SumPublicKey[:]), sigkit.Pack(sig[:]), sigkit.Pack(p.Code), sigkit.Pack(p.Parameter)))
		st.LogCase(run.Out, j, map[string]interface{}{"op": "signSchnorrTx", "code": sigkit.Hex(p.Code), "param": sigkit.Hex(p.Parameter)})
		st.Count("schnorrshape", true, "layout:schnorr")
		return p
	}}
}

// walletCase signs a transaction spending from the given owners, sends it
// through the node's check, then mutates the signed bytes.
func walletCase(signers []signer, allBytes bool) {
	var owners []common.Uint168
	kind := ""
	for i, s := range signers {
		owners = append(owners, s.h)
		if i > 0 {
			kind += "+"
		}
		kind += s.kind
	}
	if rng.Chance(30) {
		owners = append(owners, owners[0]) // two inputs of one address
	}
	tx, refs := buildTx(owners, rng.Range(1, 2))
	var ps []*pg.Program
	for _, s := range signers {
		ps = append(ps, s.sign(tx))
	}
	tx.SetPrograms(ps)
	data := unsigned(tx)
	t := &sigkit.Tables{}
	for _, p := range ps {
		t.AddProgram(p)
	}
	progsCoq, progsJSON := sigkit.CoqProgs(ps), sigkit.ProgsJSON(ps)
	var refList []common.Uint168
	for _, in := range tx.Inputs() {
		refList = append(refList, refs[in].ProgramHash)
	}
	var attrs []string
	for _, a := range tx.Attributes() {
		attrs = append(attrs, fmt.Sprintf("(%d, %s)", a.Usage, sigkit.Pack(a.Data)))
	}
	acc, pan := accepted(func() error { return transaction.CheckTransactionSignatureVerifC05(tx, refs) })
	i := next()
	sh.Add(fmt.Sprintf("CNode (CTx %d %s %s %s %s %s)", i, sigkit.CoqHashes(refList), lib.CoqList(attrs), progsCoq, t.Coq(data), lib.CoqBool(acc)))
	in := map[string]interface{}{"op": "wallet-signed tx", "kind": kind, "unsigned": sigkit.Hex(data), "refs": sigkit.HashesJSON(refList),
		"programs": progsJSON, "accepted": acc, "panicked": pan}
	st.LogCase(run.Out, i, in)
	st.Count("tx:"+kind, true, "wallet-tx:"+fmt.Sprint(acc))
	if !acc {
		st.Fail("wallet:signed-transaction-rejected", "a transaction signed by the wallet ("+kind+") does not pass checkTransactionSignature", in)
		return
	}
	if i%7 == 0 {
		st.Sample(map[string]interface{}{"op": "wallet-signed tx", "kind": kind, "bytes": len(data), "accepted": acc})
	}
	// the programs as the node orders them
	hs, _ := blockchain.GetTxProgramHashes(tx, refs)
	common.SortProgramHashByCodeHash(hs)
	sorted := append([]*pg.Program{}, tx.Programs()...)
	blockchain.SortPrograms(sorted)
	if ok, _ := accepted(func() error { return blockchain.RunPrograms(data, hs, sorted) }); !ok {
		st.Fail("wallet:signed-transaction-rejected", "RunPrograms rejects the wallet-signed programs over the unsigned bytes", in)
		return
	}
	// every (or a sample of) single-byte mutation of the signed bytes must fail
	var positions []int
	if allBytes || len(data) <= 120 {
		for k := range data {
			positions = append(positions, k)
		}
	} else {
		for k := 0; k < 40; k++ {
			positions = append(positions, rng.Intn(len(data)))
		}
	}
	for n, k := range positions {
		mutd := append([]byte{}, data...)
		delta := byte(1 << uint(rng.Intn(8)))
		if rng.Chance(30) {
			delta = byte(1 + rng.Intn(255))
		}
		mutd[k] ^= delta
		ok, _ := accepted(func() error { return blockchain.RunPrograms(mutd, hs, sorted) })
		st.Count(fmt.Sprintf("mut:%s:%v", kind, ok), true, "mutated-byte:"+fmt.Sprint(ok))
		if ok {
			st.Fail("wallet:signature-valid-for-changed-data", fmt.Sprintf("signatures of a %s transaction still verify after changing byte %d of the signed bytes", kind, k),
				map[string]interface{}{"kind": kind, "unsigned": sigkit.Hex(data), "byte": k, "xor": delta, "programs": progsJSON})
		}
		if n == 0 { // one mutated evaluation per transaction also goes through the model
			tm := &sigkit.Tables{}
			for _, p := range sorted {
				tm.AddProgram(p)
			}
			j := next()
			sh.Add(fmt.Sprintf("CNode (CRun %d %s %s %s %s)", j, sigkit.CoqHashes(hs), sigkit.CoqProgs(sorted), tm.Coq(mutd), lib.CoqBool(ok)))
			st.LogCase(run.Out, j, map[string]interface{}{"op": "RunPrograms on mutated bytes", "kind": kind, "byte": k, "accepted": ok})
		}
	}
}

// ---------------------------------------------------------------- codecs

func coqStr(s string) string { return sigkit.Pack([]byte(s)) }

func addrCases() {
	prefixes := []byte{0x12, 0x1f, 0x21, 0x3f, 0x4b, 0x67, 3, 143}
	odd := []byte{0, 1, 2, 144, 200, 255}
	issued := map[byte]bool{0x12: true, 0x1f: true, 0x21: true, 0x3f: true, 0x4b: true, 0x67: true}
	n := run.N(36, 1500)
	for i := 0; i < n; i++ {
		var u common.Uint168
		copy(u[:], rng.Bytes(21))
		if i%6 == 5 {
			u[0] = odd[rng.Intn(len(odd))]
		} else {
			u[0] = prefixes[i%len(prefixes)]
		}
		switch rng.Intn(6) {
		case 0:
			copy(u[1:], make([]byte, 20))
		case 1:
			copy(u[1:], bytes.Repeat([]byte{0xff}, 20))
		}
		addr, err := u.ToAddress()
		if err != nil {
			panic(err)
		}
		k := next()
		sh.Add(fmt.Sprintf("CAddr %d %s %s", k, sigkit.Pack(u[:]), coqStr(addr)))
		st.LogCase(run.Out, k, map[string]interface{}{"op": "ToAddress", "u": sigkit.Hex(u[:]), "addr": addr})
		st.Count("addr:"+addr, true, "ToAddress")
		var back *common.Uint168
		pan, _ := lib.Recover(func() { back, err = common.Uint168FromAddress(addr) })
		good := !pan && err == nil && back != nil && *back == u
		if (issued[u[0]] || (u[0] >= 3 && u[0] <= 143)) && !good {
			st.Fail("address:roundtrip", "Uint168FromAddress(ToAddress(u)) != u", map[string]interface{}{"u": sigkit.Hex(u[:]), "addr": addr, "panic": pan})
		}
		fromCase(addr)
		// neighbours of a valid address
		b := []byte(addr)
		switch rng.Intn(5) {
		case 0:
			b[rng.Intn(len(b))] = "123456789ABCDEFGHJKLMNPQRSTUVWXYZabcdefghijkmnopqrstuvwxyz"[rng.Intn(58)]
		case 1:
			b[rng.Intn(len(b))] = "0OIl+/ "[rng.Intn(7)]
		case 2:
			b = b[:len(b)-1]
		case 3:
			b = append(b, '1')
		case 4:
			j := rng.Intn(len(b) - 1)
			b[j], b[j+1] = b[j+1], b[j]
		}
		fromCase(string(b))
		if i == 0 {
			st.Sample(map[string]interface{}{"op": "ToAddress", "u": sigkit.Hex(u[:]), "addr": addr})
		}
	}
	// strings decoding to short numbers (the former panic) and other fixed inputs
	for _, s := range []string{
		"1111111111111111111111111111111111", "1111111111111111111111111111111112", "111111111111111111111111111111zzzz",
		"11111111111111zzzzzzzzzzzzzzzzzzzz", "zzzzzzzzzzzzzzzzzzzzzzzzzzzzzzzzzz", "2222222222222222222222222222222222", "",
		"EJMzC16Eorq9CuFCGtyMrq4Jmgw9jYCHQR", "EJMzC16Eorq9CuFCGtyMrq4Jmgw9jYCHQS", "8VYXVxKKSAxkmRrfmGpQR2Kc66XhG6m3ta",
	} {
		fromCase(s)
	}
}

func fromCase(s string) {
	var back *common.Uint168
	var err error
	pan, _ := lib.Recover(func() { back, err = common.Uint168FromAddress(s) })
	ok := !pan && err == nil && back != nil
	var out []byte
	if ok {
		out = back[:]
	}
	k := next()
	sh.Add(fmt.Sprintf("CFrom %d %s %s %s", k, coqStr(s), lib.CoqBool(ok), sigkit.Pack(out)))
	in := map[string]interface{}{"op": "Uint168FromAddress", "s": s, "ok": ok, "panic": pan, "out": sigkit.Hex(out)}
	st.LogCase(run.Out, k, in)
	st.Count("from:"+s, ok, "Uint168FromAddress:"+fmt.Sprint(ok))
	if pan {
		st.Fail("address:parse-panic", "Uint168FromAddress panics on a 34-character string", in)
	}
	if ok { // a parsed address is the address of what it parsed to
		if a, _ := back.ToAddress(); a != s {
			st.Fail("address:parse-not-canonical", "Uint168FromAddress accepted a string that is not the address of its result", in)
		}
	}
}

func fixedCases() {
	vals := []int64{0, 1, -1, 9, 10, 99999999, 100000000, 100000001, -99999999, -100000000, -100000001, 50000000, -50000000,
		12345678, 120000000, 1234567800, 9999999900000000, 10000000000000000, 10000000000000001, -999999900000000,
		-1000000000000000, -1000000000000001, 3300000000000000, math.MaxInt64, math.MaxInt64 - 1, math.MinInt64, math.MinInt64 + 1,
		9223372036800000000, -9223372036800000000, 9223372036854775800, 1000000000000000000}
	for i := 0; i < run.N(150, 5000); i++ {
		v := int64(rng.U64())
		switch rng.Intn(5) {
		case 0:
			v >>= uint(rng.Intn(63))
		case 1:
			v = (v >> uint(rng.Intn(40))) / 100000000 * 100000000
		case 2:
			v = int64(rng.Intn(200000000)) - 100000000
		case 3:
			v = v / 1000 * 1000
		}
		vals = append(vals, v)
	}
	var strs []string
	for _, v := range vals {
		s := common.Fixed64(v).String()
		k := next()
		sh.Add(fmt.Sprintf("CFix %d %s %s", k, lib.CoqZi(v), coqStr(s)))
		st.LogCase(run.Out, k, map[string]interface{}{"op": "Fixed64.String", "v": v, "s": s})
		st.Count(fmt.Sprintf("fix:%d", v), v != 0, "Fixed64.String")
		back, err := common.StringToFixed64(s)
		if err != nil || back == nil || int64(*back) != v {
			st.Fail("Fixed64:roundtrip", "StringToFixed64(Fixed64.String(v)) != v", map[string]interface{}{"v": v, "s": s, "err": fmt.Sprint(err)})
		}
		strs = append(strs, s)
	}
	st.Sample(map[string]interface{}{"op": "Fixed64.String", "v": int64(math.MinInt64), "s": common.Fixed64(math.MinInt64).String()})
	strs = append(strs, "", ".", "-", "+", "1.", ".5", "-.5", "+1", "+-1", "1.234567891", "1.23456789", "1..2", "1.2.3", "abc", "1e5", " 1", "1 ",
		"9223372036854775808", "92233720368.54775808", "92233720368.54775807", "-92233720368.54775808", "-92233720368.54775809",
		"00000000000000000001", "1_000", "0.0", "-0", "-0.0", "100000000", "-10000000", "123456789", "999999999999", "92233720369",
		"000000000000000000000000000000000000000000000001.5", "1.-5", "１", "0x10", "1,5")
	for _, s := range strs {
		var v *common.Fixed64
		var err error
		pan, _ := lib.Recover(func() { v, err = common.StringToFixed64(s) })
		ok := !pan && err == nil && v != nil
		var val int64
		if ok {
			val = int64(*v)
		}
		k := next()
		sh.Add(fmt.Sprintf("CParse %d %s %s %s", k, coqStr(s), lib.CoqBool(ok), lib.CoqZi(val)))
		in := map[string]interface{}{"op": "StringToFixed64", "s": s, "ok": ok, "v": val, "panic": pan}
		st.LogCase(run.Out, k, in)
		st.Count("parse:"+s, ok, "StringToFixed64:"+fmt.Sprint(ok))
		if pan {
			st.Fail("Fixed64:parse-panic", "StringToFixed64 panics", in)
		}
	}
}


// keystoreCases: accounts saved to a wallet file, the file reopened, and a
// transaction signed by the reopened wallet (Client.Sign) sent through the
// node's check.  Private keys are handed over as crypto.GenerateKeyPair
// produces them (D.Bytes(): 32 bytes, or fewer when D < 2^248); the class of
// short keys is generated on purpose (1 in 256 otherwise).
func keystoreCases() {
	pw := []byte("verif-c37")
	scalars := []*big.Int{big.NewInt(1), big.NewInt(0xabcdef)}
	for _, bits := range []uint{255, 250, 248, 247, 241, 240, 200, 129, 64} { // D just below 2^bits
		d := new(big.Int).SetBytes(rng.Bytes(32))
		d.Rsh(d, 256-bits)
		d.SetBit(d, int(bits)-1, 1)
		d.Mod(d, crypto.DefaultParams.N)
		scalars = append(scalars, d)
	}
	for i := 0; i < run.N(3, 200); i++ {
		d := new(big.Int).SetBytes(rng.Bytes(32))
		d.Mod(d, crypto.DefaultParams.N)
		if d.Sign() != 0 {
			scalars = append(scalars, d)
		}
	}
	for n, d := range scalars {
		priv := d.Bytes() // as GenerateKeyPair returns it
		acct, err := account.NewAccountWithPrivateKey(priv)
		if err != nil {
			panic(err)
		}
		path := fmt.Sprintf("%s/keystore_%d.dat", run.Out, n)
		os.Remove(path)
		cl, err := account.CreateFromAccount(path, pw, acct)
		if err != nil || cl == nil {
			panic(fmt.Sprint("create wallet: ", err))
		}
		second := sigkit.NewKey(rng) // a second, full-length account in the same file
		acct2, _ := account.NewAccountWithPrivateKey(second.Priv)
		if err := cl.SaveAccount(acct2); err != nil {
			panic(err)
		}
		re, err := account.Open(path, pw)
		kind := fmt.Sprintf("keystore:privlen%d", len(priv))
		in := map[string]interface{}{"op": "save/open/sign", "privateKey": sigkit.Hex(priv), "address": acct.Address}
		if err != nil || re == nil {
			st.Fail("keystore:reopen-failed", "wallet file written by CreateFromAccount cannot be opened", in)
			continue
		}
		back := re.GetAccountByCodeHash(acct.ProgramHash.ToCodeHash())
		same := back != nil && back.PublicKey != nil && crypto.Equal(back.PublicKey, acct.PublicKey) && back.Address == acct.Address
		st.Count(kind+fmt.Sprint(same), true, "keystore:reloaded-same-key="+fmt.Sprint(same))
		if !same {
			st.Fail("keystore:reloaded-account-differs", "after saving and reopening the wallet the account kept under the original address has another key", in)
		}
		// blob layout and reloaded private key through the model
		if data, err := re.LoadAccountData(); err == nil {
			for _, a := range data {
				if a.Address != acct.Address || a.PrivateKeyEncrypted == "" {
					continue
				}
				enc, _ := common.HexStringToBytes(a.PrivateKeyEncrypted)
				blob, err := re.DecryptPrivateKey(enc)
				if err != nil {
					continue
				}
				xy, _ := acct.PublicKey.EncodePoint(false)
				var reloaded []byte
				if back != nil {
					reloaded = back.PrivateKey
				}
				j := next()
				sh.Add(fmt.Sprintf("CBlob %d %s %s %s %s", j, sigkit.Pack(xy[1:]), sigkit.Pack(priv), sigkit.Pack(blob), sigkit.Pack(reloaded)))
				st.LogCase(run.Out, j, map[string]interface{}{"op": "keystore blob", "privlen": len(priv), "blob": sigkit.Hex(blob)})
			}
		}
		// sign with the reopened wallet, check with the node
		tx, refs := buildTx([]common.Uint168{acct.ProgramHash, acct2.ProgramHash}, 1)
		tx.SetPrograms([]*pg.Program{{Code: acct.RedeemScript, Parameter: []byte{}}, {Code: acct2.RedeemScript, Parameter: []byte{}}})
		var signErr error
		pan, _ := lib.Recover(func() { _, signErr = re.Sign(tx) })
		acc := false
		if !pan && signErr == nil {
			acc, _ = accepted(func() error { return transaction.CheckTransactionSignatureVerifC05(tx, refs) })
		}
		st.Count(kind+":tx"+fmt.Sprint(acc), true, "keystore-signed-tx:"+fmt.Sprint(acc))
		if !acc {
			in["signError"] = fmt.Sprint(signErr)
			st.Fail("wallet:signed-transaction-rejected", "a transaction signed by the reopened wallet ("+kind+") does not pass checkTransactionSignature", in)
		}
		os.Remove(path)
	}
}

func main() {
	run = lib.ParseArgs()
	elaenv.InitLog(run.Out)
	functions.GetTransactionByTxType = transaction.GetTransaction
	functions.GetTransactionByBytes = transaction.GetTransactionByBytes
	functions.CreateTransaction = transaction.CreateTransaction
	functions.GetTransactionParameters = transaction.GetTransactionparameters
	config.DefaultParams = *config.GetDefaultParams()
	rng = lib.NewRng(run.Seed)
	st = lib.NewStats("C37", "wallet-signed TransferAsset transactions: standard, every m<=n<=5 multisig in three signing modes (one wallet per signer lowest-first / random signers / one wallet with all keys via SignMultiSignTransactionByM), aggregated Schnorr of 1-3 keys, mixed owners; each checked by checkTransactionSignature, then RunPrograms over every (small tx) or 40 sampled single-byte mutations of the signed bytes; address codec over all issued prefixes plus 3,143 and out-of-range prefixes, neighbours of valid addresses, short decodes; Fixed64 boundary and random values, malformed amount strings. nontrivial = signed/accepted path or non-zero value; distinct by kind/value")
	sh = &lib.Shards{Dir: run.Out, Imports: "From Coq Require Import Uint63.\nFrom ELA Require Import model.C05_Sig corr.C05_corr corr.C37_corr.\nImport C05_corr C37_corr.", CaseType: "C37_corr.case",
		Mismatch: "C37_corr.mismatches", Scope: "Z", PerShard: 40}
	nKeys := 6
	if run.Thorough() {
		nKeys = 9
	}
	for i := 0; i < nKeys; i++ {
		k := sigkit.NewKey(rng)
		keys = append(keys, k)
		a, err := account.NewAccountWithPrivateKey(k.Priv)
		if err != nil {
			panic(err)
		}
		accs = append(accs, a)
	}
	_ = contract.PrefixStandard
	_ = big.NewInt

	// standard and Schnorr: every byte of the signed content is mutated
	walletCase([]signer{stdSigner(0)}, true)
	walletCase([]signer{stdSigner(1)}, false)
	walletCase([]signer{schnorrSigner([]int{0})}, true)
	walletCase([]signer{schnorrSigner([]int{1, 2})}, false)
	walletCase([]signer{schnorrSigner([]int{3, 4, 5})}, false)
	// every m <= n <= N, three signing modes
	maxN := 5
	if run.Thorough() {
		maxN = 8
	}
	for n := 2; n <= maxN; n++ {
		for m := 1; m <= n; m++ {
			for mode := 0; mode < 3; mode++ {
				if !run.Thorough() && n >= 4 && mode == 1 && (m+n)%2 == 0 {
					continue // quick tier: thin out the largest scripts
				}
				idx := pickIdx(len(keys))[:n]
				walletCase([]signer{multiSigner(m, idx, mode)}, run.Thorough() || (n <= 2 && mode == 0))
			}
		}
	}
	// accounts nobody could spend from must not be created (fixed: single key, m > n, m < 1, more than 24 keys)
	for _, c := range []struct{ m, n int }{{1, 1}, {3, 2}, {0, 2}, {2, 25}} {
		var pubs []*crypto.PublicKey
		for i := 0; i < c.n; i++ {
			pubs = append(pubs, sigkit.NewKey(rng).Pub)
		}
		a, err := account.NewMultiSigAccount(c.m, pubs)
		st.Count(fmt.Sprintf("unspendable:%d/%d", c.m, c.n), true, "NewMultiSigAccount:refused="+fmt.Sprint(err != nil))
		if err == nil {
			st.Fail("wallet:unspendable-multisig-account", fmt.Sprintf("NewMultiSigAccount(%d, %d keys) returns address %s whose script neither the wallet nor the node can use", c.m, c.n, a.Address),
				map[string]interface{}{"m": c.m, "n": c.n, "script": sigkit.Hex(a.RedeemScript)})
		}
	}
	// mixed owners
	for i := 0; i < run.N(4, 100); i++ {
		idx := pickIdx(len(keys))
		walletCase([]signer{stdSigner(idx[0]), multiSigner(2, idx[1:4], rng.Intn(3)), schnorrSigner(idx[4:6])}, false)
	}
	keystoreCases()
	addrCases()
	fixedCases()
	st.Traces = st.Evals
	sh.Flush()
	st.Write(run.Out)
}

func pickIdx(n int) []int {
	p := make([]int, n)
	for i := range p {
		p[i] = i
	}
	for i := n - 1; i > 0; i-- {
		j := rng.Intn(i + 1)
		p[i], p[j] = p[j], p[i]
	}
	return p
}
