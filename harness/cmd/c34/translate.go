package main

// Translator: lifts the declarative conflict-slot table of
// mempool/conflictmanager.go (newConflictManager) and the TxType constants of
// core/types/common/transaction.go from the source tree under --repo into
// /verif/coq/gen/C34_slots.v.  go/ast only; fails closed when an anchor is
// missing.

import (
	"fmt"
	"go/ast"
	"go/parser"
	"go/token"
	"os"
	"path/filepath"
	"strconv"
	"strings"
)

type slotDesc struct {
	Name  string
	Kind  int
	KindS string
	Types []int
	TypeS []string
	Funcs []string
}

type slotTable struct {
	Slots   []slotDesc
	TxTypes []struct {
		Name string
		Val  int
	}
	AllType int
}

func (t *slotTable) Index(name string) int {
	for i, s := range t.Slots {
		if s.Name == name {
			return i
		}
	}
	return -1
}

func (t *slotTable) TypeVal(name string) int {
	for _, x := range t.TxTypes {
		if x.Name == name {
			return x.Val
		}
	}
	return -1
}

// Applies mirrors conflictSlot.getKeyFromTx for slot i and tx type ty.
func (t *slotTable) Applies(i int, ty int) bool {
	if i < 0 || i >= len(t.Slots) {
		return false
	}
	all := false
	for _, x := range t.Slots[i].Types {
		if x == ty {
			return true
		}
		if x == t.AllType {
			all = true
		}
	}
	return all
}

func mustParse(path string) *ast.File {
	f, err := parser.ParseFile(token.NewFileSet(), path, nil, 0)
	if err != nil {
		panic(fmt.Sprintf("translator: cannot parse %s: %v", path, err))
	}
	return f
}

func intLit(e ast.Expr) (int, bool) {
	if b, ok := e.(*ast.BasicLit); ok && b.Kind == token.INT {
		v, err := strconv.ParseInt(b.Value, 0, 64)
		if err == nil {
			return int(v), true
		}
	}
	return 0, false
}

func translate(repo string) *slotTable {
	tbl := &slotTable{AllType: -1}

	// --- TxType constants
	tf := mustParse(filepath.Join(repo, "core/types/common/transaction.go"))
	for _, d := range tf.Decls {
		gd, ok := d.(*ast.GenDecl)
		if !ok || gd.Tok != token.CONST {
			continue
		}
		for _, sp := range gd.Specs {
			vs := sp.(*ast.ValueSpec)
			id, ok := vs.Type.(*ast.Ident)
			if !ok || id.Name != "TxType" || len(vs.Values) != len(vs.Names) {
				continue
			}
			for i, n := range vs.Names {
				if v, ok := intLit(vs.Values[i]); ok {
					tbl.TxTypes = append(tbl.TxTypes, struct {
						Name string
						Val  int
					}{n.Name, v})
				}
			}
		}
	}
	if len(tbl.TxTypes) < 20 {
		panic("translator: TxType constants not found in core/types/common/transaction.go")
	}

	// --- allType and keyType iota
	kinds := map[string]int{}
	sf := mustParse(filepath.Join(repo, "mempool/conflictslot.go"))
	for _, d := range sf.Decls {
		gd, ok := d.(*ast.GenDecl)
		if !ok || gd.Tok != token.CONST {
			continue
		}
		isKind := false
		for i, sp := range gd.Specs {
			vs := sp.(*ast.ValueSpec)
			if len(vs.Names) == 1 && vs.Names[0].Name == "allType" && len(vs.Values) == 1 {
				if v, ok := intLit(vs.Values[0]); ok {
					tbl.AllType = v
				}
			}
			if id, ok := vs.Type.(*ast.Ident); ok && id.Name == "keyType" && i == 0 {
				isKind = true
			}
			if isKind && len(vs.Names) == 1 {
				kinds[vs.Names[0].Name] = i
			}
		}
	}
	if tbl.AllType < 0 || len(kinds) < 5 {
		panic("translator: allType / keyType constants not found in mempool/conflictslot.go")
	}

	// --- slot names and the table
	cf := mustParse(filepath.Join(repo, "mempool/conflictmanager.go"))
	names := map[string]string{}
	var ctor *ast.FuncDecl
	for _, d := range cf.Decls {
		switch x := d.(type) {
		case *ast.GenDecl:
			if x.Tok != token.CONST {
				continue
			}
			for _, sp := range x.Specs {
				vs := sp.(*ast.ValueSpec)
				for i, n := range vs.Names {
					if i < len(vs.Values) {
						if b, ok := vs.Values[i].(*ast.BasicLit); ok && b.Kind == token.STRING {
							s, _ := strconv.Unquote(b.Value)
							names[n.Name] = s
						}
					}
				}
			}
		case *ast.FuncDecl:
			if x.Name.Name == "newConflictManager" {
				ctor = x
			}
		}
	}
	if ctor == nil {
		panic("translator: func newConflictManager not found in mempool/conflictmanager.go")
	}
	var list *ast.CompositeLit
	ast.Inspect(ctor, func(n ast.Node) bool {
		if cl, ok := n.(*ast.CompositeLit); ok && list == nil {
			if at, ok := cl.Type.(*ast.ArrayType); ok {
				if st, ok := at.Elt.(*ast.StarExpr); ok {
					if id, ok := st.X.(*ast.Ident); ok && id.Name == "conflict" {
						list = cl
						return false
					}
				}
			}
		}
		return true
	})
	if list == nil {
		panic("translator: []*conflict literal not found in newConflictManager")
	}
	for _, el := range list.Elts {
		cl, ok := el.(*ast.CompositeLit)
		if !ok {
			panic("translator: unexpected element in conflictSlots")
		}
		var sd slotDesc
		found := false
		for _, kv0 := range cl.Elts {
			kv, ok := kv0.(*ast.KeyValueExpr)
			if !ok {
				panic("translator: conflict literal without field names")
			}
			switch kv.Key.(*ast.Ident).Name {
			case "name":
				switch v := kv.Value.(type) {
				case *ast.Ident:
					s, ok := names[v.Name]
					if !ok {
						panic("translator: unknown slot name constant " + v.Name)
					}
					sd.Name = s
				case *ast.BasicLit:
					sd.Name, _ = strconv.Unquote(v.Value)
				default:
					panic("translator: slot name is not a constant")
				}
			case "slot":
				call, ok := kv.Value.(*ast.CallExpr)
				if !ok || len(call.Args) < 1 {
					panic("translator: slot is not a newConflictSlot call")
				}
				if fn, ok := call.Fun.(*ast.Ident); !ok || fn.Name != "newConflictSlot" {
					panic("translator: slot is not a newConflictSlot call")
				}
				kid, ok := call.Args[0].(*ast.Ident)
				if !ok {
					panic("translator: key kind is not an identifier")
				}
				k, ok := kinds[kid.Name]
				if !ok {
					panic("translator: unknown key kind " + kid.Name)
				}
				sd.Kind, sd.KindS = k, kid.Name
				for _, a := range call.Args[1:] {
					pl, ok := a.(*ast.CompositeLit)
					if !ok {
						panic("translator: keyTypeFuncPair is not a literal")
					}
					tyv, tys, fn := -1, "", ""
					for _, f0 := range pl.Elts {
						f := f0.(*ast.KeyValueExpr)
						switch f.Key.(*ast.Ident).Name {
						case "Type":
							switch tv := f.Value.(type) {
							case *ast.SelectorExpr:
								tys = tv.Sel.Name
								tyv = tbl.TypeVal(tys)
							case *ast.Ident:
								tys = tv.Name
								if tys == "allType" {
									tyv = tbl.AllType
								} else {
									tyv = tbl.TypeVal(tys)
								}
							}
						case "Func":
							if id, ok := f.Value.(*ast.Ident); ok {
								fn = id.Name
							}
						}
					}
					if tyv < 0 {
						panic("translator: cannot resolve tx type " + tys + " in slot " + sd.Name)
					}
					sd.Types = append(sd.Types, tyv)
					sd.TypeS = append(sd.TypeS, tys)
					sd.Funcs = append(sd.Funcs, fn)
				}
				found = true
			}
		}
		if !found || sd.Name == "" {
			panic("translator: incomplete conflict entry")
		}
		tbl.Slots = append(tbl.Slots, sd)
	}
	if len(tbl.Slots) == 0 {
		panic("translator: empty slot table")
	}
	return tbl
}

func (t *slotTable) WriteCoq(path string) {
	var sb strings.Builder
	sb.WriteString("(* GENERATED by harness/cmd/c34 from mempool/conflictmanager.go, mempool/conflictslot.go and\n   core/types/common/transaction.go of the source tree under check. Do not edit. *)\n")
	sb.WriteString("From Coq Require Import NArith List String.\nImport ListNotations.\nLocal Open Scope string_scope.\nLocal Open Scope N_scope.\n\n")
	sb.WriteString("Definition txtypes : list (string * N) := [\n")
	for i, x := range t.TxTypes {
		sep := ";"
		if i == len(t.TxTypes)-1 {
			sep = ""
		}
		fmt.Fprintf(&sb, "  (%q, %d)%s\n", x.Name, x.Val, sep)
	}
	sb.WriteString("].\n\n(* name, keyType, tx types with a key function (255 = allType) *)\n")
	sb.WriteString("Definition slots : list (string * N * list N) := [\n")
	for i, s := range t.Slots {
		var ts []string
		for _, x := range s.Types {
			ts = append(ts, strconv.Itoa(x))
		}
		sep := ";"
		if i == len(t.Slots)-1 {
			sep = ""
		}
		fmt.Fprintf(&sb, "  (%q, %d, [%s])%s  (* %d %s: %s *)\n", s.Name, s.Kind, strings.Join(ts, "; "), sep, i, s.KindS, strings.Join(s.Funcs, ", "))
	}
	sb.WriteString("].\n")
	if err := os.MkdirAll(filepath.Dir(path), 0o755); err != nil {
		panic(err)
	}
	tmp := path + ".tmp"
	if err := os.WriteFile(tmp, []byte(sb.String()), 0o644); err != nil {
		panic(err)
	}
	if old, err := os.ReadFile(path); err == nil && string(old) == sb.String() {
		os.Remove(tmp) // unchanged: keep the timestamp so make does not rebuild
		return
	}
	if err := os.Rename(tmp, path); err != nil {
		panic(err)
	}
}
