package main

import "verifharness/lib"

func runReal(rng *lib.Rng, tbl *slotTable, st *lib.Stats, sh *lib.Shards, run *lib.Run, id *int) {}
