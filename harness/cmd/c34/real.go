package main

// Real-chain histories: signed TransferAsset transactions with deliberate
// double spends on the shared regnet fixture; blocks are built, solved and
// connected through BlockChain.ProcessBlock, and the node's own post-block
// cleanup (CleanSubmittedTransactions on ETBlockConnected, then
// CheckAndCleanAllTransactions on ETBlockProcessed) runs through the
// fixture's event handler.

import (
	"fmt"
	"sort"
	"strings"

	"github.com/elastos/Elastos.ELA/common"
	common2 "github.com/elastos/Elastos.ELA/core/types/common"
	"github.com/elastos/Elastos.ELA/core/types/interfaces"

	"verifharness/fixture"
	"verifharness/lib"
)

func runReal(rng *lib.Rng, tbl *slotTable, st *lib.Stats, sh *lib.Shards, run *lib.Run, id *int) {
	for k := 0; k < run.N(3, 40); k++ {
		*id++
		realHistory(rng.Fork(), tbl, st, sh, run, *id)
	}
}

func realHistory(rng *lib.Rng, tbl *slotTable, st *lib.Stats, sh *lib.Shards, run *lib.Run, id int) {
	f, err := fixture.New(fixture.Options{})
	if err != nil {
		panic(fmt.Sprintf("fixture: %v", err))
	}
	defer f.Close()
	const ela = 100000000
	// block 1: split the genesis output into 14 coins
	var outs []fixture.Out
	nCoins := 14
	for i := 0; i < nCoins; i++ {
		outs = append(outs, fixture.Out{Key: i % 4, Value: common.Fixed64(1000 * ela)})
	}
	totalGen := f.Genesis.Transactions[0].Outputs()[0].Value
	outs = append(outs, fixture.Out{Key: 0, Value: totalGen - common.Fixed64(nCoins*1000*ela) - 1000})
	fund, err := f.Transfer([]fixture.In{{Op: f.GenesisOut, Key: 0}}, outs, 1)
	if err != nil {
		panic(err)
	}
	b0, err := f.BuildBlock(f.Genesis, nil, fixture.BlockOpt{})
	if err != nil {
		panic(fmt.Sprintf("fixture: build empty block: %v", err))
	}
	if _, _, err := f.ProcessBlock(b0); err != nil {
		panic(fmt.Sprintf("fixture: process empty block: %v", err))
	}
	b1, err := f.BuildBlock(b0, []interfaces.Transaction{fund}, fixture.BlockOpt{})
	if err != nil {
		panic(fmt.Sprintf("fixture: build block 1: %v", err))
	}
	if _, _, err := f.ProcessBlock(b1); err != nil {
		panic(fmt.Sprintf("fixture: process block 1: %v", err))
	}
	tip := b1
	// the universe: transfers spending 1-2 of the 14 coins
	u := &universe{rng: rng, h: &history{rejected: map[int]bool{}, limit: 1 << 40}, byH: map[common.Uint256]int{}, dict: map[string]int{}}
	n := 10 + rng.Intn(10)
	for len(u.txs) < n {
		nin := 1 + rng.Intn(2)
		var ins []fixture.In
		seen := map[int]bool{}
		for len(ins) < nin {
			c := rng.Intn(nCoins)
			if seen[c] {
				continue
			}
			seen[c] = true
			ins = append(ins, fixture.In{Op: common2.OutPoint{TxID: fund.Hash(), Index: uint16(c)}, Key: c % 4})
		}
		fee := int64([]int{100, 1000, 5000, 20000, 50}[rng.Intn(5)])
		nout := 1 + rng.Intn(3)
		var os []fixture.Out
		rest := int64(nin)*1000*ela - fee
		for j := 0; j < nout; j++ {
			v := rest
			if j < nout-1 {
				v = rest / 2
			}
			rest -= v
			os = append(os, fixture.Out{Key: rng.Intn(4), Value: common.Fixed64(v)})
		}
		tx, err := f.Transfer(ins, os, uint64(100+len(u.txs)))
		if err != nil {
			panic(err)
		}
		if _, dup := u.byH[tx.Hash()]; dup {
			continue
		}
		g := &gtx{id: len(u.txs) + 1, ty: common2.TransferAsset, fee: fee, size: tx.GetSize(), refok: true, what: "TransferAsset(real)"}
		for _, in := range tx.Inputs() {
			g.ins = append(g.ins, in.ReferKey())
		}
		for i := range tx.Outputs() {
			g.outs = append(g.outs, (&common2.OutPoint{TxID: tx.Hash(), Index: uint16(i)}).ReferKey())
		}
		g.tx = &vtx{Transaction: tx, id: g.id, h: u.h}
		u.byH[tx.Hash()] = g.id
		u.txs = append(u.txs, g)
	}
	pool := f.Pool
	maxsz := []uint64{20000000, 1200, 700}[rng.Intn(3)]
	pool.SetMaxSizeVerif(maxsz)
	o := &oracleCtx{st: st, tbl: tbl, hist: id, kind: "real"}
	spent := map[string]bool{}
	chainRejects := func(g *gtx) bool {
		if g.fee < 100 {
			return true
		}
		for _, in := range g.ins {
			if spent[in] {
				return true
			}
		}
		return false
	}
	inPool := func() []int {
		var ids []int
		for _, t := range pool.GetTxsInPool() {
			ids = append(ids, u.idOf(t.Hash()))
		}
		sort.Ints(ids)
		return ids
	}
	var steps []string
	var jsteps []interface{}
	emit := func(op, kind string, res int, nontrivial bool) {
		s := pool.SnapshotVerif()
		o.log = append(o.log, op)
		o.check(u, pool, s, true)
		steps = append(steps, fmt.Sprintf("(%s, %s)", op, u.coqObs(res, s, tbl)))
		jsteps = append(jsteps, map[string]interface{}{"op": op, "res": res, "pool": len(s.Txs), "total": s.TotalSize})
		st.Count("real|"+snapKey(kind, res, s, u), nontrivial || len(s.Txs) > 0, kind)
	}
	nops := 20 + rng.Intn(20)
	for i := 0; i < nops; i++ {
		held := inPool()
		if rng.Chance(75) {
			g := u.txs[rng.Intn(len(u.txs))]
			res := 0
			if err := f.SubmitTx(g.tx.Transaction); err != nil {
				res = 1
			}
			rej := "[]"
			if chainRejects(g) {
				rej = fmt.Sprintf("[%d]", g.id)
			}
			emit(fmt.Sprintf("OAppend %d %s %d", g.id, rej, u.h.limit), "real:append", res, res == 1)
			continue
		}
		// a block with 1-3 mutually compatible, still valid transactions
		var blk []interfaces.Transaction
		var ids []int
		used := map[string]bool{}
		for tries := 0; tries < 12 && len(blk) < 1+rng.Intn(3); tries++ {
			var g *gtx
			if len(held) > 0 && rng.Chance(50) {
				g = u.get(held[rng.Intn(len(held))])
			} else {
				g = u.txs[rng.Intn(len(u.txs))]
			}
			ok := !chainRejects(g)
			for _, in := range g.ins {
				if used[in] {
					ok = false
				}
			}
			if !ok {
				continue
			}
			for _, in := range g.ins {
				used[in] = true
			}
			cp := redecode(g.tx.Transaction) // as received from a peer
			if cp == nil {
				panic("harness: signed transfer does not round-trip")
			}
			blk = append(blk, cp)
			ids = append(ids, g.id)
		}
		b, err := f.BuildBlock(tip, blk, fixture.BlockOpt{Salt: uint64(i)})
		if err != nil {
			panic(fmt.Sprintf("fixture: build block: %v", err))
		}
		inMain, _, err := f.ProcessBlock(b)
		if err != nil || !inMain {
			panic(fmt.Sprintf("fixture: block with valid transactions not connected: %v", err))
		}
		tip = b
		for in := range used {
			spent[in] = true
		}
		var rej []int
		for _, h := range held {
			if chainRejects(u.get(h)) {
				rej = append(rej, h)
			}
		}
		emit(fmt.Sprintf("OConnect %s 0 [] %s %d", nlist(ids), nlist(rej), u.h.limit), "real:block-connected", 0, len(rej) > 0)
	}
	var univ []string
	for _, g := range u.txs {
		univ = append(univ, u.coqTx(g, tbl))
	}
	sh.Add(fmt.Sprintf("Case %d %d\n   [%s]\n   [%s]", id, maxsz, strings.Join(univ, ";\n    "), strings.Join(steps, ";\n    ")))
	st.LogCase(run.Out, id, map[string]interface{}{"kind": "real", "max": maxsz, "txs": len(u.txs), "steps": jsteps})
	st.Sample(map[string]interface{}{"kind": "real", "history": id, "txs": len(u.txs), "ops": len(steps), "first_ops": o.log[:min(5, len(o.log))]})
}
