package main

// Slot sweep: for every transaction kind the generator knows, every variant
// (proposal type, payload version, ...) and every resource the variant draws,
// submit a transaction A and a transaction B that claims exactly that one
// resource again (other resources and the outpoints differ), plus a B that
// repeats all of A's resources.  The model and the oracle decide: B must be
// refused whenever it shares a claim with the held A, and every claim of the
// held A must be listed in its slot map.  Afterwards every (slot, tx type)
// pair of the regenerated table and every (resource, tx type, payload
// version) row of the specification must have been exercised by such a pair
// (fail closed).

import (
	"fmt"
	"sort"
	"strings"

	"github.com/elastos/Elastos.ELA/core/checkpoint"
	"github.com/elastos/Elastos.ELA/mempool"

	"verifharness/lib"
)

const nKinds = 28

type pairKey struct {
	Slot string
	Type int
	Ver  int
}

func (u *universe) buildForced(kind, variant int, isB bool, share string, insOff int) (*gtx, *sweepCtl) {
	u.sw = &sweepCtl{isB: isB, share: share, count: map[string]int{}, variant: variant, insOff: insOff}
	g := u.build(kind)
	sw := u.sw
	u.sw = nil
	return g, sw
}

func runSweep(e *env, rng *lib.Rng, tbl *slotTable, st *lib.Stats, sh *lib.Shards, run *lib.Run, id *int) {
	covered := map[pairKey]bool{}
	for kind := 0; kind < nKinds; kind++ {
		total := 1
		for variant := 0; variant < total; variant++ {
			*id++
			u := newUniverse(e, rng.Fork(), 0, nil)
			for len(u.hashes) < 12 {
				u.hashes = append(u.hashes, u.hashes[0])
				copy(u.hashes[len(u.hashes)-1][:], rng.Bytes(32))
			}
			a, sw := u.buildForced(kind, variant, false, "", 0)
			if variant == 0 {
				for _, r := range sw.radices {
					total *= r
				}
			}
			add := func(g *gtx) *gtx {
				if old, dup := u.byH[g.tx.Hash()]; dup {
					return u.get(old)
				}
				g.id = len(u.txs) + 1
				g.tx.id = g.id
				u.byH[g.tx.Hash()] = g.id
				u.txs = append(u.txs, g)
				return g
			}
			a = add(a)
			seen := map[string]bool{}
			shares := []string{"*", "inputs"}
			for _, d := range sw.draws {
				if !seen[d] {
					seen[d] = true
					shares = append(shares, d)
				}
			}
			pool := mempool.NewTxPool(e.params, checkpoint.NewManager(e.params))
			o := &oracleCtx{st: st, tbl: tbl, hist: *id, kind: "sweep"}
			var steps []string
			emit := func(op, kind string, res int) {
				s := pool.SnapshotVerif()
				o.log = append(o.log, op)
				o.check(u, pool, s, true)
				steps = append(steps, fmt.Sprintf("(%s, %s)", op, u.coqObs(res, s, tbl)))
				st.Count("sweep|"+snapKey(kind, res, s, u), true, kind)
			}
			submit := func(g *gtx) int {
				res := 0
				if err := pool.AppendToTxPool(g.tx); err != nil {
					res = 1
				}
				emit(fmt.Sprintf("OAppend %d [] %d", g.id, u.h.limit), "sweep:"+g.what, res)
				return res
			}
			for _, share := range shares {
				var b *gtx
				switch share {
				case "*": // same resources, other outpoints
					b, _ = u.buildForced(kind, variant, false, "", 5)
				case "inputs": // same outpoints, other resources
					if len(a.ins) == 0 {
						continue
					}
					b, _ = u.buildForced(kind, variant, true, "", 0)
				default:
					b, _ = u.buildForced(kind, variant, true, share, 5)
				}
				if b.tx.Hash() == a.tx.Hash() {
					continue
				}
				b = add(b)
				ra := submit(a)
				rb := submit(b)
				if ra == 0 && rb == 1 {
					// A held and indexed (oracle), B refused: the slots of the shared claims are exercised
					bc := map[claim]bool{}
					for _, c := range b.allClaims() {
						bc[c] = true
					}
					ver := int(a.tx.PayloadVersion())
					for _, c := range a.allClaims() {
						if bc[c] {
							covered[pairKey{c.Slot, int(a.ty), ver}] = true
							covered[pairKey{c.Slot, int(a.ty), -1}] = true
						}
					}
				}
				// the chain stops accepting everything: empty the pool for the next pair
				var held []int
				for _, t := range pool.GetTxsInPool() {
					held = append(held, u.idOf(t.Hash()))
				}
				sort.Ints(held)
				for _, h := range held {
					u.h.rejected[h] = true
				}
				u.h.visited = nil
				pool.CheckAndCleanAllTransactions()
				emit(fmt.Sprintf("OCheck %s %s %d", nlist(u.h.visited), nlist(held), u.h.limit), "sweep:reset", 0)
				for _, h := range held {
					delete(u.h.rejected, h)
				}
			}
			var univ []string
			for _, g := range u.txs {
				univ = append(univ, u.coqTx(g, tbl))
			}
			sh.Add(fmt.Sprintf("Case %d %d\n   [%s]\n   [%s]", *id, 20000000, strings.Join(univ, ";\n    "), strings.Join(steps, ";\n    ")))
			st.LogCase(run.Out, *id, map[string]interface{}{"kind": "sweep", "tx_kind": kind, "variant": variant, "what": a.what, "type": int(a.ty),
				"payload_version": int(a.tx.PayloadVersion()), "claims": a.claims, "shares": shares, "ops": o.log})
		}
	}
	// fail closed: every (slot, tx type) pair of the regenerated table ...
	typeName := func(v int) string {
		for _, t := range tbl.TxTypes {
			if t.Val == v {
				return t.Name
			}
		}
		return fmt.Sprint(v)
	}
	var missing []string
	for _, s := range tbl.Slots {
		for _, ty := range s.Types {
			if ty == tbl.AllType {
				any := false
				for k := range covered {
					if k.Slot == s.Name {
						any = true
					}
				}
				if !any {
					missing = append(missing, s.Name+"/(all types)")
				}
				continue
			}
			if !covered[pairKey{s.Name, ty, -1}] {
				missing = append(missing, s.Name+"/"+typeName(ty))
			}
		}
	}
	// ... and every (resource, tx type, payload version) row of the specification
	for _, r := range required {
		for _, t := range r.Types {
			name, ver := t, 0
			if i := strings.IndexByte(t, '/'); i >= 0 {
				name = t[:i]
				fmt.Sscan(t[i+1:], &ver)
			}
			if !covered[pairKey{r.Slot, tbl.TypeVal(name), ver}] {
				missing = append(missing, fmt.Sprintf("%s: %s/%s payload version %d", r.Res, r.Slot, name, ver))
			}
		}
	}
	st.Extra["sweep_pairs_covered"] = len(covered)
	if len(missing) > 0 {
		sort.Strings(missing)
		st.Fail("C34:sweep-uncovered", "no pair of transactions showed this slot refusing a second claim of the same resource (the key function yields no key for this tx type / payload version, or the generator has no such transaction)",
			map[string]interface{}{"missing": missing})
	}
}
