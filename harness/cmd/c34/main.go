// C34: mempool consistency.  Drives the real mempool.TxPool of /repo through
// its public API (AppendToTxPool / MaybeAcceptTransaction, RemoveTransaction,
// CleanSubmittedTransactions, CheckAndCleanAllTransactions) with histories of
// transactions that deliberately collide on outpoints and on every kind of
// unique resource, snapshots the internal indexes through the verif accessor
// after every operation, evaluates the property oracle (indexes recomputed
// from GetTxsInPool(); no two held txs share an outpoint/resource) and writes
// the observations as Coq cases for the model (corr/C34_corr.v).
//
// Three kinds of histories:
//
//	stub  — the transactions are real core/transaction objects wrapped so that
//	        SanityCheck/ContextCheck answer what the harness decides (the
//	        chain's verdict is an input of the model); every slot kind.
//	hook  — the same pool driven through ForceAddVerif/ForceRemoveVerif (no
//	        pre-checks) so the eviction loop of txFeeOrderedList.AddTx runs.
//	real  — signed transactions on the shared regnet fixture, real blocks
//	        through BlockChain.ProcessBlock and the node's post-block cleanup.
//
// Also the translator: regenerates coq/gen/C34_slots.v from the source tree.
package main

import (
	"bytes"
	"encoding/hex"
	"fmt"
	"math/big"
	"os"
	"path/filepath"
	"sort"
	"strings"

	"github.com/elastos/Elastos.ELA/blockchain"
	"github.com/elastos/Elastos.ELA/common"
	"github.com/elastos/Elastos.ELA/common/config"
	elalog "github.com/elastos/Elastos.ELA/common/log"
	"github.com/elastos/Elastos.ELA/core/checkpoint"
	"github.com/elastos/Elastos.ELA/core/contract"
	"github.com/elastos/Elastos.ELA/core/contract/program"
	transaction2 "github.com/elastos/Elastos.ELA/core/transaction"
	"github.com/elastos/Elastos.ELA/core/types"
	common2 "github.com/elastos/Elastos.ELA/core/types/common"
	"github.com/elastos/Elastos.ELA/core/types/functions"
	"github.com/elastos/Elastos.ELA/core/types/interfaces"
	"github.com/elastos/Elastos.ELA/core/types/outputpayload"
	"github.com/elastos/Elastos.ELA/core/types/payload"
	"github.com/elastos/Elastos.ELA/crypto"
	dplog "github.com/elastos/Elastos.ELA/dpos/log"
	"github.com/elastos/Elastos.ELA/dpos/state"
	elaerr "github.com/elastos/Elastos.ELA/errors"
	"github.com/elastos/Elastos.ELA/mempool"

	"verifharness/elaenv"
	"verifharness/lib"
)

// ---------------------------------------------------------------- environment

type utxoDB struct {
	txs map[common.Uint256]interfaces.Transaction
}

func (s *utxoDB) GetTransaction(id common.Uint256) (interfaces.Transaction, uint32, error) {
	if t, ok := s.txs[id]; ok {
		return t, 0, nil
	}
	return nil, 0, fmt.Errorf("leveldb: not found")
}

type keyPair struct {
	priv []byte
	pub  []byte // compressed
	hex  string
	code []byte // standard redeem script
	cid  common.Uint168
}

type env struct {
	params  *config.Configuration
	db      *utxoDB
	arb     *state.ArbitratorsMock
	keys    []*keyPair        // resource keys (owner / node / CR)
	arbs    []*keyPair        // arbiters (side chain pow signers)
	regNode map[string]string // owner hex -> node hex of producers registered in the DPoS state
}

func (e *env) isRegNode(h string) bool {
	for _, n := range e.regNode {
		if n == h {
			return true
		}
	}
	return false
}

func newKey(rng *lib.Rng) *keyPair {
	for {
		priv, pub, err := crypto.GenerateKeyPair()
		if err != nil {
			panic(err)
		}
		enc, err := pub.EncodePoint(true)
		if err != nil {
			panic(err)
		}
		ct, err := contract.CreateStandardContract(pub)
		if err != nil {
			panic(err)
		}
		cid, err := contract.CreateCRIDContractByCode(ct.Code)
		if err != nil {
			panic(err)
		}
		_ = rng
		return &keyPair{priv: priv, pub: enc, hex: hex.EncodeToString(enc), code: ct.Code, cid: *cid.ToProgramHash()}
	}
}

// newEnv builds what mempool/txpool_test.go and conflictmanager_test.go build:
// a BlockChain object carrying a UTXO cache over an in-memory transaction
// store and a DPoS state, a mock arbiter set, and the process globals.
func newEnv(rng *lib.Rng) *env {
	functions.GetTransactionByTxType = transaction2.GetTransaction
	functions.GetTransactionByBytes = transaction2.GetTransactionByBytes
	functions.CreateTransaction = transaction2.CreateTransaction
	functions.GetTransactionParameters = transaction2.GetTransactionparameters
	params := config.GetDefaultParams()
	config.DefaultParams = *params
	e := &env{params: params, db: &utxoDB{txs: map[common.Uint256]interfaces.Transaction{}}, regNode: map[string]string{}}
	for i := 0; i < 8; i++ {
		k := newKey(rng)
		// corpus: public keys whose last byte reads as a script opcode (a Schnorr
		// redeem script ends with the key, not with CHECKSIG / CHECKMULTISIG)
		for want := map[int]byte{0: 0xac, 1: 0xae}[i]; want != 0 && k.pub[32] != want; {
			k = newKey(rng)
		}
		e.keys = append(e.keys, k)
	}
	var members []state.ArbiterMember
	for i := 0; i < 3; i++ {
		k := newKey(rng)
		e.arbs = append(e.arbs, k)
		m, err := state.NewOriginArbiter(k.pub)
		if err != nil {
			panic(err)
		}
		members = append(members, m)
	}
	e.arb = state.NewArbitratorsMock(members, 0, 2)
	chain := &blockchain.BlockChain{UTXOCache: blockchain.NewUTXOCache(e.db, params)}
	chain.SetState(state.NewState(params, nil, nil, nil, func() bool { return false },
		func(common.Uint168) (common.Fixed64, error) { return 0, nil }, nil, nil, nil, nil, nil, nil))
	blockchain.DefaultLedger = &blockchain.Ledger{Blockchain: chain, Arbitrators: e.arb}
	// producers known to the DPoS state (strCancelKey looks the node key up there)
	var regs []interfaces.Transaction
	for i := 0; i < 3; i++ {
		owner, node := e.keys[i], e.keys[(i+4)%8]
		regs = append(regs, functions.CreateTransaction(0, common2.RegisterProducer, 0,
			&payload.ProducerInfo{OwnerKey: owner.pub, NodePublicKey: node.pub, NickName: fmt.Sprintf("registered-%d", i)},
			[]*common2.Attribute{}, []*common2.Input{}, []*common2.Output{}, 0, []*program.Program{}))
		e.regNode[owner.hex] = node.hex
	}
	chain.GetState().ProcessBlock(&types.Block{Transactions: regs, Header: common2.Header{Height: 1}}, nil, 0)
	for o, n := range e.regNode {
		ob, _ := hex.DecodeString(o)
		p := chain.GetState().GetProducer(ob)
		if p == nil || hex.EncodeToString(p.NodePublicKey()) != n {
			panic("harness: producer registration in the DPoS state did not take")
		}
	}
	return e
}

// ---------------------------------------------------------------- wrapped transactions

type claim struct{ Slot, Key string }

type history struct {
	rejected map[int]bool
	limit    int64
	visited  []int
}

// vtx is a real transaction whose chain verdict is decided by the harness.
type vtx struct {
	interfaces.Transaction
	id     int
	budget int64
	h      *history
}

func (t *vtx) SanityCheck(interfaces.Parameters) elaerr.ELAError { return nil }
func (t *vtx) ContextCheck(p interfaces.Parameters) (map[*common2.Input]common2.Output, elaerr.ELAError) {
	used := int64(0)
	if tp, ok := p.(*transaction2.TransactionParameters); ok {
		used = int64(tp.ProposalsUsedAmount)
	} else {
		panic("harness: unexpected parameters type")
	}
	t.h.visited = append(t.h.visited, t.id)
	if t.h.rejected[t.id] || used+t.budget > t.h.limit {
		return nil, elaerr.Simple(elaerr.ErrTxValidation, nil)
	}
	return nil, nil
}

type gtx struct {
	id      int
	tx      *vtx
	ty      common2.TxType
	fee     int64
	size    int
	ins     []string
	outs    []string
	claims  []claim
	refok   bool
	keyerr  string // slot name whose key function fails, "" if none
	budget  int64
	gen     int
	signer  int
	votes   [][2]string // kind ("0" delegate, "1" crc), candidate key string
	subject string
	what    string
}

type universe struct {
	e              *env
	rng            *lib.Rng
	h              *history
	txs            []*gtx
	byH            map[common.Uint256]int
	dict           map[string]int // key string -> key id
	ops            []string       // funding refer keys that exist
	bad            []*common2.Input
	nicks, crnicks []string
	hashes         []common.Uint256
	fundIns        []*common2.Input
	sw             *sweepCtl
}

// sweepCtl makes build() deterministic: the i-th draw of a resource class
// returns resource i (tx A), or resource i+shift unless it is the shared draw
// (tx B); variant choices are the digits of a mixed-radix number.
type sweepCtl struct {
	isB     bool
	share   string // "class:position" of the one draw B shares with A
	count   map[string]int
	draws   []string
	variant int
	radices []int
	insOff  int
}

func (u *universe) draw(class string, n int) int {
	if u.sw == nil {
		return u.rng.Intn(n)
	}
	pos := u.sw.count[class]
	u.sw.count[class]++
	id := fmt.Sprintf("%s:%d", class, pos)
	u.sw.draws = append(u.sw.draws, id)
	idx := pos
	if u.sw.isB && id != u.sw.share {
		idx = pos + (n+1)/2
	}
	return idx % n
}

func (u *universe) choice(n int) int {
	if u.sw == nil {
		return u.rng.Intn(n)
	}
	u.sw.radices = append(u.sw.radices, n)
	c := u.sw.variant % n
	u.sw.variant /= n
	return c
}

func stakeHash(code []byte) common.Uint168 {
	ct, err := contract.CreateStakeContractByCode(code)
	if err != nil {
		panic(err)
	}
	return *ct.ToProgramHash()
}

func (u *universe) keyID(s string) int {
	if id, ok := u.dict[s]; ok {
		return id
	}
	id := len(u.dict) + 1
	u.dict[s] = id
	return id
}

func hx(b []byte) string { return hex.EncodeToString(b) }

func (u *universe) mkFunding(n int) {
	for i := 0; i < n; i++ {
		var outs []*common2.Output
		for j := 0; j < 3; j++ {
			outs = append(outs, &common2.Output{AssetID: common.Uint256{1}, Value: common.Fixed64(1000 + j), ProgramHash: common.Uint168{byte(i), byte(j)}})
		}
		t := functions.CreateTransaction(0, common2.TransferAsset, 0, &payload.TransferAsset{},
			[]*common2.Attribute{{Usage: common2.Nonce, Data: u.rng.Bytes(8)}}, []*common2.Input{}, outs, 0, []*program.Program{})
		u.e.db.txs[t.Hash()] = t
		for j := 0; j < 3; j++ {
			u.fundIns = append(u.fundIns, &common2.Input{Previous: common2.OutPoint{TxID: t.Hash(), Index: uint16(j)}, Sequence: 0})
		}
	}
	for i := 0; i < 3; i++ { // references that do not resolve
		var id common.Uint256
		copy(id[:], u.rng.Bytes(32))
		u.bad = append(u.bad, &common2.Input{Previous: common2.OutPoint{TxID: id, Index: 0}})
	}
}

func (u *universe) pickIns(n int) ([]*common2.Input, bool) {
	var ins []*common2.Input
	ok := true
	seen := map[string]bool{}
	for len(ins) < n {
		var in *common2.Input
		if u.rng.Chance(4) {
			in = u.bad[u.rng.Intn(len(u.bad))]
			ok = false
		} else {
			in = u.fundIns[u.rng.Intn(len(u.fundIns))]
		}
		if seen[in.ReferKey()] {
			continue
		}
		seen[in.ReferKey()] = true
		c := *in
		ins = append(ins, &c)
	}
	return ins, ok
}

const (
	sOwner             = "DPoSOwnerPublicKey"
	sActCancel         = "DPoSActivateCancel"
	sNode              = "DPoSNodePublicKey"
	sOwnerNode         = "DPoSOwnerNodePublicKeys"
	sClaimNode         = "CRCouncilMemberNodePublicKey"
	sClaimDID          = "CRCouncilMemberDID"
	sNick              = "DPoSNickname"
	sCRDID             = "CrDID"
	sCRNick            = "CrNickname"
	sCode              = "ProgramCode"
	sChangeFee         = "ChangeCustomIDFee"
	sReserve           = "ReserveCustomID"
	sCloseTarget       = "CloseProposalTargetProposalHash"
	sOwnerTarget       = "ChangeProposalOwnerTargetProposalHash"
	sDraft             = "CRCProposalDraftHash"
	sPropDID           = "CRCProposalDID"
	sCustomID          = "CRCProposalCustomID"
	sSCName            = "CRCProposalRegisterSideChainName"
	sSCMagic           = "CRCProposalRegisterSideChainMagicNumber"
	sSCGenesis         = "CRCProposalRegisterSideChainGenesisHash"
	sPropHash          = "CRCProposalHash"
	sTrack             = "CRCProposalTrackingHash"
	sReview            = "CRCProposalReviewKey"
	sApprop            = "CRCAppropriationKey"
	sSecretary         = "CRCSecretaryGeneral"
	sRealWithdraw      = "CRCProposalRealWithdrawKey"
	sClaimRealWithdraw = "DposV2ClaimRewardRealWithdrawKey"
	sVotesRealWithdraw = "VotesRealWithdraw"
	sRevert            = "RevertToDPOSHash"
	sSpecial           = "SpecialTxHash"
	sResult            = "CustomIDProposalResult"
	sSidechain         = "SidechainTxHashes"
	sReturnDeposit     = "SidechainReturnDepositTxHashes"
	sNFTDestroy        = "NFTDestroyFromSideChainHash"
	sInputs            = "TxInputsReferKeys"
	sExchangeVotes     = "ExchangeVotes"
	sClaimReward       = "DposV2ClaimReward"
	sCreateNFT         = "createnft"
	sCreateNFTAddr     = "createnftstakeaddr"
)

// build creates one transaction of a random kind; every resource it claims is
// recorded by construction (slot name + the key string the slot map must hold).
func (u *universe) build(kind int) *gtx {
	e, rng := u.e, u.rng
	g := &gtx{refok: true, gen: 0, signer: 0}
	var pl interfaces.Payload
	var ty common2.TxType
	var pv byte
	ver := common2.TransactionVersion(0)
	var outs []*common2.Output
	nin := 1 + rng.Intn(2)
	k := func() *keyPair { return e.keys[u.draw("k", len(e.keys))] }
	hsh := func() common.Uint256 { return u.hashes[u.draw("h", len(u.hashes))] }
	choice := u.choice
	chance := func(pct int) bool {
		if u.sw != nil {
			return u.choice(2) == 1
		}
		return rng.Chance(pct)
	}
	cnt := func(n int) int { // how many resources of one class the tx claims
		if u.sw != nil {
			return 2
		}
		return 1 + rng.Intn(n)
	}
	progs := []*program.Program{{Code: e.keys[0].code, Parameter: []byte{0x40}}}
	switch kind {
	case 0, 1, 2: // TransferAsset, possibly voting
		ty, pl = common2.TransferAsset, &payload.TransferAsset{}
		outs = append(outs, &common2.Output{AssetID: common.Uint256{1}, Value: 10, ProgramHash: common.Uint168{9}, Type: common2.OTNone, Payload: &outputpayload.DefaultOutput{}})
		if chance(40) {
			ver = common2.TxVersion09
			vk, cand := outputpayload.Delegate, k().pub
			tag := "0"
			if choice(2) == 1 {
				kk := k()
				vk, cand, tag = outputpayload.CRC, kk.cid.Bytes(), "1"
			}
			outs = append(outs, &common2.Output{AssetID: common.Uint256{1}, Value: 5, ProgramHash: common.Uint168{8}, Type: common2.OTVote,
				Payload: &outputpayload.VoteOutput{Version: 0, Contents: []outputpayload.VoteContent{{VoteType: vk,
					CandidateVotes: []outputpayload.CandidateVotes{{Candidate: cand, Votes: 1}}}}}})
			g.votes = append(g.votes, [2]string{tag, hx(cand)})
		}
		g.what = "TransferAsset"
	case 3, 4: // RegisterProducer / UpdateProducer
		ty = common2.RegisterProducer
		if kind == 4 {
			ty = common2.UpdateProducer
		}
		o, n := k(), k()
		nick := u.nicks[u.draw("n", len(u.nicks))]
		pl = &payload.ProducerInfo{OwnerKey: o.pub, NodePublicKey: n.pub, NickName: nick, Url: "u", Location: 1, NetAddress: "a"}
		g.claims = append(g.claims, claim{sOwner, o.hex}, claim{sNode, n.hex}, claim{sOwnerNode, o.hex}, claim{sNick, nick})
		if n.hex != o.hex {
			g.claims = append(g.claims, claim{sOwnerNode, n.hex})
		}
		g.subject = o.hex
		g.what = "Register/UpdateProducer"
	case 5: // CancelProducer
		ty = common2.CancelProducer
		o := k()
		pl = &payload.ProcessProducer{OwnerKey: o.pub}
		g.claims = append(g.claims, claim{sOwner, o.hex})
		if n, ok := e.regNode[o.hex]; ok {
			g.claims = append(g.claims, claim{sActCancel, n})
		} else if e.isRegNode(o.hex) {
			// State.GetProducer also resolves a node key to its producer
			g.claims = append(g.claims, claim{sActCancel, o.hex})
		} else {
			g.keyerr = sActCancel
		}
		g.subject = o.hex
		g.what = "CancelProducer"
	case 6: // ActivateProducer
		ty = common2.ActivateProducer
		n := k()
		pl = &payload.ActivateProducer{NodePublicKey: n.pub}
		g.claims = append(g.claims, claim{sActCancel, n.hex}, claim{sNode, n.hex})
		nin = 0
		g.what = "ActivateProducer"
	case 7, 8: // RegisterCR / UpdateCR
		c := k()
		nick := u.crnicks[u.draw("c", len(u.crnicks))]
		cidOwner := k()
		info := &payload.CRInfo{Code: c.code, CID: cidOwner.cid, NickName: nick, Url: "u", Location: 1}
		pl = info
		switch choice(3) { // payload versions
		case 1:
			pv = payload.CRInfoDIDVersion
			info.DID = common.Uint168{0x67, 1, 2}
		case 2:
			if kind == 7 { // schnorr: the key comes from the program code, payload code empty
				pv = payload.CRInfoSchnorrVersion
				info.Code = []byte{}
				info.DID = common.Uint168{0x67, 1, 2}
				progs = []*program.Program{{Code: append([]byte{0x51, 0x21}, c.pub...), Parameter: []byte{0x40}}}
			}
		}
		if kind == 7 {
			ty = common2.RegisterCR
			g.claims = append(g.claims, claim{sOwner, c.hex}, claim{sNode, c.hex})
		} else {
			ty = common2.UpdateCR
		}
		g.claims = append(g.claims, claim{sCRDID, hx(cidOwner.cid[:])}, claim{sCRNick, nick})
		g.subject = hx(cidOwner.cid[:])
		g.what = "Register/UpdateCR"
	case 9: // UnregisterCR
		ty = common2.UnregisterCR
		c := k()
		pl = &payload.UnregisterCR{CID: c.cid}
		g.claims = append(g.claims, claim{sCRDID, hx(c.cid[:])})
		g.subject = hx(c.cid[:])
		g.what = "UnregisterCR"
	case 10, 11: // CRCProposal
		ty = common2.CRCProposal
		d, did := hsh(), k().cid
		p := &payload.CRCProposal{ProposalType: payload.Normal, OwnerKey: k().pub, DraftHash: d, CRCouncilMemberDID: did,
			Recipient: common.Uint168{7}}
		g.claims = append(g.claims, claim{sDraft, hx(d[:])}, claim{sPropDID, hx(did[:])})
		switch choice(10) {
		case 6:
			p.ProposalType = payload.ReserveCustomID
			p.ReservedCustomIDList = []string{"resid"}
			g.claims = append(g.claims, claim{sReserve, "Reserve custom ID"})
		case 7:
			p.ProposalType = payload.ChangeCustomIDFee
			g.claims = append(g.claims, claim{sChangeFee, "Change the fee of custom ID"})
		case 8:
			p.ProposalType = payload.ReceiveCustomID
			for i, n := 0, cnt(2); i < n; i++ {
				id := "custom-" + u.nicks[u.draw("n", len(u.nicks))]
				p.ReceivedCustomIDList = append(p.ReceivedCustomIDList, id)
				g.claims = append(g.claims, claim{sCustomID, id})
			}
			p.ReceiverDID = common.Uint168{0x67, 3}
		case 9:
			p.ProposalType = payload.RegisterSideChain
			p.SideChainName = "chain-" + u.nicks[u.draw("n", len(u.nicks))]
			p.MagicNumber = uint32(1000 + u.draw("m", 8))
			p.GenesisHash = hsh()
			p.ExchangeRate = 100000000
			p.EffectiveHeight = 1000
			p.ResourcePath = "r"
			g.claims = append(g.claims, claim{sSCName, p.SideChainName}, claim{sSCMagic, fmt.Sprint(p.MagicNumber)}, claim{sSCGenesis, hx(p.GenesisHash[:])})
		case 0:
			p.ProposalType = payload.CloseProposal
			p.TargetProposalHash = hsh()
			g.claims = append(g.claims, claim{sCloseTarget, hx(p.TargetProposalHash[:])})
		case 1:
			p.ProposalType = payload.ChangeProposalOwner
			p.TargetProposalHash = hsh()
			p.NewOwnerKey = k().pub
			g.claims = append(g.claims, claim{sOwnerTarget, hx(p.TargetProposalHash[:])})
		case 2:
			p.ProposalType = payload.SecretaryGeneral
			p.SecretaryGeneralPublicKey = k().pub
			g.claims = append(g.claims, claim{sSecretary, "Secretary General"})
		default:
			nb := 1 + rng.Intn(3)
			for i := 0; i < nb; i++ {
				a := int64(100 * (1 + rng.Intn(4)))
				p.Budgets = append(p.Budgets, payload.Budget{Type: payload.NormalPayment, Stage: byte(i), Amount: common.Fixed64(a)})
				g.budget += a
			}
		}
		pl = p
		g.what = "CRCProposal"
	case 12: // CRCProposalWithdraw
		ty = common2.CRCProposalWithdraw
		h := hsh()
		pl = &payload.CRCProposalWithdraw{ProposalHash: h, OwnerKey: k().pub}
		g.claims = append(g.claims, claim{sPropHash, hx(h[:])})
		g.what = "CRCProposalWithdraw"
	case 13: // CRCProposalTracking
		ty = common2.CRCProposalTracking
		h := hsh()
		pl = &payload.CRCProposalTracking{ProposalHash: h, OwnerKey: k().pub}
		g.claims = append(g.claims, claim{sTrack, hx(h[:])})
		g.what = "CRCProposalTracking"
	case 14: // CRCProposalReview
		ty = common2.CRCProposalReview
		h, did := hsh(), k().cid
		pl = &payload.CRCProposalReview{ProposalHash: h, DID: did}
		g.claims = append(g.claims, claim{sReview, did.String() + h.String()})
		g.what = "CRCProposalReview"
	case 15: // CRCAppropriation / CRAssetsRectify
		if choice(2) == 1 {
			ty, pl = common2.CRCAppropriation, &payload.CRCAppropriation{}
			g.claims = append(g.claims, claim{sApprop, "CRC Appropriation"})
		} else {
			ty, pl = common2.CRAssetsRectify, &payload.CRAssetsRectify{}
		}
		g.what = "CRCAppropriation/Rectify"
	case 16: // WithdrawFromSideChain
		ty = common2.WithdrawFromSideChain
		n := cnt(3)
		p := &payload.WithdrawFromSideChain{BlockHeight: 10, GenesisBlockAddress: "g"}
		pv = byte(choice(3)) // V0: hashes in the payload; V1, V2 (schnorr): in the withdraw outputs
		if pv != payload.WithdrawFromSideChainVersion {
			ver = common2.TxVersion09
			p = &payload.WithdrawFromSideChain{Signers: []uint8{0, 1}}
		}
		for i := 0; i < n; i++ {
			h := hsh()
			if pv == payload.WithdrawFromSideChainVersion {
				p.SideChainTransactionHashes = append(p.SideChainTransactionHashes, h)
			} else {
				outs = append(outs, &common2.Output{AssetID: common.Uint256{1}, Value: 3, ProgramHash: common.Uint168{5}, Type: common2.OTWithdrawFromSideChain,
					Payload: &outputpayload.Withdraw{GenesisBlockAddress: "g", SideChainTransactionHash: h, TargetData: []byte{1}}})
			}
			g.claims = append(g.claims, claim{sSidechain, hx(h[:])})
		}
		pl = p
		g.what = "WithdrawFromSideChain"
	case 17: // ReturnSideChainDepositCoin
		ty, pl = common2.ReturnSideChainDepositCoin, &payload.ReturnSideChainDepositCoin{}
		ver = common2.TxVersion09
		n := cnt(2)
		for i := 0; i < n; i++ {
			h := hsh()
			outs = append(outs, &common2.Output{AssetID: common.Uint256{1}, Value: 3, ProgramHash: common.Uint168{6}, Type: common2.OTReturnSideChainDepositCoin,
				Payload: &outputpayload.ReturnSideChainDeposit{GenesisBlockAddress: "g", DepositTransactionHash: h}})
			g.claims = append(g.claims, claim{sReturnDeposit, hx(h[:])})
		}
		g.what = "ReturnSideChainDepositCoin"
	case 18: // special transactions (SpecialTxHash = hash of the evidence payload)
		nin = 0
		progs = []*program.Program{}
		height := uint32(u.draw("m", 8))
		prop := func(view uint32) payload.ProposalEvidence {
			return payload.ProposalEvidence{Proposal: payload.DPOSProposal{Sponsor: k().pub, BlockHash: hsh(), ViewOffset: view, Sign: []byte{1}},
				BlockHeader: []byte{1, 2, 3}, BlockHeight: height}
		}
		var ill payload.DPOSIllegalData
		switch choice(6) {
		case 0:
			ty = common2.InactiveArbitrators
			p := &payload.InactiveArbitrators{Sponsor: k().pub, Arbitrators: [][]byte{k().pub}, BlockHeight: height}
			pl, ill = p, p
		case 1:
			ty = common2.NextTurnDPOSInfo
			p := &payload.NextTurnDPOSInfo{WorkingHeight: height, CRPublicKeys: [][]byte{k().pub}, DPOSPublicKeys: [][]byte{k().pub}}
			pl = p
			h := p.Hash()
			g.claims = append(g.claims, claim{sSpecial, hx(h[:])})
		case 2:
			ty = common2.IllegalProposalEvidence
			p := &payload.DPOSIllegalProposals{Evidence: prop(0), CompareEvidence: prop(1)}
			pl, ill = p, p
		case 3:
			ty = common2.IllegalVoteEvidence
			v := func(view uint32) payload.VoteEvidence {
				return payload.VoteEvidence{ProposalEvidence: prop(view), Vote: payload.DPOSProposalVote{ProposalHash: hsh(), Signer: k().pub, Accept: true, Sign: []byte{2}}}
			}
			p := &payload.DPOSIllegalVotes{Evidence: v(0), CompareEvidence: v(1)}
			pl, ill = p, p
		case 4:
			ty = common2.IllegalBlockEvidence
			p := &payload.DPOSIllegalBlocks{CoinType: payload.ELACoin, BlockHeight: height,
				Evidence:        payload.BlockEvidence{Header: k().pub, BlockConfirm: []byte{1}, Signers: [][]byte{k().pub}},
				CompareEvidence: payload.BlockEvidence{Header: k().pub, BlockConfirm: []byte{2}, Signers: [][]byte{k().pub}}}
			pl, ill = p, p
		default:
			ty = common2.IllegalSidechainEvidence
			p := &payload.SidechainIllegalData{IllegalType: payload.SidechainIllegalProposal, Height: height, IllegalSigner: k().pub,
				Evidence: payload.SidechainIllegalEvidence{DataHash: hsh()}, CompareEvidence: payload.SidechainIllegalEvidence{DataHash: hsh()},
				GenesisBlockAddress: "g", Signs: [][]byte{{1}}}
			pl, ill = p, p
		}
		if ill != nil {
			h := ill.Hash()
			g.claims = append(g.claims, claim{sSpecial, hx(h[:])})
		}
		g.what = "special"
	case 19: // SideChainPow
		ty = common2.SideChainPow
		g.gen = 1 + rng.Intn(3)
		g.signer = rng.Intn(len(e.arbs))
		p := &payload.SideChainPow{SideBlockHash: common.Uint256{byte(rng.Intn(200))}, SideGenesisHash: common.Uint256{byte(g.gen)}, BlockHeight: uint32(rng.Intn(100))}
		buf := new(bytes.Buffer)
		if err := p.Serialize(buf, payload.SideChainPowVersion); err != nil {
			panic(err)
		}
		sig, err := crypto.Sign(e.arbs[g.signer].priv, buf.Bytes()[0:68])
		if err != nil {
			panic(err)
		}
		p.Signature = sig
		pl = p
		if chance(50) {
			nin = 0
		}
		g.what = "SideChainPow"
	case 20: // ReturnDepositCoin / ReturnCRDepositCoin
		c := k()
		if choice(2) == 1 {
			ty, pl = common2.ReturnDepositCoin, &payload.ReturnDepositCoin{}
		} else {
			ty, pl = common2.ReturnCRDepositCoin, &payload.ReturnDepositCoin{}
		}
		progs = []*program.Program{{Code: c.code, Parameter: []byte{0x40}}}
		g.claims = append(g.claims, claim{sCode, hx(c.code)})
		g.what = "ReturnDepositCoin"
	case 21: // CRCouncilMemberClaimNode
		ty = common2.CRCouncilMemberClaimNode
		n, did := k(), k().cid
		pl = &payload.CRCouncilMemberClaimNode{NodePublicKey: n.pub, CRCouncilCommitteeDID: did}
		g.claims = append(g.claims, claim{sNode, n.hex}, claim{sClaimNode, n.hex}, claim{sClaimDID, hx(did[:])})
		g.what = "CRCouncilMemberClaimNode"
	case 22: // single-instance kinds
		switch choice(3) {
		case 0:
			ty, pl = common2.RevertToDPOS, &payload.RevertToDPOS{WorkHeightInterval: 10}
			g.claims = append(g.claims, claim{sRevert, "RevertToDPOS"})
			nin, progs = 0, []*program.Program{}
		case 1:
			ty, pl = common2.ProposalResult, &payload.RecordProposalResult{}
			g.claims = append(g.claims, claim{sResult, "customIDProposalResult"})
			nin, progs = 0, []*program.Program{}
		default:
			ty, pl = common2.VotesRealWithdraw, &payload.VotesRealWithdrawPayload{}
			g.claims = append(g.claims, claim{sVotesRealWithdraw, "VotesRealWithdraw"})
		}
		g.what = "singleton"
	case 23: // hash-array withdraw kinds
		n := cnt(2)
		var hs []common.Uint256
		for i := 0; i < n; i++ {
			hs = append(hs, hsh())
		}
		slot := sRealWithdraw
		switch choice(3) {
		case 0:
			ty, pl = common2.CRCProposalRealWithdraw, &payload.CRCProposalRealWithdraw{WithdrawTransactionHashes: hs}
		case 1:
			ty, pl, slot = common2.DposV2ClaimRewardRealWithdraw, &payload.DposV2ClaimRewardRealWithdraw{WithdrawTransactionHashes: hs}, sClaimRealWithdraw
		default:
			ty, pl, slot = common2.NFTDestroyFromSideChain, &payload.NFTDestroyFromSideChain{IDs: hs, OwnerStakeAddresses: []common.Uint168{{1}}}, sNFTDestroy
		}
		for _, h := range hs {
			g.claims = append(g.claims, claim{slot, hx(h[:])})
		}
		g.what = "hash-array"
	case 24: // rejected outright
		if choice(2) == 1 {
			ty, pl = common2.CoinBase, &payload.CoinBase{Content: []byte("c")}
		} else {
			ty, pl = common2.RecordSponsor, &payload.RecordSponsor{}
		}
		nin = 0
		g.what = "coinbase/sponsor"
	case 25: // UpdateVersion (removed by hash on block connection)
		ty, pl = common2.UpdateVersion, &payload.UpdateVersion{StartHeight: uint32(rng.Intn(5)), EndHeight: 10}
		nin, progs = 0, []*program.Program{}
		g.what = "UpdateVersion"
	case 26: // stake address kinds: ExchangeVotes / Voting / ReturnVotes / DposV2ClaimReward
		c := k()
		stake := stakeHash(c.code)
		progs = []*program.Program{{Code: c.code, Parameter: []byte{0x40}}}
		switch choice(6) {
		case 0:
			ty, pl = common2.ExchangeVotes, &payload.ExchangeVotes{}
			outs = append(outs, &common2.Output{AssetID: common.Uint256{1}, Value: 7, ProgramHash: stake, Type: common2.OTStake,
				Payload: &outputpayload.ExchangeVotesOutput{Version: 0, StakeAddress: stake}})
			progs = []*program.Program{{Code: e.keys[0].code, Parameter: []byte{0x40}}}
			g.claims = append(g.claims, claim{sExchangeVotes, hx(stake[:])})
		case 1:
			ty, pl = common2.Voting, &payload.Voting{}
			g.claims = append(g.claims, claim{sExchangeVotes, hx(stake[:])})
		case 2:
			ty, pl, pv = common2.ReturnVotes, &payload.ReturnVotes{ToAddr: common.Uint168{0x21, 1}, Code: c.code, Value: 5}, payload.ReturnVotesVersionV0
			progs = []*program.Program{{Code: e.keys[0].code, Parameter: []byte{0x40}}}
			g.claims = append(g.claims, claim{sExchangeVotes, hx(stake[:])})
		case 3:
			ty, pl, pv = common2.ReturnVotes, &payload.ReturnVotes{ToAddr: common.Uint168{0x21, 1}, Value: 5}, payload.ReturnVotesSchnorrVersion
			g.claims = append(g.claims, claim{sExchangeVotes, hx(stake[:])})
		case 4:
			ty, pl, pv = common2.DposV2ClaimReward, &payload.DPoSV2ClaimReward{ToAddr: common.Uint168{0x21, 1}, Code: c.code, Value: 5}, payload.DposV2ClaimRewardVersionV0
			progs = []*program.Program{{Code: e.keys[0].code, Parameter: []byte{0x40}}}
			g.claims = append(g.claims, claim{sClaimReward, hx(stake[:])})
		default:
			ty, pl, pv = common2.DposV2ClaimReward, &payload.DPoSV2ClaimReward{ToAddr: common.Uint168{0x21, 1}, Value: 5}, payload.DposV2ClaimRewardVersionV1
			g.claims = append(g.claims, claim{sClaimReward, hx(stake[:])})
		}
		g.what = "stake-address"
	case 27: // CreateNFT
		c := k()
		stake := stakeHash(c.code)
		progs = []*program.Program{{Code: c.code, Parameter: []byte{0x40}}}
		ref := hsh()
		addr := "S" + u.nicks[u.draw("n", len(u.nicks))]
		ty, pl = common2.CreateNFT, &payload.CreateNFT{ReferKey: ref, StakeAddress: addr, GenesisBlockHash: common.Uint256{3}}
		pv = byte(choice(2))
		g.claims = append(g.claims, claim{sExchangeVotes, hx(stake[:])}, claim{sCreateNFT, hx(ref[:])}, claim{sCreateNFTAddr, addr})
		g.what = "CreateNFT"
	}
	var ins []*common2.Input
	if nin > 0 && u.sw != nil {
		for i := 0; i < nin; i++ {
			c := *u.fundIns[(u.sw.insOff+i)%len(u.fundIns)]
			ins = append(ins, &c)
		}
	} else if nin > 0 {
		ins, g.refok = u.pickIns(nin)
	} else {
		ins = []*common2.Input{}
	}
	if outs == nil {
		outs = []*common2.Output{{AssetID: common.Uint256{1}, Value: 10, ProgramHash: common.Uint168{9}, Type: common2.OTNone, Payload: &outputpayload.DefaultOutput{}}}
	}
	attrs := []*common2.Attribute{{Usage: common2.Nonce, Data: rng.Bytes([]int{4, 4, 4, 40, 120, 300}[rng.Intn(6)])}}
	if ty >= common2.TxType(common2.TxVersion09) {
		// on the wire a leading byte >= 0x09 is a version: such types only exist as version 9 txs
		ver = common2.TxVersion09
	}
	real := functions.CreateTransaction(ver, ty, pv, pl, attrs, ins, outs, 0, progs)
	g.ty = ty
	g.size = real.GetSize()
	switch rng.Intn(4) {
	case 0:
		g.fee = int64(g.size) * int64(1+rng.Intn(3)) // equal fee rates across sizes
	case 1:
		g.fee = int64(1000 * (1 + rng.Intn(4)))
	case 2:
		g.fee = 0
	default:
		g.fee = int64(rng.Intn(5000))
	}
	real.SetFee(common.Fixed64(g.fee))
	for _, in := range ins {
		g.ins = append(g.ins, in.ReferKey())
	}
	for i := range outs {
		g.outs = append(g.outs, (&common2.OutPoint{TxID: real.Hash(), Index: uint16(i)}).ReferKey())
	}
	g.tx = &vtx{Transaction: real, budget: g.budget, h: u.h}
	return g
}

func newUniverse(e *env, rng *lib.Rng, n int, kinds []int) *universe {
	u := &universe{e: e, rng: rng, h: &history{rejected: map[int]bool{}, limit: 1 << 40}, byH: map[common.Uint256]int{}, dict: map[string]int{}}
	u.nicks = []string{"alice", "bob", "", "carol"}
	u.crnicks = []string{"alice", "dave", "erin"}
	for i := 0; i < 5; i++ {
		var h common.Uint256
		copy(h[:], rng.Bytes(32))
		u.hashes = append(u.hashes, h)
	}
	e.db.txs = map[common.Uint256]interfaces.Transaction{}
	blockchain.DefaultLedger.Blockchain.UTXOCache.CleanCache()
	u.mkFunding(4)
	for len(u.txs) < n {
		g := u.build(kinds[rng.Intn(len(kinds))])
		if _, dup := u.byH[g.tx.Hash()]; dup {
			continue
		}
		g.id = len(u.txs) + 1
		g.tx.id = g.id
		u.byH[g.tx.Hash()] = g.id
		u.txs = append(u.txs, g)
		// a child spending an output of this tx (for RemoveTransaction)
		if rng.Chance(15) && len(g.outs) > 0 && len(u.txs) < n {
			e.db.txs[g.tx.Hash()] = g.tx.Transaction
			u.fundIns = append(u.fundIns, &common2.Input{Previous: common2.OutPoint{TxID: g.tx.Hash(), Index: 0}})
		}
	}
	return u
}

func (u *universe) get(id int) *gtx { return u.txs[id-1] }

// redecode returns the transaction as a node receives it from a peer: a
// separately decoded object (serialize -> deserialize) with the same hash.
// nil if this payload does not round-trip.
func redecode(tx interfaces.Transaction) interfaces.Transaction {
	buf := new(bytes.Buffer)
	if err := tx.Serialize(buf); err != nil {
		return nil
	}
	r := bytes.NewReader(buf.Bytes())
	var cp interfaces.Transaction
	panicked, _ := lib.Recover(func() {
		t, err := functions.GetTransactionByBytes(r)
		if err != nil {
			return
		}
		if err := t.Deserialize(r); err != nil {
			return
		}
		cp = t
	})
	if panicked || cp == nil || cp.TxType() != tx.TxType() || cp.Version() != tx.Version() || cp.Hash() != tx.Hash() || cp.GetSize() != tx.GetSize() {
		return nil
	}
	cp.SetFee(tx.Fee())
	return cp
}

var redecoded, redecodeFailed int

// fresh is the same transaction as a different Go object (what a block or a
// re-submission from the network carries): a new wrapper around a re-decoded
// copy (around the original inner object if the payload does not round-trip).
func (g *gtx) fresh() *vtx {
	inner := redecode(g.tx.Transaction)
	if inner == nil {
		redecodeFailed++
		inner = g.tx.Transaction
	} else {
		redecoded++
	}
	return &vtx{Transaction: inner, id: g.tx.id, budget: g.tx.budget, h: g.tx.h}
}

// allKeys: (slot name, key string) the tx claims, inputs included
func (g *gtx) allClaims() []claim {
	cs := append([]claim{}, g.claims...)
	for _, in := range g.ins {
		cs = append(cs, claim{sInputs, in})
	}
	return cs
}

// ---------------------------------------------------------------- Coq printing

func nlist(xs []int) string {
	s := make([]string, len(xs))
	for i, x := range xs {
		s[i] = fmt.Sprint(x)
	}
	return "[" + strings.Join(s, ";") + "]"
}

func (u *universe) coqTx(g *gtx, tbl *slotTable) string {
	var ins, outs []int
	for _, s := range g.ins {
		ins = append(ins, u.keyID(s))
	}
	for _, s := range g.outs {
		outs = append(outs, u.keyID(s))
	}
	var ks []string
	for _, c := range g.claims {
		ks = append(ks, fmt.Sprintf("(%d,%d)", slotIdx(tbl, c.Slot), u.keyID(c.Key)))
	}
	ke := "None"
	if g.keyerr != "" {
		if i := tbl.Index(g.keyerr); i >= 0 && tbl.Applies(i, int(g.ty)) {
			ke = fmt.Sprintf("(Some %d)", i)
		}
	}
	var vs []string
	for _, v := range g.votes {
		vs = append(vs, fmt.Sprintf("(%s,%d)", v[0], u.keyID(v[1])))
	}
	subj := 0
	if g.subject != "" {
		subj = u.keyID(g.subject)
	}
	return fmt.Sprintf("(%d, mkTx %d %d %d %s %s [%s] %s %s %d %d %d [%s] %d)", g.id, g.ty, g.size, g.fee, nlist(ins), nlist(outs),
		strings.Join(ks, ";"), lib.CoqBool(g.refok), ke, g.budget, g.gen, g.signer, strings.Join(vs, ";"), subj)
}

func slotIdx(tbl *slotTable, name string) int {
	if i := tbl.Index(name); i >= 0 {
		return i
	}
	return 999
}

func (u *universe) coqObs(res int, s *mempool.PoolSnapshotVerif, tbl *slotTable) string {
	var txs, fees []int
	for _, h := range s.Txs {
		txs = append(txs, u.idOf(h))
	}
	for _, it := range s.Fees {
		fees = append(fees, u.idOf(it.Hash))
	}
	var sl []string
	for _, e := range s.Slots {
		sl = append(sl, fmt.Sprintf("(%d,%d,%d)", slotIdx(tbl, e.Slot), u.keyID(e.Key), u.idOf(e.Holder)))
	}
	return fmt.Sprintf("Obs %d %s %s %d [%s] %s", res, nlist(txs), nlist(fees), s.TotalSize, strings.Join(sl, ";"), lib.CoqZi(int64(s.Used)))
}

func (u *universe) idOf(h common.Uint256) int {
	if id, ok := u.byH[h]; ok {
		return id
	}
	return 9999
}

// ---------------------------------------------------------------- oracle

type oracleCtx struct {
	st   *lib.Stats
	tbl  *slotTable
	hist int
	kind string
	log  []string
}

func (o *oracleCtx) fail(sig, what string, extra interface{}) {
	o.st.Fail("C34:"+sig, what, map[string]interface{}{"history": o.hist, "kind": o.kind, "ops": append([]string{}, o.log...), "detail": extra})
}

// check evaluates the property on the implementation: indexes recomputed from
// GetTxsInPool() against the snapshot; complete=false between
// CleanSubmittedTransactions and CheckAndCleanAllTransactions.
func (o *oracleCtx) check(u *universe, pool *mempool.TxPool, s *mempool.PoolSnapshotVerif, complete bool) {
	held := pool.GetTxsInPool()
	ids := map[int]bool{}
	holders := map[claim]int{}
	var total uint64
	var used int64
	for _, t := range held {
		id := u.idOf(t.Hash())
		if id == 9999 {
			o.fail("unknown-tx", "pool holds a transaction that was never submitted", t.Hash().String())
			continue
		}
		ids[id] = true
		g := u.get(id)
		total += uint64(t.GetSize())
		if g.ty == common2.CRCProposal {
			used += g.budget
		}
		for _, c := range g.allClaims() {
			if other, ok := holders[c]; ok && other != id {
				o.fail("shared-resource", "two held transactions claim the same outpoint / unique resource",
					map[string]interface{}{"slot": c.Slot, "key": c.Key, "tx_a": u.get(other).what, "tx_b": g.what, "ids": []int{other, id}})
			}
			holders[c] = id
		}
	}
	// txnList keys
	if len(s.Txs) != len(held) {
		o.fail("txnlist", "snapshot txnList differs from GetTxsInPool", nil)
	}
	// fee list
	seen := map[int]int{}
	for i, it := range s.Fees {
		id := u.idOf(it.Hash)
		seen[id]++
		if !ids[id] {
			o.fail("fee-list", "fee list holds an entry for a transaction that is not in the pool", map[string]interface{}{"id": id, "pos": i})
			continue
		}
		g := u.get(id)
		if int(it.Size) != g.size || it.FeeRate != float64(g.fee)/float64(g.size) {
			o.fail("fee-list", "fee list item disagrees with its transaction", map[string]interface{}{"id": id})
		}
		if i > 0 {
			p := u.get(u.idOf(s.Fees[i-1].Hash))
			if u.idOf(s.Fees[i-1].Hash) != 9999 {
				a := new(big.Int).Mul(big.NewInt(p.fee), big.NewInt(int64(g.size)))
				b := new(big.Int).Mul(big.NewInt(g.fee), big.NewInt(int64(p.size)))
				if a.Cmp(b) < 0 {
					o.fail("fee-order", "fee list is not ordered by non-increasing fee rate", map[string]interface{}{"pos": i})
				}
			}
		}
	}
	for id := range ids {
		if seen[id] != 1 {
			o.fail("fee-list", "held transaction has no (or several) fee list entries", map[string]interface{}{"id": id, "count": seen[id]})
		}
	}
	if s.TotalSize != total {
		o.fail("total-size", "totalSize differs from the sum of held sizes", map[string]interface{}{"total": s.TotalSize, "sum": total})
	}
	if s.TotalSize > s.MaxSize {
		o.fail("size-limit", "pool size exceeds the limit", map[string]interface{}{"total": s.TotalSize, "max": s.MaxSize})
	}
	if int64(s.Used) != used {
		o.fail("budget", "proposalsUsedAmount differs from the sum of held proposal budgets", map[string]interface{}{"used": int64(s.Used), "sum": used})
	}
	// slot index: expected = claims of held txs in the slots that exist and apply
	exp := map[claim]int{}
	for c, id := range holders {
		if i := o.tbl.Index(c.Slot); i >= 0 && o.tbl.Applies(i, int(u.get(id).ty)) {
			exp[c] = id
		}
	}
	got := map[claim]int{}
	for _, e := range s.Slots {
		c := claim{e.Slot, e.Key}
		got[c] = u.idOf(e.Holder)
		if want, ok := exp[c]; !ok || want != got[c] {
			o.fail("slot-index", "slot map entry does not belong to a held transaction", map[string]interface{}{"slot": e.Slot, "key": e.Key, "holder": got[c]})
		}
	}
	if complete {
		for c, id := range exp {
			if got[c] != id {
				o.fail("slot-index", "resource of a held transaction is missing from its slot map", map[string]interface{}{"slot": c.Slot, "key": c.Key, "holder": id})
			}
		}
	}
}

// checkSize: the part of the property that also holds when the pre-checks of
// appendToTxPool are skipped (hook histories): the fee list accounts for
// exactly its entries and stays within the limit.
func (o *oracleCtx) checkSize(s *mempool.PoolSnapshotVerif) {
	var sum uint64
	for _, it := range s.Fees {
		sum += uint64(it.Size)
	}
	if s.TotalSize != sum {
		o.fail("total-size", "totalSize differs from the sum of the fee list's entry sizes", map[string]interface{}{"total": s.TotalSize, "sum": sum})
	}
	if s.TotalSize > s.MaxSize {
		o.fail("size-limit", "pool size exceeds the limit", map[string]interface{}{"total": s.TotalSize, "max": s.MaxSize})
	}
}

// ---------------------------------------------------------------- histories

func snapKey(op string, res int, s *mempool.PoolSnapshotVerif, u *universe) string {
	var sb strings.Builder
	fmt.Fprintf(&sb, "%s|%d|", op, res)
	for _, it := range s.Fees {
		g := u.idOf(it.Hash)
		if g != 9999 {
			fmt.Fprintf(&sb, "%d/%d:%d,", u.get(g).ty, it.Size, u.get(g).fee)
		}
	}
	fmt.Fprintf(&sb, "|%d|%d", len(s.Slots), s.Used)
	return sb.String()
}

var allKinds = []int{0, 1, 2, 3, 3, 4, 4, 5, 6, 7, 7, 8, 9, 10, 11, 12, 13, 14, 15, 16, 16, 17, 18, 19, 19, 20, 21, 22, 23, 24, 25, 26, 26, 27}

func runStub(e *env, rng *lib.Rng, tbl *slotTable, st *lib.Stats, sh *lib.Shards, run *lib.Run, id int, hook bool) {
	n := 14 + rng.Intn(26)
	kinds := allKinds
	switch rng.Intn(5) {
	case 0:
		kinds = []int{3, 4, 5, 6, 7, 8, 9, 0, 21} // producers / CRs
	case 1:
		kinds = []int{10, 11, 12, 13, 14, 15, 0, 15} // proposals and budget
	case 2:
		kinds = []int{0, 1, 2, 19, 16, 17, 18, 25, 26, 27} // outpoints, side chain, special, stake
	}
	u := newUniverse(e, rng, n, kinds)
	ckp := checkpoint.NewManager(e.params)
	pool := mempool.NewTxPool(e.params, ckp)
	maxsz := []uint64{20000000, 20000000, 4000, 1500, 700}[rng.Intn(5)]
	if hook {
		maxsz = []uint64{1500, 700, 400, 3000}[rng.Intn(4)]
	}
	pool.SetMaxSizeVerif(maxsz)
	u.h.limit = []int64{1 << 40, 1000, 600, 300}[rng.Intn(4)]
	o := &oracleCtx{st: st, tbl: tbl, hist: id, kind: map[bool]string{false: "stub", true: "hook"}[hook]}
	consumed := map[claim]bool{}
	randomRej := map[int]bool{}
	recompute := func() {
		for _, g := range u.txs {
			r := randomRej[g.id]
			for _, c := range g.allClaims() {
				if consumed[c] {
					r = true
				}
			}
			u.h.rejected[g.id] = r
		}
	}
	inPool := func() []int {
		var ids []int
		for _, t := range pool.GetTxsInPool() {
			ids = append(ids, u.idOf(t.Hash()))
		}
		sort.Ints(ids)
		return ids
	}
	var steps []string
	var jsteps []interface{}
	emit := func(op string, kind string, res int, complete bool, nontrivial bool) {
		s := pool.SnapshotVerif()
		o.log = append(o.log, op)
		if !hook {
			o.check(u, pool, s, complete)
		} else {
			o.checkSize(s)
		}
		steps = append(steps, fmt.Sprintf("(%s, %s)", op, u.coqObs(res, s, tbl)))
		jsteps = append(jsteps, map[string]interface{}{"op": op, "res": res, "pool": len(s.Txs), "total": s.TotalSize})
		st.Count(snapKey(kind, res, s, u), nontrivial || len(s.Txs) > 0, kind)
	}
	nops := 25 + rng.Intn(36)
	for i := 0; i < nops; i++ {
		recompute()
		held := inPool()
		c := rng.Intn(100)
		switch {
		case hook && c < 75, !hook && c < 62: // submit
			g := u.txs[rng.Intn(len(u.txs))]
			var err error
			res := 0
			if hook && (!g.refok || g.keyerr != "") {
				continue // AppendTx would stop half way (unreachable after VerifyTx); not modelled
			}
			sub := g.tx
			if rng.Chance(50) {
				sub = g.fresh()
			}
			if hook {
				panicked, _ := lib.Recover(func() { err = errOf(pool.ForceAddVerif(sub)) })
				if panicked {
					res = 2
				}
			} else {
				switch rng.Intn(3) {
				case 0:
					err = errOf(pool.AppendToTxPool(sub))
				case 1:
					err = pool.MaybeAcceptTransaction(sub)
					if e2, ok := err.(elaerr.ELAError); ok && e2 == nil {
						err = nil
					}
				default:
					err = errOf(pool.AppendToTxPoolWithoutEvent(sub))
				}
			}
			if err != nil && res == 0 {
				res = 1
			}
			rej := "[]"
			if u.h.rejected[g.id] {
				rej = fmt.Sprintf("[%d]", g.id)
			}
			emit(fmt.Sprintf("OAppend %d %s %d", g.id, rej, u.h.limit), "append:"+g.what, res, true, res == 1)
		case hook: // direct removal
			if len(held) == 0 {
				continue
			}
			g := u.get(held[rng.Intn(len(held))])
			if rng.Chance(15) {
				g = u.txs[rng.Intn(len(u.txs))]
			}
			pool.ForceRemoveVerif(g.fresh())
			emit(fmt.Sprintf("ORemoveApi %d", g.id), "force-remove", 0, true, true)
		case c < 70: // RemoveTransaction
			g := u.txs[rng.Intn(len(u.txs))]
			pool.RemoveTransaction(g.fresh())
			emit(fmt.Sprintf("ORemoveApi %d", g.id), "RemoveTransaction", 0, true, false)
		case c < 90: // block connected + post-block cleanup
			nb := 1 + rng.Intn(4)
			var blk []interfaces.Transaction
			var ids []int
			used := map[int]bool{}
			for len(blk) < nb {
				var g *gtx
				if len(held) > 0 && rng.Chance(45) {
					g = u.get(held[rng.Intn(len(held))])
				} else {
					g = u.txs[rng.Intn(len(u.txs))]
				}
				if used[g.id] {
					nb--
					continue
				}
				used[g.id] = true
				blk = append(blk, g.fresh()) // a block carries separately decoded objects
				ids = append(ids, g.id)
			}
			duty := rng.Intn(len(e.arbs))
			e.arb.DutyChangedCount = duty
			for _, id := range ids {
				g := u.get(id)
				if g.ty == common2.CoinBase {
					continue
				}
				for _, c := range g.allClaims() {
					consumed[c] = true
				}
			}
			pool.CleanSubmittedTransactions(&types.Block{Header: common2.Header{Height: uint32(10 + i)}, Transactions: blk})
			emit(fmt.Sprintf("OClean %s %d", nlist(ids), duty), "CleanSubmitted", 0, false, true)
			recompute()
			u.h.visited = nil
			before := inPool()
			pool.CheckAndCleanAllTransactions()
			var rej []int
			for _, id := range before {
				if u.h.rejected[id] {
					rej = append(rej, id)
				}
			}
			emit(fmt.Sprintf("OCheck %s %s %d", nlist(u.h.visited), nlist(rej), u.h.limit), "CheckAndClean", 0, true, len(rej) > 0)
		default: // the chain stops accepting some held transactions
			if len(held) > 0 {
				randomRej[held[rng.Intn(len(held))]] = true
			}
			if rng.Chance(30) {
				u.h.limit = []int64{1 << 40, 1000, 600, 300}[rng.Intn(4)]
			}
			recompute()
			u.h.visited = nil
			pool.CheckAndCleanAllTransactions()
			var rej []int
			for _, id := range held {
				if u.h.rejected[id] {
					rej = append(rej, id)
				}
			}
			emit(fmt.Sprintf("OCheck %s %s %d", nlist(u.h.visited), nlist(rej), u.h.limit), "CheckAndClean", 0, true, len(rej) > 0)
		}
	}
	var univ []string
	for _, g := range u.txs {
		univ = append(univ, u.coqTx(g, tbl))
	}
	ctor := "Case"
	if hook {
		ctor = "FeeCase"
	}
	sh.Add(fmt.Sprintf("%s %d %d\n   [%s]\n   [%s]", ctor, id, maxsz, strings.Join(univ, ";\n    "), strings.Join(steps, ";\n    ")))
	var jt []interface{}
	for _, g := range u.txs {
		jt = append(jt, map[string]interface{}{"id": g.id, "what": g.what, "type": int(g.ty), "size": g.size, "fee": g.fee, "claims": g.claims, "ins": len(g.ins), "budget": g.budget})
	}
	st.LogCase(run.Out, id, map[string]interface{}{"kind": o.kind, "max": maxsz, "limit": u.h.limit, "txs": jt, "steps": jsteps})
	if id <= 2 {
		st.Sample(map[string]interface{}{"kind": o.kind, "history": id, "txs": len(u.txs), "ops": len(steps), "max": maxsz, "first_ops": o.log[:min(6, len(o.log))]})
	}
}

func min(a, b int) int {
	if a < b {
		return a
	}
	return b
}

func errOf(e elaerr.ELAError) error {
	if e == nil {
		return nil
	}
	return e
}

// spec table of the property (mirrors model/C34_Spec.v): resource, slot, tx type names
// spec table of the property (mirrors model/C34_Spec.v): resource, slot,
// "TxType/payloadVersion" (version 0 when omitted)
var required = []struct {
	Res, Slot string
	Types     []string
}{
	{"outpoint", sInputs, nil},
	{"producer owner key", sOwner, []string{"RegisterProducer", "UpdateProducer", "CancelProducer", "RegisterCR/0", "RegisterCR/1", "RegisterCR/2"}},
	{"producer node key", sNode, []string{"RegisterProducer", "UpdateProducer", "ActivateProducer", "RegisterCR/0", "RegisterCR/1", "RegisterCR/2", "CRCouncilMemberClaimNode"}},
	{"producer owner/node key cross use", sOwnerNode, []string{"RegisterProducer", "UpdateProducer"}},
	{"producer nickname", sNick, []string{"RegisterProducer", "UpdateProducer"}},
	{"CR CID", sCRDID, []string{"RegisterCR/0", "RegisterCR/1", "RegisterCR/2", "UpdateCR/0", "UpdateCR/1", "UnregisterCR"}},
	{"CR nickname", sCRNick, []string{"RegisterCR/0", "RegisterCR/1", "RegisterCR/2", "UpdateCR/0", "UpdateCR/1"}},
	{"deposit program code", sCode, []string{"ReturnDepositCoin", "ReturnCRDepositCoin"}},
	{"proposal draft hash", sDraft, []string{"CRCProposal"}},
	{"proposal hash (withdraw)", sPropHash, []string{"CRCProposalWithdraw"}},
	{"proposal hash (tracking)", sTrack, []string{"CRCProposalTracking"}},
	{"proposal review key", sReview, []string{"CRCProposalReview"}},
	{"CRC appropriation", sApprop, []string{"CRCAppropriation"}},
	{"council member claimed node key", sClaimNode, []string{"CRCouncilMemberClaimNode"}},
	{"council member DID", sClaimDID, []string{"CRCouncilMemberClaimNode"}},
	{"side-chain tx hash", sSidechain, []string{"WithdrawFromSideChain/0", "WithdrawFromSideChain/1", "WithdrawFromSideChain/2"}},
	{"side-chain return-deposit tx hash", sReturnDeposit, []string{"ReturnSideChainDepositCoin"}},
	{"special tx hash", sSpecial, []string{"IllegalProposalEvidence", "IllegalVoteEvidence", "IllegalBlockEvidence", "IllegalSidechainEvidence", "InactiveArbitrators", "NextTurnDPOSInfo"}},
	{"stake address", sExchangeVotes, []string{"ExchangeVotes", "Voting", "ReturnVotes/0", "ReturnVotes/1", "CreateNFT/0", "CreateNFT/1"}},
	{"DPoS v2 reward claim", sClaimReward, []string{"DposV2ClaimReward/0", "DposV2ClaimReward/1"}},
	{"NFT id", sCreateNFT, []string{"CreateNFT/0", "CreateNFT/1"}},
}

func checkCoverage(tbl *slotTable, st *lib.Stats) {
	for _, r := range required {
		i := tbl.Index(r.Slot)
		var missing []string
		if i < 0 {
			missing = []string{"(slot absent)"}
		} else if r.Types == nil {
			for _, t := range tbl.TxTypes {
				if !tbl.Applies(i, t.Val) {
					missing = append(missing, t.Name)
				}
			}
		} else {
			for _, t := range r.Types {
				if j := strings.IndexByte(t, '/'); j >= 0 {
					t = t[:j]
				}
				if v := tbl.TypeVal(t); v < 0 || !tbl.Applies(i, v) {
					missing = append(missing, t)
				}
			}
		}
		if len(missing) > 0 {
			st.Fail("C34:slot-table", "the conflict-slot table no longer indexes a unique resource named by the property",
				map[string]interface{}{"resource": r.Res, "slot": r.Slot, "tx_types_without_key_function": missing})
		}
	}
}

func main() {
	run := lib.ParseArgs()
	elaenv.InitLog(run.Out)
	if os.Getenv("C34_LOG") != "" {
		elalog.NewDefault(filepath.Join(run.Out, "elalog"), 0, 0, 0)
	}
	dplog.Init(filepath.Join(run.Out, "dposlog"), 255, 0, 0)
	rng := lib.NewRng(run.Seed)
	st := lib.NewStats("C34", "histories of 25-60 pool operations (submit via AppendToTxPool/MaybeAcceptTransaction, RemoveTransaction, block connected = CleanSubmittedTransactions then CheckAndCleanAllTransactions, chain invalidation + CheckAndCleanAllTransactions) over 14-40 transactions of 26 kinds that collide on outpoints and on every slot kind; pool limit 700..20M bytes; hook histories run the eviction loop; real histories use signed transfers and real blocks on the regnet fixture. One evaluation = one operation with a full index snapshot; nontrivial = pool non-empty afterwards or a rejection/cleanup happened; distinct by (op kind, result, fee list content, slot count, budget)")

	// translator
	tbl := translate(run.Repo)
	if os.Getenv("C34_NO_GEN") == "" {
		tbl.WriteCoq("/verif/coq/gen/C34_slots.v")
	}
	checkCoverage(tbl, st)
	st.Extra["slots"] = len(tbl.Slots)
	st.Extra["tx_types"] = len(tbl.TxTypes)
	for name, want := range map[string]common2.TxType{"CoinBase": common2.CoinBase, "CRCProposal": common2.CRCProposal, "RecordSponsor": common2.RecordSponsor, "CRAssetsRectify": common2.CRAssetsRectify} {
		if tbl.TypeVal(name) != int(want) {
			panic("translator: tx type constant " + name + " disagrees with the compiled package")
		}
	}

	sh := &lib.Shards{Dir: run.Out, Imports: "From ELA Require Import model.C34_Pool corr.C34_corr.", CaseType: "C34_corr.case",
		Mismatch: "C34_corr.mismatches", Scope: "N", PerShard: 5}
	id := 0
	e := newEnv(rng)
	for i := 0; i < run.N(50, 1500); i++ {
		id++
		runStub(e, rng.Fork(), tbl, st, sh, run, id, false)
	}
	for i := 0; i < run.N(10, 300); i++ {
		id++
		runStub(e, rng.Fork(), tbl, st, sh, run, id, true)
	}
	runSweep(e, rng.Fork(), tbl, st, sh, run, &id)
	if os.Getenv("C34_NO_REAL") == "" {
		runReal(rng.Fork(), tbl, st, sh, run, &id)
	}
	st.Extra["block_txs_redecoded"] = redecoded
	st.Extra["block_txs_not_roundtripping"] = redecodeFailed
	st.Traces = st.Evals
	sh.Flush()
	st.Write(run.Out)
}
