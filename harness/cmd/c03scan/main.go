// c03scan lists, for the validation methods of /repo (SanityCheck /
// ContextCheck / SpecialContextCheck / Check* / check*), every expression
// that can panic at run time: index and slice expressions on non-literal
// operands, single-value type assertions, integer division / modulo by a
// non-constant.  Output: one line per site, for manual triage (notes/C03.md).
package main

import (
	"bytes"
	"fmt"
	"go/ast"
	"go/parser"
	"go/printer"
	"go/token"
	"os"
	"path/filepath"
	"regexp"
	"sort"
	"strings"
)

var fnRe = regexp.MustCompile(`^(SpecialContextCheck|ContextCheck|SanityCheck|Check.*|check.*|HeightVersionCheck|IsAllowedInPOWConsensus|RunPrograms)$`)

func main() {
	root := "/repo"
	if len(os.Args) > 1 {
		root = os.Args[1]
	}
	var files []string
	for _, pat := range []string{"core/transaction/*.go", "blockchain/blockvalidator.go", "blockchain/txvalidator.go", "blockchain/validation.go", "auxpow/auxpow.go", "core/contract/common.go", "crypto/common.go"} {
		m, _ := filepath.Glob(filepath.Join(root, pat))
		files = append(files, m...)
	}
	sort.Strings(files)
	fset := token.NewFileSet()
	counts := map[string]int{}
	for _, f := range files {
		if strings.HasSuffix(f, "_test.go") || strings.Contains(f, "verif") {
			continue
		}
		af, err := parser.ParseFile(fset, f, nil, 0)
		if err != nil {
			panic(err)
		}
		for _, d := range af.Decls {
			fd, ok := d.(*ast.FuncDecl)
			if !ok || fd.Body == nil || !fnRe.MatchString(fd.Name.Name) {
				continue
			}
			// type assertions that are the RHS of a 2-value assignment / in a type switch are safe
			safe := map[ast.Node]bool{}
			ast.Inspect(fd.Body, func(n ast.Node) bool {
				switch x := n.(type) {
				case *ast.AssignStmt:
					if len(x.Lhs) == 2 && len(x.Rhs) == 1 {
						if ta, ok := x.Rhs[0].(*ast.TypeAssertExpr); ok {
							safe[ta] = true
						}
					}
				case *ast.TypeSwitchStmt:
					ast.Inspect(x.Assign, func(m ast.Node) bool {
						if ta, ok := m.(*ast.TypeAssertExpr); ok {
							safe[ta] = true
						}
						return true
					})
				}
				return true
			})
			rel, _ := filepath.Rel(root, f)
			emit := func(kind string, n ast.Node) {
				var b bytes.Buffer
				printer.Fprint(&b, fset, n)
				s := strings.Join(strings.Fields(b.String()), " ")
				if len(s) > 110 {
					s = s[:110] + "…"
				}
				fmt.Printf("%s\t%s:%d\t%s\t%s\n", kind, rel, fset.Position(n.Pos()).Line, fd.Name.Name, s)
				counts[kind]++
			}
			ast.Inspect(fd.Body, func(n ast.Node) bool {
				switch x := n.(type) {
				case *ast.IndexExpr:
					emit("index", x)
				case *ast.SliceExpr:
					// x[:] and a[0:1]-style constant slices of arrays are listed too; triage by hand
					emit("slice", x)
				case *ast.TypeAssertExpr:
					if !safe[x] && x.Type != nil {
						emit("assert", x)
					}
				case *ast.BinaryExpr:
					if x.Op == token.QUO || x.Op == token.REM {
						if _, lit := x.Y.(*ast.BasicLit); !lit {
							emit("div", x)
						}
					}
				}
				return true
			})
		}
	}
	fmt.Fprintln(os.Stderr, counts)
}
