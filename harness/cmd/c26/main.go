// C26 correspondence + oracle: the view-change schedule of dpos/manager/view.go
// (calculateOffsetTimeV0/V1, ChangeView/ChangeViewV1) against
// coq/model/C26_View.v.  The oracle evaluates the property on the real code:
// one evaluation at the final time versus evaluations at every polling point
// (state carried by the real ChangeView/ChangeViewV1), and monotonicity in time.
package main

import (
	"fmt"
	"sort"
	"strings"
	"time"

	"github.com/elastos/Elastos.ELA/crypto"
	dlog "github.com/elastos/Elastos.ELA/dpos/log"
	"github.com/elastos/Elastos.ELA/dpos/manager"
	"github.com/elastos/Elastos.ELA/dpos/state"

	"verifharness/elaenv"
	"verifharness/lib"
)

const knownSig = "calculateOffsetTimeV1: an evaluation after a view change starts at offset >= arbitersCount"

var base = time.Unix(1700000000, 0)

type listener struct{ calls int }

func (l *listener) OnViewChanged(bool) { l.calls++ }

// arbiter mocks of every size, real public keys derived from fixed scalars
var mocks = map[int]*state.ArbitratorsMock{}

func mock(n int) *state.ArbitratorsMock {
	if m, ok := mocks[n]; ok {
		return m
	}
	var ms []state.ArbiterMember
	for i := 0; i < n; i++ {
		pri := make([]byte, 32)
		pri[31], pri[30], pri[0] = byte(i+1), byte(n), 1
		pk, err := crypto.NewPubKey(pri).EncodePoint(true)
		if err != nil {
			panic(err)
		}
		a, err := state.NewOriginArbiter(pk)
		if err != nil {
			panic(err)
		}
		ms = append(ms, a)
	}
	m := state.NewArbitratorsMock(ms, 0, n*2/3)
	mocks[n] = m
	return m
}

type obs struct {
	panicked bool
	k        uint32
	r        int64
}

func (o obs) coq() string {
	if o.panicked {
		return "DivZero"
	}
	return fmt.Sprintf("(Ok %d %s)", o.k, lib.CoqZi(o.r))
}
func (o obs) String() string {
	if o.panicked {
		return "panic"
	}
	return fmt.Sprintf("%d/%d", o.k, o.r)
}

func calcV0(tol, d int64) (o obs) {
	p, v := lib.Recover(func() {
		k, r := manager.CalculateOffsetTimeV0Verif(time.Duration(tol), base, base.Add(time.Duration(d)))
		o = obs{false, k, int64(r)}
	})
	if p {
		if !strings.Contains(fmt.Sprint(v), "divide by zero") {
			panic(v)
		}
		o = obs{panicked: true}
	}
	return
}

func calcV1(n, k uint32, d int64) (o obs) {
	p, v := lib.Recover(func() {
		k2, r := manager.CalculateOffsetTimeV1Verif(k, base, base.Add(time.Duration(d)), n)
		o = obs{false, k2, int64(r)}
	})
	if p {
		if !strings.Contains(fmt.Sprint(v), "divide by zero") {
			panic(v)
		}
		o = obs{panicked: true}
	}
	return
}

// pollV0 / pollV1 drive the real ChangeView / ChangeViewV1 at base+t for each
// cumulative time t; they return the final (offset, now - viewStartTime) and
// the offset every evaluation started from.
func pollV0(tol int64, k0 uint32, n int, ts []int64) (o obs, starts []uint32, problem string) {
	l := &listener{}
	m := mock(n)
	p, v := lib.Recover(func() {
		w := manager.NewViewVerif(m.CurrentArbitrators[0].GetNodePublicKey(), time.Duration(tol), base, k0, m, l)
		now := base
		kRef, rRef, prev := k0, int64(0), int64(0) // the state obtained by carrying calculateOffsetTimeV0's own results
		for i, t := range ts {
			starts = append(starts, w.Offset)
			now = base.Add(time.Duration(t))
			w.ChangeView(now)
			ref := calcV0(tol, rRef+t-prev)
			kRef, rRef, prev = kRef+ref.k, ref.r, t
			if problem == "" && !ref.panicked && (w.Offset != kRef || int64(now.Sub(w.ViewStartTime())) != rRef) {
				problem = fmt.Sprintf("carry: after evaluation %d (t=%dns) ChangeView holds offset %d / %dns since view start, calculateOffsetTimeV0 returned %d / %dns", i+1, t, w.Offset, int64(now.Sub(w.ViewStartTime())), kRef, rRef)
			}
		}
		o = obs{false, w.Offset, int64(now.Sub(w.ViewStartTime()))}
	})
	if p {
		return obs{panicked: true}, starts, fmt.Sprint("panic: ", v)
	}
	return
}

func pollV1(tol int64, k0 uint32, n int, ts []int64) (o obs, starts []uint32, problem string) {
	l := &listener{}
	m := mock(n)
	p, v := lib.Recover(func() {
		w := manager.NewViewVerif(m.CurrentArbitrators[0].GetNodePublicKey(), time.Duration(tol), base, k0, m, l)
		now := base
		kRef, rRef, prev := k0, int64(0), int64(0) // the state obtained by carrying calculateOffsetTimeV1's own results
		for i, t := range ts {
			starts = append(starts, w.Offset)
			now = base.Add(time.Duration(t))
			changed := w.ChangeViewV1(now)
			ref := calcV1(uint32(n), kRef, rRef+t-prev)
			kRef, rRef, prev = ref.k, ref.r, t
			if problem == "" && !ref.panicked && (w.Offset != kRef || int64(now.Sub(w.ViewStartTime())) != rRef) {
				problem = fmt.Sprintf("carry: after evaluation %d (t=%dns) ChangeViewV1 holds offset %d / %dns since view start, calculateOffsetTimeV1 returned %d / %dns", i+1, t, w.Offset, int64(now.Sub(w.ViewStartTime())), kRef, rRef)
			}
			if changed != (w.Offset != starts[len(starts)-1]) {
				problem = "ChangeViewV1 result does not say whether the offset changed"
			}
			// the on-duty flag follows the offset
			if changed && w.Offset > 0 && w.IsOnDuty() != (int(w.Offset)%n == 0) {
				problem = "on-duty flag does not match arbiters[offset mod n]"
			}
		}
		o = obs{false, w.Offset, int64(now.Sub(w.ViewStartTime()))}
	})
	if p {
		return obs{panicked: true}, starts, fmt.Sprint("panic: ", v)
	}
	return
}

// periodic returns period, 2*period, ... up to horizon (at most maxPts points)
func periodic(period, horizon int64, maxPts int) []int64 {
	var ts []int64
	for t := period; t <= horizon && len(ts) < maxPts; t += period {
		ts = append(ts, t)
	}
	if len(ts) == 0 {
		ts = []int64{period}
	}
	return ts
}

func gaps(ts []int64) []string {
	var out []string
	prev := int64(0)
	for _, t := range ts {
		out = append(out, lib.CoqZi(t-prev))
		prev = t
	}
	return out
}

const sec = int64(time.Second)

// slotLoop / slotInit: slot lengths in seconds, used only to aim generated
// times at slot boundaries (never part of a verdict).
func pow20(j uint32) uint32 {
	if j > 14 {
		return 0
	}
	p := uint64(1)
	for i := uint32(0); i < j; i++ {
		p *= 20
	}
	return uint32(p)
}
func slotLoop(n, k uint32) int64 {
	if k < n {
		return 5
	}
	return int64(5 + (k-n)*3*pow20(k/n))
}
func slotInit(n, k uint32) int64 {
	if k < n {
		return 5
	}
	return int64(5 + (1+k-n)*3*pow20(k/n))
}

func main() {
	run := lib.ParseArgs()
	elaenv.InitLog(run.Out)
	dlog.Init(run.Out, 255, 0, 0)
	rng := lib.NewRng(run.Seed)
	st := lib.NewStats("C26", "V0: tolerances 1ns..60s (and 0 -> panic), periodic polling at non-whole-second periods (5.9 s, 1.7 s, 0.999999999 s, tol+-1 ns ...) up to 250 points, 1 ns steps around view boundaries x durations at/around multiples, negative, random; V1: arbiter counts 0..36 (and 1 with offsets to 40 for every power of 20), offsets up to 3 rounds and at the uint32 wrap, durations aimed at slot boundaries +-1ns and random to several rounds; schedules: 1-6 polling points through the real ChangeView/ChangeViewV1 (V1 under sign tolerances 5 s / 1 s / 10 s / 7.3 s, single evaluations crossing the first full round), gaps small / slot-sized / large. nontrivial = at least one view change happened; distinct by (inputs, outputs)")
	sh := &lib.Shards{Dir: run.Out, Imports: "From ELA Require Import model.C26_View corr.C26_corr.", CaseType: "C26_corr.case",
		Mismatch: "C26_corr.mismatches", Scope: "Z", PerShard: 400}
	id := 0
	next := func() int { id++; return id }
	// oracle failures are collected, capped per signature (lib keeps only 50 in
	// total) and reported with the schedule-level property (one-shot =
	// incremental) first, single-evaluation symptoms last
	type pending struct {
		prio      int
		sig, what string
		in        interface{}
	}
	var pend []pending
	perSig := map[string]int{}
	fail := func(sig, what string, in interface{}) {
		perSig[sig]++
		if perSig[sig] > 6 {
			st.Hist["oracle_fail:"+sig]++
			return
		}
		prio := 2
		if strings.Contains(sig, "compositional") && !strings.Contains(sig, "carry") {
			prio = 0
		} else if strings.Contains(sig, "carry") {
			prio = 1
		} else if strings.Contains(sig, "monotone") || sig == knownSig {
			prio = 1
		}
		pend = append(pend, pending{prio, sig, what, in})
	}

	// ------------------------------------------------------------ V0 single evaluation
	tols := []int64{1, 7, 1000, sec, 5 * sec, 10 * sec, 60 * sec, 4999999999}
	doV0 := func(tol, d int64) {
		o := calcV0(tol, d)
		i := next()
		sh.Add(fmt.Sprintf("CV0 %d %s %s %s", i, lib.CoqZi(tol), lib.CoqZi(d), o.coq()))
		st.LogCase(run.Out, i, map[string]interface{}{"op": "calculateOffsetTimeV0", "tol": tol, "d": d, "out": o.String()})
		st.Count(fmt.Sprintf("v0:%d:%d:%s", tol, d, o), !o.panicked && o.k > 0, "calcV0")
		if o.panicked && tol != 0 {
			fail("calculateOffsetTimeV0:panic", "panics (divide by zero) with a non-zero sign tolerance", map[string]interface{}{"tol_ns": tol, "d_ns": d})
		}
		if !o.panicked && tol > 0 && d >= 0 {
			// oracle: k*tol + r = d with 0 <= r < tol (as exact integers, k not wrapped)
			if d/tol < 1<<32 && (int64(o.k)*tol+o.r != d || o.r < 0 || o.r >= tol) {
				fail("calculateOffsetTimeV0:decomposition", "offset*tolerance+remainder differs from the duration", map[string]interface{}{"tol": tol, "d": d, "out": o.String()})
			}
		}
	}
	doV0(0, 5*sec)
	doV0(0, 0)
	for _, tol := range tols {
		for _, q := range []int64{0, 1, 2, 17, 4294967295, 4294967296, 4294967297} {
			for _, e := range []int64{-1, 0, 1} {
				if q < 1<<31 || tol <= 1000 {
					doV0(tol, q*tol+e)
				}
			}
		}
	}
	for i := 0; i < run.N(150, 5000); i++ {
		tol := tols[rng.Intn(len(tols))]
		d := int64(rng.U64() % uint64(400*sec))
		if rng.Chance(10) {
			d = -d
		}
		doV0(tol, d)
	}

	// ------------------------------------------------------------ V1 single evaluation
	doV1 := func(n, k uint32, d int64) obs {
		o := calcV1(n, k, d)
		i := next()
		fuel := uint32(2)
		if !o.panicked {
			fuel = o.k - k + 2
		}
		sh.Add(fmt.Sprintf("CV1 %d %d %d %d %s %s", i, fuel, n, k, lib.CoqZi(d), o.coq()))
		st.LogCase(run.Out, i, map[string]interface{}{"op": "calculateOffsetTimeV1", "n": n, "k": k, "d": d, "out": o.String()})
		st.Count(fmt.Sprintf("v1:%d:%d:%d:%s", n, k, d, o), !o.panicked && o.k != k, "calcV1")
		if o.panicked && n != 0 {
			fail("calculateOffsetTimeV1:panic", "panics with a non-zero arbiter count", map[string]interface{}{"n": n, "k": k, "d_ns": d})
		}
		return o
	}
	doV1(0, 0, 5*sec)
	doV1(0, 7, 0)
	// every power of 20 the conversion can see: n = 1, offsets 0..40, one slot each side
	for k := uint32(0); k <= 40; k++ {
		doV1(1, k, 4*sec)
		doV1(1, k, 5*sec)
		doV1(1, k, 600*sec)
		two := (slotInit(1, k) + slotLoop(1, k+1)) * sec
		doV1(1, k, two-1)
		doV1(1, k, two)
	}
	// uint32 wrap of currentOffset++
	for _, n := range []uint32{1, 3, 36} {
		doV1(n, 4294967294, 21*sec)
		doV1(n, 4294967295, 5*sec)
	}
	for n := uint32(1); n <= 36; n++ {
		for _, k := range []uint32{0, n - 1, n, n + 1, 2*n - 1, 2 * n, 3*n - 1, 3 * n} {
			// around the first slot of an evaluation (initial formula) and around two slots
			s0 := slotInit(n, k)
			for _, d := range []int64{s0*sec - 1, s0 * sec, s0*sec + 1, (s0 + slotLoop(n, k+1)) * sec, (s0+slotLoop(n, k+1))*sec - 1} {
				doV1(n, k, d)
			}
		}
	}
	for i := 0; i < run.N(500, 20000); i++ {
		n := uint32(rng.Range(1, 36))
		k := uint32(rng.Intn(int(3*n) + 2))
		var d int64
		switch rng.Intn(5) {
		case 0:
			d = int64(rng.U64() % uint64(100*sec))
		case 1:
			d = int64(rng.Intn(int(6*n)+10)) * 5 * sec
		case 2: // across a round boundary
			d = (int64(n)*5 + int64(rng.Intn(3000))) * sec
		case 3:
			d = int64(rng.U64() % uint64(200000*sec))
		default:
			d = int64(rng.U64()%uint64(3000*sec)) - 5*sec
		}
		if rng.Chance(50) {
			d = d / sec * sec
		}
		o := doV1(n, k, d)
		if i < 2 {
			st.Sample(map[string]interface{}{"op": "calculateOffsetTimeV1", "n": n, "k": k, "d_ns": d, "out": o.String()})
		}
	}

	// ------------------------------------------------------------ V0 schedules
	doPoll0 := func(tol int64, k0 uint32, ts []int64, kind string) {
		inc, _, prob := pollV0(tol, k0, 3, ts)
		one, _, prob1 := pollV0(tol, k0, 3, ts[len(ts)-1:])
		i := next()
		sh.Add(fmt.Sprintf("CPoll0 %d %s %d %s %s", i, lib.CoqZi(tol), k0, lib.CoqList(gaps(ts)), inc.coq()))
		logTs := ts
		if len(logTs) > 12 {
			logTs = append(append([]int64{}, ts[:6]...), ts[len(ts)-6:]...)
		}
		st.LogCase(run.Out, i, map[string]interface{}{"op": "ChangeView schedule", "tol": tol, "k0": k0, "points": len(ts), "times_ns(first/last 6)": logTs, "incremental": inc.String(), "oneshot": one.String()})
		st.Count(fmt.Sprintf("p0:%d:%d:%v:%s", tol, k0, ts, inc), inc.k != k0 && len(ts) > 1, kind)
		for _, pr := range []string{prob, prob1} {
			if strings.HasPrefix(pr, "carry") {
				fail("ChangeView:carry-compositional", "V0: the state ChangeView keeps is not the (offset, remainder) calculateOffsetTimeV0 returned: "+pr, map[string]interface{}{"tol_ns": tol, "k0": k0, "times_ns": logTs})
				break
			}
		}
		if strings.HasPrefix(prob, "panic") || strings.HasPrefix(prob1, "panic") {
			fail("ChangeView:panic", "V0: ChangeView panics: "+prob+prob1, map[string]interface{}{"tol_ns": tol, "k0": k0, "times_ns": logTs})
		} else if inc != one {
			// shortest prefix of the schedule on which polling and one evaluation already differ
			L := len(ts)
			for l := 2; l < len(ts); l++ {
				a, _, _ := pollV0(tol, k0, 3, ts[:l])
				b, _, _ := pollV0(tol, k0, 3, ts[l-1:l])
				if a != b {
					L, inc, one = l, a, b
					break
				}
			}
			fail("ChangeView:compositional", "V0: evaluating at intermediate times differs from one evaluation at the final time", map[string]interface{}{"tol_ns": tol, "k0": k0, "times_ns": ts[:L], "incremental(offset/remainder_ns)": inc.String(), "oneshot": one.String()})
		}
		// monotone: one-shot offsets at increasing times never decrease (no wrap in these inputs)
		prev := uint32(0)
		for j, t := range ts {
			o := calcV0(tol, t)
			if j > 0 && o.k < prev {
				fail("calculateOffsetTimeV0:monotone", "offset decreased with time", map[string]interface{}{"tol_ns": tol, "times_ns": logTs})
			}
			prev = o.k
		}
	}
	doPoll0(10*sec, 0, []int64{9 * sec, 10 * sec, 25 * sec}, "pollV0")
	doPoll0(10*sec, 4294967295, []int64{10 * sec, 20 * sec}, "pollV0") // *viewOffset += offset wraps the same way either way
	for i := 0; i < run.N(150, 5000); i++ {
		tol := tols[1+rng.Intn(len(tols)-1)]
		m := rng.Range(1, 6)
		var ts []int64
		t := int64(0)
		for j := 0; j < m; j++ {
			switch rng.Intn(4) {
			case 0:
				t += int64(rng.U64() % uint64(tol))
			case 1:
				t += tol * int64(rng.Intn(4))
			case 2:
				t = (t/tol+1)*tol - int64(rng.Intn(2))
			default:
				t += int64(rng.U64() % uint64(5*tol))
			}
			ts = append(ts, t)
		}
		doPoll0(tol, uint32(rng.Intn(40)), ts, "pollV0")
	}
	// periodic polling at periods that are not a whole number of seconds (the
	// remainder carried between evaluations has a sub-second part every time),
	// whole-second tolerances as configured on the networks; and 1 ns steps
	// around view boundaries
	wholeTols := []int64{sec, 5 * sec, 10 * sec, 60 * sec}
	for _, tol := range wholeTols {
		for _, p := range []int64{5900000000, 1700000000, 999999999, 1000000001, tol - 1, tol + 1, tol/3 + 1, 2*tol + sec/2} {
			doPoll0(tol, uint32(rng.Intn(3)), periodic(p, 240*sec, 250), "pollV0-periodic")
		}
		var ts []int64
		for q := int64(1); q <= 4; q++ {
			ts = append(ts, q*tol-1, q*tol, q*tol+1)
		}
		doPoll0(tol, 0, ts, "pollV0-boundary")
		doPoll0(tol, 7, []int64{tol - 1, 2*tol - 2, 3*tol - 3, 3 * tol}, "pollV0-boundary")
	}
	for i := 0; i < run.N(40, 3000); i++ {
		tol := wholeTols[rng.Intn(len(wholeTols))]
		p := 1 + int64(rng.U64()%uint64(2*tol))
		doPoll0(tol, uint32(rng.Intn(40)), periodic(p, int64(rng.Range(20, 240))*sec, 120), "pollV0-periodic")
	}

	// ------------------------------------------------------------ V1 schedules
	knownSeen := 0
	v1Tols := []int64{5 * sec, sec, 10 * sec, 7300000000}
	doPoll1 := func(n int, k0 uint32, ts []int64, kind string) {
		i := next()
		tol := v1Tols[i%len(v1Tols)] // calculateOffsetTimeV1 never reads the sign tolerance: the schedule must not depend on it
		inc, starts, prob := pollV1(tol, k0, n, ts)
		one, _, prob1 := pollV1(tol, k0, n, ts[len(ts)-1:])
		shortTs := ts
		if len(shortTs) > 12 {
			shortTs = append(append([]int64{}, ts[:6]...), ts[len(ts)-6:]...)
		}
		for _, pr := range []string{prob1, prob} {
			if strings.HasPrefix(pr, "carry") {
				fail("ChangeViewV1:carry-compositional", "V1: the state ChangeViewV1 keeps is not the (offset, remainder) calculateOffsetTimeV1 returned, so the next evaluation does not continue the schedule: "+pr, map[string]interface{}{"arbiters": n, "sign_tolerance_ns": tol, "start_offset": k0, "times_ns(first/last 6)": shortTs})
				break
			} else if pr != "" {
				fail("ChangeViewV1:panic-or-inconsistent", "V1: "+pr, map[string]interface{}{"arbiters": n, "sign_tolerance_ns": tol, "start_offset": k0, "points": len(ts)})
				break
			}
		}
		fuel := inc.k - k0 + 2
		sh.Add(fmt.Sprintf("CPoll1 %d %d %d %d %s %s", i, fuel, n, k0, lib.CoqList(gaps(ts)), inc.coq()))
		logTs := ts
		if len(logTs) > 12 {
			logTs = append(append([]int64{}, ts[:6]...), ts[len(ts)-6:]...)
		}
		st.LogCase(run.Out, i, map[string]interface{}{"op": "ChangeViewV1 schedule", "n": n, "k0": k0, "points": len(ts), "times_ns(first/last 6)": logTs, "incremental": inc.String(), "oneshot": one.String(), "starts": starts})
		st.Count(fmt.Sprintf("p1:%d:%d:%v:%s", n, k0, ts, inc), inc.k != k0 && len(ts) > 1, kind)
		// the input class of the recorded finding: some evaluation starts at an
		// offset >= n that an earlier evaluation moved to
		restartBeyondRound := false
		for _, s := range starts {
			if s >= uint32(n) && s != k0 {
				restartBeyondRound = true
			}
		}
		if inc != one {
			in := map[string]interface{}{"arbiters": n, "sign_tolerance_ns": tol, "start_offset": k0, "times_ns": ts, "incremental(offset/remainder_ns)": inc.String(), "oneshot": one.String(), "evaluation_start_offsets": starts}
			if restartBeyondRound {
				knownSeen++
				if knownSeen <= 3 { // keep the (capped) failure list free for anything else
					fail(knownSig, "V1: polling changes the schedule", in)
				}
			} else {
				// shortest prefix (outside the known class) on which the two already differ
				for l := 2; l < len(ts); l++ {
					a, sa, _ := pollV1(tol, k0, n, ts[:l])
					b, _, _ := pollV1(tol, k0, n, ts[l-1:l])
					beyond := false
					for _, x := range sa {
						if x >= uint32(n) && x != k0 {
							beyond = true
						}
					}
					if a != b && !beyond {
						in = map[string]interface{}{"arbiters": n, "sign_tolerance_ns": tol, "start_offset": k0, "times_ns": ts[:l], "incremental(offset/remainder_ns)": a.String(), "oneshot": b.String(), "evaluation_start_offsets": sa}
						break
					}
				}
				fail("ChangeViewV1:compositional", "V1: evaluating at intermediate times differs from one evaluation at the final time although every evaluation started below arbitersCount (or at the initial offset)", in)
			}
		}
		// monotone in time, one-shot and along the incremental run
		prev := uint32(0)
		for j, t := range ts {
			o := calcV1(uint32(n), k0, t)
			if j > 0 && o.k < prev {
				fail("calculateOffsetTimeV1:monotone", "offset decreased with time", map[string]interface{}{"n": n, "k0": k0, "times_ns": ts})
			}
			prev = o.k
		}
		for j := 1; j < len(starts); j++ {
			if starts[j] < starts[j-1] {
				fail("ChangeViewV1:monotone", "view offset decreased along a polling schedule", map[string]interface{}{"n": n, "k0": k0, "times_ns": ts})
			}
		}
	}
	// corpus: the design-phase witness (3 arbiters, start offset 2, 5 s then 69 s) and neighbours
	doPoll1(3, 2, []int64{5 * sec, 69 * sec}, "pollV1-corpus")
	doPoll1(3, 2, []int64{69 * sec}, "pollV1-corpus")
	doPoll1(3, 0, []int64{4 * sec, 9 * sec, 14 * sec}, "pollV1-corpus")
	doPoll1(3, 5, []int64{64 * sec, 124 * sec}, "pollV1-corpus") // starts beyond the round and stays at the initial offset first
	doPoll1(36, 35, []int64{5 * sec, 10 * sec, 75 * sec}, "pollV1-corpus")

	// periodic polling, periods that are not whole seconds; horizons inside the
	// first round (the class the theorem covers) and across its end
	for _, n := range []int{1, 2, 3, 5, 12, 24, 36} {
		for _, p := range []int64{5900000000, 1700000000, 999999999, 1000000001, 4999999999, 5000000001, 2500000000} {
			k0 := uint32(rng.Intn(n))
			inRound := (int64(n) - int64(k0)) * 5 * sec
			doPoll1(n, k0, periodic(p, inRound, 250), "pollV1-periodic-below")
			doPoll1(n, k0, periodic(p, inRound+int64(rng.Range(1, 140))*sec, 250), "pollV1-periodic")
		}
		// 1 ns steps around every view boundary of the first round
		var ts []int64
		for q := int64(1); q <= int64(n) && q <= 12; q++ {
			ts = append(ts, q*5*sec-1, q*5*sec, q*5*sec+1)
		}
		doPoll1(n, 0, ts, "pollV1-boundary")
	}
	for i := 0; i < run.N(40, 3000); i++ {
		n := rng.Range(1, 36)
		k0 := uint32(rng.Intn(n))
		p := 1 + int64(rng.U64()%uint64(12*sec))
		inRound := (int64(n) - int64(k0)) * 5 * sec
		if rng.Bool() {
			inRound += int64(rng.Range(1, 200)) * sec
		}
		doPoll1(n, k0, periodic(p, inRound, 120), "pollV1-periodic")
	}

	// one evaluation that crosses the first full round of views (elapsed > 5 s * arbiters + 5 s), alone and
	// followed by another poll shortly after
	for i := 0; i < run.N(60, 3000); i++ {
		n := rng.Range(1, 36)
		k0 := uint32(rng.Intn(n))
		t1 := (int64(n)-int64(k0))*5*sec + 5*sec + int64(rng.U64()%uint64(200*sec))
		doPoll1(n, k0, []int64{t1}, "pollV1-cross-round")
		doPoll1(n, k0, []int64{t1, t1 + int64(rng.U64()%uint64(90*sec))}, "pollV1-cross-round")
	}

	genSchedule := func(n int, k0 uint32, below bool) []int64 {
		m := rng.Range(1, 6)
		var ts []int64
		t := int64(0)
		k := k0 // rough tracker of where the schedule is (aiming only)
		for j := 0; j < m; j++ {
			var g int64
			switch rng.Intn(5) {
			case 0:
				g = int64(rng.U64() % uint64(10*sec))
			case 1:
				g = 5 * sec * int64(rng.Intn(4))
			case 2:
				g = slotLoop(uint32(n), k+1)*sec + int64(rng.Intn(3)) - 1
			case 3:
				g = int64(rng.U64() % uint64((slotLoop(uint32(n), k+1)+60)*sec))
			default:
				g = int64(rng.Intn(n*5+40)) * sec
			}
			if below { // keep every evaluation start below n: total time below (n-k0)*5s
				lim := (int64(n) - int64(k0)) * 5 * sec
				if t+g >= lim && j < m-1 {
					g = (lim - t) / 2
				}
			}
			t += g
			ts = append(ts, t)
			o := calcV1(uint32(n), k0, t)
			k = o.k
		}
		return ts
	}
	for i := 0; i < run.N(600, 30000); i++ {
		n := rng.Range(1, 36)
		if rng.Chance(50) { // start below the round end: the class the theorem covers
			k0 := uint32(rng.Intn(n))
			doPoll1(n, k0, genSchedule(n, k0, rng.Chance(60)), "pollV1-from-below")
		} else {
			k0 := uint32(rng.Intn(3*n + 1))
			doPoll1(n, k0, genSchedule(n, k0, false), "pollV1-any")
		}
	}
	if run.Thorough() {
		// every (n, k0 < n) with two-point schedules on a 5 s grid around the round end
		for n := 1; n <= 36; n++ {
			for k0 := 0; k0 < n; k0++ {
				left := int64(n - k0)
				for _, a := range []int64{left - 1, left, left + 1} {
					for _, b := range []int64{1, 12, 13, 14, 40} {
						if a > 0 {
							doPoll1(n, uint32(k0), []int64{a * 5 * sec, (a*5 + b*5) * sec}, "pollV1-grid")
						}
					}
				}
			}
		}
	}
	sort.SliceStable(pend, func(a, b int) bool { return pend[a].prio < pend[b].prio })
	for _, f := range pend {
		st.Fail(f.sig, f.what, f.in)
	}
	st.Extra["known_finding_inputs_seen"] = knownSeen
	st.Traces = st.Evals
	sh.Flush()
	st.Write(run.Out)
}
