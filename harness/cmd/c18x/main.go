package main

import (
	"fmt"
	"os"

	"github.com/btcsuite/btcd/wire"
	"github.com/elastos/Elastos.ELA/common"
	"github.com/elastos/Elastos.ELA/database"
	"github.com/elastos/Elastos.ELA/database/ffldb"
)

func main() {
	dir, _ := os.MkdirTemp("", "c18x")
	defer os.RemoveAll(dir)
	db, err := database.Create("ffldb", dir+"/db", wire.MainNet)
	if err != nil {
		panic(err)
	}
	ffldb.SetMaxBlockFileSizeVerif(db, 512)
	mk := func(i int, n int) (common.Uint256, []byte) {
		var h common.Uint256
		h[0] = byte(i)
		b := make([]byte, n)
		for j := range b {
			b[j] = byte(i*16 + j)
		}
		return h, b
	}
	h1, b1 := mk(1, 100)
	h2, b2 := mk(2, 100)
	err = db.Update(func(tx database.Tx) error {
		if err := tx.StoreBlock(h1, b1); err != nil {
			return err
		}
		r, err := tx.FetchBlockRegion(&database.BlockRegion{Hash: &h1, Offset: 98, Len: 4})
		fmt.Println("pending region 98+4:", r, err)
		return tx.StoreBlock(h2, b2)
	})
	fmt.Println("update", err)
	db.View(func(tx database.Tx) error {
		for _, rg := range [][2]uint32{{98, 2}, {98, 3}, {100, 4}, {100, 12}, {100, 13}, {112, 0}, {113, 0}, {0xffffffff, 2}} {
			r, err := tx.FetchBlockRegion(&database.BlockRegion{Hash: &h1, Offset: rg[0], Len: rg[1]})
			fmt.Println("h1 region", rg, r, err)
			r, err = tx.FetchBlockRegion(&database.BlockRegion{Hash: &h2, Offset: rg[0], Len: rg[1]})
			fmt.Println("h2 region", rg, r, err)
		}
		fmt.Println(ffldb.BlockLocationVerif(tx, &h2))
		return nil
	})
	fmt.Println(ffldb.WriteCursorVerif(db))
	db.Close()
	// oversize first block on a fresh db
	db, err = database.Create("ffldb", dir+"/db2", wire.MainNet)
	ffldb.SetMaxBlockFileSizeVerif(db, 512)
	h3, b3 := mk(3, 600)
	fmt.Println(db.Update(func(tx database.Tx) error { return tx.StoreBlock(h3, b3) }))
	fmt.Println(ffldb.WriteCursorVerif(db))
	fmt.Println("close", db.Close())
	db, err = database.Open("ffldb", dir+"/db2", wire.MainNet)
	fmt.Println("reopen", db != nil, err)
	ents, _ := os.ReadDir(dir + "/db2")
	for _, e := range ents {
		fmt.Println(e.Name())
	}
}
