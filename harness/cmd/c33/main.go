// C33 correspondence and property oracle: WithdrawFromSideChain validation of /repo
// (checkTransactionCrossChainUTXO + SpecialContextCheck, Tx3 save/rollback
// processors on a real ffldb chain store, CheckDuplicateTx, mempool key
// function) against coq/model/C33_Withdraw.v.
package main

import (
	"bytes"
	"crypto/sha256"
	"encoding/hex"
	"fmt"
	"math/big"
	"os"
	"path/filepath"
	"sort"
	"strings"

	"github.com/elastos/Elastos.ELA/blockchain"
	elacommon "github.com/elastos/Elastos.ELA/common"
	"github.com/elastos/Elastos.ELA/common/config"
	"github.com/elastos/Elastos.ELA/core"
	"github.com/elastos/Elastos.ELA/core/checkpoint"
	"github.com/elastos/Elastos.ELA/core/contract"
	"github.com/elastos/Elastos.ELA/core/contract/program"
	"github.com/elastos/Elastos.ELA/core/transaction"
	"github.com/elastos/Elastos.ELA/core/types"
	common2 "github.com/elastos/Elastos.ELA/core/types/common"
	"github.com/elastos/Elastos.ELA/core/types/functions"
	"github.com/elastos/Elastos.ELA/core/types/interfaces"
	"github.com/elastos/Elastos.ELA/core/types/outputpayload"
	"github.com/elastos/Elastos.ELA/core/types/payload"
	crstate "github.com/elastos/Elastos.ELA/cr/state"
	"github.com/elastos/Elastos.ELA/crypto"
	"github.com/elastos/Elastos.ELA/database"
	"github.com/elastos/Elastos.ELA/dpos/state"
	"github.com/elastos/Elastos.ELA/mempool"

	"verifharness/elaenv"
	"verifharness/lib"
)

const maxU32 = 4294967295

// ---------------------------------------------------------------- keys

var privKeys [][]byte // index k-1
var pubKeys [][]byte

func initKeys() {
	for k := 1; k <= 64; k++ {
		d := sha256.Sum256([]byte(fmt.Sprintf("verif-c33-key-%d", k)))
		pk := crypto.PublicKey{}
		pk.X, pk.Y = crypto.DefaultCurve.ScalarBaseMult(d[:])
		enc, err := pk.EncodePoint(true)
		if err != nil {
			panic(err)
		}
		privKeys = append(privKeys, d[:])
		pubKeys = append(pubKeys, enc)
	}
}

// keyBytes mirrors C33_corr.keybytes.
func keyBytes(k int) []byte {
	if k >= 1 && k <= 64 {
		return pubKeys[k-1]
	}
	return bytes.Repeat([]byte{byte(((k % 256) + 256) % 256)}, 33)
}

// ---------------------------------------------------------------- arbiters

type arb struct {
	id     int
	normal bool
}

// arbiters answers the five getters the withdraw checks use from controlled
// lists; everything else is the repository's ArbitratorsMock.
type arbiters struct {
	*state.ArbitratorsMock
	ar, crc, cc  []arb
	ccCount, ccM int
}

func infos(l []arb) []*state.ArbiterInfo {
	r := make([]*state.ArbiterInfo, 0, len(l))
	for _, a := range l {
		r = append(r, &state.ArbiterInfo{NodePublicKey: keyBytes(a.id), IsNormal: a.normal})
	}
	return r
}
func (a *arbiters) GetArbitrators() []*state.ArbiterInfo        { return infos(a.ar) }
func (a *arbiters) GetCRCArbiters() []*state.ArbiterInfo        { return infos(a.crc) }
func (a *arbiters) GetCrossChainArbiters() []*state.ArbiterInfo { return infos(a.cc) }
func (a *arbiters) GetCrossChainArbitersCount() int             { return a.ccCount }
func (a *arbiters) GetCrossChainArbitersMajorityCount() int     { return a.ccM }

func coqArbs(l []arb) string {
	var s []string
	for _, a := range l {
		if a.normal {
			s = append(s, fmt.Sprint(a.id))
		} else {
			s = append(s, fmt.Sprintf("(-%d)", a.id))
		}
	}
	return lib.CoqList(s)
}

// coqArbsOpt prints None when l equals cc (the common case).
func coqArbsOpt(l, cc []arb) string {
	if len(l) == len(cc) {
		same := true
		for i := range l {
			same = same && l[i] == cc[i]
		}
		if same {
			return "None"
		}
	}
	return "(Some " + coqArbs(l) + ")"
}

// nArbs: n normal arbiters; keys 1..64, cycling for larger sets (the Schnorr
// path never compares arbiter keys with each other).
func nArbs(n int) []arb {
	var r []arb
	for i := 0; i < n; i++ {
		r = append(r, arb{i%64 + 1, true})
	}
	return r
}

func twelve() []arb {
	var r []arb
	for i := 1; i <= 12; i++ {
		r = append(r, arb{i, true})
	}
	return r
}

// ---------------------------------------------------------------- cfg

type cfg struct {
	height, schnorr, crClaim, dposCC, freeze, restr uint32
	normalCount                                     int
	agreement, member                               uint32
}

func (c cfg) coq() string {
	return fmt.Sprintf("[%d;%d;%d;%d;%d;%d;%s;%d;%d]", c.height, c.schnorr, c.crClaim, c.dposCC, c.freeze, c.restr,
		lib.CoqZi(int64(c.normalCount)), c.agreement, c.member)
}

func (c cfg) params() *config.Configuration {
	p := *config.GetDefaultParams()
	p.SchnorrStartHeight = c.schnorr
	p.CRConfiguration.CRClaimDPOSNodeStartHeight = c.crClaim
	p.DPoSConfiguration.DPOSNodeCrossChainHeight = c.dposCC
	p.CrossChainUTXOFreezeHeight = c.freeze
	p.CrossChainUTXORestrictionHeight = c.restr
	p.DPoSConfiguration.NormalArbitratorsCount = c.normalCount
	p.CRConfiguration.CRAgreementCount = c.agreement
	p.CRConfiguration.MemberCount = c.member
	return &p
}

func (c cfg) newRule() bool { return c.height >= c.dposCC }
func (c cfg) threshold() int {
	mc := int(c.member)
	if c.height <= c.crClaim {
		return mc*2/3 + 1
	} else if c.height < c.dposCC {
		return mc * 2 / 3
	}
	return mc*2/3 + 1
}

// ---------------------------------------------------------------- tx description

type code struct {
	raw    []byte // when structured == false
	mb     byte
	ks     [][2]int // (push byte, key id)
	nb, lb byte
	struc  bool
}

func (c code) bytes() []byte {
	if !c.struc {
		return c.raw
	}
	b := []byte{c.mb}
	for _, k := range c.ks {
		b = append(b, byte(k[0]))
		b = append(b, keyBytes(k[1])...)
	}
	return append(b, c.nb, c.lb)
}
func (c code) coq(aggv []byte) string {
	if !c.struc {
		if aggv != nil && bytes.Equal(c.raw, aggv) {
			return "CAgg"
		}
		return "CRaw " + lib.CoqBytes(c.raw)
	}
	var s []string
	for _, k := range c.ks {
		s = append(s, fmt.Sprint(k[0]*1000+k[1]))
	}
	return fmt.Sprintf("CS %d %s %d %d", c.mb, lib.CoqList(s), c.nb, c.lb)
}

type txd struct {
	pver    byte
	ph      []int // payload hash ids
	oh      []int // output hash ids; -1 = output of withdraw type with a payload of another type
	refs    []byte
	progs   []code
	signers []byte
	// filled by build
	aggk []int
	aggv []byte
	tx   interfaces.Transaction
	refm map[*common2.Input]common2.Output
}

func hashOf(salt, id int) elacommon.Uint256 {
	return elacommon.Uint256(sha256.Sum256([]byte(fmt.Sprintf("c33-hash-%d-%d", salt, id))))
}

func coqNs(l []int) string {
	var s []string
	for _, x := range l {
		s = append(s, fmt.Sprintf("%d%%N", x))
	}
	return lib.CoqList(s)
}
func coqOptNs(l []int) string {
	var s []string
	for _, x := range l {
		if x < 0 {
			s = append(s, "None")
		} else {
			s = append(s, fmt.Sprintf("Some %d%%N", x))
		}
	}
	return lib.CoqList(s)
}
func coqBs(l []byte) string {
	var s []string
	for _, x := range l {
		s = append(s, fmt.Sprint(x))
	}
	return lib.CoqList(s)
}
func coqIs(l []int) string {
	var s []string
	for _, x := range l {
		s = append(s, fmt.Sprint(x))
	}
	return lib.CoqList(s)
}

// schnorrScript: redeem script of the aggregate of the given public keys, by
// a route different from the checker's (crypto.AggregatePublickeys).
func schnorrScript(keys [][]byte) []byte {
	if len(keys) == 0 {
		keys = nil
	}
	sum, err := crypto.AggregatePublickeys(keys)
	if err != nil {
		return nil
	}
	pub, err := crypto.DecodePoint(sum)
	if err != nil {
		return nil
	}
	sc, err := contract.CreateSchnorrRedeemScript(pub)
	if err != nil {
		return nil
	}
	return sc
}

// build creates the real transaction. cc is the cross-chain arbiter list used
// to fill the oracle entry (key ids of the signers when all are in range).
func (t *txd) build(salt int, cc []arb, rng *lib.Rng) {
	t.aggk, t.aggv = nil, nil
	if t.pver == 2 {
		inRange := true
		var ks [][]byte
		for _, i := range t.signers {
			if int(i) >= len(cc) {
				inRange = false
				break
			}
			t.aggk = append(t.aggk, cc[i].id)
			ks = append(ks, keyBytes(cc[i].id))
		}
		if inRange {
			t.aggv = schnorrScript(ks)
		} else {
			t.aggk = nil
		}
	}
	var outs []*common2.Output
	var ph elacommon.Uint168
	ph[0] = byte(contract.PrefixStandard)
	plain := func() *common2.Output {
		return &common2.Output{AssetID: core.ELAAssetID, Value: 10, ProgramHash: ph, Type: common2.OTNone, Payload: &outputpayload.DefaultOutput{}}
	}
	for _, h := range t.oh {
		if rng != nil && rng.Chance(30) {
			outs = append(outs, plain())
		}
		o := &common2.Output{AssetID: core.ELAAssetID, Value: 100, ProgramHash: ph, Type: common2.OTWithdrawFromSideChain}
		if h < 0 {
			o.Payload = &outputpayload.DefaultOutput{}
		} else {
			o.Payload = &outputpayload.Withdraw{GenesisBlockAddress: "x", SideChainTransactionHash: hashOf(salt, h), TargetData: []byte{}}
		}
		outs = append(outs, o)
	}
	if len(outs) == 0 {
		outs = append(outs, plain())
	}
	var ins []*common2.Input
	t.refm = map[*common2.Input]common2.Output{}
	for i, p := range t.refs {
		in := &common2.Input{}
		in.Previous.TxID = hashOf(salt, 1000+i)
		in.Previous.Index = uint16(i)
		ins = append(ins, in)
		var rh elacommon.Uint168
		rh[0] = p
		rh[20] = byte(i)
		t.refm[in] = common2.Output{AssetID: core.ELAAssetID, Value: 1000, ProgramHash: rh}
	}
	var hs []elacommon.Uint256
	for _, h := range t.ph {
		hs = append(hs, hashOf(salt, h))
	}
	var progs []*program.Program
	for _, c := range t.progs {
		progs = append(progs, &program.Program{Code: c.bytes()})
	}
	t.tx = transaction.CreateTransaction(common2.TxVersion09, common2.WithdrawFromSideChain, t.pver,
		&payload.WithdrawFromSideChain{SideChainTransactionHashes: hs, Signers: t.signers}, nil, ins, outs, 0, progs)
}

func (t *txd) coq() string {
	var ps []string
	for _, c := range t.progs {
		ps = append(ps, c.coq(t.aggv))
	}
	aggv := "None"
	if t.aggv != nil {
		aggv = "(Some " + lib.CoqBytes(t.aggv) + ")"
	}
	return fmt.Sprintf("(TX %d %s %s %s %s %s %s %s)", t.pver, coqNs(t.ph), coqOptNs(t.oh), coqBs(t.refs),
		lib.CoqList(ps), coqBs(t.signers), coqIs(t.aggk), aggv)
}

func (t *txd) json() map[string]interface{} {
	var ps []string
	for _, c := range t.progs {
		ps = append(ps, hex.EncodeToString(c.bytes()))
	}
	return map[string]interface{}{"pver": t.pver, "payload_hashes": t.ph, "out_hashes": t.oh, "ref_prefixes": t.refs,
		"programs": ps, "signers": t.signers}
}

// recorded: the side-chain hashes this withdrawal carries (payload for V0, outputs for V1/V2).
func (t *txd) recorded() []int {
	var r []int
	switch t.pver {
	case 0:
		r = append(r, t.ph...)
	case 1, 2:
		for _, h := range t.oh {
			if h >= 0 {
				r = append(r, h)
			}
		}
	}
	return r
}

// psum mirrors C33_corr.psum over the real program bytes.
func psum(txs []*txd) int64 {
	a := int64(7)
	for _, t := range txs {
		for _, p := range t.tx.Programs() {
			a = (a*31 + 300 + 1) % 1000000007
			for _, b := range p.Code {
				a = (a*31 + int64(b) + 1) % 1000000007
			}
		}
	}
	return a
}

// ---------------------------------------------------------------- running the real checks

type refSetter interface {
	SetReferences(map[*common2.Input]common2.Output)
}

// withdrawCheck: 0 accept, 1 reject, 2 panic.
func withdrawCheck(t *txd, c cfg) (res int, why string) {
	p := c.params()
	panicked, val := lib.Recover(func() {
		t.tx.SetParameters(&transaction.TransactionParameters{Transaction: t.tx, BlockHeight: c.height, Config: p})
		t.tx.(refSetter).SetReferences(t.refm)
		if err := transaction.CheckTransactionCrossChainUTXOVerifC33(t.tx, t.refm, c.height, c.freeze, c.restr); err != nil {
			res, why = 1, "policy: "+err.Error()
			return
		}
		if e, _ := t.tx.SpecialContextCheck(); e != nil {
			res, why = 1, e.Error()
			return
		}
		res = 0
	})
	if panicked {
		return 2, fmt.Sprint(val)
	}
	return
}

var store blockchain.IChainStore

func dbUpdate(p database.TXProcessor) {
	if p == nil {
		return
	}
	if err := store.GetFFLDB().Update(func(dbTx database.Tx) error { return p(dbTx) }); err != nil {
		panic(err)
	}
}

func saveTx(t *txd) {
	p, e := t.tx.GetSaveProcessor()
	if e != nil {
		panic(e)
	}
	dbUpdate(p)
}

// rollbackTx returns whether the transaction had a rollback processor.
func rollbackTx(t *txd) bool {
	p, e := t.tx.GetRollbackProcessor()
	if e != nil {
		panic(e)
	}
	dbUpdate(p)
	return p != nil
}

// putHashes records hashes in the Tx3 bucket through the V0 save processor.
func putHashes(salt int, ids []int) {
	if len(ids) == 0 {
		return
	}
	t := &txd{pver: 0, ph: ids}
	t.build(salt, nil, nil)
	saveTx(t)
}

func mempoolKeys(t *txd, salt int, pool int) ([]int, bool) {
	v, err := mempool.SidechainTxHashKeysVerifC33(t.tx)
	if err != nil {
		return nil, false
	}
	arr, ok := v.([]elacommon.Uint256)
	if !ok {
		return nil, false
	}
	var r []int
	for _, h := range arr {
		id := -1
		for k := 0; k < pool; k++ {
			if hashOf(salt, k) == h {
				id = k
			}
		}
		if id < 0 {
			return nil, false
		}
		r = append(r, id)
	}
	return r, true
}

// ---------------------------------------------------------------- independent property oracle

func hexset(keys [][]byte) map[string]int {
	m := map[string]int{}
	for _, k := range keys {
		m[hex.EncodeToString(k)]++
	}
	return m
}

// quorumViolation states the property on an ACCEPTED withdrawal in plain terms;
// "" = fine.
func quorumViolation(t *txd, c cfg, a *arbiters, inStore func(int) bool) (sig, what string) {
	known := t.pver <= 2
	hasCC, allCC := false, true
	for _, p := range t.refs {
		if p == byte(contract.PrefixCrossChain) {
			hasCC = true
		} else {
			allCC = false
		}
	}
	if known && !allCC {
		return "ContextCheck:non-crosschain-input", "accepted withdrawal spends an input that is not a cross-chain UTXO"
	}
	if !known {
		if hasCC && c.height >= c.freeze {
			return "ContextCheck:unknown-version-spends-crosschain", "accepted withdrawal of unknown payload version spends a cross-chain UTXO at/after the freeze height"
		}
		if hasCC {
			return "ContextCheck:unknown-version-below-freeze", "below CrossChainUTXOFreezeHeight a WithdrawFromSideChain transaction with a payload version other than 0/1/2 spends a cross-chain UTXO without any arbiter check"
		}
		return "", ""
	}
	for _, h := range t.recorded() {
		if inStore(h) {
			return "ContextCheck:recorded-hash", "accepted withdrawal carries a side-chain transaction hash already recorded in the Tx3 index"
		}
	}
	var normalCC [][]byte
	for _, x := range a.cc {
		if x.normal {
			normalCC = append(normalCC, keyBytes(x.id))
		}
	}
	switch t.pver {
	case 0, 1:
		for _, pc := range t.progs {
			b := pc.bytes()
			if len(b) < 71 || (len(b)-3)%34 != 0 {
				return "ContextCheck:malformed-script", "accepted withdrawal with a malformed cross-chain script"
			}
			m := int(b[0]) - 0x51 + 1
			n := int(b[len(b)-2]) - 0x51 + 1
			var ks [][]byte
			for i := 1; i+34 <= len(b)-2; i += 34 {
				ks = append(ks, b[i+1:i+34])
			}
			want, got := hexset(normalCC), hexset(ks)
			same := len(want) == len(got) && len(ks) == len(normalCC)
			for k, v := range want {
				if v != 1 || got[k] != 1 {
					same = false
				}
			}
			if !same {
				return "ContextCheck:key-set", "accepted withdrawal whose script keys are not exactly the normal cross-chain arbiters"
			}
			if t.pver == 1 || c.height >= c.crClaim {
				sel := a.crc
				min := int64(c.agreement)
				if c.newRule() {
					sel = a.ar
					min = int64(uint32(uint32(c.normalCount) + 1))
				}
				cnt := 0
				for _, x := range sel {
					if x.normal {
						cnt++
					}
				}
				if int64(m) < min || n != cnt {
					return "ContextCheck:quorum", "accepted withdrawal with m below the required minimum or n different from the arbiter count"
				}
			} else if !(m >= 1 && m <= n && n == a.ccCount && m > a.ccM) {
				return "ContextCheck:quorum", "accepted legacy withdrawal without m > majority of n = arbiter count"
			}
		}
	case 2:
		if len(t.signers) < c.threshold() {
			return "ContextCheck:quorum", "accepted Schnorr withdrawal with fewer signers than the threshold"
		}
		seen := map[byte]bool{}
		for _, i := range t.signers {
			if int(i) >= len(a.cc) {
				return "ContextCheck:signer-index-range", "accepted Schnorr withdrawal with a signer index naming no arbiter"
			}
			if c.height >= c.restr && seen[i] {
				return "ContextCheck:signer-index-repeated", "accepted Schnorr withdrawal with a repeated signer index at/after the restriction height"
			}
			seen[i] = true
		}
	}
	return "", ""
}

// ---------------------------------------------------------------- generators

var heights = []uint32{0, 1, 50, 99, 100, 101, 200, maxU32 - 1, maxU32}

func pickH(r *lib.Rng) uint32 { return heights[r.Intn(len(heights))] }

func validScript(cc []arb, m int, r *lib.Rng) code {
	var ks [][2]int
	for _, a := range cc {
		if a.normal {
			ks = append(ks, [2]int{33, a.id})
		}
	}
	if r != nil && r.Chance(50) { // order is irrelevant to the check
		for i := len(ks) - 1; i > 0; i-- {
			j := r.Intn(i + 1)
			ks[i], ks[j] = ks[j], ks[i]
		}
	}
	return code{struc: true, mb: byte(0x51 + m - 1), ks: ks, nb: byte(0x51 + len(ks) - 1), lb: 0xAF}
}

func genArbs(r *lib.Rng) (ar, crc, cc []arb) {
	cc = twelve()
	if r.Chance(25) { // main-net sized and larger sets: signer indexes beyond 12, 31/32, 63/64, up to 255
		cc = nArbs(int(r.PickI64(13, 24, 31, 32, 33, 35, 36, 37, 40, 64, 65, 128, 200, 255, 256)))
		ar = append([]arb{}, cc...)
		crc = append([]arb{}, cc...)
		return
	}
	switch r.Intn(8) {
	case 0: // one non-normal cross-chain arbiter
		cc[r.Intn(12)].normal = false
	case 1: // fewer arbiters
		cc = cc[:r.Range(1, 11)]
	case 2: // a duplicated key
		cc[r.Intn(12)].id = cc[r.Intn(12)].id
	case 3: // rotated
		k := r.Intn(12)
		cc = append(cc[k:], cc[:k]...)
	}
	ar = append([]arb{}, cc...)
	crc = append([]arb{}, cc...)
	switch r.Intn(6) {
	case 0:
		ar = ar[:r.Intn(len(ar)+1)]
	case 1:
		crc = crc[:r.Intn(len(crc)+1)]
	case 2:
		if len(crc) > 0 {
			crc[r.Intn(len(crc))].normal = false
		}
	case 3:
		ar = append(ar, arb{13 + r.Intn(12), true})
	}
	return
}

func countNormal(l []arb) int {
	n := 0
	for _, a := range l {
		if a.normal {
			n++
		}
	}
	return n
}

func genCfg(r *lib.Rng) cfg {
	c := cfg{height: pickH(r), schnorr: maxU32, crClaim: pickH(r), dposCC: pickH(r), freeze: pickH(r), restr: pickH(r),
		agreement: uint32(r.PickU64(0, 1, 8, 9, 12, 13)), member: uint32(r.PickU64(0, 1, 3, 4, 12, 13, 36))}
	c.normalCount = int(r.PickI64(-1, 0, 7, 8, 11, 12, 4294967295, 4294967296+7))
	if r.Chance(15) {
		c.schnorr = pickH(r)
	}
	if r.Chance(50) { // the common deployment: freeze <= restriction
		if c.freeze > c.restr {
			c.freeze, c.restr = c.restr, c.freeze
		}
	}
	return c
}

func mutateCode(c code, r *lib.Rng) code {
	switch r.Intn(10) {
	case 0:
		c.mb--
	case 1:
		c.mb = byte(r.U64())
	case 2:
		c.nb += byte(r.Range(1, 3)) - 2
	case 3:
		if len(c.ks) > 0 {
			c.ks[r.Intn(len(c.ks))][1] = r.Range(13, 24)
		}
	case 4:
		if len(c.ks) > 0 {
			c.ks[r.Intn(len(c.ks))][1] = 100 + r.Intn(100)
		}
	case 5:
		if len(c.ks) > 1 {
			c.ks = c.ks[1:]
		}
	case 6:
		c.ks = append(c.ks, [2]int{33, r.Range(1, 24)})
	case 7:
		c.lb = byte(r.PickU64(0xAE, 0xAC, 0))
	case 8:
		if len(c.ks) > 0 {
			c.ks[r.Intn(len(c.ks))][0] = int(byte(r.U64())) // the push byte is not looked at
		}
	default:
		b := c.bytes()
		switch r.Intn(3) {
		case 0:
			b = b[:r.Intn(len(b)+1)]
		case 1:
			b = append(b[:1:1], b[2:]...)
		default:
			b = r.Bytes(r.Intn(90))
		}
		return code{raw: b}
	}
	return c
}

func genSigners(r *lib.Rng, n, ncc int, distinct bool) []byte {
	var s []byte
	if distinct && ncc > 0 {
		perm := make([]int, ncc)
		for i := range perm {
			perm[i] = i
		}
		for i := ncc - 1; i > 0; i-- {
			j := r.Intn(i + 1)
			perm[i], perm[j] = perm[j], perm[i]
		}
		for i := 0; i < n && i < ncc; i++ {
			s = append(s, byte(perm[i]))
		}
		return s
	}
	for i := 0; i < n; i++ {
		switch r.Intn(10) {
		case 0:
			s = append(s, byte(ncc))
		case 1:
			s = append(s, byte(r.PickU64(255, 128, 13, 12)))
		default:
			s = append(s, byte(r.Intn(ncc+1)))
		}
	}
	return s
}

// genTx makes a mostly-valid withdrawal for (c, arbiters) and then applies 0..2 mutations.
func genTx(r *lib.Rng, c cfg, a *arbiters, pool int) *txd {
	t := &txd{}
	switch r.Intn(10) {
	case 0, 1, 2:
		t.pver = 0
	case 3, 4, 5:
		t.pver = 1
	case 6, 7, 8:
		t.pver = 2
	default:
		t.pver = byte(r.PickU64(3, 4, 255))
	}
	for i := 0; i < r.Range(1, 2); i++ {
		t.refs = append(t.refs, byte(contract.PrefixCrossChain))
	}
	nh := r.Range(1, 3)
	for i := 0; i < nh; i++ {
		h := r.Intn(pool)
		if t.pver == 0 || (t.pver > 2 && r.Bool()) {
			dup := false
			for _, x := range t.ph {
				dup = dup || x == h
			}
			if !dup {
				t.ph = append(t.ph, h)
			}
		} else {
			t.oh = append(t.oh, h)
		}
	}
	if r.Chance(5) {
		t.oh = append(t.oh, -1)
	}
	ncc := len(a.cc)
	if t.pver == 2 {
		n := c.threshold() + r.Intn(3)
		if n > 40 {
			n = 40
		}
		t.signers = genSigners(r, n, ncc, true)
		var ks [][]byte
		for _, i := range t.signers {
			ks = append(ks, keyBytes(a.cc[i].id))
		}
		if sc := schnorrScript(ks); sc != nil {
			t.progs = []code{{raw: sc}}
		}
	} else {
		m := 9
		if t.pver == 1 || c.height >= c.crClaim {
			if c.newRule() {
				m = int(uint32(uint32(c.normalCount) + 1))
			} else {
				m = int(c.agreement)
			}
			if m > 16 || m < 1 {
				m = 12
			}
		} else {
			m = a.ccM + 1
		}
		t.progs = []code{validScript(a.cc, m, r)}
		if r.Chance(15) {
			t.progs = append(t.progs, validScript(a.cc, m, r))
		}
	}
	// mutations
	for k := r.PickI64(0, 0, 1, 1, 1, 2); k > 0; k-- {
		switch r.Intn(9) {
		case 0:
			if len(t.refs) > 0 {
				t.refs[r.Intn(len(t.refs))] = byte(r.PickU64(0x21, 0x12, 0x1f, 0x67, 0))
			}
		case 1:
			t.refs = append(t.refs, byte(r.PickU64(0x21, 0x4b)))
		case 2:
			t.refs = nil
		case 3, 4:
			if len(t.progs) > 0 {
				i := r.Intn(len(t.progs))
				if t.pver == 2 {
					switch r.Intn(3) {
					case 0:
						t.progs[i] = code{raw: schnorrScript([][]byte{keyBytes(r.Range(1, 24))})}
					case 1:
						b := append([]byte{}, t.progs[i].bytes()...)
						b[r.Intn(len(b))] ^= byte(1 << uint(r.Intn(8)))
						t.progs[i] = code{raw: b}
					default:
						t.progs[i] = validScript(a.cc, 9, r)
					}
				} else {
					t.progs[i] = mutateCode(t.progs[i], r)
				}
			}
		case 5:
			if t.pver == 2 {
				switch r.Intn(4) {
				case 0:
					if len(t.signers) > 1 {
						t.signers[r.Intn(len(t.signers))] = t.signers[r.Intn(len(t.signers))]
					}
				case 1:
					if len(t.signers) > 0 {
						t.signers[r.Intn(len(t.signers))] = byte(r.PickU64(uint64(ncc), 255, 12, 13))
					}
				case 2:
					if len(t.signers) > 0 {
						t.signers = t.signers[1:]
					}
				default:
					t.signers = genSigners(r, r.Intn(14), ncc, false)
				}
			} else {
				t.progs = nil
			}
		case 6:
			t.progs = append(t.progs, code{raw: r.Bytes(35)})
		case 7:
			t.signers = genSigners(r, r.Intn(6), ncc, false)
		default:
			t.pver = byte(r.PickU64(0, 1, 2, 3))
		}
	}
	return t
}

// ---------------------------------------------------------------- full ContextCheck replay

// fullReplay drives the complete DefaultChecker.ContextCheck (references from a
// real chain, fee, double spend, real signatures) for signed V1 and V2
// withdrawals: a fresh hash must pass, the block is saved through the real
// ChainStore.SaveBlock, and a second, equally well signed withdrawal of the
// same side-chain hash must be rejected.  This is the replay of the defect
// repaired by /repo 91cefb7c (V2 accepted the repeat).
func fullReplay(st *lib.Stats, run *lib.Run, mock *arbiters) {
	params := &config.DefaultParams
	params.GenesisBlock = core.GenesisBlock(*params.FoundationProgramHash)
	ckp := checkpoint.NewManager(params)
	ckp.SetDataPath(filepath.Join(run.Out, "checkpoints"))
	chain, err := blockchain.New(store, params, state.NewState(params, nil, nil, nil, nil, nil, nil, nil, nil, nil, nil, nil),
		crstate.NewCommittee(params, ckp), ckp)
	if err != nil {
		panic(err)
	}
	if err := chain.Init(nil); err != nil {
		panic(err)
	}
	tw := twelve()
	mock.ar, mock.crc, mock.cc, mock.ccCount, mock.ccM = tw, tw, tw, 12, 8
	blockchain.DefaultLedger.Blockchain = chain
	chain.GetState().ConsensusAlgorithm = state.DPOS

	var bank elacommon.Uint168
	bank[0] = byte(contract.PrefixCrossChain)
	bank[20] = 1
	bankAddr, _ := bank.ToAddress()
	payerHash := *params.FoundationProgramHash
	tip := chain.BestChain
	saveBlock := func(txs ...interfaces.Transaction) {
		b := &types.Block{Header: common2.Header{Height: chain.GetDB().GetHeight() + 1, Previous: *tip.Hash}, Transactions: txs}
		h := b.Hash()
		n := blockchain.NewBlockNode(&b.Header, &h)
		n.InMainChain = true
		n.Parent = tip
		if err := chain.GetDB().SaveBlock(b, n, nil, blockchain.CalcPastMedianTime(n)); err != nil {
			panic(err)
		}
		tip = n
	}
	const reserve = elacommon.Fixed64(100000)
	nDeposits := 6
	payer := transaction.CreateTransaction(common2.TxVersion09, common2.TransferAsset, 0, &payload.TransferAsset{}, nil, nil,
		[]*common2.Output{{AssetID: core.ELAAssetID, Value: reserve * 10, ProgramHash: payerHash, Type: common2.OTNone, Payload: &outputpayload.DefaultOutput{}}}, 0, nil)
	saveBlock(payer)
	var douts []*common2.Output
	for i := 0; i < nDeposits; i++ {
		douts = append(douts, &common2.Output{AssetID: core.ELAAssetID, Value: reserve, ProgramHash: bank, Type: common2.OTCrossChain,
			Payload: &outputpayload.CrossChainOutput{Version: outputpayload.CrossChainOutputVersion, TargetAddress: bankAddr, TargetAmount: reserve}})
	}
	deposit := transaction.CreateTransaction(common2.TxVersion09, common2.TransferCrossChainAsset, payload.TransferCrossChainVersionV1,
		&payload.TransferCrossChainAsset{}, nil, []*common2.Input{{Previous: common2.OutPoint{TxID: payer.Hash()}}}, douts, 0, nil)
	saveBlock(deposit)

	cp := *params
	cp.CrossChainUTXOFreezeHeight = 0
	cp.CrossChainUTXORestrictionHeight = 3
	cp.DPoSConfiguration.DPOSNodeCrossChainHeight = maxU32
	cp.CRConfiguration.CRAgreementCount = 8
	cp.CRConfiguration.MemberCount = 12
	cp.SchnorrStartHeight = maxU32

	next := 0
	mkWithdraw := func(pver byte, sideHash elacommon.Uint256, signerIdx []int) interfaces.Transaction {
		in := &common2.Input{Previous: common2.OutPoint{TxID: deposit.Hash(), Index: uint16(next)}}
		next++
		nonce := common2.NewAttribute(common2.Nonce, []byte(fmt.Sprintf("c33-full-%d", next)))
		out := &common2.Output{AssetID: core.ELAAssetID, Value: reserve - 1000, ProgramHash: payerHash, Type: common2.OTWithdrawFromSideChain,
			Payload: &outputpayload.Withdraw{Version: outputpayload.WithdrawOutputVersion, GenesisBlockAddress: bankAddr, SideChainTransactionHash: sideHash, TargetData: []byte("c33")}}
		pl := &payload.WithdrawFromSideChain{}
		var prog *program.Program
		if pver == 2 {
			var ks [][]byte
			for _, i := range signerIdx {
				pl.Signers = append(pl.Signers, byte(i))
				ks = append(ks, pubKeys[i])
			}
			prog = &program.Program{Code: schnorrScript(ks)}
		} else {
			var pks []*crypto.PublicKey
			for _, k := range pubKeys[:12] {
				pk, err := crypto.DecodePoint(k)
				if err != nil {
					panic(err)
				}
				pks = append(pks, pk)
			}
			code, err := contract.CreateMultiSigRedeemScript(8, pks)
			if err != nil {
				panic(err)
			}
			code[len(code)-1] = elacommon.CROSSCHAIN
			prog = &program.Program{Code: code}
		}
		tx := transaction.CreateTransaction(common2.TxVersion09, common2.WithdrawFromSideChain, pver, pl,
			[]*common2.Attribute{&nonce}, []*common2.Input{in}, []*common2.Output{out}, 0, []*program.Program{prog})
		buf := new(bytes.Buffer)
		tx.SerializeUnsigned(buf)
		if pver == 2 {
			var ds []*big.Int
			for _, i := range signerIdx {
				ds = append(ds, new(big.Int).SetBytes(privKeys[i]))
			}
			sig, err := crypto.AggregateSignatures(ds, elacommon.Sha256D(buf.Bytes()))
			if err != nil {
				panic(err)
			}
			prog.Parameter = sig[:]
		} else {
			for i := 0; i < 8; i++ {
				sg, err := crypto.Sign(privKeys[i], buf.Bytes())
				if err != nil {
					panic(err)
				}
				prog.Parameter, _ = crypto.AppendSignature(i, sg, buf.Bytes(), prog.Code, prog.Parameter)
			}
		}
		return tx
	}
	ctxCheck := func(tx interfaces.Transaction) (bool, string) {
		var e error
		ok := false
		panicked, val := lib.Recover(func() {
			_, ce := tx.ContextCheck(&transaction.TransactionParameters{Transaction: tx, BlockHeight: chain.GetDB().GetHeight() + 1,
				TimeStamp: 0, Config: &cp, BlockChain: chain})
			if ce == nil {
				ok = true
			} else {
				e = ce
			}
		})
		if panicked {
			return false, fmt.Sprint("panic: ", val)
		}
		if ok {
			return true, ""
		}
		return false, e.Error()
	}
	for _, pver := range []byte{1, 2} {
		var side elacommon.Uint256
		side[0], side[1] = 0xc3, pver
		signers := []int{0, 1, 2, 3, 4, 5, 6, 7, 8}
		first := mkWithdraw(pver, side, signers)
		ok1, why1 := ctxCheck(first)
		st.Count(fmt.Sprintf("full:v%d:first:%v", pver, ok1), ok1, "full-contextcheck")
		if !ok1 {
			st.Fail("full:first-rejected", fmt.Sprintf("a correctly signed V%d withdrawal of a fresh side-chain hash is rejected by ContextCheck: %s", pver, why1), nil)
			continue
		}
		saveBlock(first)
		if !store.IsSidechainTxHashDuplicate(side) {
			st.Fail("full:not-recorded", "SaveBlock did not record the side-chain hash in the Tx3 index", nil)
		}
		second := mkWithdraw(pver, side, []int{3, 4, 5, 6, 7, 8, 9, 10, 11})
		ok2, why2 := ctxCheck(second)
		st.Count(fmt.Sprintf("full:v%d:second:%v", pver, ok2), true, "full-contextcheck")
		st.Extra[fmt.Sprintf("full_v%d_repeat", pver)] = map[string]interface{}{"accepted": ok2, "why": why2}
		if ok2 {
			st.Fail("ContextCheck:recorded-hash", fmt.Sprintf("full ContextCheck accepted a second, correctly signed V%d withdrawal of a side-chain hash already recorded by a saved block", pver),
				map[string]interface{}{"payload_version": pver, "side_chain_hash": side.String(), "first_tx": first.Hash().String(), "second_tx": second.Hash().String()})
		}
		// control: a fresh hash is still accepted after the repeat was refused
		side[2] = 1
		ok3, why3 := ctxCheck(mkWithdraw(pver, side, signers))
		st.Count(fmt.Sprintf("full:v%d:third:%v", pver, ok3), ok3, "full-contextcheck")
		if !ok3 {
			st.Fail("full:fresh-rejected", fmt.Sprintf("a correctly signed V%d withdrawal of another fresh hash is rejected: %s", pver, why3), nil)
		}
	}
}

func outName(o int) string { return []string{"accept", "reject", "panic"}[o] }

// ---------------------------------------------------------------- main

// seedMix decorrelates seeds: lib.NewRng(seed) is SplitMix64 started at seed*gamma,
// so consecutive seeds give the same stream shifted by one draw.
func seedMix(seed uint64) uint64 {
	h := sha256.Sum256([]byte(fmt.Sprintf("verif-seed-%d", seed)))
	var x uint64
	for i := 0; i < 8; i++ {
		x = x<<8 | uint64(h[i])
	}
	return x
}

func main() {
	run := lib.ParseArgs()
	elaenv.InitLog(run.Out)
	rng := lib.NewRng(seedMix(run.Seed))
	functions.GetTransactionByTxType = transaction.GetTransaction
	functions.GetTransactionByBytes = transaction.GetTransactionByBytes
	functions.CreateTransaction = transaction.CreateTransaction
	functions.GetTransactionParameters = transaction.GetTransactionparameters
	config.DefaultParams = *config.GetDefaultParams()
	initKeys()

	st := lib.NewStats("C33", "WithdrawFromSideChain checks (cross-chain UTXO policy + SpecialContextCheck) on the real transaction objects with a controlled arbiter set (12 to 256 arbiters over 64 fixed P-256 keys, normal flags, distinct GetArbitrators/GetCRCArbiters/GetCrossChainArbiters lists) and a real ffldb chain store: mostly-valid V0/V1/V2 withdrawals with 0-2 mutations (m/n/key set/last byte/truncation of the script, input prefixes, signer lists with duplicates and out-of-range indexes, payload versions 3/4/255), all nine height parameters from a boundary set, store contents; exhaustive signer lists of length <= 3 over boundary index sets for 12, 36 and 256 arbiters ({0..12,255}, {0,1,31,32,33,35,36,255}, {0,31,32,63,64,65,127,128,254,255}) on both sides of the restriction height; histories of save/rollback/check/probe/CheckDuplicateTx/mempool-key steps (<= 30) block histories repeating a side-chain hash, and block histories with mixed payload versions whose payload hashes and output hashes overlap (connect / disconnect / re-withdraw). nontrivial = accepted withdrawal, or a rejection caused by the store/arbiter set (not by a malformed script); distinct by canonical case text")
	sh := &lib.Shards{Dir: run.Out, Imports: "From ELA Require Import model.C33_Withdraw corr.C33_corr.", CaseType: "C33_corr.case",
		Mismatch: "C33_corr.mismatches", Scope: "Z", PerShard: 150}
	id := 0
	next := func() int { id++; return id }

	dir := filepath.Join(run.Out, "store")
	os.RemoveAll(dir)
	var err error
	store, err = blockchain.NewChainStore(dir, config.GetDefaultParams())
	if err != nil {
		panic(err)
	}
	defer store.Close()
	mock := &arbiters{ArbitratorsMock: &state.ArbitratorsMock{}}
	blockchain.DefaultLedger = &blockchain.Ledger{Arbitrators: mock, Store: store}
	setArbs := func(ar, crc, cc []arb, ccCount, ccM int) {
		mock.ar, mock.crc, mock.cc, mock.ccCount, mock.ccM = ar, crc, cc, ccCount, ccM
	}
	putHashes(0, []int{0}) // creates the Tx3 bucket

	// ---- key table
	{
		var rows []string
		for _, k := range pubKeys {
			rows = append(rows, lib.CoqBytes(k))
		}
		i := next()
		sh.Add(fmt.Sprintf("CKeyTab %d %s", i, lib.CoqList(rows)))
		st.LogCase(run.Out, i, map[string]interface{}{"op": "keytab"})
		st.Count("keytab", true, "keytab")
	}

	const pool = 6
	inStoreReal := func(salt int) func(int) bool {
		return func(h int) bool { return store.IsSidechainTxHashDuplicate(hashOf(salt, h)) }
	}

	// one CCheck case
	doCheck := func(kind string, c cfg, ar, crc, cc []arb, ccCount, ccM int, stored []int, t *txd, r *lib.Rng) int {
		i := next()
		setArbs(ar, crc, cc, ccCount, ccM)
		putHashes(i, stored)
		t.build(i, cc, r)
		out, why := withdrawCheck(t, c)
		sh.Add(fmt.Sprintf("CCheck %d %s %s %s %s %d %d %s %s %d %d", i, c.coq(), coqArbsOpt(ar, cc), coqArbsOpt(crc, cc), coqArbs(cc),
			ccCount, ccM, coqNs(stored), t.coq(), psum([]*txd{t}), out))
		js := map[string]interface{}{"op": kind, "cfg": c.coq(), "arbs": coqArbs(ar), "crc": coqArbs(crc), "cc": coqArbs(cc),
			"ccCount": ccCount, "ccMajority": ccM, "stored": stored, "tx": t.json(), "out": outName(out), "why": why}
		st.LogCase(run.Out, i, js)
		nontrivial := out == 0 || strings.Contains(why, "Duplicate") || strings.Contains(why, "arbit") || strings.Contains(why, "signer") || strings.Contains(why, "Signers")
		st.Count(fmt.Sprintf("%s|%s|%s|%s|%v|%s|%d", c.coq(), coqArbs(ar), coqArbs(crc), coqArbs(cc), stored, t.coq(), out), nontrivial, kind+":"+outName(out))
		if out == 2 {
			st.Fail("ContextCheck:panic", "withdraw check panicked: "+why, js)
		}
		if out == 0 {
			if sig, what := quorumViolation(t, c, mock, inStoreReal(i)); sig != "" {
				st.Fail(sig, what, js)
			}
		}
		if i%97 == 0 {
			st.Sample(js)
		}
		return out
	}

	base := cfg{height: 200, schnorr: maxU32, crClaim: 0, dposCC: maxU32, freeze: 0, restr: 100, normalCount: 8, agreement: 8, member: 12}
	nine := []byte{0, 1, 2, 3, 4, 5, 6, 7, 8}
	v2tx := func(signers []byte, oh []int) *txd {
		var ks [][]byte
		for _, i := range signers {
			ks = append(ks, keyBytes(int(i)+1))
		}
		return &txd{pver: 2, oh: oh, refs: []byte{0x4b}, signers: signers, progs: []code{{raw: schnorrScript(ks)}}}
	}

	// ---- corpus: the replayed V2 witness (hash already recorded) and controls
	{
		tw := twelve()
		// fresh hash: accepted
		if doCheck("corpus", base, tw, tw, tw, 12, 8, nil, v2tx(nine, []int{1}), nil) != 0 {
			st.Fail("corpus:v2-fresh", "valid V2 withdrawal with a fresh hash is not accepted", nil)
		}
		// the witness: V2, hash 1 recorded. Before /repo 91cefb7c this was accepted.
		doCheck("corpus", base, tw, tw, tw, 12, 8, []int{1}, v2tx([]byte{1, 2, 3, 4, 5, 6, 7, 8, 9}, []int{1}), nil)
		doCheck("corpus", base, tw, tw, tw, 12, 8, []int{1}, &txd{pver: 1, oh: []int{1}, refs: []byte{0x4b}, progs: []code{validScript(tw, 8, nil)}}, nil)
		doCheck("corpus", base, tw, tw, tw, 12, 8, nil, &txd{pver: 1, oh: []int{1}, refs: []byte{0x4b}, progs: []code{validScript(tw, 8, nil)}}, nil)
		doCheck("corpus", base, tw, tw, tw, 12, 8, []int{2}, &txd{pver: 0, ph: []int{1, 2}, refs: []byte{0x4b}, progs: []code{validScript(tw, 8, nil)}}, nil)
		doCheck("corpus", base, tw, tw, tw, 12, 8, nil, &txd{pver: 0, ph: []int{1, 2}, refs: []byte{0x4b}, progs: []code{validScript(tw, 8, nil)}}, nil)
		// duplicate / out-of-range signer on both sides of the restriction height
		for _, h := range []uint32{99, 100} {
			c := base
			c.height, c.freeze = h, 100
			doCheck("corpus", c, tw, tw, tw, 12, 8, nil, v2tx([]byte{0, 0, 1, 2, 3, 4, 5, 6, 7}, []int{1}), nil)
			d := v2tx(nine, []int{1})
			d.signers = []byte{0, 1, 2, 3, 4, 5, 6, 7, 12}
			doCheck("corpus", c, tw, tw, tw, 12, 8, nil, d, nil)
			d2 := v2tx(nine, []int{1})
			d2.signers = []byte{0, 1, 2, 3, 4, 5, 6, 7, 255}
			doCheck("corpus", c, tw, tw, tw, 12, 8, nil, d2, nil)
		}
		// m and n exactly at / one off the required values, both rules, V0 and V1
		for _, pv := range []byte{0, 1} {
			for _, rule := range []uint32{maxU32, 0} { // DPOSNodeCrossChainHeight: old rule (CRAgreementCount) / new rule (NormalArbitratorsCount+1)
				c := base
				c.dposCC = rule
				for _, dm := range []int{-1, 0, 1} {
					for _, dn := range []int{-1, 0, 1} {
						sc := validScript(tw, 8+dm, nil) // CRAgreementCount = 8, NormalArbitratorsCount+1 = 9
						if rule == 0 {
							sc = validScript(tw, 9+dm, nil)
						}
						sc.nb = byte(int(sc.nb) + dn)
						t := &txd{pver: pv, refs: []byte{0x4b}, progs: []code{sc}}
						if pv == 0 {
							t.ph = []int{1}
						} else {
							t.oh = []int{1}
						}
						doCheck("corpus", c, tw, tw, tw, 12, 8, nil, t, nil)
					}
				}
			}
		}
		// quorum of DISTINCT arbiters with main-net sized and larger sets: one index
		// repeated up to the threshold, a duplicate far apart, every region of uint8
		for _, n := range []int{33, 36, 40, 64, 255, 256} {
			cc := nArbs(n)
			for _, h := range []uint32{99, 100, 101} {
				c := base
				c.height, c.member, c.freeze = h, uint32(n), 100
				if n > 200 {
					c.member = 36
				}
				thr := c.threshold()
				for _, idx := range []int{0, 31, 32, 33, n / 2, n - 2, n - 1} {
					if idx >= n || idx < 0 {
						continue
					}
					var alone []byte
					for j := 0; j < thr; j++ {
						alone = append(alone, byte(idx))
					}
					t := &txd{pver: 2, oh: []int{1}, refs: []byte{0x4b}, signers: alone}
					t.build(0, cc, nil)
					t.progs = []code{{raw: t.aggv}}
					doCheck("corpus", c, cc, cc, cc, n, 8, nil, t, nil)
					// distinct signers, then the last one repeats idx
					var far []byte
					far = append(far, byte(idx))
					for j := 0; len(far) < thr; j++ {
						if j != idx {
							far = append(far, byte(j))
						}
					}
					far[len(far)-1] = byte(idx)
					t2 := &txd{pver: 2, oh: []int{1}, refs: []byte{0x4b}, signers: far}
					t2.build(0, cc, nil)
					t2.progs = []code{{raw: t2.aggv}}
					doCheck("corpus", c, cc, cc, cc, n, 8, nil, t2, nil)
				}
				// control: distinct signers are accepted
				var ok []byte
				for j := 0; j < thr; j++ {
					ok = append(ok, byte(n-1-j))
				}
				t3 := &txd{pver: 2, oh: []int{1}, refs: []byte{0x4b}, signers: ok}
				t3.build(0, cc, nil)
				t3.progs = []code{{raw: t3.aggv}}
				if doCheck("corpus", c, cc, cc, cc, n, 8, nil, t3, nil) != 0 {
					st.Fail("corpus:v2-large-set", "valid V2 withdrawal with distinct signers of a large arbiter set is not accepted", nil)
				}
			}
		}
		// input prefix mixes for every payload version on both sides of the freeze /
		// restriction heights (otherwise valid withdrawals)
		for _, pv := range []byte{0, 1, 2} {
			for _, hf := range [][3]uint32{{99, 100, 100}, {100, 100, 100}, {200, 0, 100}, {200, 300, 300}, {5000, 50, 100}} {
				for _, refs := range [][]byte{{0x4b}, {0x21}, {0x4b, 0x21}, {0x21, 0x4b}, {0x4b, 0x4b, 0x12}, {0x1f}, {}} {
					c := base
					c.height, c.freeze, c.restr = hf[0], hf[1], hf[2]
					var t *txd
					if pv == 2 {
						t = v2tx(nine, []int{1})
					} else {
						t = &txd{pver: pv, progs: []code{validScript(tw, 8, nil)}}
						if pv == 0 {
							t.ph = []int{1}
						} else {
							t.oh = []int{1}
						}
					}
					t.refs = append([]byte{}, refs...)
					doCheck("corpus", c, tw, tw, tw, 12, 8, nil, t, nil)
				}
			}
		}
		// unknown payload version with and without cross-chain inputs around the freeze height
		for _, h := range []uint32{49, 50, 99, 100} {
			c := base
			c.height, c.freeze, c.restr = h, 50, 100
			doCheck("corpus", c, tw, tw, tw, 12, 8, nil, &txd{pver: 3, oh: []int{1}, refs: []byte{0x4b}}, nil)
			doCheck("corpus", c, tw, tw, tw, 12, 8, nil, &txd{pver: 3, oh: []int{1}, refs: []byte{0x21}}, nil)
			doCheck("corpus", c, tw, tw, tw, 12, 8, nil, v2tx(nine, []int{1}), nil)
		}
	}

	// ---- generated single checks
	for k := 0; k < run.N(1000, 20000); k++ {
		r := rng.Fork()
		c := genCfg(r)
		if r.Chance(60) { // a deployment-like configuration so that the accept path is common
			c = base
			c.height = uint32(r.PickU64(1, 99, 100, 101, 200))
			c.crClaim = uint32(r.PickU64(0, 100, 101, maxU32))
			c.dposCC = uint32(r.PickU64(0, 100, 101, maxU32))
			c.normalCount = int(r.PickI64(7, 8, 11))
			c.agreement = uint32(r.PickU64(8, 9, 12))
			c.member = uint32(r.PickU64(12, 3, 1))
		}
		ar, crc, cc := genArbs(r)
		ccCount, ccM := len(cc), int(r.PickI64(8, 7, 0, 11))
		if r.Chance(10) {
			ccCount = r.Intn(14)
		}
		setArbs(ar, crc, cc, ccCount, ccM)
		t := genTx(r, c, mock, pool)
		var stored []int
		if r.Chance(40) {
			for _, h := range append(append([]int{}, t.ph...), t.oh...) {
				if h >= 0 && r.Chance(50) {
					stored = append(stored, h)
				}
			}
			if r.Chance(30) {
				stored = append(stored, pool+1)
			}
		}
		doCheck("gen", c, ar, crc, cc, ccCount, ccM, stored, t, r)
	}

	// ---- exhaustive signer lists of length <= 3, for several arbiter-set sizes
	{
		type sweepCfg struct {
			n   int
			dom []int
		}
		sweeps := []sweepCfg{
			{12, []int{0, 1, 2, 3, 4, 5, 6, 7, 8, 9, 10, 11, 12, 255}},
			{36, []int{0, 1, 31, 32, 33, 35, 36, 255}},              // main-net size: indexes around 32 and the end
			{256, []int{0, 31, 32, 63, 64, 65, 127, 128, 254, 255}}, // every uint8 is in range
		}
		mcs := []uint32{3}
		if run.Thorough() {
			mcs = []uint32{0, 1, 3, 4, 5}
			sweeps = append(sweeps, sweepCfg{33, []int{0, 30, 31, 32, 33, 34}}, sweepCfg{40, []int{7, 8, 15, 16, 31, 32, 39, 40}},
				sweepCfg{65, []int{0, 32, 63, 64, 65, 128}}, sweepCfg{255, []int{0, 127, 128, 253, 254, 255}})
		}
		for _, sw := range sweeps {
			cc := nArbs(sw.n)
			setArbs(cc, cc, cc, sw.n, 8)
			dom := sw.dom
			var lists [][]byte
			lists = append(lists, []byte{})
			for _, a := range dom {
				lists = append(lists, []byte{byte(a)})
				for _, b := range dom {
					lists = append(lists, []byte{byte(a), byte(b)})
					for _, c := range dom {
						lists = append(lists, []byte{byte(a), byte(b), byte(c)})
					}
				}
			}
			for _, mc := range mcs {
				for _, h := range []uint32{99, 100} {
					baseID := id + 1
					tab := map[string][]byte{}
					var tabKeys []string
					var outs []string
					for _, sg := range lists {
						c := cfg{height: h, schnorr: maxU32, crClaim: maxU32, dposCC: maxU32, freeze: 100, restr: 100, member: mc}
						t := &txd{pver: 2, refs: []byte{0x4b}, signers: sg}
						t.build(0, mock.cc, nil)
						if t.aggv != nil {
							t.progs = []code{{raw: t.aggv}}
							t.build(0, mock.cc, nil)
							srt := append([]byte{}, sg...)
							sort.Slice(srt, func(a, b int) bool { return srt[a] < srt[b] })
							k := coqBs(srt)
							if prev, ok := tab[k]; ok {
								if !bytes.Equal(prev, t.aggv) {
									panic("aggregate key depends on the order of the signers")
								}
							} else {
								tab[k] = t.aggv
								tabKeys = append(tabKeys, k)
							}
						}
						out, why := withdrawCheck(t, c)
						i := next()
						outs = append(outs, fmt.Sprint(out))
						js := map[string]interface{}{"op": "sweep", "arbiters": sw.n, "height": h, "member_count": mc, "signers": coqBs(sg), "out": outName(out), "why": why}
						st.LogCase(run.Out, i, js)
						st.Count(fmt.Sprintf("sw|%d|%d|%d|%v|%d", sw.n, h, mc, sg, out), true, "sweep:"+outName(out))
						if out == 2 {
							st.Fail("ContextCheck:panic", "withdraw check panicked: "+why, js)
						}
						if out == 0 {
							if sig, what := quorumViolation(t, c, mock, func(int) bool { return false }); sig != "" {
								st.Fail(sig, what, js)
							}
						}
					}
					var rows []string
					for _, k := range tabKeys {
						rows = append(rows, fmt.Sprintf("(%s,%s)", k, lib.CoqBytes(tab[k])))
					}
					sh.Add(fmt.Sprintf("CSweep %d %d %d %s %s %s %s", baseID, h, mc, coqArbs(cc), coqIs(dom), lib.CoqList(rows), lib.CoqList(outs)))
				}
			}
		}
	}

	// ---- histories
	tw := twelve()
	mkTxs := func(r *lib.Rng, n int, pool int, validOnly bool) []*txd {
		var txs []*txd
		for k := 0; k < n; k++ {
			pv := byte(r.PickU64(0, 1, 1, 2, 2, 2))
			if !validOnly && r.Chance(10) {
				pv = 3
			}
			t := &txd{pver: pv, refs: []byte{0x4b}}
			nh := r.Range(1, 2)
			for j := 0; j < nh; j++ {
				h := r.Intn(pool)
				if pv == 0 || (pv == 3 && r.Bool()) {
					dup := false
					for _, x := range t.ph {
						dup = dup || x == h
					}
					if !dup {
						t.ph = append(t.ph, h)
					}
				} else {
					t.oh = append(t.oh, h)
				}
			}
			// cross-version content: a V0 transaction may carry withdraw-typed outputs, a
			// V1/V2 transaction payload hashes (in memory); neither is looked at by its
			// own check nor owned by its save/rollback processors
			if r.Chance(35) {
				if pv == 0 {
					t.oh = append(t.oh, r.Intn(pool))
				} else if pv == 1 || pv == 2 {
					t.ph = append(t.ph, r.Intn(pool))
				}
			}
			if pv == 2 {
				t.signers = genSigners(r, 9, 12, true)
				var ks [][]byte
				for _, i := range t.signers {
					ks = append(ks, keyBytes(int(i)+1))
				}
				t.progs = []code{{raw: schnorrScript(ks)}}
				if !validOnly && r.Chance(20) { // in-memory payload hashes on a V2 tx (never on the wire)
					t.ph = append(t.ph, r.Intn(pool))
				}
			} else if pv != 3 {
				t.progs = []code{validScript(tw, 8, r)}
			}
			txs = append(txs, t)
		}
		return txs
	}
	v2rbObserved := false
	runHist := func(kind string, r *lib.Rng, wellFormed bool, mixed bool) {
		i := next()
		setArbs(tw, tw, tw, 12, 8)
		const hp = 4
		txs := mkTxs(r, r.Range(3, 6), hp, wellFormed)
		var plan [][]int // scripted prefix of the block history; an empty entry = disconnect
		if mixed {
			// T0 owns hash 0 (V1/V2 output); T1 owns hash 1 and names hash 0 in the field its
			// version does not own; T2/T3 try to withdraw hash 0 again
			sig := func(t *txd) *txd {
				if t.pver == 2 {
					t.signers = genSigners(r, 9, 12, true)
					var ks [][]byte
					for _, i := range t.signers {
						ks = append(ks, keyBytes(int(i)+1))
					}
					t.progs = []code{{raw: schnorrScript(ks)}}
				} else if t.pver != 3 {
					t.progs = []code{validScript(tw, 8, r)}
				}
				return t
			}
			t0 := sig(&txd{pver: byte(r.PickU64(1, 2)), oh: []int{0}, refs: []byte{0x4b}})
			t1 := &txd{pver: byte(r.PickU64(0, 0, 1, 2, 3)), refs: []byte{0x4b}}
			switch t1.pver {
			case 0:
				t1.ph, t1.oh = []int{1}, []int{0}
			case 3:
				t1.ph, t1.oh = []int{0}, []int{0}
			default:
				t1.ph, t1.oh = []int{0}, []int{1}
			}
			sig(t1)
			t2 := sig(&txd{pver: byte(r.PickU64(1, 2)), oh: []int{0}, refs: []byte{0x4b}})
			t3 := sig(&txd{pver: 0, ph: []int{0}, refs: []byte{0x4b}})
			txs = append([]*txd{t0, t1, t2, t3}, txs...)
			if r.Chance(70) {
				plan = [][]int{{0}, {1}, {}, {2}, {3}}
			} else {
				plan = [][]int{{1}, {0}, {}, {2}, {}, {}, {3}}
			}
		}
		for _, t := range txs {
			t.build(i, tw, r)
		}
		var steps []string
		var log []string
		check := func(k int) int {
			out, why := withdrawCheck(txs[k], base)
			steps = append(steps, fmt.Sprintf("SCheck %d %d", k, out))
			log = append(log, fmt.Sprintf("check %d=%s", k, outName(out)))
			if out == 2 {
				st.Fail("ContextCheck:panic", "withdraw check panicked: "+why, txs[k].json())
			}
			return out
		}
		probe := func(h int) {
			b := store.IsSidechainTxHashDuplicate(hashOf(i, h))
			steps = append(steps, fmt.Sprintf("SProbe %d%%N %s", h, lib.CoqBool(b)))
		}
		keys := func(k int) {
			ks, ok := mempoolKeys(txs[k], i, hp)
			if !ok {
				panic("mempool key function failed")
			}
			steps = append(steps, fmt.Sprintf("SKeys %d %s", k, coqNs(ks)))
			// oracle: the pool must key a withdrawal by every hash it will record
			have := map[int]bool{}
			for _, h := range ks {
				have[h] = true
			}
			for _, h := range txs[k].recorded() {
				if !have[h] {
					st.Fail(fmt.Sprintf("mempool:keys-miss-recorded-hash:v%d", txs[k].pver),
						"mempool conflict keys of a withdrawal do not contain a side-chain hash its save processor records", txs[k].json())
				}
			}
		}
		blockDup := func(ks []int) bool {
			b := &types.Block{}
			for _, k := range ks {
				b.Transactions = append(b.Transactions, txs[k].tx)
			}
			ok := blockchain.CheckDuplicateTx(b) == nil
			steps = append(steps, fmt.Sprintf("SBlockDup %s %s", coqIs(ks), lib.CoqBool(ok)))
			return ok
		}
		rollback := func(k int) {
			had := rollbackTx(txs[k])
			if txs[k].pver == 2 {
				v2rbObserved = had
			}
			steps = append(steps, fmt.Sprintf("SRollback %d", k))
			log = append(log, fmt.Sprintf("rollback %d", k))
		}
		save := func(k int) {
			saveTx(txs[k])
			steps = append(steps, fmt.Sprintf("SSave %d", k))
			log = append(log, fmt.Sprintf("save %d", k))
		}
		accepted := 0
		if !wellFormed {
			saved := map[int]bool{}
			for n := r.Range(5, 30); n > 0; n-- {
				k := r.Intn(len(txs))
				switch r.Intn(7) {
				case 0, 1:
					if check(k) == 0 {
						accepted++
					}
				case 2:
					save(k)
					saved[k] = true
				case 3:
					if saved[k] || r.Chance(30) {
						rollback(k)
						saved[k] = false
					}
				case 4:
					probe(r.Intn(hp))
				case 5:
					var ks []int
					for j := r.Range(1, 3); j > 0; j-- {
						ks = append(ks, r.Intn(len(txs)))
					}
					blockDup(ks)
				default:
					keys(k)
				}
			}
		} else {
			// blocks: every tx checked against the store before the block; connected only
			// if CheckDuplicateTx and all checks pass; disconnect pops the last block.
			active := map[int]int{} // hash -> number of connected withdrawals recording it
			var chain [][]int
			checkActive := func() {
				// property oracle: every hash withdrawn on the active chain is in the Tx3 index
				for h, c := range active {
					if c > 0 && !store.IsSidechainTxHashDuplicate(hashOf(i, h)) {
						st.Fail("Tx3:active-hash-not-recorded", "a side-chain hash withdrawn by a transaction on the active chain is no longer in the Tx3 index (it can be withdrawn again)",
							map[string]interface{}{"hash": h, "history": append([]string{}, log...), "txs": func() []interface{} {
								var l []interface{}
								for _, t := range txs {
									l = append(l, t.json())
								}
								return l
							}()})
					}
				}
			}
			for n := r.Range(4, 9) + len(plan); n > 0; n-- {
				var scripted []int
				isScripted := false
				if len(plan) > 0 {
					scripted, plan, isScripted = plan[0], plan[1:], true
				}
				if len(chain) > 0 && ((isScripted && len(scripted) == 0) || (!isScripted && r.Chance(30))) {
					b := chain[len(chain)-1]
					chain = chain[:len(chain)-1]
					for _, k := range b {
						rollback(k)
						for _, h := range txs[k].recorded() {
							active[h]--
						}
					}
					checkActive()
					continue
				}
				if isScripted && len(scripted) == 0 {
					continue
				}
				var blk []int
				used := map[int]bool{}
				for _, b := range chain {
					for _, k := range b {
						used[k] = true
					}
				}
				for j := r.Range(1, 2); j > 0 && !isScripted; j-- {
					k := r.Intn(len(txs))
					if !used[k] {
						blk = append(blk, k)
						used[k] = true
					}
				}
				for _, k := range scripted {
					if !used[k] {
						blk = append(blk, k)
					}
				}
				if len(blk) == 0 {
					continue
				}
				ok := blockDup(blk)
				for _, k := range blk {
					out := check(k)
					if out != 0 {
						ok = false
					} else {
						accepted++
						// property oracle: an accepted withdrawal never carries a hash withdrawn on the active chain
						for _, h := range txs[k].recorded() {
							if active[h] > 0 {
								st.Fail("ContextCheck:hash-active-on-chain", "accepted withdrawal carries a side-chain hash already withdrawn on the active chain",
									map[string]interface{}{"tx": txs[k].json(), "history": log})
							}
						}
					}
				}
				if ok {
					seenInBlock := map[int]bool{}
					for _, k := range blk {
						save(k)
						for _, h := range txs[k].recorded() {
							if seenInBlock[h] {
								st.Fail("CheckDuplicateTx:same-block-output-hash",
									"two withdrawals of one block carry the same side-chain hash in their outputs and both pass (CheckDuplicateTx only looks at payload hashes)",
									map[string]interface{}{"tx": txs[k].json(), "block": blk, "history": log})
							}
							seenInBlock[h] = true
							active[h]++
						}
					}
					chain = append(chain, blk)
				}
				checkActive()
				for h := 0; h < hp; h++ {
					probe(h)
				}
			}
		}
		var ts []string
		for _, t := range txs {
			ts = append(ts, t.coq())
		}
		sh.Add(fmt.Sprintf("CHist %d %s %s %s %d %s", i, base.coq(), lib.CoqBool(v2rbObserved), lib.CoqList(ts), psum(txs), lib.CoqList(steps)))
		var tj []interface{}
		for _, t := range txs {
			tj = append(tj, t.json())
		}
		st.LogCase(run.Out, i, map[string]interface{}{"op": kind, "txs": tj, "steps": steps})
		st.Count(strings.Join(ts, "")+strings.Join(steps, ";"), accepted > 0, kind)
	}
	// probe once whether payload version 2 has a rollback processor in this tree
	{
		t := v2tx(nine, []int{1})
		t.build(0, tw, nil)
		p, _ := t.tx.GetRollbackProcessor()
		v2rbObserved = p != nil
		st.Extra["v2_has_rollback_processor"] = v2rbObserved
	}
	for k := 0; k < run.N(100, 1500); k++ {
		runHist("hist-free", rng.Fork(), false, false)
	}
	for k := 0; k < run.N(80, 1500); k++ {
		runHist("hist-blocks", rng.Fork(), true, false)
	}
	for k := 0; k < run.N(60, 1000); k++ {
		runHist("hist-mixed-versions", rng.Fork(), true, true)
	}

	fullReplay(st, run, mock)

	st.Traces = st.Evals
	sh.Flush()
	st.Write(run.Out)
}
