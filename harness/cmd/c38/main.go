// C38 — secret key material comes from a secure random source.
//
// Translation only: runs the translator on the source tree under --repo,
// which rewrites coq/gen/C38_uses.v (call/reference graph of the key-material
// packages account, crypto, wallet, dpos/account and of cmd/wallet/account.go;
// bad nodes = everything in math/rand); props/C38.v re-proves
// C38_no_weak_random_in_key_paths against it. The same facts are searched
// here for offending paths, so that a failing theorem comes with the source
// path (the replay of this property is a path in the source).
package main

import (
	"fmt"
	"os"

	"verifharness/lib"
	"verifharness/xgraph"
)

func main() {
	run := lib.ParseArgs()
	st := lib.NewStats("C38", "every function of account, crypto, crypto/ecies, wallet, dpos/account and cmd/wallet/account.go is a source; every function reachable from them in the regenerated call graph is examined for references to math/rand (complete enumeration, nothing sampled). nontrivial = source function with a body; distinct by function name")
	facts, out, err := xgraph.Extract("c38", run.Repo, run.Out, "C38_uses.v")
	if err != nil {
		fmt.Fprintln(os.Stderr, out)
		fmt.Fprintln(os.Stderr, "C38: translator failed (fail closed):", err)
		os.Exit(3)
	}
	fmt.Print(out)
	viol := facts.BadReferences()
	for _, v := range viol {
		st.Fail("weak-random:"+v.Func+"->"+v.Bad, "key-material code reaches math/rand: "+v.Source+" ... "+v.Func+" references "+v.Bad+" at "+v.At, v)
	}
	badSet := map[int]bool{}
	for _, b := range facts.Bad {
		badSet[b] = true
	}
	for _, d := range facts.Direct {
		st.Count("direct:"+facts.Name(d), len(facts.Succ[d]) > 0, "wallet-key-command")
		for _, t := range facts.Succ[d] {
			if badSet[t] {
				at := facts.Sites[fmt.Sprintf("%d,%d", d, t)]
				st.Fail("weak-random:"+facts.Name(d)+"->"+facts.Name(t), "wallet key-management command references math/rand: "+facts.Name(d)+" references "+facts.Name(t)+" at "+at,
					map[string]interface{}{"func": facts.Name(d), "bad": facts.Name(t), "at": at})
			}
		}
	}
	for _, s := range facts.Sources {
		st.Count("src:"+facts.Name(s), len(facts.Succ[s]) > 0, "source-function")
	}
	reach := facts.ReachableFrom(facts.Sources)
	for id := range reach {
		st.Count("reach:"+facts.Name(id), false, "reachable-function")
	}
	// the anchors must reach crypto/rand (they do generate key material)
	sec := map[int]bool{}
	for _, s := range facts.Secure {
		sec[s] = true
	}
	for name, id := range facts.Anchors {
		ok := false
		for r := range facts.ReachableFrom([]int{id}) {
			if sec[r] {
				ok = true
			}
		}
		if !ok {
			st.Fail("no-secure-source:"+name, "key-generating anchor does not reach crypto/rand at all", map[string]interface{}{"anchor": name})
		}
	}
	st.Extra["graph_nodes"] = len(facts.Names)
	st.Extra["sources"] = len(facts.Sources)
	st.Extra["reachable"] = len(reach)
	st.Extra["bad_nodes"] = len(facts.Bad)
	st.Extra["violations"] = len(viol)
	st.Extra["direct_uses"] = facts.Extra["direct_uses"]
	st.Sample(map[string]interface{}{"anchors": facts.Anchors, "sources": len(facts.Sources), "reachable": len(reach)})
	st.Traces = len(facts.Sources)
	st.Write(run.Out)
}
