// C38 — secret key material comes from a secure random source.
//
// Translation only: runs the translator on the source tree under --repo,
// which rewrites coq/gen/C38_uses.v (call/reference graph of the key-material
// packages account, crypto, wallet, dpos/account and of cmd/wallet/account.go;
// bad nodes = everything in math/rand); props/C38.v re-proves
// C38_no_weak_random_in_key_paths against it. The same facts are searched
// here for offending paths, so that a failing theorem comes with the source
// path (the replay of this property is a path in the source).
package main

import (
	"bytes"
	crand "crypto/rand"
	"errors"
	"fmt"
	"io"
	"math/big"
	"os"
	"path/filepath"
	"time"

	"github.com/elastos/Elastos.ELA/account"
	"github.com/elastos/Elastos.ELA/crypto"

	"verifharness/elaenv"
	"verifharness/lib"
	"verifharness/xgraph"
)

// ---- fault-injecting system random source

// faultySource answers reads with the marker byte 0xA5, at most `chunk` bytes
// per call (0 = as many as asked), and fails with an error once `failAfter`
// bytes have been delivered (-1 = never).
type faultySource struct {
	chunk     int
	failAfter int
	given     int
	delay     time.Duration // blocks this long before the first byte
}

var errSourceDown = errors.New("system random source unavailable (injected)")

func (f *faultySource) Read(p []byte) (int, error) {
	if f.delay > 0 && f.given == 0 {
		time.Sleep(f.delay)
	}
	if f.failAfter >= 0 && f.given >= f.failAfter {
		return 0, errSourceDown
	}
	n := len(p)
	if f.chunk > 0 && n > f.chunk {
		n = f.chunk
	}
	if f.failAfter >= 0 && f.given+n > f.failAfter {
		n = f.failAfter - f.given
	}
	for i := 0; i < n; i++ {
		p[i] = 0xA5
	}
	f.given += n
	return n, nil
}

func withSource(src io.Reader, f func()) (panicked bool, pv interface{}) {
	orig := crand.Reader
	crand.Reader = src
	defer func() { crand.Reader = orig }()
	return lib.Recover(f)
}

type faultMode struct {
	name      string
	chunk     int
	failAfter int
}

func (m faultMode) fails() bool { return m.failAfter >= 0 }

func main() {
	run := lib.ParseArgs()
	elaenv.InitLog(run.Out)
	st := lib.NewStats("C38", "every function of account, crypto, crypto/ecies, wallet, dpos/account and cmd/wallet/account.go is a source; every function reachable from them in the regenerated call graph is examined for references to math/rand (complete enumeration, nothing sampled). nontrivial = source function with a body; distinct by function name")
	facts, out, err := xgraph.Extract("c38", run.Repo, run.Out, "C38_uses.v")
	if err != nil {
		fmt.Fprintln(os.Stderr, out)
		fmt.Fprintln(os.Stderr, "C38: translator failed (fail closed):", err)
		os.Exit(3)
	}
	fmt.Print(out)
	viol := facts.BadReferences()
	for _, v := range viol {
		st.Fail("weak-random:"+v.Func+"->"+v.Bad, "key-material code reaches a weak random source (math/rand, or crypto/rand.Reader.Read without ReadFull): "+v.Source+" ... "+v.Func+" references "+v.Bad+" at "+v.At, v)
	}
	badSet := map[int]bool{}
	for _, b := range facts.Bad {
		badSet[b] = true
	}
	for _, d := range facts.Direct {
		st.Count("direct:"+facts.Name(d), len(facts.Succ[d]) > 0, "wallet-key-command")
		for _, t := range facts.Succ[d] {
			if badSet[t] {
				at := facts.Sites[fmt.Sprintf("%d,%d", d, t)]
				st.Fail("weak-random:"+facts.Name(d)+"->"+facts.Name(t), "wallet key-management command references math/rand: "+facts.Name(d)+" references "+facts.Name(t)+" at "+at,
					map[string]interface{}{"func": facts.Name(d), "bad": facts.Name(t), "at": at})
			}
		}
	}
	for _, s := range facts.Sources {
		st.Count("src:"+facts.Name(s), len(facts.Succ[s]) > 0, "source-function")
	}
	reach := facts.ReachableFrom(facts.Sources)
	for id := range reach {
		st.Count("reach:"+facts.Name(id), false, "reachable-function")
	}
	// the anchors must reach crypto/rand (they do generate key material)
	sec := map[int]bool{}
	for _, s := range facts.Secure {
		sec[s] = true
	}
	for name, id := range facts.Anchors {
		ok := false
		for r := range facts.ReachableFrom([]int{id}) {
			if sec[r] {
				ok = true
			}
		}
		if !ok {
			st.Fail("no-secure-source:"+name, "key-generating anchor does not reach crypto/rand at all", map[string]interface{}{"anchor": name})
		}
	}
	// clock rule: path from a key-material function to a clock reader, logging packages cut
	barrier := map[int]bool{}
	for _, b := range facts.Barrier {
		barrier[b] = true
	}
	parent := map[int]int{}
	var queue []int
	for _, s := range facts.Sources {
		parent[s] = 0
		queue = append(queue, s)
	}
	for len(queue) > 0 {
		x := queue[0]
		queue = queue[1:]
		if barrier[x] {
			continue
		}
		for _, y := range facts.Succ[x] {
			if _, ok := parent[y]; !ok {
				parent[y] = x
				queue = append(queue, y)
			}
		}
	}
	for _, c := range facts.Clock {
		if _, ok := parent[c]; ok {
			var path []string
			for n := c; n != 0; n = parent[n] {
				at := ""
				if parent[n] != 0 {
					at = " @" + facts.Sites[fmt.Sprintf("%d,%d", parent[n], n)]
				}
				path = append([]string{facts.Name(n) + at}, path...)
			}
			st.Fail("clock-source:"+path[len(path)-2], "key-material code reads the clock / process id (a time-derived value on a key path): "+path[0]+" ... "+facts.Name(c), map[string]interface{}{"path": path})
		}
		for _, d := range facts.Direct {
			for _, t := range facts.Succ[d] {
				if t == c {
					st.Fail("clock-source:"+facts.Name(d), "wallet key-management command reads the clock / process id", map[string]interface{}{"func": facts.Name(d), "at": facts.Sites[fmt.Sprintf("%d,%d", d, t)]})
				}
			}
		}
	}
	// swallowed errors of the secure source
	for _, rs := range facts.RandErr {
		st.Count("randerr:"+rs.Func+"->"+rs.Callee+"@"+rs.At, true, "rand-error-site:"+rs.Kind)
		if rs.Kind == "ignored" || rs.Kind == "checked-continues" {
			st.Fail("rand-error-"+rs.Kind+":"+rs.Func, "on a key path the error of a call that draws from crypto/rand is "+map[string]string{"ignored": "ignored", "checked-continues": "checked, but the error branch continues into the normal path (fallback)"}[rs.Kind]+": "+rs.Func+" calls "+rs.Callee+" at "+rs.At, rs)
		}
	}
	dynamicOracle(run, st)

	st.Extra["graph_nodes"] = len(facts.Names)
	st.Extra["sources"] = len(facts.Sources)
	st.Extra["reachable"] = len(reach)
	st.Extra["bad_nodes"] = len(facts.Bad)
	st.Extra["violations"] = len(viol)
	st.Extra["direct_uses"] = facts.Extra["direct_uses"]
	st.Sample(map[string]interface{}{"anchors": facts.Anchors, "sources": len(facts.Sources), "reachable": len(reach)})
	st.Traces = len(facts.Sources)
	st.Write(run.Out)
}

// dynamicOracle runs the key-generation entry points with a fault-injecting
// crypto/rand.Reader. Oracle: whatever the source does, (1) if it reports an
// error the operation must fail (no key material, no signature), and (2)
// produced keystore secrets contain only bytes the source delivered (the
// marker 0xA5), never unfilled ones.
func dynamicOracle(run *lib.Run, st *lib.Stats) {
	modes := []faultMode{
		{"full reads", 0, -1}, {"16 bytes per read", 16, -1}, {"1 byte per read", 1, -1}, {"7 bytes per read", 7, -1}, {"33 bytes per read", 33, -1},
		{"error at once", 0, 0}, {"error after 1 byte", 0, 1}, {"error after 16 bytes", 0, 16}, {"error after 40 bytes, 16 per read", 16, 40}, {"error after 47 bytes", 0, 47},
	}
	// a key made with the real source, for the signing entry points
	priv, _, err := crypto.GenerateKeyPair()
	if err != nil {
		panic(err)
	}
	d := new(big.Int).SetBytes(priv)
	var msg [32]byte
	copy(msg[:], "C38 fault injection message 0001")

	type entry struct {
		name string
		run  func(dir string) (ok bool, detail map[string]interface{})
	}
	entries := []entry{
		{"account.NewClient(create)", func(dir string) (bool, map[string]interface{}) {
			cl := account.NewClient(filepath.Join(dir, "keystore.dat"), []byte("c38-password"), true)
			if cl == nil {
				return false, nil
			}
			iv, mk := cl.KeyMaterialVerif()
			return true, map[string]interface{}{"iv": iv, "masterKey": mk}
		}},
		{"account.NewAccount", func(string) (bool, map[string]interface{}) {
			a, err := account.NewAccount()
			return err == nil && a != nil, nil
		}},
		{"crypto.GenerateKeyPair", func(string) (bool, map[string]interface{}) {
			p, _, err := crypto.GenerateKeyPair()
			return err == nil && p != nil, nil
		}},
		{"crypto.Sign", func(string) (bool, map[string]interface{}) {
			sig, err := crypto.Sign(priv, msg[:])
			return err == nil && sig != nil, nil
		}},
		{"crypto.AggregateSignatures", func(string) (bool, map[string]interface{}) {
			_, err := crypto.AggregateSignatures([]*big.Int{d}, msg)
			return err == nil, nil
		}},
	}
	for _, e := range entries {
		for mi, m := range modes {
			dir := filepath.Join(run.Out, "ks", fmt.Sprintf("%s-%d", e.name[:7], mi))
			os.MkdirAll(dir, 0o755)
			src := &faultySource{chunk: m.chunk, failAfter: m.failAfter}
			var ok bool
			var detail map[string]interface{}
			panicked, pv := withSource(src, func() { ok, detail = e.run(dir) })
			st.Count("fault:"+e.name+":"+m.name, true, "fault-injection:"+e.name)
			in := map[string]interface{}{"entry": e.name, "source": m.name, "bytes_delivered": src.given}
			if panicked {
				// a crash is not weak key material, but creation must fail cleanly
				in["panic"] = fmt.Sprint(pv)
				st.Fail("source-fault-panic:"+e.name, "key-generation entry point panics when the system random source misbehaves", in)
				continue
			}
			// (1) the operation succeeded although the source ran dry before the entry
			// point had everything it asked for
			if ok && m.fails() && src.given >= m.failAfter {
				// it consumed everything up to the fault and still succeeded: legitimate only if it needed no more
				// than failAfter bytes; a source that fails at once (0 bytes) can never legitimately succeed
				if m.failAfter == 0 {
					st.Fail("source-error-ignored:"+e.name, "the system random source is unavailable, yet the operation succeeded (key material or nonce not from the secure source)", in)
				}
			}
			// (2) keystore secrets: only delivered bytes
			if ok && detail != nil {
				iv, mk := detail["iv"].([]byte), detail["masterKey"].([]byte)
				want := func(n int) []byte { return bytes.Repeat([]byte{0xA5}, n) }
				if len(iv) != 16 || len(mk) != 32 || !bytes.Equal(iv, want(16)) || !bytes.Equal(mk, want(32)) {
					in["iv"], in["masterKey"] = fmt.Sprintf("%x", iv), fmt.Sprintf("%x", mk)
					st.Fail("unfilled-key-bytes:"+e.name, "keystore creation succeeded but IV / master key contain bytes the random source never delivered", in)
				}
			}
			// any failing source must make keystore creation fail (it needs 48 bytes; all failing modes deliver fewer)
			if ok && m.fails() && e.name == "account.NewClient(create)" {
				st.Fail("source-error-ignored:"+e.name, "the system random source failed before 48 bytes were delivered, yet keystore creation succeeded", in)
			}
		}
	}
	// a slow source (blocks for a few seconds, then delivers): key generation must wait for it and
	// produce exactly the key it produces from the same bytes delivered at once -- not a key from a
	// fallback generator (timeout -> clock/pid-derived bytes)
	ref := func(src *faultySource) (string, bool) {
		var priv []byte
		var err error
		panicked, _ := withSource(src, func() { priv, _, err = crypto.GenerateKeyPair() })
		if panicked || err != nil {
			return "", false
		}
		return fmt.Sprintf("%x", priv), true
	}
	k0, ok0 := ref(&faultySource{failAfter: -1})
	k1, ok1 := ref(&faultySource{failAfter: -1, chunk: 5})
	slow := &faultySource{failAfter: -1, delay: 4 * time.Second}
	k2, ok2 := ref(slow)
	st.Count("fault:GenerateKeyPair:slow", true, "fault-injection:slow-source")
	if !ok0 || (ok1 && k1 != k0) || (ok2 && k2 != k0) {
		st.Fail("key-not-from-source:crypto.GenerateKeyPair", "the private key is not a function of the bytes the system random source delivered (a slow or chunked source gave a different key: fallback generator?)",
			map[string]interface{}{"key_full_reads": k0, "key_5_bytes_per_read": k1, "key_source_blocking_4s": k2, "bytes_read_from_slow_source": slow.given})
	}
	os.RemoveAll(filepath.Join(run.Out, "ks"))
}
