// C20: utils.History of /repo against coq/lib/History.v, plus the property
// oracle "rollback / seek restores exactly the replay of the changes at or
// below the target height" evaluated against an independent replay.
package main

import (
	"fmt"
	"strings"

	"github.com/elastos/Elastos.ELA/utils"

	"verifharness/elaenv"
	"verifharness/lib"
)

// ---- changes over a vector of int64 (closures, as the node's callers write them)

type chg struct {
	Kind string `json:"k"` // assign | add | swap
	I    int    `json:"i"`
	J    int    `json:"j,omitempty"`
	V    int64  `json:"v"`
	Old  int64  `json:"old,omitempty"`
}

func (c chg) do(x []int64) {
	switch c.Kind {
	case "assign":
		x[c.I] = c.V
	case "add":
		x[c.I] += c.V
	case "swap":
		x[c.I], x[c.J] = x[c.J], x[c.I]
	}
}
func (c chg) undo(x []int64) {
	switch c.Kind {
	case "assign":
		x[c.I] = c.Old
	case "add":
		x[c.I] -= c.V
	case "swap":
		x[c.I], x[c.J] = x[c.J], x[c.I]
	}
}
func (c chg) coq() string {
	switch c.Kind {
	case "assign":
		return fmt.Sprintf("(CAssign %d %s %s)", c.I, lib.CoqZi(c.V), lib.CoqZi(c.Old))
	case "add":
		return fmt.Sprintf("(CAdd %d %s)", c.I, lib.CoqZi(c.V))
	}
	return fmt.Sprintf("(CSwap %d %d)", c.I, c.J)
}

type op struct {
	Op string `json:"op"` // append commit seek rbseek rb
	H  uint32 `json:"h"`
	C  *chg   `json:"c,omitempty"`
}

func (o op) coq() string {
	switch o.Op {
	case "append":
		return fmt.Sprintf("KAppend %d %s", o.H, o.C.coq())
	case "commit":
		return fmt.Sprintf("KCommit %d", o.H)
	case "seek":
		return fmt.Sprintf("KSeek %d", o.H)
	case "rbseek":
		return fmt.Sprintf("KRbSeek %d", o.H)
	}
	return fmt.Sprintf("KRb %d", o.H)
}

func cp(x []int64) []int64 { return append([]int64(nil), x...) }
func eq(a, b []int64) bool {
	if len(a) != len(b) {
		return false
	}
	for i := range a {
		if a[i] != b[i] {
			return false
		}
	}
	return true
}
func vecCoq(x []int64) string {
	s := make([]string, len(x))
	for i, v := range x {
		s[i] = lib.CoqZi(v)
	}
	return lib.CoqList(s)
}
func u32Coq(x []uint32) string {
	s := make([]string, len(x))
	for i, v := range x {
		s[i] = fmt.Sprint(v)
	}
	return lib.CoqList(s)
}
func intCoq(x []int) string {
	s := make([]string, len(x))
	for i, v := range x {
		s[i] = fmt.Sprint(v)
	}
	return lib.CoqList(s)
}

// ---- the independent reference (replay of the committed changes)

type entry struct {
	h  uint32
	cs []chg
}

type ref struct {
	init    []int64
	log     []entry // committed, not rolled back (evicted ones included)
	pend    []chg
	pendH   uint32
	hasPend bool
	temp    []chg
	tx      bool // temp changes executed
	top     uint32
	pos     uint32
	tainted bool // an out-of-protocol op happened: the rest of the trace is not judged
}

func (r *ref) stateAt(k uint32) []int64 {
	x := cp(r.init)
	for _, e := range r.log {
		if e.h <= k {
			for _, c := range e.cs {
				c.do(x)
			}
		}
	}
	return x
}

// expected visible state
func (r *ref) ideal() []int64 {
	x := r.stateAt(r.pos)
	if r.tx {
		for _, c := range r.temp {
			c.do(x)
		}
	}
	return x
}

// goodEntry: undoing the changes of one height in the order of
// HeightChanges.rollback right after executing them at pre gives pre back.
// The order is probed on the real code once (see probeForward).
func goodEntry(pre []int64, cs []chg, forward bool) bool {
	x := cp(pre)
	for _, c := range cs {
		c.do(x)
	}
	if forward {
		for _, c := range cs {
			c.undo(x)
		}
	} else {
		for i := len(cs) - 1; i >= 0; i-- {
			cs[i].undo(x)
		}
	}
	return eq(x, pre)
}

// badHeightAbove: some committed height above k whose changes are not
// restored by a forward-order undo (the class of the known finding (a)).
func (r *ref) badHeightAbove(k uint32) bool {
	x := cp(r.init)
	for _, e := range r.log {
		if e.h > k && !goodEntry(x, e.cs, true) {
			return true
		}
		for _, c := range e.cs {
			c.do(x)
		}
	}
	return false
}

const (
	sigForward   = "History:changes-of-one-height-undone-in-forward-order"
	sigGap       = "History.SeekTo:seek-across-height-gap"
	sigSeeked    = "History.SeekTo:from-seeked-position-to-non-best-height"
	sigRbSeeked  = "History.RollbackTo:while-seeked"
	sigAboveBest = "History.SeekTo:above-best-height"
	sigGeneric   = "History:state-differs-from-replay"
	sigCapacity  = "History:holds-more-heights-than-capacity"
	sigPanic     = "History:panic-on-permitted-op"
)

type runner struct {
	h     *utils.History
	x     []int64
	cap   int
	r     *ref
	ops   []op
	obs   []string
	st    *lib.Stats
	fails []string
	kinds map[string]bool
}

func newRunner(capacity int, init []int64, st *lib.Stats) *runner {
	return &runner{h: utils.NewHistory(capacity), x: cp(init), cap: capacity,
		r: &ref{init: cp(init)}, st: st, kinds: map[string]bool{}}
}

func (t *runner) view(code int) string {
	height, seek, hs, counts, ch, cc, temp := t.h.VerifView()
	return fmt.Sprintf("Ob %d %s %d %d %s %s %d %s %d", code, vecCoq(t.x), height, seek, u32Coq(hs), intCoq(counts),
		ch, lib.CoqZi(int64(cc)), temp)
}

func (t *runner) held() []uint32 {
	_, _, hs, _, _, _, _ := t.h.VerifView()
	return hs
}

func contiguous(hs []uint32, top uint32) bool {
	if len(hs) == 0 {
		return true
	}
	for i, h := range hs {
		if h != top-uint32(len(hs)-1-i) {
			return false
		}
	}
	return hs[0] >= 1
}

func (t *runner) fail(sig, what string, o op) {
	t.fails = append(t.fails, sig)
	t.st.Fail(sig, what, map[string]interface{}{"capacity": t.cap, "init": t.r.init, "ops": t.ops, "failing_op": o,
		"observed": cp(t.x)})
}

// apply runs one op on the real History and on the reference, records the
// observation and evaluates the oracle.  Returns false when the trace must
// stop (panic).
func (t *runner) apply(o op) bool {
	r := t.r
	t.ops = append(t.ops, o)
	var err error
	// protocol classification (before the op), from the reference only
	heldBefore := t.held()
	seeked := r.pos != r.top
	permitted := true // inside the protocol of the theorems
	class := ""       // defect class outside the protocol but inside the property's quantifier
	switch o.Op {
	case "append":
		if o.H == 0 {
			permitted = !r.tx
		} else {
			permitted = (len(r.temp) == 0 || r.tx) && ((!r.hasPend && o.H > r.top) || (r.hasPend && o.H == r.pendH))
		}
	case "commit":
		if len(r.temp) > 0 {
			permitted = !r.tx
		} else {
			permitted = o.H > r.top && (!r.hasPend || r.pendH == o.H)
		}
	case "seek":
		permitted = len(r.temp) == 0
		if permitted {
			switch {
			case o.H > r.top:
				class = sigAboveBest
			case seeked && o.H != r.top:
				class = sigSeeked
			case !contiguous(heldBefore, r.top):
				class = sigGap
			}
		}
	case "rbseek":
		permitted = o.H >= r.top || (r.pos == o.H && len(r.temp) == 0)
	case "rb":
		if o.H < r.top {
			permitted = len(r.temp) == 0 || r.tx
			// within capacity: every evicted entry is at or below the target
			nev := len(r.log) - len(heldBefore)
			for i := 0; i < nev && i < len(r.log); i++ {
				if r.log[i].h > o.H {
					permitted = false
				}
			}
			if permitted && seeked {
				class = sigRbSeeked
			}
		}
	}
	panicked, pv := lib.Recover(func() {
		switch o.Op {
		case "append":
			c := *o.C
			t.h.Append(o.H, func() { c.do(t.x) }, func() { c.undo(t.x) })
		case "commit":
			t.h.Commit(o.H)
		case "seek":
			err = t.h.SeekTo(o.H)
		case "rbseek":
			t.h.RollbackSeekTo(o.H)
		case "rb":
			err = t.h.RollbackTo(o.H)
		}
	})
	t.kinds[o.Op] = true
	if panicked {
		t.obs = append(t.obs, "Ob 2 [] 0 0 [] [] 0 0 0")
		if permitted && class == "" && !r.tainted {
			t.fail(sigPanic, fmt.Sprintf("panic %v on an op the usage protocol permits", pv), o)
		}
		t.kinds["panic"] = true
		return false
	}
	code := 0
	if err != nil {
		code = 1
		t.kinds["error"] = true
	}
	t.obs = append(t.obs, t.view(code))

	// ---- reference update
	if !permitted {
		r.tainted = true
		t.kinds["misuse"] = true
	}
	if r.tainted {
		return true
	}
	badAbove := false
	if r.tx && ((o.Op == "append" && o.H != 0) || (o.Op == "rb" && o.H < r.top)) {
		// the temporary changes are undone now, in forward order
		badAbove = !goodEntry(r.stateAt(r.pos), r.temp, true)
	}
	switch o.Op {
	case "append":
		if o.H == 0 {
			r.temp = append(r.temp, *o.C)
		} else {
			r.pend, r.pendH, r.hasPend = append(r.pend, *o.C), o.H, true
			r.temp, r.tx = nil, false
		}
	case "commit":
		if len(r.temp) > 0 {
			r.tx = true
		} else {
			r.log = append(r.log, entry{o.H, r.pend})
			r.pend, r.hasPend = nil, false
			r.top, r.pos = o.H, o.H
		}
	case "seek":
		badAbove = r.badHeightAbove(minU(o.H, r.pos))
		if err == nil {
			r.pos = o.H
		}
		// the limit check itself (contiguous histories): accepted iff within the held heights
		if class == "" {
			want := int64(o.H) >= int64(r.top)-int64(len(heldBefore))
			if want != (err == nil) {
				t.fail(sigGeneric, "SeekTo accepted/refused a height on the wrong side of the limit", o)
				r.tainted = true
				return true
			}
		}
	case "rbseek":
		if o.H < r.top {
			r.cut(o.H)
		}
	case "rb":
		if o.H < r.top {
			badAbove = badAbove || r.badHeightAbove(o.H)
			r.cut(o.H)
		}
	}
	// ---- oracle: the visible state is the replay
	if !eq(t.x, r.ideal()) {
		sig := sigGeneric
		switch {
		case class != "":
			sig = class
		case badAbove:
			sig = sigForward
		}
		t.fail(sig, fmt.Sprintf("after %s(%d) the state is %v, the replay of the changes at or below height %d gives %v",
			o.Op, o.H, t.x, r.pos, r.ideal()), o)
		r.tainted = true
		return true
	}
	if class != "" {
		// bookkeeping may be off even if the state happens to agree
		r.tainted = true
		return true
	}
	// ---- oracle: capacity
	distinct := map[uint32]bool{}
	for _, h := range t.held() {
		distinct[h] = true
	}
	limit := t.cap
	if limit < 1 {
		limit = 1
	}
	if len(distinct) > limit {
		t.fail(sigCapacity, fmt.Sprintf("%d distinct heights held with capacity %d", len(distinct), t.cap), o)
	}
	return true
}

func (r *ref) cut(k uint32) {
	var keep []entry
	for _, e := range r.log {
		if e.h <= k {
			keep = append(keep, e)
		}
	}
	r.log = keep
	r.top, r.pos = k, k
	r.temp, r.tx = nil, false
}

func minU(a, b uint32) uint32 {
	if a < b {
		return a
	}
	return b
}

// ---- generator

type gen struct {
	rng      *lib.Rng
	t        *runner
	n        int  // vector length
	safeOnly bool // only same-height change lists that a forward undo restores
	gaps     bool // heights may skip
	misuse   int  // percent of out-of-protocol ops
	defects  int  // percent of ops from the known defect classes
}

// change built for execution at state cur (so that its undo inverts its do there)
func (g *gen) change(cur []int64) chg {
	i := g.rng.Intn(g.n)
	switch g.rng.Intn(3) {
	case 0:
		return chg{Kind: "assign", I: i, V: int64(g.rng.Range(-9, 9)), Old: cur[i]}
	case 1:
		return chg{Kind: "add", I: i, V: int64(g.rng.Range(-5, 5))}
	}
	j := g.rng.Intn(g.n)
	return chg{Kind: "swap", I: i, J: j}
}

func (g *gen) block() bool {
	t, r := g.t, g.t.r
	h := r.top + 1
	if g.gaps && g.rng.Chance(35) {
		h += uint32(g.rng.Range(1, 4))
	}
	if r.hasPend {
		h = r.pendH
	}
	cur := r.stateAt(r.top)
	for _, c := range r.pend {
		c.do(cur)
	}
	pre := cp(cur)
	var cs []chg
	nc := g.rng.PickI64(0, 1, 1, 2, 2, 3, 4)
	if len(r.temp) > 0 && nc == 0 {
		nc = 1 // a block without changes while temporary changes are pending re-executes them (usage error)
	}
	for k := 0; k < int(nc); k++ {
		c := g.change(cur)
		if g.safeOnly && !goodEntry(pre, append(append([]chg(nil), cs...), c), true) {
			continue
		}
		c.do(cur)
		cs = append(cs, c)
		cc := c
		if !t.apply(op{Op: "append", H: h, C: &cc}) {
			return false
		}
	}
	if len(r.temp) > 0 {
		return true // nothing appended (all candidates rejected): do not commit now
	}
	return t.apply(op{Op: "commit", H: h})
}

func (g *gen) tempChange() bool {
	t, r := g.t, g.t.r
	if r.tx || r.hasPend {
		return true
	}
	cur := r.stateAt(r.pos)
	for _, c := range r.temp {
		c.do(cur)
	}
	pre := r.stateAt(r.pos)
	cs := append([]chg(nil), r.temp...)
	for k := 0; k < g.rng.Range(1, 2); k++ {
		c := g.change(cur)
		if !goodEntry(pre, append(append([]chg(nil), cs...), c), true) {
			continue // temporary changes are always undone in forward order: keep them restorable
		}
		c.do(cur)
		cs = append(cs, c)
		cc := c
		if !t.apply(op{Op: "append", H: 0, C: &cc}) {
			return false
		}
	}
	if len(r.temp) == 0 {
		return true
	}
	return t.apply(op{Op: "commit", H: r.top + 1})
}

func (g *gen) step() bool {
	t, r := g.t, g.t.r
	held := t.held()
	lo := r.top - minU(r.top, uint32(len(held)))
	pick := g.rng.Intn(100)
	if g.rng.Intn(100) < g.misuse {
		switch g.rng.Intn(7) {
		case 0:
			c := g.change(t.x)
			return t.apply(op{Op: "append", H: r.top - minU(r.top, uint32(g.rng.Range(1, 3))), C: &c})
		case 1:
			c := g.change(t.x)
			return t.apply(op{Op: "append", H: r.top + uint32(g.rng.Range(2, 3)), C: &c})
		case 2:
			return t.apply(op{Op: "commit", H: r.top + 1})
		case 3:
			return t.apply(op{Op: "rb", H: lo - minU(lo, uint32(g.rng.Range(1, 3)))})
		case 4:
			return t.apply(op{Op: "rbseek", H: r.top - minU(r.top, uint32(g.rng.Range(1, 3)))})
		case 5:
			c := g.change(t.x)
			return t.apply(op{Op: "append", H: 0, C: &c})
		default:
			return t.apply(op{Op: "commit", H: r.top})
		}
	}
	if g.rng.Intn(100) < g.defects {
		switch g.rng.Intn(3) {
		case 0:
			return t.apply(op{Op: "seek", H: r.top + uint32(g.rng.Range(1, 3))})
		case 1:
			if r.pos != r.top {
				return t.apply(op{Op: "seek", H: uint32(g.rng.Range(int(lo), int(r.top)))})
			}
		default:
			if r.pos != r.top {
				return t.apply(op{Op: "rb", H: uint32(g.rng.Range(int(lo), int(r.top)))})
			}
		}
	}
	switch {
	case len(r.temp) > 0 && r.tx:
		// temporary changes executed: the next block comes, or the chain is rolled back
		if g.rng.Chance(30) && len(held) > 0 {
			k := uint32(g.rng.Range(int(lo), int(r.top)))
			if held[0] > 0 && k < held[0]-1 {
				k = held[0] - 1
			}
			return t.apply(op{Op: "rb", H: k})
		}
		return g.block()
	case r.pos != r.top:
		// seeked: seek back to the best height, cut the history here, or let the next block come
		switch g.rng.Intn(4) {
		case 0, 1:
			return t.apply(op{Op: "seek", H: r.top})
		case 2:
			if len(r.temp) == 0 {
				return t.apply(op{Op: "rbseek", H: r.pos})
			}
			return t.apply(op{Op: "seek", H: r.top})
		default:
			return g.block()
		}
	case pick < 55:
		return g.block()
	case pick < 65:
		return g.tempChange()
	case pick < 83:
		// rollback within capacity (sometimes to or above the best height: no-op)
		k := uint32(g.rng.Range(int(lo), int(r.top)+1))
		if len(held) == 0 {
			k = r.top
		} else if held[0] > 0 && k < held[0]-1 {
			k = held[0] - 1
		}
		return t.apply(op{Op: "rb", H: k})
	default:
		k := g.rng.Range(int(lo)-1, int(r.top))
		if k < 0 {
			k = 0
		}
		return t.apply(op{Op: "seek", H: uint32(k)})
	}
}

func main() {
	run := lib.ParseArgs()
	elaenv.InitLog(run.Out)
	rng := lib.NewRng(run.Seed).Fork() // Fork: the raw streams of neighbouring seeds are shifted copies of each other
	st := lib.NewStats("C20", "op traces over utils.History with closures on an int64 vector (assign with captured old value / add / swap; non-commuting pairs common): blocks of 0-4 changes per height, temporary changes, capacities 0-6 with overflow, rollbacks within capacity, seek back and forth, RollbackSeekTo; separate streams with height gaps, with ops from the known defect classes and with usage errors (panics). nontrivial = trace with a rollback or seek below the best height that changed the vector; distinct by the op list")
	sh := &lib.Shards{Dir: run.Out, Imports: "From ELA Require Import corr.C20_corr.", CaseType: "C20_corr.case",
		Mismatch: "C20_corr.mismatches", Scope: "Z", PerShard: 40}
	id := 0
	finish := func(t *runner, kind string) {
		id++
		opsS := make([]string, len(t.ops))
		for i, o := range t.ops {
			opsS[i] = o.coq()
		}
		sh.Add(fmt.Sprintf("Trace %d %d %s\n    %s\n    %s", id, t.cap, vecCoq(t.r.init), lib.CoqList(opsS), lib.CoqList(t.obs)))
		st.LogCase(run.Out, id, map[string]interface{}{"kind": kind, "capacity": t.cap, "init": t.r.init, "ops": t.ops, "oracle": t.fails})
		nontrivial := false
		for _, o := range t.ops {
			if o.Op == "rb" || o.Op == "seek" {
				nontrivial = true
			}
		}
		var key strings.Builder
		for _, o := range t.ops {
			key.WriteString(o.coq())
		}
		st.Count(key.String(), nontrivial, kind)
		for k := range t.kinds {
			st.Hist["op:"+k]++
		}
		if id <= 3 {
			st.Sample(map[string]interface{}{"kind": kind, "capacity": t.cap, "ops": len(t.ops), "final": t.x})
		}
	}

	add := func(k string, i int, v, old int64) *chg { return &chg{Kind: k, I: i, V: v, Old: old} }
	// ---- corpus: the witnesses of the refutation lemmas, replayed on the real code
	{ // (a) x:0->1 (undo 0), x:1->2 (undo 1) at one height, RollbackTo
		t := newRunner(10, []int64{0}, st)
		t.apply(op{Op: "append", H: 1, C: add("assign", 0, 1, 0)})
		t.apply(op{Op: "append", H: 1, C: add("assign", 0, 2, 1)})
		t.apply(op{Op: "commit", H: 1})
		t.apply(op{Op: "rb", H: 0})
		finish(t, "corpus:same-height")
	}
	{ // (b) commits at 5, 10, 20 then SeekTo(17)
		t := newRunner(10, []int64{0}, st)
		for _, h := range []uint32{5, 10, 20} {
			t.apply(op{Op: "append", H: h, C: add("add", 0, int64(h), 0)})
			t.apply(op{Op: "commit", H: h})
		}
		t.apply(op{Op: "seek", H: 17})
		finish(t, "corpus:seek-gap")
	}
	commits14 := func() *runner {
		t := newRunner(10, []int64{0}, st)
		v := int64(1)
		for h := uint32(1); h <= 4; h++ {
			v *= 10
			t.apply(op{Op: "append", H: h, C: add("add", 0, v, 0)})
			t.apply(op{Op: "commit", H: h})
		}
		return t
	}
	{ // (g)
		t := commits14()
		t.apply(op{Op: "seek", H: 3})
		t.apply(op{Op: "seek", H: 2})
		finish(t, "corpus:seek-from-seeked")
	}
	{ // (d)
		t := commits14()
		t.apply(op{Op: "seek", H: 2})
		t.apply(op{Op: "rb", H: 1})
		finish(t, "corpus:rollback-while-seeked")
	}
	{ // (e)
		t := commits14()
		t.apply(op{Op: "seek", H: 6})
		finish(t, "corpus:seek-above-best")
	}
	{ // fixed (c): RollbackTo then SeekTo used a stale seek height (commits 1..10, RollbackTo(8), SeekTo(7))
		t := newRunner(20, []int64{0}, st)
		for h := uint32(1); h <= 10; h++ {
			t.apply(op{Op: "append", H: h, C: add("add", 0, 1, 0)})
			t.apply(op{Op: "commit", H: h})
		}
		t.apply(op{Op: "rb", H: 8})
		t.apply(op{Op: "seek", H: 7})
		t.apply(op{Op: "seek", H: 8})
		t.apply(op{Op: "append", H: 9, C: add("add", 0, 100, 0)})
		t.apply(op{Op: "commit", H: 9})
		finish(t, "corpus:seek-after-rollback")
	}
	{ // the scenario of utils/history_test.go: gaps with RollbackTo only
		t := newRunner(20, []int64{0, 0}, st)
		for _, h := range []uint32{10, 11, 12, 13, 20, 30, 40} {
			t.apply(op{Op: "append", H: h, C: add("add", 0, int64(h), 0)})
			t.apply(op{Op: "commit", H: h})
		}
		for _, h := range []uint32{39, 38, 37, 30, 20, 13, 12, 11, 10, 1} {
			t.apply(op{Op: "rb", H: h})
		}
		finish(t, "corpus:history_test")
	}

	// ---- generated traces
	streams := []struct {
		kind              string
		safe, gaps        bool
		misuse, defects   int
		quick, thorough   int
	}{
		{"protocol:safe-heights", true, false, 0, 0, 140, 1800},
		{"protocol:any-heights", false, false, 0, 0, 80, 900},
		{"gaps", true, true, 0, 0, 50, 500},
		{"defect-classes", true, false, 0, 12, 40, 400},
		{"misuse", true, false, 10, 0, 40, 400},
	}
	for _, s := range streams {
		for i := 0; i < run.N(s.quick, s.thorough); i++ {
			n := rng.Range(1, 4)
			init := make([]int64, n)
			for k := range init {
				init[k] = int64(rng.Range(-3, 3))
			}
			t := newRunner(rng.Intn(7), init, st)
			g := &gen{rng: rng, t: t, n: n, safeOnly: s.safe, gaps: s.gaps, misuse: s.misuse, defects: s.defects}
			steps := rng.Range(6, 22)
			for k := 0; k < steps; k++ {
				if !g.step() {
					break
				}
			}
			finish(t, s.kind)
		}
	}
	st.Traces = st.Evals
	sh.Flush()
	st.Write(run.Out)
}
