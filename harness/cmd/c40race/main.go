// C40 (c), thorough tier only: built with -race by harness/cmd/c40 and run as
// a child process. Replays two recorded lock-discipline findings and drives
// every argument-less exported getter of State / Committee concurrently with
// the writers that are reachable without a chain fixture. Output: the race
// detector's reports on stderr (parsed by the parent). Supporting search only.
package main

import (
	"fmt"
	"os"
	"reflect"
	"sync"
	"time"

	"github.com/elastos/Elastos.ELA/common"
	"github.com/elastos/Elastos.ELA/common/config"
	"github.com/elastos/Elastos.ELA/common/log"
	"github.com/elastos/Elastos.ELA/core/checkpoint"
	crstate "github.com/elastos/Elastos.ELA/cr/state"
	dstate "github.com/elastos/Elastos.ELA/dpos/state"
)

func main() {
	log.NewDefault(os.TempDir()+"/c40race-log", 255, 0, 0)
	p := *config.GetDefaultParams()
	ckp := checkpoint.NewManager(&p)
	committee := crstate.NewCommittee(&p, ckp)
	arb, err := dstate.NewArbitrators(&p, committee, nil, nil, nil, nil, nil, nil, nil, ckp)
	if err != nil {
		panic(err)
	}
	st := arb.State
	var did common.Uint168
	did[0] = 0x67
	committee.Members[did] = &crstate.CRMember{MemberState: crstate.MemberElected}
	committee.Members[did].Info.DID = did
	var h common.Uint256
	st.SpecialTxHashes[h] = struct{}{}

	dur := 1500 * time.Millisecond
	if len(os.Args) > 1 {
		if d, err := time.ParseDuration(os.Args[1]); err == nil {
			dur = d
		}
	}
	stop := time.Now().Add(dur)
	var wg sync.WaitGroup
	run := func(f func()) {
		wg.Add(1)
		go func() {
			defer wg.Done()
			for time.Now().Before(stop) {
				func() {
					defer func() { recover() }()
					f()
				}()
			}
		}()
	}
	mode := "all"
	if len(os.Args) > 2 {
		mode = os.Args[2]
	}
	if mode == "replay1" {
		// replay 1: State.RemoveSpecialTx deletes under RLock; State.GetLastIrreversibleHeight-style readers of the same map
		run(func() { st.RemoveSpecialTx(h) })
		run(func() { _ = st.ExistNFTID(h); _ = len(st.GetAllProducersPublicKey()) })
		run(func() { st.RemoveSpecialTx(common.Uint256{1}) })
	}
	if mode == "replay2" {
		// replay 2: Committee.TryUpdateCRMemberInactivity writes member fields under RLock; a getter's caller reads them unlocked
		var n uint32
		run(func() { n++; committee.TryUpdateCRMemberInactivity(did, n%2 == 0, 1+n%7) })
		run(func() {
			if m := committee.GetMember(did); m != nil {
				_ = m.MemberState
				_ = m.InactiveCountingHeight
			}
		})
	}
	// every argument-less exported getter, concurrently with the RLock-holding writers of replay 2
	if mode == "getters" {
		var k uint32
		run(func() { k++; committee.TryUpdateCRMemberInactivity(did, k%2 == 0, 1+k%7) })
	}
	for _, obj := range []interface{}{st, committee} {
		v := reflect.ValueOf(obj)
		for i := 0; i < v.NumMethod(); i++ {
			m := v.Method(i)
			name := v.Type().Method(i).Name
			if m.Type().NumIn() != 0 || m.Type().NumOut() == 0 {
				continue
			}
			switch name {
			case "Snapshot", "GetState", "GetProposalManager":
				continue
			}
			mm := m
			if mode == "getters" {
				run(func() { mm.Call(nil) })
			}
		}
	}
	wg.Wait()
	fmt.Println("c40race done")
}
