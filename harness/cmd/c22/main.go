// C22: CR committee state after a rollback equals the state built directly.
//
// Differential oracle on the real code: blocks of CR-relevant transactions
// (candidate register/update/unregister/return deposit, CRC votes, proposal
// register/review/reject-votes/tracking/withdraw/real-withdraw, impeachment,
// node claims, appropriation, payments to the CR addresses) are generated
// against a live standalone Committee (proposal-family transactions are kept
// only if the real SpecialContextCheck accepts them, blocks only if
// CheckDuplicateTx accepts them), then
//
//	direct[h]   = canonical state of a fresh committee fed blocks <= h
//	jump[h]     = fresh committee fed all blocks, RollbackTo(h)
//	step[h]     = one committee fed all blocks, rolled back one height at a time
//	redo[h]     = jump[h] then fed blocks h+1..N again, compared with direct[N]
//
// and every pair is compared field by field.  The reduced Gallina model of
// coq/model/C22_CrState.v is checked on projected traces of the same runs.
package main

import (
	"fmt"
	"sort"
	"strings"

	"github.com/elastos/Elastos.ELA/blockchain"
	"github.com/elastos/Elastos.ELA/common"
	"github.com/elastos/Elastos.ELA/common/config"
	common2 "github.com/elastos/Elastos.ELA/core/types/common"
	"github.com/elastos/Elastos.ELA/core/types/interfaces"
	"github.com/elastos/Elastos.ELA/core/types/outputpayload"
	"github.com/elastos/Elastos.ELA/core/types/payload"
	"github.com/elastos/Elastos.ELA/cr/state"

	"verifharness/crkit"
	"verifharness/elaenv"
	"verifharness/lib"
)

const (
	ela     = int64(100000000)
	startH  = 10
	nCands  = 5
	nVoters = 3
)

var (
	cands  [nCands]*crkit.Key
	voters [nVoters]*crkit.Key
	owners [2]*crkit.Key
	sg     *crkit.Key
	nonce  uint64
)

func nn() uint64 { nonce++; return nonce }

type variant struct {
	V1     bool // withdraw payload version 1
	DPoSV2 bool // DPoSV2 rules (claim period, next members) from the start
}

func newParams(v variant) *config.Configuration {
	p := config.GetDefaultParams()
	cr := &p.CRConfiguration
	cr.MemberCount = 3
	cr.CRAgreementCount = 2
	cr.ProposalCRVotingPeriod = 4
	cr.ProposalPublicVotingPeriod = 2
	cr.CRVotingStartHeight = startH
	cr.CRCommitteeStartHeight = 20
	cr.DutyPeriod = 24
	cr.VotingPeriod = 8
	cr.CRClaimPeriod = 3
	cr.DepositLockupBlocks = 3
	cr.CRClaimDPOSNodeStartHeight = 33
	cr.CRClaimDPOSNodePeriod = 5
	cr.ChangeCommitteeNewCRHeight = 0
	cr.CRAssetsRectifyTransactionHeight = 200000000
	cr.SecretaryGeneral = common.BytesToHexString(sg.Pub)
	p.CrossChainMonitorStartHeight = 200000000
	p.DPoSV2StartHeight = 200000000
	if v.DPoSV2 {
		p.DPoSV2StartHeight = 0
	}
	cr.CRCProposalWithdrawPayloadV1Height = 200000000
	if v.V1 {
		cr.CRCProposalWithdrawPayloadV1Height = 0
	}
	return p
}

// world is one generated history: the blocks and the outputs they create.
type world struct {
	v      variant
	refs   map[string]common2.Output
	blocks [][]interfaces.Transaction // index = height - startH
	descr  [][]string
	quirk  bool // a candidate was unregistered in its activation block (stays Active with a CancelHeight)
}

func (w *world) newEnv() *crkit.Env {
	e := crkit.NewEnv(newParams(w.v))
	e.Refs = w.refs
	return e
}

func (w *world) note(tx interfaces.Transaction) {
	for i, o := range tx.Outputs() {
		w.refs[common2.NewOutPoint(tx.Hash(), uint16(i)).ReferKey()] = *o
	}
}

func input(tx interfaces.Transaction, idx int) *common2.Input {
	return &common2.Input{Previous: *common2.NewOutPoint(tx.Hash(), uint16(idx)), Sequence: 0}
}

var unordered = map[string]bool{".KeyFrame.PartProposalResults": true}

func snapshot(e *crkit.Env) []string {
	c := e.Committee
	return crkit.Canon(struct {
		KeyFrame state.KeyFrame
		State    state.StateKeyFrame
		Proposal state.ProposalKeyFrame
	}{c.KeyFrame, c.GetState().StateKeyFrame, c.GetProposalManager().ProposalKeyFrame}, unordered)
}

type pinfo struct {
	hash  common.Uint256
	owner *crkit.Key
	n     int // budgets
	final int
	tx    interfaces.Transaction
}

type gen struct {
	w       *world
	e       *crkit.Env
	rng     *lib.Rng
	h       uint32
	regTxs  map[int][]interfaces.Transaction // candidate -> register txs whose deposit output is unspent
	voteTx  map[int]interfaces.Transaction   // voter -> unspent vote tx
	props   []*pinfo
	nick    int
	wdTxs   []common.Uint256
	fundTxs []interfaces.Transaction
	kinds   map[string]int
	rej     map[string]int
	// plan: scenario directives mixed into the random stream (council dissolved by
	// impeachment while proposals are pending; members impeached while inactive)
	// a candidate that lost the first election registers again in the next voting
	// period, unregisters, and returns both deposits with one transaction
	reReturn    bool
	reStage     int
	reCand      int
	reCancelH   uint32
	impeachAt   uint32
	impeachN    int
	proposalsAt uint32
	scripted    bool // register everybody at once and vote broadly (elections mostly succeed)
	rejected    int
}

func (g *gen) memberKey(did common.Uint168) *crkit.Key {
	for _, k := range cands {
		if k.DID == did {
			return k
		}
	}
	return nil
}

// returnAll builds one ReturnCRDepositCoin transaction spending EVERY unspent
// deposit output of candidate i (several when it registered in more than one
// voting period), if the whole amount is available (lock-up over, no penalty);
// such a transaction returns the current record and the history records of
// earlier sessions at once.
func (g *gen) returnAll(i int, h uint32) interfaces.Transaction {
	cm := g.e.Committee
	st := cm.GetState()
	var ins []*common2.Input
	var sum common.Fixed64
	for _, rt := range g.regTxs[i] {
		in := input(rt, 0)
		if v, ok := st.DepositOutputs[in.ReferKey()]; ok {
			ins = append(ins, in)
			sum += v
		}
	}
	if len(ins) == 0 || cm.GetAvailableDepositAmount(cands[i].CID) < sum {
		return nil
	}
	if c := cm.GetCandidate(cands[i].CID); c != nil &&
		(c.State != state.Canceled || h-c.CancelHeight <= g.e.Params.CRConfiguration.DepositLockupBlocks) {
		return nil
	}
	delete(g.regTxs, i)
	return crkit.ReturnDeposit(cands[i], nn(), ins, sum-10000)
}

// candidates returns the transactions proposed for the next block.
func (g *gen) blockTxs() ([]interfaces.Transaction, []string) {
	cm := g.e.Committee
	st := cm.GetState()
	h := g.h + 1
	rng := g.rng
	txs := []interfaces.Transaction{crkit.Coinbase(nn(), []*common2.Output{
		{Value: common.Fixed64(rng.Intn(50)) * common.Fixed64(ela), ProgramHash: *g.e.Params.CRConfiguration.CRAssetsProgramHash, Payload: new(outputpayload.DefaultOutput)},
		{Value: common.Fixed64(300+rng.Intn(50)) * common.Fixed64(ela), ProgramHash: *g.e.Params.CRConfiguration.CRExpensesProgramHash, Payload: new(outputpayload.DefaultOutput)}})}
	var ds []string
	usedCand := map[int]bool{}
	usedProp := map[string]bool{}
	usedVoter := map[int]bool{}
	var pu common.Fixed64
	add := func(kind string, tx interfaces.Transaction, check bool, refs map[*common2.Input]common2.Output) bool {
		if check {
			ok, msg, pk := g.e.Check(tx, h, pu, refs)
			if pk || !ok {
				g.rejected++
				if i := strings.LastIndex(msg, ":"); i >= 0 {
					msg = msg[i+1:]
				}
				if len(msg) > 48 {
					msg = msg[:48]
				}
				g.rej[strings.SplitN(kind, " ", 2)[0]+": "+msg]++
				return false
			}
		}
		if tx.IsCRCProposalTx() {
			blockchain.RecordCRCProposalAmount(&pu, tx)
		}
		txs = append(txs, tx)
		ds = append(ds, kind)
		g.kinds[strings.SplitN(kind, " ", 2)[0]]++
		g.w.note(tx)
		return true
	}
	inVoting := cm.IsInVotingPeriod(h)
	if g.impeachAt != 0 && h >= g.impeachAt && g.impeachN > 0 {
		ms := cm.GetCurrentMembers()
		sort.Slice(ms, func(a, b int) bool { return ms[a].Info.DID.Compare(ms[b].Info.DID) < 0 })
		k := rng.Range(1, 3) // how many members are impeached in this block
		for j := 0; j < nVoters && k > 0 && g.impeachN > 0; j++ {
			var target *state.CRMember
			for _, m := range ms {
				if (m.MemberState == state.MemberElected || m.MemberState == state.MemberInactive || m.MemberState == state.MemberIllegal) &&
					m.ImpeachmentVotes < 1000000000000000 {
					target = m
					break
				}
			}
			if target == nil {
				break
			}
			target.ImpeachmentVotes += 0 // (read only; the vote below is what counts)
			tx := crkit.VoteOutputTx(nn(), common.Fixed64(200*ela), []outputpayload.VoteContent{{VoteType: outputpayload.CRCImpeachment,
				CandidateVotes: []outputpayload.CandidateVotes{{Candidate: target.Info.CID.Bytes(), Votes: 1000000000000000}}}}, nil, nil)
			usedVoter[j] = true
			add(fmt.Sprintf("impeach v%d m-state%d", j, target.MemberState), tx, false, nil)
			// do not pick the same member again in this block
			ms2 := ms[:0:0]
			for _, m := range ms {
				if m != target {
					ms2 = append(ms2, m)
				}
			}
			ms = ms2
			k--
			g.impeachN--
		}
	}
	if g.reReturn && h >= 36 {
		switch g.reStage {
		case 0:
			if inVoting {
				for i := range cands {
					if len(g.regTxs[i]) > 0 && cm.GetMember(cands[i].DID) == nil && cm.GetCandidate(cands[i].CID) == nil {
						g.nick++
						tx := crkit.RegisterCR(cands[i], fmt.Sprintf("nick%d", g.nick), nn(), common.Fixed64(5000*ela))
						g.regTxs[i] = append(g.regTxs[i], tx)
						usedCand[i] = true
						add(fmt.Sprintf("registerCR c%d (again)", i), tx, false, nil)
						g.reCand, g.reStage = i, 1
						break
					}
				}
			}
		case 1:
			if c := cm.GetCandidate(cands[g.reCand].CID); c != nil && (c.State == state.Pending || c.State == state.Active) && rng.Chance(90) {
				usedCand[g.reCand] = true
				add(fmt.Sprintf("unregisterCR c%d", g.reCand), crkit.UnregisterCR(cands[g.reCand], nn()), false, nil)
				g.reCancelH, g.reStage = h, 2
			}
		case 2:
			if h-g.reCancelH > g.e.Params.CRConfiguration.DepositLockupBlocks && rng.Chance(85) {
				if tx := g.returnAll(g.reCand, h); tx != nil {
					usedCand[g.reCand] = true
					add(fmt.Sprintf("returnDeposit c%d (all outputs)", g.reCand), tx, false, nil)
					g.reStage = 3
				}
			}
		}
	}
	n := rng.Intn(4)
	firstTerm := h < 20
	if h <= 12 || (h >= 16 && h <= 19) {
		n += 4
	}
	if g.scripted && h == 10 {
		n += 12
	}
	if !firstTerm && cm.InElectionPeriod {
		n += 1
	}
	for ; n > 0; n-- {
		x := rng.Intn(100)
		early := h <= 12
		if firstTerm && x >= 14 && x < 30 && rng.Chance(85) {
			x = 40 // few updates/unregistrations before the first election
		}
		if !firstTerm && cm.InElectionPeriod && !inVoting && x < 48 && rng.Chance(70) {
			x = 48 + rng.Intn(50) // proposals, reviews, tracking, withdrawals while the council sits
		}
		forceProposalVote := false
		if !firstTerm {
			for _, p := range g.props {
				if ps := cm.GetProposal(p.hash); ps != nil {
					if ps.Status == state.Registered && rng.Chance(60) {
						x = 60 // review
					}
					if ps.Status == state.CRAgreed && rng.Chance(30) {
						x, forceProposalVote = 72, true
					}
				}
			}
		}
		if g.scripted && h == 10 {
			x = 0
		}
		if g.proposalsAt != 0 && (h == g.proposalsAt || h == g.proposalsAt+1) && rng.Chance(60) {
			x = 50 // proposal
		}
		if g.scripted && h >= 16 && h <= 19 && rng.Chance(70) {
			x = 40
		}
		switch {
		case x < 14 || (early && x < 50): // register
			i := rng.Intn(nCands)
			if usedCand[i] || !inVoting || cm.GetCandidate(cands[i].CID) != nil || cm.GetMember(cands[i].DID) != nil || st.DepositInfo[cands[i].CID] != nil && rng.Chance(50) {
				continue
			}
			g.nick++
			tx := crkit.RegisterCR(cands[i], fmt.Sprintf("nick%d", g.nick), nn(), common.Fixed64(5000*ela))
			usedCand[i] = true
			g.regTxs[i] = append(g.regTxs[i], tx)
			add(fmt.Sprintf("registerCR c%d", i), tx, false, nil)
		case x < 20: // update
			i := rng.Intn(nCands)
			c := cm.GetCandidate(cands[i].CID)
			if usedCand[i] || c == nil || (c.State != state.Pending && c.State != state.Active) {
				continue
			}
			g.nick++
			usedCand[i] = true
			add(fmt.Sprintf("updateCR c%d", i), crkit.UpdateCR(cands[i], fmt.Sprintf("nick%d", g.nick), nn()), false, nil)
		case x < 25: // unregister
			i := rng.Intn(nCands)
			c := cm.GetCandidate(cands[i].CID)
			if usedCand[i] || c == nil || (c.State != state.Pending && c.State != state.Active) || !inVoting {
				continue
			}
			usedCand[i] = true
			if c.CancelHeight != 0 || (c.State == state.Pending && h-c.RegisterHeight+1 >= state.ActivateDuration) {
				// unregistered in the block that activates it (both closures are built from
				// the pre-block state, activation wins), or unregistered a second time
				g.w.quirk = true
			}
			add(fmt.Sprintf("unregisterCR c%d", i), crkit.UnregisterCR(cands[i], nn()), false, nil)
		case x < 30: // return deposit
			i := rng.Intn(nCands)
			if usedCand[i] {
				continue
			}
			if tx := g.returnAll(i, h); tx != nil {
				usedCand[i] = true
				add(fmt.Sprintf("returnDeposit c%d", i), tx, false, nil)
			}
		case x < 48 || (h >= 16 && h <= 19 && x < 90): // CRC votes
			j := rng.Intn(nVoters)
			if usedVoter[j] || !inVoting {
				continue
			}
			var cv []outputpayload.CandidateVotes
			for i, k := range cands {
				c := cm.GetCandidate(k.CID)
				if c != nil && c.State == state.Active && rng.Chance(75) {
					cv = append(cv, outputpayload.CandidateVotes{Candidate: k.CID.Bytes(), Votes: common.Fixed64(int64(rng.Intn(90)+1+i) * ela)})
				}
			}
			if len(cv) == 0 {
				continue
			}
			var ins []*common2.Input
			if old := g.voteTx[j]; old != nil {
				ins = append(ins, input(old, 0))
			}
			tx := crkit.VoteOutputTx(nn(), common.Fixed64(200*ela), []outputpayload.VoteContent{{VoteType: outputpayload.CRC, CandidateVotes: cv}}, ins, nil)
			usedVoter[j] = true
			g.voteTx[j] = tx
			add(fmt.Sprintf("voteCRC v%d x%d", j, len(cv)), tx, false, nil)
		case x < 58: // proposal
			if !cm.InElectionPeriod || len(g.props) >= 3 {
				continue
			}
			ms := cm.GetCurrentMembers()
			if len(ms) == 0 {
				continue
			}
			sort.Slice(ms, func(a, b int) bool { return ms[a].Info.DID.Compare(ms[b].Info.DID) < 0 })
			m := g.memberKey(ms[rng.Intn(len(ms))].Info.DID)
			nb := rng.Range(2, 4)
			var bs []payload.Budget
			for s := 0; s < nb; s++ {
				ty := payload.NormalPayment
				if s == 0 {
					ty = payload.Imprest
				}
				if s == nb-1 {
					ty = payload.FinalPayment
				}
				bs = append(bs, payload.Budget{Type: ty, Stage: byte(s), Amount: common.Fixed64(int64(rng.Intn(9)+1) * ela)})
			}
			o := owners[rng.Intn(len(owners))]
			tx, hash := crkit.Proposal(o, m, o.Addr, bs, []byte(fmt.Sprintf("draft%d", nn())), nn())
			if add(fmt.Sprintf("proposal p%d n%d", len(g.props), nb), tx, true, nil) {
				g.props = append(g.props, &pinfo{hash: hash, owner: o, n: nb, final: nb - 1, tx: tx})
			}
		case x < 70: // review
			if len(g.props) == 0 {
				continue
			}
			pi := rng.Intn(len(g.props))
			ms := cm.GetCurrentMembers()
			if len(ms) == 0 {
				continue
			}
			sort.Slice(ms, func(a, b int) bool { return ms[a].Info.DID.Compare(ms[b].Info.DID) < 0 })
			mi := rng.Intn(len(ms))
			key := fmt.Sprintf("rev%d-%d", pi, mi)
			if usedProp[key] {
				continue
			}
			m := g.memberKey(ms[mi].Info.DID)
			if add(fmt.Sprintf("review p%d m%d", pi, mi), crkit.Review(m, g.props[pi].hash, payload.VoteResult(rng.PickI64(0, 0, 0, 0, 0, 0, 1, 2)), nn()), true, nil) {
				usedProp[key] = true
			}
		case x < 74: // votes against a proposal / impeachment
			j := rng.Intn(nVoters)
			if usedVoter[j] {
				continue
			}
			var content outputpayload.VoteContent
			ms := cm.GetCurrentMembers()
			if (forceProposalVote || rng.Bool()) && len(g.props) > 0 {
				p := g.props[rng.Intn(len(g.props))]
				content = outputpayload.VoteContent{VoteType: outputpayload.CRCProposal, CandidateVotes: []outputpayload.CandidateVotes{
					{Candidate: p.hash.Bytes(), Votes: common.Fixed64(rng.PickI64(5*ela, 6*ela, 7*ela, 8*ela, 1000000000000000))}}}
			} else if len(ms) > 0 {
				sort.Slice(ms, func(a, b int) bool { return ms[a].Info.DID.Compare(ms[b].Info.DID) < 0 })
				content = outputpayload.VoteContent{VoteType: outputpayload.CRCImpeachment, CandidateVotes: []outputpayload.CandidateVotes{
					{Candidate: ms[rng.Intn(len(ms))].Info.CID.Bytes(), Votes: common.Fixed64(rng.PickI64(5*ela, 7*ela, 1000000000000000))}}}
			} else {
				continue
			}
			var ins []*common2.Input
			if old := g.voteTx[j]; old != nil {
				ins = append(ins, input(old, 0))
			}
			tx := crkit.VoteOutputTx(nn(), common.Fixed64(200*ela), []outputpayload.VoteContent{content}, ins, nil)
			usedVoter[j] = true
			g.voteTx[j] = tx
			add(fmt.Sprintf("vote%d v%d", content.VoteType, j), tx, false, nil)
		case x < 86: // tracking
			if len(g.props) == 0 {
				continue
			}
			pi := rng.Intn(len(g.props))
			p := g.props[pi]
			if usedProp[fmt.Sprintf("tr%d", pi)] {
				continue
			}
			ty := payload.CRCProposalTrackingType(rng.PickI64(0, 1, 1, 1, 2, 3, 5, 4))
			stg := uint8(rng.Intn(p.n))
			var newOwner *crkit.Key
			switch ty {
			case payload.Common, payload.Terminated:
				stg = 0
			case payload.Finalized:
				stg = uint8(p.final)
			case payload.ChangeOwner:
				stg = 0
				newOwner = owners[0]
				if p.owner == owners[0] {
					newOwner = owners[1]
				}
			}
			tx := crkit.Tracking(ty, p.hash, stg, p.owner, newOwner, sg, nn())
			if add(fmt.Sprintf("tracking p%d t%d s%d", pi, ty, stg), tx, true, nil) {
				usedProp[fmt.Sprintf("tr%d", pi)] = true
				if newOwner != nil {
					p.owner = newOwner
				}
			}
		case x < 95: // withdraw
			if len(g.props) == 0 {
				continue
			}
			pi := rng.Intn(len(g.props))
			p := g.props[pi]
			if usedProp[fmt.Sprintf("wd%d", pi)] {
				continue
			}
			s := cm.GetProposal(p.hash)
			if s == nil {
				continue
			}
			amt := cm.AvailableWithdrawalAmount(p.hash)
			in := &common2.Input{Previous: common2.OutPoint{TxID: common.Hash([]byte(fmt.Sprintf("u%d", nn())))}}
			var tx interfaces.Transaction
			var refs map[*common2.Input]common2.Output
			if g.w.v.V1 {
				tx = crkit.WithdrawV1(p.owner, p.hash, s.Recipient, amt, []*common2.Input{in}, nn())
				refs = map[*common2.Input]common2.Output{in: {Value: 10000, ProgramHash: p.owner.Addr}}
			} else {
				tx = crkit.WithdrawV0(p.owner, p.hash, s.Recipient, *g.e.Params.CRConfiguration.CRExpensesProgramHash, []*common2.Input{in}, amt-10000, 5, nn())
				refs = map[*common2.Input]common2.Output{in: {Value: amt + 5, ProgramHash: *g.e.Params.CRConfiguration.CRExpensesProgramHash}}
			}
			if add(fmt.Sprintf("withdraw p%d", pi), tx, true, refs) {
				usedProp[fmt.Sprintf("wd%d", pi)] = true
				g.wdTxs = append(g.wdTxs, tx.Hash())
			}
		case x < 97: // real withdraw / appropriation / spend of a committee output
			switch rng.Intn(3) {
			case 0:
				if len(g.wdTxs) > 0 && g.w.v.V1 && !usedProp["rw"] {
					usedProp["rw"] = true
					add("realWithdraw", crkit.RealWithdraw(g.wdTxs, nn()), false, nil)
					g.wdTxs = nil
				}
			case 1:
				if cm.NeedAppropriation && !usedProp["ap"] {
					usedProp["ap"] = true
					add("appropriation", crkit.Appropriation(nn(), []*common2.Output{{Value: common.Fixed64(50 * ela),
						ProgramHash: *g.e.Params.CRConfiguration.CRExpensesProgramHash, Payload: new(outputpayload.DefaultOutput)}}), false, nil)
				}
			default:
				if len(g.fundTxs) > 0 {
					ft := g.fundTxs[0]
					g.fundTxs = g.fundTxs[1:]
					add("spendCRoutputs", crkit.VoteOutputTx(nn(), 0, nil, []*common2.Input{input(ft, 0), input(ft, 1)},
						[]*common2.Output{{Value: common.Fixed64(ela), ProgramHash: *g.e.Params.DestroyELAProgramHash, Payload: new(outputpayload.DefaultOutput)}}), false, nil)
				}
			}
		default: // node claim
			ms := cm.GetCurrentMembers()
			if len(ms) == 0 || usedProp["claim"] || (g.impeachAt >= 38 && rng.Chance(80)) {
				continue
			}
			sort.Slice(ms, func(a, b int) bool { return ms[a].Info.DID.Compare(ms[b].Info.DID) < 0 })
			m := ms[rng.Intn(len(ms))]
			usedProp["claim"] = true
			node := crkit.NewKey(22, 500+rng.Intn(4))
			add("claimNode", crkit.ClaimNode(node.Pub, m.Info.DID, nn()), false, nil)
		}
	}
	g.fundTxs = append(g.fundTxs, txs[0])
	g.w.note(txs[0])
	return txs, ds
}

func generate(rng *lib.Rng, v variant, nblocks int) (*world, *gen) {
	w := &world{v: v, refs: map[string]common2.Output{}}
	g := &gen{w: w, rng: rng, h: startH - 1, regTxs: map[int][]interfaces.Transaction{}, voteTx: map[int]interfaces.Transaction{}, kinds: map[string]int{}, rej: map[string]int{}}
	g.e = w.newEnv()
	g.scripted = rng.Chance(75)
	switch rng.Intn(5) {
	case 3, 4: // a loser of the first election registers again and returns both deposits at once
		g.scripted, g.reReturn = true, true
		if nblocks < 38 {
			nblocks = 38 + rng.Intn(4)
		}
	case 0: // council dissolved early, proposals still Registered / CRAgreed
		g.scripted, g.proposalsAt = true, 21
		g.impeachAt, g.impeachN = uint32(rng.Range(23, 28)), rng.Range(2, 3)
	case 1: // members impeached after they went inactive (no node claimed)
		g.scripted, g.proposalsAt = true, 34
		g.impeachAt, g.impeachN = uint32(rng.Range(38, 41)), rng.Range(1, 3)
		if nblocks < 34 {
			nblocks = 34 + rng.Intn(7)
		}
	}
	for i := 0; i < nblocks; i++ {
		txs, ds := g.blockTxs()
		if blockchain.CheckDuplicateTx(crkit.Block(g.h+1, txs)) != nil {
			txs, ds = txs[:1], []string{"(dropped: duplicate)"}
		}
		w.blocks = append(w.blocks, txs)
		w.descr = append(w.descr, ds)
		g.h++
		g.e.Process(g.h, txs)
	}
	return w, g
}

func feed(e *crkit.Env, w *world, from, to uint32) { // heights from..to inclusive
	for h := from; h <= to; h++ {
		e.Process(h, w.blocks[h-startH])
	}
}

type finding struct {
	mode   string
	target uint32
	field  string
	lines  []string
}

// compare runs the differential oracle on w; returns the findings.
func compare(w *world) (fs []finding, evals int) {
	last := uint32(startH + len(w.blocks) - 1)
	direct := map[uint32][]string{}
	d := w.newEnv()
	for h := uint32(startH); h <= last; h++ {
		d.Process(h, w.blocks[h-startH])
		direct[h] = snapshot(d)
	}
	report := func(mode string, target uint32, got, want []string) {
		a, b := crkit.Diff(got, want, 4)
		if len(a)+len(b) == 0 {
			return
		}
		seen := map[string]bool{}
		for _, l := range append(append([]string{}, a...), b...) {
			f := crkit.FieldOf(l)
			if !seen[f] {
				seen[f] = true
				fs = append(fs, finding{mode, target, f, append(append([]string{"got:"}, a...), append([]string{"want:"}, b...)...)})
			}
		}
	}
	stepper := w.newEnv()
	feed(stepper, w, startH, last)
	for t := last - 1; t >= startH; t-- {
		evals++
		// jump
		j := w.newEnv()
		feed(j, w, startH, last)
		if pk, val := lib.Recover(func() { j.Height = t; j.Committee.RollbackTo(t) }); pk {
			fs = append(fs, finding{"jump", t, "panic", []string{fmt.Sprint(val)}})
			continue
		}
		report("jump", t, snapshot(j), direct[t])
		// redo on top of the rolled back state
		if pk, val := lib.Recover(func() { feed(j, w, t+1, last) }); pk {
			fs = append(fs, finding{"redo", t, "panic", []string{fmt.Sprint(val)}})
		} else {
			report("redo", t, snapshot(j), direct[last])
		}
		// stepwise
		stepper.Height = t
		if pk, val := lib.Recover(func() { stepper.Committee.RollbackTo(t) }); pk {
			fs = append(fs, finding{"step", t, "panic", []string{fmt.Sprint(val)}})
			break
		}
		report("step", t, snapshot(stepper), direct[t])
	}
	return
}

func main() {
	run := lib.ParseArgs()
	elaenv.InitLog(run.Out)
	crkit.Init()
	rng := lib.NewRng(run.Seed)
	for i := range cands {
		cands[i] = crkit.NewKey(22, i)
	}
	for i := range voters {
		voters[i] = crkit.NewKey(22, 100+i)
	}
	owners[0], owners[1] = crkit.NewKey(22, 200), crkit.NewKey(22, 201)
	sg = crkit.NewKey(22, 300)
	st := lib.NewStats("C22", "histories of <= 41 blocks (heights 10..50, two committee terms) over 5 candidates, 3 voters, <= 3 proposals on a standalone Committee, 4 parameter variants (withdraw payload v0/v1, DPoS v2 rules off/on); every rollback target within the history: fresh instance + RollbackTo(h), stepwise rollback, and re-feeding the undone blocks, each compared field by field with an instance fed only the prefix. nontrivial = the compared state has candidates/members/proposals and the undone suffix contains CR transactions; distinct by (history, target)")
	sh := &lib.Shards{Dir: run.Out, Imports: "From ELA Require Import model.C22_CrState corr.C22_corr.", CaseType: "C22_corr.case",
		Mismatch: "C22_corr.mismatches", Scope: "Z", PerShard: 40}
	variants := []variant{{false, false}, {true, false}, {true, true}, {false, true}}
	nh := run.N(40, 400)
	id := 0
	for i := 0; i < nh; i++ {
		v := variants[i%len(variants)]
		nb := rng.Range(18, 41)
		w, g := generate(rng.Fork(), v, nb)
		fs, evals := compare(w)
		for k, n := range g.kinds {
			st.Hist["tx:"+k] += n
		}
		st.Hist["tx-rejected-by-check"] += g.rejected
		for k, n := range g.rej {
			st.Hist["rejected "+k] += n
		}
		cm := g.e.Committee
		nontrivial := len(cm.GetCurrentMembers()) > 0 || len(cm.GetAllCandidates()) > 0
		for t := 0; t < evals; t++ {
			st.Count(fmt.Sprintf("%d/%d/%d", run.Seed, i, t), nontrivial, fmt.Sprintf("history:v1=%v,dposv2=%v", v.V1, v.DPoSV2))
		}
		if len(cm.GetCurrentMembers()) > 0 {
			st.Hist["histories-with-committee"]++
		}
		if len(g.props) > 0 {
			st.Hist["histories-with-proposals"]++
		}
		seen := map[string]bool{}
		for _, f := range fs {
			sig := "C22:" + f.mode + ":" + f.field
			if w.quirk && (f.field == ".State.Candidates" || f.field == ".State.Nicknames" || f.field == ".State.HistoryCandidates") {
				sig = "C22:unregister-in-activation-block:" + f.field
			}
			if seen[sig] {
				continue
			}
			seen[sig] = true
			st.Fail(sig, "state after rollback differs from the state built directly in field "+f.field,
				map[string]interface{}{"seed": run.Seed, "history": i, "variant": v, "mode": f.mode, "rollback_to": f.target,
					"last": startH + len(w.blocks) - 1, "diff": f.lines, "blocks": w.descr})
		}
		if i < 2 {
			st.Sample(map[string]interface{}{"variant": v, "blocks": w.descr})
		}
		id++
		emitModelCases(sh, st, run, &id, w, rng.Fork())
	}
	st.Traces = st.Evals
	sh.Flush()
	st.Write(run.Out)
}
