package main

import (
	"fmt"
	"strings"

	"github.com/elastos/Elastos.ELA/common"
	common2 "github.com/elastos/Elastos.ELA/core/types/common"
	"github.com/elastos/Elastos.ELA/core/types/interfaces"
	"github.com/elastos/Elastos.ELA/core/types/outputpayload"
	"github.com/elastos/Elastos.ELA/cr/state"

	"verifharness/crkit"
	"verifharness/lib"
)

// cells of coq/model/C22_CrState.v observed on the implementation
func cells(e *crkit.Env) string {
	var xs []string
	for i, k := range cands {
		c := e.Committee.GetCandidate(k.CID)
		v, s, ch := int64(0), int64(0), int64(0)
		if c != nil {
			v, s, ch = int64(c.Votes), int64(c.State), int64(c.CancelHeight)
		}
		xs = append(xs, fmt.Sprintf("(%d, %s)", 10*i+1, lib.CoqZi(v)), fmt.Sprintf("(%d, %d)", 10*i+2, s), fmt.Sprintf("(%d, %d)", 10*i+3, ch))
	}
	return "[" + strings.Join(xs, "; ") + "]"
}

func cvTerm(cv [][2]int64) string {
	xs := make([]string, len(cv))
	for i, p := range cv {
		xs[i] = fmt.Sprintf("(%d, %s)", p[0], lib.CoqZi(p[1]))
	}
	return "[" + strings.Join(xs, "; ") + "]"
}

// emitModelCases builds, next to every generated history, one history of the
// modelled kinds only (first voting period, prolonged to height 60: CRC votes,
// cancellation by spending the previous vote output, unregistration), feeds it
// to real committees and emits cells after every block and after RollbackTo
// every height.
func emitModelCases(sh *lib.Shards, st *lib.Stats, run *lib.Run, id *int, w0 *world, rng *lib.Rng) {
	w := &world{v: w0.v, refs: map[string]common2.Output{}}
	mkEnv := func() *crkit.Env {
		p := newParams(w.v)
		p.CRConfiguration.CRCommitteeStartHeight = 60
		e := crkit.NewEnv(p)
		e.Refs = w.refs
		return e
	}
	e := mkEnv()
	var reg []interfaces.Transaction
	reg = append(reg, crkit.Coinbase(nn(), nil))
	for i, k := range cands {
		reg = append(reg, crkit.RegisterCR(k, fmt.Sprintf("m%d-%d", *id, i), nn(), common.Fixed64(5000*ela)))
	}
	w.blocks = append(w.blocks, reg)
	for h := startH + 1; h <= 15; h++ {
		w.blocks = append(w.blocks, []interfaces.Transaction{crkit.Coinbase(nn(), nil)})
	}
	feed(e, w, startH, 15)
	s0 := cells(e)
	type vote struct {
		tx interfaces.Transaction
		cv [][2]int64
	}
	last := map[int]*vote{}
	var coqBlocks []string
	n := rng.Range(4, 14)
	for b := 0; b < n; b++ {
		h := uint32(16 + b)
		txs := []interfaces.Transaction{crkit.Coinbase(nn(), nil)}
		var terms []string
		usedV, usedC := map[int]bool{}, map[int]bool{}
		for k := rng.Intn(4); k > 0; k-- {
			if rng.Chance(80) {
				j := rng.Intn(nVoters)
				if usedV[j] {
					continue
				}
				usedV[j] = true
				var cv []outputpayload.CandidateVotes
				var mcv [][2]int64
				for i, c := range cands {
					cc := e.Committee.GetCandidate(c.CID)
					if cc != nil && cc.State == state.Active && rng.Chance(60) {
						v := int64(rng.Intn(500)+1) * 1000
						cv = append(cv, outputpayload.CandidateVotes{Candidate: c.CID.Bytes(), Votes: common.Fixed64(v)})
						mcv = append(mcv, [2]int64{int64(i), v})
					}
				}
				if len(cv) == 0 {
					continue
				}
				var ins []*common2.Input
				if old := last[j]; old != nil {
					ins = append(ins, input(old.tx, 0))
					terms = append(terms, "TxCancelVote "+cvTerm(old.cv))
				}
				tx := crkit.VoteOutputTx(nn(), common.Fixed64(200*ela), []outputpayload.VoteContent{{VoteType: outputpayload.CRC, CandidateVotes: cv}}, ins, nil)
				w.note(tx)
				last[j] = &vote{tx, mcv}
				txs = append(txs, tx)
				terms = append(terms, "TxVote "+cvTerm(mcv))
			} else {
				i := rng.Intn(nCands)
				c := e.Committee.GetCandidate(cands[i].CID)
				if usedC[i] || c == nil || c.State != state.Active {
					continue
				}
				usedC[i] = true
				txs = append(txs, crkit.UnregisterCR(cands[i], nn()))
				terms = append(terms, fmt.Sprintf("TxUnregister %d", i))
			}
		}
		w.blocks = append(w.blocks, txs)
		e.Process(h, txs)
		coqBlocks = append(coqBlocks, fmt.Sprintf("((%d, [%s]), %s)", h, strings.Join(terms, "; "), cells(e)))
	}
	lastH := uint32(15 + n)
	var rbs []string
	for k := uint32(15); k < lastH; k++ {
		r := mkEnv()
		feed(r, w, startH, lastH)
		r.Height = k
		r.Committee.RollbackTo(k)
		rbs = append(rbs, fmt.Sprintf("(%d, %s)", k, cells(r)))
	}
	*id++
	sh.Add(fmt.Sprintf("CHist %d %s [%s] [%s]", *id, s0, strings.Join(coqBlocks, ";\n   "), strings.Join(rbs, ";\n   ")))
	st.LogCase(run.Out, *id, map[string]interface{}{"kind": "model-history", "blocks": coqBlocks})
	st.Hist["model-histories"]++
}
