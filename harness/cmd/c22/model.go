package main

import (
	"fmt"
	"strings"

	"github.com/elastos/Elastos.ELA/common"
	common2 "github.com/elastos/Elastos.ELA/core/types/common"
	"github.com/elastos/Elastos.ELA/core/types/interfaces"
	"github.com/elastos/Elastos.ELA/core/types/outputpayload"
	"github.com/elastos/Elastos.ELA/core/types/payload"
	"github.com/elastos/Elastos.ELA/cr/state"

	"verifharness/crkit"
	"verifharness/lib"
)

// cells of coq/model/C22_CrState.v observed on the implementation
func cells(e *crkit.Env) string {
	var xs []string
	for i, k := range cands {
		c := e.Committee.GetCandidate(k.CID)
		v, s, ch := int64(0), int64(0), int64(0)
		if c != nil {
			v, s, ch = int64(c.Votes), int64(c.State), int64(c.CancelHeight)
		}
		xs = append(xs, fmt.Sprintf("(%d, %s)", 64*i+1, lib.CoqZi(v)), fmt.Sprintf("(%d, %d)", 64*i+2, s), fmt.Sprintf("(%d, %d)", 64*i+3, ch))
	}
	return "[" + strings.Join(xs, "; ") + "]"
}

func cvTerm(cv [][2]int64) string {
	xs := make([]string, len(cv))
	for i, p := range cv {
		xs[i] = fmt.Sprintf("(%d, %s)", p[0], lib.CoqZi(p[1]))
	}
	return "[" + strings.Join(xs, "; ") + "]"
}

// emitModelCases builds, next to every generated history, one history of the
// modelled kinds only (first voting period, prolonged to height 60: CRC votes,
// cancellation by spending the previous vote output, unregistration), feeds it
// to real committees and emits cells after every block and after RollbackTo
// every height.
func emitModelCases(sh *lib.Shards, st *lib.Stats, run *lib.Run, id *int, w0 *world, rng *lib.Rng) {
	w := &world{v: w0.v, refs: map[string]common2.Output{}}
	mkEnv := func() *crkit.Env {
		p := newParams(w.v)
		p.CRConfiguration.CRCommitteeStartHeight = 60
		e := crkit.NewEnv(p)
		e.Refs = w.refs
		return e
	}
	e := mkEnv()
	var reg []interfaces.Transaction
	reg = append(reg, crkit.Coinbase(nn(), nil))
	for i, k := range cands {
		reg = append(reg, crkit.RegisterCR(k, fmt.Sprintf("m%d-%d", *id, i), nn(), common.Fixed64(5000*ela)))
	}
	w.blocks = append(w.blocks, reg)
	for h := startH + 1; h <= 15; h++ {
		w.blocks = append(w.blocks, []interfaces.Transaction{crkit.Coinbase(nn(), nil)})
	}
	feed(e, w, startH, 15)
	s0 := cells(e)
	type vote struct {
		tx interfaces.Transaction
		cv [][2]int64
	}
	last := map[int]*vote{}
	var coqBlocks []string
	n := rng.Range(4, 14)
	for b := 0; b < n; b++ {
		h := uint32(16 + b)
		txs := []interfaces.Transaction{crkit.Coinbase(nn(), nil)}
		var terms []string
		usedV, usedC := map[int]bool{}, map[int]bool{}
		for k := rng.Intn(4); k > 0; k-- {
			if rng.Chance(80) {
				j := rng.Intn(nVoters)
				if usedV[j] {
					continue
				}
				usedV[j] = true
				var cv []outputpayload.CandidateVotes
				var mcv [][2]int64
				for i, c := range cands {
					cc := e.Committee.GetCandidate(c.CID)
					if cc != nil && cc.State == state.Active && rng.Chance(60) {
						v := int64(rng.Intn(500)+1) * 1000
						cv = append(cv, outputpayload.CandidateVotes{Candidate: c.CID.Bytes(), Votes: common.Fixed64(v)})
						mcv = append(mcv, [2]int64{int64(i), v})
					}
				}
				if len(cv) == 0 {
					continue
				}
				var ins []*common2.Input
				if old := last[j]; old != nil {
					ins = append(ins, input(old.tx, 0))
					terms = append(terms, "TxCancelVote "+cvTerm(old.cv))
				}
				tx := crkit.VoteOutputTx(nn(), common.Fixed64(200*ela), []outputpayload.VoteContent{{VoteType: outputpayload.CRC, CandidateVotes: cv}}, ins, nil)
				w.note(tx)
				last[j] = &vote{tx, mcv}
				txs = append(txs, tx)
				terms = append(terms, "TxVote "+cvTerm(mcv))
			} else {
				i := rng.Intn(nCands)
				c := e.Committee.GetCandidate(cands[i].CID)
				if usedC[i] || c == nil || c.State != state.Active {
					continue
				}
				usedC[i] = true
				txs = append(txs, crkit.UnregisterCR(cands[i], nn()))
				terms = append(terms, fmt.Sprintf("TxUnregister %d", i))
			}
		}
		w.blocks = append(w.blocks, txs)
		e.Process(h, txs)
		coqBlocks = append(coqBlocks, fmt.Sprintf("((%d, [%s]), %s)", h, strings.Join(terms, "; "), cells(e)))
	}
	lastH := uint32(15 + n)
	var rbs []string
	for k := uint32(15); k < lastH; k++ {
		r := mkEnv()
		feed(r, w, startH, lastH)
		r.Height = k
		r.Committee.RollbackTo(k)
		rbs = append(rbs, fmt.Sprintf("(%d, %s)", k, cells(r)))
	}
	*id++
	sh.Add(fmt.Sprintf("CHist %d %s [%s] [%s]", *id, s0, strings.Join(coqBlocks, ";\n   "), strings.Join(rbs, ";\n   ")))
	st.LogCase(run.Out, *id, map[string]interface{}{"kind": "model-history", "blocks": coqBlocks})
	st.Hist["model-histories"]++
	emitProposalModelCase(sh, st, run, id, w0.v, rng)
}

// ---- second model history: one proposal on a seated council; tracking of every
// kind, withdrawals (also in the same block as a tracking), impeachment votes.

func cellOf(cls, idx int) int { return 64*idx + cls }

func pcells(e *crkit.Env, hash common.Uint256, nst int, ms []*crkit.Key) string {
	c := e.Committee
	xs := []string{fmt.Sprintf("(%d, %s)", cellOf(5, 0), lib.CoqZi(int64(c.CRCCommitteeUsedAmount)))}
	if s := c.GetProposal(hash); s != nil {
		fin := 0
		if s.FinalPaymentStatus {
			fin = 1
		}
		xs = append(xs, fmt.Sprintf("(%d, %d)", cellOf(7, 1), s.Status), fmt.Sprintf("(%d, %d)", cellOf(6, 1), s.TrackingCount),
			fmt.Sprintf("(%d, %d)", cellOf(8, 1), fin), fmt.Sprintf("(%d, %d)", cellOf(9, 1), s.TerminatedHeight))
		for st := 0; st < nst; st++ {
			idx := 256 + st
			wa, wn := int64(0), int64(0)
			if a, ok := s.WithdrawableBudgets[uint8(st)]; ok {
				wa = int64(a) + 1
			}
			if a, ok := s.WithdrawnBudgets[uint8(st)]; ok {
				wn = int64(a) + 1
			}
			xs = append(xs, fmt.Sprintf("(%d, %d)", cellOf(10, idx), s.BudgetsStatus[uint8(st)]),
				fmt.Sprintf("(%d, %d)", cellOf(11, idx), wa), fmt.Sprintf("(%d, %d)", cellOf(12, idx), wn))
		}
	}
	for i, k := range ms {
		if m := c.GetMember(k.DID); m != nil {
			xs = append(xs, fmt.Sprintf("(%d, %s)", cellOf(15, i), lib.CoqZi(int64(m.ImpeachmentVotes))))
		}
	}
	return "[" + strings.Join(xs, "; ") + "]"
}

func emitProposalModelCase(sh *lib.Shards, st *lib.Stats, run *lib.Run, id *int, v variant, rng *lib.Rng) {
	const base = 1000
	ms := cands[:3]
	mkEnv := func() *crkit.Env {
		p := newParams(v)
		p.CRConfiguration.DutyPeriod = 1000000
		p.CRConfiguration.VotingPeriod = 100
		p.CRConfiguration.CRClaimDPOSNodeStartHeight = 100000000
		p.DPoSV2StartHeight = 200000000
		e := crkit.NewEnv(p)
		cm := e.Committee
		for i, k := range ms {
			cm.Members[k.DID] = &state.CRMember{Info: payload.CRInfo{Code: k.Code, CID: k.CID, DID: k.DID, NickName: fmt.Sprintf("s%d", i)},
				MemberState: state.MemberElected, DepositHash: k.Deposit, ActivateRequestHeight: ^uint32(0)}
			cm.GetState().DepositInfo[k.CID] = &state.DepositInfo{DepositAmount: state.MinDepositAmount, TotalAmount: state.MinDepositAmount}
		}
		cm.InElectionPeriod = true
		cm.LastCommitteeHeight = 20
		cm.GetState().CurrentSession = 1
		cm.CRCCurrentStageAmount = common.Fixed64(100000 * ela)
		cm.CRCCommitteeUsedAmount = common.Fixed64(1000 * ela)
		cm.CirculationAmount = common.Fixed64(3300 * 10000 * ela)
		e.Height = base
		return e
	}
	e := mkEnv()
	nst := rng.Range(3, 5)
	var bs []payload.Budget
	amts := make([]int64, nst)
	for s := 0; s < nst; s++ {
		ty := payload.NormalPayment
		if s == 0 {
			ty = payload.Imprest
		}
		if s == nst-1 {
			ty = payload.FinalPayment
		}
		amts[s] = int64(rng.Intn(9)+1) * ela
		bs = append(bs, payload.Budget{Type: ty, Stage: byte(s), Amount: common.Fixed64(amts[s])})
	}
	owner := owners[0]
	ptx, hash := crkit.Proposal(owner, ms[0], owner.Addr, bs, []byte(fmt.Sprintf("mdraft%d", nn())), nn())
	var real [][]interfaces.Transaction
	h := uint32(base)
	feedOne := func(en *crkit.Env, hh uint32, txs []interfaces.Transaction) { en.Process(hh, txs) }
	push := func(txs ...interfaces.Transaction) {
		h++
		all := append([]interfaces.Transaction{crkit.Coinbase(nn(), nil)}, txs...)
		real = append(real, all)
		feedOne(e, h, all)
	}
	push(ptx)
	push(crkit.Review(ms[0], hash, payload.Approve, nn()), crkit.Review(ms[1], hash, payload.Approve, nn()))
	for i := 0; i < 12; i++ {
		if s := e.Committee.GetProposal(hash); s != nil && s.Status == state.VoterAgreed {
			break
		}
		push()
	}
	if s := e.Committee.GetProposal(hash); s == nil || s.Status != state.VoterAgreed {
		return
	}
	hS := h
	s0 := pcells(e, hash, nst, ms)
	stages := make([]string, nst)
	for i := range stages {
		stages[i] = fmt.Sprint(i)
	}
	stageList := "[" + strings.Join(stages, "; ") + "]"
	var coqBlocks []string
	nb := rng.Range(3, 9)
	for b := 0; b < nb; b++ {
		ps := e.Committee.GetProposal(hash)
		var txs []interfaces.Transaction
		var terms []string
		if rng.Chance(50) { // withdraw
			amt := e.Committee.AvailableWithdrawalAmount(hash)
			in := &common2.Input{Previous: common2.OutPoint{TxID: common.Hash([]byte(fmt.Sprintf("mu%d", nn())))}}
			var tx interfaces.Transaction
			var refs map[*common2.Input]common2.Output
			tid := 0
			if v.V1 {
				tx = crkit.WithdrawV1(owner, hash, ps.Recipient, amt, []*common2.Input{in}, nn())
				refs = map[*common2.Input]common2.Output{in: {Value: 10000, ProgramHash: owner.Addr}}
				tid = int(nn())
			} else {
				tx = crkit.WithdrawV0(owner, hash, ps.Recipient, *e.Params.CRConfiguration.CRExpensesProgramHash, []*common2.Input{in}, amt-10000, 5, nn())
				refs = map[*common2.Input]common2.Output{in: {Value: amt + 5, ProgramHash: *e.Params.CRConfiguration.CRExpensesProgramHash}}
			}
			if ok, _, _ := e.Check(tx, h+1, 0, refs); ok {
				txs = append(txs, tx)
				terms = append(terms, fmt.Sprintf("TxWithdraw 1 %s %d", stageList, tid))
			}
		}
		if rng.Chance(70) { // tracking
			ty := payload.CRCProposalTrackingType(rng.PickI64(0, 1, 1, 1, 2, 2, 3, 5))
			stg := rng.Intn(nst)
			switch ty {
			case payload.Common, payload.Terminated:
				stg = 0
			case payload.Finalized:
				stg = nst - 1
			}
			tx := crkit.Tracking(ty, hash, uint8(stg), owner, nil, sg, nn())
			if ok, _, _ := e.Check(tx, h+1, 0, nil); ok {
				release := int64(0)
				for s2 := 0; s2 < nst; s2++ {
					if _, w := ps.WithdrawableBudgets[uint8(s2)]; !w {
						if ty == payload.Terminated || (ty == payload.Finalized && s2 != nst-1) {
							release += amts[s2]
						}
					}
				}
				amt := amts[stg]
				txs = append(txs, tx)
				// whether the progress closure raises FinalPaymentStatus is decided when it executes
				// (after the withdrawals of the block): evaluated below, after the block
				terms = append(terms, fmt.Sprintf("TxTrack 1 %d %d %d %d SETFINAL %s %s", ty, stg, amt, nst-1, stageList, lib.CoqZi(release)))
			}
		}
		if rng.Chance(30) {
			mi := rng.Intn(3)
			vv := int64(rng.Intn(1000)+1) * 1000
			tx := crkit.VoteOutputTx(nn(), common.Fixed64(ela), []outputpayload.VoteContent{{VoteType: outputpayload.CRCImpeachment,
				CandidateVotes: []outputpayload.CandidateVotes{{Candidate: ms[mi].CID.Bytes(), Votes: common.Fixed64(vv)}}}}, nil, nil)
			txs = append(txs, tx)
			terms = append(terms, fmt.Sprintf("TxImpeachVote %d %d", mi, vv))
		}
		wasFinal := ps.FinalPaymentStatus
		push(txs...)
		setfinal := "false"
		if e.Committee.GetProposal(hash).FinalPaymentStatus && !wasFinal {
			setfinal = "true"
		}
		for i := range terms {
			terms[i] = strings.Replace(terms[i], "SETFINAL", setfinal, 1)
		}
		coqBlocks = append(coqBlocks, fmt.Sprintf("((%d, [%s]), %s)", h, strings.Join(terms, "; "), pcells(e, hash, nst, ms)))
	}
	var rbs []string
	for k := hS; k < h; k++ {
		r := mkEnv()
		for i, txs := range real {
			feedOne(r, uint32(base+1+i), txs)
		}
		r.Height = k
		r.Committee.RollbackTo(k)
		rbs = append(rbs, fmt.Sprintf("(%d, %s)", k, pcells(r, hash, nst, ms)))
	}
	*id++
	sh.Add(fmt.Sprintf("CHist %d %s [%s] [%s]", *id, s0, strings.Join(coqBlocks, ";\n   "), strings.Join(rbs, ";\n   ")))
	st.LogCase(run.Out, *id, map[string]interface{}{"kind": "model-proposal-history", "blocks": coqBlocks})
	st.Hist["model-proposal-histories"]++
}
