// C24 — consensus decisions do not depend on scheduling or process-local
// randomness.
//
// Static part (translation): runs the translator on the source tree under
// --repo, which rewrites coq/gen/C24_graph.v (call/reference graph of the
// consensus packages, bad nodes, allowed edges); props/C24.v re-proves
// C24_static against it. The same facts are searched here for offending
// edges, so that a failing theorem comes with the witness path.
//
// Dynamic part (correspondence + oracle): the real getCandidateIndexAtRandom,
// getRandomDposV2Producers, getSortedProducers and getSortedProducersDposV2
// are run through the verif exports of dpos/state; the candidate index is
// computed with nothing else running, with another goroutine using the
// process-global math/rand source at the interleaving point between seeding
// and drawing, and with a goroutine hammering the global source throughout.
// All answers for one block hash must agree, and agree with the model.
package main

import (
	"encoding/binary"
	"fmt"
	"math"
	"math/rand"
	"os"
	"sort"
	"strings"
	"sync"
	"sync/atomic"
	"time"

	"github.com/elastos/Elastos.ELA/common"
	"github.com/elastos/Elastos.ELA/common/config"
	"github.com/elastos/Elastos.ELA/core/checkpoint"
	"github.com/elastos/Elastos.ELA/core/types"
	"github.com/elastos/Elastos.ELA/core/types/payload"
	crstate "github.com/elastos/Elastos.ELA/cr/state"
	"github.com/elastos/Elastos.ELA/crypto"
	"github.com/elastos/Elastos.ELA/dpos/state"

	"verifharness/elaenv"
	"verifharness/lib"
	"verifharness/xgraph"
)

type fixture struct {
	params *config.Configuration
	blocks map[uint32]*types.Block
	arb    *state.Arbiters
}

func newFixture() *fixture {
	f := &fixture{params: config.GetDefaultParams(), blocks: map[uint32]*types.Block{}}
	f.arb = state.NewArbitersVerifC24(f.params, func(h uint32) (*types.Block, error) {
		if b, ok := f.blocks[h]; ok {
			return b, nil
		}
		return nil, fmt.Errorf("no block")
	})
	return f
}

func (f *fixture) block(h uint32, salt uint64) (*types.Block, [8]byte, [8]byte) {
	b := &types.Block{}
	b.Header.Height = h
	b.Header.Nonce = uint32(salt)
	b.Header.Timestamp = uint32(salt >> 32)
	f.blocks[h] = b
	hash, hashAux := b.Hash(), b.HashWithAux()
	var x, y [8]byte
	copy(x[:], hash[24:])
	copy(y[:], hashAux[24:])
	return b, x, y
}

func seedOf(x [8]byte) int64 { return int64(binary.LittleEndian.Uint64(x[:])) }

func coqBytesZ(b []byte) string { return lib.CoqBytes(b) }

func outCode(idx int, err error) int {
	if err == nil {
		return idx
	}
	if strings.Contains(err.Error(), "not enough") {
		return -1
	}
	if strings.Contains(err.Error(), "not found") {
		return -2
	}
	return -3
}

func key4(k uint32) []byte { return []byte{byte(k >> 24), byte(k >> 16), byte(k >> 8), byte(k)} }

func main() {
	run := lib.ParseArgs()
	elaenv.InitLog(run.Out)
	rng := lib.NewRng(run.Seed)
	st := lib.NewStats("C24", "static: every function of the consensus packages and everything reachable from them in the regenerated call graph; dynamic: block hashes x producer counts x schedules (quiet / one concurrent global draw or reseed at the interleaving point / continuous global draws), producer sets inserted in permuted orders with vote ties. nontrivial = an index was drawn / a non-empty ordering; distinct by (seed, n) resp. canonical input")
	sh := &lib.Shards{Dir: run.Out, Imports: "From ELA Require Import corr.C24_corr.", CaseType: "C24_corr.case",
		Mismatch: "C24_corr.mismatches", Scope: "Z", PerShard: 400}
	id := 0
	next := func() int { id++; return id }

	// ------------------------------------------------------------ static part
	facts, out, err := xgraph.Extract("c24", run.Repo, run.Out, "C24_graph.v")
	if err != nil {
		fmt.Fprintln(os.Stderr, out)
		fmt.Fprintln(os.Stderr, "C24: translator failed (fail closed):", err)
		os.Exit(3)
	}
	fmt.Print(out)
	viol := facts.BadReferences()
	for _, v := range viol {
		st.Fail("static:"+v.Func+"->"+v.Bad, "consensus code reaches a process-global or clock-seeded random source: "+v.Func+" references "+v.Bad+" at "+v.At, v)
	}
	for _, fs := range facts.FloatSums {
		st.Count("floatsum:"+fs.Func+"@"+fs.At, true, "static:float-map-sum")
		if !fs.Integral {
			st.Fail("float-map-sum:"+fs.Func, "consensus code accumulates a float64 sum with non-integer addends while ranging over a map: the result depends on Go's random map iteration order: "+fs.Func+" at "+fs.At, fs)
		}
	}
	for _, ms := range facts.MapOrder {
		st.Count("maporder:"+ms.Func+"@"+ms.At, ms.Verdict == "sorted", "static:map-order-site:"+ms.Verdict)
		if ms.Verdict == "unsorted" {
			st.Fail("map-order:"+ms.Func, "a slice filled in Go's random map iteration order reaches a consumer unsorted in consensus code: "+ms.Func+" uses it at "+ms.Use+" (filled at "+ms.At+", origin: "+ms.RangeAt+")", ms)
		}
	}
	st.Extra["graph_nodes"] = len(facts.Names)
	st.Extra["graph_sources"] = len(facts.Sources)
	st.Extra["graph_bad"] = len(facts.Bad)
	st.Extra["graph_allowed_edges"] = len(facts.Allowed)
	st.Extra["static_violations"] = len(viol)
	var allowedNames []string
	for i, a := range facts.Allowed {
		allowedNames = append(allowedNames, facts.Name(a[0])+" -> "+facts.Name(a[1])+" : "+facts.AllowedWhy[i])
	}
	st.Extra["allowed"] = allowedNames
	for _, s := range facts.Sources {
		st.Count("src:"+facts.Name(s), true, "static:source-function")
	}
	st.Sample(map[string]interface{}{"static": "sources", "n": len(facts.Sources), "anchors": facts.Anchors})

	// ------------------------------------------------------------ dynamic part
	f := newFixture()
	normal := f.params.DPoSConfiguration.NormalArbitratorsCount
	cands := f.params.DPoSConfiguration.CandidatesCount

	// a goroutine that uses the global source all the time (schedule C)
	// Switching it off takes the mutex, so that no draw of the hammer is still
	// in flight afterwards (the harness itself uses the global source for the
	// fix-equivalence oracle and must then be alone on it).
	var hammerMu sync.Mutex
	var hammerOn, hammerStop int32
	hammerDone := make(chan struct{})
	go func() {
		defer close(hammerDone)
		for atomic.LoadInt32(&hammerStop) == 0 {
			hammerMu.Lock()
			on := atomic.LoadInt32(&hammerOn) == 1
			if on {
				rand.Intn(1000)
			}
			hammerMu.Unlock()
			if !on {
				time.Sleep(20 * time.Microsecond)
			}
		}
	}()
	setHammer := func(on bool) {
		hammerMu.Lock()
		if on {
			atomic.StoreInt32(&hammerOn, 1)
		} else {
			atomic.StoreInt32(&hammerOn, 0)
		}
		hammerMu.Unlock()
	}

	type sched struct {
		name string
		hook func()
	}
	concurrently := func(g func()) func() {
		return func() {
			done := make(chan struct{})
			go func() { g(); close(done) }()
			<-done
		}
	}
	scheds := []sched{
		{"quiet", nil},
		{"other goroutine calls rand.Intn(1000) once between seeding and drawing", concurrently(func() { rand.Intn(1000) })},
		{"other goroutine calls rand.Seed(12345) between seeding and drawing", concurrently(func() { rand.Seed(12345) })},
		{"other goroutine calls rand.Int63() three times between seeding and drawing", concurrently(func() { rand.Int63(); rand.Int63(); rand.Int63() })},
	}

	selCase := func(height uint32, salt uint64, haveBlock bool, voted, unclaimed int, corpus string) {
		var x [8]byte
		if haveBlock {
			_, x, _ = f.block(height-1, salt)
		} else {
			delete(f.blocks, height-1)
		}
		// oracle entry: the draw of an independent local source
		count := voted - unclaimed - (normal - 1)
		n := count
		if cands+1 < n {
			n = cands + 1
		}
		oseed, on, oval := seedOf(x), int64(n), int64(-99)
		if haveBlock && n >= 1 {
			oval = int64(rand.New(rand.NewSource(oseed)).Intn(n))
			// the repair must not change the selection: the seeded global source gives the same first draw
			rand.Seed(oseed)
			if legacy := int64(rand.Intn(n)); legacy != oval {
				st.Fail("fix-equivalence", "rand.New(rand.NewSource(seed)).Intn(n) differs from rand.Seed(seed); rand.Intn(n)", map[string]interface{}{"seed": oseed, "n": n, "local": oval, "global": legacy})
			}
		}
		results := map[string]int{}
		var first int
		for i, s := range scheds {
			state.VerifBetweenSeedAndDraw = s.hook
			idx, err := f.arb.GetCandidateIndexAtRandomVerif(height, unclaimed, voted)
			state.VerifBetweenSeedAndDraw = nil
			code := outCode(idx, err)
			results[s.name] = code
			if i == 0 {
				first = code
			}
			k := next()
			hb := x[:]
			if !haveBlock {
				hb = nil
			}
			sh.Add(fmt.Sprintf("CSel %d %s %d %d %d %d %s %s %s %s", k, coqBytesZ(hb), voted, unclaimed, normal, cands,
				lib.CoqZi(oseed), lib.CoqZi(on), lib.CoqZi(oval), lib.CoqZi(int64(code))))
			st.LogCase(run.Out, k, map[string]interface{}{"op": "getCandidateIndexAtRandom", "corpus": corpus, "height": height, "block_nonce_ts": salt, "hash8": fmt.Sprintf("%x", hb),
				"voted": voted, "unclaimed": unclaimed, "schedule": s.name, "out": code})
			st.Count(fmt.Sprintf("sel:%d:%d", oseed, n), code >= 0, "getCandidateIndexAtRandom/"+strings.SplitN(s.name, " ", 2)[0])
		}
		// schedule C: continuous concurrent use of the global source
		setHammer(true)
		for r := 0; r < 20; r++ {
			idx, err := f.arb.GetCandidateIndexAtRandomVerif(height, unclaimed, voted)
			if c := outCode(idx, err); c != first {
				results[fmt.Sprintf("continuous concurrent rand.Intn, repetition %d", r)] = c
			}
		}
		setHammer(false)
		st.Count(fmt.Sprintf("selc:%d:%d", oseed, n), first >= 0, "getCandidateIndexAtRandom/continuous")
		// property oracle: one block hash, one index
		for name, c := range results {
			if c != first {
				st.Fail("getCandidateIndexAtRandom:schedule", "two different candidate indexes for one block hash, depending on what another goroutine does with the global random source",
					map[string]interface{}{"height": height, "block_nonce_ts": salt, "hash8": fmt.Sprintf("%x", x[:]), "seed": oseed, "voted": voted, "unclaimed": unclaimed,
						"normal": normal, "candidates": cands, "index_quiet": first, "schedule": name, "index_under_schedule": c})
				break
			}
		}
		if len(st.Samples) < 4 {
			st.Sample(map[string]interface{}{"op": "getCandidateIndexAtRandom", "hash8": fmt.Sprintf("%x", x[:]), "voted": voted, "unclaimed": unclaimed, "results": results})
		}
	}

	// corpus: the witness schedule of the defect fixed in /repo (must now agree), boundaries
	selCase(100, 0x0000000100000001, true, normal+cands+40, 0, "witness: fixed finding")
	selCase(101, 7, true, normal+1, 0, "two candidates")
	selCase(102, 8, true, normal, 0, "count=1")
	selCase(103, 9, true, normal-1, 0, "not enough")
	selCase(104, 10, true, normal+5, 6, "unclaimed makes it not enough")
	selCase(105, 11, false, normal+50, 0, "block not found")
	selCase(106, 12, true, normal+cands, 0, "count = candidates+1")
	selCase(107, 13, true, normal+cands+1, 0, "count > candidates+1")
	for i := 0; i < run.N(60, 3000); i++ {
		voted := rng.Range(normal-2, normal+cands+30)
		unclaimed := 0
		if rng.Chance(30) {
			unclaimed = rng.Intn(5)
		}
		selCase(uint32(1000+i), rng.U64(), !rng.Chance(3), voted, unclaimed, "")
	}

	// ---- fix-equivalence sweep (seeds x n): local source == seeded global source
	for i := 0; i < run.N(2000, 200000); i++ {
		seed := int64(rng.U64())
		if i < 8 {
			seed = []int64{0, 1, -1, 1 << 31, -(1 << 31), 1<<63 - 1, -(1 << 63), 89482311}[i]
		}
		n := 1 + rng.Intn(cands+40)
		if i%7 == 0 {
			n = 1 + rng.Intn(1<<30)
		}
		rand.Seed(seed)
		a := rand.Intn(n)
		b := rand.New(rand.NewSource(seed)).Intn(n)
		st.Count(fmt.Sprintf("eq:%d:%d", seed, n), true, "fix-equivalence")
		if a != b {
			st.Fail("fix-equivalence", "rand.New(rand.NewSource(seed)).Intn(n) differs from rand.Seed(seed); rand.Intn(n)", map[string]interface{}{"seed": seed, "n": n, "global": a, "local": b})
		}
	}

	// ---- producer ordering under permuted insertion (vote ties included)
	type prodIn struct {
		votes int64
		key   uint32
	}
	sortCase := func(ps []prodIn, corpus string) {
		var outs [][]uint32
		for rep := 0; rep < 3; rep++ {
			g := newFixture()
			perm := make([]int, len(ps))
			for i := range perm {
				perm[i] = i
			}
			if rep > 0 {
				for i := len(perm) - 1; i > 0; i-- {
					j := rng.Intn(i + 1)
					perm[i], perm[j] = perm[j], perm[i]
				}
			}
			for _, i := range perm {
				g.arb.AddProducerVerifC24(append([]byte{2}, key4(ps[i].key^0x5a5a5a5a)...), key4(ps[i].key), common.Fixed64(ps[i].votes), nil)
			}
			var o []uint32
			for _, p := range g.arb.GetSortedProducersVerif() {
				o = append(o, binary.BigEndian.Uint32(p.NodePublicKey()))
			}
			outs = append(outs, o)
		}
		var in, og []string
		for _, p := range ps {
			in = append(in, fmt.Sprintf("(%d,%d)", p.votes, p.key))
		}
		for _, k := range outs[0] {
			og = append(og, fmt.Sprintf("%d", k))
		}
		k := next()
		sh.Add(fmt.Sprintf("CSort %d %s %s", k, lib.CoqList(in), lib.CoqList(og)))
		st.LogCase(run.Out, k, map[string]interface{}{"op": "getSortedProducers", "corpus": corpus, "in": in, "out": outs[0]})
		st.Count("sort:"+strings.Join(in, ""), len(outs[0]) > 0, "getSortedProducers")
		for r := 1; r < len(outs); r++ {
			if fmt.Sprint(outs[r]) != fmt.Sprint(outs[0]) {
				st.Fail("getSortedProducers:insertion-order", "producer order depends on map insertion/iteration order", map[string]interface{}{"producers": in, "order_a": outs[0], "order_b": outs[r]})
			}
		}
	}
	sortCase([]prodIn{{5, 1}, {5, 2}, {5, 3}, {7, 9}, {0, 4}, {1, 0}}, "ties and a zero-vote producer")
	sortCase(nil, "empty")
	for i := 0; i < run.N(80, 4000); i++ {
		n := rng.Intn(40)
		ps := make([]prodIn, 0, n)
		used := map[uint32]bool{}
		for len(ps) < n {
			k := uint32(rng.U64())
			if rng.Chance(30) {
				k = uint32(rng.Intn(64))
			}
			if used[k] {
				continue
			}
			used[k] = true
			ps = append(ps, prodIn{int64(rng.Intn(6)) * int64(rng.PickI64(1, 1, 100000000)), k})
		}
		sortCase(ps, "")
	}

	// ---- getRandomDposV2Producers: local source; repeated calls, permuted insertion, concurrent global use
	v2Case := func(height uint32, salt uint64, nProd, nCRC, unclaimed int, corpus string) {
		var outs [][]string
		var keys []string
		var y [8]byte
		for rep := 0; rep < 3; rep++ {
			g := newFixture()
			_, _, y = g.block(height-1, salt)
			order := rng.Intn(2) == 0
			var vp []string
			for i := 0; i < nProd; i++ {
				j := i
				if order {
					j = nProd - 1 - i
				}
				owner := append([]byte{3}, key4(uint32(j)*2654435761)...)
				// distinct vote rights (ordering among V2 producers is covered by the sort cases)
				info := payload.DetailedVoteInfo{BlockHeight: 100, Info: []payload.VotesWithLockTime{{Votes: common.Fixed64(int64(j+1) * 1000000000000), LockTime: 100 + 7200*10}}}
				g.arb.AddProducerVerifC24(owner, key4(uint32(j)), 1, map[common.Uint168]map[common.Uint256]payload.DetailedVoteInfo{{}: {{}: info}})
			}
			crcs := map[common.Uint168]state.ArbiterMember{}
			for i := 0; i < nCRC; i++ {
				j := i
				if order {
					j = nCRC - 1 - i
				}
				pk := make([]byte, 33)
				pk[0] = 2
				copy(pk[1:], key4(uint32(j+1)*40503))
				var h common.Uint168
				copy(h[:], key4(uint32(j+77)))
				crcs[h] = &fakeArbiter{key: pk}
			}
			if rep == 2 {
				setHammer(true)
			}
			o, err := g.arb.GetRandomDposV2ProducersVerif(height, unclaimed, crcs)
			setHammer(false)
			if err != nil {
				o = []string{"error:" + err.Error()}
			}
			outs = append(outs, o)
			if rep == 0 {
				// the key list before drawing: sorted CRC keys, then voted producers after the unclaimed ones (by vote rights descending)
				var ck []string
				for _, c := range crcs {
					ck = append(ck, common.BytesToHexString(c.GetOwnerPublicKey()))
				}
				sort.Strings(ck)
				for _, p := range g.arb.GetSortedProducersDposV2Verif()[unclaimed:] {
					vp = append(vp, common.BytesToHexString(p.Info().OwnerKey))
				}
				keys = append(ck, vp...)
			}
		}
		for r := 1; r < len(outs); r++ {
			if fmt.Sprint(outs[r]) != fmt.Sprint(outs[0]) {
				st.Fail("getRandomDposV2Producers:nondeterministic", "DPoS v2 producer choice differs between runs on the same chain data", map[string]interface{}{"height": height, "a": outs[0], "b": outs[r]})
			}
		}
		// correspondence: keys are numbered by their position in the pre-draw list
		num := map[string]int{}
		var kz []string
		for i, k := range keys {
			num[k] = i + 1
			kz = append(kz, fmt.Sprintf("%d", i+1))
		}
		count := normal + len(f.params.DPoSConfiguration.CRCArbiters)
		var draws []string
		if len(keys) > count {
			r := rand.New(rand.NewSource(seedOf(y)))
			for i := 0; i < count; i++ {
				draws = append(draws, fmt.Sprintf("%d", r.Intn(len(keys)-i)))
			}
		}
		var oz []string
		for _, k := range outs[0] {
			oz = append(oz, fmt.Sprintf("%d", num[k]))
		}
		k := next()
		sh.Add(fmt.Sprintf("CV2 %d %s %d %s %s", k, lib.CoqList(kz), count, lib.CoqList(draws), lib.CoqList(oz)))
		st.LogCase(run.Out, k, map[string]interface{}{"op": "getRandomDposV2Producers", "corpus": corpus, "height": height, "producers": nProd, "crc": nCRC, "unclaimed": unclaimed, "count": count, "out": oz})
		st.Count(fmt.Sprintf("v2:%d:%d:%d:%d", seedOf(y), nProd, nCRC, unclaimed), len(keys) > count, "getRandomDposV2Producers")
	}
	v2Case(500, 1, 60, 12, 0, "more keys than seats")
	v2Case(501, 2, 10, 4, 0, "fewer keys than seats")
	for i := 0; i < run.N(25, 1500); i++ {
		v2Case(uint32(600+i), rng.U64(), rng.Range(0, 90), rng.Range(0, 12), 0, "")
	}

	// ---- DPoS v2 vote rights and ranking: producers holding several stakes with different lock
	// times (fractional weights), pairs of producers with identical stake sets (must tie and rank by
	// node key); every evaluation walks the two nested maps in a fresh random order, and the state is
	// rebuilt with permuted insertion order.
	type stake struct {
		addr, ref uint32
		votes     int64
		lock      uint32 // LockTime - BlockHeight
	}
	type v2prod struct {
		key    uint32
		stakes []stake
	}
	summand := func(sk stake) int64 {
		w := math.Log10(float64(sk.lock) / 7200 * 10)
		return int64(common.Fixed64(float64(common.Fixed64(sk.votes)) * w))
	}
	build := func(ps []v2prod, order []int) *fixture {
		g := newFixture()
		for _, i := range order {
			p := ps[i]
			m := map[common.Uint168]map[common.Uint256]payload.DetailedVoteInfo{}
			idx := rng.Intn(len(p.stakes) + 1)
			for k := range p.stakes {
				sk := p.stakes[(k+idx)%len(p.stakes)]
				var a common.Uint168
				copy(a[:], key4(sk.addr))
				var r common.Uint256
				copy(r[:], key4(sk.ref))
				if m[a] == nil {
					m[a] = map[common.Uint256]payload.DetailedVoteInfo{}
				}
				m[a][r] = payload.DetailedVoteInfo{BlockHeight: 1000, Info: []payload.VotesWithLockTime{{Votes: common.Fixed64(sk.votes), LockTime: 1000 + sk.lock}}}
			}
			g.arb.AddProducerVerifC24(append([]byte{3}, key4(p.key^0x77777777)...), key4(p.key), 1, m)
		}
		return g
	}
	rightsCase := func(ps []v2prod, corpus string) {
		effective := int64(f.params.DPoSV2EffectiveVotes)
		exact := map[uint32]int64{}
		for _, p := range ps {
			var t int64
			for _, sk := range p.stakes {
				t += summand(sk)
			}
			exact[p.key] = t
		}
		describe := func(p v2prod) map[string]interface{} {
			var sks []string
			for _, sk := range p.stakes {
				sks = append(sks, fmt.Sprintf("{stake %d ref %d votes %d lock %d}", sk.addr, sk.ref, sk.votes, sk.lock))
			}
			return map[string]interface{}{"node_key": p.key, "stakes": sks, "exact_integer_rights": exact[p.key]}
		}
		var firstOrder []uint32
		for rep := 0; rep < 4; rep++ {
			order := make([]int, len(ps))
			for i := range order {
				order[i] = i
			}
			if rep > 0 {
				for i := len(order) - 1; i > 0; i-- {
					j := rng.Intn(i + 1)
					order[i], order[j] = order[j], order[i]
				}
			}
			g := build(ps, order)
			// (a) the rights of one producer: same bits on every evaluation, and the exact integer sum
			byKey := map[uint32]*state.Producer{}
			for _, p := range g.arb.State.ActivityProducers {
				byKey[binary.BigEndian.Uint32(p.NodePublicKey())] = p
			}
			for _, p := range ps {
				pr := byKey[p.key]
				v0 := pr.GetTotalDPoSV2VoteRights()
				if rep == 0 {
					st.Count(fmt.Sprintf("rights:%d:%d", p.key, exact[p.key]), len(p.stakes) >= 3, "GetTotalDPoSV2VoteRights")
				}
				bad := false
				for e := 0; e < 25 && !bad; e++ {
					if v := pr.GetTotalDPoSV2VoteRights(); math.Float64bits(v) != math.Float64bits(v0) {
						in := describe(p)
						in["value_a"], in["value_b"] = fmt.Sprintf("%.6f", v0), fmt.Sprintf("%.6f", v)
						st.Fail("GetTotalDPoSV2VoteRights:map-order", "the DPoS v2 vote rights of one producer change from one evaluation to the next with no change of chain data (float sum in map iteration order)", in)
						bad = true
					}
				}
				if !bad && exact[p.key] < 1<<53 && v0 != float64(exact[p.key]) {
					in := describe(p)
					in["value"] = fmt.Sprintf("%.6f", v0)
					st.Fail("GetTotalDPoSV2VoteRights:not-integer-sum", "DPoS v2 vote rights are not the exact sum of the per-vote whole-sela rights (addends not truncated: the float sum is order dependent)", in)
				}
			}
			// (b) ranking: identical on every evaluation and every rebuild
			for e := 0; e < 12; e++ {
				var o []uint32
				for _, p := range g.arb.GetSortedProducersDposV2Verif() {
					o = append(o, binary.BigEndian.Uint32(p.NodePublicKey()))
				}
				if firstOrder == nil {
					firstOrder = o
					if o == nil {
						firstOrder = []uint32{}
					}
				} else if fmt.Sprint(o) != fmt.Sprint(firstOrder) {
					var all []interface{}
					for _, p := range ps {
						all = append(all, describe(p))
					}
					st.Fail("getSortedProducersDposV2:map-order", "the DPoS v2 producer ranking differs between evaluations / rebuilds of the same chain data", map[string]interface{}{"order_a": firstOrder, "order_b": o, "producers": all})
					e = 99
				}
			}
		}
		// correspondence: rank by exact integer rights (descending), node key (ascending), above the threshold
		var in, og []string
		for _, p := range ps {
			if exact[p.key] > effective {
				in = append(in, fmt.Sprintf("(%d,%d)", exact[p.key], p.key))
			}
		}
		for _, k := range firstOrder {
			og = append(og, fmt.Sprintf("%d", k))
		}
		k := next()
		sh.Add(fmt.Sprintf("CSort %d %s %s", k, lib.CoqList(in), lib.CoqList(og)))
		st.LogCase(run.Out, k, map[string]interface{}{"op": "getSortedProducersDposV2", "corpus": corpus, "in": in, "out": firstOrder})
		st.Count("sortv2:"+strings.Join(in, ""), len(firstOrder) > 1, "getSortedProducersDposV2")
	}
	genProd := func(key uint32, nst int) v2prod {
		p := v2prod{key: key}
		for i := 0; i < nst; i++ {
			p.stakes = append(p.stakes, stake{addr: uint32(1 + rng.Intn(3)), ref: uint32(rng.U64()) | 1, votes: (1 + int64(rng.Intn(900000))) * 100000000 / int64(1+rng.Intn(7)),
				lock: uint32(7200 + rng.Intn(7200*999))})
		}
		return p
	}
	twin := func(p v2prod, key uint32) v2prod {
		q := v2prod{key: key}
		q.stakes = append(q.stakes, p.stakes...)
		return q
	}
	{
		a := v2prod{key: 900, stakes: []stake{{1, 11, 123456789012, 7200 * 3}, {1, 12, 987654321098, 7200*30 + 17}, {2, 13, 555555555555, 7200*100 + 3333}, {3, 14, 4200000000000, 7200*365 + 1}, {2, 15, 31415926535, 9999}}}
		rightsCase([]v2prod{a, twin(a, 100), twin(a, 500), genProd(7, 3)}, "three producers with one five-stake set: tie, ranked by node key")
	}
	for i := 0; i < run.N(25, 1500); i++ {
		var ps []v2prod
		n := 2 + rng.Intn(10)
		for j := 0; j < n; j++ {
			p := genProd(uint32(1000+rng.Intn(100000)), 1+rng.Intn(7))
			dup := false
			for _, q := range ps {
				dup = dup || q.key == p.key
			}
			if dup {
				continue
			}
			ps = append(ps, p)
			if rng.Chance(40) {
				k2 := uint32(rng.Intn(1000))
				for _, q := range ps {
					dup = dup || q.key == k2
				}
				if !dup {
					ps = append(ps, twin(p, k2))
				}
			}
		}
		rightsCase(ps, "")
	}

	// ---- CRC arbiter selection: a committee in which several members have not claimed a DPoS node
	// while several configured CRC arbiter keys are unclaimed. Unclaimed members (in DID order) must
	// get the unclaimed configured keys in sorted order, on every evaluation and every rebuild.
	crcCase := func(nUnclaimed int, v2 bool, corpus string) {
		params := config.GetDefaultParams()
		keys := params.DPoSConfiguration.CRCArbiters
		if len(keys) < 4 || nUnclaimed > len(keys) {
			return
		}
		type memb struct {
			did     common.Uint168
			code    []byte
			claimed string
		}
		var ms []memb
		claimOrder := rng.Intn(len(keys))
		for i := range keys {
			_, pub, err := crypto.GenerateKeyPair()
			if err != nil {
				panic(err)
			}
			pk, _ := pub.EncodePoint(true)
			code := append(append([]byte{byte(len(pk))}, pk...), 0xac)
			var did common.Uint168
			copy(did[:], rng.Bytes(21))
			m := memb{did: did, code: code}
			if i >= nUnclaimed {
				m.claimed = keys[(i+claimOrder)%len(keys)]
			}
			ms = append(ms, m)
		}
		didOfOwner := map[string]string{}
		for _, m := range ms {
			didOfOwner[common.BytesToHexString(m.code[1:len(m.code)-1])] = m.did.String()
		}
		// expected pairing, computed independently
		claimedSet := map[string]bool{}
		for _, m := range ms {
			if m.claimed != "" {
				claimedSet[m.claimed] = true
			}
		}
		var free []string
		for _, k := range keys {
			if !claimedSet[k] {
				free = append(free, k)
			}
		}
		sort.Strings(free)
		byDID := append([]memb{}, ms...)
		sort.Slice(byDID, func(i, j int) bool { return byDID[i].did.Compare(byDID[j].did) < 0 })
		expect := map[string]string{}
		fi := 0
		for _, m := range byDID {
			if m.claimed == "" {
				expect[m.did.String()] = free[fi]
				fi++
			} else {
				expect[m.did.String()] = m.claimed
			}
		}
		var first string
		for rep := 0; rep < 6; rep++ {
			g := newFixture()
			g.params = params
			g.arb = state.NewArbitersVerifC24(params, func(uint32) (*types.Block, error) { return nil, fmt.Errorf("no block") })
			com := crstate.NewCommittee(params, checkpoint.NewManager(params))
			perm := rng.Intn(len(ms))
			for i := range ms {
				m := ms[(i+perm)%len(ms)]
				var dpk []byte
				if m.claimed != "" {
					dpk, _ = common.HexStringToBytes(m.claimed)
				}
				com.Members[m.did] = &crstate.CRMember{Info: payload.CRInfo{Code: m.code, DID: m.did}, MemberState: crstate.MemberInactive, DPOSPublicKey: dpk}
			}
			g.arb.SetCRCommitteeVerifC24(com)
			for i := 0; i < 40; i++ {
				_, pub, _ := crypto.GenerateKeyPair()
				pk, _ := pub.EncodePoint(true)
				g.arb.AddProducerVerifC24(pk, pk, common.Fixed64(1000+i), nil)
			}
			for e := 0; e < 8; e++ {
				var res map[common.Uint168]state.ArbiterMember
				var err error
				panicked, pv := lib.Recover(func() {
					if v2 {
						res, _, err = g.arb.GetCRCArbitersV2Verif(10)
					} else {
						res, err = g.arb.GetCRCArbitersV1Verif(10)
					}
				})
				if panicked || err != nil {
					st.Extra["crc_case_error"] = fmt.Sprint(pv, err)
					return
				}
				got := map[string]string{}
				var canon []string
				for _, ar := range res {
					d := didOfOwner[common.BytesToHexString(ar.GetOwnerPublicKey())]
					got[d] = common.BytesToHexString(ar.GetNodePublicKey())
					canon = append(canon, d+"="+got[d][:16])
				}
				sort.Strings(canon)
				c := strings.Join(canon, " ")
				in := map[string]interface{}{"v2": v2, "unclaimed_members": nUnclaimed, "unclaimed_configured_keys": free, "corpus": corpus}
				if first == "" {
					first = c
					for d, k := range expect {
						if got[d] != k {
							in["member"], in["got_node_key"], in["expected_node_key"] = d, got[d], k
							st.Fail("getCRCArbiters:key-assignment", "an unclaimed CR member did not get the next unclaimed configured CRC key in sorted order (members in DID order)", in)
							break
						}
					}
				} else if c != first {
					in["assignment_a"], in["assignment_b"] = first, c
					st.Fail("getCRCArbiters:map-order", "the CRC arbiter set (which configured node key each unclaimed CR member gets) differs between evaluations / rebuilds of the same chain data", in)
					return
				}
			}
		}
		st.Count(fmt.Sprintf("crc:%v:%d:%s", v2, nUnclaimed, first), nUnclaimed >= 2, "getCRCArbiters")
	}
	crcCase(3, true, "three unclaimed members, V2")
	crcCase(3, false, "three unclaimed members, V1")
	for i := 0; i < run.N(6, 300); i++ {
		crcCase(rng.Range(0, 6), rng.Bool(), "")
	}

	atomic.StoreInt32(&hammerStop, 1)
	<-hammerDone
	st.Traces = st.Evals
	sh.Flush()
	st.Write(run.Out)
}

// fakeArbiter is a CR-council arbiter stand-in: only IsNormal and the owner
// key are read by getRandomDposV2Producers.
type fakeArbiter struct {
	state.ArbiterMember
	key []byte
}

func (a *fakeArbiter) IsNormal() bool             { return true }
func (a *fakeArbiter) GetOwnerPublicKey() []byte  { return a.key }
func (a *fakeArbiter) GetNodePublicKey() []byte   { return a.key }
func (a *fakeArbiter) GetType() state.ArbiterType { return state.CRC }
