package main

import (
	"bytes"
	"encoding/hex"
	"math/big"

	"github.com/elastos/Elastos.ELA/auxpow"
	"github.com/elastos/Elastos.ELA/blockchain"
	"github.com/elastos/Elastos.ELA/common"
	"github.com/elastos/Elastos.ELA/common/config"
	"github.com/elastos/Elastos.ELA/core"
	transaction2 "github.com/elastos/Elastos.ELA/core/transaction"
	"github.com/elastos/Elastos.ELA/core/types"
	common2 "github.com/elastos/Elastos.ELA/core/types/common"
	"github.com/elastos/Elastos.ELA/core/types/functions"
	"github.com/elastos/Elastos.ELA/core/types/interfaces"
	"github.com/elastos/Elastos.ELA/core/types/payload"

	"verifharness/lib"
)

// A block of the repository's own test suite (test/unit/blockvalidator_test.go)
// that passes CheckBlockSanity: one coinbase and one transfer transaction.
// Its two transactions are the templates all generated transactions derive from.
const testBlockHex = "000000007b3a8b2032301d0f9fafadee3bddba8d798a3ce1ed1574063ae3bb55628cec763a45dffe0f38d9efb5" +
	"0a41dbe6b7f4186ba9b4861ad624fdde6e1e775a81b0d3687f4c5add01561d000000001027000001000000010000000000000" +
	"000000000000000000000000000000000000000000000000000000000002cfabe6d6d6d126217acca4ed3b3aa40de6d1dad67" +
	"61a7bba4ebdb67c88714455cea580084010000000000000000000000000000000000000000000000000000000000000000000" +
	"0000000000000000000000000000000000000000000000000ffffff7f00000000000000000000000000000000000000000000" +
	"000000000000000000009fba1be4874f22da581831eb1a5243e53b51e57f3021222943a6a2919d19c19d687f4c5a000000001" +
	"28c95000102000000000403454c4101000847cfc35085f3aec001000000000000000000000000000000000000000000000000" +
	"0000000000000000ffffffffffff02b037db964a231458d2d6ffd5ea18944c4f90e63d547c5d3b9874df66a4ead0a3b54afb0" +
	"80000000000000000129e9cf1c5f336fcf3a6c954444ed482c5d916e506b037db964a231458d2d6ffd5ea18944c4f90e63d54" +
	"7c5d3b9874df66a4ead0a3a803f5140000000000000000129e9cf1c5f336fcf3a6c954444ed482c5d916e5061027000000020" +
	"000016c3a8d6db4d3b4ccad1712a29c5e90e2e7bc26c603995fc18a37c85a5420ad445600ffffffff02b037db964a231458d2" +
	"d6ffd5ea18944c4f90e63d547c5d3b9874df66a4ead0a3047823a7170100000000000021190ff3b12919c17f232db55431832" +
	"2a6b43ba372b037db964a231458d2d6ffd5ea18944c4f90e63d547c5d3b9874df66a4ead0a300b864d9450000000000000021" +
	"fa402bfaecabefacb6379c08edb5224fd95e25f700000000014140c72db63b7fdf90b8bf34e91f0a6394e25d1340f178a1776" +
	"bdc344fecf8ced8e4db627fb9ffa7068c51d3d15b92a749ffa407e2593833ec836d4cdaae1062abe52321035e1529938d1a36" +
	"bef97806557bdb4faec8c83a8fc557c1afb287b07bd923c589ac"

type fixture struct {
	chain    *blockchain.BlockChain
	params   *config.Configuration
	tmplHdr  common2.Header
	cbBytes  []byte // serialized template coinbase
	trBytes  []byte // serialized template transfer
	height   uint32
	auxCache map[common.Uint256]auxpow.AuxPow
}

func newFixture() *fixture {
	functions.GetTransactionByTxType = transaction2.GetTransaction
	functions.GetTransactionByBytes = transaction2.GetTransactionByBytes
	functions.CreateTransaction = transaction2.CreateTransaction
	functions.GetTransactionParameters = transaction2.GetTransactionparameters
	config.DefaultParams = *config.GetDefaultParams()
	params := *config.GetDefaultParams()
	params.GenesisBlock = core.GenesisBlock(*params.FoundationProgramHash)
	blockchain.FoundationAddress = *params.FoundationProgramHash
	// easiest proof-of-work target, so that a header can be "mined" in a few tries
	params.PowConfiguration.PowLimitBits = 0x207fffff
	params.PowConfiguration.PowLimit = new(big.Int).Sub(new(big.Int).Lsh(big.NewInt(1), 255), big.NewInt(1))
	// RevertToPOW transactions (no inputs, no outputs) are admitted from height 0
	params.DPoSConfiguration.RevertToPOWStartHeight = 0

	raw, err := hex.DecodeString(testBlockHex)
	if err != nil {
		panic(err)
	}
	var blk types.Block
	if err := blk.Deserialize(bytes.NewReader(raw)); err != nil {
		panic(err)
	}
	if len(blk.Transactions) != 2 {
		panic("template block: want 2 transactions")
	}
	ser := func(tx interfaces.Transaction) []byte {
		b := new(bytes.Buffer)
		if err := tx.Serialize(b); err != nil {
			panic(err)
		}
		return b.Bytes()
	}
	f := &fixture{
		chain:    blockchain.NewSanityVerif(&params),
		params:   &params,
		tmplHdr:  blk.Header,
		cbBytes:  ser(blk.Transactions[0]),
		trBytes:  ser(blk.Transactions[1]),
		height:   blk.Header.Height,
		auxCache: map[common.Uint256]auxpow.AuxPow{},
	}
	return f
}

func (f *fixture) decode(b []byte) interfaces.Transaction {
	r := bytes.NewReader(b)
	tx, err := functions.GetTransactionByBytes(r)
	if err != nil {
		panic(err)
	}
	if err := tx.Deserialize(r); err != nil {
		panic(err)
	}
	return tx
}

// coinbase with a fresh payload (distinct id)
func (f *fixture) coinbase(rng *lib.Rng) interfaces.Transaction {
	tx := f.decode(f.cbBytes)
	tx.SetPayload(&payload.CoinBase{Content: rng.Bytes(8)})
	return tx
}

// transfer spending a fresh outpoint (distinct id, no duplicate UTXO)
func (f *fixture) transfer(rng *lib.Rng) interfaces.Transaction {
	tx := f.decode(f.trBytes)
	in := tx.Inputs()
	copy(in[0].Previous.TxID[:], rng.Bytes(32))
	in[0].Previous.Index = uint16(rng.Intn(4))
	tx.SetInputs(in)
	return tx
}

// RevertToPOW: a transaction without inputs, outputs, attributes or programs,
// so that a copy of it collides with nothing but the duplicate-transaction check
func (f *fixture) revert(rng *lib.Rng) interfaces.Transaction {
	return functions.CreateTransaction(common2.TxVersion09, common2.RevertToPOW, 0,
		&payload.RevertToPOW{Type: payload.RevertType(rng.Intn(3)), WorkingHeight: uint32(rng.U64())},
		[]*common2.Attribute{}, []*common2.Input{}, []*common2.Output{}, 0, nil)
}

// block assembles a block around txs whose header commits to root, with a
// valid merged-mining proof and proof of work for that header.
func (f *fixture) block(root common.Uint256, txs []interfaces.Transaction) *types.Block {
	hdr := f.tmplHdr
	hdr.MerkleRoot = root
	hdr.Bits = 0x207fffff
	if ap, ok := f.auxCache[root]; ok {
		hdr.AuxPow = ap
	} else {
		h := hdr.Hash()
		ap := auxpow.GenerateAuxPow(h)
		ap.ParBlockHeader.Timestamp = 1500000000
		for n := uint32(0); ; n++ {
			ap.ParBlockHeader.Nonce = n
			hdr.AuxPow = *ap
			if blockchain.CheckProofOfWork(&hdr, f.params.PowConfiguration.PowLimit) == nil {
				break
			}
		}
		f.auxCache[root] = hdr.AuxPow
	}
	return &types.Block{Header: hdr, Transactions: txs}
}

// sanity calls the real BlockChain.CheckBlockSanity: accepted?, panicked?
func (f *fixture) sanity(b *types.Block) (ok bool, panicked bool, msg string) {
	p, v := lib.Recover(func() {
		err := f.chain.CheckBlockSanity(b)
		ok = err == nil
		if err != nil {
			msg = err.Error()
		}
	})
	if p {
		return false, true, "panic: " + toString(v)
	}
	return ok, false, msg
}
