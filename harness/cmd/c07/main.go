// C07 correspondence and property oracle: crypto.ComputeRoot and
// BlockChain.CheckBlockSanity of /repo against coq/model/C07_Merkle.v.
//
// For every transaction count n in 1..N a block accepted by the real
// CheckBlockSanity is built (valid merged-mining proof, proof of work,
// sanity-valid transactions of three kinds); then every single mutation of its
// transaction list (change / remove / exchange / duplicate / insert, second
// coinbase, no coinbase, duplicated tails of the CVE-2012-2459 family) is
// submitted under the unchanged header, and a sample of them under a header
// re-rooted to the mutated list.  The oracle is the property statement: an
// accepted block has the committed root, a first-and-only coinbase and no
// repeated transaction, and no mutated list is accepted under the old header.
package main

import (
	"crypto/sha256"
	"fmt"
	"math/big"
	"strings"

	"github.com/elastos/Elastos.ELA/common"
	"github.com/elastos/Elastos.ELA/core/types/interfaces"
	"github.com/elastos/Elastos.ELA/crypto"

	"verifharness/elaenv"
	"verifharness/lib"
)

func toString(v interface{}) string { return fmt.Sprint(v) }

// ---- independent reference (Go standard library only) ----

func refParent(l, r common.Uint256) common.Uint256 {
	var b [64]byte
	copy(b[:32], l[:])
	copy(b[32:], r[:])
	h1 := sha256.Sum256(b[:])
	return common.Uint256(sha256.Sum256(h1[:]))
}

type pair struct{ l, r, h common.Uint256 }

// refRoot levels the list with duplicate-last and records every parent computed.
func refRoot(ids []common.Uint256, rec *[]pair) (common.Uint256, bool) {
	if len(ids) == 0 {
		return common.Uint256{}, false
	}
	cur := append([]common.Uint256{}, ids...)
	for len(cur) > 1 {
		var nxt []common.Uint256
		for i := 0; i < len(cur); i += 2 {
			j := i + 1
			if j == len(cur) {
				j = i
			}
			h := refParent(cur[i], cur[j])
			if rec != nil {
				*rec = append(*rec, pair{cur[i], cur[j], h})
			}
			nxt = append(nxt, h)
		}
		cur = nxt
	}
	return cur[0], true
}

// txN encodes a transaction as 2*id + (1 if coinbase)
func txN(id *big.Int, cb bool) string {
	x := new(big.Int).Lsh(id, 1)
	if cb {
		x.Or(x, big.NewInt(1))
	}
	return x.String()
}

func u256N(h common.Uint256) string { return new(big.Int).SetBytes(h[:]).String() }

// ---- symbolic hashes: leaves are small numbers, parents are h2Sym of their
// children (the same function as C07_corr.h2_sym); the interner keeps the
// real <-> symbolic correspondence a bijection or stops the run.

var symM = new(big.Int).SetUint64(2305843009213693951)

func h2Sym(a, b uint64) uint64 {
	// ((a+7)^2 * 1000003 + (b+11)^3 * 998244353 + a*b*31 + 12345) mod (2^61-1): not linear,
	// so that exchanging grandchildren changes the value
	A, B := new(big.Int).SetUint64(a), new(big.Int).SetUint64(b)
	a7 := new(big.Int).Add(A, big.NewInt(7))
	b11 := new(big.Int).Add(B, big.NewInt(11))
	x := new(big.Int).Mul(a7, a7)
	x.Mul(x, big.NewInt(1000003))
	y := new(big.Int).Mul(b11, b11)
	y.Mul(y, b11).Mul(y, big.NewInt(998244353))
	z := new(big.Int).Mul(A, B)
	z.Mul(z, big.NewInt(31))
	x.Add(x, y).Add(x, z).Add(x, big.NewInt(12345)).Mod(x, symM)
	return x.Uint64()
}

type interner struct {
	r2s  map[common.Uint256]uint64
	s2r  map[uint64]common.Uint256
	next uint64
}

func newInterner() *interner {
	return &interner{r2s: map[common.Uint256]uint64{}, s2r: map[uint64]common.Uint256{}}
}

func (it *interner) bind(h common.Uint256, s uint64) {
	if old, ok := it.r2s[h]; ok && old != s {
		panic("symbolic hashing: one real hash, two symbols (leaf equal to an interior node?)")
	}
	if old, ok := it.s2r[s]; ok && old != h {
		panic("symbolic hashing: clash of h2Sym, change its constants")
	}
	it.r2s[h], it.s2r[s] = s, h
}

// leaf interns a transaction id
func (it *interner) leaf(h common.Uint256) uint64 {
	if v, ok := it.r2s[h]; ok {
		return v
	}
	it.next++
	it.bind(h, it.next)
	return it.next
}

// tree registers every node of the reference tree over ids and returns the root's symbol
func (it *interner) tree(ids []common.Uint256) uint64 {
	for _, h := range ids {
		it.leaf(h)
	}
	var rec []pair
	root, ok := refRoot(ids, &rec)
	if !ok {
		return 0
	}
	for _, p := range rec { // children are registered before their parents
		it.bind(p.h, h2Sym(it.r2s[p.l], it.r2s[p.r]))
	}
	return it.r2s[root]
}

// sym maps a real hash to its symbol, 0 if the reference trees never produced it
func (it *interner) sym(h common.Uint256) uint64 { return it.r2s[h] }

type txe struct {
	tx interfaces.Transaction
	id common.Uint256
	cb bool
	k  string // kind: cb | tr | rv
}

func mk(tx interfaces.Transaction, k string) txe {
	return txe{tx: tx, id: tx.Hash(), cb: tx.IsCoinBaseTx(), k: k}
}

func main() {
	run := lib.ParseArgs()
	elaenv.InitLog(run.Out)
	rng := lib.NewRng(run.Seed)
	st := lib.NewStats("C07", "blocks with 1..N transactions (coinbase + transfer + zero-input RevertToPOW) accepted by the real CheckBlockSanity, every single mutation of the list under the unchanged header (change/remove/exchange/duplicate/insert/second coinbase/no coinbase/duplicated tails) and re-rooted controls; ComputeRoot on random hash lists of length 0..N. nontrivial = accepted block, or a mutation of an accepted block; distinct by (n, variant, mutation, positions, verdict)")
	sh := &lib.Shards{Dir: run.Out, Imports: "From ELA Require Import corr.C07_corr.", CaseType: "C07_corr.case",
		Mismatch: "C07_corr.mismatches", Scope: "N", PerShard: 300}
	f := newFixture()
	id := 0
	var heavy, light []string // heavy = evaluated with SHA-256d inside Coq

	// ---------------------------------------------------------------- ComputeRoot
	rootCase := func(ids []common.Uint256, what string) {
		id++
		var out common.Uint256
		var err error
		p, v := lib.Recover(func() { out, err = crypto.ComputeRoot(ids) })
		if p {
			st.Fail("ComputeRoot:panic", "ComputeRoot panicked: "+toString(v), map[string]interface{}{"n": len(ids)})
			return
		}
		var hs []string
		for _, h := range ids {
			hs = append(hs, u256N(h))
		}
		heavy = append(heavy, fmt.Sprintf("CRoot %d %s %s", id, lib.CoqList(hs), lib.CoqOpt(err == nil, u256N(out))))
		st.LogCase(run.Out, id, map[string]interface{}{"op": "ComputeRoot", "what": what, "n": len(ids), "ok": err == nil, "root": out.String()})
		st.Count(fmt.Sprintf("root:%s:%d:%s", what, len(ids), out.String()), len(ids) > 0, "ComputeRoot")
		want, ok := refRoot(ids, nil)
		if ok != (err == nil) || (ok && want != out) {
			st.Fail("ComputeRoot:value", "ComputeRoot differs from the duplicate-last SHA-256d tree", map[string]interface{}{"n": len(ids), "got": out.String(), "want": want.String()})
		}
	}
	maxRootN := 40
	if run.Thorough() {
		maxRootN = 100
	}
	for n := 0; n <= maxRootN; n++ {
		reps := 1
		if run.Thorough() && n <= 40 {
			reps = 3
		}
		for r := 0; r < reps*run.Scale; r++ {
			ids := make([]common.Uint256, n)
			for i := range ids {
				copy(ids[i][:], rng.Bytes(32))
			}
			rootCase(ids, "random")
		}
	}
	{ // duplicated tails share the root (why the duplicate check is needed)
		ids := make([]common.Uint256, 6)
		for i := range ids {
			copy(ids[i][:], rng.Bytes(32))
		}
		rootCase(ids[:3], "tail")
		rootCase(append(append([]common.Uint256{}, ids[:3]...), ids[2]), "tail-dup")
		rootCase(ids, "tail")
		rootCase(append(append([]common.Uint256{}, ids...), ids[4], ids[5]), "tail-dup")
		a, _ := crypto.ComputeRoot(ids[:3])
		b, _ := crypto.ComputeRoot(append(append([]common.Uint256{}, ids[:3]...), ids[2]))
		st.Extra["dup_tail_same_root_observed"] = a == b
	}

	// ---------------------------------------------------------------- CheckBlockSanity
	accepts, mutants := 0, 0
	// submit list l under header root hdr; base = the accepted list this is a mutation of (nil for a base block)
	submit := func(l []txe, hdrList []common.Uint256, real bool, n, variant int, mut string, pos []int, mutated, rerooted bool) bool {
		id++
		txs := make([]interfaces.Transaction, len(l))
		ids := make([]common.Uint256, len(l))
		for i, t := range l {
			txs[i], ids[i] = t.tx, t.id
		}
		hdr, _ := refRoot(hdrList, nil)
		ok, panicked, msg := f.sanity(f.block(hdr, txs))
		var goRoot common.Uint256
		var rerr error
		if p, _ := lib.Recover(func() { goRoot, rerr = crypto.ComputeRoot(ids) }); p {
			rerr = fmt.Errorf("panic")
		}
		// Coq term
		var term string
		if real {
			var ts []string
			for _, t := range l {
				ts = append(ts, txN(new(big.Int).SetBytes(t.id[:]), t.cb))
			}
			term = fmt.Sprintf("CSanity %d false %s %s %s %s", id, u256N(hdr), lib.CoqList(ts),
				lib.CoqOpt(rerr == nil, u256N(goRoot)), lib.CoqBool(ok))
			heavy = append(heavy, term)
		} else {
			it := newInterner()
			it.tree(ids)
			it.tree(hdrList)
			var ts []string
			for _, t := range l {
				ts = append(ts, txN(new(big.Int).SetUint64(it.leaf(t.id)), t.cb))
			}
			term = fmt.Sprintf("CSanity %d true %d %s %s %s", id, it.sym(hdr), lib.CoqList(ts),
				lib.CoqOpt(rerr == nil, fmt.Sprint(it.sym(goRoot))), lib.CoqBool(ok))
			light = append(light, term)
		}
		var kinds []string
		for _, t := range l {
			kinds = append(kinds, t.k)
		}
		st.LogCase(run.Out, id, map[string]interface{}{"op": "CheckBlockSanity", "n": n, "variant": variant, "mutation": mut, "pos": pos,
			"rerooted": rerooted, "kinds": strings.Join(kinds, ","), "accepted": ok, "panic": panicked, "err": msg})
		st.Count(fmt.Sprintf("san:%d:%d:%s:%v:%v:%v", n, variant, mut, pos, rerooted, ok), true, "sanity:"+mut)
		if ok {
			accepts++
		}
		if mutated {
			mutants++
		}
		inp := map[string]interface{}{"n": n, "variant": variant, "mutation": mut, "pos": pos, "rerooted": rerooted, "kinds": strings.Join(kinds, ",")}
		if panicked {
			st.Fail("CheckBlockSanity:panic", "CheckBlockSanity panicked: "+msg, inp)
		}
		// ---- property oracle
		if ok {
			want, okr := refRoot(ids, nil)
			if !okr || want != hdr {
				st.Fail("CheckBlockSanity:root", "accepted a block whose header root is not the merkle root of its transaction ids", inp)
			}
			if len(l) == 0 || !l[0].cb {
				st.Fail("CheckBlockSanity:first-coinbase", "accepted a block whose first transaction is not a coinbase", inp)
			}
			for i := 1; i < len(l); i++ {
				if l[i].cb {
					st.Fail("CheckBlockSanity:second-coinbase", "accepted a block with a second coinbase", inp)
					break
				}
			}
			seen := map[common.Uint256]bool{}
			for _, t := range l {
				if seen[t.id] {
					st.Fail("CheckBlockSanity:duplicate", "accepted a block containing a transaction twice", inp)
					break
				}
				seen[t.id] = true
			}
			if mutated && !rerooted {
				st.Fail("CheckBlockSanity:mutation-accepted", "a mutated transaction list was accepted under the unchanged header", inp)
			}
		}
		return ok
	}

	fresh := func(k string) txe {
		switch k {
		case "cb":
			return mk(f.coinbase(rng), "cb")
		case "tr":
			return mk(f.transfer(rng), "tr")
		default:
			return mk(f.revert(rng), "rv")
		}
	}
	clone := func(l []txe) []txe { return append([]txe{}, l...) }
	idsOf := func(l []txe) []common.Uint256 {
		r := make([]common.Uint256, len(l))
		for i, t := range l {
			r[i] = t.id
		}
		return r
	}

	maxN := 40
	variants := 1
	if run.Thorough() {
		variants = 2
	}
	variants *= run.Scale
	// quick tier: every single mutation up to fullN transactions, sampled positions above
	fullN := 12
	if run.Thorough() {
		fullN = 24
	}
	for n := 1; n <= maxN; n++ {
		for vi := 0; vi < variants; vi++ {
			v := vi + 1 // variant 1: RevertToPOW at even positions, so odd-length blocks end in one
			real := n <= 3 && vi == 0 // evaluated with SHA-256d inside Coq
			base := []txe{fresh("cb")}
			for i := 1; i < n; i++ {
				switch {
				case v >= 2 && rng.Chance(50):
					base = append(base, fresh([]string{"tr", "rv"}[rng.Intn(2)]))
				case (i+v)%2 == 1:
					base = append(base, fresh("rv"))
				default:
					base = append(base, fresh("tr"))
				}
			}
			R := idsOf(base)
			if !submit(base, R, real, n, v, "none", nil, false, false) {
				continue // the correspondence reports it (the model accepts)
			}
			try := func(l []txe, mut string, pos []int, reroot bool) {
				submit(l, R, real, n, v, mut, pos, true, false)
				if reroot {
					if len(l) > 0 {
						submit(l, idsOf(l), real, n, v, mut, pos, true, true)
					}
				}
			}
			sampled := func(i int) bool { return i < 2 || i >= n-2 || n <= fullN || rng.Chance(8) }
			// change: a fresh transaction of the same kind at position i
			for i := 0; i < n; i++ {
				if !sampled(i) {
					continue
				}
				l := clone(base)
				l[i] = fresh(base[i].k)
				try(l, "change", []int{i}, i == 0 || rng.Chance(5))
			}
			// remove
			for i := 0; i < n; i++ {
				if !sampled(i) {
					continue
				}
				l := append(clone(base[:i]), base[i+1:]...)
				try(l, "remove", []int{i}, i <= 1 && n > 1)
			}
			// exchange two positions: neighbours, with the coinbase, random pairs (all pairs in thorough)
			for i := 0; i < n; i++ {
				for j := i + 1; j < n; j++ {
					if !((j == i+1 && sampled(i)) || (i == 0 && sampled(j)) || (run.Thorough() && n <= 16) || (n <= fullN && rng.Chance(10))) {
						continue
					}
					l := clone(base)
					l[i], l[j] = l[j], l[i]
					try(l, "exchange", []int{i, j}, i == 0 && j <= 2)
				}
			}
			// duplicate: a copy of transaction i appended, inserted right after itself, or inserted at a random place
			for i := 0; i < n; i++ {
				if !sampled(i) {
					continue
				}
				l := append(clone(base), base[i])
				try(l, "dup-append", []int{i}, i < 2 || i >= n-2)
				l = append(append(clone(base[:i+1]), base[i]), base[i+1:]...)
				try(l, "dup-adjacent", []int{i}, i <= 1)
				if sampled(i) {
					j := rng.Intn(n + 1)
					l = append(append(clone(base[:j]), base[i]), base[j:]...)
					try(l, "dup-insert", []int{i, j}, rng.Chance(20))
				}
			}
			// duplicated tails (CVE-2012-2459 family): repeat the last 2^k transactions
			for k := 1; k <= n; k *= 2 {
				l := append(clone(base), base[n-k:]...)
				try(l, "dup-tail", []int{k}, true)
			}
			// insert a fresh transaction
			for j := 0; j <= n; j++ {
				if !sampled(j) {
					continue
				}
				l := append(append(clone(base[:j]), fresh([]string{"tr", "rv"}[rng.Intn(2)])), base[j:]...)
				try(l, "insert", []int{j}, j == n)
			}
			// second coinbase: replace position i>0 by a coinbase / insert one
			for i := 1; i < n; i++ {
				if !sampled(i) {
					continue
				}
				l := clone(base)
				l[i] = fresh("cb")
				try(l, "second-coinbase", []int{i}, true)
			}
			{
				j := 1 + rng.Intn(n)
				l := append(append(clone(base[:j]), fresh("cb")), base[j:]...)
				try(l, "insert-coinbase", []int{j}, true)
			}
			// no coinbase in front: replace it by an ordinary transaction; move it to the back
			{
				l := clone(base)
				l[0] = fresh("rv")
				try(l, "no-coinbase", []int{0}, true)
				if n > 1 {
					l = append(clone(base[1:]), base[0])
					try(l, "coinbase-last", []int{0}, true)
				}
			}
			// empty block
			if vi == 0 {
				submit(nil, R, real, n, v, "empty", nil, true, false)
			}
		}
	}
	st.Extra["accepted_blocks"] = accepts
	st.Extra["mutants_submitted"] = mutants
	if accepts == 0 {
		st.Fail("harness:no-accept", "no generated block was accepted by CheckBlockSanity (fixture broken)", nil)
	}
	st.Sample(map[string]interface{}{"op": "CheckBlockSanity", "accepted_blocks": accepts, "mutants": mutants})

	// interleave heavy cases among the light ones so that shards are balanced
	step := 1
	if len(heavy) > 0 {
		step = len(light)/len(heavy) + 1
	}
	hi := 0
	for i, c := range light {
		if i%step == 0 && hi < len(heavy) {
			sh.Add(heavy[hi])
			hi++
		}
		sh.Add(c)
	}
	for ; hi < len(heavy); hi++ {
		sh.Add(heavy[hi])
	}
	st.Traces = st.Evals
	sh.Flush()
	st.Write(run.Out)
}
