// C08 correspondence and property oracle: bloom.NewMerkleBlock,
// bloom.CheckMerkleBlock, bloom.GetTxMerkleBranch and auxpow.GetMerkleRoot of
// /repo against coq/model/C08_PMT.v.
//
// For transaction counts 1..33 and match patterns (all 2^n patterns for small n,
// boundary and random patterns above) a block is filtered by a real bloom
// filter; the merkle block is checked, corrupted (every/sampled single flag
// bit, single hash bit, transaction count, truncation, foreign root) and
// checked again; a merkle branch is extracted for matched transactions and
// evaluated.  The oracle is the property statement.
package main

import (
	"crypto/sha256"
	"fmt"
	"math/big"
	"time"

	"github.com/elastos/Elastos.ELA/auxpow"
	"github.com/elastos/Elastos.ELA/common"
	transaction2 "github.com/elastos/Elastos.ELA/core/transaction"
	"github.com/elastos/Elastos.ELA/core/types"
	common2 "github.com/elastos/Elastos.ELA/core/types/common"
	"github.com/elastos/Elastos.ELA/core/types/functions"
	"github.com/elastos/Elastos.ELA/core/types/interfaces"
	"github.com/elastos/Elastos.ELA/core/types/payload"
	"github.com/elastos/Elastos.ELA/elanet/bloom"
	"github.com/elastos/Elastos.ELA/elanet/pact"
	"github.com/elastos/Elastos.ELA/p2p/msg"

	"verifharness/elaenv"
	"verifharness/lib"
)

// ---- independent reference (Go standard library only) ----

func refParent(l, r common.Uint256) common.Uint256 {
	var b [64]byte
	copy(b[:32], l[:])
	copy(b[32:], r[:])
	h1 := sha256.Sum256(b[:])
	return common.Uint256(sha256.Sum256(h1[:]))
}

type pair struct{ l, r, h common.Uint256 }

func refRoot(ids []common.Uint256, rec *[]pair) (common.Uint256, bool) {
	if len(ids) == 0 {
		return common.Uint256{}, false
	}
	cur := append([]common.Uint256{}, ids...)
	for len(cur) > 1 {
		var nxt []common.Uint256
		for i := 0; i < len(cur); i += 2 {
			j := i + 1
			if j == len(cur) {
				j = i
			}
			h := refParent(cur[i], cur[j])
			if rec != nil {
				*rec = append(*rec, pair{cur[i], cur[j], h})
			}
			nxt = append(nxt, h)
		}
		cur = nxt
	}
	return cur[0], true
}

// ---- symbolic hashes (same function as C07_corr.h2_sym) ----

var symM = new(big.Int).SetUint64(2305843009213693951)

func h2Sym(a, b uint64) uint64 {
	A, B := new(big.Int).SetUint64(a), new(big.Int).SetUint64(b)
	a7 := new(big.Int).Add(A, big.NewInt(7))
	b11 := new(big.Int).Add(B, big.NewInt(11))
	x := new(big.Int).Mul(a7, a7)
	x.Mul(x, big.NewInt(1000003))
	y := new(big.Int).Mul(b11, b11)
	y.Mul(y, b11).Mul(y, big.NewInt(998244353))
	z := new(big.Int).Mul(A, B)
	z.Mul(z, big.NewInt(31))
	x.Add(x, y).Add(x, z).Add(x, big.NewInt(12345)).Mod(x, symM)
	return x.Uint64()
}

type interner struct {
	r2s  map[common.Uint256]uint64
	s2r  map[uint64]common.Uint256
	next uint64
}

func newInterner() *interner {
	return &interner{r2s: map[common.Uint256]uint64{}, s2r: map[uint64]common.Uint256{}}
}

func (it *interner) bind(h common.Uint256, s uint64) {
	if old, ok := it.r2s[h]; ok && old != s {
		panic("symbolic hashing: one real hash, two symbols")
	}
	if old, ok := it.s2r[s]; ok && old != h {
		panic("symbolic hashing: clash of h2Sym, change its constants")
	}
	it.r2s[h], it.s2r[s] = s, h
}

// leaf interns a hash that is not a known tree node as a fresh small number
func (it *interner) leaf(h common.Uint256) uint64 {
	if v, ok := it.r2s[h]; ok {
		return v
	}
	it.next++
	it.bind(h, it.next)
	return it.next
}

func (it *interner) tree(ids []common.Uint256) {
	for _, h := range ids {
		it.leaf(h)
	}
	var rec []pair
	refRoot(ids, &rec)
	for _, p := range rec {
		it.bind(p.h, h2Sym(it.r2s[p.l], it.r2s[p.r]))
	}
}

// ---- printing ----

type enc struct {
	sym bool
	it  *interner
}

func (e enc) h(x common.Uint256) string {
	if e.sym {
		return fmt.Sprint(e.it.leaf(x))
	}
	return new(big.Int).SetBytes(x[:]).String()
}
func (e enc) hs(xs []common.Uint256) string {
	var r []string
	for _, x := range xs {
		r = append(r, e.h(x))
	}
	return lib.CoqList(r)
}
func (e enc) hp(xs []*common.Uint256) string {
	var r []string
	for _, x := range xs {
		r = append(r, e.h(*x))
	}
	return lib.CoqList(r)
}
func ints(xs []uint32) string {
	var r []string
	for _, x := range xs {
		r = append(r, fmt.Sprint(x))
	}
	return lib.CoqList(r)
}

func mkTx(k int, rng *lib.Rng) interfaces.Transaction {
	if k%3 == 2 {
		return functions.CreateTransaction(common2.TxVersion09, common2.TransferAsset, 0, &payload.TransferAsset{},
			[]*common2.Attribute{}, []*common2.Input{}, []*common2.Output{}, uint32(rng.U64()), nil)
	}
	return functions.CreateTransaction(common2.TxVersion09, common2.RevertToPOW, 0,
		&payload.RevertToPOW{Type: payload.RevertType(rng.Intn(3)), WorkingHeight: uint32(rng.U64())},
		[]*common2.Attribute{}, []*common2.Input{}, []*common2.Output{}, 0, nil)
}

func cloneMB(m *msg.MerkleBlock, root common.Uint256) msg.MerkleBlock {
	c := msg.MerkleBlock{Header: &common2.Header{MerkleRoot: root}, Transactions: m.Transactions}
	for _, h := range m.Hashes {
		x := *h
		c.Hashes = append(c.Hashes, &x)
	}
	c.Flags = append([]byte{}, m.Flags...)
	return c
}

func main() {
	run := lib.ParseArgs()
	elaenv.InitLog(run.Out)
	rng := lib.NewRng(run.Seed)
	functions.GetTransactionByTxType = transaction2.GetTransaction
	functions.GetTransactionByBytes = transaction2.GetTransactionByBytes
	functions.CreateTransaction = transaction2.CreateTransaction
	functions.GetTransactionParameters = transaction2.GetTransactionparameters
	st := lib.NewStats("C08", "blocks of 1..33 transactions x match patterns (all 2^n patterns for small n, none/all/single/random above) through a real bloom filter (hash filter, and tx-type filter); the merkle block as built, and corrupted: single flag bits, single hash bits, transaction count +-1 / x2 / large, truncated hashes or flags, foreign root; merkle branches of matched transactions. nontrivial = at least one matched transaction or a corrupted message; distinct by (n, pattern, corruption)")
	sh := &lib.Shards{Dir: run.Out, Imports: "From ELA Require Import corr.C08_corr.", CaseType: "C08_corr.case",
		Mismatch: "C08_corr.mismatches", Scope: "N", PerShard: 400}
	id := 0
	var heavy, light []string
	// mode 0: full (Coq cases + corruptions); 1: light (Coq cases for the honest message and
	// branches only); 2: Go-side property oracle only (used to sweep many large blocks)
	mode := 0
	var fixedTxs []interfaces.Transaction
	logc := func(id int, v interface{}) {
		if mode != 2 {
			st.LogCase(run.Out, id, v)
		}
	}
	add := func(sym bool, term string) {
		if mode == 2 {
			return
		}
		if sym {
			light = append(light, term)
		} else {
			heavy = append(heavy, term)
		}
	}
	okChecks, corruptAccepted := 0, 0

	// CheckMerkleBlock on message m against root; returns 0 error / 1 ok / 2 panic and the ids
	check := func(m msg.MerkleBlock) (int, []common.Uint256) {
		var ids []common.Uint256
		res := 0
		p, _ := lib.Recover(func() {
			r, err := bloom.CheckMerkleBlock(m)
			if err == nil {
				res = 1
				for _, h := range r {
					ids = append(ids, *h)
				}
			}
		})
		if p {
			return 2, nil
		}
		return res, ids
	}

	doBlock := func(n int, pattern []bool, sym bool, typeFilter bool) {
		// transactions; with a tx-type filter the pattern is "every TransferAsset"
		txs := make([]interfaces.Transaction, n)
		ids := make([]common.Uint256, n)
		for i := range txs {
			k := 0
			if typeFilter && pattern[i] {
				k = 2
			}
			if fixedTxs != nil {
				txs[i] = fixedTxs[i]
			} else {
				txs[i] = mkTx(k, rng)
			}
			ids[i] = txs[i].Hash()
		}
		root, _ := refRoot(ids, nil)
		blk := &types.Block{Header: common2.Header{MerkleRoot: root}, Transactions: txs}
		// the filter
		var filter *bloom.Filter
		if typeFilter {
			filter = bloom.LoadFilter(&msg.FilterLoad{Filter: []byte{}, HashFuncs: 1, Tweak: 0xffffffff,
				TxTypes: []common2.TxType{common2.TransferAsset}})
		} else {
			filter = bloom.NewFilter(uint32(n+1), uint32(rng.U64()%0xfffffff0), []float64{1e-9, 1e-7, 1e-5}[rng.Intn(3)])
			for i, b := range pattern {
				if b {
					h := ids[i]
					filter.AddHash(&h)
				}
			}
		}
		// the pattern the filter really has (false positives included), asked independently
		real := make([]bool, n)
		var want []common.Uint256
		var wantIdx []uint32
		anyMatch := false
		for i, tx := range txs {
			real[i] = filter.MatchTxAndUpdate(tx)
			if pattern[i] && !real[i] {
				st.Fail("Filter:false-negative", "a transaction added to the filter does not match", map[string]interface{}{"n": n, "i": i})
			}
			if real[i] {
				want = append(want, ids[i])
				wantIdx = append(wantIdx, uint32(i))
				anyMatch = true
			}
		}
		var mb *msg.MerkleBlock
		var midx []uint32
		if p, v := lib.Recover(func() { mb, midx = bloom.NewMerkleBlock(blk, filter) }); p {
			st.Fail("NewMerkleBlock:panic", fmt.Sprint(v), map[string]interface{}{"n": n, "pattern": fmt.Sprint(real)})
			return
		}
		it := newInterner()
		it.tree(ids)
		e := enc{sym, it}
		pat := make([]uint32, n)
		for i, b := range real {
			if b {
				pat[i] = 1
			}
		}
		var mh []common.Uint256
		for _, h := range mb.Hashes {
			mh = append(mh, *h)
		}
		fl := make([]uint32, len(mb.Flags))
		for i, b := range mb.Flags {
			fl[i] = uint32(b)
		}
		patStr := fmt.Sprint(pat)
		if n > 40 {
			patStr = fmt.Sprintf("matched=%v", wantIdx)
		}
		inp := map[string]interface{}{"n": n, "pattern": patStr, "typeFilter": typeFilter}
		id++
		add(sym, fmt.Sprintf("CBuild %d %s %s %s %d %s %s %s", id, lib.CoqBool(sym), e.hs(ids), ints(pat),
			mb.Transactions, e.hs(mh), ints(fl), ints(midx)))
		logc(id, map[string]interface{}{"op": "NewMerkleBlock", "in": inp, "hashes": len(mh), "flags": fmt.Sprint(fl), "matched": midx})
		st.Count(fmt.Sprintf("build:%d:%v:%v", n, pat, typeFilter), anyMatch, "NewMerkleBlock")
		if fmt.Sprint(midx) != fmt.Sprint(wantIdx) {
			st.Fail("NewMerkleBlock:matched-indexes", "matched indexes differ from the filter's matches", inp)
		}

		// ---- the honest message
		doCheck := func(m msg.MerkleBlock, rootUsed common.Uint256, what string, corrupted bool) {
			res, got := check(m)
			var h []common.Uint256
			for _, x := range m.Hashes {
				h = append(h, *x)
			}
			f := make([]uint32, len(m.Flags))
			for i, b := range m.Flags {
				f[i] = uint32(b)
			}
			id++
			add(sym, fmt.Sprintf("CCheck %d %s %d %s %s %s %d %s", id, lib.CoqBool(sym), m.Transactions, e.h(rootUsed), ints(f), e.hs(h), res, e.hs(got)))
			logc(id, map[string]interface{}{"op": "CheckMerkleBlock", "in": inp, "corruption": what, "numtx": m.Transactions, "res": res, "returned": len(got)})
			st.Count(fmt.Sprintf("check:%d:%v:%s", n, pat, what), anyMatch || corrupted, "check:"+kindOf(what))
			ci := map[string]interface{}{"n": n, "pattern": patStr, "corruption": what}
			if res == 2 {
				st.Fail("CheckMerkleBlock:panic", "CheckMerkleBlock panicked", ci)
			}
			if res == 1 {
				okChecks++
			}
			if !corrupted {
				// completeness and exactness
				if res != 1 || fmt.Sprint(got) != fmt.Sprint(want) {
					st.Fail("CheckMerkleBlock:honest", "the merkle block the node serves does not verify to exactly the matched transactions", ci)
				}
				return
			}
			if res == 1 {
				corruptAccepted++
				// soundness: success only against the block's root, and only for transactions of the block
				if rootUsed != root {
					st.Fail("CheckMerkleBlock:foreign-root", "verification succeeded against a root that is not the block's", ci)
				}
				inBlock := map[common.Uint256]bool{}
				for _, x := range ids {
					inBlock[x] = true
				}
				for _, x := range got {
					if !inBlock[x] {
						st.Fail("CheckMerkleBlock:not-in-block", "verification returned a transaction id that is not in the block", ci)
						break
					}
				}
			}
		}
		doCheck(cloneMB(mb, root), root, "none", false)

		// ---- corruptions
		if mode == 0 {
			nbits := len(mb.Flags) * 8
			for b := 0; b < nbits; b++ {
				if !(nbits <= 8 || rng.Chance(500/nbits) || (run.Thorough() && (nbits <= 16 || rng.Chance(30)))) {
					continue
				}
				c := cloneMB(mb, root)
				c.Flags[b/8] ^= 1 << uint(b%8)
				doCheck(c, root, fmt.Sprintf("flag-bit:%d", b), true)
			}
			for k := range mb.Hashes {
				if !(len(mb.Hashes) <= 2 || rng.Chance(250/len(mb.Hashes)) || (run.Thorough() && rng.Chance(50))) {
					continue
				}
				c := cloneMB(mb, root)
				bit := rng.Intn(256)
				c.Hashes[k][bit/8] ^= 1 << uint(bit%8)
				doCheck(c, root, fmt.Sprintf("hash-bit:%d:%d", k, bit), true)
			}
			{ // a hash replaced by a copy of its neighbour (duplicate siblings)
				if len(mb.Hashes) >= 2 {
					c := cloneMB(mb, root)
					k := rng.Intn(len(mb.Hashes) - 1)
					*c.Hashes[k+1] = *c.Hashes[k]
					doCheck(c, root, fmt.Sprintf("hash-dup:%d", k), true)
				}
			}
			for _, d := range []int64{-1, 1, int64(n), 10000 - int64(n), 10001 - int64(n), 1 << 20, 1<<31 - int64(n)} {
				nn := int64(n) + d
				if nn < 0 || nn > 1<<31 {
					continue
				}
				if d > 1000 && !(rng.Chance(15) || run.Thorough()) {
					continue
				}
				c := cloneMB(mb, root)
				c.Transactions = uint32(nn)
				doCheck(c, root, fmt.Sprintf("numtx:%d", nn), true)
			}
			{
				c := cloneMB(mb, root)
				c.Hashes = c.Hashes[:len(c.Hashes)-1]
				doCheck(c, root, "drop-last-hash", true)
				c = cloneMB(mb, root)
				c.Hashes = c.Hashes[1:]
				doCheck(c, root, "drop-first-hash", true)
				c = cloneMB(mb, root)
				c.Flags = c.Flags[:len(c.Flags)-1]
				doCheck(c, root, "drop-last-flag-byte", true)
				c = cloneMB(mb, root)
				x := ids[rng.Intn(n)]
				c.Hashes = append(c.Hashes, &x)
				c.Flags = append(c.Flags, 0xff)
				doCheck(c, root, "trailing-garbage", true)
			}
			{ // foreign roots: one flipped bit, and the root of another list
				r2 := root
				bit := rng.Intn(256)
				r2[bit/8] ^= 1 << uint(bit%8)
				doCheck(cloneMB(mb, r2), r2, "root-bit", true)
				if n > 1 {
					r3, _ := refRoot(ids[:n-1], nil)
					doCheck(cloneMB(mb, r3), r3, "root-of-prefix", true)
				}
			}

		}
		// ---- branches of matched transactions
		for _, i := range wantIdx {
			if !(len(wantIdx) <= 3 || rng.Chance(300/len(wantIdx)) || run.Thorough()) {
				continue
			}
			txid := ids[i]
			var br *bloom.MerkleBranch
			var err error
			p, v := lib.Recover(func() { br, err = bloom.GetTxMerkleBranch(cloneMB(mb, root), &txid) })
			bi := map[string]interface{}{"n": n, "pattern": patStr, "i": i}
			if p || err != nil {
				st.Fail("GetTxMerkleBranch:matched", fmt.Sprintf("no branch for a matched transaction (panic=%v %v err=%v)", p, v, err), bi)
				continue
			}
			got := auxpow.GetMerkleRoot(txid, br.Branches, br.Index)
			id++
			add(sym, fmt.Sprintf("CBranch %d %s %s %d %s %d %s", id, lib.CoqBool(sym), e.hs(ids), i, e.hs(br.Branches), br.Index, e.h(got)))
			logc(id, map[string]interface{}{"op": "GetTxMerkleBranch", "in": bi, "len": len(br.Branches), "index": br.Index})
			st.Count(fmt.Sprintf("branch:%d:%v:%d", n, pat, i), true, "GetTxMerkleBranch")
			if got != root {
				st.Fail("GetTxMerkleBranch:root", "the branch of a matched transaction does not evaluate to the block's merkle root", bi)
			}
		}
	}

	// ---- corpus: past robustness failures (fixed in /repo, see notes/C08.md); they must return an error
	if pact.MaxTxPerBlock != 10000 {
		st.Fail("harness:MaxTxPerBlock", "pact.MaxTxPerBlock is not the 10000 the model assumes", pact.MaxTxPerBlock)
	}
	{
		hx := func(b byte) *common.Uint256 { var x common.Uint256; x[0] = b; return &x }
		for _, big := range []uint32{1<<31 + 1, 0xffffffff} {
			done := make(chan int, 1)
			go func(nn uint32) {
				m := msg.MerkleBlock{Header: &common2.Header{}, Transactions: nn, Hashes: []*common.Uint256{hx(1)}, Flags: []byte{0}}
				r, _ := check(m)
				done <- r
			}(big)
			select {
			case r := <-done:
				id++
				light = append(light, fmt.Sprintf("CCheck %d true %d 5 [0] [1] %d []", id, big, r))
				st.LogCase(run.Out, id, map[string]interface{}{"op": "CheckMerkleBlock", "corpus": "huge count", "numtx": big, "res": r})
				st.Count(fmt.Sprintf("corpus:huge:%d", big), true, "check:corpus")
				if r != 0 {
					st.Fail("CheckMerkleBlock:huge-count", "a merkle block claiming more than 2^31 transactions was not rejected", big)
				}
			case <-time.After(5 * time.Second):
				st.Fail("CheckMerkleBlock:hang", "CheckMerkleBlock does not terminate for Transactions > 2^31", big)
			}
		}
		// branch of a transaction the message does not reveal / of an unknown id
		mbk := bloom.MBlock{NumTx: 4}
		for i := 0; i < 4; i++ {
			mbk.AllHashes = append(mbk.AllHashes, hx(byte(10+i)))
			mbk.MatchedBits = append(mbk.MatchedBits, 0)
		}
		mbk.MatchedBits[3] = 1
		mbk.TraverseAndBuild(2, 0)
		m := msg.MerkleBlock{Header: &common2.Header{MerkleRoot: *mbk.CalcHash(2, 0)}, Transactions: 4, Hashes: mbk.FinalHashes, Flags: []byte{0}}
		for i, b := range mbk.Bits {
			m.Flags[0] |= b << uint(i)
		}
		for _, q := range []byte{11, 99} {
			var err error
			p, v := lib.Recover(func() { _, err = bloom.GetTxMerkleBranch(m, hx(q)) })
			st.Count(fmt.Sprintf("corpus:branch:%d", q), true, "branch:corpus")
			if p || err == nil {
				st.Fail("GetTxMerkleBranch:unrevealed", fmt.Sprintf("branch request for an id the message does not reveal: panic=%v (%v) err=%v", p, v, err), q)
			}
		}
	}

	maxN := 33
	allUpTo := 4
	if run.Thorough() {
		allUpTo = 6
	}
	for n := 1; n <= maxN; n++ {
		var pats [][]bool
		if n <= allUpTo {
			for m := 0; m < 1<<uint(n); m++ {
				p := make([]bool, n)
				for i := range p {
					p[i] = m>>uint(i)&1 == 1
				}
				pats = append(pats, p)
			}
		} else {
			none, all, first, last := make([]bool, n), make([]bool, n), make([]bool, n), make([]bool, n)
			for i := range all {
				all[i] = true
			}
			first[0], last[n-1] = true, true
			pats = append(pats, none, all, first, last)
			extra := 2
			if run.Thorough() {
				extra = 7
			}
			for k := 0; k < extra*run.Scale; k++ {
				p := make([]bool, n)
				dens := []int{5, 20, 50, 90}[rng.Intn(4)]
				for i := range p {
					p[i] = rng.Chance(dens)
				}
				pats = append(pats, p)
			}
			if run.Thorough() || n%2 == 1 {
				one := make([]bool, n)
				one[rng.Intn(n)] = true
				pats = append(pats, one)
			}
		}
		for pi, p := range pats {
			sym := !(n <= 3 && pi%3 == 1)
			doBlock(n, p, sym, false)
		}
		// the tx-type filter (side chain SPV filter), one pattern per n
		p := make([]bool, n)
		for i := range p {
			p[i] = rng.Chance(40)
		}
		doBlock(n, p, true, true)
	}
	// ---- stateful filter histories: ONE Filter object lives through a sequence of relayed
	// transactions (MatchTxAndUpdate, spenders offered before their funding transaction as
	// well as after), element additions and NewMerkleBlock calls.  Oracle: the merkle block
	// served from the long-lived filter reveals exactly what a FRESH filter holding the same
	// bits matches when fed the block's transactions in block order.
	{
		histories, hblocks := 0, 0
		rndHash168 := func() common.Uint168 { var w common.Uint168; copy(w[:], rng.Bytes(21)); return w }
		mkPay := func(in *common2.OutPoint, to ...common.Uint168) interfaces.Transaction {
			var outs []*common2.Output
			for _, w := range to {
				outs = append(outs, &common2.Output{Value: common.Fixed64(1 + rng.Intn(1000)), ProgramHash: w})
			}
			return functions.CreateTransaction(common2.TxVersionDefault, common2.TransferAsset, 0, &payload.TransferAsset{},
				[]*common2.Attribute{}, []*common2.Input{{Previous: *in, Sequence: uint32(rng.U64())}}, outs, 0, nil)
		}
		rndOut := func() *common2.OutPoint {
			var h common.Uint256
			copy(h[:], rng.Bytes(32))
			return common2.NewOutPoint(h, uint16(rng.Intn(3)))
		}
		for hi := 0; hi < run.N(150, 3000); hi++ {
			histories++
			F := bloom.NewFilter(40, uint32(rng.U64()%0xfffffff0), 1e-9)
			var watched []common.Uint168
			for k := 0; k < 1+rng.Intn(3); k++ {
				w := rndHash168()
				watched = append(watched, w)
				F.Add(w[:])
			}
			// chains: fund (pays a watched or a foreign address) -> spend -> spend of the spend; plus bystanders
			var pool []interfaces.Transaction
			var chains [][]interfaces.Transaction
			for c := 0; c < 1+rng.Intn(3); c++ {
				to := rndHash168()
				if rng.Chance(80) {
					to = watched[rng.Intn(len(watched))]
				}
				a := mkPay(rndOut(), rndHash168(), to)
				b := mkPay(common2.NewOutPoint(a.Hash(), 1), rndHash168())
				cc := mkPay(common2.NewOutPoint(b.Hash(), 0), rndHash168())
				chains = append(chains, []interfaces.Transaction{a, b, cc})
				pool = append(pool, a, b, cc)
			}
			for k := 0; k < rng.Intn(4); k++ {
				pool = append(pool, mkPay(rndOut(), rndHash168()))
			}
			var trace []string
			nops := 2 + rng.Intn(6)
			for op := 0; op < nops; op++ {
				switch {
				case op < nops-1 && rng.Chance(55): // relay: spenders first, more often than not
					ch := chains[rng.Intn(len(chains))]
					t := ch[rng.Intn(3)]
					if rng.Chance(60) {
						t = ch[1+rng.Intn(2)]
					}
					if rng.Chance(15) {
						t = pool[rng.Intn(len(pool))]
					}
					r := F.MatchTxAndUpdate(t)
					trace = append(trace, fmt.Sprintf("relay(%s)=%v", t.Hash().String()[:6], r))
				case op < nops-1 && rng.Chance(10):
					w := rndHash168()
					F.Add(w[:])
					trace = append(trace, "add")
				default: // a block: a random selection of the pool, dependency order or shuffled
					var txs []interfaces.Transaction
					for _, t := range pool {
						if rng.Chance(75) {
							txs = append(txs, t)
						}
					}
					if len(txs) == 0 {
						txs = append(txs, pool[0])
					}
					if rng.Chance(30) {
						for i := len(txs) - 1; i > 0; i-- {
							j := rng.Intn(i + 1)
							txs[i], txs[j] = txs[j], txs[i]
						}
					}
					ids := make([]common.Uint256, len(txs))
					for i, t := range txs {
						ids[i] = t.Hash()
					}
					root, _ := refRoot(ids, nil)
					blk := &types.Block{Header: common2.Header{MerkleRoot: root}, Transactions: txs}
					// a fresh filter with the same bits, fed in block order
					m0 := F.GetFilterLoadMsg()
					fresh := bloom.LoadFilter(&msg.FilterLoad{Filter: append([]byte{}, m0.Filter...), HashFuncs: m0.HashFuncs,
						Tweak: m0.Tweak, Flags: m0.Flags, TxTypes: m0.TxTypes})
					var want []common.Uint256
					var wantIdx []uint32
					for i, t := range txs {
						if fresh.MatchTxAndUpdate(t) {
							want = append(want, ids[i])
							wantIdx = append(wantIdx, uint32(i))
						}
					}
					var mb *msg.MerkleBlock
					var midx []uint32
					inp := map[string]interface{}{"history": trace, "block_txs": len(txs), "fresh_filter_matches": wantIdx}
					if p, v := lib.Recover(func() { mb, midx = bloom.NewMerkleBlock(blk, F) }); p {
						st.Fail("NewMerkleBlock:panic", fmt.Sprint(v), inp)
						continue
					}
					res, got := check(cloneMB(mb, root))
					hblocks++
					st.Count(fmt.Sprintf("hist:%d:%d:%v", hi, op, wantIdx), len(wantIdx) > 0, "filter-history")
					inp["served_indexes"] = midx
					if res != 1 || fmt.Sprint(got) != fmt.Sprint(want) || fmt.Sprint(midx) != fmt.Sprint(wantIdx) {
						st.Fail("NewMerkleBlock:stateful-filter", "a long-lived filter serves a merkle block that does not reveal exactly what a fresh filter with the same bits matches", inp)
					}
					trace = append(trace, fmt.Sprintf("block(%d txs)->%v", len(txs), midx))
				}
			}
		}
		st.Extra["filter_histories"] = histories
		st.Extra["filter_history_blocks"] = hblocks
	}

	// ---- large blocks: more than 64 transactions, counts around the multiples of 64 (and of
	// the smaller powers of two), sparse patterns: a single match at every position, matches
	// only in the trailing partial group of 2..128 leaves, an early match plus a tail match.
	// A few are tied to the Coq model (mode 1), the sweep is judged by the property oracle
	// "recovered set = matched set, branch evaluates to the root" (mode 2).
	{
		largeNs := []int{63, 64, 65, 66, 100, 127, 128, 129, 130, 191, 192, 193, 200, 255, 256, 257, 300}
		if run.Thorough() {
			for n := 34; n <= 330; n += 1 + rng.Intn(4) {
				largeNs = append(largeNs, n)
			}
		}
		largeBlocks := 0
		for _, n := range largeNs {
			fixedTxs = make([]interfaces.Transaction, n)
			for i := range fixedTxs {
				fixedTxs[i] = mkTx(0, rng)
			}
			single := func(is ...int) []bool {
				p := make([]bool, n)
				for _, i := range is {
					if i >= 0 && i < n {
						p[i] = true
					}
				}
				return p
			}
			// tied to the model
			mode = 1
			tailStart := n - n%64
			if tailStart == n {
				tailStart = n - 1
			}
			doBlock(n, single(n-1), true, false)
			doBlock(n, single(5, tailStart+(n-tailStart)/2), true, false)
			// swept by the oracle
			mode = 2
			for i := 0; i < n; i++ {
				doBlock(n, single(i), true, false)
				largeBlocks++
			}
			for _, g := range []int{2, 4, 8, 16, 32, 64, 128} {
				if n%g == 0 || g > n {
					continue
				}
				p := make([]bool, n)
				for i := n - n%g; i < n; i++ {
					p[i] = true
				}
				doBlock(n, p, true, false)
				doBlock(n, single(rng.Intn(n-n%g), n-1-rng.Intn(n%g)), true, false)
				largeBlocks += 2
			}
			for k := 0; k < 6; k++ {
				p := make([]bool, n)
				for j := 0; j < 1+rng.Intn(4); j++ {
					p[rng.Intn(n)] = true
				}
				doBlock(n, p, true, false)
				largeBlocks++
			}
		}
		mode, fixedTxs = 0, nil
		st.Extra["large_blocks_swept_by_oracle"] = largeBlocks
	}
	st.Extra["successful_verifications"] = okChecks
	st.Extra["corrupted_messages_accepted"] = corruptAccepted
	st.Sample(map[string]interface{}{"op": "CheckMerkleBlock", "successful": okChecks, "corrupted_accepted_with_block_root_and_block_txs_only": corruptAccepted})

	step := 1
	if len(heavy) > 0 {
		step = len(light)/len(heavy) + 1
	}
	hi := 0
	for i, c := range light {
		if i%step == 0 && hi < len(heavy) {
			sh.Add(heavy[hi])
			hi++
		}
		sh.Add(c)
	}
	for ; hi < len(heavy); hi++ {
		sh.Add(heavy[hi])
	}
	st.Traces = st.Evals
	sh.Flush()
	st.Write(run.Out)
}

func kindOf(what string) string {
	for i, c := range what {
		if c == ':' {
			return what[:i]
		}
	}
	return what
}
