// C12 correspondence + oracle: block trees (<= 12 blocks, forks of depth <= 5,
// orphans delivered first, one invalid block inside a heavier branch, insane
// blocks, repeated deliveries) delivered to the real BlockChain.ProcessBlock of
// the regnet fixture; compared step by step with coq/model/Chain.v through
// corr/C12_corr.v.  Oracle: after every delivery the active chain is a valid
// parent-linked path and no known fully valid chain has strictly more work;
// a delivery that returns an error leaves the active chain unchanged.
package main

import (
	"fmt"
	"os"

	"verifharness/chaincase"
	"verifharness/elaenv"
	"verifharness/lib"
)

const sigFailedSwitch = "reorganizeChain: attach failure after detach leaves shorter chain"
const sigStuckOrphan = "ProcessOrphans: a failing orphan aborts the loop and leaves valid orphans of connected parents in the pool"

func eqInts(a, b []int) bool {
	if len(a) != len(b) {
		return false
	}
	for i := range a {
		if a[i] != b[i] {
			return false
		}
	}
	return true
}

func main() {
	run := lib.ParseArgs()
	elaenv.InitLog(run.Out)
	rng := lib.NewRng(run.Seed)
	st := lib.NewStats("C12", "block trees on the real regnet BlockChain (fixture): trunk 1-6, 1-3 forks of depth 1-5 (25% forking off an earlier fork), <= 12 blocks, 35% with one context-invalid block (over-paying coinbase or double spend of the genesis output) inside a branch that ends above the trunk, 10% with an insane (no PoW) block; plus in-order forks of depth 1-12 in the three height regimes (at or below CRCOnlyDPOSHeight / between / at or above RevertToPOWStartHeight) x consensus mode (DPoS, PoW, DPoS reverted to PoW) with the State's guard heights lowered, the real IsIrreversible on an exhaustive grid (3x3 height parameters x mode x 6 LIH values x tip height 0-16 x detach 0-17), and deep proof-of-work forks (7-15 below the tip, first side blocks delivered early, trunk grows, fork overtakes late); delivery natural / reversed (orphans first) / shuffled, 20% with a repeated delivery. nontrivial = history with a reorganisation, an orphan or an error; distinct by observation log")
	sh := &lib.Shards{Dir: run.Out, Imports: "From ELA Require Import corr.C12_corr.", CaseType: "C12_corr.case",
		Mismatch: "C12_corr.mismatches", Scope: "Z", PerShard: 10}
	if run.Thorough() {
		sh.PerShard = 40
	}
	id := 0

	doHist := func(h *chaincase.Hist) {
		id++
		obs, works, err := chaincase.Run(h)
		if err != nil {
			fmt.Fprintln(os.Stderr, "history", h.Name, ":", err)
			st.Fail("C12:harness", "history could not be executed: "+err.Error(), h)
			return
		}
		sh.Add(chaincase.CoqCase("Hist", id, h, obs, works, 10000))
		st.LogCase(run.Out, id, map[string]interface{}{"hist": h, "obs": obs})
		info := chaincase.NewInfo(h, works)
		delivered := map[int]bool{}
		prevMain := []int{0}
		poisoned := false // a failed switch happened and the node has not recovered yet
		aborted := false  // some delivery of a new, sane block ended with the error of one of its orphans
		nontrivial := false
		key := ""
		for _, o := range obs {
			if o.Err && !o.Orphan && !delivered[o.Blk] && h.Sane(o.Blk) {
				aborted = true
			}
			delivered[o.Blk] = true
			key += fmt.Sprintf("%d:%v%v%v:%v|", o.Blk, o.InMain, o.Orphan, o.Err, o.Main)
			if o.Orphan || o.Err || len(o.Detached) > 0 {
				nontrivial = true
			}
			// (1) the active chain is a parent-linked path of valid blocks ending in genesis
			okChain := len(o.Main) > 0 && o.Main[len(o.Main)-1] == 0
			for i := 0; okChain && i+1 < len(o.Main); i++ {
				b := o.Main[i]
				if b == 0 || h.Blocks[b-1].Parent != o.Main[i+1] || !info.BlockOK(b) || !delivered[b] {
					okChain = false
				}
			}
			if !okChain {
				st.Fail("C12:active-chain-invalid", "the active chain is not a valid parent-linked path", map[string]interface{}{"hist": h, "at": o})
			}
			tip := o.Main[0]
			stopsBelowInvalid := false
			for _, b := range h.Blocks {
				if b.Parent == tip && delivered[b.ID] && h.Sane(b.ID) && !h.CtxValid(b.ID) {
					stopsBelowInvalid = true
				}
			}
			// (3) a failed switch must leave the node on its previous chain; any other
			// error must not move the node to a chain that is not better
			if o.FailedSwitch() {
				poisoned = true
				sig := "C12:failed-switch-unexplained"
				if stopsBelowInvalid {
					sig = sigFailedSwitch
				}
				if !eqInts(o.Main, prevMain) {
					st.Fail(sig, fmt.Sprintf("a reorganisation failed half-way: ProcessBlock returned an error and left the active chain %v (before the delivery: %v)", o.Main, prevMain),
						map[string]interface{}{"hist": h, "at": o})
				}
			} else if o.Err && !eqInts(o.Main, prevMain) && info.WorkSum(tip) <= info.WorkSum(prevMain[0]) {
				st.Fail("C12:error-changed-chain", fmt.Sprintf("ProcessBlock returned an error but the active chain changed from %v to %v", prevMain, o.Main),
					map[string]interface{}{"hist": h, "at": o})
			}
			// (2') irreversibility regimes: when a block arrives whose fully valid
			// chain has more work than the tip, the node must switch unless the guard
			// is specified to refuse (values before the delivery)
			if h.Irr {
				ptip := prevMain[0]
				if !o.Err && !o.Orphan && info.ChainOK(o.Blk, delivered) && info.WorkSum(o.Blk) > info.WorkSum(ptip) {
					// fork point = first ancestor of the block on the previous main chain
					onMain := map[int]bool{}
					for _, m := range prevMain {
						onMain[m] = true
					}
					fp := o.Blk
					for !onMain[fp] {
						fp = h.Blocks[fp-1].Parent
					}
					cur, d := h.Height(ptip), h.Height(ptip)-h.Height(fp)
					dpos := ptip != 0 && h.Blocks[ptip-1].Dpos
					refuse := chaincase.GuardSpec(h.CRC, h.RS, dpos, o.LihBefore, cur, d)
					if !refuse && tip != o.Blk {
						st.Fail("C12:guard-refused-allowed-switch", fmt.Sprintf("block %d arrived with more work (%d) than the tip %d (%d); fork point height %d, tip height %d, detach %d, LIH %d, dpos=%v, CRCOnlyDPOSHeight %d, RevertToPOWStartHeight %d: the guard must not refuse, but the tip is %d",
							o.Blk, info.WorkSum(o.Blk), ptip, info.WorkSum(ptip), h.Height(fp), cur, d, o.LihBefore, dpos, h.CRC, h.RS, tip), map[string]interface{}{"hist": h, "at": o})
					}
					if refuse && tip == o.Blk {
						st.Fail("C12:guard-allowed-refused-switch", fmt.Sprintf("block %d: the guard is specified to refuse (tip height %d, detach %d, LIH %d, dpos=%v) but the node switched", o.Blk, cur, d, o.LihBefore, dpos),
							map[string]interface{}{"hist": h, "at": o})
					}
				}
				prevMain = o.Main
				continue
			}
			// (2) no known fully valid chain has strictly more work
			worse := -1
			for _, b := range h.Blocks {
				if delivered[b.ID] && info.ChainOK(b.ID, delivered) && info.WorkSum(b.ID) > info.WorkSum(tip) {
					worse = b.ID
					break
				}
			}
			if worse >= 0 {
				// is a block of that chain sitting in the orphan pool although its parent is connected?
				stuck := false
				inPool := map[int]bool{}
				for _, x := range o.Orphans {
					inPool[x] = true
				}
				for x := worse; x != 0; x = h.Blocks[x-1].Parent {
					if inPool[x] && !inPool[h.Blocks[x-1].Parent] {
						stuck = true
					}
				}
				sig := "C12:heavier-valid-chain-known"
				if stuck && aborted {
					sig = sigStuckOrphan
				} else if poisoned {
					sig = sigFailedSwitch
				}
				st.Fail(sig, fmt.Sprintf("tip %d (work %d) but the fully valid chain ending in %d (work %d) is known",
					tip, info.WorkSum(tip), worse, info.WorkSum(worse)), map[string]interface{}{"hist": h, "at": o})
			} else {
				poisoned = false
			}
			prevMain = o.Main
		}
		kind := "plain"
		for _, b := range h.Blocks {
			if h.Sane(b.ID) && !h.CtxValid(b.ID) {
				kind = "with-invalid"
			}
		}
		st.Count(key, nontrivial, kind)
		if id <= 3 {
			st.Sample(map[string]interface{}{"hist": h.Name, "order": h.Order, "last": obs[len(obs)-1]})
		}
	}

	V, BR, SP, RS, NP, BS := chaincase.Valid, chaincase.BadReward, chaincase.Spend, chaincase.Respend, chaincase.NoPow, chaincase.BadSpend
	blk := func(id, parent, kind int) chaincase.Blk { return chaincase.Blk{ID: id, Parent: parent, Kind: kind} }
	// ---- corpus: the known-finding witness and boundary shapes
	doHist(&chaincase.Hist{Name: "failed-switch", Blocks: []chaincase.Blk{blk(1, 0, V), blk(2, 1, V), blk(3, 0, V), blk(4, 3, BS), blk(5, 4, V)},
		Order: []int{1, 2, 3, 4, 5}})
	doHist(&chaincase.Hist{Name: "failed-switch-double-spend", Blocks: []chaincase.Blk{blk(1, 0, V), blk(2, 1, V), blk(3, 2, V), blk(4, 0, V), blk(5, 4, SP), blk(6, 5, RS), blk(7, 6, V)},
		Order: []int{1, 2, 3, 4, 5, 6, 7, 7}})
	doHist(&chaincase.Hist{Name: "failed-switch-first-block", Blocks: []chaincase.Blk{blk(1, 0, V), blk(2, 0, SP), blk(3, 2, V)},
		Order: []int{1, 2, 3}})
	doHist(&chaincase.Hist{Name: "failed-switch-then-heal", Blocks: []chaincase.Blk{blk(1, 0, V), blk(2, 1, V), blk(3, 0, V), blk(4, 3, BS), blk(5, 4, V), blk(6, 2, V)},
		Order: []int{1, 2, 3, 4, 5, 6}})
	doHist(&chaincase.Hist{Name: "orphans-first-reorg", Blocks: []chaincase.Blk{blk(1, 0, V), blk(2, 1, V), blk(3, 0, V), blk(4, 3, V), blk(5, 4, V)},
		Order: []int{5, 4, 1, 2, 3}})
	doHist(&chaincase.Hist{Name: "tie-first-seen", Blocks: []chaincase.Blk{blk(1, 0, V), blk(2, 0, V), blk(3, 2, V), blk(4, 1, V)},
		Order: []int{1, 2, 3, 4}})
	doHist(&chaincase.Hist{Name: "invalid-on-tip-and-orphan-sibling", Blocks: []chaincase.Blk{blk(1, 0, V), blk(2, 1, BS), blk(3, 1, V), blk(4, 2, V)},
		Order: []int{2, 3, 4, 1, 3}})
	doHist(&chaincase.Hist{Name: "insane", Blocks: []chaincase.Blk{blk(1, 0, V), blk(2, 1, NP), blk(3, 2, V), blk(4, 1, BR), blk(5, 1, V)},
		Order: []int{1, 2, 3, 4, 5, 2}})

	// ---- corpus (oracle only, outside the model): a second "genesis" block
	// (empty previous hash, height 0) delivered to a running chain used to
	// dereference a nil parent in connectBestChain (fixed: 37c13230)
	if p, et, changed, err := chaincase.SecondGenesis(); err != nil {
		st.Fail("C12:harness", "second-genesis case could not be executed: "+err.Error(), nil)
	} else {
		st.Count("second-genesis", true, "second-genesis")
		if p || et == "" || changed {
			st.Fail("C12:second-genesis", fmt.Sprintf("a block with an empty previous hash: panicked=%v err=%q chainChanged=%v (expected: rejected with an error, chain unchanged)", p, et, changed), "second-genesis")
		}
	}

	// ---- deep forks (7-15 below the tip, proof-of-work era: no irreversibility)
	// that overtake after the trunk has connected further blocks
	{
		var bs []chaincase.Blk
		for i := 1; i <= 12; i++ {
			bs = append(bs, blk(i, i-1, V))
		}
		prev := 1
		for i := 13; i <= 25; i++ { // side branch from block 1, heights 2..14
			bs = append(bs, blk(i, prev, V))
			prev = i
		}
		ord := []int{1, 2, 3, 4, 5, 6, 7, 8, 9, 10, 13, 14, 15, 16, 11, 12, 17, 18, 19, 20, 21, 22, 23, 24, 25}
		doHist(&chaincase.Hist{Name: "deep-fork-overtakes", Blocks: bs, Order: ord})
	}
	for i := 0; i < run.N(4, 100); i++ {
		bs, ord := chaincase.DeepFork(rng.Fork())
		doHist(&chaincase.Hist{Name: fmt.Sprintf("deep-%d", i), Blocks: bs, Order: ord})
	}

	// ---- height regimes x consensus modes on the real chain: the decision is
	// judged when the heavier block arrives (in-order deliveries)
	for i := 0; i < run.N(14, 300); i++ {
		doHist(chaincase.RegimeFork(rng.Fork()))
	}

	// ---- the guard itself: real State.IsIrreversible on an exhaustive small grid
	// (three height parameters x mode x LIH x tip height x detach count), compared
	// with the model in the shards and with the specification (C12_guard_excludes)
	// here
	guardGrid(run, st, sh, &id, "C12")

	// ---- generated
	n := run.N(45, 800)
	for i := 0; i < n; i++ {
		r := rng.Fork()
		bs := chaincase.Tree(r, 12, 5, 35, 10)
		doHist(&chaincase.Hist{Name: fmt.Sprintf("gen-%d", i), Blocks: bs, Order: chaincase.Order(r, len(bs))})
	}
	st.Traces = st.Evals
	sh.Flush()
	st.Write(run.Out)
}

// guardGrid runs the real IsIrreversible on the grid, adds the Coq cases and
// evaluates the specification on every point with 0 <= d <= cur.
func guardGrid(run *lib.Run, st *lib.Stats, sh *lib.Shards, id *int, prop string) {
	maxCur := 16
	for _, crc := range []uint32{0, 3, 12} {
		for _, rs := range []uint32{5, 10, 14} {
			outs, err := chaincase.GuardGrid(crc, rs, maxCur)
			if err != nil {
				st.Fail(prop+":harness", "guard grid could not be executed: "+err.Error(), nil)
				return
			}
			*id++
			sh.Add(chaincase.CoqGuardGrid(*id, crc, rs, maxCur, outs))
			st.LogCase(run.Out, *id, map[string]interface{}{"guard_grid": []uint32{crc, rs}})
			k := 0
			bad := 0
			for _, dpos := range []bool{false, true} {
				for _, l := range chaincase.GuardGridLs {
					for cur := 0; cur <= maxCur; cur++ {
						for d := 0; d <= maxCur+1; d++ {
							got := outs[k]
							k++
							if d > cur {
								continue
							}
							want := chaincase.GuardSpec(crc, rs, dpos, l, cur, d)
							if got != want && bad < 3 {
								bad++
								st.Fail(prop+":guard-differs-from-specification", fmt.Sprintf("IsIrreversible(cur=%d, detach=%d) with LIH=%d dpos=%v CRCOnlyDPOSHeight=%d RevertToPOWStartHeight=%d returned %v, specified %v",
									cur, d, l, dpos, crc, rs, got, want), map[string]interface{}{"crc": crc, "rs": rs, "dpos": dpos, "lih": l, "cur": cur, "detach": d})
							}
						}
					}
				}
			}
			st.Count(fmt.Sprintf("grid:%d:%d", crc, rs), true, "guard-grid")
		}
	}
}
