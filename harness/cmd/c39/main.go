// C39 correspondence and oracle: bloom.MurmurHash3, bloom.Filter (Add, AddHash,
// AddOutPoint, Matches, MatchesOutPoint, MatchTxAndUpdate) and the wire path
// bloom.TxFilter (Load, Add, MatchConfirmed) of /repo against
// coq/model/C39_Bloom.v.
package main

import (
	"bytes"
	"fmt"
	"strings"

	"github.com/elastos/Elastos.ELA/common"
	"github.com/elastos/Elastos.ELA/core/transaction"
	common2 "github.com/elastos/Elastos.ELA/core/types/common"
	"github.com/elastos/Elastos.ELA/core/types/functions"
	"github.com/elastos/Elastos.ELA/core/types/interfaces"
	"github.com/elastos/Elastos.ELA/core/types/outputpayload"
	"github.com/elastos/Elastos.ELA/core/types/payload"
	"github.com/elastos/Elastos.ELA/elanet/bloom"
	"github.com/elastos/Elastos.ELA/p2p/msg"

	"verifharness/elaenv"
	"verifharness/lib"
)

// signature of the recorded finding: side chain SPV mode ignores the
// transaction hash and the spent outpoints.
const sigSidechain = "bloom.matchTxAndUpdate:tweak=MaxUint32:watched-hash-or-spend-not-matched"

type txSpec struct {
	typ   common2.TxType
	outs  [][]byte            // 21-byte program hashes
	ins   []*common2.OutPoint // previous outpoints
	nonce uint32
}

func mkTx(s txSpec) interfaces.Transaction {
	var ins []*common2.Input
	for _, op := range s.ins {
		ins = append(ins, &common2.Input{Previous: *op, Sequence: 0})
	}
	var outs []*common2.Output
	for _, ph := range s.outs {
		var u common.Uint168
		copy(u[:], ph)
		outs = append(outs, &common2.Output{Value: 1, ProgramHash: u, Type: common2.OTNone, Payload: &outputpayload.DefaultOutput{}})
	}
	var pl interfaces.Payload
	switch s.typ {
	case common2.CoinBase:
		pl = &payload.CoinBase{Content: []byte{1}}
	case common2.Record:
		pl = &payload.Record{Type: "t", Content: []byte{2}}
	default:
		pl = &payload.TransferAsset{}
	}
	return functions.CreateTransaction(common2.TxVersion09, s.typ, 0, pl, []*common2.Attribute{}, ins, outs, s.nonce, nil)
}

func nzOf(b []byte) string {
	var xs []string
	for i, x := range b {
		if x != 0 {
			xs = append(xs, fmt.Sprintf("(%d,%d)", i, x))
		}
	}
	return "[" + strings.Join(xs, ";") + "]"
}

// interner maps the byte strings of one scenario to positions in its table.
type interner struct {
	idx   map[string]int
	elems []string
}

func (t *interner) at(b []byte) int {
	k := string(b)
	if i, ok := t.idx[k]; ok {
		return i
	}
	if t.idx == nil {
		t.idx = map[string]int{}
	}
	t.idx[k] = len(t.elems)
	t.elems = append(t.elems, lib.CoqBytes(b))
	return len(t.elems) - 1
}

func (t *interner) coqTx(tx interfaces.Transaction) string {
	h := tx.Hash()
	var outs, ins []string
	for _, o := range tx.Outputs() {
		outs = append(outs, fmt.Sprint(t.at(o.ProgramHash[:])))
	}
	for _, in := range tx.Inputs() {
		ins = append(ins, fmt.Sprint(t.at(in.Previous.Bytes())))
	}
	return fmt.Sprintf("%d %d %s %s", t.at(h[:]), tx.TxType(), lib.CoqList(outs), lib.CoqList(ins))
}

func types2coq(ts []common2.TxType) string {
	var xs []string
	for _, t := range ts {
		xs = append(xs, fmt.Sprintf("%d", t))
	}
	return lib.CoqList(xs)
}

func main() {
	run := lib.ParseArgs()
	elaenv.InitLog(run.Out)
	functions.CreateTransaction = transaction.CreateTransaction
	functions.GetTransactionByTxType = transaction.GetTransaction
	rng := lib.NewRng(run.Seed)
	st := lib.NewStats("C39", "murmur: reference vectors + seeds {0,1,0xfba4c795,2^32-1,random} x data lengths 0..70; filter scenarios: sizes 0..64 and 36000 bytes (zero or random initial bits), 0..50 hash functions, tweaks {0,1,2^31,2^32-1,random}, 1..8 added elements of length 0..70 (incl. 21-byte program hashes, 32-byte hashes, 34-byte outpoints), then Matches on added/not-added data and MatchTxAndUpdate on transactions paying to / spending from / hashed as watched items and unrelated ones; a third of the scenarios through the wire path TxFilter.Load/Add/MatchConfirmed. nontrivial = a filter with >=1 byte and >=1 hash function on which at least one element was added; distinct by (size,hash funcs,tweak,ops digest)")
	sh := &lib.Shards{Dir: run.Out, Imports: "From ELA Require Import model.C39_Bloom corr.C39_corr.", CaseType: "C39_corr.case",
		Mismatch: "C39_corr.mismatches", Scope: "N", PerShard: 40}
	id := 0
	next := func() int { id++; return id }

	// ---------------------------------------------------------------- MurmurHash3
	type vec struct {
		seed, out uint32
		data      []byte
	}
	ref := []vec{ // reference vectors of the algorithm (bitcoind hash_tests / btcd)
		{0x00000000, 0x00000000, []byte{}},
		{0xfba4c795, 0x6a396f08, []byte{}},
		{0xffffffff, 0x81f16f39, []byte{}},
		{0x00000000, 0x514e28b7, []byte{0x00}},
		{0xfba4c795, 0xea3f0b17, []byte{0x00}},
		{0x00000000, 0xfd6cf10d, []byte{0xff}},
		{0x00000000, 0x16c6b7ab, []byte{0x00, 0x11}},
		{0x00000000, 0x8eb51c3d, []byte{0x00, 0x11, 0x22}},
		{0x00000000, 0xb4471bf8, []byte{0x00, 0x11, 0x22, 0x33}},
		{0x00000000, 0xe2301fa8, []byte{0x00, 0x11, 0x22, 0x33, 0x44}},
		{0x00000000, 0xfc2e4a15, []byte{0x00, 0x11, 0x22, 0x33, 0x44, 0x55}},
		{0x00000000, 0xb074502c, []byte{0x00, 0x11, 0x22, 0x33, 0x44, 0x55, 0x66}},
		{0x00000000, 0x8034d2a0, []byte{0x00, 0x11, 0x22, 0x33, 0x44, 0x55, 0x66, 0x77}},
		{0x00000000, 0xb4698def, []byte{0x00, 0x11, 0x22, 0x33, 0x44, 0x55, 0x66, 0x77, 0x88}},
	}
	murmurCase := func(seed uint32, data []byte) uint32 {
		out := bloom.MurmurHash3(seed, data)
		i := next()
		sh.Add(fmt.Sprintf("CMurmur %d %d %s %d", i, seed, lib.CoqBytes(data), out))
		st.LogCase(run.Out, i, map[string]interface{}{"op": "MurmurHash3", "seed": seed, "data": fmt.Sprintf("%x", data), "out": out})
		st.Count(fmt.Sprintf("mm:%d:%x", seed, data), len(data) > 0, "MurmurHash3")
		return out
	}
	for _, v := range ref {
		if out := murmurCase(v.seed, v.data); out != v.out {
			st.Fail("bloom.MurmurHash3:reference-vector", "MurmurHash3 differs from the reference vector",
				map[string]interface{}{"seed": v.seed, "data": fmt.Sprintf("%x", v.data), "want": v.out, "got": out})
		}
	}
	for l := 0; l <= 70; l++ {
		for k := 0; k < run.N(2, 40); k++ {
			seed := uint32(rng.PickU64(0, 1, 0xfba4c795, 0xffffffff, rng.U64(), rng.U64()))
			d := rng.Bytes(l)
			if rng.Chance(15) {
				for j := range d {
					d[j] = 0xff
				}
			}
			murmurCase(seed, d)
		}
	}
	st.Sample(map[string]interface{}{"op": "MurmurHash3", "seed": 0xfba4c795, "data": "00", "out": bloom.MurmurHash3(0xfba4c795, []byte{0})})

	// ---------------------------------------------------------------- OutPoint.Bytes
	for k := 0; k < 6; k++ {
		var h common.Uint256
		copy(h[:], rng.Bytes(32))
		idx := uint16(rng.PickU64(0, 1, 255, 256, 65535, rng.U64()))
		b := common2.NewOutPoint(h, idx).Bytes()
		i := next()
		sh.Add(fmt.Sprintf("COutPoint %d %s %d %s", i, lib.CoqBytes(h[:]), idx, lib.CoqBytes(b)))
		st.LogCase(run.Out, i, map[string]interface{}{"op": "OutPoint.Bytes", "idx": idx})
		st.Count(fmt.Sprintf("op:%x:%d", h[:4], idx), true, "OutPoint.Bytes")
	}

	// ---------------------------------------------------------------- filter scenarios
	type scen struct {
		size   int
		hf     uint32
		tweak  uint32
		types  []common2.TxType
		random bool // random initial bits
		wire   bool // through TxFilter (state not observable)
		fixed  bool // the witness of C39_tx_match_complete_refuted, no random operations
	}
	var scens []scen
	// corpus: the repaired crash (empty filter, >=1 hash function), through both paths, and neighbours
	scens = append(scens,
		scen{size: 8, hf: 3, tweak: 0xffffffff, fixed: true},
		scen{size: 0, hf: 1, tweak: 0}, scen{size: 0, hf: 1, tweak: 0, wire: true},
		scen{size: 0, hf: 50, tweak: 0xffffffff, types: []common2.TxType{common2.TransferAsset}},
		scen{size: 0, hf: 0, tweak: 7}, scen{size: 0, hf: 0, tweak: 0xffffffff},
		scen{size: 1, hf: 1, tweak: 0}, scen{size: 1, hf: 50, tweak: 0xffffffff}, scen{size: 8, hf: 3, tweak: 0xffffffff},
		scen{size: 8, hf: 3, tweak: 0xffffffff, wire: true},
		scen{size: 36000, hf: 50, tweak: 0}, scen{size: 36000, hf: 11, tweak: 0xffffffff, wire: true},
		scen{size: 64, hf: 0, tweak: 5})
	nScen := run.N(220, 12000)
	for k := 0; k < nScen; k++ {
		s := scen{}
		switch {
		case k%97 == 96:
			s.size = 36000
		case rng.Chance(4):
			s.size = 0
		default:
			s.size = rng.Range(1, 64)
		}
		s.hf = uint32(rng.Range(0, 50))
		if rng.Chance(40) {
			s.hf = uint32(rng.Range(1, 6))
		}
		s.tweak = uint32(rng.PickU64(0, 1, 1<<31, 0xffffffff, 0xffffffff, rng.U64(), rng.U64(), rng.U64()))
		if rng.Chance(35) {
			all := []common2.TxType{common2.CoinBase, common2.TransferAsset, common2.Record, common2.SideChainPow}
			for _, t := range all {
				if rng.Chance(40) {
					s.types = append(s.types, t)
				}
			}
		}
		s.random = s.size > 0 && s.size <= 64 && rng.Chance(30)
		s.wire = rng.Chance(33)
		if s.wire {
			s.random = false
		}
		scens = append(scens, s)
	}

	for _, s := range scens {
		r := rng.Fork()
		fl := &msg.FilterLoad{Filter: make([]byte, s.size), HashFuncs: s.hf, Tweak: s.tweak, TxTypes: append([]common2.TxType{}, s.types...)}
		if s.random {
			for j := range fl.Filter {
				if r.Chance(50) {
					fl.Filter[j] = byte(r.U64()) & byte(r.U64())
				}
			}
		}
		initNZ := nzOf(fl.Filter)
		var f *bloom.Filter
		var tf interface {
			Load([]byte) error
			Add([]byte) error
			MatchConfirmed(interfaces.Transaction) bool
			MatchUnconfirmed(interfaces.Transaction) bool
		}
		if s.wire {
			buf := new(bytes.Buffer)
			if err := fl.Serialize(buf); err != nil {
				panic(err)
			}
			tf = bloom.NewTxFilter()
			if err := tf.Load(buf.Bytes()); err != nil {
				panic(err)
			}
		} else if len(fl.Filter) > 0 && r.Chance(40) {
			// history: a filter of another size was loaded and queried before, then
			// the client reloads; nothing of the old filter may survive Reload
			prev := *fl
			prev.Filter = make([]byte, len(fl.Filter)*2+3)
			f = bloom.LoadFilter(&prev)
			lib.Recover(func() { f.Matches([]byte{1, 2, 3}); f.Add([]byte{4, 5}) })
			f.Reload(fl)
			st.Hist["history:reload-other-size"]++
		} else {
			f = bloom.LoadFilter(fl)
		}
		sidechain := s.tweak == 0xffffffff
		var ops []string
		var tab interner
		var human []interface{}
		panicked := false
		var pval interface{}
		guard := func(fn func()) {
			if panicked {
				return
			}
			if p, v := lib.Recover(fn); p {
				panicked, pval = true, v
			}
		}
		fail := func(sig, what string, extra map[string]interface{}) {
			extra["size"], extra["hash_funcs"], extra["tweak"], extra["tx_types"], extra["wire"] = s.size, s.hf, s.tweak, types2coq(s.types), s.wire
			extra["init"] = initNZ
			tail := human
			if len(tail) > 10 {
				tail = tail[len(tail)-10:]
			}
			extra["last_ops"] = tail
			st.Fail(sig, what, extra)
		}
		doAdd := func(d []byte, how int) {
			guard(func() {
				switch {
				case s.wire:
					if err := tf.Add(d); err != nil {
						panic(err)
					}
				case how == 1 && len(d) == 32:
					var h common.Uint256
					copy(h[:], d)
					f.AddHash(&h)
				case how == 2 && len(d) == 34:
					op, _ := common2.OutPointFromBytes(d)
					f.AddOutPoint(op)
				default:
					f.Add(d)
				}
				ops = append(ops, fmt.Sprintf("OAdd %d", tab.at(d)))
				human = append(human, map[string]string{"add": fmt.Sprintf("%x", d)})
			})
		}
		// Matches is not reachable through TxFilter; wire scenarios observe matching through transactions only
		doMatch := func(d []byte, watched bool) {
			if s.wire {
				return
			}
			guard(func() {
				var m bool
				if len(d) == 34 && r.Bool() {
					op, _ := common2.OutPointFromBytes(d)
					m = f.MatchesOutPoint(op)
				} else {
					m = f.Matches(d)
				}
				ops = append(ops, fmt.Sprintf("OMatch %d %s", tab.at(d), lib.CoqBool(m)))
				human = append(human, map[string]interface{}{"matches": fmt.Sprintf("%x", d), "result": m})
				if watched && !m {
					fail("bloom.Matches:false-negative", "an added element is reported as not matching", map[string]interface{}{"element": fmt.Sprintf("%x", d)})
				}
			})
		}
		// kind: 0 unrelated, 1 pays to watched, 2 spends watched, 3 hash watched
		doTx := func(tx interfaces.Transaction, kind int, watchedOuts []int) {
			guard(func() {
				var m bool
				if s.wire {
					if r.Bool() {
						m = tf.MatchConfirmed(tx)
					} else {
						m = tf.MatchUnconfirmed(tx)
					}
				} else {
					m = f.MatchTxAndUpdate(tx)
				}
				ops = append(ops, fmt.Sprintf("OTx %s %s", tab.coqTx(tx), lib.CoqBool(m)))
				h := tx.Hash()
				human = append(human, map[string]interface{}{"tx": fmt.Sprintf("%x", h[:]), "type": tx.TxType(), "kind": kind, "result": m,
					"outs": len(tx.Outputs()), "ins": len(tx.Inputs())})
				if kind != 0 && !m {
					inTypes := false
					for _, t := range s.types {
						if t == tx.TxType() {
							inTypes = true
						}
					}
					switch {
					case sidechain && (kind == 2 || kind == 3) && !inTypes:
						fail(sigSidechain, "side chain SPV mode: watched tx hash / spent outpoint not reported", map[string]interface{}{"kind": kind})
					case sidechain && kind == 1 && s.size == 0:
						// nothing can be watched in an empty filter; the side chain mode then reports by type only
					default:
						fail("bloom.MatchTxAndUpdate:false-negative", "transaction paying to / spending from / hashed as a watched item not reported", map[string]interface{}{"kind": kind})
					}
				}
				if !sidechain && !s.wire && m {
					for _, k := range watchedOuts {
						if !f.MatchesOutPoint(common2.NewOutPoint(tx.Hash(), uint16(k))) {
							fail("bloom.MatchTxAndUpdate:outpoint-not-added", "outpoint of a matching output is not in the updated filter", map[string]interface{}{"output": k})
						}
					}
				}
			})
		}
		state := func() {
			if s.wire || panicked {
				return
			}
			b := f.GetFilterLoadMsg().Filter
			ops = append(ops, fmt.Sprintf("OState %d %s", len(b), nzOf(b)))
		}

		if s.fixed {
			// witness of C39_tx_match_complete_refuted (proof/C39_Bloom.v sc_f, sc_t)
			opb := make([]byte, 34)
			for j := range opb {
				opb[j] = byte(j + 1)
			}
			op, _ := common2.OutPointFromBytes(opb)
			tx := mkTx(txSpec{typ: common2.TransferAsset, ins: []*common2.OutPoint{op}})
			h := tx.Hash()
			doAdd(opb, 2)
			doAdd(h[:], 1)
			doMatch(opb, true)
			doMatch(h[:], true)
			doTx(tx, 2, nil)
			state()
			st.Extra["refuted_witness_tx_hash"] = lib.CoqBytes(h[:])
		}

		// --- elements
		var added [][]byte
		nAdd := r.Range(1, 8)
		if s.fixed {
			nAdd = 0
		}
		for j := 0; j < nAdd; j++ {
			var d []byte
			switch r.Intn(5) {
			case 0:
				d = r.Bytes(21)
			case 1:
				d = r.Bytes(32)
			case 2:
				d = r.Bytes(34)
			default:
				d = r.Bytes(r.Range(0, 12))
				if r.Chance(25) {
					d = r.Bytes(r.Range(0, 70))
				}
			}
			doAdd(d, r.Intn(3))
			added = append(added, d)
			if r.Chance(30) {
				doMatch(d, true)
			}
		}
		state()
		for _, d := range added {
			doMatch(d, true)
		}
		for j := 0; j < 3; j++ {
			doMatch(r.Bytes(r.Range(0, 9)), false)
		}
		// --- transactions
		watchedPH := func() []byte {
			for _, d := range added {
				if len(d) == 21 {
					return d
				}
			}
			d := r.Bytes(21)
			doAdd(d, 0)
			added = append(added, d)
			return d
		}
		watchedOP := func() *common2.OutPoint {
			for _, d := range added {
				if len(d) == 34 {
					op, _ := common2.OutPointFromBytes(d)
					return op
				}
			}
			d := r.Bytes(34)
			doAdd(d, 2)
			added = append(added, d)
			op, _ := common2.OutPointFromBytes(d)
			return op
		}
		randOP := func() *common2.OutPoint { op, _ := common2.OutPointFromBytes(r.Bytes(34)); return op }
		ttypes := []common2.TxType{common2.TransferAsset, common2.TransferAsset, common2.CoinBase, common2.Record}
		nTx := r.Range(2, 4)
		if s.fixed {
			nTx = 0
		}
		for j := 0; j < nTx; j++ {
			sp := txSpec{typ: ttypes[r.Intn(len(ttypes))], nonce: uint32(r.U64())}
			kind := r.Intn(4)
			var watchedOuts []int
			nOut := r.Range(0, 2)
			for k := 0; k < nOut; k++ {
				sp.outs = append(sp.outs, r.Bytes(21))
			}
			nIn := r.Range(0, 1)
			for k := 0; k < nIn; k++ {
				sp.ins = append(sp.ins, randOP())
			}
			switch kind {
			case 1:
				ph := watchedPH()
				pos := r.Intn(len(sp.outs) + 1)
				sp.outs = append(sp.outs[:pos], append([][]byte{ph}, sp.outs[pos:]...)...)
				watchedOuts = append(watchedOuts, pos)
				if r.Chance(30) { // the same program hash twice
					sp.outs = append(sp.outs, ph)
					watchedOuts = append(watchedOuts, len(sp.outs)-1)
				}
			case 2:
				sp.ins = append(sp.ins, watchedOP())
			}
			tx := mkTx(sp)
			if kind == 3 {
				h := tx.Hash()
				doAdd(h[:], 1)
			}
			doTx(tx, kind, watchedOuts)
			// BIP37 chain following: a later spend of an output that matched is reported too
			if kind == 1 && !sidechain && r.Chance(60) {
				sp2 := txSpec{typ: common2.TransferAsset, nonce: uint32(r.U64()), outs: [][]byte{r.Bytes(21)},
					ins: []*common2.OutPoint{common2.NewOutPoint(tx.Hash(), uint16(watchedOuts[0]))}}
				doTx(mkTx(sp2), 2, nil)
			}
			if r.Chance(50) {
				state()
			}
		}
		state()
		for _, d := range added {
			doMatch(d, true)
		}

		i := next()
		if panicked {
			ops = nil
			fail("bloom:panic", fmt.Sprintf("filter operation panicked: %v", pval), map[string]interface{}{})
		}
		sh.Add(fmt.Sprintf("CSeq %d (mk_filter %d %s %d %d %s) %s %s %s", i, s.size, initNZ, s.hf, s.tweak, types2coq(s.types),
			lib.CoqBool(panicked), lib.CoqList(tab.elems), lib.CoqList(ops)))
		st.LogCase(run.Out, i, map[string]interface{}{"op": "scenario", "size": s.size, "hash_funcs": s.hf, "tweak": s.tweak, "tx_types": types2coq(s.types),
			"wire": s.wire, "init": initNZ, "panicked": panicked, "ops": human})
		kind := "filter"
		if s.wire {
			kind = "txfilter(wire)"
		}
		if sidechain {
			kind += ":sidechain"
		}
		st.Count(fmt.Sprintf("sc:%d:%d:%d:%v:%x", s.size, s.hf, s.tweak, s.wire, bloom.MurmurHash3(0, []byte(strings.Join(ops, "|")))), s.size > 0 && s.hf > 0, kind)
		if i%40 == 0 {
			st.Sample(map[string]interface{}{"size": s.size, "hash_funcs": s.hf, "tweak": s.tweak, "wire": s.wire, "ops": len(ops)})
		}
	}

	st.Traces = st.Evals
	sh.Flush()
	st.Write(run.Out)
}
