// C11 correspondence and oracle: Configuration.GetBlockReward,
// BlockChain.GetBlockDPOSReward, BlockChain.checkCoinbaseTransactionContext
// (through the verif hook) and pow.Service.AssignCoinbaseTxRewards of /repo
// against coq/model/C11_Issuance.v.
package main

import (
	"fmt"
	"math"
	"math/big"
	"sort"
	"strings"

	"github.com/elastos/Elastos.ELA/blockchain"
	"github.com/elastos/Elastos.ELA/common"
	"github.com/elastos/Elastos.ELA/common/config"
	"github.com/elastos/Elastos.ELA/core"
	"github.com/elastos/Elastos.ELA/core/contract/program"
	"github.com/elastos/Elastos.ELA/core/transaction"
	"github.com/elastos/Elastos.ELA/core/types"
	common2 "github.com/elastos/Elastos.ELA/core/types/common"
	"github.com/elastos/Elastos.ELA/core/types/functions"
	"github.com/elastos/Elastos.ELA/core/types/interfaces"
	"github.com/elastos/Elastos.ELA/core/types/outputpayload"
	"github.com/elastos/Elastos.ELA/core/types/payload"
	"github.com/elastos/Elastos.ELA/dpos/state"
	"github.com/elastos/Elastos.ELA/pow"

	"verifharness/elaenv"
	"verifharness/lib"
)

const maxU32 = math.MaxUint32

// ---- addresses are numbered; id <-> Uint168
func addr(id int) common.Uint168 {
	var a common.Uint168
	a[0] = 0x21
	a[17] = byte(id >> 24)
	a[18] = byte(id >> 16)
	a[19] = byte(id >> 8)
	a[20] = byte(id)
	return a
}
func addrID(a common.Uint168) int {
	return int(a[17])<<24 | int(a[18])<<16 | int(a[19])<<8 | int(a[20])
}

const (
	idDestroy    = 1
	idCRAssets   = 2
	idDposAcc    = 3
	idFoundation = 4
	idMiner      = 5
)

// ---- arbiters view with settable DPoS v2 activation height and POW flag
type arbView struct {
	*state.ArbitratorsMock
	active uint32
	pow    bool
}

func (a *arbView) GetDPoSV2ActiveHeight() uint32 { return a.active }
func (a *arbView) IsInPOWMode() bool             { return a.pow }

type kv struct {
	K int
	V int64
}

type env struct {
	NewH, HalvH, HalvInt uint32
	OldReward            int64
	Active, PublicDpos   uint32
	Pow                  bool
	FinalChange          int64
	Round                []kv // sorted by K, distinct
}

type out struct {
	V int64
	A int
}

func (e *env) params() *config.Configuration {
	p := config.GetDefaultParams()
	p.NewELAIssuanceHeight, p.HalvingRewardHeight, p.HalvingRewardInterval = e.NewH, e.HalvH, e.HalvInt
	p.PowConfiguration.RewardPerBlock = common.Fixed64(e.OldReward)
	p.PublicDPOSHeight = e.PublicDpos
	d, c, a := addr(idDestroy), addr(idCRAssets), addr(idDposAcc)
	p.DestroyELAProgramHash = &d
	p.CRConfiguration.CRAssetsProgramHash = &c
	p.DPoSConfiguration.DPoSV2RewardAccumulateProgramHash = &a
	return p
}

func (e *env) arbiters() *arbView {
	m := state.NewArbitratorsMock(nil, 0, 0)
	m.FinalRoundChange = common.Fixed64(e.FinalChange)
	for _, r := range e.Round {
		m.ArbitersRoundReward[addr(r.K)] = common.Fixed64(r.V)
	}
	return &arbView{ArbitratorsMock: m, active: e.Active, pow: e.Pow}
}

func coqCfg(newH, halvH, halvInt uint32, old int64) string {
	return fmt.Sprintf("(Build_cfg %d %d %d %s)", newH, halvH, halvInt, lib.CoqZi(old))
}

func (e *env) coq() string {
	var rs []string
	for _, r := range e.Round {
		rs = append(rs, fmt.Sprintf("(%d, %s)", r.K, lib.CoqZi(r.V)))
	}
	return fmt.Sprintf("(Build_env %s %d %d %s %d %d %d %d %s %s)", coqCfg(e.NewH, e.HalvH, e.HalvInt, e.OldReward),
		e.Active, e.PublicDpos, lib.CoqBool(e.Pow), idDestroy, idCRAssets, idDposAcc, idFoundation,
		lib.CoqZi(e.FinalChange), lib.CoqList(rs))
}

func coqOuts(os []out) string {
	var xs []string
	for _, o := range os {
		xs = append(xs, fmt.Sprintf("Build_output %s %d", lib.CoqZi(o.V), o.A))
	}
	return lib.CoqList(xs)
}

func mkCoinbase(os []out) interfaces.Transaction {
	var outs []*common2.Output
	for _, o := range os {
		outs = append(outs, &common2.Output{AssetID: core.ELAAssetID, Value: common.Fixed64(o.V), ProgramHash: addr(o.A),
			Type: common2.OTNone, Payload: &outputpayload.DefaultOutput{}})
	}
	return functions.CreateTransaction(common2.TxVersion09, common2.CoinBase, payload.CoinBaseVersion,
		&payload.CoinBase{Content: []byte("verif")}, []*common2.Attribute{},
		[]*common2.Input{{Previous: common2.OutPoint{TxID: common.EmptyHash, Index: math.MaxUint16}, Sequence: math.MaxUint32}},
		outs, 0, []*program.Program{})
}

func readOuts(tx interfaces.Transaction) []out {
	var os []out
	for _, o := range tx.Outputs() {
		os = append(os, out{int64(o.Value), addrID(o.ProgramHash)})
	}
	return os
}

// feeTx is a transfer transaction carrying only a cached fee.
func feeTx(fee int64) interfaces.Transaction {
	tx := functions.CreateTransaction(common2.TxVersion09, common2.TransferAsset, 0, &payload.TransferAsset{},
		[]*common2.Attribute{}, []*common2.Input{}, []*common2.Output{}, 0, []*program.Program{})
	tx.SetFee(common.Fixed64(fee))
	return tx
}

func verdictOf(panicked bool, err error) string {
	if panicked {
		return "Panic"
	}
	if err != nil {
		return "Reject"
	}
	return "Accept"
}

// ---- exact-arithmetic helpers for the oracle
func bi(x int64) *big.Int { return big.NewInt(x) }

// near reports |10^2*share - pct*total| <= 100*(1 + |total|/2^50): the share is the
// stated percentage of total up to one unit and binary64 rounding.
func near(share, total int64, pct int64) bool {
	l := new(big.Int).Mul(bi(share), bi(100))
	r := new(big.Int).Mul(bi(total), bi(pct))
	d := new(big.Int).Sub(l, r)
	d.Abs(d)
	tol := new(big.Int).Abs(bi(total))
	tol.Rsh(tol, 50)
	tol.Add(tol, bi(1))
	tol.Mul(tol, bi(100))
	return d.Cmp(tol) <= 0
}

// ceilShareExact recomputes Ceil(float64(t) * c) in arbitrary-precision
// arithmetic rounded to 53 bits (round to nearest even), independently of the
// hardware float unit and of the model: the "fixed share" the property names.
func ceilShareExact(t int64, c float64) *big.Int {
	x := new(big.Float).SetPrec(53).SetMode(big.ToNearestEven).SetInt64(t)
	y := new(big.Float).SetPrec(53).SetMode(big.ToNearestEven).Mul(x, new(big.Float).SetPrec(53).SetFloat64(c))
	z, acc := y.Int(nil) // truncated towards zero
	if acc == big.Below && y.Sign() > 0 {
		z.Add(z, big.NewInt(1))
	}
	return z
}

// scheduleExact is the published schedule evaluated in arbitrary precision:
// 4% of 20,000,000 ELA per year over 262800 blocks (as a binary64 quotient),
// halved at HalvingRewardHeight and then every HalvingRewardInterval blocks,
// truncated to sela.
func scheduleExact(p *config.Configuration, h uint32) int64 {
	k := uint64(0)
	if h >= p.HalvingRewardHeight {
		k = 1 + uint64(h-p.HalvingRewardHeight)/uint64(p.HalvingRewardInterval)
	}
	if k > 60 {
		return 0
	}
	base := new(big.Float).SetPrec(53).SetMode(big.ToNearestEven).Quo(
		new(big.Float).SetPrec(53).SetInt64(80000000000000), new(big.Float).SetPrec(53).SetInt64(262800))
	base.SetMantExp(base, -int(k)) // exact scaling
	z, _ := base.Int(nil)
	return z.Int64()
}

func optZ(panicked bool, v int64) string { return lib.CoqOpt(!panicked, lib.CoqZi(v)) }

func main() {
	run := lib.ParseArgs()
	elaenv.InitLog(run.Out)
	functions.GetTransactionByTxType = transaction.GetTransaction
	functions.GetTransactionByBytes = transaction.GetTransactionByBytes
	functions.CreateTransaction = transaction.CreateTransaction
	functions.GetTransactionParameters = transaction.GetTransactionparameters
	blockchain.FoundationAddress = addr(idFoundation)
	rng := lib.NewRng(run.Seed)
	st := lib.NewStats("C11", "GetBlockReward: every halving boundary -1/0/+1 of mainnet, testnet, regnet (quick: factors 1..72, 1020..1030, 1070..1080 and the last three; thorough: all ~4085 per network), synthetic configurations (interval 0/1/2, uint32 wrap), random heights. coinbase check: the three regimes x POW/DPoS, coinbases built from the expected split and then mutated (value +-1, address, output count, dpos share, fee), totals 0..2^62 and negative; AssignCoinbaseTxRewards in the three regimes. nontrivial = post-new-issuance reward / accepting check / assignment that returned; distinct by canonical input+observation")
	sh := &lib.Shards{Dir: run.Out, Imports: "From ELA Require Import lib.GoFloat model.C11_Issuance corr.C11_corr.", CaseType: "C11_corr.case",
		Mismatch: "C11_corr.mismatches", Scope: "Z", PerShard: 400}
	id := 0
	next := func() int { id++; return id }

	// ================================================================ GetBlockReward
	type netw struct {
		name string
		p    *config.Configuration
	}
	nets := []netw{{"mainnet", config.GetDefaultParams()}, {"testnet", config.GetDefaultParams().TestNet()}, {"regnet", config.GetDefaultParams().RegNet()}}
	rewardCase := func(name string, p *config.Configuration, h uint32) (int64, bool) {
		var r common.Fixed64
		panicked, _ := lib.Recover(func() { r = p.GetBlockReward(h) })
		i := next()
		sh.Add(fmt.Sprintf("CReward %d %s %d %s", i, coqCfg(p.NewELAIssuanceHeight, p.HalvingRewardHeight, p.HalvingRewardInterval,
			int64(p.PowConfiguration.RewardPerBlock)), h, optZ(panicked, int64(r))))
		st.LogCase(run.Out, i, map[string]interface{}{"op": "GetBlockReward", "net": name, "new": p.NewELAIssuanceHeight,
			"halv": p.HalvingRewardHeight, "int": p.HalvingRewardInterval, "h": h, "out": int64(r), "panic": panicked})
		st.Count(fmt.Sprintf("rw:%s:%d:%d:%d:%d", name, p.NewELAIssuanceHeight, p.HalvingRewardHeight, p.HalvingRewardInterval, h),
			h >= p.NewELAIssuanceHeight && !panicked, "GetBlockReward")
		if !panicked && r < 0 && name != "synthetic" {
			st.Fail("GetBlockReward:negative", "negative block subsidy", map[string]interface{}{"net": name, "h": h, "reward": int64(r)})
		}
		return int64(r), panicked
	}
	for _, n := range nets {
		p := n.p
		var hs []uint32
		add3 := func(h uint64) {
			for _, d := range []int64{-1, 0, 1} {
				x := int64(h) + d
				if x >= 0 && x <= maxU32 {
					hs = append(hs, uint32(x))
				}
			}
		}
		add3(0)
		add3(uint64(p.NewELAIssuanceHeight))
		add3(maxU32)
		maxK := (uint64(maxU32) - uint64(p.HalvingRewardHeight)) / uint64(p.HalvingRewardInterval)
		for k := uint64(0); k <= maxK; k++ {
			if run.Thorough() || k <= 72 || (k >= 1020 && k <= 1030) || (k >= 1070 && k <= 1080) || k+3 > maxK {
				add3(uint64(p.HalvingRewardHeight) + k*uint64(p.HalvingRewardInterval))
			}
		}
		for i := 0; i < run.N(40, 2000); i++ {
			hs = append(hs, uint32(rng.U64()))
		}
		sort.Slice(hs, func(i, j int) bool { return hs[i] < hs[j] })
		prev, have := int64(0), false
		for _, h := range hs {
			r, pan := rewardCase(n.name, p, h)
			if pan {
				continue
			}
			// oracle: never increases once the new schedule applies, and equals the schedule
			if h >= p.NewELAIssuanceHeight {
				if want := scheduleExact(p, h); want != r {
					st.Fail("GetBlockReward:schedule", "block subsidy differs from the halving schedule evaluated in exact arithmetic",
						map[string]interface{}{"net": n.name, "h": h, "reward": r, "schedule": want})
				}
				if have && r > prev {
					st.Fail("GetBlockReward:increase", "block subsidy increased with height under the new issuance schedule",
						map[string]interface{}{"net": n.name, "h": h, "reward": r, "previous": prev})
				}
				prev, have = r, true
			}
		}
		if n.name == "mainnet" {
			st.Sample(map[string]interface{}{"op": "GetBlockReward", "net": "mainnet", "h": p.HalvingRewardHeight, "out": int64(p.GetBlockReward(p.HalvingRewardHeight)),
				"h_before": p.HalvingRewardHeight - 1, "out_before": int64(p.GetBlockReward(p.HalvingRewardHeight - 1))})
		}
	}
	// synthetic configurations: correspondence only (configuration values are
	// not adversarial inputs; interval 0 panics, interval 1 can wrap uint32)
	syn := [][4]uint32{{0, 0, 1, 0}, {0, 1, 1, 0}, {10, 20, 0, 0}, {10, 20, 2, 0}, {100, 50, 7, 0}, {0, 0, 1051200, 0}, {5, 5, 5, 0},
		{4000000000, 4100000000, 3, 0}, {0, 4294967295, 1, 0}, {0, 4294967294, 1, 0}}
	for _, s := range syn {
		p := config.GetDefaultParams()
		p.NewELAIssuanceHeight, p.HalvingRewardHeight, p.HalvingRewardInterval = s[0], s[1], s[2]
		p.PowConfiguration.RewardPerBlock = common.Fixed64(rng.PickI64(0, 1, 502283105, -5))
		hs := []uint32{0, 1, 2, 3, s[0], s[0] + 1, s[1] - 1, s[1], s[1] + 1, s[1] + s[2], s[1] + 2*s[2], s[1] + 1023*s[2], s[1] + 1024*s[2],
			s[1] + 1025*s[2], s[1] + 1080*s[2], maxU32 - 3, maxU32 - 2, maxU32 - 1, maxU32}
		for i := 0; i < run.N(10, 300); i++ {
			hs = append(hs, uint32(rng.U64()), s[1]+uint32(rng.Intn(3000)))
		}
		for _, h := range hs {
			rewardCase("synthetic", p, h)
		}
	}

	// ================================================================ GetBlockDPOSReward
	amounts := []int64{0, 1, 2, 3, 9, 10, 99, 100, 1000, 10000, 304414003, 502283105, 1 << 31, 1 << 40, 1<<52 - 1, 1 << 52, 1<<53 + 1, 1 << 60, 1<<62 - 1, 1 << 62,
		math.MaxInt64, math.MaxInt64 - 304414003, -1, -10000, -304414003, -304414004, math.MinInt64}
	pickAmount := func() int64 {
		switch rng.Intn(6) {
		case 0:
			return amounts[rng.Intn(len(amounts))]
		case 1:
			return int64(rng.Intn(1000000))
		case 2:
			return int64(rng.U64() >> uint(1+rng.Intn(62)))
		case 3:
			return int64(rng.Intn(100)) * 10000
		default:
			return int64(rng.Intn(2000000000))
		}
	}
	mainnet := config.GetDefaultParams()
	randHeight := func(e *env) uint32 {
		switch rng.Intn(8) {
		case 0:
			return e.Active + uint32(rng.Intn(4))
		case 1:
			return e.PublicDpos + uint32(rng.Intn(3)) - 1
		case 2:
			return e.NewH + uint32(rng.Intn(3)) - 1
		case 3:
			return e.HalvH + uint32(rng.Intn(40))*e.HalvInt + uint32(rng.Intn(3)) - 1
		case 4:
			return uint32(rng.Intn(int(e.PublicDpos) + 1))
		default:
			return uint32(rng.Intn(3000000))
		}
	}
	randEnv := func() *env {
		e := &env{NewH: mainnet.NewELAIssuanceHeight, HalvH: mainnet.HalvingRewardHeight, HalvInt: mainnet.HalvingRewardInterval,
			OldReward: int64(mainnet.PowConfiguration.RewardPerBlock), PublicDpos: mainnet.PublicDPOSHeight, Active: maxU32, Pow: rng.Chance(30)}
		switch rng.Intn(5) {
		case 0: // DPoS v2 not active
		case 1:
			e.Active = 1405000 + uint32(rng.Intn(300000))
		default:
			e.Active = uint32(rng.Intn(2000000))
		}
		if rng.Chance(15) {
			e.NewH, e.HalvH, e.HalvInt = uint32(rng.Intn(1000)), uint32(rng.Intn(2000)), uint32(1+rng.Intn(50))
			e.PublicDpos = uint32(rng.Intn(1500))
			if e.Active != maxU32 {
				e.Active = uint32(rng.Intn(3000))
			}
		}
		if rng.Chance(50) {
			e.FinalChange = int64(rng.Intn(100000))
		}
		n := rng.Intn(5)
		if rng.Chance(10) {
			n = 5 + rng.Intn(32)
		}
		for i := 0; i < n; i++ {
			e.Round = append(e.Round, kv{10 + i, int64(rng.Intn(1000000000))})
		}
		return e
	}
	for i := 0; i < run.N(150, 2000); i++ {
		e := randEnv()
		h := randHeight(e)
		var txs []interfaces.Transaction
		txs = append(txs, mkCoinbase([]out{{0, idCRAssets}, {0, idMiner}}))
		var cached int64
		for j := rng.Intn(4); j > 0; j-- {
			f := pickAmount()
			txs = append(txs, feeTx(f))
			cached += f // int64 wrap-around, as Fixed64 +=
		}
		bc := blockchain.NewCoinbaseCheckC11Verif(e.params(), nil, nil)
		var r common.Fixed64
		panicked, _ := lib.Recover(func() {
			r = bc.GetBlockDPOSReward(&types.Block{Header: common2.Header{Height: h}, Transactions: txs})
		})
		k := next()
		sh.Add(fmt.Sprintf("CDpos %d %s %d %s %s", k, coqCfg(e.NewH, e.HalvH, e.HalvInt, e.OldReward), h, lib.CoqZi(cached), optZ(panicked, int64(r))))
		st.LogCase(run.Out, k, map[string]interface{}{"op": "GetBlockDPOSReward", "env": e, "h": h, "cached": cached, "out": int64(r), "panic": panicked})
		st.Count(fmt.Sprintf("dp:%d:%d:%d", h, cached, int64(r)), !panicked && cached != 0, "GetBlockDPOSReward")
	}

	// ================================================================ checkCoinbaseTransactionContext
	// expected split computed here with Go's own float64 (generator only; the
	// oracle below uses exact integer arithmetic)
	ceil := func(t int64, c float64) int64 { return int64(math.Ceil(float64(t) * c)) }
	checkCase := func(e *env, h uint32, os []out, fee, dpos int64, feeConsistent bool, kind string) string {
		p := e.params()
		av := e.arbiters()
		blockchain.DefaultLedger = &blockchain.Ledger{Arbitrators: av}
		alg := state.DPOS
		if e.Pow {
			alg = state.POW
		}
		bc := blockchain.NewCoinbaseCheckC11Verif(p, &state.State{StateKeyFrame: &state.StateKeyFrame{ConsensusAlgorithm: alg}}, nil)
		cb := mkCoinbase(os)
		var err error
		panicked, _ := lib.Recover(func() {
			err = bc.CheckCoinbaseTransactionContextC11Verif(h, cb, common.Fixed64(fee), common.Fixed64(dpos))
		})
		v := verdictOf(panicked, err)
		k := next()
		sh.Add(fmt.Sprintf("CCheck %d %s %d %s %s %s %s", k, e.coq(), h, coqOuts(os), lib.CoqZi(fee), lib.CoqZi(dpos), v))
		st.LogCase(run.Out, k, map[string]interface{}{"op": "checkCoinbase", "kind": kind, "env": e, "h": h, "outs": os, "fee": fee, "dpos": dpos, "verdict": v})
		regime := "old"
		if e.Active != maxU32 && h > e.Active+1 {
			regime = "v2"
		} else if h >= e.PublicDpos {
			regime = "h2"
		}
		st.Count(fmt.Sprintf("ck:%s:%d:%v:%d:%d:%s", e.coq(), h, os, fee, dpos, v), v == "Accept", "check:"+regime+":"+v)
		// ---- property oracle (v2 regime, accepted, block fees = cached fees)
		if regime == "v2" && v == "Accept" {
			var subsidy int64
			if pan, _ := lib.Recover(func() { subsidy = int64(p.GetBlockReward(h)) }); pan {
				return v
			}
			total := new(big.Int).Add(bi(fee), bi(subsidy))
			in := map[string]interface{}{"env": e, "h": h, "outs": os, "fee": fee, "dpos": dpos, "subsidy": subsidy}
			if !total.IsInt64() || total.Sign() < 0 || total.BitLen() > 61 {
				return v // outside the stated domain (non-negative fee totals that fit)
			}
			t := total.Int64()
			// "the block's fees": the hypothesis of C11_v2_coinbase_exact is that the DPoS share
			// handed to the check was computed (GetBlockDPOSReward, cached tx.Fee()) from the
			// same fee total as totalTxFee (recomputed GetTxFee)
			if feeConsistent {
				same := bc.GetBlockDPOSReward(&types.Block{Header: common2.Header{Height: h},
					Transactions: []interfaces.Transaction{mkCoinbase(nil), feeTx(fee)}})
				feeConsistent = int64(same) == dpos
			}
			if len(os) != 3 {
				st.Fail("checkCoinbase:v2-count", "accepted v2 coinbase without exactly three outputs", in)
				return v
			}
			sum := new(big.Int).Add(bi(os[0].V), bi(os[1].V))
			sum.Add(sum, bi(os[2].V))
			if feeConsistent && sum.Cmp(total) != 0 {
				st.Fail("checkCoinbase:v2-sum", "accepted v2 coinbase does not pay exactly subsidy+fees", in)
			}
			if !near(os[0].V, t, 30) || (feeConsistent && !near(os[2].V, t, 35)) {
				st.Fail("checkCoinbase:v2-share", "accepted v2 coinbase with CR/DPoS share off the fixed 30%/35%", in)
			} else if ceilShareExact(t, 0.3).Cmp(bi(os[0].V)) != 0 || (feeConsistent && ceilShareExact(t, 0.35).Cmp(bi(os[2].V)) != 0) {
				st.Fail("checkCoinbase:v2-share-rounding", "accepted v2 coinbase whose CR/DPoS share is not Ceil(total*0.3) / Ceil(total*0.35)", in)
			}
			okAddr := os[0].A == idCRAssets && os[2].A == idDposAcc
			if e.Pow {
				okAddr = os[0].A == idDestroy && os[2].A == idDestroy
			}
			if !okAddr {
				st.Fail("checkCoinbase:v2-address", "accepted v2 coinbase paying CR/DPoS share to another address", in)
			}
		}
		return v
	}
	nCheck := run.N(900, 16000)
	for i := 0; i < nCheck; i++ {
		e := randEnv()
		if rng.Chance(55) && e.Active == maxU32 {
			e.Active = uint32(rng.Intn(2000000))
		}
		h := randHeight(e)
		if rng.Chance(50) && e.Active != maxU32 {
			h = e.Active + 2 + uint32(rng.Intn(1500000))
		}
		p := e.params()
		var subsidy int64
		if pan, _ := lib.Recover(func() { subsidy = int64(p.GetBlockReward(h)) }); pan {
			continue
		}
		fee := pickAmount()
		if rng.Chance(70) && fee < 0 {
			fee = -fee / 2
		}
		total := fee + subsidy
		var os []out
		dpos := ceil(total, 0.35)
		v2 := e.Active != maxU32 && h > e.Active+1
		switch {
		case v2:
			cr, dp := ceil(total, 0.3), ceil(total, 0.35)
			a0, a2 := idCRAssets, idDposAcc
			if e.Pow {
				a0, a2 = idDestroy, idDestroy
			}
			os = []out{{cr, a0}, {total - cr - dp, idMiner}, {dp, a2}}
		case h >= e.PublicDpos:
			cr, dp := ceil(total, 0.3), ceil(total, 0.35)
			os = []out{{cr, idCRAssets}, {total - cr - dp + e.FinalChange, idMiner}}
			for _, r := range e.Round {
				os = append(os, out{r.V, r.K})
			}
		default:
			cr, mi := int64(float64(total)*0.3), int64(float64(total)*0.35)
			os = []out{{cr, idFoundation}, {mi, idMiner}, {total - cr - mi, idFoundation}}
		}
		kind := "expected"
		// mutations
		if rng.Chance(60) {
			kind = "mutated"
			for m := 1 + rng.Intn(2); m > 0; m-- {
				switch rng.Intn(10) {
				case 0:
					if len(os) > 0 {
						j := rng.Intn(len(os))
						os[j].V += rng.PickI64(1, -1, 2, -2, 10000)
					}
				case 1: // move value between two outputs (sum preserved)
					if len(os) > 1 {
						a, b := rng.Intn(len(os)), rng.Intn(len(os))
						d := rng.PickI64(1, -1, 100)
						os[a].V += d
						os[b].V -= d
					}
				case 2:
					if len(os) > 0 {
						os[rng.Intn(len(os))].A = []int{idDestroy, idCRAssets, idDposAcc, idFoundation, idMiner, 10, 11, 77}[rng.Intn(8)]
					}
				case 3:
					if len(os) > 0 {
						os = os[:len(os)-1]
					}
				case 4:
					os = append(os, out{int64(rng.Intn(3)), []int{idMiner, idDposAcc, 10, 11}[rng.Intn(4)]})
				case 5:
					dpos += rng.PickI64(1, -1, 1000)
				case 6:
					fee += rng.PickI64(1, -1, 10, -10) // coinbase built for another fee total
				case 7:
					os = os[:rng.Intn(len(os)+1)]
					if rng.Chance(50) {
						os = nil
					}
				case 8:
					if len(os) > 2 && len(os) > 3 { // duplicate a round-reward output
						os[len(os)-1] = os[2]
					}
				case 9:
					if len(os) == 3 { // third output paid as the sum-preserving complement
						os[2].V, os[1].V = os[2].V+1, os[1].V-1
						dpos = os[2].V
					}
				}
			}
		}
		v := checkCase(e, h, os, fee, dpos, true, kind)
		if i < 3 {
			st.Sample(map[string]interface{}{"op": "checkCoinbaseTransactionContext", "h": h, "active": e.Active, "outs": os, "fee": fee, "dpos": dpos, "verdict": v})
		}
	}
	// fixed corpus: boundary totals in the v2 regime, expected coinbase must be accepted
	for _, powMode := range []bool{false, true} {
		for _, fee := range amounts {
			e := &env{NewH: mainnet.NewELAIssuanceHeight, HalvH: mainnet.HalvingRewardHeight, HalvInt: mainnet.HalvingRewardInterval,
				OldReward: int64(mainnet.PowConfiguration.RewardPerBlock), PublicDpos: mainnet.PublicDPOSHeight, Active: 1405000, Pow: powMode}
			h := uint32(1500000)
			total := fee + int64(e.params().GetBlockReward(h))
			cr, dp := ceil(total, 0.3), ceil(total, 0.35)
			a0, a2 := idCRAssets, idDposAcc
			if powMode {
				a0, a2 = idDestroy, idDestroy
			}
			checkCase(e, h, []out{{cr, a0}, {total - cr - dp, idMiner}, {dp, a2}}, fee, dp, true, "corpus")
			checkCase(e, h, []out{{cr, a0}, {total - cr - dp, idMiner}}, fee, dp, true, "corpus-2outs")
			checkCase(e, h, []out{{cr, a0}}, fee, dp, true, "corpus-1out")
			// one output with a wrong value is rejected before Outputs()[1] is read
			checkCase(e, h, []out{{cr + 1, a0}}, fee, dp, true, "corpus-1out-wrong")
			checkCase(e, h, []out{{0, a2}}, fee, dp, true, "corpus-1out-wrong")
			checkCase(e, h, nil, fee, dp, true, "corpus-0outs")
		}
	}

	// ================================================================ AssignCoinbaseTxRewards
	for i := 0; i < run.N(300, 4000); i++ {
		e := randEnv()
		if rng.Chance(50) && e.Active == maxU32 {
			e.Active = uint32(rng.Intn(2000000))
		}
		h := randHeight(e)
		p := e.params()
		total := pickAmount()
		if rng.Chance(60) {
			if pan, _ := lib.Recover(func() { total += int64(p.GetBlockReward(h)) }); pan {
				continue
			}
		}
		ini := []out{{0, idCRAssets}, {0, idMiner}}
		// fewer than two outputs on entry: index panic, except that before DPoS v2 the round
		// rewards are appended first, in map order (not canonical: not generated)
		if rng.Chance(5) && (len(e.Round) == 0 || (e.Active != maxU32 && h > e.Active+1) || h < e.PublicDpos) {
			ini = ini[:rng.Intn(2)]
		}
		cb := mkCoinbase(ini)
		svc := pow.NewAssignRewardsVerif(p, e.arbiters())
		blk := &types.Block{Header: common2.Header{Height: h}, Transactions: []interfaces.Transaction{cb}}
		panicked, _ := lib.Recover(func() { svc.AssignCoinbaseTxRewards(blk, common.Fixed64(total)) })
		res := readOuts(cb)
		v2 := e.Active != maxU32 && h > e.Active+1
		if !panicked && !v2 && h >= e.PublicDpos && len(res) > 2 {
			tail := res[2:]
			sort.Slice(tail, func(a, b int) bool { return tail[a].A < tail[b].A })
		}
		k := next()
		sh.Add(fmt.Sprintf("CAssign %d %s %d %s %s %s", k, e.coq(), h, coqOuts(ini), lib.CoqZi(total), lib.CoqOpt(!panicked, coqOuts(res))))
		st.LogCase(run.Out, k, map[string]interface{}{"op": "AssignCoinbaseTxRewards", "env": e, "h": h, "ini": ini, "total": total, "outs": res, "panic": panicked})
		st.Count(fmt.Sprintf("as:%s:%d:%d:%v", e.coq(), h, total, res), !panicked, "assign")
		// consistency oracle: what the miner builds in the v2 regime is what the validator accepts
		if !panicked && v2 && total > 0 && total < 1<<61 {
			var subsidy int64
			if pan, _ := lib.Recover(func() { subsidy = int64(p.GetBlockReward(h)) }); !pan {
				fee := total - subsidy
				v := checkCase(e, h, res, fee, ceil(total, 0.35), true, "assigned")
				if v != "Accept" {
					st.Fail("assign:v2-rejected", "coinbase built by AssignCoinbaseTxRewards is rejected by checkCoinbaseTransactionContext",
						map[string]interface{}{"env": e, "h": h, "total": total, "outs": res, "verdict": v})
				}
			}
		}
		if i == 0 {
			st.Sample(map[string]interface{}{"op": "AssignCoinbaseTxRewards", "h": h, "active": e.Active, "total": total, "outs": res})
		}
	}

	// ================================================================ cached fee vs recomputed fee
	feeCacheReplay(run, st, checkCase)

	_ = strings.TrimSpace
	st.Traces = st.Evals
	sh.Flush()
	st.Write(run.Out)
}
