package main

import (
	"bytes"
	"fmt"
	gomath "math"
	"path/filepath"

	"github.com/elastos/Elastos.ELA/blockchain"
	"github.com/elastos/Elastos.ELA/common"
	"github.com/elastos/Elastos.ELA/common/config"
	"github.com/elastos/Elastos.ELA/core"
	"github.com/elastos/Elastos.ELA/core/checkpoint"
	"github.com/elastos/Elastos.ELA/core/contract/program"
	"github.com/elastos/Elastos.ELA/core/transaction"
	"github.com/elastos/Elastos.ELA/core/types"
	common2 "github.com/elastos/Elastos.ELA/core/types/common"
	"github.com/elastos/Elastos.ELA/core/types/functions"
	"github.com/elastos/Elastos.ELA/core/types/interfaces"
	"github.com/elastos/Elastos.ELA/core/types/outputpayload"
	"github.com/elastos/Elastos.ELA/core/types/payload"
	crstate "github.com/elastos/Elastos.ELA/cr/state"
	"github.com/elastos/Elastos.ELA/crypto"
	"github.com/elastos/Elastos.ELA/dpos/state"

	"verifharness/lib"
)

// feeCacheReplay runs the real code at the point where the proof of
// C11_v2_coinbase_exact needs "cached fees = recomputed fees".
//
// checkTxsContext sums GetTxFee(tx, references) into totalTxFee while
// GetBlockDPOSReward sums tx.Fee(), which ContextCheck sets only in
// CheckTransactionFee -- after SpecialContextCheck, and not at all when that
// returns end=true.  The only transaction type whose early-ending success
// path admits inputs/outputs is ActivateProducer sent for an inactive CR
// council member after NFTStartHeight.  This replay drives the real
// CheckTransactionInput/Output/AttributeProgram and SpecialContextCheck on
// such a transaction, the real GetTxFee / GetBlockDPOSReward, and the real
// checkCoinbaseTransactionContext on the coinbase an adversarial miner would
// build.
func feeCacheReplay(run *lib.Run, st *lib.Stats,
	checkCase func(e *env, h uint32, os []out, fee, dpos int64, feeConsistent bool, kind string) string) {
	params := config.GetDefaultParams()
	h := params.DPoSConfiguration.NFTStartHeight + 100000 // 1505000: after NFT start, DPoS v2 regime below
	ckp := checkpoint.NewManager(params)
	ckp.SetDataPath(filepath.Join(run.Out, "checkpoints"))
	committee := crstate.NewCommittee(params, ckp)
	priv, pub, err := crypto.GenerateKeyPair()
	if err != nil {
		panic(err)
	}
	nodePK, _ := pub.EncodePoint(true)
	committee.InElectionPeriod = true
	var did common.Uint168
	did[0], did[20] = 0x67, 1
	committee.Members[did] = &crstate.CRMember{Info: payload.CRInfo{CID: did, DID: did}, MemberState: crstate.MemberInactive, DPOSPublicKey: nodePK}
	dst := state.NewState(params, nil, nil, nil, func() bool { return true }, nil, nil, nil, nil, nil, nil, nil)
	bc := blockchain.NewCoinbaseCheckC11Verif(params, dst, committee)

	for _, X := range []int64{100000000, 7} {
		for _, withInput := range []bool{false, true} {
			ap := &payload.ActivateProducer{NodePublicKey: nodePK}
			buf := new(bytes.Buffer)
			ap.SerializeUnsigned(buf, 0)
			ap.Signature, _ = crypto.Sign(priv, buf.Bytes())
			var ins []*common2.Input
			refs := map[*common2.Input]common2.Output{}
			outs := []*common2.Output{{AssetID: core.ELAAssetID, Value: common.Fixed64(X), ProgramHash: addr(77), Type: common2.OTNone, Payload: &outputpayload.DefaultOutput{}}}
			want := -X // no input: X is created
			if withInput {
				in := &common2.Input{Previous: common2.OutPoint{TxID: common.Uint256{1}, Index: 0}, Sequence: 0}
				ins = []*common2.Input{in}
				refs[in] = common2.Output{AssetID: core.ELAAssetID, Value: common.Fixed64(3 * X), ProgramHash: addr(78)}
				want = 2 * X // somebody else's 3X spent, 2X left as fee
			}
			tx := functions.CreateTransaction(common2.TxVersion09, common2.ActivateProducer, 0, ap, []*common2.Attribute{}, ins, outs, 0, []*program.Program{})
			tx.SetParameters(&transaction.TransactionParameters{Transaction: tx, BlockHeight: h, TimeStamp: 0, Config: params, BlockChain: bc})
			var e1, e2, e3 error
			var cerr error
			var end bool
			pan, pv := lib.Recover(func() {
				e1, e2, e3 = tx.CheckTransactionInput(), tx.CheckTransactionOutput(), tx.CheckAttributeProgram()
				ce, en := tx.SpecialContextCheck()
				if ce != nil {
					cerr = ce
				}
				end = en
			})
			recomputed := int64(blockchain.GetTxFee(tx, core.ELAAssetID, refs))
			accepted := !pan && e1 == nil && e2 == nil && e3 == nil && cerr == nil
			var feeErr error
			if accepted && !end {
				// ContextCheck continues with CheckTransactionFee (which caches the fee)
				if p2, _ := lib.Recover(func() { feeErr = tx.CheckTransactionFee(refs) }); p2 || feeErr != nil {
					accepted = false
				}
			}
			cached := int64(tx.Fee())
			obs := map[string]interface{}{"tx": "ActivateProducer for an inactive CR council member", "height": h, "with_input": withInput,
				"output_value": X, "sanity_errors": []interface{}{errStr(e1), errStr(e2), errStr(e3)}, "special_check_error": errStr(cerr), "end": end,
				"fee_check_error": errStr(feeErr), "accepted_up_to_fee_check": accepted, "cached_fee": cached, "recomputed_fee": recomputed, "panic": pan, "panic_value": pv != nil}
			st.Extra["fee_cache_replay_"+lib.CoqBool(withInput)+"_"+lib.CoqZi(X)] = obs
			st.Count(fmt.Sprintf("fc:%v:%d:%v:%v", withInput, X, accepted, end), true, "fee-cache-replay")
			if !accepted || recomputed != want || cached == recomputed {
				// rejected, or fee cached consistently: the hypothesis holds on this path
				continue
			}
			// the block as the validator sees it
			e := &env{NewH: params.NewELAIssuanceHeight, HalvH: params.HalvingRewardHeight, HalvInt: params.HalvingRewardInterval,
				OldReward: int64(params.PowConfiguration.RewardPerBlock), PublicDpos: params.PublicDPOSHeight, Active: params.DPoSV2StartHeight, Pow: false}
			ep := e.params()
			subsidy := int64(ep.GetBlockReward(h))
			cb0 := mkCoinbase([]out{{0, idCRAssets}, {0, idMiner}})
			bcv := blockchain.NewCoinbaseCheckC11Verif(ep, nil, nil)
			dpos := int64(bcv.GetBlockDPOSReward(&types.Block{Header: common2.Header{Height: h}, Transactions: []interfaces.Transaction{cb0, tx}}))
			total := recomputed + subsidy
			if total <= 0 {
				continue
			}
			ceilf := func(t int64, c float64) int64 { return ceilShare(t, c) }
			cr, dp := ceilf(total, 0.3), ceilf(total, 0.35)
			os := []out{{cr, idCRAssets}, {total - cr - dp, idMiner}, {dpos, idDposAcc}}
			v := checkCase(e, h, os, recomputed, dpos, false, "fee-cache")
			paid := os[0].V + os[1].V + os[2].V
			if v == "Accept" && paid != total {
				st.Fail("checkTxsContext:cached-fee-mismatch:ActivateProducer-CR-member",
					"accepted DPoS v2 coinbase does not pay subsidy+fees: tx.Fee() is never set for an ActivateProducer transaction sent for an inactive CR member (SpecialContextCheck ends the context check before CheckTransactionFee, signatures and fee are not checked), so GetBlockDPOSReward uses fee 0 while the CR/miner shares use the recomputed fee",
					map[string]interface{}{"height": h, "tx_inputs_value": map[bool]int64{true: 3 * X, false: 0}[withInput], "tx_output_value": X, "recomputed_fee": recomputed,
						"cached_fee": cached, "subsidy": subsidy, "coinbase": os, "paid": paid, "subsidy_plus_fees": total})
			}
		}
	}
}

func errStr(e error) interface{} {
	if e == nil {
		return nil
	}
	return e.Error()
}

func ceilShare(t int64, c float64) int64 { return int64(mathCeil(float64(t) * c)) }

func mathCeil(x float64) float64 { return gomath.Ceil(x) }
