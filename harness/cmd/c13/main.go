// C13 correspondence + oracle on the real store: histories of
// ChainStoreFFLDB.SaveBlock / RollbackBlock (stack discipline) with blocks
// mixing transfers, side-chain withdrawals (payload V0/V1/V2), deposit
// returns, proposals / reviews / trackings with drafts.  Oracle: every query
// over every id ever mentioned is snapshotted before a block is connected and
// compared after it is disconnected.  Model: coq/model/Ledger.v via
// corr/C13_corr.v.
package main

import (
	"fmt"
	"os"

	"github.com/elastos/Elastos.ELA/common"
	ctypes "github.com/elastos/Elastos.ELA/core/types/common"
	"github.com/elastos/Elastos.ELA/core/types/interfaces"

	"verifharness/fixture"
	"verifharness/ledgerh"
	"verifharness/lib"
)

var mode = ledgerh.Mode{Unspent: true, Txs: true, Addr: true, Side: true, Store: true, Prop: "C13", Cfg: "cfg_fixed"}

func history(run *lib.Run, st *lib.Stats, sh *lib.Shards, id int, rng *lib.Rng, script func(h *ledgerh.H)) {
	f, err := fixture.New(fixture.Options{NoPoolEvents: true})
	if err != nil {
		fmt.Fprintln(os.Stderr, "fixture:", err)
		os.Exit(2)
	}
	defer f.Close()
	h := ledgerh.New(f, rng, id, mode, st)
	h.Observe()
	script(h)
	h.Finish(sh, run.Out)
}

func main() {
	run := lib.ParseArgs()
	rng := lib.NewRng(run.Seed)
	st := lib.NewStats("C13", "store-level histories on a real ChainStoreFFLDB (all indexers + per-type processors): saves and rollbacks in stack discipline, finally unwound to genesis; blocks of 0-3 transactions: transfers (multi-input, zero-value outputs) and WithdrawFromSideChain V0/V1/V2 (1-3 hashes), ReturnSideChainDepositCoin (1-3 hashes), CRCProposal / Review / Tracking with draft data; 6% of keys deliberately re-used (excluded class). nontrivial = history with >=1 rollback of a block carrying a special transaction or transfer; distinct by step log")
	sh := &lib.Shards{Dir: run.Out, Imports: "From ELA Require Import model.Ledger corr.Ledger_run corr.C13_corr.", CaseType: "C13_corr.case",
		Mismatch: "C13_corr.mismatches", Scope: "N", PerShard: 4}
	id := 0
	next := func() int { id++; return id }

	// ---- corpus: one history per special kind, each block connected,
	// disconnected, connected again (re-inclusion after rollback), disconnected.
	// "withdraw2" is the witness of the defect repaired by 523f0a27.
	for _, kind := range []string{"withdraw2", "withdraw0", "withdraw1", "retdep", "proposal", "review", "tracking"} {
		kind := kind
		history(run, st, sh, next(), rng.Fork(), func(h *ledgerh.H) {
			f := h.F
			total := f.Genesis.Transactions[0].Outputs()[0].Value
			fan, _ := f.Transfer([]fixture.In{{Op: f.GenesisOut, Key: 0}}, []fixture.Out{{Key: 1, Value: 700000}, {Key: 2, Value: 800000}, {Key: 3, Value: 0}, {Key: 0, Value: total - 1500000 - 100}}, 910000)
			b1 := h.BuildOn(h.GenesisBlk(), []interfaces.Transaction{fan}, "", fixture.BlockOpt{Miner: 1})
			h.StoreSave(b1)
			hs := []common.Uint256{h.NewHash(), h.NewHash()}
			if kind == "proposal" || kind == "review" {
				hs = hs[:1]
			}
			tx := h.SpecialOn(b1, kind, hs)
			h.Note("corpus: %s connected, disconnected, connected again, disconnected", kind)
			b2 := h.BuildOn(b1, []interfaces.Transaction{tx}, "", fixture.BlockOpt{Miner: 2})
			h.StoreSave(b2)
			h.StoreRollback()
			b2b := h.BuildOn(b1, []interfaces.Transaction{tx}, "", fixture.BlockOpt{Miner: 3}) // the same transaction on the new chain
			h.StoreSave(b2b)
			h.StoreRollback()
			h.StoreRollback()
			_ = ctypes.OutPoint{}
		})
	}

	// ---- corpus: output-order layouts. Every kind whose save / rollback
	// processor or indexer loops over the outputs (withdrawals V0/V1/V2 with 3
	// hashes, deposit returns) with ordinary outputs first / between / last /
	// around the special ones; two special transactions per block, in both
	// orders; connected, disconnected, re-included, disconnected.
	for _, kind := range []string{"withdraw1", "withdraw2", "retdep", "withdraw0"} {
		kind := kind
		history(run, st, sh, next(), rng.Fork(), func(h *ledgerh.H) {
			f := h.F
			total := f.Genesis.Transactions[0].Outputs()[0].Value
			var outs []fixture.Out
			for i := 0; i < 10; i++ {
				outs = append(outs, fixture.Out{Key: i % 4, Value: 700000})
			}
			outs = append(outs, fixture.Out{Key: 0, Value: total - 7000000 - 100})
			fan, _ := f.Transfer([]fixture.In{{Op: f.GenesisOut, Key: 0}}, outs, 920000)
			b1 := h.BuildOn(h.GenesisBlk(), []interfaces.Transaction{fan}, "", fixture.BlockOpt{Miner: 1})
			h.StoreSave(b1)
			for _, lay := range []string{"first", "between", "last", "around"} {
				h.Layout = lay
				h.Note("corpus: %s with ordinary outputs %s", kind, lay)
				txs := h.SpecialsOn(h.StoreTip(), []string{kind, kind}, 3)
				b := h.BuildOn(h.StoreTip(), txs, "", fixture.BlockOpt{Miner: 2})
				h.StoreSave(b)
				h.StoreRollback()
				b2 := h.BuildOn(h.StoreTip(), []interfaces.Transaction{txs[1], txs[0]}, "", fixture.BlockOpt{Miner: 3})
				h.StoreSave(b2)
				h.StoreRollback()
			}
			h.Layout = ""
			h.StoreRollback()
		})
	}

	// ---- corpus: draft-carrying transactions sharing byte-identical data (one
	// hash) inside one block, every ordered pair of kinds
	history(run, st, sh, next(), rng.Fork(), func(h *ledgerh.H) { h.CorpusSharedDrafts() })

	n := run.N(18, 2000)
	for i := 0; i < n; i++ {
		steps := 6 + rng.Intn(10)
		if run.Thorough() {
			steps = 8 + rng.Intn(24)
		}
		history(run, st, sh, next(), rng.Fork(), func(h *ledgerh.H) { h.StoreRandom(steps) })
	}
	st.Sample(map[string]interface{}{"history": 1, "what": "corpus: WithdrawFromSideChain payload V2 connected/disconnected/re-included (Tx3 entry survived the rollback before 523f0a27)"})
	st.Traces = st.Evals
	sh.Flush()
	st.Write(run.Out)
}
