// Coq printers for the codec correspondence: a key frame is printed as the
// nested-pair value of coq/model/C23_KeyFrame.v (fields in WIRE order, maps as
// association lists sorted by key bytes).  The printers read the Go objects
// directly (unexported fields through reflection); they do not go through
// Serialize, so that model-vs-code disagreements are visible.
package main

import (
	"bytes"
	"fmt"
	"reflect"
	"sort"
	"strings"

	"github.com/elastos/Elastos.ELA/common"
	common2 "github.com/elastos/Elastos.ELA/core/types/common"
	"github.com/elastos/Elastos.ELA/core/types/payload"
	crstate "github.com/elastos/Elastos.ELA/cr/state"
	"github.com/elastos/Elastos.ELA/dpos/state"

	"verifharness/lib"
)

func cN(u uint64) string           { return fmt.Sprintf("%d", u) }
func cF(f common.Fixed64) string   { return fmt.Sprintf("%d", uint64(f)) }
func cB(b []byte) string           { return lib.CoqBytes(b) }
func cS(s string) string           { return lib.CoqBytes([]byte(s)) }
func cBool(b bool) string          { return lib.CoqBool(b) }
func c168(h common.Uint168) string { return lib.CoqBytes(h[:]) }
func c256(h common.Uint256) string { return lib.CoqBytes(h[:]) }

// tup prints a right-nested pair (a, (b, (c, d))).
func tup(parts ...string) string {
	if len(parts) == 1 {
		return parts[0]
	}
	return "(" + parts[0] + ", " + tup(parts[1:]...) + ")"
}

func lst(xs []string) string { return "[" + strings.Join(xs, "; ") + "]" }

type ent struct {
	key []byte
	k   string
	v   string
}

func sortedEnts(es []ent) string {
	sort.Slice(es, func(i, j int) bool { return bytes.Compare(es[i].key, es[j].key) < 0 })
	xs := make([]string, len(es))
	for i, e := range es {
		xs[i] = "(" + e.k + ", " + e.v + ")"
	}
	return lst(xs)
}

// mapOf prints any Go map whose keys are string / Uint168 / Uint256.
func mapOf(m interface{}, val func(v reflect.Value) string) string {
	mv := reflect.ValueOf(m)
	var es []ent
	for _, k := range mv.MapKeys() {
		var kb []byte
		switch kk := k.Interface().(type) {
		case string:
			kb = []byte(kk)
		case common.Uint168:
			kb = kk[:]
		case common.Uint256:
			kb = kk[:]
		default:
			panic("mapOf: key type " + k.Type().String())
		}
		e := mv.MapIndex(k)
		tmp := reflect.New(e.Type()).Elem()
		tmp.Set(e)
		es = append(es, ent{kb, cB(kb), val(tmp)})
	}
	return sortedEnts(es)
}

func unitV(reflect.Value) string   { return "tt" }
func strV(v reflect.Value) string  { return cS(v.String()) }
func f64V(v reflect.Value) string  { return cN(uint64(v.Int())) }
func h168V(v reflect.Value) string { return c168(v.Interface().(common.Uint168)) }

func votesLock(v payload.VotesWithLockTime) string {
	return tup(cB(v.Candidate), cF(v.Votes), cN(uint64(v.LockTime)))
}
func votesLockList(vs []payload.VotesWithLockTime) string {
	xs := make([]string, len(vs))
	for i, v := range vs {
		xs[i] = votesLock(v)
	}
	return lst(xs)
}
func detailedVote(d payload.DetailedVoteInfo) string {
	return tup(c168(d.StakeProgramHash), c256(d.TransactionHash), cN(uint64(d.BlockHeight)), cN(uint64(d.PayloadVersion)),
		cN(uint64(d.VoteType)), votesLockList(d.Info))
}
func detailedVoteV(v reflect.Value) string {
	return detailedVote(v.Interface().(payload.DetailedVoteInfo))
}

func producerInfo(i payload.ProducerInfo) string {
	return tup(cB(i.OwnerKey), cB(i.NodePublicKey), cS(i.NickName), cS(i.Url), cN(i.Location), cS(i.NetAddress),
		cN(uint64(i.StakeUntil)), cB(i.Signature))
}

func producerC(p *state.Producer) string {
	u := func(name string) string { return cN(Field(p, name).Uint()) }
	i := func(name string) string { return cN(uint64(Field(p, name).Int())) }
	b := func(name string) string { return cBool(Field(p, name).Bool()) }
	dv := Field(p, "detailedDPoSV2Votes").Interface().(map[common.Uint168]map[common.Uint256]payload.DetailedVoteInfo)
	ev := Field(p, "expiredNFTVotes").Interface().(map[common.Uint168]payload.DetailedVoteInfo)
	return tup(producerInfo(p.Info()), u("state"), u("identity"), u("registerHeight"), u("cancelHeight"), u("inactiveSince"),
		u("activateRequestHeight"), u("illegalHeight"), i("penalty"), i("votes"), i("dposV2Votes"),
		mapOf(dv, func(v reflect.Value) string { return mapOf(v.Interface(), detailedVoteV) }),
		mapOf(ev, detailedVoteV),
		i("depositAmount"), i("totalAmount"), c168(Field(p, "depositHash").Interface().(common.Uint168)),
		b("selected"), u("randomCandidateInactiveCount"), u("inactiveCountingHeight"), u("lastUpdateInactiveHeight"),
		u("inactiveCount"), u("inactiveCountV2"), b("workedInRound"))
}
func producerV(v reflect.Value) string { return producerC(v.Interface().(*state.Producer)) }

func outputInfoV(v reflect.Value) string {
	o := v.Interface().(common2.OutputInfo)
	return tup(c168(o.Recipient), cF(o.Amount))
}

func rewardDataC(d *state.RewardData) string {
	return tup(cF(d.TotalVotesInRound), mapOf(d.OwnerVotesInRound, f64V))
}

func dposStateKeyFrameC(s *state.StateKeyFrame) string {
	return tup(
		mapOf(s.NodeOwnerKeys, strV), mapOf(s.CurrentCRNodeOwnerKeys, strV), mapOf(s.NextCRNodeOwnerKeys, strV),
		mapOf(s.PendingProducers, producerV), mapOf(s.ActivityProducers, producerV), mapOf(s.InactiveProducers, producerV),
		mapOf(s.CanceledProducers, producerV), mapOf(s.IllegalProducers, producerV), mapOf(s.PendingCanceledProducers, producerV),
		mapOf(s.DposV2EffectedProducers, producerV),
		mapOf(s.Votes, unitV),
		mapOf(s.NFTIDInfoHashMap, func(v reflect.Value) string {
			n := v.Interface().(payload.NFTInfo)
			return tup(c256(n.ReferKey), c256(n.GenesisBlockHash), c256(n.CreateNFTTxHash))
		}),
		mapOf(s.DposV2VoteRights, f64V),
		mapOf(s.UsedDposVotes, func(v reflect.Value) string { return votesLockList(v.Interface().([]payload.VotesWithLockTime)) }),
		mapOf(s.UsedDposV2Votes, f64V),
		mapOf(s.DepositOutputs, f64V), mapOf(s.DPoSV2RewardInfo, f64V), mapOf(s.DposV2RewardClaimingInfo, f64V),
		mapOf(s.DposV2RewardClaimedInfo, f64V),
		mapOf(s.WithdrawableTxInfo, outputInfoV), mapOf(s.ClaimingRewardAddr, h168V), mapOf(s.VotesWithdrawableTxInfo, outputInfoV),
		mapOf(s.Nicknames, unitV), mapOf(s.SpecialTxHashes, unitV), mapOf(s.PreBlockArbiters, unitV),
		mapOf(s.ProducerDepositMap, unitV), mapOf(s.EmergencyInactiveArbiters, unitV),
		cS(s.LastRandomCandidateOwner),
		cN(uint64(s.VersionStartHeight)), cN(uint64(s.VersionEndHeight)), cN(uint64(s.LastRandomCandidateHeight)),
		cN(uint64(s.DPOSWorkHeight)), cN(uint64(s.ConsensusAlgorithm)), cN(uint64(s.LastBlockTimestamp)),
		cBool(s.NeedRevertToDPOSTX), cBool(s.NeedNextTurnDPOSInfo), cBool(s.NoProducers), cBool(s.NoClaimDPOSNode),
		cN(uint64(s.RevertToPOWBlockHeight)), cN(uint64(s.LastIrreversibleHeight)), cN(uint64(s.DPOSStartHeight)),
		cN(uint64(s.DPoSV2ActiveHeight)))
}

func crMemberC(m *crstate.CRMember) string {
	i := m.Info
	return tup(tup(cB(i.Code), c168(i.CID), c168(i.DID), cS(i.NickName), cS(i.Url), cN(i.Location)),
		cF(m.ImpeachmentVotes), c168(m.DepositHash), cN(uint64(m.MemberState)), cB(m.DPOSPublicKey),
		cN(uint64(m.InactiveSince)), cN(uint64(m.ActivateRequestHeight)), cN(uint64(m.PenaltyBlockCount)),
		cN(uint64(m.InactiveCount)), cN(uint64(m.InactiveCountingHeight)), cN(uint64(m.InactiveCountV2)), cBool(m.WorkedInRound))
}
func crMemberV(v reflect.Value) string { return crMemberC(v.Interface().(*crstate.CRMember)) }

func crKeyFrameC(k *crstate.KeyFrame) string {
	// HistoryMembers: uint64 keys, numeric order
	var hk []uint64
	for s := range k.HistoryMembers {
		hk = append(hk, s)
	}
	sort.Slice(hk, func(i, j int) bool { return hk[i] < hk[j] })
	hs := make([]string, len(hk))
	for i, s := range hk {
		hs[i] = "(" + cN(s) + ", " + mapOf(k.HistoryMembers[s], crMemberV) + ")"
	}
	prs := make([]string, len(k.PartProposalResults))
	for i, r := range k.PartProposalResults {
		prs[i] = tup(c256(r.ProposalHash), cN(uint64(r.ProposalType)), cBool(r.Result))
	}
	return tup(mapOf(k.Members, crMemberV), mapOf(k.NextMembers, crMemberV), mapOf(k.ClaimedDPoSKeys, unitV),
		mapOf(k.NextClaimedDPoSKeys, unitV), lst(hs), lst(prs), mapOf(k.CurrentSignedWithdrawFromSideChainKeys, unitV),
		cN(uint64(k.LastCommitteeHeight)), cN(uint64(k.LastVotingStartHeight)), cBool(k.InElectionPeriod), cBool(k.NeedAppropriation),
		cBool(k.NeedRecordProposalResult), cF(k.CRCFoundationBalance), cF(k.CRCCommitteeBalance), cF(k.CRCCommitteeUsedAmount),
		cF(k.CRCCurrentStageAmount), cF(k.DestroyedAmount), cF(k.CirculationAmount), cF(k.AppropriationAmount),
		cF(k.CommitteeUsedAmount), cN(uint64(k.CRAssetsAddressUTXOCount)), cN(uint64(k.CurrentWithdrawFromSideChainIndex)))
}

func crInfoC(i payload.CRInfo) string {
	return tup(cB(i.Code), c168(i.CID), c168(i.DID), cS(i.NickName), cS(i.Url), cN(i.Location))
}

func candidateV(v reflect.Value) string {
	c := v.Interface().(*crstate.Candidate)
	return tup(crInfoC(c.Info), cN(uint64(c.State)), cF(c.Votes), cN(uint64(c.RegisterHeight)), cN(uint64(c.CancelHeight)), c168(c.DepositHash))
}

func votesLockListV(v reflect.Value) string {
	return votesLockList(v.Interface().([]payload.VotesWithLockTime))
}

func crStateKeyFrameC(k *crstate.StateKeyFrame) string {
	var hk []uint64
	for s := range k.HistoryCandidates {
		hk = append(hk, s)
	}
	sort.Slice(hk, func(i, j int) bool { return hk[i] < hk[j] })
	hs := make([]string, len(hk))
	for i, s := range hk {
		hs[i] = "(" + cN(s) + ", " + mapOf(k.HistoryCandidates[s], candidateV) + ")"
	}
	return tup(mapOf(k.CodeCIDMap, h168V), mapOf(k.DepositHashCIDMap, h168V), mapOf(k.Candidates, candidateV), lst(hs),
		mapOf(k.DepositInfo, func(v reflect.Value) string {
			d := v.Interface().(*crstate.DepositInfo)
			return tup(cF(d.DepositAmount), cF(d.Penalty), cF(d.TotalAmount))
		}),
		cN(k.CurrentSession), mapOf(k.Nicknames, unitV), mapOf(k.Votes, unitV),
		mapOf(k.DepositOutputs, f64V), mapOf(k.CRCFoundationOutputs, f64V), mapOf(k.CRCCommitteeOutputs, f64V),
		mapOf(k.UsedCRVotes, votesLockListV), mapOf(k.UsedCRImpeachmentVotes, votesLockListV), mapOf(k.UsedCRCProposalVotes, votesLockListV))
}

// coqCase returns (codec name, value term) for the targets the model covers.
func coqCase(name string, x interface{}) (codec, term string, ok bool) {
	switch v := x.(type) {
	case *state.StateKeyFrame:
		return "dpos_state_key_frame", dposStateKeyFrameC(v), true
	case *state.RewardData:
		return "reward_data", rewardDataC(v), true
	case *state.Producer:
		return "producer", producerC(v), true
	case *crstate.KeyFrame:
		return "cr_key_frame", crKeyFrameC(v), true
	case *crstate.CRMember:
		return "cr_member", crMemberC(v), true
	case *crstate.StateKeyFrame:
		return "cr_state_key_frame", crStateKeyFrameC(v), true
	}
	return "", "", false
}
