// C23 history clause on the real code: restore-then-continue.
//
// A DPoS Arbiters/State and a CR Committee are built standalone (as the
// repository's rollback tests do) and fed a generated block history.  At every
// height the registered checkpoint is saved exactly as core/checkpoint.Manager
// saves it (SetHeight, Snapshot, Serialize), loaded into a FRESH instance
// exactly as Manager.Restore loads it (Deserialize on the registered
// checkpoint, OnInit), the fresh instance is fed the remaining blocks, and its
// complete in-memory state is compared (reflection, every exported and
// unexported field) with the instance that never restarted.
package main

import (
	"bytes"
	"fmt"
	"math"
	"reflect"
	"strings"

	"github.com/elastos/Elastos.ELA/common"
	"github.com/elastos/Elastos.ELA/common/config"
	"github.com/elastos/Elastos.ELA/core/checkpoint"
	"github.com/elastos/Elastos.ELA/core/contract"
	"github.com/elastos/Elastos.ELA/core/contract/program"
	"github.com/elastos/Elastos.ELA/core/types"
	common2 "github.com/elastos/Elastos.ELA/core/types/common"
	"github.com/elastos/Elastos.ELA/core/types/functions"
	"github.com/elastos/Elastos.ELA/core/types/interfaces"
	"github.com/elastos/Elastos.ELA/core/types/outputpayload"
	"github.com/elastos/Elastos.ELA/core/types/payload"
	crstate "github.com/elastos/Elastos.ELA/cr/state"
	"github.com/elastos/Elastos.ELA/crypto"
	"github.com/elastos/Elastos.ELA/dpos/state"
	"github.com/elastos/Elastos.ELA/utils"

	"verifharness/lib"
)

// liveSkip: parts of a live object that are wiring or are rebuilt empty on
// every restart by design (rollback logs, the cache of recent snapshots).
func liveSkip(owner reflect.Type, f reflect.StructField) bool {
	if skipField(owner, f) {
		return true
	}
	switch f.Type {
	case reflect.TypeOf((*utils.History)(nil)), reflect.TypeOf((*config.Configuration)(nil)),
		reflect.TypeOf((*checkpoint.Manager)(nil)), reflect.TypeOf((*crstate.Committee)(nil)):
		return true
	}
	if strings.HasPrefix(f.Type.String(), "sync.") {
		return true
	}
	switch pkgShort(owner) + "." + f.Name {
	case "dpos/state.Arbiters.Snapshots", "dpos/state.Arbiters.SnapshotKeysDesc":
		// cache of the last 20 per-height snapshots served to the DPoS network layer; rebuilt as blocks arrive
		return true
	case "cr/state.State.manager", "dpos/state.Arbiters.started":
		return true
	}
	return false
}

type keyPair struct {
	pub  []byte
	priv []byte
}

func genKeys(n int) []keyPair {
	var ks []keyPair
	for i := 0; i < n; i++ {
		priv, pub, err := crypto.GenerateKeyPair()
		if err != nil {
			panic(err)
		}
		b, _ := pub.EncodePoint(true)
		ks = append(ks, keyPair{b, priv})
	}
	return ks
}

// ---------------------------------------------------------------- DPoS

func newArbiters() (*state.Arbiters, checkpoint.ICheckPoint) {
	params := config.GetDefaultParams()
	params.DPoSConfiguration.CRCArbiters = []string{
		"03e435ccd6073813917c2d841a0815d21301ec3286bc1412bb5b099178c68a10b6",
		"038a1829b4b2bee784a99bebabbfecfec53f33dadeeeff21b460f8b4fc7c2ca771",
	}
	mgr := checkpoint.NewManager(params)
	a, err := state.NewArbitrators(params, nil, nil, nil, nil, nil, nil, nil, nil, mgr)
	if err != nil {
		panic(err)
	}
	a.RegisterFunction(func() uint32 { return 0 }, func() *common.Uint256 { return &common.Uint256{} }, nil, nil)
	a.State = state.NewState(params, nil, nil, nil, func() bool { return false }, nil, nil, nil, nil, nil, nil, nil)
	cp, ok := mgr.GetCheckpoint(state.CheckpointKey, math.MaxUint32)
	if !ok {
		panic("dpos checkpoint not registered")
	}
	return a, cp
}

func registerProducerTx(k keyPair, nick string) interfaces.Transaction {
	pk, _ := crypto.DecodePoint(k.pub)
	dep, _ := contract.CreateDepositContractByPubKey(pk)
	return functions.CreateTransaction(0, common2.RegisterProducer, 0,
		&payload.ProducerInfo{OwnerKey: k.pub, NodePublicKey: k.pub, NickName: nick, Url: "u" + nick, Location: 7, NetAddress: "n" + nick},
		[]*common2.Attribute{}, []*common2.Input{},
		[]*common2.Output{{ProgramHash: *dep.ToProgramHash(), Value: common.Fixed64(5000 * 1e8)}}, 0, []*program.Program{})
}

func updateProducerTx(k keyPair, nick string) interfaces.Transaction {
	return functions.CreateTransaction(0, common2.UpdateProducer, 0,
		&payload.ProducerInfo{OwnerKey: k.pub, NodePublicKey: k.pub, NickName: nick},
		[]*common2.Attribute{}, []*common2.Input{}, []*common2.Output{}, 0, []*program.Program{})
}

func cancelProducerTx(k keyPair) interfaces.Transaction {
	return functions.CreateTransaction(common2.TxVersion09, common2.CancelProducer, 0, &payload.ProcessProducer{OwnerKey: k.pub},
		[]*common2.Attribute{}, []*common2.Input{}, []*common2.Output{}, 0, []*program.Program{})
}

func voteTx(r *lib.Rng, vt outputpayload.VoteType, cands [][]byte) interfaces.Transaction {
	var cv []outputpayload.CandidateVotes
	total := common.Fixed64(0)
	for _, c := range cands {
		v := common.Fixed64(1 + r.Intn(50))
		total += v
		cv = append(cv, outputpayload.CandidateVotes{Candidate: c, Votes: v})
	}
	var ph common.Uint168
	copy(ph[:], r.Bytes(21))
	ph[0] = 0x21
	return functions.CreateTransaction(common2.TxVersion09, common2.TransferAsset, 0, &payload.TransferAsset{},
		[]*common2.Attribute{{Usage: common2.Nonce, Data: r.Bytes(8)}}, []*common2.Input{},
		[]*common2.Output{{Value: total, ProgramHash: ph, Type: common2.OTVote,
			Payload: &outputpayload.VoteOutput{Version: outputpayload.VoteProducerAndCRVersion,
				Contents: []outputpayload.VoteContent{{VoteType: vt, CandidateVotes: cv}}}}},
		0, []*program.Program{})
}

// dposHistory generates blocks from VoteStartHeight on: registrations,
// updates, cancellations, votes and empty blocks, with a bookkeeping of which
// producer is in which state so that every transaction is applicable.
func dposHistory(r *lib.Rng, n int) ([]*types.Block, []string) {
	keys := genKeys(5)
	const (
		none = iota
		registered
		cancelled
	)
	st := make([]int, len(keys))
	regAt := make([]uint32, len(keys))
	h := config.GetDefaultParams().VoteStartHeight
	var blocks []*types.Block
	var desc []string
	for i := 0; i < n; i++ {
		var txs []interfaces.Transaction
		var d []string
		ntx := r.Intn(3)
		if i == 0 {
			ntx = 3
		}
		for k := 0; k < ntx; k++ {
			p := r.Intn(len(keys))
			switch {
			case st[p] == none:
				txs = append(txs, registerProducerTx(keys[p], fmt.Sprintf("p%d", p)))
				st[p], regAt[p] = registered, h
				d = append(d, fmt.Sprintf("register%d", p))
			case st[p] == registered && h > regAt[p] && r.Chance(35):
				txs = append(txs, updateProducerTx(keys[p], fmt.Sprintf("p%d_%d", p, i)))
				d = append(d, fmt.Sprintf("update%d", p))
			case st[p] == registered && h > regAt[p]+6 && r.Chance(20):
				txs = append(txs, cancelProducerTx(keys[p]))
				st[p] = cancelled
				d = append(d, fmt.Sprintf("cancel%d", p))
			case st[p] == registered && h > regAt[p]+6:
				txs = append(txs, voteTx(r, outputpayload.Delegate, [][]byte{keys[p].pub}))
				d = append(d, fmt.Sprintf("vote%d", p))
			}
		}
		blocks = append(blocks, &types.Block{Header: common2.Header{Height: h, Timestamp: 1600000000 + h}, Transactions: txs})
		desc = append(desc, fmt.Sprintf("%d:%s", h, strings.Join(d, "+")))
		h++
	}
	return blocks, desc
}

// ---------------------------------------------------------------- CR

func newCommittee() (*crstate.Committee, checkpoint.ICheckPoint) {
	params := config.GetDefaultParams()
	params.DPoSConfiguration.CRCArbiters = params.DPoSConfiguration.CRCArbiters[0:2]
	params.CRConfiguration.MemberCount = 2
	mgr := checkpoint.NewManager(params)
	c := crstate.NewCommittee(params, mgr)
	c.GetState().RegisterFunctions(&crstate.FunctionsConfig{
		GetHistoryMember: func(code []byte) []*crstate.CRMember { return nil },
		GetTxReference: func(tx interfaces.Transaction) (map[*common2.Input]common2.Output, error) {
			return make(map[*common2.Input]common2.Output), nil
		}})
	cp, ok := mgr.GetCheckpoint("cp_cr", math.MaxUint32)
	if !ok {
		panic("cr checkpoint not registered")
	}
	return c, cp
}

func crCode(k keyPair) []byte {
	pk, _ := crypto.DecodePoint(k.pub)
	code, _ := contract.CreateStandardRedeemScript(pk)
	return code
}

func registerCRTx(k keyPair, nick string) interfaces.Transaction {
	code := crCode(k)
	cid, _ := crstate.GetCIDByCode(code)
	did, _ := crstate.GetDIDByCode(code)
	dep, _ := contract.PublicKeyToDepositProgramHash(k.pub)
	info := &payload.CRInfo{Code: code, CID: *cid, DID: *did, NickName: nick, Url: "http://" + nick, Location: 1}
	buf := new(bytes.Buffer)
	info.SerializeUnsigned(buf, payload.CRInfoVersion)
	info.Signature, _ = crypto.Sign(k.priv, buf.Bytes())
	return functions.CreateTransaction(common2.TxVersion09, common2.RegisterCR, 0, info, []*common2.Attribute{}, []*common2.Input{},
		[]*common2.Output{{Value: 5000 * 100000000, ProgramHash: *dep, Type: 0, Payload: new(outputpayload.DefaultOutput)}}, 0,
		[]*program.Program{{Code: code}})
}

func updateCRTx(k keyPair, nick string) interfaces.Transaction {
	code := crCode(k)
	cid, _ := crstate.GetCIDByCode(code)
	return functions.CreateTransaction(0, common2.UpdateCR, 0, &payload.CRInfo{Code: code, CID: *cid, NickName: nick},
		[]*common2.Attribute{}, []*common2.Input{}, []*common2.Output{}, 0, []*program.Program{})
}

func unregisterCRTx(k keyPair) interfaces.Transaction {
	cid, _ := crstate.GetCIDByCode(crCode(k))
	return functions.CreateTransaction(0, common2.UnregisterCR, 0, &payload.UnregisterCR{CID: *cid},
		[]*common2.Attribute{}, []*common2.Input{}, []*common2.Output{}, 0, []*program.Program{})
}

// crHistory: registrations at CRVotingStartHeight, votes, updates,
// unregistrations during the voting period, then the jump to
// CRCommitteeStartHeight (election) and blocks of the first term.
func crHistory(r *lib.Rng, n int) ([]*types.Block, []string) {
	params := config.GetDefaultParams()
	keys := genKeys(4)
	const (
		none = iota
		registered
		gone
	)
	st := make([]int, len(keys))
	regAt := make([]uint32, len(keys))
	h := params.CRConfiguration.CRVotingStartHeight
	var blocks []*types.Block
	var desc []string
	jumpAt := n/2 + r.Intn(n/4+1)
	for i := 0; i < n; i++ {
		var txs []interfaces.Transaction
		var d []string
		if i == jumpAt {
			h = params.CRConfiguration.CRCommitteeStartHeight - 1
			d = append(d, "jump")
		}
		voting := i < jumpAt
		ntx := r.Intn(3)
		if i == 0 {
			ntx = 3
		}
		for k := 0; voting && k < ntx; k++ {
			p := r.Intn(len(keys))
			switch {
			case st[p] == none:
				txs = append(txs, registerCRTx(keys[p], fmt.Sprintf("cr%d", p)))
				st[p], regAt[p] = registered, h
				d = append(d, fmt.Sprintf("register%d", p))
			case st[p] == registered && h > regAt[p] && r.Chance(30):
				txs = append(txs, updateCRTx(keys[p], fmt.Sprintf("cr%d_%d", p, i)))
				d = append(d, fmt.Sprintf("update%d", p))
			case st[p] == registered && h > regAt[p]+6 && r.Chance(12):
				txs = append(txs, unregisterCRTx(keys[p]))
				st[p] = gone
				d = append(d, fmt.Sprintf("unregister%d", p))
			case st[p] == registered && h > regAt[p]+6:
				cid, _ := crstate.GetCIDByCode(crCode(keys[p]))
				txs = append(txs, voteTx(r, outputpayload.CRC, [][]byte{cid.Bytes()}))
				d = append(d, fmt.Sprintf("vote%d", p))
			}
		}
		blocks = append(blocks, &types.Block{Header: common2.Header{Height: h, Timestamp: 1600000000 + h}, Transactions: txs})
		desc = append(desc, fmt.Sprintf("%d:%s", h, strings.Join(d, "+")))
		h++
	}
	return blocks, desc
}

// ---------------------------------------------------------------- driver

func lastNonEmpty(blocks []*types.Block) int {
	for i := len(blocks) - 1; i > 0; i-- {
		if len(blocks[i].Transactions) > 0 {
			return i
		}
	}
	return 0
}

type node struct {
	obj     interface{} // *state.Arbiters or *crstate.Committee
	cp      checkpoint.ICheckPoint
	process func(b *types.Block)
}

func dposNode() node {
	a, cp := newArbiters()
	return node{a, cp, func(b *types.Block) { a.ProcessBlock(b, nil) }}
}

func crNode() node {
	c, cp := newCommittee()
	return node{c, cp, func(b *types.Block) { c.ProcessBlock(b, nil) }}
}

// save = what Manager.onBlockSaved does when a checkpoint is due.
func save(n node, height uint32) ([]byte, error) {
	n.cp.SetHeight(height)
	snap := n.cp.Snapshot()
	if snap == nil {
		return nil, fmt.Errorf("Snapshot() returned nil")
	}
	buf := new(bytes.Buffer)
	if err := snap.Serialize(buf); err != nil {
		return nil, err
	}
	return buf.Bytes(), nil
}

// load = what Manager.Restore does with the default checkpoint file.
func load(n node, wire []byte) error {
	if err := n.cp.Deserialize(bytes.NewBuffer(wire)); err != nil {
		return err
	}
	n.cp.OnInit()
	return nil
}

func historyCases(run *lib.Run, rng *lib.Rng, st *lib.Stats, id *int) {
	type scenario struct {
		name string
		mk   func() node
		gen  func(r *lib.Rng, n int) ([]*types.Block, []string)
	}
	scs := []scenario{{"dpos", dposNode, dposHistory}, {"cr", crNode, crHistory}}
	nh := run.N(3, 40)
	for _, sc := range scs {
		for hi := 0; hi < nh; hi++ {
			r := rng.Fork()
			n := 20
			if run.Thorough() {
				n = 16 + r.Intn(30)
			}
			blocks, desc := sc.gen(r, n)
			// reference: never restarted
			ref := sc.mk()
			var wires [][]byte
			var snaps []checkpoint.ICheckPoint
			refPanic, pv := lib.Recover(func() {
				for _, b := range blocks {
					ref.process(b)
					ref.cp.SetHeight(b.Height)
					snap := ref.cp.Snapshot()
					if snap == nil {
						panic("Snapshot() returned nil")
					}
					buf := new(bytes.Buffer)
					if err := snap.Serialize(buf); err != nil {
						panic(err)
					}
					wires = append(wires, buf.Bytes())
					snaps = append(snaps, snap)
				}
			})
			if refPanic {
				// the generated history is not processable at all: not a checkpoint matter
				st.Hist["history-discarded:"+sc.name]++
				st.LogCase(run.Out, *id+1, map[string]interface{}{"scenario": sc.name, "discarded": fmt.Sprint(pv), "blocks": desc})
				continue
			}
			// self-test of the comparison: a restored node that misses one non-empty
			// block must be reported as different, otherwise the differ is blind
			if last := lastNonEmpty(blocks); last > 0 {
				fresh := sc.mk()
				blind := false
				lib.Recover(func() {
					if load(fresh, wires[0]) != nil {
						return
					}
					for i, b := range blocks[1:] {
						if i+1 != last {
							fresh.process(b)
						}
					}
					d := &Differ{Skip: liveSkip, Max: 5, Equiv: equivs()}
					d.Diff(reflect.ValueOf(ref.obj).Elem(), reflect.ValueOf(fresh.obj).Elem(), sc.name)
					blind = len(d.Out) == 0
				})
				st.Hist["history-selftest:"+sc.name]++
				if blind {
					failOnce(st, "selftest:history-differ-blind", "skipping block "+desc[last]+" after a restore went unnoticed by the state comparison", map[string]interface{}{"scenario": sc.name, "blocks": desc})
				}
			}
			// Snapshot() must be a deep copy (the manager writes it to disk
			// asynchronously): a snapshot taken at block i, serialized only now,
			// after the node processed the rest of the history, must still decode
			// to what it held when it was taken.
			for i, snap := range snaps {
				var diffs, sites []string
				lib.Recover(func() {
					buf := new(bytes.Buffer)
					if err := snap.Serialize(buf); err != nil {
						diffs, sites = []string{"late Serialize: " + err.Error()}, []string{"Snapshot"}
						return
					}
					x, y := sc.mk().cp, sc.mk().cp
					if e1, e2 := x.Deserialize(bytes.NewBuffer(wires[i])), y.Deserialize(buf); e1 != nil || e2 != nil {
						diffs, sites = []string{fmt.Sprintf("decode: %v %v", e1, e2)}, []string{"Snapshot"}
						return
					}
					d := &Differ{Skip: skipField, Max: 5, Equiv: equivs()}
					d.Diff(reflect.ValueOf(x).Elem(), reflect.ValueOf(y).Elem(), sc.name+".Snapshot")
					diffs, sites = d.Out, d.Sites
				})
				st.Hist["history-snapshot-deep:"+sc.name]++
				if len(diffs) > 0 {
					failOnce(st, "snapshot-alias:"+sites[0], "a checkpoint Snapshot() changed after it was taken (it shares memory with the live state): "+diffs[0],
						map[string]interface{}{"scenario": sc.name, "seed": run.Seed, "history": hi, "snapshot_after_block": i, "blocks": desc})
					break
				}
			}
			for cut := 0; cut < len(blocks); cut++ {
				*id++
				fresh := sc.mk()
				var diffs, sites []string
				outcome := "ok"
				p, pv := lib.Recover(func() {
					if err := load(fresh, wires[cut]); err != nil {
						outcome = "load-error: " + err.Error()
						return
					}
					for _, b := range blocks[cut+1:] {
						fresh.process(b)
					}
					d := &Differ{Skip: liveSkip, Max: 30, Equiv: equivs()}
					d.Diff(reflect.ValueOf(ref.obj).Elem(), reflect.ValueOf(fresh.obj).Elem(), sc.name)
					diffs, sites = d.Out, d.Sites
				})
				if p {
					outcome = fmt.Sprintf("panic: %v", pv)
				}
				st.Count(fmt.Sprintf("hist:%s:%d:%d:%x", sc.name, hi, cut, len(wires[cut])), len(wires[cut]) > 400, "history:"+sc.name)
				st.LogCase(run.Out, *id, map[string]interface{}{"scenario": sc.name, "history": hi, "restore_after_block": cut, "height": blocks[cut].Height,
					"outcome": outcome, "diffs": diffs, "checkpoint_bytes": len(wires[cut])})
				input := map[string]interface{}{"scenario": sc.name, "seed": run.Seed, "history": hi, "restore_after_block": cut,
					"height": blocks[cut].Height, "blocks": desc}
				if outcome != "ok" {
					failOnce(st, "history:"+sc.name+":"+strings.SplitN(outcome, ":", 2)[0], "restore-then-continue failed: "+outcome, input)
					continue
				}
				seen := map[string]bool{}
				for k, dline := range diffs {
					sig := "history:" + sites[k]
					if seen[sig] {
						continue
					}
					seen[sig] = true
					input["diff"] = dline
					failOnce(st, sig, "a node restored from the checkpoint and fed the remaining blocks differs from the node that never restarted: "+dline, input)
				}
			}
			if hi == 0 {
				st.Sample(map[string]interface{}{"scenario": sc.name, "blocks": desc, "restore_points": len(blocks), "last_checkpoint_bytes": len(wires[len(wires)-1])})
			}
		}
	}
}

// liveRoundTrip: a reflection-filled checkpoint is loaded into a fresh live
// object the way Manager.Restore does (Deserialize, OnInit -> Recover /
// recoverFromCheckPoints) and saved again the way the manager saves
// (Snapshot -> initFrom... -> Serialize); every field must survive the trip
// through the live object.
func liveRoundTrip(run *lib.Run, rng *lib.Rng, st *lib.Stats, id *int) {
	type kind struct {
		name   string
		target string
		mk     func() node
	}
	byName := map[string]target{}
	for _, t := range targets() {
		byName[t.name] = t
	}
	n := run.N(24, 400)
	for _, k := range []kind{{"dpos", "dpos.CheckPoint", dposNode}, {"cr", "cr.Checkpoint", crNode}} {
		for i := 0; i < n; i++ {
			mode := []int{1, 3, -1, 0}[i%4]
			g := newGen(rng.Fork(), mode)
			x := byName[k.target].mk(g)
			var diffs, sites []string
			outcome := "ok"
			var wire1 []byte
			p, pv := lib.Recover(func() {
				b1 := new(bytes.Buffer)
				if err := x.Serialize(b1); err != nil {
					outcome = "serialize-error: " + err.Error()
					return
				}
				wire1 = b1.Bytes()
				nd := k.mk()
				if err := load(nd, wire1); err != nil {
					outcome = "load-error: " + err.Error()
					return
				}
				h := uint32(Field(x, "Height").Uint())
				wire2, err := save(nd, h)
				if err != nil {
					outcome = "save-error: " + err.Error()
					return
				}
				y := byName[k.target].fresh()
				if err := y.Deserialize(bytes.NewBuffer(wire2)); err != nil {
					outcome = "deserialize-error: " + err.Error()
					return
				}
				d := &Differ{Max: 30, Equiv: equivs(), Skip: func(owner reflect.Type, f reflect.StructField) bool {
					if skipField(owner, f) {
						return true
					}
					// serialized and decoded, but Arbiters has no such field any more (vestigial): see notes/C23.md
					return pkgShort(owner)+"."+f.Name == "dpos/state.CheckPoint.CurrentOnDutyCRCArbitersMap"
				}}
				d.Diff(reflect.ValueOf(x).Elem(), reflect.ValueOf(y).Elem(), k.target)
				diffs, sites = d.Out, d.Sites
			})
			if p {
				outcome = fmt.Sprintf("panic: %v", pv)
			}
			*id++
			st.Count(fmt.Sprintf("live:%s:%x", k.name, wire1), mode != 0 && outcome == "ok", "live-roundtrip:"+k.name)
			st.LogCase(run.Out, *id, map[string]interface{}{"target": "live-roundtrip:" + k.name, "index": i, "mode": mode, "outcome": outcome, "diffs": diffs})
			input := map[string]interface{}{"target": k.target, "seed": run.Seed, "index": i, "mode": mode}
			if outcome != "ok" {
				failOnce(st, "live-roundtrip:"+k.name+":"+strings.SplitN(outcome, ":", 2)[0], "checkpoint -> live object -> checkpoint failed: "+outcome, input)
				continue
			}
			seen := map[string]bool{}
			for j, dl := range diffs {
				sig := "live-roundtrip:" + sites[j]
				if !seen[sig] {
					seen[sig] = true
					failOnce(st, sig, "field lost between checkpoint and live object (Recover/recoverFromCheckPoints or initFrom...): "+dl, input)
				}
			}
		}
	}
}
