// Reflection-driven generator and differ for C23.
//
// Fill populates *every* field reachable from a value, exported or not
// (unexported fields are reached through unsafe), so that a field that is
// missing from Serialize/Deserialize shows up as a difference after a
// round-trip.  Diff is a deep comparison that reports the *path* of every
// differing field; it canonicalises only what the wire format cannot
// distinguish (see canonEmpty below).
package main

import (
	"fmt"
	"math"
	"reflect"
	"sort"
	"strings"
	"unsafe"

	"verifharness/lib"
)

// rw returns a settable/readable alias of v even when v was reached through
// an unexported struct field.
func rw(v reflect.Value) reflect.Value {
	if !v.IsValid() {
		return v
	}
	if v.CanAddr() {
		return reflect.NewAt(v.Type(), unsafe.Pointer(v.UnsafeAddr())).Elem()
	}
	return v
}

// Field addresses an unexported field by name: Field(ptrToStruct, "name").
func Field(ptr interface{}, name string) reflect.Value {
	v := reflect.ValueOf(ptr)
	for v.Kind() == reflect.Ptr || v.Kind() == reflect.Interface {
		v = v.Elem()
	}
	f := v.FieldByName(name)
	if !f.IsValid() {
		panic("no field " + name + " in " + v.Type().String())
	}
	return rw(f)
}

type Gen struct {
	R *lib.Rng
	// MapMode: 0, 1, 3 = every map/slice gets exactly that many entries;
	// -1 = each map/slice independently draws from {0,1,3}.
	MapMode int
	// Depth-dependent damping so nested maps of maps stay small.
	MaxBytes int
	// Skip says which struct fields are runtime wiring (not state).
	Skip func(owner reflect.Type, f reflect.StructField) bool
	// Iface builds a concrete value for an interface-typed slot.
	Iface map[reflect.Type]func(g *Gen, path string) reflect.Value
	// Custom fully overrides generation for a type.
	Custom map[reflect.Type]func(g *Gen, v reflect.Value, path string)
	// ByPath overrides generation for a field path suffix ("Type.Field").
	ByPath map[string]func(g *Gen, v reflect.Value, path string)
	// Unfilled records slots the generator could not populate.
	Unfilled map[string]bool
	// Filled counts populated leaves per kind.
	Leaves int
}

func (g *Gen) count(depth int) int {
	m := g.MapMode
	if m < 0 {
		m = []int{0, 1, 3}[g.R.Intn(3)]
	}
	if depth > 6 && m > 1 {
		m = 1
	}
	return m
}

func (g *Gen) nonzeroU64() uint64 {
	switch g.R.Intn(8) {
	case 0:
		return math.MaxUint64
	case 1:
		return 1
	default:
		for {
			if x := g.R.U64(); x != 0 {
				return x
			}
		}
	}
}

func (g *Gen) str() string {
	n := 1 + g.R.Intn(10)
	b := make([]byte, n)
	for i := range b {
		b[i] = byte('a' + g.R.Intn(26))
	}
	// occasionally non-ASCII bytes: Go strings are byte strings on the wire
	if g.R.Chance(10) {
		b[g.R.Intn(n)] = byte(128 + g.R.Intn(128))
	}
	return string(b)
}

func (g *Gen) Fill(v reflect.Value, path string, depth int) {
	v = rw(v)
	t := v.Type()
	if f, ok := g.Custom[t]; ok {
		f(g, v, path)
		return
	}
	switch v.Kind() {
	case reflect.Bool:
		v.SetBool(true)
		g.Leaves++
	case reflect.Uint8:
		v.SetUint(uint64(1 + g.R.Intn(255)))
		g.Leaves++
	case reflect.Uint16:
		v.SetUint(g.nonzeroU64()&0xffff | 1)
		g.Leaves++
	case reflect.Uint32:
		x := g.nonzeroU64() & 0xffffffff
		if x == 0 {
			x = 7
		}
		v.SetUint(x)
		g.Leaves++
	case reflect.Uint64, reflect.Uint:
		v.SetUint(g.nonzeroU64())
		g.Leaves++
	case reflect.Int64:
		x := int64(g.nonzeroU64())
		v.SetInt(x)
		g.Leaves++
	case reflect.Int, reflect.Int32:
		// Go ints that travel as uint32 (DutyIndex): stay within 1..2^31-1
		v.SetInt(int64(1 + g.R.Intn(math.MaxInt32-1)))
		g.Leaves++
	case reflect.Int8, reflect.Int16:
		v.SetInt(int64(1 + g.R.Intn(100)))
		g.Leaves++
	case reflect.Float64, reflect.Float32:
		v.SetFloat(float64(1+g.R.Intn(1<<20)) / float64(1+g.R.Intn(1000)))
		g.Leaves++
	case reflect.String:
		v.SetString(g.str())
		g.Leaves++
	case reflect.Array:
		for i := 0; i < v.Len(); i++ {
			g.Fill(v.Index(i), path, depth+1)
		}
	case reflect.Slice:
		if t.Elem().Kind() == reflect.Uint8 {
			n := 1 + g.R.Intn(g.MaxBytes)
			b := reflect.MakeSlice(t, n, n)
			for i := 0; i < n; i++ {
				b.Index(i).SetUint(uint64(g.R.Intn(256)))
			}
			v.Set(b)
			g.Leaves++
			return
		}
		n := g.count(depth)
		s := reflect.MakeSlice(t, n, n)
		for i := 0; i < n; i++ {
			g.Fill(s.Index(i), path+"[]", depth+1)
		}
		v.Set(s)
	case reflect.Map:
		n := g.count(depth)
		m := reflect.MakeMapWithSize(t, n)
		for tries := 0; m.Len() < n && tries < 50; tries++ {
			k := reflect.New(t.Key()).Elem()
			g.Fill(k, path+"{key}", depth+1)
			e := reflect.New(t.Elem()).Elem()
			g.Fill(e, path+"{}", depth+1)
			m.SetMapIndex(k, e)
		}
		v.Set(m)
	case reflect.Ptr:
		p := reflect.New(t.Elem())
		g.Fill(p.Elem(), path, depth+1)
		v.Set(p)
	case reflect.Struct:
		for i := 0; i < t.NumField(); i++ {
			sf := t.Field(i)
			if g.Skip != nil && g.Skip(t, sf) {
				continue
			}
			fp := path + "." + sf.Name
			if f, ok := g.ByPath[t.Name()+"."+sf.Name]; ok {
				f(g, rw(v.Field(i)), fp)
				continue
			}
			g.Fill(v.Field(i), fp, depth+1)
		}
	case reflect.Interface:
		if mk, ok := g.Iface[t]; ok {
			x := mk(g, path)
			if x.IsValid() {
				v.Set(x)
			}
			return
		}
		g.Unfilled[path+" ("+t.String()+")"] = true
	case reflect.Func, reflect.Chan, reflect.UnsafePointer:
		// runtime wiring, never state
	default:
		g.Unfilled[path+" (kind "+v.Kind().String()+")"] = true
	}
}

// ---------------------------------------------------------------- diff

type Differ struct {
	Skip func(owner reflect.Type, f reflect.StructField) bool
	// Equiv lets a caller declare two values of a type equivalent where the
	// wire format provably cannot distinguish them.
	Equiv map[reflect.Type]func(a, b reflect.Value) (handled, equal bool)
	Out   []string
	Sites []string // innermost "pkg.Struct.Field" of each entry of Out
	Max   int
	site  string
}

func (d *Differ) add(path, what string) {
	if len(d.Out) < d.Max {
		d.Out = append(d.Out, path+": "+what)
		d.Sites = append(d.Sites, d.site)
	}
}

func pkgShort(t reflect.Type) string {
	p := t.PkgPath()
	p = strings.TrimPrefix(p, "github.com/elastos/Elastos.ELA/")
	return p + "." + t.Name()
}

// canonEmpty: a nil map/slice and an empty one are the same value for the
// wire format (both are written as count 0 and every decoder allocates a
// fresh empty container), so they are identified here - for every
// count-prefixed map, slice and byte string, and nowhere else.
func isEmptyContainer(v reflect.Value) bool {
	return (v.Kind() == reflect.Map || v.Kind() == reflect.Slice) && v.Len() == 0
}

func (d *Differ) Diff(a, b reflect.Value, path string) {
	a, b = rw(a), rw(b)
	if a.Type() != b.Type() {
		d.add(path, fmt.Sprintf("dynamic type %s vs %s", a.Type(), b.Type()))
		return
	}
	t := a.Type()
	if f, ok := d.Equiv[t]; ok {
		if handled, eq := f(a, b); handled {
			if !eq {
				d.add(path, fmt.Sprintf("%v vs %v", short(a), short(b)))
			}
			return
		}
	}
	switch a.Kind() {
	case reflect.Bool, reflect.Int, reflect.Int8, reflect.Int16, reflect.Int32, reflect.Int64,
		reflect.Uint, reflect.Uint8, reflect.Uint16, reflect.Uint32, reflect.Uint64, reflect.String:
		if !reflect.DeepEqual(a.Interface(), b.Interface()) {
			d.add(path, fmt.Sprintf("%v vs %v", short(a), short(b)))
		}
	case reflect.Float32, reflect.Float64:
		if math.Float64bits(a.Float()) != math.Float64bits(b.Float()) {
			d.add(path, fmt.Sprintf("%v vs %v", a.Float(), b.Float()))
		}
	case reflect.Array:
		if t.Elem().Kind() == reflect.Uint8 {
			if !reflect.DeepEqual(a.Interface(), b.Interface()) {
				d.add(path, fmt.Sprintf("%v vs %v", short(a), short(b)))
			}
			return
		}
		for i := 0; i < a.Len(); i++ {
			d.Diff(a.Index(i), b.Index(i), fmt.Sprintf("%s[%d]", path, i))
		}
	case reflect.Slice:
		if isEmptyContainer(a) && isEmptyContainer(b) {
			return
		}
		if a.Len() != b.Len() {
			d.add(path, fmt.Sprintf("len %d vs %d", a.Len(), b.Len()))
			return
		}
		if t.Elem().Kind() == reflect.Uint8 {
			if !reflect.DeepEqual(a.Interface(), b.Interface()) {
				d.add(path, fmt.Sprintf("%v vs %v", short(a), short(b)))
			}
			return
		}
		for i := 0; i < a.Len(); i++ {
			d.Diff(a.Index(i), b.Index(i), fmt.Sprintf("%s[%d]", path, i))
		}
	case reflect.Map:
		if isEmptyContainer(a) && isEmptyContainer(b) {
			return
		}
		if a.Len() != b.Len() {
			d.add(path, fmt.Sprintf("map len %d vs %d", a.Len(), b.Len()))
			return
		}
		for _, k := range a.MapKeys() {
			bv := b.MapIndex(k)
			if !bv.IsValid() {
				d.add(path, fmt.Sprintf("key %v missing after round-trip", short(k)))
				continue
			}
			av := a.MapIndex(k)
			// map elements are not addressable: copy to temporaries
			at := reflect.New(t.Elem()).Elem()
			at.Set(av)
			bt := reflect.New(t.Elem()).Elem()
			bt.Set(bv)
			d.Diff(at, bt, fmt.Sprintf("%s{%v}", path, short(k)))
		}
	case reflect.Ptr:
		if a.IsNil() || b.IsNil() {
			if a.IsNil() != b.IsNil() {
				d.add(path, fmt.Sprintf("nil=%v vs nil=%v", a.IsNil(), b.IsNil()))
			}
			return
		}
		d.Diff(a.Elem(), b.Elem(), path)
	case reflect.Interface:
		if a.IsNil() || b.IsNil() {
			if a.IsNil() != b.IsNil() {
				d.add(path, fmt.Sprintf("nil=%v vs nil=%v", a.IsNil(), b.IsNil()))
			}
			return
		}
		ae, be := a.Elem(), b.Elem()
		if ae.Type() != be.Type() {
			d.add(path, fmt.Sprintf("dynamic type %s vs %s", ae.Type(), be.Type()))
			return
		}
		if ae.Kind() == reflect.Ptr {
			d.Diff(ae, be, path)
			return
		}
		at := reflect.New(ae.Type()).Elem()
		at.Set(ae)
		bt := reflect.New(be.Type()).Elem()
		bt.Set(be)
		d.Diff(at, bt, path)
	case reflect.Struct:
		for i := 0; i < t.NumField(); i++ {
			sf := t.Field(i)
			if d.Skip != nil && d.Skip(t, sf) {
				continue
			}
			saved := d.site
			d.site = pkgShort(t) + "." + sf.Name
			d.Diff(a.Field(i), b.Field(i), path+"."+sf.Name)
			d.site = saved
		}
	case reflect.Func, reflect.Chan, reflect.UnsafePointer:
	default:
		d.add(path, "uncomparable kind "+a.Kind().String())
	}
}

func short(v reflect.Value) string {
	v = rw(v)
	var s string
	if v.Kind() == reflect.Array && v.Type().Elem().Kind() == reflect.Uint8 {
		b := make([]byte, v.Len())
		for i := range b {
			b[i] = byte(v.Index(i).Uint())
		}
		s = fmt.Sprintf("%x", b)
	} else if v.Kind() == reflect.Slice && v.Type().Elem().Kind() == reflect.Uint8 {
		s = fmt.Sprintf("%x", v.Bytes())
	} else if v.CanInterface() {
		s = fmt.Sprintf("%v", v.Interface())
	} else {
		s = v.Kind().String()
	}
	if len(s) > 24 {
		s = s[:24] + ".."
	}
	return s
}

// FieldOf extracts "Type.Field" components of a diff path for signatures:
// the last struct field on the path.
func lastField(path string) string {
	p := path
	if i := strings.Index(p, ": "); i >= 0 {
		p = p[:i]
	}
	// strip map keys and indices
	var sb strings.Builder
	depth := 0
	for _, c := range p {
		switch c {
		case '{', '[':
			depth++
		case '}', ']':
			depth--
		default:
			if depth == 0 {
				sb.WriteRune(c)
			}
		}
	}
	return sb.String()
}

func sortedKeys(m map[string]bool) []string {
	ks := make([]string, 0, len(m))
	for k := range m {
		ks = append(ks, k)
	}
	sort.Strings(ks)
	return ks
}

// failOnce reports each oracle-failure signature once per run (lib.Stats keeps
// at most 50 failures; repeated known findings must not crowd out a new one).
var failedSigs = map[string]int{}

func failOnce(st *lib.Stats, sig, what string, input interface{}) {
	failedSigs[sig]++
	if failedSigs[sig] == 1 {
		st.Fail(sig, what, input)
	} else {
		st.Hist["oracle_fail:"+sig]++
	}
}
