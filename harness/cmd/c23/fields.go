// C23 translator: for every checkpoint / key-frame struct, which fields do
// Serialize and Deserialize touch (transitively through methods of the same
// receiver), and in which order.  Regenerated on every run from the source
// tree under --repo and written to coq/gen/C23_fields.v, where props/C23.v
// proves (by evaluation of a small verified checker) that every field is
// touched by both or is on the justified allow-list.
//
// go/parser + go/types only (standard library).  The packages are
// type-checked one at a time with a stub importer: identifiers from other
// packages stay unresolved (errors are ignored), but selections on the
// package's own struct types - all this translator needs - resolve exactly,
// including promoted fields of embedded local structs.
package main

import (
	"fmt"
	"go/ast"
	"go/parser"
	"go/token"
	"go/types"
	"os"
	"path/filepath"
	"sort"
	"strings"
)

type structSpec struct {
	Dir    string // package directory relative to the repo
	Name   string // struct type
	Ser    string // method that writes it
	Deser  string // method that reads it
	Anchor bool   // named in the property's anchors: must exist
}

var fieldSpecs = []structSpec{
	{"dpos/state", "CheckPoint", "Serialize", "Deserialize", true},
	{"dpos/state", "StateKeyFrame", "Serialize", "Deserialize", true},
	{"dpos/state", "RewardData", "Serialize", "Deserialize", true},
	{"dpos/state", "Producer", "Serialize", "Deserialize", true},
	{"dpos/state", "originArbiter", "Serialize", "Deserialize", true},
	{"dpos/state", "dposArbiter", "Serialize", "Deserialize", true},
	{"dpos/state", "crcArbiter", "Serialize", "Deserialize", true},
	{"cr/state", "Checkpoint", "Serialize", "Deserialize", true},
	{"cr/state", "KeyFrame", "Serialize", "Deserialize", true},
	{"cr/state", "StateKeyFrame", "Serialize", "Deserialize", true},
	{"cr/state", "ProposalKeyFrame", "Serialize", "Deserialize", true},
	{"cr/state", "ProposalState", "Serialize", "Deserialize", true},
	{"cr/state", "CRMember", "Serialize", "Deserialize", true},
	{"cr/state", "Candidate", "Serialize", "Deserialize", true},
	{"cr/state", "DepositInfo", "Serialize", "Deserialize", true},
	{"mempool", "txPoolCheckpoint", "Serialize", "Deserialize", true},
	{"mempool", "txFeeOrderedList", "Serialize", "Deserialize", true},
	{"mempool", "txItem", "Serialize", "Deserialize", true},
	{"wallet", "CoinsCheckPoint", "Serialize", "Deserialize", true},
	{"wallet", "Coin", "Serialize", "Deserialize", true},
	{"wallet", "CoinOwnership", "Serialize", "Deserialize", true},
	{"wallet", "CoinLinkedItem", "Serialize", "Deserialize", true},
	// payload structs stored inside key frames
	{"core/types/payload", "ProducerInfo", "Serialize", "Deserialize", false},
	{"core/types/payload", "CRInfo", "SerializeUnsigned", "DeserializeUnsigned", false},
	{"core/types/payload", "NFTInfo", "Serialize", "Deserialize", false},
	{"core/types/payload", "DetailedVoteInfo", "Serialize", "Deserialize", false},
	{"core/types/payload", "VotesWithLockTime", "Serialize", "Deserialize", false},
	{"core/types/payload", "CRCProposalInfo", "Serialize", "Deserialize", false},
	{"core/types/payload", "SideChainInfo", "Serialize", "Deserialize", false},
	{"core/types/payload", "ProposalResult", "Serialize", "Deserialize", false},
	{"core/types/payload", "Budget", "Serialize", "Deserialize", false},
	{"core/types/common", "OutputInfo", "Serialize", "Deserialize", false},
}

type fieldRow struct {
	Struct string // "dpos/state.CheckPoint"
	Name   string
	Ser    bool
	Deser  bool
}

type structRow struct {
	Struct     string
	Fields     []fieldRow
	SerOrder   []string
	DeserOrder []string
}

type stubImporter struct{ pkgs map[string]*types.Package }

func (s *stubImporter) Import(path string) (*types.Package, error) {
	if p, ok := s.pkgs[path]; ok {
		return p, nil
	}
	name := path[strings.LastIndex(path, "/")+1:]
	p := types.NewPackage(path, name)
	p.MarkComplete()
	s.pkgs[path] = p
	return p, nil
}

type pkgInfo struct {
	fset  *token.FileSet
	files []*ast.File
	info  *types.Info
	pkg   *types.Package
	// methods by receiver type name and method name
	methods map[string]map[string]*ast.FuncDecl
}

func loadPkg(repo, dir string) (*pkgInfo, error) {
	fset := token.NewFileSet()
	ents, err := os.ReadDir(filepath.Join(repo, dir))
	if err != nil {
		return nil, err
	}
	var files []*ast.File
	for _, e := range ents {
		n := e.Name()
		if e.IsDir() || !strings.HasSuffix(n, ".go") || strings.HasSuffix(n, "_test.go") {
			continue
		}
		f, err := parser.ParseFile(fset, filepath.Join(repo, dir, n), nil, parser.ParseComments)
		if err != nil {
			return nil, err
		}
		files = append(files, f)
	}
	if len(files) == 0 {
		return nil, fmt.Errorf("no Go files in %s", dir)
	}
	info := &types.Info{Selections: map[*ast.SelectorExpr]*types.Selection{}, Uses: map[*ast.Ident]types.Object{},
		Defs: map[*ast.Ident]types.Object{}}
	conf := types.Config{Importer: &stubImporter{pkgs: map[string]*types.Package{}}, Error: func(error) {}, DisableUnusedImportCheck: true}
	pkg, _ := conf.Check(dir, fset, files, info) // errors (unresolved imports) are expected
	if pkg == nil {
		return nil, fmt.Errorf("type-check of %s produced no package", dir)
	}
	p := &pkgInfo{fset: fset, files: files, info: info, pkg: pkg, methods: map[string]map[string]*ast.FuncDecl{}}
	for _, f := range files {
		for _, d := range f.Decls {
			fd, ok := d.(*ast.FuncDecl)
			if !ok || fd.Recv == nil || len(fd.Recv.List) != 1 || fd.Body == nil {
				continue
			}
			rt := fd.Recv.List[0].Type
			if st, ok := rt.(*ast.StarExpr); ok {
				rt = st.X
			}
			id, ok := rt.(*ast.Ident)
			if !ok {
				continue
			}
			if p.methods[id.Name] == nil {
				p.methods[id.Name] = map[string]*ast.FuncDecl{}
			}
			p.methods[id.Name][fd.Name.Name] = fd
		}
	}
	return p, nil
}

func namedOf(t types.Type) *types.Named {
	if p, ok := t.(*types.Pointer); ok {
		t = p.Elem()
	}
	n, _ := t.(*types.Named)
	return n
}

// touched returns the direct fields of struct `name` mentioned (read, written,
// addressed, passed on) in method `method` and, transitively, in methods of
// the same type invoked on the same receiver; in order of first mention.
func (p *pkgInfo) touched(name, method string) ([]string, bool) {
	start, ok := p.methods[name][method]
	if !ok {
		return nil, false
	}
	// seq numbers nodes in visiting order (a callee is visited at its call
	// site); fieldSeq is the position at which the field's wire data is
	// handled: its first mention, or - when the value travels through a
	// local variable (var x T; Read(&x); recv.F = T(x)) - the first mention
	// of that local.
	seq := 0
	fieldSeq := map[string]int{}
	visited := map[string]bool{}
	var visit func(fd *ast.FuncDecl)
	visit = func(fd *ast.FuncDecl) {
		if visited[fd.Name.Name] {
			return
		}
		visited[fd.Name.Name] = true
		var recvObj types.Object
		if names := fd.Recv.List[0].Names; len(names) == 1 {
			recvObj = p.info.Defs[names[0]]
		}
		localSeq := map[types.Object]int{}
		isLocal := func(o types.Object) bool {
			v, ok := o.(*types.Var)
			return ok && !v.IsField() && o != recvObj && o.Pos() >= fd.Body.Pos() && o.Pos() <= fd.Body.End()
		}
		directField := func(e ast.Expr) (string, bool) {
			sel, ok := e.(*ast.SelectorExpr)
			if !ok {
				return "", false
			}
			s := p.info.Selections[sel]
			if s == nil || s.Kind() != types.FieldVal {
				return "", false
			}
			rn := namedOf(s.Recv())
			if rn == nil || rn.Obj().Name() != name || rn.Obj().Pkg() != p.pkg {
				return "", false
			}
			st, ok := rn.Underlying().(*types.Struct)
			if !ok {
				return "", false
			}
			return st.Field(s.Index()[0]).Name(), true
		}
		touch := func(f string, at int) {
			if old, ok := fieldSeq[f]; !ok || at < old {
				fieldSeq[f] = at
			}
		}
		bareDecl := map[*ast.Ident]bool{} // "var x T" without a value reads nothing
		ast.Inspect(fd.Body, func(n ast.Node) bool {
			seq++
			switch x := n.(type) {
			case *ast.ValueSpec:
				if len(x.Values) == 0 {
					for _, id := range x.Names {
						bareDecl[id] = true
					}
				}
			case *ast.Ident:
				if bareDecl[x] {
					return true
				}
				o := p.info.Uses[x]
				if o == nil {
					o = p.info.Defs[x]
				}
				if o != nil && isLocal(o) {
					if _, ok := localSeq[o]; !ok {
						localSeq[o] = seq
					}
				}
			case *ast.AssignStmt:
				for _, lhs := range x.Lhs {
					f, ok := directField(lhs)
					if !ok {
						continue
					}
					// only "recv.F = x" and "recv.F = T(x)" with x a local variable
					for _, rhs := range x.Rhs {
						e := rhs
						if call, ok := e.(*ast.CallExpr); ok && len(call.Args) == 1 {
							e = call.Args[0]
						}
						if id, ok := e.(*ast.Ident); ok {
							if o := p.info.Uses[id]; o != nil && isLocal(o) {
								if at, ok := localSeq[o]; ok {
									touch(f, at)
								}
							}
						}
					}
				}
			case *ast.SelectorExpr:
				if f, ok := directField(x); ok {
					touch(f, seq)
					return true
				}
				s := p.info.Selections[x]
				if s == nil || s.Kind() != types.MethodVal {
					return true
				}
				rn := namedOf(s.Recv())
				if rn == nil || rn.Obj().Name() != name || rn.Obj().Pkg() != p.pkg {
					return true
				}
				// a method of the same type called on the same receiver variable
				if id, ok := x.X.(*ast.Ident); ok && recvObj != nil && p.info.Uses[id] == recvObj && len(s.Index()) == 1 {
					if callee, ok := p.methods[name][x.Sel.Name]; ok {
						visit(callee)
					}
				}
			}
			return true
		})
	}
	visit(start)
	order := make([]string, 0, len(fieldSeq))
	for f := range fieldSeq {
		order = append(order, f)
	}
	sort.Slice(order, func(i, j int) bool {
		if fieldSeq[order[i]] != fieldSeq[order[j]] {
			return fieldSeq[order[i]] < fieldSeq[order[j]]
		}
		return order[i] < order[j]
	})
	return order, true
}

func (p *pkgInfo) structFields(name string) ([]string, bool) {
	obj := p.pkg.Scope().Lookup(name)
	if obj == nil {
		return nil, false
	}
	st, ok := obj.Type().Underlying().(*types.Struct)
	if !ok {
		return nil, false
	}
	var fs []string
	for i := 0; i < st.NumFields(); i++ {
		fs = append(fs, st.Field(i).Name())
	}
	return fs, true
}

// extractFields runs the translator; problems lists anchors that were not found.
func extractFields(repo string) (rows []structRow, problems []string) {
	pkgs := map[string]*pkgInfo{}
	for _, sp := range fieldSpecs {
		p, ok := pkgs[sp.Dir]
		if !ok {
			var err error
			p, err = loadPkg(repo, sp.Dir)
			if err != nil {
				problems = append(problems, fmt.Sprintf("package %s: %v", sp.Dir, err))
				pkgs[sp.Dir] = nil
				continue
			}
			pkgs[sp.Dir] = p
		}
		if p == nil {
			continue
		}
		q := sp.Dir + "." + sp.Name
		fs, ok := p.structFields(sp.Name)
		if !ok {
			problems = append(problems, "struct "+q+" not found")
			continue
		}
		so, ok1 := p.touched(sp.Name, sp.Ser)
		do, ok2 := p.touched(sp.Name, sp.Deser)
		if !ok1 || !ok2 {
			problems = append(problems, fmt.Sprintf("%s: method %s/%s not found", q, sp.Ser, sp.Deser))
			continue
		}
		in := func(xs []string, x string) bool {
			for _, y := range xs {
				if y == x {
					return true
				}
			}
			return false
		}
		row := structRow{Struct: q}
		for _, f := range fs {
			row.Fields = append(row.Fields, fieldRow{q, f, in(so, f), in(do, f)})
		}
		for _, f := range so {
			if in(do, f) {
				row.SerOrder = append(row.SerOrder, f)
			}
		}
		for _, f := range do {
			if in(so, f) {
				row.DeserOrder = append(row.DeserOrder, f)
			}
		}
		rows = append(rows, row)
	}
	return
}

func coqStr(s string) string { return "\"" + strings.ReplaceAll(s, "\"", "\"\"") + "\"" }

func coqStrList(xs []string) string {
	ys := make([]string, len(xs))
	for i, x := range xs {
		ys[i] = coqStr(x)
	}
	return "[" + strings.Join(ys, "; ") + "]"
}

// writeGen emits coq/gen/C23_fields.v.
func writeGen(path, repo string, rows []structRow, skip map[string]string) error {
	var sb strings.Builder
	sb.WriteString("(* GENERATED by harness/cmd/c23 (translator fields.go) from the Go source under\n   " + repo + " - do not edit; rewritten on every run of tools/check.py C23. *)\n")
	sb.WriteString("From Coq Require Import List String Bool.\nFrom ELA Require Import model.C23_Fields.\nImport ListNotations.\nLocal Open Scope string_scope.\n\n")
	sb.WriteString("Definition table : list field := [\n")
	first := true
	for _, r := range rows {
		for _, f := range r.Fields {
			if !first {
				sb.WriteString(";\n")
			}
			first = false
			fmt.Fprintf(&sb, "  mkfield %s %s %v %v", coqStr(f.Struct), coqStr(f.Name), f.Ser, f.Deser)
		}
	}
	sb.WriteString("\n].\n\n")
	sb.WriteString("(* per struct: fields touched by both methods, in order of first mention in Serialize / in Deserialize *)\n")
	sb.WriteString("Definition orders : list (string * (list string * list string)) := [\n")
	for i, r := range rows {
		if i > 0 {
			sb.WriteString(";\n")
		}
		fmt.Fprintf(&sb, "  (%s, (%s, %s))", coqStr(r.Struct), coqStrList(r.SerOrder), coqStrList(r.DeserOrder))
	}
	sb.WriteString("\n].\n\n")
	sb.WriteString("(* fields the reflection oracle of the harness does not compare *)\n")
	var ks []string
	for k := range skip {
		ks = append(ks, k)
	}
	sort.Strings(ks)
	sb.WriteString("Definition oracle_skip : list (string * string) := [\n")
	for i, k := range ks {
		if i > 0 {
			sb.WriteString(";\n")
		}
		j := strings.LastIndex(k, ".")
		fmt.Fprintf(&sb, "  (%s, %s)", coqStr(k[:j]), coqStr(k[j+1:]))
	}
	sb.WriteString("\n].\n")
	if err := os.MkdirAll(filepath.Dir(path), 0o755); err != nil {
		return err
	}
	if old, err := os.ReadFile(path); err == nil && string(old) == sb.String() {
		return nil // unchanged: keep the mtime so the proofs are not rebuilt needlessly
	}
	tmp := path + ".tmp"
	if err := os.WriteFile(tmp, []byte(sb.String()), 0o644); err != nil {
		return err
	}
	return os.Rename(tmp, path)
}
