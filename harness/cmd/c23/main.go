// C23 — saved state checkpoints are lossless.
//
// Three ties to /repo, all re-established on every run:
//  1. translator (fields.go): struct fields vs fields touched by
//     Serialize/Deserialize -> coq/gen/C23_fields.v, consumed by props/C23.v;
//  2. codec correspondence (coqprint.go): key frames serialized by the Go code
//     are decoded by the Gallina model inside Coq (cases_*.v shards);
//  3. property oracle on the real code (this file, history.go): reflection
//     filled checkpoints, Serialize -> Deserialize -> deep comparison, and
//     restore-then-continue on live DPoS / CR state.
package main

import (
	"bytes"
	"fmt"
	"io"
	"os"
	"reflect"
	"strings"

	"github.com/elastos/Elastos.ELA/common"
	"github.com/elastos/Elastos.ELA/common/config"
	"github.com/elastos/Elastos.ELA/core/transaction"
	common2 "github.com/elastos/Elastos.ELA/core/types/common"
	"github.com/elastos/Elastos.ELA/core/types/functions"
	"github.com/elastos/Elastos.ELA/core/types/outputpayload"
	"github.com/elastos/Elastos.ELA/core/types/payload"
	crstate "github.com/elastos/Elastos.ELA/cr/state"
	"github.com/elastos/Elastos.ELA/crypto"
	"github.com/elastos/Elastos.ELA/dpos/state"
	"github.com/elastos/Elastos.ELA/wallet"

	"verifharness/elaenv"
	"verifharness/lib"
)

type serializable interface {
	Serialize(w io.Writer) error
	Deserialize(r io.Reader) error
}

// notPersisted is the oracle's list of struct fields that are runtime wiring
// rather than state.  It is emitted into coq/gen/C23_fields.v as
// [oracle_skip]; props/C23.v proves it is contained in the justified
// allow-list of proof/C23_fields.v, so the oracle cannot silently ignore a
// field the proof side does not know about.
var notPersisted = map[string]string{
	"dpos/state.CheckPoint.arbitrators":            "back-pointer to the live Arbiters",
	"cr/state.Checkpoint.committee":                "back-pointer to the live Committee",
	"mempool.txPoolCheckpoint.txPool":              "back-pointer to the live TxPool",
	"mempool.txPoolCheckpoint.initConflictManager": "callback installed by NewTxPool",
	"mempool.txFeeOrderedList.onPopBack":           "callback installed by the constructor",
	"mempool.txFeeOrderedList.maxSize":             "constant pact.MaxTxPoolSize set by the constructor",
	"wallet.CoinsCheckPoint.RWMutex":               "lock",
	"core/types/payload.CRInfo.Signature":          "CRMember/Candidate store the unsigned form (Info.SerializeUnsigned); the stored signature is never read",
}

// knownGaps mirrors known_gaps of coq/model/C23_Fields.v (recorded defects).
var knownGaps = map[string]bool{"mempool.txPoolCheckpoint.txnList": true}

func skipField(owner reflect.Type, f reflect.StructField) bool {
	_, ok := notPersisted[pkgShort(owner)+"."+f.Name]
	return ok
}

// fieldsTie runs the translator, writes coq/gen/C23_fields.v and reports every
// field that Serialize or Deserialize does not touch.
func fieldsTie(run *lib.Run, st *lib.Stats) {
	rows, problems := extractFields(run.Repo)
	gen := "/verif/coq/gen/C23_fields.v"
	if _, err := os.Stat("coq/gen"); err == nil {
		gen = "coq/gen/C23_fields.v"
	}
	if err := writeGen(gen, run.Repo, rows, notPersisted); err != nil {
		panic(err)
	}
	for _, p := range problems {
		failOnce(st, "fields:anchor-missing", "translator: "+p, map[string]interface{}{"repo": run.Repo})
	}
	nf, nc := 0, 0
	for _, r := range rows {
		for _, f := range r.Fields {
			nf++
			k := f.Struct + "." + f.Name
			if f.Ser && f.Deser {
				nc++
				continue
			}
			if _, ok := notPersisted[k]; ok {
				continue
			}
			which := "Serialize and Deserialize"
			if f.Ser {
				which = "Deserialize"
			} else if f.Deser {
				which = "Serialize"
			}
			failOnce(st, "fields:"+k, fmt.Sprintf("field %s is not touched by %s of its struct (and is not on the allow-list of deliberately unpersisted fields)", k, which),
				map[string]interface{}{"struct": f.Struct, "field": f.Name, "serialize": f.Ser, "deserialize": f.Deser})
		}
		if strings.Join(r.SerOrder, ",") != strings.Join(r.DeserOrder, ",") {
			failOnce(st, "fields:order:"+r.Struct, "Serialize and Deserialize of "+r.Struct+" touch the fields in different orders",
				map[string]interface{}{"serialize": r.SerOrder, "deserialize": r.DeserOrder})
		}
	}
	st.Extra["fields_structs"] = len(rows)
	st.Extra["fields_total"] = nf
	st.Extra["fields_persisted"] = nc
	st.Extra["fields_gen"] = gen
}

type target struct {
	name  string
	mk    func(g *Gen) serializable // populated instance
	fresh func() serializable       // instance a restart would deserialize into
}

func newGen(rng *lib.Rng, mode int) *Gen {
	g := &Gen{R: rng, MapMode: mode, MaxBytes: 33, Skip: skipField, Unfilled: map[string]bool{},
		Iface: map[reflect.Type]func(*Gen, string) reflect.Value{}, Custom: map[reflect.Type]func(*Gen, reflect.Value, string){},
		ByPath: map[string]func(*Gen, reflect.Value, string){}}
	// state.ArbiterMember: one of the three implementations, then every field filled
	g.Iface[reflect.TypeOf((*state.ArbiterMember)(nil)).Elem()] = func(g *Gen, path string) reflect.Value {
		var ar state.ArbiterMember
		var err error
		switch g.R.Intn(3) {
		case 0:
			ar, err = state.NewOriginArbiter(validPK())
		case 1:
			p := &state.Producer{}
			p.SetInfo(payload.ProducerInfo{OwnerKey: validPK()})
			ar, err = state.NewDPoSArbiter(p)
		default:
			ar, err = state.NewCRCArbiter(validPK(), validPK(), &crstate.CRMember{}, true)
		}
		if err != nil {
			panic(err)
		}
		g.Fill(reflect.ValueOf(ar).Elem(), path+"<"+reflect.TypeOf(ar).Elem().Name()+">", 3)
		return reflect.ValueOf(ar)
	}
	// map[Uint256]interface{} (illegalBlocksPayloadHashes) is a set: only keys travel
	g.Iface[reflect.TypeOf((*interface{})(nil)).Elem()] = func(g *Gen, path string) reflect.Value { return reflect.Value{} }
	// wallet.Coin: Output.Type/Payload exist on the wire only from TxVersion09
	g.Custom[reflect.TypeOf(wallet.Coin{})] = func(g *Gen, v reflect.Value, path string) {
		c := v.Addr().Interface().(*wallet.Coin)
		c.Output = &common2.Output{}
		g.Fill(reflect.ValueOf(&c.Output.AssetID).Elem(), path, 9)
		g.Fill(reflect.ValueOf(&c.Output.Value).Elem(), path, 9)
		g.Fill(reflect.ValueOf(&c.Output.OutputLock).Elem(), path, 9)
		g.Fill(reflect.ValueOf(&c.Output.ProgramHash).Elem(), path, 9)
		g.Fill(reflect.ValueOf(&c.Height).Elem(), path, 9)
		if g.R.Bool() {
			c.TxVersion = common2.TxVersion09
			c.Output.Type = common2.OTNone
			c.Output.Payload = &outputpayload.DefaultOutput{}
		} else {
			c.TxVersion = common2.TxVersionDefault
		}
	}
	return g
}

func targets() []target {
	var ts []target
	add := func(name string, proto func() serializable) {
		ts = append(ts, target{name: name, fresh: proto, mk: func(g *Gen) serializable {
			x := proto()
			g.Fill(reflect.ValueOf(x).Elem(), name, 0)
			return x
		}})
	}
	add("dpos.CheckPoint", func() serializable { return &state.CheckPoint{} })
	add("dpos.StateKeyFrame", func() serializable { return &state.StateKeyFrame{} })
	add("dpos.RewardData", func() serializable { return &state.RewardData{} })
	add("dpos.Producer", func() serializable { return &state.Producer{} })
	add("cr.Checkpoint", func() serializable { return &crstate.Checkpoint{} })
	add("cr.KeyFrame", func() serializable { return &crstate.KeyFrame{} })
	add("cr.StateKeyFrame", func() serializable { return &crstate.StateKeyFrame{} })
	add("cr.ProposalKeyFrame", func() serializable { return &crstate.ProposalKeyFrame{} })
	add("cr.ProposalState", func() serializable { return &crstate.ProposalState{} })
	add("cr.CRMember", func() serializable { return &crstate.CRMember{} })
	add("cr.Candidate", func() serializable { return &crstate.Candidate{} })
	add("cr.DepositInfo", func() serializable { return &crstate.DepositInfo{} })
	add("wallet.CoinsCheckPoint", func() serializable { return wallet.NewCoinCheckPoint() })
	return ts
}

// roundTrip runs Serialize -> Deserialize on the real code and returns the
// canonical list of differing field paths.
func roundTrip(t target, x serializable) (diffs, sites []string, wire []byte, outcome string) {
	var buf bytes.Buffer
	var y serializable
	panicked, pv := lib.Recover(func() {
		if err := x.Serialize(&buf); err != nil {
			outcome = "serialize-error: " + err.Error()
			return
		}
		wire = append([]byte(nil), buf.Bytes()...)
		y = t.fresh()
		if err := y.Deserialize(&buf); err != nil {
			outcome = "deserialize-error: " + err.Error()
			return
		}
		if buf.Len() != 0 {
			outcome = fmt.Sprintf("trailing-bytes: %d", buf.Len())
			return
		}
		outcome = "ok"
	})
	if panicked {
		return nil, nil, wire, fmt.Sprintf("panic: %v", pv)
	}
	if outcome != "ok" {
		return nil, nil, wire, outcome
	}
	d := &Differ{Skip: skipField, Max: 40, Equiv: equivs()}
	d.Diff(reflect.ValueOf(x).Elem(), reflect.ValueOf(y).Elem(), t.name)
	return d.Out, d.Sites, wire, outcome
}

// equivs: values the wire format cannot distinguish (documented in notes/C23.md).
func equivs() map[reflect.Type]func(a, b reflect.Value) (bool, bool) {
	m := map[reflect.Type]func(a, b reflect.Value) (bool, bool){}
	// wallet.CoinLinkedItem: a nil *OutPoint and a pointer to the zero OutPoint
	// are both written as 34 zero bytes.
	m[reflect.TypeOf((*common2.OutPoint)(nil))] = func(a, b reflect.Value) (bool, bool) {
		z := common2.OutPoint{}
		get := func(v reflect.Value) common2.OutPoint {
			if v.IsNil() {
				return z
			}
			return *(v.Interface().(*common2.OutPoint))
		}
		return true, get(a) == get(b)
	}
	return m
}

var pkPool [][]byte

// validPK returns a well-formed compressed public key (the arbiter
// constructors decode it); every field is overwritten by Fill afterwards.
func validPK() []byte {
	if pkPool == nil {
		for i := 0; i < 4; i++ {
			_, pub, err := crypto.GenerateKeyPair()
			if err != nil {
				panic(err)
			}
			b, err := pub.EncodePoint(true)
			if err != nil {
				panic(err)
			}
			pkPool = append(pkPool, b)
		}
	}
	return pkPool[0]
}

func initGlobals() {
	functions.GetTransactionByTxType = transaction.GetTransaction
	functions.GetTransactionByBytes = transaction.GetTransactionByBytes
	functions.CreateTransaction = transaction.CreateTransaction
	functions.GetTransactionParameters = transaction.GetTransactionparameters
	config.DefaultParams = *config.GetDefaultParams()
}

// report records one executed round-trip case and turns every differing
// field into an oracle failure whose signature is the innermost struct field.
func report(run *lib.Run, st *lib.Stats, id *int, name string, i, mode int, diffs, sites []string, wire []byte, outcome string) {
	*id++
	st.Count(fmt.Sprintf("%s:%x", name, wire), mode != 0 && outcome == "ok", name)
	st.LogCase(run.Out, *id, map[string]interface{}{"target": name, "index": i, "mode": mode, "outcome": outcome, "bytes": len(wire), "diffs": diffs})
	if outcome != "ok" {
		failOnce(st, "roundtrip:"+name+":"+strings.SplitN(outcome, ":", 2)[0], name+": Serialize/Deserialize of a well-formed instance failed: "+outcome,
			map[string]interface{}{"target": name, "seed": run.Seed, "index": i, "mode": mode})
		return
	}
	seen := map[string]bool{}
	for k, d := range diffs {
		sig := "roundtrip:" + sites[k]
		if seen[sig] {
			continue
		}
		seen[sig] = true
		failOnce(st, sig, "field not reproduced by Serialize -> Deserialize: "+d, map[string]interface{}{"target": name, "seed": run.Seed, "index": i, "mode": mode, "diff": d})
	}
}

// corpus: fixed witnesses of past failures (must pass now).
func corpus() []struct {
	t target
	x serializable
} {
	var out []struct {
		t target
		x serializable
	}
	ts := map[string]target{}
	for _, t := range targets() {
		ts[t.name] = t
	}
	h := common.Uint256{1, 2, 3}
	oi := common2.OutputInfo{Recipient: common.Uint168{0x21, 9, 9}, Amount: 12345}
	// fixed by /repo commit "fix: key-frame Deserialize stores the withdrawable-transaction entries it reads"
	k1 := &state.StateKeyFrame{WithdrawableTxInfo: map[common.Uint256]common2.OutputInfo{h: oi}}
	k2 := &state.StateKeyFrame{VotesWithdrawableTxInfo: map[common.Uint256]common2.OutputInfo{h: oi}}
	k3 := &crstate.ProposalKeyFrame{WithdrawableTxInfo: map[common.Uint256]common2.OutputInfo{h: oi}}
	out = append(out, struct {
		t target
		x serializable
	}{ts["dpos.StateKeyFrame"], k1}, struct {
		t target
		x serializable
	}{ts["dpos.StateKeyFrame"], k2}, struct {
		t target
		x serializable
	}{ts["cr.ProposalKeyFrame"], k3})
	return out
}

// quickLimit: how many cases of the larger codecs go to the Gallina decoder per quick run.
var quickLimit = map[string]int{"dpos_checkpoint": 6, "cr_checkpoint": 8, "dpos_state_key_frame": 10, "proposal_key_frame": 12,
	"cr_key_frame": 20, "cr_state_key_frame": 20, "(wallet_checkpoint default_payloads)": 20}

// addModelCase lets the mempool part hand a case to the Gallina decoder.
var addModelCase func(codec string, wire []byte, term string)

func main() {
	run := lib.ParseArgs()
	elaenv.InitLog(run.Out)
	initGlobals()
	rng := lib.NewRng(run.Seed)
	st := lib.NewStats("C23", "checkpoint instances filled field-by-field through reflection (every exported and unexported field, every map/slice with 0, 1 or 3 entries, every scalar non-zero, every pointer set); "+
		"restore points along generated block histories; nontrivial = at least one non-empty map and all scalars non-zero; distinct by serialized bytes")

	fieldsTie(run, st)

	id := 0
	for k, c := range corpus() {
		diffs, sites, wire, outcome := roundTrip(c.t, c.x)
		report(run, st, &id, c.t.name, -1-k, 1, diffs, sites, wire, outcome)
	}
	sh := &lib.Shards{Dir: run.Out, Imports: "From ELA Require Import lib.Bytes lib.C23_codec lib.C23_codec2 model.C23_KeyFrame model.C23_Checkpoints corr.C23_corr.",
		CaseType: "C23_corr.case", Mismatch: "C23_corr.mismatches", Scope: "N", PerShard: 14}
	modelled := map[string]int{} // cases sent to the Gallina decoder, per codec
	nPer := run.N(60, 1500)
	ts := targets()
	for i := 0; i < nPer; i++ {
		for _, t := range ts {
			mode := []int{0, 1, 3, -1}[i%4]
			if i >= 8 {
				mode = -1
			}
			g := newGen(rng.Fork(), mode)
			x := t.mk(g)
			diffs, sites, wire, outcome := roundTrip(t, x)
			report(run, st, &id, t.name, i, mode, diffs, sites, wire, outcome)
			if i == 3 {
				st.Sample(map[string]interface{}{"target": t.name, "mode": mode, "wire_bytes": len(wire), "leaves_filled": g.Leaves, "outcome": outcome, "diffs": len(diffs)})
			}
			for _, u := range sortedKeys(g.Unfilled) {
				st.Hist["unfilled:"+u]++
			}
			// restore into a NON-EMPTY receiver (Manager.Restore deserialises into the
			// registered checkpoint, ProposalKeyFrame.Snapshot into NewProposalKeyFrame()):
			// Deserialize must replace, not extend, what the receiver holds
			if outcome == "ok" && i%2 == 0 {
				recv := t.mk(newGen(rng.Fork(), []int{1, 3}[i/2%2]))
				var diffs2, sites2 []string
				out2 := "ok"
				if p, pv := lib.Recover(func() {
					if err := recv.Deserialize(bytes.NewBuffer(wire)); err != nil {
						out2 = "deserialize-error: " + err.Error()
						return
					}
					d := &Differ{Skip: skipField, Max: 20, Equiv: equivs()}
					d.Diff(reflect.ValueOf(x).Elem(), reflect.ValueOf(recv).Elem(), t.name)
					diffs2, sites2 = d.Out, d.Sites
				}); p {
					out2 = fmt.Sprintf("panic: %v", pv)
				}
				id++
				st.Count(fmt.Sprintf("into:%s:%x", t.name, wire), mode != 0 && out2 == "ok", "restore-into:"+t.name)
				st.LogCase(run.Out, id, map[string]interface{}{"target": "restore-into:" + t.name, "index": i, "mode": mode, "outcome": out2, "diffs": diffs2})
				input := map[string]interface{}{"target": t.name, "seed": run.Seed, "index": i, "mode": mode}
				if out2 != "ok" {
					failOnce(st, "restore-into:"+t.name+":"+strings.SplitN(out2, ":", 2)[0], "Deserialize into a populated receiver failed: "+out2, input)
				}
				seen := map[string]bool{}
				for k, d := range diffs2 {
					sig := "restore-into:" + sites2[k]
					if strings.HasPrefix(sites2[k], "wallet.CoinsCheckPoint.") {
						sig = "restore-into:wallet.CoinsCheckPoint:merges-into-receiver"
					}
					if !seen[sig] {
						seen[sig] = true
						input["diff"] = d
						failOnce(st, sig, "Deserialize into a receiver that already holds data does not reproduce the serialized value (it extends the receiver instead of replacing it): "+d, input)
					}
				}
			}
			// codec correspondence: the Gallina decoder reads the Go bytes
			codec, term, ok := coqCase(t.name, x)
			if !ok {
				codec, term, ok = coqCase2(x)
			}
			if ok && outcome == "ok" {
				limit := run.N(30, 100)
				if q, ok := quickLimit[codec]; ok {
					limit = run.N(q, 3*q)
				}
				if modelled[codec] < limit && len(wire) < 40000 {
					modelled[codec]++
					sh.Add(fmt.Sprintf("Case %d %s %s %s", id, codec, lib.CoqBytes(wire), term))
					st.Hist["model:"+codec]++
				}
			}
		}
	}
	addModelCase = func(codec string, wire []byte, term string) {
		if modelled[codec] < run.N(30, 100) {
			modelled[codec]++
			sh.Add(fmt.Sprintf("Case %d %s %s %s", id, codec, lib.CoqBytes(wire), term))
			st.Hist["model:"+codec]++
		}
	}
	mempoolCases(run, rng, st, &id)
	st.Extra["model_cases"] = modelled
	sh.Flush()
	historyCases(run, rng, st, &id)
	liveRoundTrip(run, rng, st, &id)
	st.Traces = st.Evals
	st.Write(run.Out)
}
