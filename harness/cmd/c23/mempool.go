// C23, mempool part: the unexported txPoolCheckpoint / txFeeOrderedList are
// reached through reflection on a TxPool built by the real constructor.
package main

import (
	"bytes"
	"fmt"
	"io"
	"reflect"

	"github.com/elastos/Elastos.ELA/blockchain"
	"github.com/elastos/Elastos.ELA/common"
	"github.com/elastos/Elastos.ELA/common/config"
	"github.com/elastos/Elastos.ELA/core/checkpoint"
	"github.com/elastos/Elastos.ELA/core/contract/program"
	common2 "github.com/elastos/Elastos.ELA/core/types/common"
	"github.com/elastos/Elastos.ELA/core/types/functions"
	"github.com/elastos/Elastos.ELA/core/types/interfaces"
	"github.com/elastos/Elastos.ELA/core/types/outputpayload"
	"github.com/elastos/Elastos.ELA/core/types/payload"
	"github.com/elastos/Elastos.ELA/mempool"

	"verifharness/lib"
)

type snapshotter interface {
	Snapshot() checkpoint.ICheckPoint
}

func newPool() (*mempool.TxPool, reflect.Value) {
	params := config.GetDefaultParams()
	mgr := checkpoint.NewManager(params)
	pool := mempool.NewTxPool(params, mgr)
	cp := Field(pool, "txPoolCheckpoint") // *txPoolCheckpoint
	return pool, cp
}

func randTx(r *lib.Rng) interfaces.Transaction {
	var ins []*common2.Input
	for i := 0; i < 1+r.Intn(2); i++ {
		in := &common2.Input{Sequence: uint32(r.U64())}
		copy(in.Previous.TxID[:], r.Bytes(32))
		in.Previous.Index = uint16(r.Intn(4))
		ins = append(ins, in)
	}
	var outs []*common2.Output
	for i := 0; i < 1+r.Intn(2); i++ {
		o := &common2.Output{Value: common.Fixed64(1 + r.Intn(1000000)), OutputLock: uint32(r.Intn(5)),
			Type: common2.OTNone, Payload: &outputpayload.DefaultOutput{}}
		copy(o.AssetID[:], r.Bytes(32))
		copy(o.ProgramHash[:], r.Bytes(21))
		outs = append(outs, o)
	}
	return functions.CreateTransaction(common2.TxVersion09, common2.TransferAsset, 0, &payload.TransferAsset{},
		[]*common2.Attribute{{Usage: common2.Nonce, Data: r.Bytes(8)}}, ins, outs, uint32(r.Intn(100)),
		[]*program.Program{{Code: r.Bytes(35), Parameter: r.Bytes(65)}})
}

// mempoolCases exercises (a) the fee-ordered list codec, (b) the checkpoint's
// Serialize, decoded independently here (the real Deserialize re-validates
// every transaction against a live chain, which is outside this harness), (c)
// the real Deserialize on a checkpoint without transactions, and (d) the real
// Snapshot() of a pool that holds transactions.
func mempoolCases(run *lib.Run, rng *lib.Rng, st *lib.Stats, id *int) {
	blockchain.DefaultLedger = &blockchain.Ledger{Blockchain: &blockchain.BlockChain{}}
	n := run.N(60, 1500)
	for i := 0; i < n; i++ {
		mode := []int{0, 1, 3, -1}[i%4]
		g := newGen(rng.Fork(), mode)
		_, cp := newPool()
		feesPtr := Field(cp.Interface(), "txFees") // *txFeeOrderedList
		g.Fill(feesPtr.Elem(), "mempool.txFeeOrderedList", 0)

		// (a) txFeeOrderedList round-trip
		{
			x := feesPtr.Interface().(serializable)
			t := target{name: "mempool.txFeeOrderedList", fresh: func() serializable {
				return reflect.New(feesPtr.Type().Elem()).Interface().(serializable)
			}}
			term := txFeeListC(feesPtr.Elem()) // before the round trip: what was put in
			diffs, sites, wire, outcome := roundTrip(t, x)
			report(run, st, id, t.name, i, mode, diffs, sites, wire, outcome)
			if outcome == "ok" && addModelCase != nil {
				addModelCase("tx_fee_list", wire, term)
			}
		}

		// (b)+(c)+(d) checkpoint
		ntx := g.count(0)
		if mode == -1 {
			ntx = rng.Intn(4)
		}
		txs := map[common.Uint256]interfaces.Transaction{}
		for k := 0; k < ntx; k++ {
			tx := randTx(rng)
			txs[tx.Hash()] = tx
		}
		Field(cp.Interface(), "txnList").Set(reflect.ValueOf(txs))
		height := uint32(1 + rng.Intn(1<<20))
		Field(cp.Interface(), "height").SetUint(uint64(height))
		c := cp.Interface().(serializable)
		var buf bytes.Buffer
		var outcome string
		var diffs []string
		panicked, pv := lib.Recover(func() {
			if err := c.Serialize(&buf); err != nil {
				outcome = "serialize-error: " + err.Error()
				return
			}
			diffs, outcome = decodeTxPoolWire(buf.Bytes(), height, txs, feesPtr)
		})
		if panicked {
			outcome = fmt.Sprintf("panic: %v", pv)
		}
		var sites []string
		for range diffs {
			sites = append(sites, "mempool.txPoolCheckpoint.Serialize")
		}
		report(run, st, id, "mempool.txPoolCheckpoint.wire", i, mode, diffs, sites, buf.Bytes(), outcome)

		if ntx == 0 {
			// (c) real Deserialize into the checkpoint of a fresh pool
			_, cp2 := newPool()
			t := target{name: "mempool.txPoolCheckpoint", fresh: func() serializable { return cp2.Interface().(serializable) }}
			diffs, sites, wire, outcome := roundTrip(t, c)
			report(run, st, id, t.name, i, mode, diffs, sites, wire, outcome)
		} else {
			// (d) what the manager writes to disk is Snapshot(): it must carry the pool's transactions
			var snap checkpoint.ICheckPoint
			panicked, pv := lib.Recover(func() { snap = cp.Interface().(snapshotter).Snapshot() })
			*id++
			st.Count(fmt.Sprintf("snap:%d:%d", i, ntx), true, "mempool.Snapshot")
			got := -1
			if !panicked && snap != nil {
				got = Field(snap, "txnList").Len()
			}
			st.LogCase(run.Out, *id, map[string]interface{}{"target": "mempool.Snapshot", "txs": ntx, "snapshot_txs": got, "panic": fmt.Sprint(pv)})
			if got != ntx {
				failOnce(st, "mempool:Snapshot:txnList", fmt.Sprintf("txPoolCheckpoint.Snapshot() of a pool holding %d transaction(s) returns a checkpoint with %d (Deserialize appends to the live pool, not to the new checkpoint), so the file the manager saves never contains the pool's transactions", ntx, got),
					map[string]interface{}{"seed": run.Seed, "index": i, "txs": ntx, "snapshot_txs": got})
			}
		}
	}
}

// decodeTxPoolWire re-reads the bytes written by txPoolCheckpoint.Serialize
// with the same primitive readers and compares with what was put in.
func decodeTxPoolWire(wire []byte, height uint32, txs map[common.Uint256]interfaces.Transaction, feesPtr reflect.Value) ([]string, string) {
	r := bytes.NewReader(wire)
	var diffs []string
	h, err := common.ReadUint32(r)
	if err != nil {
		return nil, "deserialize-error: height"
	}
	if h != height {
		diffs = append(diffs, fmt.Sprintf("mempool.txPoolCheckpoint.height: %d vs %d", height, h))
	}
	cnt, err := common.ReadVarUint(r, 0)
	if err != nil {
		return nil, "deserialize-error: count"
	}
	if int(cnt) != len(txs) {
		diffs = append(diffs, fmt.Sprintf("mempool.txPoolCheckpoint.txnList: len %d vs %d", len(txs), cnt))
	}
	for i := uint64(0); i < cnt; i++ {
		var hash common.Uint256
		if err := hash.Deserialize(r); err != nil {
			return nil, "deserialize-error: hash"
		}
		tx, err := functions.GetTransactionByBytes(r)
		if err != nil {
			return nil, "deserialize-error: tx type"
		}
		if err := tx.Deserialize(r); err != nil {
			return nil, "deserialize-error: tx " + err.Error()
		}
		orig, ok := txs[hash]
		if !ok {
			diffs = append(diffs, "mempool.txPoolCheckpoint.txnList: unknown key "+hash.String())
			continue
		}
		var a, b bytes.Buffer
		orig.Serialize(&a)
		tx.Serialize(&b)
		if !bytes.Equal(a.Bytes(), b.Bytes()) || tx.Hash() != hash {
			diffs = append(diffs, "mempool.txPoolCheckpoint.txnList: transaction "+hash.String()+" differs")
		}
	}
	fresh := reflect.New(feesPtr.Type().Elem())
	if err := fresh.Interface().(serializable).Deserialize(r); err != nil {
		return nil, "deserialize-error: txFees " + err.Error()
	}
	d := &Differ{Skip: skipField, Max: 10, Equiv: equivs()}
	d.Diff(feesPtr.Elem(), fresh.Elem(), "mempool.txPoolCheckpoint.txFees")
	diffs = append(diffs, d.Out...)
	if rest, _ := io.ReadAll(r); len(rest) != 0 {
		return diffs, fmt.Sprintf("trailing-bytes: %d", len(rest))
	}
	return diffs, "ok"
}
