// Coq printers, second part: checkpoint envelopes of
// coq/model/C23_Checkpoints.v (DPoS CheckPoint with ArbiterMember lists and
// maps, CR ProposalState / ProposalKeyFrame / Checkpoint, txpool fee list,
// wallet CoinsCheckPoint).
package main

import (
	"bytes"
	"math"
	"reflect"
	"sort"

	"github.com/elastos/Elastos.ELA/common"
	common2 "github.com/elastos/Elastos.ELA/core/types/common"
	"github.com/elastos/Elastos.ELA/core/types/payload"
	crstate "github.com/elastos/Elastos.ELA/cr/state"
	"github.com/elastos/Elastos.ELA/dpos/state"
	"github.com/elastos/Elastos.ELA/wallet"
)

func arbiterC(a state.ArbiterMember) string {
	switch reflect.TypeOf(a).Elem().Name() {
	case "originArbiter":
		return "(In1 " + tup(c168(Field(a, "ownerHash").Interface().(common.Uint168)), cB(Field(a, "key").Bytes())) + ")"
	case "dposArbiter":
		p := Field(a, "producer").Addr().Interface().(*state.Producer)
		return "(In2 " + tup(producerC(p), c168(Field(a, "ownerHash").Interface().(common.Uint168))) + ")"
	case "crcArbiter":
		m := Field(a, "crMember").Interface().(*crstate.CRMember)
		return "(In3 " + tup(crMemberC(m), cB(Field(a, "nodePk").Bytes()), c168(Field(a, "ownerHash").Interface().(common.Uint168)),
			cBool(Field(a, "isNormal").Bool())) + ")"
	}
	panic("unknown arbiter type")
}

func arbitersC(as []state.ArbiterMember) string {
	xs := make([]string, len(as))
	for i, a := range as {
		xs[i] = arbiterC(a)
	}
	return lst(xs)
}

func arbiterV(v reflect.Value) string { return arbiterC(v.Interface().(state.ArbiterMember)) }

func dposCheckPointC(c *state.CheckPoint) string {
	return tup(cN(uint64(c.Height)), cN(uint64(uint32(c.DutyIndex))),
		arbitersC(c.LastArbitrators), arbitersC(c.CurrentArbitrators), arbitersC(c.CurrentCandidates),
		arbitersC(c.NextArbitrators), arbitersC(c.NextCandidates),
		rewardDataC(&c.CurrentReward), rewardDataC(&c.NextReward),
		mapOf(c.LastDPoSRewards, func(v reflect.Value) string { return mapOf(v.Interface(), f64V) }),
		mapOf(c.CurrentCRCArbitersMap, arbiterV), mapOf(c.CurrentOnDutyCRCArbitersMap, arbiterV), mapOf(c.NextCRCArbitersMap, arbiterV),
		arbitersC(c.NextCRCArbiters),
		cN(uint64(c.CRCChangedHeight)), cF(c.AccumulativeReward), cF(c.FinalRoundChange), cN(uint64(c.ClearingHeight)),
		mapOf(c.ArbitersRoundReward, f64V), mapOf(c.IllegalBlocksPayloadHashes, unitV), cBool(c.ForceChanged),
		dposStateKeyFrameC(&c.StateKeyFrame))
}

func stringsC(xs []string) string {
	ys := make([]string, len(xs))
	for i, x := range xs {
		ys[i] = cS(x)
	}
	return lst(ys)
}

func sideChainInfoC(s payload.SideChainInfo) string {
	return tup(cS(s.SideChainName), cN(uint64(s.MagicNumber)), c256(s.GenesisHash), cF(s.ExchangeRate), cN(uint64(s.EffectiveHeight)), cS(s.ResourcePath))
}

func proposalInfoC(p payload.CRCProposalInfo) string {
	bs := make([]string, len(p.Budgets))
	for i, b := range p.Budgets {
		bs[i] = tup(cN(uint64(b.Type)), cN(uint64(b.Stage)), cF(b.Amount))
	}
	return tup(cN(uint64(p.ProposalType)), cS(p.CategoryData), cB(p.OwnerPublicKey), c256(p.DraftHash), lst(bs), c168(p.Recipient),
		c256(p.TargetProposalHash), stringsC(p.ReservedCustomIDList), stringsC(p.ReceivedCustomIDList), c168(p.ReceiverDID),
		cF(p.RateOfCustomIDFee), cN(uint64(p.EIDEffectiveHeight)), c168(p.NewRecipient), cB(p.NewOwnerPublicKey),
		cB(p.SecretaryGeneralPublicKey), c168(p.SecretaryGeneralDID), c168(p.CRCouncilMemberDID), sideChainInfoC(p.SideChainInfo), c256(p.Hash))
}

// numMap prints a Go map with an unsigned integer key, numerically sorted.
func numMap(m interface{}, val func(v reflect.Value) string) string {
	mv := reflect.ValueOf(m)
	keys := mv.MapKeys()
	sort.Slice(keys, func(i, j int) bool { return keys[i].Uint() < keys[j].Uint() })
	xs := make([]string, len(keys))
	for i, k := range keys {
		e := mv.MapIndex(k)
		tmp := reflect.New(e.Type()).Elem()
		tmp.Set(e)
		xs[i] = "(" + cN(k.Uint()) + ", " + val(tmp) + ")"
	}
	return lst(xs)
}

func uintV(v reflect.Value) string { return cN(v.Uint()) }

func proposalStateC(p *crstate.ProposalState) string {
	return tup(proposalInfoC(p.Proposal), cN(uint64(p.Status)), cN(uint64(p.TxPayloadVer)), cN(uint64(p.RegisterHeight)),
		cN(uint64(p.VoteStartHeight)), cF(p.VotersRejectAmount), mapOf(p.CRVotes, uintV),
		numMap(p.WithdrawnBudgets, f64V), numMap(p.WithdrawableBudgets, f64V), numMap(p.BudgetsStatus, uintV),
		cBool(p.FinalPaymentStatus), cN(uint64(p.TrackingCount)), cN(uint64(p.TerminatedHeight)), cB(p.ProposalOwner),
		c168(p.Recipient), c256(p.TxHash))
}

func hashesC(hs []common.Uint256) string {
	xs := make([]string, len(hs))
	for i, h := range hs {
		xs[i] = c256(h)
	}
	return lst(xs)
}

func proposalKeyFrameC(p *crstate.ProposalKeyFrame) string {
	magics := make([]string, len(p.RegisteredMagicNumbers))
	for i, m := range p.RegisteredMagicNumbers {
		magics[i] = cN(uint64(m))
	}
	return tup(
		mapOf(map[common.Uint256]*crstate.ProposalState(p.Proposals), func(v reflect.Value) string { return proposalStateC(v.Interface().(*crstate.ProposalState)) }),
		mapOf(p.ProposalHashes, func(v reflect.Value) string {
			return mapOf(map[common.Uint256]struct{}(v.Interface().(crstate.ProposalHashSet)), unitV)
		}),
		numMap(p.ProposalSession, func(v reflect.Value) string { return hashesC(v.Interface().([]common.Uint256)) }),
		mapOf(p.WithdrawableTxInfo, outputInfoV), cS(p.SecretaryGeneralPublicKey), stringsC(p.ReservedCustomIDLists),
		mapOf(p.PendingReceivedCustomIDMap, unitV), stringsC(p.ReceivedCustomIDLists), stringsC(p.RegisteredSideChainNames),
		lst(magics), hashesC(p.RegisteredGenesisHashes),
		numMap(p.RegisteredSideChainPayloadInfo, func(v reflect.Value) string {
			return mapOf(v.Interface(), func(w reflect.Value) string { return sideChainInfoC(w.Interface().(payload.SideChainInfo)) })
		}),
		cBool(p.ReservedCustomID))
}

func crCheckpointC(c *crstate.Checkpoint) string {
	return tup(cN(uint64(c.Height)), crKeyFrameC(&c.KeyFrame), crStateKeyFrameC(&c.StateKeyFrame), proposalKeyFrameC(&c.ProposalKeyFrame))
}

// ---- mempool fee list (reached through reflection)

func txFeeListC(fees reflect.Value) string { // fees: txFeeOrderedList (struct value)
	l := rw(fees.FieldByName("list"))
	xs := make([]string, l.Len())
	for i := 0; i < l.Len(); i++ {
		it := rw(l.Index(i))
		h := rw(it.FieldByName("Hash")).Interface().(common.Uint256)
		xs[i] = tup(c256(h), cN(math.Float64bits(rw(it.FieldByName("FeeRate")).Float())), cN(rw(it.FieldByName("Size")).Uint()))
	}
	return tup(lst(xs), cN(rw(fees.FieldByName("totalSize")).Uint()))
}

// ---- wallet

func outPointC(op common2.OutPoint) string { return tup(c256(op.TxID), cN(uint64(op.Index))) }

func opKey(op common2.OutPoint) []byte {
	return append(append([]byte{}, op.TxID[:]...), byte(op.Index>>8), byte(op.Index)) // big-endian index: numeric order
}

func coinC(c *wallet.Coin) string {
	o := c.Output
	ext := "None"
	if c.TxVersion >= common2.TxVersion09 {
		ext = "(Some (" + cN(uint64(o.Type)) + ", tt))"
	}
	return tup(cN(uint64(c.TxVersion)), tup(tup(c256(o.AssetID), cF(o.Value), cN(uint64(o.OutputLock)), c168(o.ProgramHash), ext), cN(uint64(c.Height))))
}

func walletCheckpointC(c *wallet.CoinsCheckPoint) string {
	coins := Field(c, "coins").Interface().(map[common2.OutPoint]*wallet.Coin)
	var es []ent
	for op, coin := range coins {
		es = append(es, ent{opKey(op), outPointC(op), coinC(coin)})
	}
	owned := Field(c, "ownedCoins")
	var os []ent
	for _, k := range owned.MapKeys() {
		kt := reflect.New(k.Type()).Elem()
		kt.Set(k)
		owner := rw(kt.FieldByName("owner")).String()
		op := rw(kt.FieldByName("op")).Interface().(common2.OutPoint)
		v := owned.MapIndex(k)
		vt := reflect.New(v.Type()).Elem()
		vt.Set(v)
		ptr := func(name string) common2.OutPoint {
			p := rw(vt.FieldByName(name))
			if p.IsNil() {
				return common2.OutPoint{}
			}
			return *(p.Interface().(*common2.OutPoint))
		}
		// order: owner bytes, then outpoint; a separator below every byte keeps "ab" < "abc"
		key := bytes.Join([][]byte{escapeKey([]byte(owner)), opKey(op)}, nil)
		os = append(os, ent{key, tup(cS(owner), outPointC(op)), tup(outPointC(ptr("prev")), outPointC(ptr("next")))})
	}
	return tup(cN(Field(c, "height").Uint()), sortedEnts(es), sortedEnts(os))
}

// escapeKey maps a byte string to one whose bytes.Compare order, when followed
// by further key material, is the lexicographic order on (string, rest):
// every byte b becomes (1, b) and the end is marked by 0.
func escapeKey(b []byte) []byte {
	out := make([]byte, 0, 2*len(b)+1)
	for _, x := range b {
		out = append(out, 1, x)
	}
	return append(out, 0)
}

// coqCase2: targets of the second model file.
func coqCase2(x interface{}) (codec, term string, ok bool) {
	switch v := x.(type) {
	case *state.CheckPoint:
		return "dpos_checkpoint", dposCheckPointC(v), true
	case *crstate.ProposalState:
		return "proposal_state", proposalStateC(v), true
	case *crstate.ProposalKeyFrame:
		return "proposal_key_frame", proposalKeyFrameC(v), true
	case *crstate.Checkpoint:
		return "cr_checkpoint", crCheckpointC(v), true
	case *wallet.CoinsCheckPoint:
		return "(wallet_checkpoint default_payloads)", walletCheckpointC(v), true
	}
	return "", "", false
}
