// Transaction types that end validation in SpecialContextCheck before the fee
// check (C01_sidepow_new_creates_nothing, C01_appropriation_moves_not_creates)
// and the CheckTransactionOutput overrides that need chain state: driven with
// the chain fixture as BlockChain parameter.
package main

import (
	"fmt"
	"math/big"
	"sort"
	"strings"

	elacommon "github.com/elastos/Elastos.ELA/common"
	"github.com/elastos/Elastos.ELA/common/config"
	"github.com/elastos/Elastos.ELA/core"
	"github.com/elastos/Elastos.ELA/core/transaction"
	common2 "github.com/elastos/Elastos.ELA/core/types/common"
	"github.com/elastos/Elastos.ELA/core/types/outputpayload"
	"github.com/elastos/Elastos.ELA/core/types/payload"

	"verifharness/ctxcheck"
	"verifharness/fixture"
	"verifharness/lib"
)

// the set of types whose SpecialContextCheck may end validation on success, as the
// model and the theorems assume it (value: "true" = always, otherwise the expression)
var earlyEndExpected = map[string]string{
	"ActivateProducerTransaction":        "expr", // up to NFTStartHeight: no inputs, no outputs (C01_no_output_kinds); driven end to end
	"CoinBaseTransaction":                "true", // outside the property
	"CRCAppropriationTransaction":        "true", // C01_appropriation_moves_not_creates
	"SideChainPOWTransaction":            "true", // only the new form (no inputs): C01_sidepow_new_creates_nothing
	"CRCProposalResultTransaction":       "true", // the rest: "no output" types, C01_no_output_kinds
	"IllegalBlockTransaction":            "true",
	"IllegalProposalTransaction":         "true",
	"IllegalSideChainTransaction":        "true",
	"IllegalVoteTransaction":             "true",
	"InactiveArbitratorsTransaction":     "true",
	"NextTurnDPOSInfoTransaction":        "true",
	"NFTDestroyTransactionFromSideChain": "true",
	"RecordSponsorTransaction":           "true",
	"RevertToDPOSTransaction":            "true",
	"RevertToPOWTransaction":             "true",
	"UpdateVersionTransaction":           "true",
}

func early(run *lib.Run, st *lib.Stats, sh *lib.Shards, next func() int, rng *lib.Rng, f *fixture.Fixture) {
	// ---- which types end early (read from the source under test)
	if got, err := ctxcheck.EarlyEnd(run.Repo); err != nil {
		st.Fail("c01:early-end-set", "cannot analyse SpecialContextCheck: "+err.Error(), nil)
	} else {
		var diff []string
		for r, xs := range got {
			want, ok := earlyEndExpected[r]
			for _, x := range xs {
				if !ok || (want == "true") != (x == "true") && want == "true" {
					diff = append(diff, fmt.Sprintf("%s may end validation with `%s`", r, x))
				}
			}
		}
		for r := range earlyEndExpected {
			if _, ok := got[r]; !ok {
				diff = append(diff, r+" no longer ends validation early")
			}
		}
		sort.Strings(diff)
		if len(diff) > 0 {
			st.Fail("c01:early-end-set", "the set of transaction types whose SpecialContextCheck ends validation before the fee check differs from the one the theorems cover: "+strings.Join(diff, "; "), nil)
		}
		st.Extra["early_end_types"] = len(got)
	}

	mainParams := config.GetDefaultParams()
	std := func(v int64) outSpec {
		o := outSpec{val: v, asset: true, pfx: 0x21, otype: common2.OTNone}
		copy(o.hash[:], rng.Bytes(21))
		o.hash[0] = 0x21
		return o
	}

	// ---- SideChainPow without inputs
	for i := 0; i < run.N(120, 1500); i++ {
		var outs []outSpec
		n := 1
		if rng.Chance(30) {
			n = rng.Intn(4)
		}
		for j := 0; j < n; j++ {
			o := std(rng.PickI64(0, 0, 0, 1, -1, p62, 100, min))
			if rng.Chance(15) {
				o.otype = common2.OTVote
			}
			if rng.Chance(10) {
				o.asset = false
			}
			outs = append(outs, o)
		}
		var os []*common2.Output
		var terms []string
		var vals []int64
		for _, o := range outs {
			os = append(os, o.toOutput())
			terms = append(terms, o.coq())
			vals = append(vals, o.val)
		}
		tx := transaction.CreateTransaction(common2.TxVersion09, common2.SideChainPow, 0, &payload.SideChainPow{}, nil, nil, os, 0, nil)
		tx.SetParameters(&transaction.TransactionParameters{Transaction: tx, BlockHeight: 2000000, Config: mainParams, BlockChain: f.Chain})
		var eIn, eOut error
		pan, pv := lib.Recover(func() { eIn = tx.CheckTransactionInput(); eOut = tx.CheckTransactionOutput() })
		k := next()
		in := map[string]interface{}{"op": "SideChainPow without inputs", "outs": vals, "checkInput": verdict(pan, eIn), "checkOutput": verdict(pan, eOut)}
		sh.Add(fmt.Sprintf("CSideNew %d %s %d %d", k, lib.CoqList(terms), verdict(pan, eIn), verdict(pan, eOut)))
		st.LogCase(run.Out, k, in)
		ok := !pan && eIn == nil && eOut == nil
		st.Count(fmt.Sprintf("sidenew|%v", terms), ok, "sidechainpow-new")
		if pan {
			st.Fail("c01:panic", fmt.Sprintf("SideChainPow check panicked: %v", pv), in)
		}
		// the new form ends validation after the arbiter signature check: it must carry no value
		if ok && bigSum(vals).Sign() > 0 {
			st.Fail("c01:accept-inflation", "a SideChainPow transaction without inputs (validation ends in SpecialContextCheck, no fee check) passed CheckTransactionInput and CheckTransactionOutput with a positive output total", in)
		}
	}

	// ---- CRCAppropriation: CheckTransactionOutput + the real SpecialContextCheck on given references
	assets, expenses := *f.Params.CRConfiguration.CRAssetsProgramHash, *f.Params.CRConfiguration.CRExpensesProgramHash
	origNeed, origAmount := f.Committee.NeedAppropriation, f.Committee.AppropriationAmount
	for i := 0; i < run.N(400, 5000); i++ {
		nOut := 2
		if rng.Chance(12) {
			nOut = 1 + rng.Intn(3)
		}
		var outs []outSpec
		var vals []int64
		for j := 0; j < nOut; j++ {
			v := int64(rng.Intn(1000000))
			if rng.Chance(35) {
				v = pickAmount(rng)
				if v < 0 && rng.Chance(85) {
					v = -(v + 1)
				}
			}
			o := outSpec{val: v, asset: true, otype: common2.OTNone}
			switch {
			case j == 0 && !rng.Chance(6):
				o.hash, o.spec = expenses, true
			case j == 1 && !rng.Chance(6):
				o.hash, o.spec = assets, true
			default:
				o = std(v)
			}
			o.pfx = o.hash[0]
			if rng.Chance(3) {
				o.asset = false
			}
			outs = append(outs, o)
			vals = append(vals, v)
		}
		h0 := outs[0].hash == expenses
		h1 := len(outs) > 1 && outs[1].hash == assets
		// references
		var rvals []int64
		var rtags []bool
		so := bigSum(vals)
		switch g := rng.Intn(10); {
		case g < 5 && so.IsInt64() && so.Sign() >= 0: // balanced (sometimes off by one)
			t := so.Int64()
			if rng.Chance(15) && t > 0 {
				t += rng.PickI64(1, -1)
			}
			rvals = splitInto(rng, t, 1+rng.Intn(4))
		case g < 8: // inputs congruent to the wrapping output total mod 2^64
			var acc uint64
			for j := rng.Intn(4); j > 0; j-- {
				v := int64(rng.U64() >> 1)
				rvals = append(rvals, v)
				acc += uint64(v)
			}
			var target uint64
			for _, v := range vals {
				target += uint64(v)
			}
			last := int64(target - acc)
			if last < 0 && rng.Chance(80) {
				rvals = append(rvals, max)
				acc += uint64(max)
				last = int64(target - acc)
				if last < 0 {
					rvals = append(rvals, 1)
					acc++
					last = int64(target - acc)
				}
			}
			rvals = append(rvals, last)
		default:
			for j := 1 + rng.Intn(4); j > 0; j-- {
				rvals = append(rvals, pickAmount(rng))
			}
		}
		for range rvals {
			rtags = append(rtags, !rng.Chance(4))
		}
		needed := !rng.Chance(8)
		amount := vals[0]
		if rng.Chance(8) {
			amount += rng.PickI64(1, -1, 100)
		}
		height := uint32(rng.PickU64(2000000, 0, 88812, 88811))
		cah := uint32(88812)
		config.DefaultParams.CheckAddressHeight = cah

		var os []*common2.Output
		var terms []string
		for _, o := range outs {
			os = append(os, o.toOutput())
			terms = append(terms, o.coq())
		}
		refs := map[*common2.Input]common2.Output{}
		var rterms []string
		for j, v := range rvals {
			in := &common2.Input{}
			in.Previous.Index = uint16(j)
			ph := assets
			if !rtags[j] {
				ph = expenses
			}
			refs[in] = common2.Output{AssetID: core.ELAAssetID, Value: elacommon.Fixed64(v), ProgramHash: ph}
			rterms = append(rterms, fmt.Sprintf("(%s, %s)", lib.CoqZi(v), lib.CoqBool(rtags[j])))
		}
		tx := transaction.CreateTransaction(common2.TxVersion09, common2.CRCAppropriation, 0, &payload.CRCAppropriation{}, nil, nil, os, 0, nil)
		tx.SetParameters(&transaction.TransactionParameters{Transaction: tx, BlockHeight: height, Config: f.Params, BlockChain: f.Chain})
		tx.SetReferences(refs)
		f.Committee.NeedAppropriation, f.Committee.AppropriationAmount = needed, elacommon.Fixed64(amount)
		var eOut error
		specialRes := 1
		pan, pv := lib.Recover(func() {
			eOut = tx.CheckTransactionOutput()
			if e, _ := tx.SpecialContextCheck(); e == nil {
				specialRes = 0
			}
		})
		k := next()
		in := map[string]interface{}{"op": "CRCAppropriation CheckTransactionOutput+SpecialContextCheck", "height": height, "outs": vals, "out0ToExpenses": h0, "out1ToAssets": h1,
			"refs": rvals, "refsFromAssets": rtags, "needAppropriation": needed, "appropriationAmount": amount, "checkOutput": verdict(pan, eOut), "special": specialRes}
		sh.Add(fmt.Sprintf("CApprop %d (P %d %d %d true 100) %s %s %s %d %s %s %s %d", k, height, cah, 1405000, lib.CoqBool(h0), lib.CoqBool(h1),
			lib.CoqList(terms), verdict(pan, eOut), lib.CoqBool(needed), lib.CoqZi(amount), lib.CoqList(rterms), specialRes))
		st.LogCase(run.Out, k, in)
		if pan {
			st.Fail("c01:panic", fmt.Sprintf("CRCAppropriation check panicked: %v", pv), in)
			continue
		}
		ok := eOut == nil && specialRes == 0
		st.Count(fmt.Sprintf("approp|%v|%v|%v|%v|%v", terms, rterms, needed, amount, height), ok, "appropriation")
		nonneg := true
		for _, v := range rvals {
			nonneg = nonneg && v >= 0
		}
		if ok && nonneg { // referenced outputs were accepted outputs: never negative
			sr := bigSum(rvals)
			if so.Cmp(sr) > 0 || sr.IsInt64() && so.Cmp(sr) != 0 {
				st.Fail("c01:accept-inflation", "a CRCAppropriation passed CheckTransactionOutput and SpecialContextCheck (no fee check follows) although its outputs do not equal the CR-assets outputs it spends", in)
			}
			for j, tg := range rtags {
				if !tg {
					st.Fail("c01:appropriation-foreign-input", "accepted CRCAppropriation spends an output not owned by the CR assets address", map[string]interface{}{"case": in, "ref": j})
				}
			}
		}
		if ok && len(st.Samples) < 8 {
			st.Sample(in)
		}
	}
	f.Committee.NeedAppropriation, f.Committee.AppropriationAmount = origNeed, origAmount
	config.DefaultParams.CheckAddressHeight = f.Params.CheckAddressHeight
	_ = big.NewInt
	_ = outputpayload.DefaultOutput{}
}
