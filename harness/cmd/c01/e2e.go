// End-to-end part of the C01 harness: the real BlockChain.CheckTransactionSanity
// followed by BlockChain.CheckTransactionContext on the regnet chain fixture,
// i.e. the per-type override chain (CheckTransactionInput / Output / Attribute
// program, SpecialContextCheck with its real `end` result, CheckTransactionFee,
// signature check) exactly as mempool and block validation compose it, at the
// heights where those overrides switch behaviour.  Oracle only (exact sums).
package main

import (
	"bytes"
	"fmt"
	"math/big"
	"os"

	elacommon "github.com/elastos/Elastos.ELA/common"
	"github.com/elastos/Elastos.ELA/core"
	"github.com/elastos/Elastos.ELA/core/contract/program"
	"github.com/elastos/Elastos.ELA/core/types"
	common2 "github.com/elastos/Elastos.ELA/core/types/common"
	"github.com/elastos/Elastos.ELA/core/types/functions"
	"github.com/elastos/Elastos.ELA/core/types/interfaces"
	"github.com/elastos/Elastos.ELA/core/types/outputpayload"
	"github.com/elastos/Elastos.ELA/core/types/payload"
	"github.com/elastos/Elastos.ELA/crypto"
	"github.com/elastos/Elastos.ELA/dpos/state"

	"verifharness/fixture"
	"verifharness/lib"
)

// boundary heights of the configuration: every uint32 height field of the
// parameters that some CheckTransactionInput/Output/AttributeProgram/Fee or
// SpecialContextCheck override compares the block height with.
func boundaryHeights(hs ...uint32) []uint32 {
	seen := map[uint32]bool{}
	var res []uint32
	for _, h := range hs {
		for _, x := range []uint32{h - 1, h, h + 1} {
			if h == 0 && x == h-1 || h == ^uint32(0) {
				continue
			}
			if !seen[x] {
				seen[x] = true
				res = append(res, x)
			}
		}
	}
	return res
}

func e2e(run *lib.Run, st *lib.Stats, rng *lib.Rng, f *fixture.Fixture) {
	params := f.Params
	nft := params.DPoSConfiguration.NFTStartHeight

	// two empty blocks so that the genesis coinbase is mature
	parent := f.Genesis
	for i := 0; i < 2; i++ {
		b, err := f.BuildBlock(parent, nil, fixture.BlockOpt{Miner: 3})
		if err == nil {
			_, _, err = f.ProcessBlock(b)
		}
		if err != nil {
			st.Fail("c01:e2e-fixture", "cannot extend the fixture chain: "+err.Error(), nil)
			return
		}
		parent = b
	}

	// ---- an inactive producer with enough deposit, node key = Keys[1]
	node := f.Keys[1].Acc
	nodePK, err := node.PublicKey.EncodePoint(true)
	if err != nil {
		st.Fail("c01:e2e-fixture", "encode key: "+err.Error(), nil)
		return
	}
	registerTx := functions.CreateTransaction(0, common2.RegisterProducer, 0,
		&payload.ProducerInfo{OwnerKey: nodePK, NodePublicKey: nodePK, NickName: "n1", Location: 1},
		[]*common2.Attribute{}, []*common2.Input{}, []*common2.Output{}, 0,
		[]*program.Program{{Code: node.RedeemScript}})
	f.Chain.GetState().ProcessBlock(&types.Block{
		Transactions: []interfaces.Transaction{registerTx},
		Header:       common2.Header{Height: 1},
	}, nil, 0)
	producer := f.Chain.GetState().GetProducer(nodePK)
	if producer == nil {
		st.Fail("c01:e2e-fixture", "producer registration did not take effect", nil)
		return
	}
	producer.SetState(state.Inactive)
	producer.SetTotalAmount(600000000000)

	activatePayload := func() *payload.ActivateProducer {
		p := &payload.ActivateProducer{NodePublicKey: nodePK}
		buf := new(bytes.Buffer)
		p.SerializeUnsigned(buf, 0)
		sig, err := crypto.Sign(node.PrivateKey, buf.Bytes())
		if err != nil {
			panic(err)
		}
		p.Signature = sig
		return p
	}

	genesisValue := int64(0)
	if refTx, _, err := f.Tx(f.GenesisOut.TxID); err == nil && refTx != nil {
		genesisValue = int64(refTx.Outputs()[f.GenesisOut.Index].Value)
	}
	if genesisValue <= 0 {
		st.Fail("c01:e2e-fixture", "genesis funding output not found", nil)
		return
	}
	mkOuts := func(vals []int64) []*common2.Output {
		var os []*common2.Output
		for i, v := range vals {
			os = append(os, &common2.Output{AssetID: core.ELAAssetID, Value: elacommon.Fixed64(v),
				ProgramHash: f.Keys[(2+i)%fixture.NKeys].Hash, Type: common2.OTNone, Payload: &outputpayload.DefaultOutput{}})
		}
		return os
	}

	accepted, total := 0, 0
	check := func(label string, tx interfaces.Transaction, height uint32, inVals, outVals []int64) {
		var e1, e2 interface{}
		ok := false
		panicked, pv := lib.Recover(func() {
			if e := f.Chain.CheckTransactionSanity(height, tx); e != nil {
				e1 = e.Error()
				return
			}
			if _, e := f.Chain.CheckTransactionContext(height, tx, 0, 0); e != nil {
				e2 = e.Error()
				return
			}
			ok = true
		})
		total++
		in := map[string]interface{}{"op": "e2e CheckTransactionSanity+CheckTransactionContext", "case": label, "type": tx.TxType().Name(),
			"height": height, "NFTStartHeight": nft, "inputs": inVals, "outs": outVals, "accepted": ok, "sanityErr": e1, "contextErr": e2}
		if panicked {
			// a crash of validation is C03's subject; here it only means "not accepted"
			in["panic"] = fmt.Sprint(pv)
		}
		so, si := bigSum(outVals), bigSum(inVals)
		st.Count(fmt.Sprintf("e2e|%s|%d|%v|%v", tx.TxType().Name(), height, inVals, outVals), ok, "e2e")
		if ok {
			accepted++
			st.Hist["e2e:accepted"]++
			// distinct spent outputs only: an outpoint referenced twice is still one output
			if so.Cmp(si) > 0 {
				st.Fail("c01:accept-inflation", "transaction passed CheckTransactionSanity and CheckTransactionContext on the chain fixture although its outputs exceed the (distinct) outputs it spends (exact integers)", in)
			}
			for _, v := range outVals {
				if v < 0 {
					st.Fail("c01:negative-output", "transaction with a negative output passed CheckTransactionSanity and CheckTransactionContext", in)
					break
				}
			}
		}
		if os.Getenv("C01_E2E_DEBUG") != "" {
			fmt.Println(label, height, inVals, outVals, ok, e1, e2)
		}
		if len(st.Samples) < 6 && ok {
			st.Sample(in)
		}
	}

	// ---- ActivateProducer: zero-cost form and funded form around every height the overrides look at
	heights := boundaryHeights(nft, params.CRConfiguration.CRVotingStartHeight, params.EnableActivateIllegalHeight,
		params.CRConfiguration.ChangeCommitteeNewCRHeight, params.PublicDPOSHeight, params.CheckAddressHeight, params.DPoSV2StartHeight)
	heights = append(heights, nft+100000)
	outSets := [][]int64{{}, {1}, {100000000000000}, {0}, {p62, p62, p62, p62}, {5, -5}, {genesisValue}, {genesisValue - 100}, {genesisValue + 1}, {genesisValue, 1}, {genesisValue, genesisValue}}
	for _, h := range heights {
		for oi, ov := range outSets {
			// no inputs, no programs
			tx := functions.CreateTransaction(common2.TxVersion09, common2.ActivateProducer, 0, activatePayload(), []*common2.Attribute{},
				[]*common2.Input{}, mkOuts(ov), 0, []*program.Program{})
			check("activate/zero-cost", tx, h, nil, ov)
			// no inputs, but a program
			tx = functions.CreateTransaction(common2.TxVersion09, common2.ActivateProducer, 0, activatePayload(), []*common2.Attribute{},
				[]*common2.Input{}, mkOuts(ov), 0, []*program.Program{{Code: f.Keys[0].Acc.RedeemScript, Parameter: []byte{0}}})
			check("activate/no-input-with-program", tx, h, nil, ov)
			// spending the genesis output (owner Keys[0]), signed
			tx, err := f.RawTx(common2.ActivateProducer, 0, activatePayload(), []fixture.In{{Op: f.GenesisOut, Key: 0}}, mkOuts(ov), uint64(oi))
			if err == nil {
				check("activate/funded-signed", tx, h, []int64{genesisValue}, ov)
				tx.SetPrograms([]*program.Program{})
				check("activate/funded-unsigned", tx, h, []int64{genesisValue}, ov)
			}
			// the same outpoint referenced twice: it is still one spent output
			tx, err = f.RawTx(common2.ActivateProducer, 0, activatePayload(),
				[]fixture.In{{Op: f.GenesisOut, Key: 0}, {Op: f.GenesisOut, Key: 0}}, mkOuts(ov), uint64(1000+oi))
			if err == nil {
				check("activate/duplicate-input", tx, h, []int64{genesisValue}, ov)
			}
		}
	}

	// ---- ordinary transfers of the genesis output through the same entry points (the witness included)
	for i, ov := range [][]int64{{genesisValue - 100}, {genesisValue - 99}, {genesisValue}, {genesisValue + 1}, {p62, p62, p62, p62},
		{max, max, 2 + genesisValue - 100}, {genesisValue/2 - 100, genesisValue / 2}, {genesisValue - 100, 0}, {}} {
		var outs []fixture.Out
		for j, v := range ov {
			outs = append(outs, fixture.Out{Key: 1 + j%3, Value: elacommon.Fixed64(v)})
		}
		tx, err := f.Transfer([]fixture.In{{Op: f.GenesisOut, Key: 0}}, outs, uint64(100+i))
		if err != nil {
			continue
		}
		for _, h := range []uint32{1, 2, nft, nft + 1} {
			check("transfer/genesis", tx, h, []int64{genesisValue}, ov)
		}
		if tx2, err := f.Transfer([]fixture.In{{Op: f.GenesisOut, Key: 0}, {Op: f.GenesisOut, Key: 0}}, append(outs, outs...), uint64(200+i)); err == nil {
			check("transfer/duplicate-input", tx2, 2, []int64{genesisValue}, append(append([]int64{}, ov...), ov...))
		}
	}
	var fundTx interfaces.Transaction
	// ---- CRCAppropriation end to end: fund the CR assets address in a real block, then the
	// appropriation through CheckTransactionSanity + CheckTransactionContext (validation ends in
	// SpecialContextCheck: no fee check, no signature)
	func() {
		assets, expenses := *params.CRConfiguration.CRAssetsProgramHash, *params.CRConfiguration.CRExpensesProgramHash
		const V = int64(100000000000) // 1000 ELA
		fund, err := f.Transfer([]fixture.In{{Op: f.GenesisOut, Key: 0}},
			[]fixture.Out{{To: &assets, Value: elacommon.Fixed64(V)}, {To: &assets, Value: elacommon.Fixed64(V)}, {Key: 0, Value: elacommon.Fixed64(V)},
				{Key: 0, Value: elacommon.Fixed64(genesisValue - 3*V - 100)}}, 777)
		if err != nil {
			st.Fail("c01:e2e-fixture", "funding transfer: "+err.Error(), nil)
			return
		}
		b, err := f.BuildBlock(parent, []interfaces.Transaction{fund}, fixture.BlockOpt{Miner: 3})
		if err == nil {
			_, _, err = f.ProcessBlock(b)
		}
		if err != nil {
			st.Fail("c01:e2e-fixture", "cannot connect the funding block: "+err.Error(), nil)
			return
		}
		parent = b
		fundTx = fund
		origNeed, origAmount := f.Committee.NeedAppropriation, f.Committee.AppropriationAmount
		defer func() { f.Committee.NeedAppropriation, f.Committee.AppropriationAmount = origNeed, origAmount }()
		f.Committee.NeedAppropriation = true
		hs := boundaryHeights(params.CRConfiguration.CRCommitteeStartHeight, params.PublicDPOSHeight)
		hs = append(hs, nft+1)
		type ap struct {
			nIn  int
			outs []int64
		}
		for _, c := range []ap{{1, []int64{30, V - 30}}, {2, []int64{30, 2*V - 30}}, {1, []int64{30, V - 29}}, {1, []int64{30, V - 31}}, {1, []int64{V, 0}},
			{1, []int64{V + 1, -1}}, {1, []int64{p62, p62}}, {2, []int64{max, max}}, {1, []int64{30}}, {1, []int64{30, V - 30, 0}}, {0, []int64{0, 0}}, {0, []int64{5, 0}}} {
			var ins []*common2.Input
			var inVals []int64
			for j := 0; j < c.nIn; j++ {
				ins = append(ins, &common2.Input{Previous: common2.OutPoint{TxID: fund.Hash(), Index: uint16(j)}})
				inVals = append(inVals, V)
			}
			var os []*common2.Output
			for j, v := range c.outs {
				ph := assets
				if j == 0 {
					ph = expenses
				}
				os = append(os, &common2.Output{AssetID: core.ELAAssetID, Value: elacommon.Fixed64(v), ProgramHash: ph, Type: common2.OTNone, Payload: &outputpayload.DefaultOutput{}})
			}
			f.Committee.AppropriationAmount = elacommon.Fixed64(c.outs[0])
			for _, h := range hs {
				tx := functions.CreateTransaction(common2.TxVersion09, common2.CRCAppropriation, 0, &payload.CRCAppropriation{},
					[]*common2.Attribute{}, ins, os, 0, []*program.Program{})
				check("appropriation", tx, h, inVals, c.outs)
			}
		}
	}()
	// ---- repeated outpoints: the outputs a transaction spends are its DISTINCT outpoints
	if fundTx != nil {
		const V = int64(100000000000)
		big_ := genesisValue - 3*V - 100
		A := common2.OutPoint{TxID: fundTx.Hash(), Index: 3} // worth big_, key 0
		B := common2.OutPoint{TxID: fundTx.Hash(), Index: 2} // worth V, key 0
		val := map[common2.OutPoint]int64{A: big_, B: V}
		in := func(op common2.OutPoint, seq uint32) fixture.In { return fixture.In{Op: op, Key: 0, Seq: seq} }
		shapes := [][]fixture.In{
			{in(A, 0), in(B, 0)}, // control: two distinct outpoints
			{in(A, 0), in(A, 0)},
			{in(A, 0), in(A, 1)},
			{in(A, 1), in(A, 0)},
			{in(A, 0), in(A, 1), in(A, 2)},
			{in(A, 7), in(A, 7), in(A, 8)},
			{in(B, 0), in(A, 0), in(A, 1)},
			{in(A, 0), in(B, 0), in(A, 1)},
			{in(A, 0), in(A, 1), in(B, 0)},
			{in(A, 0), in(B, 5), in(A, 4294967295), in(B, 6)},
			{in(B, 0), in(B, 4294967294)},
		}
		_, tipH := f.Tip()
		for si, ins := range shapes {
			var withMult int64
			distinct := map[common2.OutPoint]bool{}
			var inVals []int64
			for _, i := range ins {
				withMult += val[i.Op]
				if !distinct[i.Op] {
					distinct[i.Op] = true
					inVals = append(inVals, val[i.Op])
				}
			}
			var dsum int64
			for _, v := range inVals {
				dsum += v
			}
			for vi, total := range []int64{withMult - 100, dsum - 100} { // the attack amount, and an honest amount
				tx, err := f.Transfer(ins, []fixture.Out{{Key: 1, Value: elacommon.Fixed64(total / 2)}, {Key: 2, Value: elacommon.Fixed64(total - total/2)}}, uint64(3000+10*si+vi))
				if err != nil {
					continue
				}
				outVals := []int64{total / 2, total - total/2}
				for _, h := range []uint32{tipH + 1, nft + 1} {
					check(fmt.Sprintf("transfer/repeated-outpoint %v", seqs(ins, A)), tx, h, inVals, outVals)
				}
				if total > dsum && vi == 0 { // the same transaction through the pool and in a block
					var poolErr, blockErr interface{}
					connected := false
					lib.Recover(func() {
						if e := f.SubmitTx(tx); e != nil {
							poolErr = e.Error()
						}
						b, err := f.BuildBlock(parent, []interfaces.Transaction{tx}, fixture.BlockOpt{Miner: 3, Salt: uint64(si)})
						if err != nil {
							blockErr = "build: " + err.Error()
							return
						}
						inMain, _, err := f.ProcessBlock(b)
						if err != nil {
							blockErr = err.Error()
						}
						connected = inMain && err == nil
						if connected {
							parent = b
						}
					})
					rep := map[string]interface{}{"op": "TxPool.AppendToTxPool + BlockChain.ProcessBlock", "type": "TransferAsset", "inputs": seqs(ins, A),
						"distinctSpent": inVals, "outs": outVals, "mempoolErr": poolErr, "blockErr": blockErr, "blockConnected": connected}
					st.Count(fmt.Sprintf("blockpath|rep|%d", si), true, "block-path")
					if poolErr == nil {
						st.Fail("c01:mempool-accepts-value-creation", "the transaction pool accepted a transaction whose outputs exceed the distinct outputs it spends (one outpoint named several times)", rep)
					}
					if connected {
						st.Fail("c01:block-creates-value", "a block containing a transaction whose outputs exceed the distinct outputs it spends (one outpoint named several times) was connected to the chain", rep)
					}
				}
			}
		}
	}
	st.Extra["e2e_cases"] = total
	st.Extra["e2e_accepted"] = accepted
	if accepted == 0 {
		st.Fail("c01:e2e-vacuous", "no end-to-end case was accepted by the chain fixture (the zero-cost ActivateProducer and the balanced transfer should be)", nil)
	}
	_ = big.NewInt
	_ = rng
}

// seqs renders an input list as "A#seq"/"B#seq" for reports.
func seqs(ins []fixture.In, a common2.OutPoint) []string {
	var r []string
	for _, i := range ins {
		n := "B"
		if i.Op == a {
			n = "A"
		}
		r = append(r, fmt.Sprintf("%s#%d", n, i.Seq))
	}
	return r
}
