// Mempool + block path of the C01 harness: on a second fixture whose
// NFTStartHeight is below the chain tip, value-creating ActivateProducer shapes
// are submitted to the real TxPool and mined into a real block that is handed
// to BlockChain.ProcessBlock.  Oracle: a connected block must not contain a
// transaction with a negative output or with outputs exceeding the distinct
// outputs it spends; the address balances must not grow by more than the
// block reward.
package main

import (
	"bytes"
	"fmt"

	elacommon "github.com/elastos/Elastos.ELA/common"
	"github.com/elastos/Elastos.ELA/common/config"
	"github.com/elastos/Elastos.ELA/core"
	"github.com/elastos/Elastos.ELA/core/contract/program"
	"github.com/elastos/Elastos.ELA/core/types"
	common2 "github.com/elastos/Elastos.ELA/core/types/common"
	"github.com/elastos/Elastos.ELA/core/types/functions"
	"github.com/elastos/Elastos.ELA/core/types/interfaces"
	"github.com/elastos/Elastos.ELA/core/types/outputpayload"
	"github.com/elastos/Elastos.ELA/core/types/payload"
	"github.com/elastos/Elastos.ELA/crypto"
	"github.com/elastos/Elastos.ELA/dpos/state"

	"verifharness/fixture"
	"verifharness/lib"
)

func blockPath(run *lib.Run, st *lib.Stats) {
	type shape struct {
		name   string
		dupIn  bool
		outs   []int64
		expect bool // a well-formed activation: should be minable (non-vacuity)
	}
	shapes := []shape{
		{"zero-cost, no outputs", false, nil, true},
		{"no inputs, outputs [+5000 ELA, -5000 ELA]", false, []int64{500000000000, -500000000000}, false},
		{"no inputs, outputs [5, -5]", false, []int64{5, -5}, false},
		{"no inputs, outputs [2^62 x4]", false, []int64{p62, p62, p62, p62}, false},
		{"no inputs, one output of 1 sela", false, []int64{1}, false},
		{"one outpoint referenced twice, outputs worth twice its value", true, nil, false},
	}
	minedOK := 0
	for si, sp := range shapes {
		// a fresh chain per shape: an activation changes the producer's state
		f, err := fixture.New(fixture.Options{Tune: func(p *config.Configuration) {
			p.DPoSConfiguration.NFTStartHeight = 2
			p.CRConfiguration.CRVotingStartHeight = 0
		}})
		if err != nil {
			st.Fail("c01:e2e-fixture", "cannot start the tuned chain fixture: "+err.Error(), nil)
			return
		}
		func() {
			defer f.Close()
			parent := f.Genesis
			var fundOp common2.OutPoint
			const V = int64(100000000000)
			for i := 0; i < 4; i++ {
				var txs []interfaces.Transaction
				if i == 2 { // a mature ordinary output owned by key 0 to spend twice
					fund, err := f.Transfer([]fixture.In{{Op: f.GenesisOut, Key: 0}},
						[]fixture.Out{{Key: 0, Value: elacommon.Fixed64(V)}, {Key: 0, Value: elacommon.Fixed64(3300000000000000 - V - 100)}}, 5)
					if err == nil {
						txs = append(txs, fund)
						fundOp = common2.OutPoint{TxID: fund.Hash(), Index: 0}
					}
				}
				b, err := f.BuildBlock(parent, txs, fixture.BlockOpt{Miner: 3})
				if err == nil {
					_, _, err = f.ProcessBlock(b)
				}
				if err != nil {
					st.Fail("c01:e2e-fixture", "cannot extend the tuned fixture chain: "+err.Error(), nil)
					return
				}
				parent = b
			}
			node := f.Keys[1].Acc
			nodePK, _ := node.PublicKey.EncodePoint(true)
			registerTx := functions.CreateTransaction(0, common2.RegisterProducer, 0,
				&payload.ProducerInfo{OwnerKey: nodePK, NodePublicKey: nodePK, NickName: "n1", Location: 1},
				[]*common2.Attribute{}, []*common2.Input{}, []*common2.Output{}, 0, []*program.Program{{Code: node.RedeemScript}})
			f.Chain.GetState().ProcessBlock(&types.Block{Transactions: []interfaces.Transaction{registerTx}, Header: common2.Header{Height: 1}}, nil, 0)
			producer := f.Chain.GetState().GetProducer(nodePK)
			if producer == nil {
				st.Fail("c01:e2e-fixture", "producer registration did not take effect", nil)
				return
			}
			producer.SetState(state.Inactive)
			producer.SetTotalAmount(600000000000)
			pl := &payload.ActivateProducer{NodePublicKey: nodePK}
			buf := new(bytes.Buffer)
			pl.SerializeUnsigned(buf, 0)
			pl.Signature, _ = crypto.Sign(node.PrivateKey, buf.Bytes())

			outVals := sp.outs
			var inVals []int64
			var ins []fixture.In
			if sp.dupIn {
				ins = []fixture.In{{Op: fundOp, Key: 0}, {Op: fundOp, Key: 0}}
				inVals = []int64{V} // one distinct spent output
				outVals = []int64{V, V}
			}
			var os []*common2.Output
			for i, v := range outVals {
				os = append(os, &common2.Output{AssetID: core.ELAAssetID, Value: elacommon.Fixed64(v), ProgramHash: f.Keys[2+i%2].Hash,
					Type: common2.OTNone, Payload: &outputpayload.DefaultOutput{}})
			}
			var tx interfaces.Transaction
			if len(ins) > 0 {
				tx, err = f.RawTx(common2.ActivateProducer, 0, pl, ins, os, uint64(si))
				if err != nil {
					st.Fail("c01:e2e-fixture", "cannot build the transaction: "+err.Error(), nil)
					return
				}
			} else {
				tx = functions.CreateTransaction(common2.TxVersion09, common2.ActivateProducer, 0, pl, []*common2.Attribute{}, []*common2.Input{}, os, 0, []*program.Program{})
			}
			_, tipH := f.Tip()
			var poolErr, blockErr interface{}
			connected := false
			panicked, pv := lib.Recover(func() {
				if e := f.SubmitTx(tx); e != nil {
					poolErr = e.Error()
				}
				b, err := f.BuildBlock(parent, []interfaces.Transaction{tx}, fixture.BlockOpt{Miner: 3})
				if err != nil {
					blockErr = "build: " + err.Error()
					return
				}
				inMain, _, err := f.ProcessBlock(b)
				if err != nil {
					blockErr = err.Error()
				}
				connected = inMain && err == nil
			})
			_, newH := f.Tip()
			in := map[string]interface{}{"op": "TxPool.AppendToTxPool + BlockChain.ProcessBlock", "shape": sp.name, "type": "ActivateProducer",
				"NFTStartHeight": 2, "blockHeight": tipH + 1, "inputs": inVals, "outs": outVals, "mempoolErr": poolErr, "blockErr": blockErr,
				"blockConnected": connected, "tipAfter": newH}
			if panicked {
				in["panic"] = fmt.Sprint(pv)
			}
			st.Count("blockpath|"+sp.name, connected, "block-path")
			so, sIn := bigSum(outVals), bigSum(inVals)
			neg := false
			for _, v := range outVals {
				neg = neg || v < 0
			}
			if connected {
				minedOK++
				if so.Cmp(sIn) > 0 {
					st.Fail("c01:block-creates-value", "a block containing a transaction whose outputs exceed the distinct outputs it spends was connected to the chain", in)
				} else if neg {
					st.Fail("c01:block-creates-value", "a block containing a transaction with a negative output (a positive spendable output created against it) was connected to the chain", in)
				}
			}
			if poolErr == nil && (so.Cmp(sIn) > 0 || neg) {
				st.Fail("c01:mempool-accepts-value-creation", "the transaction pool accepted a transaction with a negative output or with outputs exceeding the distinct outputs it spends", in)
			}
			if sp.expect && !connected {
				st.Fail("c01:blockpath-vacuous", "the well-formed zero-cost activation could not be mined on the tuned fixture (the block path is not exercised)", in)
			}
			st.Sample(in)
		}()
	}
	st.Extra["blockpath_shapes"] = len(shapes)
	st.Extra["blockpath_connected"] = minedOK
}
