package main

import (
	"fmt"

	elacommon "github.com/elastos/Elastos.ELA/common"
	"github.com/elastos/Elastos.ELA/common/config"
	"github.com/elastos/Elastos.ELA/core"
	"github.com/elastos/Elastos.ELA/core/transaction"
	common2 "github.com/elastos/Elastos.ELA/core/types/common"
	"github.com/elastos/Elastos.ELA/core/types/outputpayload"
	"github.com/elastos/Elastos.ELA/core/types/payload"

	"verifharness/elaenv"
	"verifharness/lib"
)

func main() {
	run := lib.ParseArgs()
	elaenv.InitLog(run.Out)
	params := config.GetDefaultParams()
	var ph elacommon.Uint168
	ph[0] = 0x21
	outs := []*common2.Output{}
	for i := 0; i < 4; i++ {
		outs = append(outs, &common2.Output{AssetID: core.ELAAssetID, Value: elacommon.Fixed64(1) << 62, ProgramHash: ph, Type: common2.OTNone, Payload: &outputpayload.DefaultOutput{}})
	}
	in := &common2.Input{}
	in.Previous.TxID[0] = 1
	tx := transaction.CreateTransaction(common2.TxVersion09, common2.TransferAsset, 0, &payload.TransferAsset{}, nil, []*common2.Input{in}, outs, 0, nil)
	tx.SetParameters(&transaction.TransactionParameters{Transaction: tx, BlockHeight: 2000000, Config: params})
	refs := map[*common2.Input]common2.Output{in: {AssetID: core.ELAAssetID, Value: 10000, ProgramHash: ph}}
	fmt.Println("out:", tx.CheckTransactionOutput())
	fmt.Println("fee:", tx.CheckTransactionFee(refs), tx.Fee())
}
