// C01 correspondence + oracle: the amount checks of /repo
// (tx.CheckTransactionOutput, checkAssetPrecision, tx.CheckTransactionFee,
// getTransactionFee, blockchain.GetTxFee) against coq/model/C01_Fee.v, and the
// property oracle "accepted => exact sum(outputs) <= exact sum(spent outputs)".
package main

import (
	"fmt"
	"math/big"

	"github.com/elastos/Elastos.ELA/blockchain"
	elacommon "github.com/elastos/Elastos.ELA/common"
	"github.com/elastos/Elastos.ELA/common/config"
	"github.com/elastos/Elastos.ELA/core"
	"github.com/elastos/Elastos.ELA/core/transaction"
	common2 "github.com/elastos/Elastos.ELA/core/types/common"
	"github.com/elastos/Elastos.ELA/core/types/interfaces"
	"github.com/elastos/Elastos.ELA/core/types/outputpayload"
	"github.com/elastos/Elastos.ELA/core/types/payload"

	"verifharness/ctxcheck"
	"verifharness/elaenv"
	"verifharness/fixture"
	"verifharness/lib"
)

type kind int

const (
	kStd kind = iota
	kNone
	kActivate
	kSkip // CheckTransactionOutput needs chain state (or coinbase: outside the property)
)

var kindName = map[kind]string{kStd: "KStd", kNone: "KNone", kActivate: "KActivate"}

// shape of CheckTransactionOutput per transaction type (everything not listed: the per-output loop)
var kinds = map[common2.TxType]kind{
	common2.CoinBase: kSkip, common2.SideChainPow: kSkip, common2.CRCAppropriation: kSkip, common2.ExchangeVotes: kSkip,
	common2.IllegalProposalEvidence: kNone, common2.IllegalVoteEvidence: kNone, common2.IllegalBlockEvidence: kNone,
	common2.IllegalSidechainEvidence: kNone, common2.InactiveArbitrators: kNone, common2.UpdateVersion: kNone,
	common2.NextTurnDPOSInfo: kNone, common2.RevertToPOW: kNone, common2.RevertToDPOS: kNone,
	common2.RecordSponsor: kNone, common2.NFTDestroyFromSideChain: kNone, common2.ProposalResult: kNone,
	common2.ActivateProducer: kActivate,
}

// types whose CheckTransactionOutput has its own output-payload rule: only OTNone outputs are generated for them
var ownPayloadRule = map[common2.TxType]bool{
	common2.TransferAsset: true, common2.WithdrawFromSideChain: true,
	common2.ReturnSideChainDepositCoin: true, common2.TransferCrossChainAsset: true,
}

type outSpec struct {
	val   int64
	asset bool
	pfx   byte
	spec  bool // hash is all-zero / CR assets / CRC expenses
	hash  elacommon.Uint168
	otype common2.OutputType
}

const (
	p62 = int64(1) << 62
	max = int64(^uint64(0) >> 1)
	min = -max - 1
)

var amountPool = []int64{0, 0, 1, 1, 2, 99, 100, 101, 10000, 9999, 1 << 31, 1<<31 + 1, 100000000, 3300000000000000,
	p62 - 1, p62, p62 + 1, p62 / 2, 3 * (p62 / 2), max, max - 1, max - 100, max / 3, -1, -100, min, min + 1, -p62}

func pickAmount(r *lib.Rng) int64 {
	switch r.Intn(10) {
	case 0, 1, 2, 3:
		return amountPool[r.Intn(len(amountPool))]
	case 4, 5:
		return int64(r.Intn(1000000))
	case 6:
		return int64(r.U64() >> 1) // large non-negative
	case 7:
		return p62 + int64(r.Intn(2001)) - 1000
	case 8:
		return max - int64(r.Intn(1000))
	default:
		return int64(r.U64()>>1) >> uint(r.Intn(40))
	}
}

func bigSum(xs []int64) *big.Int {
	s := new(big.Int)
	for _, x := range xs {
		s.Add(s, big.NewInt(x))
	}
	return s
}

var goodPrefixes = []byte{0x21, 0x12, 0x4b, 0x1f, 0x3f}

func genOut(r *lib.Rng, val int64, allowBad bool, allowType bool) outSpec {
	o := outSpec{val: val, asset: true, otype: common2.OTNone}
	o.pfx = goodPrefixes[r.Intn(len(goodPrefixes))]
	copy(o.hash[:], r.Bytes(21))
	o.hash[0] = o.pfx
	if allowBad {
		switch r.Intn(40) {
		case 0:
			o.asset = false
		case 1:
			o.pfx = 0x67 // CRDID prefix: not accepted for outputs
			o.hash[0] = o.pfx
		case 2:
			o.pfx = byte(r.U64())
			o.hash[0] = o.pfx
		case 3:
			o.hash = elacommon.Uint168{}
			o.pfx, o.spec = 0, true
		case 4:
			o.hash = *config.CRAssetsProgramHash
			o.pfx, o.spec = o.hash[0], true
		case 5:
			o.hash = *config.CRCExpensesProgramHash
			o.pfx, o.spec = o.hash[0], true
		case 6:
			o.pfx = 0 // zero prefix but not the all-zero hash
			o.hash[0] = 0
			o.hash[5] |= 1
		case 7:
			if allowType {
				o.otype = common2.OTVote
			}
		}
	}
	return o
}

func (o outSpec) toOutput() *common2.Output {
	out := &common2.Output{AssetID: core.ELAAssetID, Value: elacommon.Fixed64(o.val), ProgramHash: o.hash,
		Type: o.otype, Payload: &outputpayload.DefaultOutput{}}
	if !o.asset {
		out.AssetID[3] ^= 0x55
	}
	if o.otype == common2.OTVote {
		out.Payload = &outputpayload.VoteOutput{}
	}
	return out
}

func (o outSpec) coq() string {
	return fmt.Sprintf("O %s %s %d %s %d", lib.CoqZi(o.val), lib.CoqBool(o.asset), o.pfx, lib.CoqBool(o.spec), o.otype)
}

func coqZs(xs []int64) string {
	ss := make([]string, len(xs))
	for i, x := range xs {
		ss[i] = lib.CoqZi(x)
	}
	return lib.CoqList(ss)
}

func verdict(panicked bool, err error) int {
	if panicked {
		return 2
	}
	if err != nil {
		return 1
	}
	return 0
}

type txCase struct {
	tt      common2.TxType
	height  uint32
	cah     uint32
	nft     uint32
	ver     common2.TransactionVersion
	minfee  int64
	outs    []outSpec
	refs    []int64
	comment string
}

// splitInto splits total (>= 0, fits int64) into n non-negative parts.
func splitInto(r *lib.Rng, total int64, n int) []int64 {
	parts := make([]int64, n)
	rest := total
	for i := 0; i < n-1; i++ {
		var p int64
		if rest > 0 {
			p = int64(r.U64() % uint64(rest+1))
			if r.Chance(30) {
				p = rest
			}
		}
		parts[i] = p
		rest -= p
	}
	parts[n-1] = rest
	return parts
}

func main() {
	run := lib.ParseArgs()
	elaenv.InitLog(run.Out)
	rng := lib.NewRng(run.Seed)
	st := lib.NewStats("C01", "every transaction type whose CheckTransactionOutput/CheckTransactionFee run without chain state (40 of the factory's 44; coinbase excluded by the property; SideChainPow, CRCAppropriation, ExchangeVotes need chain state) x heights around CheckAddressHeight/NFTStartHeight x tx version 0/9 x MinTransactionFee 0/100/10000; 0..70 outputs (65535/65536 once) and 1..12 referenced outputs with amounts from {0,1,fee boundary,2^31,2^62+-k,2^63-1-k,negative,random}; plus end-to-end CheckTransactionSanity+CheckTransactionContext on the regnet chain fixture (real SpecialContextCheck) for ActivateProducer in zero-cost / funded / unsigned / duplicate-input forms at every height threshold +-1 and for transfers of the genesis output; generators: balanced (inputs = outputs + fee around the minimum), wrap attack (output or input total congruent to a small value mod 2^64), random. nontrivial = both checks accepted, or rejected only by the overflow guard; distinct by (kind, params, amounts)")
	sh := &lib.Shards{Dir: run.Out, Imports: "From ELA Require Import model.C01_Fee corr.C01_corr.", CaseType: "C01_corr.case",
		Mismatch: "C01_corr.mismatches", Scope: "Z", PerShard: 400}
	id := 0
	next := func() int { id++; return id }

	// wiring of the amount checks inside SanityCheck / ContextCheck (read from the source under test)
	if m, err := ctxcheck.Load(run.Repo, "ContextCheck"); err != nil {
		st.Fail("c01:check-wiring", "cannot analyse DefaultChecker.ContextCheck: "+err.Error(), nil)
	} else if s, err := ctxcheck.Load(run.Repo, "SanityCheck"); err != nil {
		st.Fail("c01:check-wiring", "cannot analyse DefaultChecker.SanityCheck: "+err.Error(), nil)
	} else {
		for _, p := range []string{
			m.OnlyReceivers("DefaultChecker", "CoinBaseTransaction"),
			m.Expect("CheckTransactionFee", []string{"references"}, []string{"GetTxReference", "SpecialContextCheck"}, nil),
			s.OnlyReceivers("DefaultChecker"),
			s.Expect("CheckTransactionOutput", []string{}, nil, nil),
		} {
			if p != "" {
				st.Fail("c01:check-wiring", "SanityCheck/ContextCheck no longer run CheckTransactionOutput / CheckTransactionFee on every non-coinbase transaction: "+p, nil)
			}
		}
	}

	// all transaction types the factory knows
	var types []common2.TxType
	for t := 0; t < 256; t++ {
		if _, err := transaction.GetTransaction(common2.TxType(t)); err == nil {
			if k, ok := kinds[common2.TxType(t)]; !ok || k != kSkip {
				types = append(types, common2.TxType(t))
			}
		}
	}
	st.Extra["tx_types_covered"] = len(types)

	origCAH := config.DefaultParams.CheckAddressHeight
	defer func() { config.DefaultParams.CheckAddressHeight = origCAH }()

	runTx := func(c txCase) (accepted bool) {
		k := kinds[c.tt] // zero value kStd for unlisted types
		params := config.GetDefaultParams()
		params.MinTransactionFee = elacommon.Fixed64(c.minfee)
		params.DPoSConfiguration.NFTStartHeight = c.nft
		config.DefaultParams.CheckAddressHeight = c.cah
		var outs []*common2.Output
		for _, o := range c.outs {
			outs = append(outs, o.toOutput())
		}
		refs := map[*common2.Input]common2.Output{}
		var ins []*common2.Input
		var ph elacommon.Uint168
		ph[0] = 0x21
		for i, v := range c.refs {
			in := &common2.Input{}
			in.Previous.TxID[0] = byte(i + 1)
			in.Previous.TxID[1] = byte((i + 1) >> 8)
			in.Previous.Index = uint16(i)
			ins = append(ins, in)
			refs[in] = common2.Output{AssetID: core.ELAAssetID, Value: elacommon.Fixed64(v), ProgramHash: ph}
		}
		tx := transaction.CreateTransaction(c.ver, c.tt, 0, &payload.TransferAsset{}, nil, ins, outs, 0, nil)
		tx.SetParameters(&transaction.TransactionParameters{Transaction: tx, BlockHeight: c.height, Config: params})

		var errOut, errPrec, errFee, errIn error
		pIn, _ := lib.Recover(func() { errIn = tx.CheckTransactionInput() })
		pOut, pv := lib.Recover(func() {
			errOut = tx.CheckTransactionOutput()
			errPrec = transaction.CheckAssetPrecisionVerif(tx)
		})
		pFee, pv2 := lib.Recover(func() { errFee = tx.CheckTransactionFee(refs) })
		vOut, vFee := verdict(pOut, errOut), verdict(pFee, errFee)
		if vOut == 0 && errPrec != nil {
			vOut = 1
		}
		fee := int64(0)
		if vFee == 0 {
			fee = int64(tx.Fee())
		}
		var outVals []int64
		var outTerms []string
		for _, o := range c.outs {
			outVals = append(outVals, o.val)
			outTerms = append(outTerms, o.coq())
		}
		i := next()
		ver9 := c.ver >= common2.TxVersion09
		if len(outTerms) > 200 { // corpus cases made of n copies of one output
			sh.Add(fmt.Sprintf("CTxRep %d %s (P %d %d %d %s %s) %d%%N (%s) %s %d %d %s", i, kindName[k], c.height, c.cah, c.nft,
				lib.CoqBool(ver9), lib.CoqZi(c.minfee), len(outTerms), outTerms[0], coqZs(c.refs), vOut, vFee, lib.CoqZi(fee)))
		} else {
			sh.Add(fmt.Sprintf("CTx %d %s (P %d %d %d %s %s) %s %s %d %d %s", i, kindName[k], c.height, c.cah, c.nft,
				lib.CoqBool(ver9), lib.CoqZi(c.minfee), lib.CoqList(outTerms), coqZs(c.refs), vOut, vFee, lib.CoqZi(fee)))
		}
		logOuts := interface{}(outVals)
		if len(outVals) > 200 {
			logOuts = fmt.Sprintf("%d outputs of %d", len(outVals), outVals[0])
		}
		in := map[string]interface{}{"op": "tx", "type": c.tt.Name(), "txtype": int(c.tt), "height": c.height, "checkAddressHeight": c.cah,
			"nftStartHeight": c.nft, "version": int(c.ver), "minFee": c.minfee, "outs": logOuts, "refs": c.refs,
			"checkOutput": vOut, "checkFee": vFee, "fee": fee, "gen": c.comment}
		st.LogCase(run.Out, i, in)
		if pOut || pFee {
			st.Fail("c01:panic", fmt.Sprintf("amount check panicked: %v %v", pv, pv2), in)
		}
		accepted = vOut == 0 && vFee == 0
		so, sr := bigSum(outVals), bigSum(c.refs)
		overflowOnly := vOut == 0 && vFee == 1 && !new(big.Int).Sub(sr, so).IsInt64()
		key := fmt.Sprintf("%s|%d|%d|%d|%d|%d|%v|%v", kindName[k], c.height, c.cah, c.nft, c.ver, c.minfee, outVals, c.refs)
		kindTag := "rejected-by-output-check"
		if accepted {
			kindTag = "accepted"
		} else if overflowOnly {
			kindTag = "rejected-overflow"
		} else if vOut == 0 {
			kindTag = "rejected-by-fee-check"
		}
		st.Count(key, accepted || overflowOnly, kindTag)
		st.Hist["type:"+c.tt.Name()]++
		// ---- types whose SpecialContextCheck always ends validation on success (`return nil, true`:
		// the "no output" types): the sanity checks alone must already rule out value creation
		if k == kNone && !pIn && errIn == nil && vOut == 0 && so.Cmp(sr) > 0 {
			st.Fail("c01:accept-inflation", "a transaction type that skips the fee check (SpecialContextCheck ends validation) passed CheckTransactionInput and CheckTransactionOutput with outputs exceeding the outputs it spends", in)
		}
		// ---- property oracle (exact arithmetic, independent of the model)
		if accepted {
			if so.Cmp(sr) > 0 {
				st.Fail("c01:accept-inflation", "transaction passed CheckTransactionOutput and CheckTransactionFee although its outputs exceed the outputs it spends (exact integers)", in)
			}
			if new(big.Int).Sub(sr, so).Cmp(big.NewInt(fee)) != 0 {
				st.Fail("c01:fee-not-exact", "fee recorded on an accepted transaction is not inputs-outputs", in)
			}
			if k == kStd {
				for _, v := range outVals {
					if v < 0 {
						st.Fail("c01:negative-output", "accepted transaction has a negative output", in)
					}
				}
			}
			// block side: GetTxFee must agree with the accepted fee
			allELA := true
			for _, o := range c.outs {
				allELA = allELA && o.asset
			}
			// (ActivateProducer after NFTStartHeight does not look at asset ids; GetTxFee is per asset)
			if got := int64(blockchain.GetTxFee(tx, core.ELAAssetID, refs)); allELA && got != fee {
				st.Fail("c01:GetTxFee-differs", "blockchain.GetTxFee differs from the fee accepted by the checker", in)
			}
		}
		if len(st.Samples) < 3 && accepted && len(outVals) > 1 {
			st.Sample(in)
		}
		return
	}

	heights := []uint32{0, 88811, 88812, 1404999, 1405000, 1405001, 2000000, 2000000, 2000000}
	stdCase := func(tt common2.TxType) txCase {
		c := txCase{tt: tt, height: heights[rng.Intn(len(heights))], cah: 88812, nft: 1405000, ver: common2.TxVersion09, minfee: 100}
		if rng.Chance(25) {
			c.ver = common2.TxVersionDefault
		}
		if rng.Chance(15) {
			c.cah = 0
		}
		if rng.Chance(10) {
			c.nft = uint32(rng.PickU64(0, 2000000, 1999999))
		}
		switch rng.Intn(6) {
		case 0:
			c.minfee = 0
		case 1:
			c.minfee = 10000
		}
		return c
	}
	mkOut := func(v int64, tt common2.TxType, bad bool) outSpec {
		return genOut(rng, v, bad, !ownPayloadRule[tt])
	}

	// ---------------- corpus: the repaired defect and boundary cases
	w := func(vals []int64, refs []int64, comment string) txCase {
		c := txCase{tt: common2.TransferAsset, height: 2000000, cah: 88812, nft: 1405000, ver: common2.TxVersion09, minfee: 100, refs: refs, comment: comment}
		for _, v := range vals {
			o := outSpec{val: v, asset: true, pfx: 0x21, otype: common2.OTNone}
			o.hash[0] = 0x21
			o.hash[7] = 9
			c.outs = append(c.outs, o)
		}
		return c
	}
	corpus := []txCase{
		w([]int64{p62, p62, p62, p62}, []int64{10000}, "witness: 4 x 2^62 outputs, one 10000 sela input (passed before the repair)"),
		w([]int64{p62, p62, p62, p62}, []int64{100}, "witness variant: fee exactly the minimum"),
		w([]int64{max, max, 2}, []int64{100}, "2*(2^63-1)+2 = 2^64"),
		w([]int64{max, 1}, []int64{min + 200}, "outputs wrap to MinInt64"),
		w([]int64{max}, []int64{max, 100}, "input total just above int64"),
		w([]int64{max - 100}, []int64{max}, "largest amounts, fee 100"),
		w([]int64{0}, []int64{max, max}, "input total 2^64-2: fee not representable"),
		w([]int64{1}, []int64{p62, p62, p62, p62, 101}, "inputs wrap to 101"),
		w([]int64{5}, []int64{104}, "fee 99"),
		w([]int64{5}, []int64{105}, "fee 100"),
		w([]int64{5, -1}, []int64{104}, "negative output"),
		w([]int64{5}, []int64{-3, 108}, "negative reference"),
		w([]int64{}, []int64{500}, "no outputs"),
	}
	for _, tt := range []common2.TxType{common2.RegisterProducer, common2.WithdrawFromSideChain, common2.Voting, common2.CRCProposalWithdraw} {
		c := w([]int64{p62, p62, p62, p62}, []int64{10000}, "witness on another type")
		c.tt = tt
		corpus = append(corpus, c)
	}
	{ // ActivateProducer: fee must be 0; outputs unchecked after NFTStartHeight
		c := w([]int64{p62, p62, p62, p62}, []int64{0}, "activate: outputs wrap to 0, inputs 0")
		c.tt = common2.ActivateProducer
		corpus = append(corpus, c)
		c = w([]int64{300, 400}, []int64{700}, "activate: balanced")
		c.tt = common2.ActivateProducer
		corpus = append(corpus, c)
		c = w([]int64{300}, []int64{}, "activate before NFTStartHeight with an output")
		c.tt, c.height = common2.ActivateProducer, 1405000
		corpus = append(corpus, c)
		c = w([]int64{}, []int64{}, "activate before NFTStartHeight, empty")
		c.tt, c.height = common2.ActivateProducer, 1405000
		corpus = append(corpus, c)
	}
	{ // output count bound
		for _, n := range []int{65535, 65536} {
			vals := make([]int64, n)
			for i := range vals {
				vals[i] = 1
			}
			corpus = append(corpus, w(vals, []int64{int64(n) + 100}, fmt.Sprintf("%d outputs", n)))
		}
	}
	for _, c := range corpus {
		runTx(c)
	}
	if st.Hist["rejected-overflow"] == 0 {
		st.Fail("c01:corpus-witness-not-rejected", "the recorded overflow witness is no longer rejected by the overflow guard", nil)
	}

	// ---------------- generated transactions
	n := run.N(1500, 20000)
	for i := 0; i < n; i++ {
		tt := types[rng.Intn(len(types))]
		if rng.Chance(35) {
			tt = []common2.TxType{common2.TransferAsset, common2.TransferAsset, common2.WithdrawFromSideChain, common2.TransferCrossChainAsset,
				common2.ReturnSideChainDepositCoin, common2.ActivateProducer, common2.RegisterProducer, common2.CRCProposalWithdraw}[rng.Intn(8)]
		}
		c := stdCase(tt)
		k := kinds[tt]
		nOut := 1 + rng.Intn(6)
		if rng.Chance(8) {
			nOut = rng.Intn(71)
		}
		if k == kNone && rng.Chance(70) {
			nOut = 0
		}
		if k == kActivate && c.height <= c.nft && rng.Chance(60) {
			nOut = 0
		}
		nRef := 1 + rng.Intn(4)
		if rng.Chance(5) {
			nRef = rng.Intn(13)
		}
		bad := rng.Chance(25)
		switch g := rng.Intn(10); {
		case g < 4: // balanced: refs = outs + fee near the boundary
			c.comment = "balanced"
			var vals []int64
			total := new(big.Int)
			for j := 0; j < nOut; j++ {
				v := int64(rng.Intn(1000000))
				if rng.Chance(30) {
					v = pickAmount(rng)
					if v < 0 && rng.Chance(80) {
						v = -(v + 1)
					}
				}
				if new(big.Int).Add(total, big.NewInt(v)).Cmp(big.NewInt(max-20000)) > 0 || v < 0 && !bad {
					v = 0
				}
				total.Add(total, big.NewInt(v))
				vals = append(vals, v)
			}
			fee := rng.PickI64(0, 1, 99, 100, 101, 9999, 10000, 10001, -1, int64(rng.Intn(100000)))
			if k == kActivate && rng.Chance(70) {
				fee = 0
			}
			t := total.Int64() + fee
			if t < 0 {
				t = 0
			}
			if nRef == 0 {
				nRef = 1
			}
			c.refs = splitInto(rng, t, nRef)
			for _, v := range vals {
				c.outs = append(c.outs, mkOut(v, tt, bad))
			}
		case g < 7: // wrap attack: exact total of outputs (or inputs) = small + m*2^64
			c.comment = "wrap-attack"
			target := rng.PickI64(0, 1, 100, 10000, int64(rng.Intn(1000000)))
			var vals []int64
			if nOut < 2 {
				nOut = 2 + rng.Intn(4)
			}
			acc := uint64(0)
			for j := 0; j < nOut-1; j++ {
				v := int64(rng.U64() >> 1)
				if rng.Chance(50) {
					v = rng.PickI64(p62, max, p62+1, max-1, 3*(p62/2))
				}
				vals = append(vals, v)
				acc += uint64(v)
			}
			last := int64(uint64(target) - acc) // wrapped total == target
			if last < 0 && rng.Chance(85) {     // make it individually valid: add one more 2^63-ish amount
				vals = append(vals, max)
				acc += uint64(max)
				last = int64(uint64(target) - acc)
				if last < 0 {
					vals = append(vals, 1)
					acc++
					last = int64(uint64(target) - acc)
				}
			}
			vals = append(vals, last)
			if rng.Chance(75) {
				for _, v := range vals {
					c.outs = append(c.outs, mkOut(v, tt, false))
				}
				c.refs = splitInto(rng, target+rng.PickI64(0, 99, 100, 101, 10000), 1+rng.Intn(3))
			} else { // the inputs wrap instead
				c.refs = vals
				o := target - rng.PickI64(0, 99, 100, 101, 10000)
				if o < 0 {
					o = 0
				}
				for _, v := range splitInto(rng, o, 1+rng.Intn(3)) {
					c.outs = append(c.outs, mkOut(v, tt, false))
				}
			}
		default:
			c.comment = "random"
			for j := 0; j < nOut; j++ {
				c.outs = append(c.outs, mkOut(pickAmount(rng), tt, bad))
			}
			for j := 0; j < nRef; j++ {
				c.refs = append(c.refs, pickAmount(rng))
			}
		}
		runTx(c)
	}

	// ---------------- CheckTransactionInput: duplicate detection is by outpoint, not by (outpoint, Sequence)
	for i := 0; i < run.N(300, 6000); i++ {
		tt := types[rng.Intn(len(types))]
		if kinds[tt] != kStd || rng.Chance(50) {
			tt = common2.TransferAsset
		}
		n := rng.Intn(5)
		if rng.Chance(5) {
			n = 5 + rng.Intn(20)
		}
		var ins []*common2.Input
		var terms []string
		for j := 0; j < n; j++ {
			op := int64(1 + rng.Intn(4))
			if rng.Chance(4) {
				op = -1
			}
			seq := uint32(rng.PickU64(0, 0, 1, 2, 1<<32-1, 1<<32-2))
			in := &common2.Input{Sequence: seq}
			if op == -1 {
				in.Previous.Index = 65535 // all-zero txid with index MaxUint16
			} else {
				in.Previous.TxID[0] = byte(op % 3) // ids 1..4 spread over txid and index
				in.Previous.TxID[5] = 9
				in.Previous.Index = uint16(op / 3)
			}
			ins = append(ins, in)
			terms = append(terms, fmt.Sprintf("I %s %d", lib.CoqZi(op), seq))
		}
		tx := transaction.CreateTransaction(common2.TxVersion09, tt, 0, &payload.TransferAsset{}, nil, ins, nil, 0, nil)
		tx.SetParameters(&transaction.TransactionParameters{Transaction: tx, BlockHeight: 2000000, Config: config.GetDefaultParams()})
		var e error
		pan, pv := lib.Recover(func() { e = tx.CheckTransactionInput() })
		k := next()
		sh.Add(fmt.Sprintf("CInputs %d %s %d", k, lib.CoqList(terms), verdict(pan, e)))
		in := map[string]interface{}{"op": "CheckTransactionInput", "type": tt.Name(), "inputs(outpoint id, sequence)": terms, "result": verdict(pan, e)}
		st.LogCase(run.Out, k, in)
		if pan {
			st.Fail("c01:panic", fmt.Sprintf("CheckTransactionInput panicked: %v", pv), in)
		}
		seen := map[string]bool{}
		rep := false
		for _, x := range ins {
			rep = rep || seen[x.Previous.ReferKey()]
			seen[x.Previous.ReferKey()] = true
		}
		st.Count(fmt.Sprintf("ins|%s|%v", tt.Name(), terms), rep, "CheckTransactionInput")
		if rep && !pan && e == nil && st.Hist["oracle_fail:c01:repeated-outpoint-accepted"] < 3 {
			st.Fail("c01:repeated-outpoint-accepted", "CheckTransactionInput accepted a transaction that names one outpoint more than once (the fee check would count that output once per input)", in)
		}
	}

	// ---------------- getTransactionFee directly
	for i := 0; i < run.N(400, 6000); i++ {
		var outs, refs []int64
		for j := rng.Intn(6); j > 0; j-- {
			outs = append(outs, pickAmount(rng))
		}
		for j := rng.Intn(6); j > 0; j-- {
			refs = append(refs, pickAmount(rng))
		}
		if rng.Chance(30) && len(outs) > 0 { // exact difference at the int64 boundaries
			d := rng.PickI64(max, max-1, min, min+1, 0, 100)
			so, sr := bigSum(outs), bigSum(refs)
			need := new(big.Int).Add(so, big.NewInt(d))
			need.Sub(need, sr) // what must be added to refs
			if rng.Chance(30) {
				need.Add(need, big.NewInt(rng.PickI64(1, -1)))
			}
			for need.Sign() != 0 && len(refs) < 12 {
				step := new(big.Int).Set(need)
				if !step.IsInt64() {
					if step.Sign() > 0 {
						step.SetInt64(max)
					} else {
						step.SetInt64(min)
					}
				}
				refs = append(refs, step.Int64())
				need.Sub(need, step)
			}
		}
		var os []*common2.Output
		for _, v := range outs {
			os = append(os, &common2.Output{AssetID: core.ELAAssetID, Value: elacommon.Fixed64(v)})
		}
		rm := map[*common2.Input]common2.Output{}
		for _, v := range refs {
			rm[&common2.Input{}] = common2.Output{AssetID: core.ELAAssetID, Value: elacommon.Fixed64(v)}
		}
		tx := transaction.CreateTransaction(common2.TxVersion09, common2.TransferAsset, 0, &payload.TransferAsset{}, nil, nil, os, 0, nil)
		fee, err := transaction.GetTransactionFeeVerif(tx, rm)
		k := next()
		sh.Add(fmt.Sprintf("CFee %d %s %s %s %s", k, coqZs(refs), coqZs(outs), lib.CoqBool(err == nil), lib.CoqZi(int64(fee))))
		in := map[string]interface{}{"op": "getTransactionFee", "refs": refs, "outs": outs, "ok": err == nil, "fee": int64(fee)}
		st.LogCase(run.Out, k, in)
		exact := new(big.Int).Sub(bigSum(refs), bigSum(outs))
		st.Count(fmt.Sprintf("fee|%v|%v", refs, outs), err == nil && exact.Sign() != 0 || err != nil, "getTransactionFee")
		if err == nil && exact.Cmp(big.NewInt(int64(fee))) != 0 {
			st.Fail("c01:getTransactionFee-inexact", "getTransactionFee returned a value different from the exact difference without an error", in)
		}
		if err != nil && exact.IsInt64() {
			st.Fail("c01:getTransactionFee-spurious-error", "getTransactionFee failed although the exact difference is representable", in)
		}
	}

	// ---------------- blockchain.GetTxFee (wrapping sums, per asset)
	for i := 0; i < run.N(300, 4000); i++ {
		type av struct {
			v   int64
			ela bool
		}
		gen := func(n int) (l []av) {
			for j := 0; j < n; j++ {
				l = append(l, av{pickAmount(rng), !rng.Chance(15)})
			}
			return
		}
		outs, refs := gen(rng.Intn(5)), gen(rng.Intn(5))
		other := core.ELAAssetID
		other[0] ^= 1
		asset := func(b bool) elacommon.Uint256 {
			if b {
				return core.ELAAssetID
			}
			return other
		}
		var os []*common2.Output
		var ot, rt []string
		for _, o := range outs {
			os = append(os, &common2.Output{AssetID: asset(o.ela), Value: elacommon.Fixed64(o.v)})
			ot = append(ot, fmt.Sprintf("(%s, %s)", lib.CoqZi(o.v), lib.CoqBool(o.ela)))
		}
		rm := map[*common2.Input]common2.Output{}
		for _, o := range refs {
			rm[&common2.Input{}] = common2.Output{AssetID: asset(o.ela), Value: elacommon.Fixed64(o.v)}
			rt = append(rt, fmt.Sprintf("(%s, %s)", lib.CoqZi(o.v), lib.CoqBool(o.ela)))
		}
		tx := transaction.CreateTransaction(common2.TxVersion09, common2.TransferAsset, 0, &payload.TransferAsset{}, nil, nil, os, 0, nil)
		fee := int64(blockchain.GetTxFee(tx, core.ELAAssetID, rm))
		k := next()
		sh.Add(fmt.Sprintf("CFeeMap %d %s %s %s", k, lib.CoqList(rt), lib.CoqList(ot), lib.CoqZi(fee)))
		st.LogCase(run.Out, k, map[string]interface{}{"op": "GetTxFee", "refs": refs, "outs": outs, "fee": fee})
		st.Count(fmt.Sprintf("feemap|%v|%v", refs, outs), fee != 0, "GetTxFee")
	}

	// ---------------- the totalTxFee += loop of checkTxsContext (inline there; the same
	// Fixed64 additions replicated here to tie wrap64 to Go's int64 arithmetic)
	for i := 0; i < run.N(100, 2000); i++ {
		var fees []int64
		var total elacommon.Fixed64
		for j := rng.Intn(8); j > 0; j-- {
			f := pickAmount(rng)
			fees = append(fees, f)
			total += elacommon.Fixed64(f)
		}
		k := next()
		sh.Add(fmt.Sprintf("CBlock %d %s %s", k, coqZs(fees), lib.CoqZi(int64(total))))
		st.LogCase(run.Out, k, map[string]interface{}{"op": "totalTxFee", "fees": fees, "total": int64(total)})
		st.Count(fmt.Sprintf("blk|%v", fees), total != 0, "totalTxFee")
	}
	var _ interfaces.Transaction
	// ---------------- end to end on the chain fixture (real SpecialContextCheck results)
	fx, err := fixture.New(fixture.Options{})
	if err != nil {
		st.Fail("c01:e2e-fixture", "cannot start the chain fixture: "+err.Error(), nil)
	} else {
		early(run, st, sh, next, rng, fx)
		e2e(run, st, rng, fx)
		fx.Close()
		blockPath(run, st)
	}
	st.Traces = st.Evals
	sh.Flush()
	st.Write(run.Out)
}
