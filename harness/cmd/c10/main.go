// C10 correspondence and oracle: auxpow.AuxPow.Check / GetMerkleRoot /
// GetExpectedIndex of /repo against coq/model/C10_AuxPow.v.
package main

import (
	"bytes"
	"crypto/sha256"
	"encoding/binary"
	"fmt"
	"strings"

	"github.com/elastos/Elastos.ELA/auxpow"
	"github.com/elastos/Elastos.ELA/common"

	"verifharness/elaenv"
	"verifharness/lib"
)

const sigNibble = "auxpow.Check:accepted:marker-only-at-odd-nibble-offset"

var marker = []byte{0xfa, 0xbe, 'm', 'm'}

func sha256d(b []byte) []byte {
	a := sha256.Sum256(b)
	c := sha256.Sum256(a[:])
	return c[:]
}

func rev(b []byte) []byte {
	o := make([]byte, len(b))
	for i := range b {
		o[len(b)-1-i] = b[i]
	}
	return o
}

// independent re-implementations used by the oracle only
func merkleRoot(h []byte, br []common.Uint256, idx int) []byte {
	if idx == -1 {
		return make([]byte, 32)
	}
	cur := append([]byte{}, h...)
	for _, it := range br {
		if idx&1 == 1 {
			cur = sha256d(append(append([]byte{}, it[:]...), cur...))
		} else {
			cur = sha256d(append(append([]byte{}, cur...), it[:]...))
		}
		idx >>= 1
	}
	return cur
}

func expectedIndex(nonce uint32, chainID int, h int) int {
	r := uint64(nonce)
	r = (r*1103515245 + 12345) & 0xffffffff
	r = (r + uint64(uint32(chainID))) & 0xffffffff
	r = (r*1103515245 + 12345) & 0xffffffff
	if h < 0 || h >= 32 {
		return -1
	}
	return int(r % (uint64(1) << uint(h)))
}

// cbHashOf is the coinbase hash of the value the object holds NOW: SHA-256d
// (crypto/sha256) of its serialization, never BtcTx.Hash() itself, so that a
// stale or cached hash inside the implementation cannot leak into the model's
// input or into the oracle.
func cbHashOf(tx *auxpow.BtcTx) common.Uint256 {
	buf := new(bytes.Buffer)
	if err := tx.Serialize(buf); err != nil {
		panic(err)
	}
	var h common.Uint256
	copy(h[:], sha256d(buf.Bytes()))
	return h
}

func headerHashOf(bh *auxpow.BtcHeader) common.Uint256 {
	buf := new(bytes.Buffer)
	if err := bh.Serialize(buf); err != nil {
		panic(err)
	}
	var h common.Uint256
	copy(h[:], sha256d(buf.Bytes()))
	return h
}

func countSub(s, sub []byte) int {
	n := 0
	for i := 0; i+len(sub) <= len(s); i++ {
		if bytes.Equal(s[i:i+len(sub)], sub) {
			n++
		}
	}
	return n
}

// statement of the property on an accepted proof, at byte granularity
func commits(ap *auxpow.AuxPow, hash common.Uint256, chainID int) (ok bool, why string) {
	cb := cbHashOf(&ap.ParCoinbaseTx)
	if !bytes.Equal(merkleRoot(cb[:], ap.ParCoinBaseMerkle, ap.ParMerkleIndex), ap.ParBlockHeader.MerkleRoot[:]) {
		return false, "parent coinbase not under the parent merkle root"
	}
	if len(ap.ParCoinbaseTx.TxIn) == 0 {
		return false, "no coinbase input"
	}
	script := ap.ParCoinbaseTx.TxIn[0].SignatureScript
	if countSub(script, marker) != 1 {
		return false, fmt.Sprintf("script contains %d markers (bytes)", countSub(script, marker))
	}
	k := bytes.Index(script, marker)
	root := merkleRoot(rev(hash[:]), ap.AuxMerkleBranch, ap.AuxMerkleIndex)
	want := rev(root)
	if len(script) < k+4+32+8 || !bytes.Equal(script[k+4:k+36], want) {
		return false, "marker not immediately followed by the aux root of this block hash"
	}
	h := len(ap.AuxMerkleBranch)
	if h >= 32 || binary.LittleEndian.Uint32(script[k+36:]) != uint32(1)<<uint(h) {
		return false, "merkle size field is not 2^height"
	}
	if ap.AuxMerkleIndex != expectedIndex(binary.LittleEndian.Uint32(script[k+40:]), chainID, h) {
		return false, "aux index is not the slot derived from nonce and chain id"
	}
	return true, ""
}

// commitsHex: the property statement read on the hex string of the script with
// the marker at an ODD nibble offset (the class of the recorded finding):
// parent merkle ok, exactly one "fabe6d6d" in the hex string, the 64 root
// nibbles start exactly 8 nibbles after it, and the 8 bytes at byte offset
// (offset+72)/2 are 2^height and a nonce whose slot is the aux index.
func commitsHex(ap *auxpow.AuxPow, hash common.Uint256, chainID int) bool {
	cb := cbHashOf(&ap.ParCoinbaseTx)
	if !bytes.Equal(merkleRoot(cb[:], ap.ParCoinBaseMerkle, ap.ParMerkleIndex), ap.ParBlockHeader.MerkleRoot[:]) {
		return false
	}
	if len(ap.ParCoinbaseTx.TxIn) == 0 {
		return false
	}
	script := ap.ParCoinbaseTx.TxIn[0].SignatureScript
	hs := fmt.Sprintf("%x", script)
	hi := strings.Index(hs, "fabe6d6d")
	if hi < 0 || hi%2 != 1 || strings.Count(hs, "fabe6d6d") != 1 {
		return false
	}
	root := merkleRoot(rev(hash[:]), ap.AuxMerkleBranch, ap.AuxMerkleIndex)
	rh := fmt.Sprintf("%x", rev(root))
	if len(hs) < hi+8+64 || hs[hi+8:hi+72] != rh || strings.Index(hs, rh) != hi+8 {
		return false
	}
	pos := (hi + 72) / 2
	h := len(ap.AuxMerkleBranch)
	if len(script) < pos+8 || h >= 32 || binary.LittleEndian.Uint32(script[pos:]) != uint32(1)<<uint(h) {
		return false
	}
	return ap.AuxMerkleIndex == expectedIndex(binary.LittleEndian.Uint32(script[pos+4:]), chainID, h)
}

func coqBytesN(b []byte) string { return lib.CoqBytes(b) + "%N" }

func coqHashes(hs []common.Uint256) string {
	var xs []string
	for _, h := range hs {
		xs = append(xs, lib.CoqBytes(h[:]))
	}
	return "[" + strings.Join(xs, "; ") + "]%N"
}

func coqAP(ap *auxpow.AuxPow) string {
	cb := cbHashOf(&ap.ParCoinbaseTx)
	has := len(ap.ParCoinbaseTx.TxIn) > 0
	var script []byte
	if has {
		script = ap.ParCoinbaseTx.TxIn[0].SignatureScript
	}
	return fmt.Sprintf("(mkAuxPow %s %s %s %s %s %s %s %s)", coqHashes(ap.AuxMerkleBranch), lib.CoqZi(int64(ap.AuxMerkleIndex)),
		coqBytesN(cb[:]), lib.CoqBool(has), coqBytesN(script), coqHashes(ap.ParCoinBaseMerkle), lib.CoqZi(int64(ap.ParMerkleIndex)),
		coqBytesN(ap.ParBlockHeader.MerkleRoot[:]))
}

type spec struct {
	hash     common.Uint256
	chainID  int
	branch   []common.Uint256
	nonce    uint32
	prefix   []byte
	suffix   []byte
	parBr    []common.Uint256
	parIdx   int
	extraIns int // additional inputs after the first
}

func randHash(r *lib.Rng) common.Uint256 {
	var h common.Uint256
	copy(h[:], r.Bytes(32))
	return h
}

func le32(x uint32) []byte {
	var b [4]byte
	binary.LittleEndian.PutUint32(b[:], x)
	return b[:]
}

// build a proof that satisfies the property statement
func build(s spec) *auxpow.AuxPow {
	h := len(s.branch)
	idx := expectedIndex(s.nonce, s.chainID, h)
	root := merkleRoot(rev(s.hash[:]), s.branch, idx)
	var script []byte
	script = append(script, s.prefix...)
	script = append(script, marker...)
	script = append(script, rev(root)...)
	var size uint32
	if h < 32 {
		size = uint32(1) << uint(h)
	}
	script = append(script, le32(size)...)
	script = append(script, le32(s.nonce)...)
	script = append(script, s.suffix...)
	return withScript(s, script, idx)
}

func withScript(s spec, script []byte, idx int) *auxpow.AuxPow {
	ins := []*auxpow.BtcTxIn{{PreviousOutPoint: auxpow.BtcOutPoint{Hash: common.EmptyHash, Index: 0xffffffff}, SignatureScript: script, Sequence: 0}}
	for k := 0; k < s.extraIns; k++ {
		ins = append(ins, &auxpow.BtcTxIn{SignatureScript: []byte{byte(k)}})
	}
	cb := auxpow.NewBtcTx(ins, []*auxpow.BtcTxOut{{Value: 5000000000, PkScript: []byte{0x51}}})
	cbh := cbHashOf(cb)
	var pr common.Uint256
	copy(pr[:], merkleRoot(cbh[:], s.parBr, s.parIdx))
	hdr := auxpow.BtcHeader{Version: 0x20000000, MerkleRoot: pr, Timestamp: 1600000000}
	return auxpow.NewAuxPow(append([]common.Uint256{}, s.branch...), idx, *cb, append([]common.Uint256{}, s.parBr...), s.parIdx, hdr)
}

func clone(ap *auxpow.AuxPow) *auxpow.AuxPow {
	buf := new(bytes.Buffer)
	if err := ap.Serialize(buf); err != nil {
		panic(err)
	}
	var c auxpow.AuxPow
	if err := c.Deserialize(bytes.NewReader(buf.Bytes())); err != nil {
		panic(err)
	}
	return &c
}

func main() {
	run := lib.ParseArgs()
	elaenv.InitLog(run.Out)
	rng := lib.NewRng(run.Seed)
	st := lib.NewStats("C10", "proofs from auxpow.GenerateAuxPow and constructed valid proofs (aux branch lengths 0..33, parent branch lengths 0..5, random nonce/chain id, 0..6 script prefix bytes, 0..5 suffix bytes, 1..2 coinbase inputs), then single-field mutations (block hash, aux branch element, aux index, branch length, nonce, size, chain id, marker byte, root byte, parent branch/index/root, coinbase script, no input, truncated tail), marker at every nibble offset 0..9, two markers (before/after/overlapping), root hex occurring early or apart from the marker; every nibble distance -1..+3 between marker and root for marker offsets 0..3 with boundary nibbles that keep the size/nonce parseable; object reuse (check, then in-place change of each coinbase/header/branch field, check, restore, check; Deserialize of a forged and of another valid proof into the used AuxPow / BtcTx; GenerateAuxPow script retargeted) with the coinbase hash given to the model and the oracle always recomputed from the serialization; GetExpectedIndex on boundary heights -1..33 and GetMerkleRoot on indexes incl. -1. nontrivial = the parent merkle check passed and a marker was found (the commitment logic ran); distinct by serialized proof+hash+chain id")
	sh := &lib.Shards{Dir: run.Out, Imports: "From ELA Require Import model.C10_AuxPow corr.C10_corr.", CaseType: "C10_corr.case",
		Mismatch: "C10_corr.mismatches", Scope: "Z", PerShard: 25}
	id := 0
	next := func() int { id++; return id }

	// observe one Check call; expectReject: a committed field of a valid proof was changed
	observe := func(ap *auxpow.AuxPow, hash common.Uint256, chainID int, kind string, expectReject bool) bool {
		var out bool
		p, v := lib.Recover(func() { out = ap.Check(&hash, chainID) })
		i := next()
		if p {
			st.Fail("auxpow.Check:panic", fmt.Sprintf("Check panicked: %v", v), map[string]interface{}{"kind": kind})
			out = false
		}
		sh.Add(fmt.Sprintf("CCheck %d %s %s %s %s", i, coqAP(ap), coqBytesN(hash[:]), lib.CoqZi(int64(chainID)), lib.CoqBool(out)))
		buf := new(bytes.Buffer)
		ap.Serialize(buf)
		var script []byte
		if len(ap.ParCoinbaseTx.TxIn) > 0 {
			script = ap.ParCoinbaseTx.TxIn[0].SignatureScript
		}
		in := map[string]interface{}{"kind": kind, "hash": fmt.Sprintf("%x", hash[:]), "chain_id": chainID, "aux_index": ap.AuxMerkleIndex,
			"aux_branch_len": len(ap.AuxMerkleBranch), "script": fmt.Sprintf("%x", script), "par_index": ap.ParMerkleIndex, "accepted": out}
		st.LogCase(run.Out, i, in)
		cb := cbHashOf(&ap.ParCoinbaseTx)
		ran := bytes.Equal(merkleRoot(cb[:], ap.ParCoinBaseMerkle, ap.ParMerkleIndex), ap.ParBlockHeader.MerkleRoot[:]) &&
			strings.Contains(fmt.Sprintf("%x", script), "fabe6d6d")
		kk := kind
		if out {
			kk += ":accepted"
		} else {
			kk += ":rejected"
		}
		st.Count(fmt.Sprintf("ck:%x:%x:%d", sha256d(buf.Bytes())[:8], hash[:8], chainID), ran, kk)
		// hashed sub-objects: their Hash() must be the hash of what they hold now
		if got, want := ap.ParCoinbaseTx.Hash(), cbHashOf(&ap.ParCoinbaseTx); got != want {
			st.Fail("auxpow.BtcTx.Hash:not-hash-of-current-value", "ParCoinbaseTx.Hash() differs from SHA-256d of its serialization (stale after reuse of the object)", in)
		}
		if got, want := ap.ParBlockHeader.Hash(), headerHashOf(&ap.ParBlockHeader); got != want {
			st.Fail("auxpow.BtcHeader.Hash:not-hash-of-current-value", "ParBlockHeader.Hash() differs from SHA-256d of its serialization (stale after reuse of the object)", in)
		}
		if out {
			ok, why := commits(ap, hash, chainID)
			if !ok {
				// the recorded finding is exactly: the statement holds on the HEX string
				// (one marker, root immediately after it, size/nonce where the code reads
				// them) with the marker at an odd nibble offset; anything else is new
				if countSub(script, marker) == 0 && commitsHex(ap, hash, chainID) {
					st.Fail(sigNibble, "accepted although the script bytes contain no merged-mining marker (hex match at an odd nibble offset)", in)
				} else {
					st.Fail("auxpow.Check:accepted-without-commitment", "accepted a proof that does not commit to this block: "+why, in)
				}
			}
			if expectReject {
				st.Fail("auxpow.Check:mutation-accepted", "a proof with a mutated committed field is still accepted", in)
			}
		}
		return out
	}

	// ---------------------------------------------------------------- corpus: the refuted statement's witness
	{
		// hex(script) = "0" fabe6d6d <root hex, last nibble 0> "1" 000000 | nonce ... : marker at nibble offset 1
		var hash common.Uint256
		for i := range hash {
			hash[i] = byte(0x10 + i)
		}
		hash[31] = 0xa0 // low nibble of the last hex digit pair is 0
		nib := "0" + "fabe6d6d" + fmt.Sprintf("%x", hash[:]) + "1" + "000000" + "00000000" + "0000"
		script := make([]byte, len(nib)/2)
		fmt.Sscanf(nib, "%x", &script)
		s := spec{hash: hash, chainID: auxpow.AuxPowChainID}
		ap := withScript(s, script, 0)
		acc := observe(ap, hash, auxpow.AuxPowChainID, "witness:odd-nibble-marker", false)
		cbh := cbHashOf(&ap.ParCoinbaseTx)
		st.Extra["refuted_witness"] = map[string]interface{}{"script": nib, "hash": fmt.Sprintf("%x", hash[:]), "cb_hash": lib.CoqBytes(cbh[:]), "accepted": acc}
	}

	// ---------------------------------------------------------------- GenerateAuxPow
	for k := 0; k < run.N(4, 200); k++ {
		h := randHash(rng)
		ap := auxpow.GenerateAuxPow(h)
		if !observe(ap, h, auxpow.AuxPowChainID, "generated", false) {
			st.Fail("auxpow.Check:valid-rejected", "a proof from GenerateAuxPow is rejected", map[string]interface{}{"hash": fmt.Sprintf("%x", h[:])})
		}
		h2 := h
		h2[rng.Intn(32)] ^= byte(1 << uint(rng.Intn(8)))
		observe(ap, h2, auxpow.AuxPowChainID, "generated:other-hash", true)
		observe(ap, h, rng.Intn(100000), "generated:other-chain", false) // height 0: every chain id maps to slot 0
	}

	// ---------------------------------------------------------------- constructed valid proofs and their mutations
	heights := []int{}
	for h := 0; h <= 33; h++ {
		heights = append(heights, h)
	}
	rounds := run.N(1, 40)
	for round := 0; round < rounds; round++ {
		for _, h := range heights {
			if !run.Thorough() && h > 6 && h < 30 && h%6 != 0 {
				continue
			}
			s := spec{hash: randHash(rng), chainID: int(rng.PickI64(1224, 0, 1, 6, 0x7fffffff, int64(rng.Intn(1<<20)))), nonce: uint32(rng.U64()),
				prefix: rng.Bytes(rng.Intn(7)), suffix: rng.Bytes(rng.Intn(6)), parIdx: 0, extraIns: rng.Intn(2)}
			for k := 0; k < h; k++ {
				s.branch = append(s.branch, randHash(rng))
			}
			np := rng.Intn(6)
			for k := 0; k < np; k++ {
				s.parBr = append(s.parBr, randHash(rng))
			}
			s.parIdx = rng.Intn(1 << uint(np))
			ap := build(s)
			acc := observe(ap, s.hash, s.chainID, fmt.Sprintf("valid:h=%d", h), false)
			if h < 32 && !acc {
				st.Fail("auxpow.Check:valid-rejected", "a proof satisfying the statement is rejected", map[string]interface{}{"height": h})
			}
			if h >= 32 {
				continue
			}
			nm := 14
			for m := 0; m < nm; m++ {
				c := clone(ap)
				hash, cid := s.hash, s.chainID
				kind := ""
				expect := true
				sc := c.ParCoinbaseTx.TxIn[0].SignatureScript
				k := len(s.prefix)
				fixParent := func() { // the parent header does not commit to anything the check verifies beyond the merkle root
					cbh := cbHashOf(&c.ParCoinbaseTx)
					copy(c.ParBlockHeader.MerkleRoot[:], merkleRoot(cbh[:], c.ParCoinBaseMerkle, c.ParMerkleIndex))
				}
				switch m {
				case 0:
					kind = "mut:block-hash"
					hash[rng.Intn(32)] ^= byte(1 << uint(rng.Intn(8)))
				case 1:
					kind = "mut:aux-branch-element"
					if h == 0 {
						continue
					}
					c.AuxMerkleBranch[rng.Intn(h)][rng.Intn(32)] ^= 0x40
				case 2:
					kind = "mut:aux-index"
					c.AuxMerkleIndex ^= 1 << uint(rng.Intn(h+1))
				case 3:
					kind = "mut:aux-branch-length"
					if h == 0 || rng.Bool() {
						c.AuxMerkleBranch = append(c.AuxMerkleBranch, randHash(rng))
					} else {
						c.AuxMerkleBranch = c.AuxMerkleBranch[:h-1]
					}
				case 4:
					kind = "mut:nonce(parent-recomputed)"
					n2 := uint32(rng.U64())
					copy(sc[k+40:], le32(n2))
					fixParent()
					expect = expectedIndex(n2, cid, h) != c.AuxMerkleIndex
				case 5:
					kind = "mut:chain-id"
					cid = cid + 1 + rng.Intn(1000)
					expect = expectedIndex(s.nonce, cid, h) != c.AuxMerkleIndex
				case 6:
					kind = "mut:size(parent-recomputed)"
					copy(sc[k+36:], le32(uint32(1)<<uint((h+1+rng.Intn(30))%32)))
					fixParent()
				case 7:
					kind = "mut:marker-byte(parent-recomputed)"
					sc[k+rng.Intn(4)] ^= byte(1 << uint(rng.Intn(8)))
					fixParent()
				case 8:
					kind = "mut:root-byte(parent-recomputed)"
					sc[k+4+rng.Intn(32)] ^= byte(1 << uint(rng.Intn(8)))
					fixParent()
				case 9:
					kind = "mut:coinbase-script-only"
					sc[rng.Intn(len(sc))] ^= 0x04
				case 10:
					kind = "mut:parent-root"
					c.ParBlockHeader.MerkleRoot[rng.Intn(32)] ^= 0x02
				case 11:
					kind = "mut:parent-branch-or-index"
					if len(c.ParCoinBaseMerkle) == 0 {
						c.ParCoinBaseMerkle = append(c.ParCoinBaseMerkle, randHash(rng))
					} else if rng.Bool() {
						c.ParMerkleIndex ^= 1 << uint(rng.Intn(len(c.ParCoinBaseMerkle)))
					} else {
						c.ParCoinBaseMerkle[0][3] ^= 0x10
					}
				case 12:
					kind = "mut:no-coinbase-input(parent-recomputed)"
					c.ParCoinbaseTx.TxIn = nil
					fixParent()
				case 13:
					kind = "mut:truncated-tail(parent-recomputed)"
					cut := 1 + rng.Intn(8+len(s.suffix))
					if cut > len(s.suffix)+8 {
						cut = len(s.suffix) + 8
					}
					if cut <= len(s.suffix) {
						continue
					}
					c.ParCoinbaseTx.TxIn[0].SignatureScript = sc[:len(sc)-cut]
					fixParent()
				}
				if !run.Thorough() && h > 3 && m%3 != round%3 && m > 5 {
					continue
				}
				observe(c, hash, cid, kind, expect)
			}
		}
	}

	// ---------------------------------------------------------------- marker at every nibble offset, two markers, early root
	for round := 0; round < run.N(2, 60); round++ {
		for off := 0; off <= 9; off++ {
			hash := randHash(rng)
			if off%2 == 1 && rng.Chance(70) {
				hash[31] &= 0xf0 // makes the misaligned size field readable as 1 when followed by nibble 1
			}
			pre := ""
			for k := 0; k < off; k++ {
				pre += fmt.Sprintf("%x", rng.Intn(16))
			}
			tail := "01000000" + fmt.Sprintf("%x", le32(uint32(rng.U64())))
			if off%2 == 1 {
				tail = "1" + "000000" + fmt.Sprintf("%x", le32(uint32(rng.U64()))) + "0000"
			}
			nib := pre + "fabe6d6d" + fmt.Sprintf("%x", hash[:]) + tail
			if len(nib)%2 == 1 {
				nib += "0"
			}
			if strings.Count(nib, "fabe6d6d") != 1 {
				continue
			}
			script := make([]byte, len(nib)/2)
			fmt.Sscanf(nib, "%x", &script)
			ap := withScript(spec{hash: hash}, script, 0)
			observe(ap, hash, 1224, fmt.Sprintf("nibble-offset=%d", off), false)
		}
		// two markers
		for variant := 0; variant < 6; variant++ {
			s := spec{hash: randHash(rng), chainID: 1224, nonce: uint32(rng.U64())}
			switch variant {
			case 0:
				s.suffix = append(rng.Bytes(rng.Intn(3)), marker...)
			case 1:
				s.prefix = append(append([]byte{}, marker...), rng.Bytes(rng.Intn(3))...)
			case 2:
				s.prefix = append([]byte{}, marker...)
			case 3:
				s.suffix = append([]byte{}, marker...)
			case 4: // second marker only visible at an odd nibble offset
				s.suffix = []byte{0x0f, 0xab, 0xe6, 0xd6, 0xd0}
			case 5: // first marker misaligned, second aligned
				s.prefix = []byte{0x0f, 0xab, 0xe6, 0xd6, 0xd0}
			}
			ap := build(s)
			observe(ap, s.hash, s.chainID, fmt.Sprintf("two-markers:%d", variant), false)
		}
		// every nibble distance between the end of the marker and the start of the root: -1 (the root
		// overlaps the marker's last nibble, so it starts with d), 0 (adjacent), +1..+3 stray nibbles; both
		// marker parities; boundary nibbles chosen so that the size/nonce bytes still parse wherever a
		// reader that lost the parity would look (root ending in nibble 0 followed by "1000000" when it
		// ends on an odd nibble)
		for prelen := 0; prelen <= 3; prelen++ {
			for gap := -1; gap <= 3; gap++ {
				hash := randHash(rng)
				if gap == -1 {
					hash[0] = 0xd0 | hash[0]&0x0f
				}
				pre := ""
				for k := 0; k < prelen; k++ {
					pre += fmt.Sprintf("%x", rng.Intn(16))
				}
				mk := "fabe6d6d"
				stray := ""
				if gap < 0 {
					mk = mk[:8+gap]
				}
				for k := 0; k < gap; k++ {
					stray += fmt.Sprintf("%x", 1+rng.Intn(9))
				}
				end := prelen + len(mk) + len(stray) + 64
				nonce := fmt.Sprintf("%x", le32(uint32(rng.U64())))
				tail := "01000000" + nonce
				if end%2 == 1 {
					hash[31] &= 0xf0
					tail = "1" + "000000" + nonce + "0000"
				}
				nib := pre + mk + stray + fmt.Sprintf("%x", hash[:]) + tail
				if len(nib)%2 == 1 {
					nib += "0"
				}
				if strings.Count(nib, "fabe6d6d") != 1 {
					continue
				}
				script := make([]byte, len(nib)/2)
				fmt.Sscanf(nib, "%x", &script)
				acc := observe(withScript(spec{hash: hash}, script, 0), hash, 1224, fmt.Sprintf("marker@%d:root-distance=%d", prelen, gap), false)
				if gap == 0 && prelen%2 == 0 && !acc {
					st.Fail("auxpow.Check:valid-rejected", "an aligned marker immediately followed by the root is rejected", map[string]interface{}{"script": nib})
				}
			}
		}
		// marker and root both present but not adjacent (gap), or the root with its size/nonce first and the marker later
		for gap := 1; gap <= 3; gap++ {
			hash := randHash(rng)
			root := merkleRoot(rev(hash[:]), nil, 0)
			var sc []byte
			sc = append(sc, rng.Bytes(rng.Intn(3))...)
			sc = append(sc, marker...)
			sc = append(sc, rng.Bytes(gap)...)
			sc = append(sc, rev(root)...)
			sc = append(sc, le32(1)...)
			sc = append(sc, le32(uint32(rng.U64()))...)
			observe(withScript(spec{hash: hash}, sc, 0), hash, 1224, "marker-gap-root", false)
			var sc2 []byte
			sc2 = append(sc2, rev(root)...)
			sc2 = append(sc2, le32(1)...)
			sc2 = append(sc2, le32(uint32(rng.U64()))...)
			sc2 = append(sc2, rng.Bytes(gap)...)
			sc2 = append(sc2, marker...)
			sc2 = append(sc2, rng.Bytes(8)...)
			observe(withScript(spec{hash: hash}, sc2, 0), hash, 1224, "root-then-marker", false)
		}
		// the root's hex occurs before the marker
		{
			s := spec{hash: randHash(rng), chainID: 1224, nonce: 7}
			root := merkleRoot(rev(s.hash[:]), nil, 0)
			s.prefix = rev(root)
			observe(build(s), s.hash, s.chainID, "root-before-marker", false)
		}
	}

	// ---------------------------------------------------------------- object reuse: check, change the SAME object, check again
	// (the model is evaluated on the final value each time; a hash or verdict
	// remembered inside the object from the earlier use would disagree)
	for round := 0; round < run.N(3, 80); round++ {
		h := rng.Intn(4)
		s := spec{hash: randHash(rng), chainID: 1224, nonce: uint32(rng.U64()), prefix: rng.Bytes(rng.Intn(4)), suffix: rng.Bytes(1 + rng.Intn(4)), extraIns: rng.Intn(2)}
		for k := 0; k < h; k++ {
			s.branch = append(s.branch, randHash(rng))
		}
		np := rng.Intn(3)
		for k := 0; k < np; k++ {
			s.parBr = append(s.parBr, randHash(rng))
		}
		s.parIdx = rng.Intn(1 << uint(np))
		ap := build(s)
		if round%2 == 1 { // also as a decoded object
			ap = clone(ap)
		}
		if !observe(ap, s.hash, s.chainID, "reuse:first-check", false) {
			st.Fail("auxpow.Check:valid-rejected", "a proof satisfying the statement is rejected", map[string]interface{}{"height": h})
		}
		cb := &ap.ParCoinbaseTx
		type edit struct {
			name        string
			do, undo    func()
			stillCommit bool // the edit does not touch what the check reads (accept stays correct)
		}
		sc := cb.TxIn[0].SignatureScript
		var savedRoot common.Uint256
		edits := []edit{
			{"coinbase.LockTime", func() { cb.LockTime++ }, func() { cb.LockTime-- }, false},
			{"coinbase.Version", func() { cb.Version ^= 2 }, func() { cb.Version ^= 2 }, false},
			{"coinbase.TxIn[0].Sequence", func() { cb.TxIn[0].Sequence ^= 0x80 }, func() { cb.TxIn[0].Sequence ^= 0x80 }, false},
			{"coinbase.TxIn[0].PreviousOutPoint.Index", func() { cb.TxIn[0].PreviousOutPoint.Index-- }, func() { cb.TxIn[0].PreviousOutPoint.Index++ }, false},
			{"coinbase.TxOut[0].Value", func() { cb.TxOut[0].Value++ }, func() { cb.TxOut[0].Value-- }, false},
			{"coinbase.TxOut[0].PkScript", func() { cb.TxOut[0].PkScript[0] ^= 1 }, func() { cb.TxOut[0].PkScript[0] ^= 1 }, false},
			{"coinbase.script-tail", func() { sc[len(sc)-1] ^= 0x10 }, func() { sc[len(sc)-1] ^= 0x10 }, false},
			{"coinbase.script-root-byte", func() { sc[len(s.prefix)+4+7] ^= 0x01 }, func() { sc[len(s.prefix)+4+7] ^= 0x01 }, false},
			{"coinbase.TxOut-appended", func() { cb.TxOut = append(cb.TxOut, &auxpow.BtcTxOut{Value: 1, PkScript: []byte{0x52}}) }, func() { cb.TxOut = cb.TxOut[:len(cb.TxOut)-1] }, false},
			{"header.MerkleRoot", func() { savedRoot = ap.ParBlockHeader.MerkleRoot; ap.ParBlockHeader.MerkleRoot[5] ^= 0x20 }, func() { ap.ParBlockHeader.MerkleRoot = savedRoot }, false},
			{"header.Nonce", func() { ap.ParBlockHeader.Nonce += 12345 }, func() { ap.ParBlockHeader.Nonce -= 12345 }, true},
			{"header.Timestamp", func() { ap.ParBlockHeader.Timestamp++ }, func() { ap.ParBlockHeader.Timestamp-- }, true},
			{"aux.Index", func() { ap.AuxMerkleIndex ^= 1 }, func() { ap.AuxMerkleIndex ^= 1 }, false},
		}
		if h > 0 {
			edits = append(edits, edit{"aux.Branch[0]", func() { ap.AuxMerkleBranch[0][9] ^= 4 }, func() { ap.AuxMerkleBranch[0][9] ^= 4 }, false})
		}
		if np > 0 {
			edits = append(edits, edit{"parent.Branch[0]", func() { ap.ParCoinBaseMerkle[0][1] ^= 8 }, func() { ap.ParCoinBaseMerkle[0][1] ^= 8 }, false})
		}
		for ei, e := range edits {
			if !run.Thorough() && (ei+round)%2 == 1 && ei > 8 {
				continue
			}
			e.do()
			observe(ap, s.hash, s.chainID, "reuse:in-place:"+e.name, !e.stillCommit)
			e.undo()
			if !observe(ap, s.hash, s.chainID, "reuse:restored:"+e.name, false) {
				st.Fail("auxpow.Check:valid-rejected", "a valid proof is rejected after a field was changed and restored on the same object", map[string]interface{}{"field": e.name})
			}
		}
		// decode other proofs into the used object
		s2 := spec{hash: randHash(rng), chainID: 1224, nonce: uint32(rng.U64()), prefix: rng.Bytes(rng.Intn(3)), suffix: rng.Bytes(2)}
		for k := 0; k < rng.Intn(3); k++ {
			s2.branch = append(s2.branch, randHash(rng))
		}
		other := build(s2)
		forged := clone(other) // coinbase committing to block 2 under the parent header (merkle root) of proof 1
		forged.ParBlockHeader = ap.ParBlockHeader
		forged.ParCoinBaseMerkle = append([]common.Uint256{}, ap.ParCoinBaseMerkle...)
		forged.ParMerkleIndex = ap.ParMerkleIndex
		into := func(dst, src *auxpow.AuxPow) {
			buf := new(bytes.Buffer)
			if err := src.Serialize(buf); err != nil {
				panic(err)
			}
			if err := dst.Deserialize(bytes.NewReader(buf.Bytes())); err != nil {
				panic(err)
			}
		}
		into(ap, forged)
		observe(ap, s2.hash, s2.chainID, "reuse:redecoded:forged(coinbase of block 2, parent header of block 1)", true)
		observe(ap, s.hash, s.chainID, "reuse:redecoded:forged:first-block", true)
		into(ap, other)
		if !observe(ap, s2.hash, s2.chainID, "reuse:redecoded:valid-other", false) {
			st.Fail("auxpow.Check:valid-rejected", "a valid proof decoded into a previously used AuxPow is rejected", map[string]interface{}{"height": len(s2.branch)})
		}
		observe(ap, s.hash, s.chainID, "reuse:redecoded:valid-other:first-block", true)
		// only the coinbase re-decoded into the used BtcTx
		{
			buf := new(bytes.Buffer)
			forged.ParCoinbaseTx.Serialize(buf)
			hdrKeep := ap.ParBlockHeader
			first := build(s)
			first.Check(&s.hash, s.chainID)
			if err := first.ParCoinbaseTx.Deserialize(bytes.NewReader(buf.Bytes())); err != nil {
				panic(err)
			}
			_ = hdrKeep
			observe(first, s2.hash, s2.chainID, "reuse:coinbase-redecoded-in-place", true)
		}
	}
	// GenerateAuxPow hashes the coinbase when it builds the header: retarget its script to another block
	for k := 0; k < run.N(3, 100); k++ {
		h1, h2 := randHash(rng), randHash(rng)
		ap := auxpow.GenerateAuxPow(h1)
		copy(ap.ParCoinbaseTx.TxIn[0].SignatureScript[4:36], h2[:])
		observe(ap, h2, auxpow.AuxPowChainID, "reuse:generated:script-retargeted", true)
		observe(ap, h1, auxpow.AuxPowChainID, "reuse:generated:script-retargeted:first-block", true)
	}

	// ---------------------------------------------------------------- GetExpectedIndex / GetMerkleRoot
	for k := 0; k < run.N(80, 4000); k++ {
		nonce := uint32(rng.PickU64(0, 1, 0xffffffff, rng.U64(), rng.U64()))
		cid := int(rng.PickI64(1224, 0, -1, 1<<31, 1<<32+5, int64(rng.Intn(1<<16))))
		h := int(rng.PickI64(-1, 0, 1, 2, 31, 32, 33, int64(rng.Intn(34))))
		var out int
		p, v := lib.Recover(func() { out = auxpow.GetExpectedIndex(nonce, cid, h) })
		if p {
			st.Fail("auxpow.GetExpectedIndex:panic", fmt.Sprintf("panic: %v", v), map[string]interface{}{"nonce": nonce, "chain_id": cid, "h": h})
			continue
		}
		i := next()
		sh.Add(fmt.Sprintf("CIndex %d %d %s %s %s", i, nonce, lib.CoqZi(int64(cid)), lib.CoqZi(int64(h)), lib.CoqZi(int64(out))))
		st.LogCase(run.Out, i, map[string]interface{}{"op": "GetExpectedIndex", "nonce": nonce, "chain_id": cid, "h": h, "out": out})
		st.Count(fmt.Sprintf("ix:%d:%d:%d", nonce, cid, h), h >= 0 && h < 32, "GetExpectedIndex")
		if out != expectedIndex(nonce, cid, h) {
			st.Fail("auxpow.GetExpectedIndex:value", "slot differs from the reference LCG", map[string]interface{}{"nonce": nonce, "chain_id": cid, "h": h, "out": out})
		}
	}
	for k := 0; k < run.N(12, 600); k++ {
		h := randHash(rng)
		n := rng.Intn(5)
		var br []common.Uint256
		for j := 0; j < n; j++ {
			br = append(br, randHash(rng))
		}
		idx := int(rng.PickI64(-1, 0, 1, 2, 5, -2, 1<<31, int64(rng.Intn(64))))
		out := auxpow.GetMerkleRoot(h, br, idx)
		i := next()
		sh.Add(fmt.Sprintf("CRoot %d %s %s %s %s", i, coqBytesN(h[:]), coqHashes(br), lib.CoqZi(int64(idx)), coqBytesN(out[:])))
		st.LogCase(run.Out, i, map[string]interface{}{"op": "GetMerkleRoot", "branch_len": n, "index": idx})
		st.Count(fmt.Sprintf("mr:%x:%d:%d", h[:6], n, idx), n > 0 && idx != -1, "GetMerkleRoot")
		if !bytes.Equal(out[:], merkleRoot(h[:], br, idx)) {
			st.Fail("auxpow.GetMerkleRoot:value", "root differs from the reference computation", map[string]interface{}{"index": idx, "branch_len": n})
		}
	}

	st.Traces = st.Evals
	sh.Flush()
	st.Write(run.Out)
}
