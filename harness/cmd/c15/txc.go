package main

import (
	"fmt"
	"sort"
	"strings"

	"github.com/elastos/Elastos.ELA/blockchain/indexers"
	elacommon "github.com/elastos/Elastos.ELA/common"
	"github.com/elastos/Elastos.ELA/common/config"
	common2 "github.com/elastos/Elastos.ELA/core/types/common"
	"github.com/elastos/Elastos.ELA/core/types/interfaces"
)

// unit traces on indexers.TxCache through the verif wrappers of
// setTxn/deleteTxn/trim.

type txcUnit struct {
	c    *indexers.TxCache
	ids  map[elacommon.Uint256]int
	txs  map[int]interfaces.Transaction
	big  map[int]interfaces.Transaction // same ids, but with 101 inputs (not cacheable)
	vol  uint32
	memf bool
}

func (u *txcUnit) tx(id int, cacheable bool) interfaces.Transaction {
	m := u.txs
	if !cacheable {
		m = u.big
	}
	if t, ok := m[id]; ok {
		return t
	}
	n := 1
	if !cacheable {
		n = indexers.MaxCacheInputsCountPerTransaction + 1
	}
	ins := make([]*common2.Input, n)
	for i := range ins {
		ins[i] = &common2.Input{Previous: common2.OutPoint{Index: uint16(i)}, Sequence: uint32(id)}
	}
	t := mkTx(common2.TransferAsset, ins, []int64{1}, uint32(id))
	m[id] = t
	u.ids[t.Hash()] = id
	return t
}

func (u *txcUnit) content() map[int]int {
	res := map[int]int{}
	for h, height := range u.c.KeysVerif() {
		res[u.ids[h]] = int(height)
	}
	return res
}

func contentTerm(m map[int]int, full bool) string {
	if !full {
		return fmt.Sprintf("(%d, None)", len(m))
	}
	ks := make([]int, 0, len(m))
	for k := range m {
		ks = append(ks, k)
	}
	sort.Ints(ks)
	items := make([]string, len(ks))
	for i, k := range ks {
		items[i] = fmt.Sprintf("(%d, %d)", k, m[k])
	}
	return fmt.Sprintf("(%d, Some %s)", len(m), coqList(items))
}

func vanished(before, after map[int]int) []int {
	var v []int
	for k := range before {
		if _, ok := after[k]; !ok {
			v = append(v, k)
		}
	}
	sort.Ints(v)
	return v
}

func runTxCacheUnit(e *env) {
	type cfg struct {
		vol   uint32
		memf  bool
		fill  int // entries inserted by one range op first (0 = none)
		nops  int
		label string
	}
	var cfgs []cfg
	// uint32 wrap of TxCacheVolume + TrimmingInterval: trigger = k
	for k := uint32(0); k <= 4; k++ {
		cfgs = append(cfgs, cfg{vol: uint32(1<<32 - indexers.TrimmingInterval + uint64(k)), nops: 30, label: "wrap"})
	}
	cfgs = append(cfgs, cfg{vol: 3, memf: true, nops: 12, label: "memoryfirst"})
	cfgs = append(cfgs, cfg{vol: 5, nops: 25, label: "small"})
	// the real trigger: volume + 10000 entries
	bigs := []uint32{3}
	if e.run.Thorough() {
		bigs = []uint32{0, 1, 2, 7, 50}
	}
	for _, v := range bigs {
		cfgs = append(cfgs, cfg{vol: v, fill: indexers.TrimmingInterval + int(v) + 1 + e.rng.Intn(4), nops: 6, label: "fill"})
		if e.run.Thorough() {
			cfgs = append(cfgs, cfg{vol: v, fill: indexers.TrimmingInterval + int(v), nops: 4, label: "fill-below"})
		}
	}
	for rep := 0; rep < e.run.N(3, 40); rep++ {
		for _, cf := range cfgs {
			if cf.fill > 0 && (rep > 1 || (rep > 0 && !e.run.Thorough())) {
				continue // the 10000-entry traces cost ~10 s each in Coq
			}
			u := &txcUnit{ids: map[elacommon.Uint256]int{}, txs: map[int]interfaces.Transaction{}, big: map[int]interfaces.Transaction{}, vol: cf.vol, memf: cf.memf}
			u.c = indexers.NewTxCache(&config.Configuration{TxCacheVolume: cf.vol, MemoryFirst: cf.memf})
			var steps, trace []string
			nontrivial := false
			keyspace := 9
			if cf.fill > 0 {
				for i := 1; i <= cf.fill; i++ {
					u.c.SetTxnVerif(7, u.tx(100+i, true))
				}
				steps = append(steps, fmt.Sprintf("(TSetRange 7 101 %d, TUnit, %s)", cf.fill, contentTerm(u.content(), false)))
				trace = append(trace, fmt.Sprintf("set 101..%d", 100+cf.fill))
			}
			for k := 0; k < cf.nops; k++ {
				before := u.content()
				var opT string
				switch r := e.rng.Intn(100); {
				case r < 50 && !(cf.fill > 0 && k == 0):
					id, h := 1+e.rng.Intn(keyspace), 1+e.rng.Intn(5)
					cb := !e.rng.Chance(15)
					u.c.SetTxnVerif(uint32(h), u.tx(id, cb))
					opT = fmt.Sprintf("TSet %d %d %v", h, id, cb)
					trace = append(trace, fmt.Sprintf("set %d@%d cacheable=%v", id, h, cb))
				case r < 65 && !(cf.fill > 0 && k == 0):
					id := 1 + e.rng.Intn(keyspace)
					u.c.DeleteTxnVerif(u.tx(id, true).Hash())
					opT = fmt.Sprintf("TDel %d", id)
					trace = append(trace, fmt.Sprintf("del %d", id))
				default:
					u.c.TrimVerif()
					after := u.content()
					v := vanished(before, after)
					if len(v) > 0 {
						nontrivial = true
					}
					opT = fmt.Sprintf("TTrim %s", coqNs(v))
					trace = append(trace, fmt.Sprintf("trim(-%d)", len(v)))
					// bound: a trim leaves at most max(volume+interval, ...) entries; with a sane
					// configuration (no uint32 wrap) at most volume + TrimmingInterval
					if uint64(cf.vol)+indexers.TrimmingInterval < 1<<32 && !cf.memf && len(after) > int(cf.vol)+indexers.TrimmingInterval {
						e.st.Fail("TxCache:bound", "TxCache above TxCacheVolume+TrimmingInterval after trim",
							map[string]interface{}{"volume": cf.vol, "len": len(after), "trace": trace})
					}
				}
				after := u.content()
				steps = append(steps, fmt.Sprintf("(%s, TUnit, %s)", opT, contentTerm(after, len(after) <= 40)))
			}
			id := e.next()
			e.sh.Add(fmt.Sprintf("CTxc %d %d %d %v %s", id, cf.vol, indexers.TrimmingInterval, cf.memf, coqList(steps)))
			e.st.LogCase(e.run.Out, id, map[string]interface{}{"cache": "TxCache", "kind": "unit-" + cf.label, "volume": cf.vol, "memoryFirst": cf.memf, "trace": trace})
			e.st.Count(fmt.Sprintf("t:%d:%v:%s", cf.vol, cf.memf, strings.Join(trace, ";")), nontrivial, "txcache:unit-"+cf.label)
			if rep == 0 && cf.label == "fill" {
				e.st.Sample(map[string]interface{}{"cache": "TxCache", "kind": "unit-fill", "volume": cf.vol, "trace": trace})
			}
		}
	}
}
