package main

// End-to-end reorganisation histories on the real node core
// (harness/fixture: BlockChain.ProcessBlock, ChainStore, indexers, mempool and
// the netsync-like event handlers).  No model correspondence here; the
// property oracle runs after every ProcessBlock AND inside every
// connect/disconnect notification (where the node's own handlers look up
// references): for every transaction and outpoint the history knows,
//   BlockChain.UTXOCache.GetTxReference / GetTransaction  vs  a fresh UTXOCache over the same store,
//   FFLDB.GetTransaction (TxCache)                         vs  an UnspentIndex with an empty cache over the same database,
//   FFLDB.GetBlock                                         vs  the raw stored bytes.
// Blocks are coinbase-only or carry transfers (preferably spending the miner
// reward of the parent), so reorganisations detach every mix of the two.

import (
	"bytes"
	"fmt"

	"github.com/elastos/Elastos.ELA/blockchain"
	"github.com/elastos/Elastos.ELA/blockchain/indexers"
	elacommon "github.com/elastos/Elastos.ELA/common"
	"github.com/elastos/Elastos.ELA/common/config"
	"github.com/elastos/Elastos.ELA/core/types"
	common2 "github.com/elastos/Elastos.ELA/core/types/common"
	"github.com/elastos/Elastos.ELA/core/types/interfaces"
	"github.com/elastos/Elastos.ELA/database"
	"github.com/elastos/Elastos.ELA/events"

	"verifharness/fixture"
)

type coin struct {
	op    common2.OutPoint
	key   int
	value elacommon.Fixed64
	from  uint32 // first block height that may spend it (coinbase maturity 1: two blocks later)
}

type reorgWorld struct {
	e       *env
	f       *fixture.Fixture
	uncache *indexers.UnspentIndex
	coins   map[elacommon.Uint256][]coin // spendable outputs after the block
	probes  []interfaces.Transaction     // transactions whose references are looked up
	probeID map[elacommon.Uint256]bool
	txids   []elacommon.Uint256
	blocks  []*types.Block
	names   map[elacommon.Uint256]string
	trace   []string
	tag     uint64
	failed  map[string]bool
	reorgs  int
	checks  int
}

var curReorg *reorgWorld
var reorgSubscribed bool

func (w *reorgWorld) addProbe(tx interfaces.Transaction) {
	if !w.probeID[tx.Hash()] {
		w.probeID[tx.Hash()] = true
		w.probes = append(w.probes, tx)
	}
}

func (w *reorgWorld) fail(sig, what, at string) {
	if w.failed[sig] {
		return
	}
	w.failed[sig] = true
	w.e.st.Fail(sig, what, map[string]interface{}{"at": at, "history": append([]string{}, w.trace...)})
}

func outputsEqual(a, b common2.Output) bool {
	return a.AssetID == b.AssetID && a.Value == b.Value && a.OutputLock == b.OutputLock &&
		a.ProgramHash == b.ProgramHash && a.Type == b.Type
}

// probeAll compares every cached lookup with the uncached one, now.
func (w *reorgWorld) probeAll(at string) {
	f := w.f
	w.checks++
	for _, tx := range w.probes {
		got, gerr := f.Chain.UTXOCache.GetTxReference(tx)
		fresh := blockchain.NewUTXOCache(f.Store, &config.Configuration{})
		want, werr := fresh.GetTxReference(tx)
		bad := (gerr == nil) != (werr == nil)
		if !bad && gerr == nil {
			for _, in := range tx.Inputs() {
				if !outputsEqual(got[in], want[in]) {
					bad = true
				}
			}
		}
		if bad {
			w.fail("UTXOCache:reorg-stale-reference",
				fmt.Sprintf("BlockChain.UTXOCache.GetTxReference differs from a fresh cache over the same store (cached err=%v, uncached err=%v) for a transaction spending %s", gerr, werr, w.describeInputs(tx)), at)
		}
	}
	for _, id := range w.txids {
		_, gerr := f.Chain.UTXOCache.GetTransaction(id)
		_, _, werr := f.Store.GetTransaction(id)
		if (gerr == nil) != (werr == nil) {
			w.fail("UTXOCache:reorg-stale-reference", fmt.Sprintf("BlockChain.UTXOCache.GetTransaction differs from the store (cached err=%v, store err=%v)", gerr, werr), at)
		}
		ctx, ch, cerr := f.FFLDB.GetTransaction(id)
		utx, uh, uerr := w.uncache.FetchTx(id)
		bad := (cerr == nil) != (uerr == nil)
		if !bad && cerr == nil {
			bad = ch != uh || ctx.Hash() != utx.Hash()
		}
		if bad {
			w.fail("TxCache:FetchTx", fmt.Sprintf("UnspentIndex.FetchTx answers differently with and without the TxCache (cached height %d err=%v, uncached height %d err=%v)", ch, cerr, uh, uerr), at)
		}
	}
	for _, b := range w.blocks {
		h := b.Hash()
		blk, err := f.FFLDB.GetBlock(h)
		var raw []byte
		f.FFLDB.View(func(dbTx database.Tx) error {
			if r, e := dbTx.FetchBlock(&h); e == nil {
				raw = append([]byte{}, r...)
			}
			return nil
		})
		bad := (err == nil) != (raw != nil)
		if !bad && err == nil {
			buf := new(bytes.Buffer)
			blk.Serialize(buf)
			bad = !bytes.Equal(buf.Bytes(), raw)
		}
		if bad {
			w.fail("GetBlock:lookup", "ChainStoreFFLDB.GetBlock returns a block different from the stored bytes", at)
		}
	}
}

func (w *reorgWorld) describeInputs(tx interfaces.Transaction) string {
	s := ""
	for _, in := range tx.Inputs() {
		s += fmt.Sprintf("[%x.. :%d]", in.Previous.TxID[:4], in.Previous.Index)
	}
	return s
}

func reorgOnEvent(ev *events.Event) {
	w := curReorg
	if w == nil {
		return
	}
	b, ok := ev.Data.(*types.Block)
	if !ok {
		return
	}
	switch ev.Type {
	case events.ETBlockDisconnected:
		w.reorgs++
		w.trace = append(w.trace, "  event disconnected "+w.names[b.Hash()])
		w.probeAll("in the disconnect event of " + w.names[b.Hash()])
	case events.ETBlockConnected:
		w.trace = append(w.trace, "  event connected "+w.names[b.Hash()])
		w.probeAll("in the connect event of " + w.names[b.Hash()])
	}
}

// build a block on parent: coinbase only, or with transfers
func (w *reorgWorld) build(parent *types.Block, name string, coinbaseOnly bool, salt uint64) *types.Block {
	rng := w.e.rng
	avail := append([]coin{}, w.coins[parent.Hash()]...)
	height := parent.Height + 1
	var txs []interfaces.Transaction
	var created []coin
	desc := "coinbase only"
	if !coinbaseOnly {
		n := 1 + rng.Intn(2)
		desc = ""
		for k := 0; k < n; k++ {
			// prefer the newest spendable coin (the latest mature miner reward)
			var idx []int
			for i, c := range avail {
				if c.from <= height && c.value > 1000 {
					idx = append(idx, i)
				}
			}
			if len(idx) == 0 {
				break
			}
			i := idx[len(idx)-1]
			if rng.Chance(35) {
				i = idx[rng.Intn(len(idx))]
			}
			c := avail[i]
			avail = append(avail[:i], avail[i+1:]...)
			w.tag++
			to := rng.Intn(fixture.NKeys)
			tx, err := w.f.Transfer([]fixture.In{{Op: c.op, Key: c.key}}, []fixture.Out{{Key: to, Value: c.value - 100}}, 7700000+w.tag)
			if err != nil {
				panic(err)
			}
			txs = append(txs, tx)
			created = append(created, coin{common2.OutPoint{TxID: tx.Hash(), Index: 0}, to, c.value - 100, height + 1})
			desc += fmt.Sprintf("tx spending %x..:%d ", c.op.TxID[:4], c.op.Index)
			w.addProbe(tx)
			w.txids = append(w.txids, tx.Hash())
		}
		if len(txs) == 0 {
			desc = "coinbase only"
		}
	}
	avail = append(avail, created...)
	miner := 1 + rng.Intn(fixture.NKeys-1)
	b, err := w.f.BuildBlock(parent, txs, fixture.BlockOpt{Miner: miner, Salt: salt})
	if err != nil {
		panic(err)
	}
	cb := b.Transactions[0]
	avail = append(avail, coin{common2.OutPoint{TxID: cb.Hash(), Index: 1}, miner, cb.Outputs()[1].Value, b.Height + 2})
	w.coins[b.Hash()] = avail
	w.blocks = append(w.blocks, b)
	w.names[b.Hash()] = name
	w.txids = append(w.txids, cb.Hash())
	// synthetic spenders of the coinbase outputs (what a wallet / the pool would submit next)
	for idx := 0; idx < 2; idx++ {
		w.addProbe(mkTx(common2.TransferAsset, []*common2.Input{{Previous: common2.OutPoint{TxID: cb.Hash(), Index: uint16(idx)}}}, []int64{1}, uint32(len(w.probes))))
	}
	w.trace = append(w.trace, fmt.Sprintf("build %s on %s height %d: %s", name, w.names[parent.Hash()], b.Height, desc))
	return b
}

func (w *reorgWorld) process(b *types.Block) bool {
	w.trace = append(w.trace, "ProcessBlock "+w.names[b.Hash()])
	_, _, err := w.f.ProcessBlock(b)
	if err != nil {
		w.trace = append(w.trace, "  rejected: "+err.Error())
		return false
	}
	w.probeAll("after ProcessBlock " + w.names[b.Hash()])
	return true
}

func runReorg(e *env) {
	if !reorgSubscribed {
		events.Subscribe(reorgOnEvent)
		reorgSubscribed = true
	}
	totalReorgs, rejected := 0, 0
	n := e.run.N(6, 80)
	for i := 0; i < n; i++ {
		f, err := fixture.New(fixture.Options{})
		if err != nil {
			panic(err)
		}
		w := &reorgWorld{e: e, f: f, coins: map[elacommon.Uint256][]coin{}, probeID: map[elacommon.Uint256]bool{},
			names: map[elacommon.Uint256]string{}, failed: map[string]bool{}}
		w.uncache = indexers.NewUnspentIndex(f.FFLDB, &config.Configuration{MemoryFirst: true})
		g := f.Genesis
		w.names[g.Hash()] = "genesis"
		w.coins[g.Hash()] = []coin{{f.GenesisOut, 0, g.Transactions[0].Outputs()[0].Value, 2}}
		w.blocks = append(w.blocks, g)
		curReorg = w
		ok := true
		// main branch A
		nA := 2 + e.rng.Intn(3)
		if i == 0 {
			nA = 3
		}
		chainA := []*types.Block{g}
		// the first history of a run is the fixed corpus shape: every detached
		// block below the tip is coinbase-only, the tip spends the reward of its parent
		for k := 1; k <= nA && ok; k++ {
			only := e.rng.Chance(50)
			if i == 0 {
				only = k < nA
			}
			b := w.build(chainA[k-1], fmt.Sprintf("A%d", k), only, uint64(1000*i+k))
			ok = w.process(b)
			chainA = append(chainA, b)
		}
		// fork B below the tip, one block longer than what it replaces
		if ok {
			d := 1 + e.rng.Intn(min(3, nA))
			if i == 0 {
				d = 3
			}
			parent := chainA[nA-d]
			chainB := []*types.Block{parent}
			for k := 1; k <= d+1 && ok; k++ {
				b := w.build(chainB[k-1], fmt.Sprintf("B%d", k), e.rng.Chance(50), uint64(1000*i+100+k))
				ok = w.process(b)
				chainB = append(chainB, b)
			}
			// and back: extend A past B
			if ok && e.rng.Chance(60) {
				tip := chainA[nA]
				for k := 1; k <= 2 && ok; k++ {
					b := w.build(tip, fmt.Sprintf("A%d", nA+k), e.rng.Chance(50), uint64(1000*i+200+k))
					ok = w.process(b)
					tip = b
				}
			}
		}
		if !ok {
			rejected++
		}
		totalReorgs += w.reorgs
		curReorg = nil
		key := fmt.Sprintf("e2e:%v", w.trace)
		e.st.Count(key, w.reorgs > 0, "e2e:reorg-history")
		e.st.LogCase(e.run.Out, e.next(), map[string]interface{}{"cache": "all (real node core)", "kind": "e2e-reorg", "history": w.trace, "oracle_points": w.checks, "disconnects": w.reorgs})
		if i == 0 {
			e.st.Sample(map[string]interface{}{"cache": "all (real node core)", "kind": "e2e-reorg", "history": w.trace})
		}
		f.Close()
	}
	e.st.Extra["e2e_disconnect_events"] = totalReorgs
	e.st.Extra["e2e_histories_with_rejected_block"] = rejected
	if totalReorgs == 0 {
		panic("C15 e2e: no reorganisation happened in any history (generator broken)")
	}
}
