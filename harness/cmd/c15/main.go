// C15 correspondence and oracle: the four caches in front of persistent data
// (blockchain.UTXOCache, indexers.TxCache behind UnspentIndex.FetchTx, the
// decoded block cache of ChainStoreFFLDB.GetBlock, the send cache of
// p2p.WriteMessage) of /repo against coq/model/C15_Caches.v.
//
// Property oracle (independent of the model): every lookup through a cache is
// compared with the uncached lookup on the same store at the same moment, and
// every cache size with its bound, after every operation.
package main

import (
	"fmt"
	"strings"

	elacommon "github.com/elastos/Elastos.ELA/common"
	"github.com/elastos/Elastos.ELA/core"
	"github.com/elastos/Elastos.ELA/core/transaction"
	common2 "github.com/elastos/Elastos.ELA/core/types/common"
	"github.com/elastos/Elastos.ELA/core/types/functions"
	"github.com/elastos/Elastos.ELA/core/types/interfaces"
	"github.com/elastos/Elastos.ELA/core/types/outputpayload"
	"github.com/elastos/Elastos.ELA/core/types/payload"

	"verifharness/elaenv"
	"verifharness/lib"
)

type env struct {
	run *lib.Run
	rng *lib.Rng
	st  *lib.Stats
	sh  *lib.Shards
	id  int
}

func (e *env) next() int { e.id++; return e.id }

var programHash elacommon.Uint168

// mkTx builds a transfer transaction (or a coinbase when ins is nil) whose
// outputs carry the given values; values are unique per run so an output is
// identified by its value.
func mkTx(txType common2.TxType, ins []*common2.Input, values []int64, lock uint32) interfaces.Transaction {
	outs := make([]*common2.Output, 0, len(values))
	for _, v := range values {
		outs = append(outs, &common2.Output{AssetID: core.ELAAssetID, Value: elacommon.Fixed64(v),
			ProgramHash: programHash, Type: common2.OTNone, Payload: &outputpayload.DefaultOutput{}})
	}
	var pl interfaces.Payload = &payload.TransferAsset{}
	switch txType {
	case common2.CoinBase:
		pl = &payload.CoinBase{Content: []byte{byte(lock), byte(lock >> 8)}}
		if ins == nil {
			ins = []*common2.Input{{Previous: common2.OutPoint{Index: 0xffff}, Sequence: 0xffffffff}}
		}
	case common2.NextTurnDPOSInfo:
		pl = &payload.NextTurnDPOSInfo{WorkingHeight: lock}
	case common2.RevertToPOW:
		pl = &payload.RevertToPOW{WorkingHeight: lock}
	case common2.RegisterAsset:
		pl = &payload.RegisterAsset{Asset: payload.Asset{Name: fmt.Sprintf("a%d", lock), Precision: 8}, Amount: 1, Controller: programHash}
	}
	return transaction.CreateTransaction(common2.TxVersion09, txType, 0, pl, []*common2.Attribute{},
		ins, outs, lock, nil)
}

func coqList(xs []string) string { return "[" + strings.Join(xs, "; ") + "]" }
func coqNs(xs []int) string {
	ss := make([]string, len(xs))
	for i, x := range xs {
		ss[i] = fmt.Sprint(x)
	}
	return coqList(ss)
}

func main() {
	run := lib.ParseArgs()
	elaenv.InitLog(run.Out)
	functions.GetTransactionByTxType = transaction.GetTransaction
	functions.GetTransactionByBytes = transaction.GetTransactionByBytes
	functions.CreateTransaction = transaction.CreateTransaction
	functions.GetTransactionParameters = transaction.GetTransactionparameters
	programHash[0] = 0x21
	e := &env{run: run, rng: lib.NewRng(run.Seed)}
	e.st = lib.NewStats("C15", "one case = one random trace of operations on one cache over a store that changes: "+
		"UTXOCache (MaxReferenceSize 1..4) on a mutable IUTXOCacheStore: GetTxReference/GetTransaction/CleanCache/CleanTxCache/store add/remove; "+
		"TxCache (TxCacheVolume 0..6, and near 2^32 for the uint32 wrap, one trace filling 10000+volume entries) via setTxn/deleteTxn/trim and via "+
		"SaveBlock/RollbackBlock/FetchTx on a real ffldb chain store with reorganisations; GetBlock cache on that store incl. elanet pushBlockMsg; "+
		"p2p.WriteMessage on a recording net.Conn with confirmed/unconfirmed variants of blocks and differing confirms; "+
		"end-to-end reorganisation histories on the real node core (harness/fixture: ProcessBlock, forks of coinbase-only and transfer blocks) with every cached lookup compared to the uncached one after each step and inside each connect/disconnect event. "+
		"nontrivial = the trace contains a cache hit after an eviction, clean or store change; distinct by the canonical trace text")
	e.sh = &lib.Shards{Dir: run.Out, Imports: "From ELA Require Import model.C15_Caches corr.C15_corr.", CaseType: "C15_corr.case",
		Mismatch: "C15_corr.mismatches", Scope: "N", PerShard: 25}

	facts := scanSource(e)
	runUtxo(e, facts)
	runTxCacheUnit(e)
	runChainStore(e, facts)
	runSend(e)
	runReorg(e)

	e.st.Traces = e.st.Evals
	e.sh.Flush()
	e.st.Write(run.Out)
}
