package main

import (
	"bytes"
	"fmt"
	"os"
	"path/filepath"
	"sort"
	"strings"
	"time"

	"github.com/elastos/Elastos.ELA/auxpow"
	"github.com/elastos/Elastos.ELA/blockchain"
	"github.com/elastos/Elastos.ELA/blockchain/indexers"
	elacommon "github.com/elastos/Elastos.ELA/common"
	"github.com/elastos/Elastos.ELA/common/config"
	"github.com/elastos/Elastos.ELA/core"
	"github.com/elastos/Elastos.ELA/core/checkpoint"
	"github.com/elastos/Elastos.ELA/core/types"
	common2 "github.com/elastos/Elastos.ELA/core/types/common"
	"github.com/elastos/Elastos.ELA/core/types/interfaces"
	"github.com/elastos/Elastos.ELA/core/types/payload"
	"github.com/elastos/Elastos.ELA/crypto"
	"github.com/elastos/Elastos.ELA/database"
	"github.com/elastos/Elastos.ELA/dpos/state"
	"github.com/elastos/Elastos.ELA/elanet"
	"github.com/elastos/Elastos.ELA/mempool"

	"verifharness/lib"
)

// A real chain store (leveldb + ffldb in a temp dir, index manager, genesis
// block) as blockchain.New builds it; blocks generated here are connected and
// rolled back with ChainStoreFFLDB.SaveBlock / RollbackBlock (no consensus
// validation: the caches only see the store operations).

type utxoRef struct {
	tx  int
	idx int
}

type cblock struct {
	id      int
	blk     *types.Block
	node    *blockchain.BlockNode
	confirm *payload.Confirm
	txs     []int // small ids
}

type chainWorld struct {
	e       *env
	dir     string
	chain   *blockchain.BlockChain
	cs      blockchain.IChainStore
	ffl     *blockchain.ChainStoreFFLDB
	pool    *mempool.BlockPool
	uncache *indexers.UnspentIndex // same database, its own (never filled) TxCache: uncached FetchTx
	params  *config.Configuration

	txs     map[int]interfaces.Transaction
	txid    map[elacommon.Uint256]int
	txflags map[int][2]bool // RegisterAsset, at most 100 inputs
	unspent map[int]map[int]bool
	height  map[int]int // where the tx currently is in the main chain (oracle by replay)
	nextTx  int
	nextVal int64

	blocks  []*cblock // every block ever made
	blkid   map[elacommon.Uint256]int
	main    []*cblock // main chain above genesis
	genesis *blockchain.BlockNode
	confIDs map[string]int
	stored  map[int][2]int // block id -> (block id, confirm id) as first stored

	tSteps, tTrace []string
	bSteps, bTrace []string
	pushed         map[int]bool
	tNontrivial    bool
	forceZeroOut   bool // every new block carries the transactions without outputs
	bNontrivial    bool
}

func newChainWorld(e *env, n int, volume uint32, memFirst bool) *chainWorld {
	w := &chainWorld{e: e, txs: map[int]interfaces.Transaction{}, txid: map[elacommon.Uint256]int{}, txflags: map[int][2]bool{},
		unspent: map[int]map[int]bool{}, height: map[int]int{}, blkid: map[elacommon.Uint256]int{}, confIDs: map[string]int{},
		stored: map[int][2]int{}, pushed: map[int]bool{}, nextVal: 1000}
	w.dir = filepath.Join(e.run.Out, fmt.Sprintf("store%03d", n))
	os.RemoveAll(w.dir)
	params := config.GetDefaultParams()
	params.TxCacheVolume = volume
	params.MemoryFirst = memFirst
	params.GenesisBlock = core.GenesisBlock(*params.FoundationProgramHash)
	blockchain.FoundationAddress = *params.FoundationProgramHash
	w.params = params
	cs, err := blockchain.NewChainStore(w.dir, params)
	if err != nil {
		panic(err)
	}
	w.cs = cs
	chain, err := blockchain.New(cs, params, state.NewState(params, nil, nil, nil, nil, nil, nil, nil, nil, nil, nil, nil), nil,
		checkpoint.NewManager(params))
	if err != nil {
		panic(err)
	}
	if err := chain.Init(nil); err != nil {
		panic(err)
	}
	w.chain = chain
	w.ffl = cs.GetFFLDB().(*blockchain.ChainStoreFFLDB)
	w.pool = mempool.NewBlockPool(params)
	w.uncache = indexers.NewUnspentIndex(w.ffl, &config.Configuration{MemoryFirst: true})
	g := params.GenesisBlock
	gh := g.Hash()
	w.genesis = blockchain.NewBlockNode(&g.Header, &gh)
	// the genesis transactions are indexed during Init
	var gtx []string
	gb := &cblock{id: 0, blk: g, node: w.genesis}
	for _, tx := range g.Transactions {
		id := w.regTx(tx)
		gb.txs = append(gb.txs, id)
		w.height[id] = 0
		gtx = append(gtx, w.txTerm(id))
	}
	w.blocks = append(w.blocks, gb)
	w.blkid[gh] = 0
	w.tSteps = append(w.tSteps, fmt.Sprintf("(TConnect 0 %s [] [], TUnit, %s)", coqList(gtx), contentTerm(w.cacheContent(), true)))
	w.tTrace = append(w.tTrace, "genesis")
	w.bSteps = append(w.bSteps, fmt.Sprintf("(BStore 1000 (1000, 0), BUnit, %s)", w.blkObs()))
	w.stored[0] = [2]int{1000, 0}
	return w
}

func (w *chainWorld) close() {
	w.cs.Close()
	os.RemoveAll(w.dir)
}

// block ids in Coq terms: genesis = 1000, others their small id (>= 1)
func bid(id int) int {
	if id == 0 {
		return 1000
	}
	return id
}

func (w *chainWorld) regTx(tx interfaces.Transaction) int {
	h := tx.Hash()
	if id, ok := w.txid[h]; ok {
		return id
	}
	w.nextTx++
	id := w.nextTx
	w.txs[id], w.txid[h] = tx, id
	w.txflags[id] = [2]bool{tx.TxType() == common2.RegisterAsset, len(tx.Inputs()) <= indexers.MaxCacheInputsCountPerTransaction}
	return id
}

func (w *chainWorld) txTerm(id int) string {
	f := w.txflags[id]
	return fmt.Sprintf("(%d, %v, %v)", id, f[0], f[1])
}

func (w *chainWorld) cacheContent() map[int]int {
	res := map[int]int{}
	for h, height := range w.ffl.TxCacheVerif().KeysVerif() {
		res[w.txid[h]] = int(height)
	}
	return res
}

func (w *chainWorld) tip() *cblock {
	if len(w.main) == 0 {
		return w.blocks[0]
	}
	return w.main[len(w.main)-1]
}

func (w *chainWorld) confID(c *payload.Confirm) int {
	if c == nil {
		return 0
	}
	buf := new(bytes.Buffer)
	c.Serialize(buf)
	k := string(buf.Bytes())
	if id, ok := w.confIDs[k]; ok {
		return id
	}
	w.confIDs[k] = len(w.confIDs) + 1
	return w.confIDs[k]
}

func mkConfirm(rng *lib.Rng, hash elacommon.Uint256) *payload.Confirm {
	c := &payload.Confirm{Proposal: payload.DPOSProposal{Sponsor: rng.Bytes(33), BlockHash: hash, ViewOffset: uint32(rng.Intn(3)), Sign: rng.Bytes(64)}}
	for i := 0; i < 1+rng.Intn(3); i++ {
		c.Votes = append(c.Votes, payload.DPOSProposalVote{ProposalHash: c.Proposal.Hash(), Signer: rng.Bytes(33), Accept: true, Sign: rng.Bytes(64)})
	}
	return c
}

func mkBlock(prev elacommon.Uint256, height uint32, nonce uint32, txs []interfaces.Transaction) *types.Block {
	hashes := make([]elacommon.Uint256, len(txs))
	for i, tx := range txs {
		hashes[i] = tx.Hash()
	}
	root, _ := crypto.ComputeRoot(hashes)
	return &types.Block{Header: common2.Header{Version: 0, Previous: prev, MerkleRoot: root, Timestamp: 1600000000 + height,
		Bits: 0x207fffff, Nonce: nonce, Height: height, AuxPow: auxpow.AuxPow{}}, Transactions: txs}
}

// newBlock makes a block on the current tip: a coinbase, some transfers
// spending tracked unspent outputs, sometimes a RegisterAsset transaction, a
// 101-output fan-out or the 101-input transaction spending it.
func (w *chainWorld) newBlock() *cblock {
	rng := w.e.rng
	tip := w.tip()
	height := tip.node.Height + 1
	w.nextVal++
	txs := []interfaces.Transaction{mkTx(common2.CoinBase, nil, []int64{w.nextVal}, uint32(w.nextVal))}
	// spendable outputs (not genesis: keep it simple)
	var avail []utxoRef
	ids := make([]int, 0, len(w.unspent))
	for id := range w.unspent {
		ids = append(ids, id)
	}
	sort.Ints(ids)
	for _, id := range ids {
		if _, in := w.height[id]; !in || w.height[id] == 0 {
			continue
		}
		idxs := []int{}
		for i := range w.unspent[id] {
			idxs = append(idxs, i)
		}
		sort.Ints(idxs)
		for _, i := range idxs {
			avail = append(avail, utxoRef{id, i})
		}
	}
	used := map[utxoRef]bool{}
	pick := func() (utxoRef, bool) {
		for try := 0; try < 8 && len(avail) > 0; try++ {
			u := avail[rng.Intn(len(avail))]
			if !used[u] && len(w.txs[u.tx].Outputs()) < 50 {
				used[u] = true
				return u, true
			}
		}
		return utxoRef{}, false
	}
	for k := rng.Intn(4); k > 0; k-- {
		var ins []*common2.Input
		for j := 1 + rng.Intn(2); j > 0; j-- {
			if u, ok := pick(); ok {
				ins = append(ins, &common2.Input{Previous: common2.OutPoint{TxID: w.txs[u.tx].Hash(), Index: uint16(u.idx)}})
			}
		}
		if len(ins) == 0 {
			break
		}
		vals := []int64{}
		for j := 1 + rng.Intn(2); j > 0; j-- {
			w.nextVal++
			vals = append(vals, w.nextVal)
		}
		txs = append(txs, mkTx(common2.TransferAsset, ins, vals, uint32(w.nextVal)))
	}
	if rng.Chance(10) {
		w.nextVal++
		txs = append(txs, mkTx(common2.RegisterAsset, []*common2.Input{}, []int64{}, uint32(w.nextVal)))
	}
	// transactions without outputs: payload-only types (NextTurnDPOSInfo,
	// RevertToPOW ...) and a transfer whose inputs all go to the fee
	if rng.Chance(25) || w.forceZeroOut {
		w.nextVal++
		ty := common2.NextTurnDPOSInfo
		if rng.Bool() {
			ty = common2.RevertToPOW
		}
		txs = append(txs, mkTx(ty, []*common2.Input{}, []int64{}, uint32(w.nextVal)))
	}
	if rng.Chance(15) || w.forceZeroOut {
		if u, ok := pick(); ok {
			w.nextVal++
			txs = append(txs, mkTx(common2.TransferAsset,
				[]*common2.Input{{Previous: common2.OutPoint{TxID: w.txs[u.tx].Hash(), Index: uint16(u.idx)}}}, []int64{}, uint32(w.nextVal)))
		}
	}
	// fan-out / fan-in
	var fan *utxoRef
	for _, u := range avail {
		if len(w.txs[u.tx].Outputs()) > 100 && len(w.unspent[u.tx]) == len(w.txs[u.tx].Outputs()) {
			fan = &utxoRef{u.tx, 0}
			break
		}
	}
	if fan != nil && rng.Chance(50) {
		n := len(w.txs[fan.tx].Outputs())
		ins := make([]*common2.Input, n)
		for i := range ins {
			ins[i] = &common2.Input{Previous: common2.OutPoint{TxID: w.txs[fan.tx].Hash(), Index: uint16(i)}}
		}
		w.nextVal++
		txs = append(txs, mkTx(common2.TransferAsset, ins, []int64{w.nextVal}, uint32(w.nextVal)))
	} else if fan == nil && rng.Chance(12) {
		if u, ok := pick(); ok {
			vals := make([]int64, indexers.MaxCacheInputsCountPerTransaction+1)
			for i := range vals {
				w.nextVal++
				vals[i] = w.nextVal
			}
			txs = append(txs, mkTx(common2.TransferAsset,
				[]*common2.Input{{Previous: common2.OutPoint{TxID: w.txs[u.tx].Hash(), Index: uint16(u.idx)}}}, vals, uint32(w.nextVal)))
		}
	}
	blk := mkBlock(*tip.node.Hash, height, uint32(rng.U64()), txs)
	h := blk.Hash()
	node := blockchain.NewBlockNode(&blk.Header, &h)
	node.Parent = tip.node
	b := &cblock{id: len(w.blocks), blk: blk, node: node}
	for _, tx := range txs {
		b.txs = append(b.txs, w.regTx(tx))
	}
	if rng.Chance(60) {
		b.confirm = mkConfirm(rng, h)
	}
	w.blocks = append(w.blocks, b)
	w.blkid[h] = b.id
	return b
}

func (w *chainWorld) tObs() string {
	c := w.cacheContent()
	return contentTerm(c, len(c) <= 60)
}

func (w *chainWorld) blkObs() string {
	order, keys := w.ffl.BlockCacheVerif()
	os := make([]int, len(order))
	for i, h := range order {
		os[i] = bid(w.blkid[h])
	}
	ks := []string{}
	for h, hc := range keys {
		ks = append(ks, fmt.Sprintf("(%d, %v)", bid(w.blkid[h]), hc))
	}
	sort.Strings(ks)
	if len(order) > blockchain.BlocksCacheSize || len(keys) > blockchain.BlocksCacheSize {
		w.e.st.Fail("GetBlock:bound", "decoded block cache above BlocksCacheSize",
			map[string]interface{}{"order": len(order), "map": len(keys), "trace": w.bTrace})
	}
	return fmt.Sprintf("(%s, %s)", coqNs(os), coqList(ks))
}

// connect b (a new block, or a block disconnected earlier) on the tip
func (w *chainWorld) connect(b *cblock, confirm *payload.Confirm) {
	before := w.cacheContent()
	if err := w.ffl.SaveBlock(b.blk, b.node, confirm, time.Unix(int64(b.blk.Timestamp), 0), nil); err != nil {
		panic(fmt.Sprintf("SaveBlock: %v", err))
	}
	w.main = append(w.main, b)
	// replay on the tracked utxo set
	touched := map[int]bool{}
	var txT []string
	for _, id := range b.txs {
		tx := w.txs[id]
		txT = append(txT, w.txTerm(id))
		w.height[id] = int(b.node.Height)
		if tx.TxType() == common2.RegisterAsset {
			continue
		}
		w.unspent[id] = map[int]bool{}
		for i := range tx.Outputs() {
			w.unspent[id][i] = true
		}
		if len(tx.Outputs()) > 0 {
			touched[id] = true
		}
		if !tx.IsCoinBaseTx() {
			for _, in := range tx.Inputs() {
				r := w.txid[in.Previous.TxID]
				delete(w.unspent[r], int(in.Previous.Index))
				touched[r] = true
			}
		}
	}
	var spent []int
	for id := range touched {
		if len(w.unspent[id]) == 0 {
			spent = append(spent, id)
		}
	}
	sort.Ints(spent)
	after := w.cacheContent()
	// victims of trim: what vanished, the ones not explained by [spent] first
	isSpent := map[int]bool{}
	for _, s := range spent {
		isSpent[s] = true
	}
	var v1, v2 []int
	for _, k := range vanished(before, after) {
		if isSpent[k] {
			v2 = append(v2, k)
		} else {
			v1 = append(v1, k)
		}
	}
	if len(v1) > 0 {
		w.tNontrivial = true
	}
	w.tSteps = append(w.tSteps, fmt.Sprintf("(TConnect %d %s %s %s, TUnit, %s)", b.node.Height, coqList(txT), coqNs(spent), coqNs(append(v1, v2...)), w.tObs()))
	w.tTrace = append(w.tTrace, fmt.Sprintf("connect b%d@%d txs=%v", b.id, b.node.Height, b.txs))
	// bound (sane configuration): volume + TrimmingInterval + block size
	if !w.params.MemoryFirst && uint64(w.params.TxCacheVolume)+indexers.TrimmingInterval < 1<<32 &&
		len(after) > int(w.params.TxCacheVolume)+indexers.TrimmingInterval+len(b.txs) {
		w.e.st.Fail("TxCache:bound", "TxCache above TxCacheVolume+TrimmingInterval+block size after ConnectBlock",
			map[string]interface{}{"volume": w.params.TxCacheVolume, "len": len(after), "trace": w.tTrace})
	}
	// block store: dbStoreBlock keeps what was stored first
	cid := w.confID(confirm)
	if _, ok := w.stored[b.id]; !ok {
		w.stored[b.id] = [2]int{b.id, cid}
	}
	w.bSteps = append(w.bSteps, fmt.Sprintf("(BStore %d (%d, %d), BUnit, %s)", b.id, b.id, cid, w.blkObs()))
	w.bTrace = append(w.bTrace, fmt.Sprintf("store b%d confirm=%d", b.id, cid))
	for _, id := range b.txs {
		w.fetch(id)
	}
}

func (w *chainWorld) disconnect() {
	b := w.tip()
	if err := w.ffl.RollbackBlock(b.blk, b.node, b.confirm, time.Unix(int64(b.blk.Timestamp), 0), nil); err != nil {
		panic(fmt.Sprintf("RollbackBlock: %v", err))
	}
	w.main = w.main[:len(w.main)-1]
	var txT []string
	for i := len(b.txs) - 1; i >= 0; i-- {
		id := b.txs[i]
		tx := w.txs[id]
		delete(w.height, id)
		if tx.TxType() == common2.RegisterAsset {
			continue
		}
		delete(w.unspent, id)
		if !tx.IsCoinBaseTx() {
			for _, in := range tx.Inputs() {
				r := w.txid[in.Previous.TxID]
				if w.unspent[r] == nil {
					w.unspent[r] = map[int]bool{}
				}
				w.unspent[r][int(in.Previous.Index)] = true
			}
		}
	}
	for _, id := range b.txs {
		txT = append(txT, w.txTerm(id))
	}
	w.tNontrivial = true
	w.tSteps = append(w.tSteps, fmt.Sprintf("(TDisconnect %s, TUnit, %s)", coqList(txT), w.tObs()))
	w.tTrace = append(w.tTrace, fmt.Sprintf("disconnect b%d txs=%v", b.id, b.txs))
	// every key the store change touched is looked up at once
	for _, id := range b.txs {
		w.fetch(id)
	}
}

func (w *chainWorld) fetch(id int) {
	var h elacommon.Uint256
	if id == 0 {
		h[5] = 0xee // unknown transaction
	} else {
		h = w.txs[id].Hash()
	}
	tx, height, err := w.ffl.GetTransaction(h) // indexManager.FetchTx -> UnspentIndex.FetchTx (through TxCache)
	utx, uheight, uerr := w.uncache.FetchTx(h) // same database, no cache
	_, cached := w.cacheContent()[id]
	res := "TMissing"
	if err == nil {
		res = fmt.Sprintf("TFound %d", height)
	}
	bad := (err == nil) != (uerr == nil)
	if !bad && err == nil {
		b1, b2 := new(bytes.Buffer), new(bytes.Buffer)
		tx.Serialize(b1)
		utx.Serialize(b2)
		bad = height != uheight || !bytes.Equal(b1.Bytes(), b2.Bytes())
	}
	// independent replay: the height the harness connected it at
	if hh, ok := w.height[id]; !bad && id != 0 {
		bad = ok != (err == nil) || (ok && int(height) != hh)
	}
	w.tTrace = append(w.tTrace, fmt.Sprintf("fetch %d", id))
	if bad {
		w.e.st.Fail("TxCache:FetchTx", "UnspentIndex.FetchTx answers differently with and without the TxCache",
			map[string]interface{}{"volume": w.params.TxCacheVolume, "tx": id, "cached_height": height, "cached_err": fmt.Sprint(err), "uncached_height": uheight, "uncached_err": fmt.Sprint(uerr), "trace": w.tTrace})
	}
	if cached && len(w.tTrace) > 3 {
		w.tNontrivial = true
	}
	w.tSteps = append(w.tSteps, fmt.Sprintf("(TFetch %d, %s, %s)", id, res, w.tObs()))
}

func (w *chainWorld) rawBlock(h elacommon.Uint256) []byte {
	var raw []byte
	w.ffl.View(func(dbTx database.Tx) error {
		b, err := dbTx.FetchBlock(&h)
		if err == nil {
			raw = append([]byte{}, b...)
		}
		return nil
	})
	return raw
}

func (w *chainWorld) getBlock(id int) {
	var h elacommon.Uint256
	if id < 0 {
		h[7] = 0xdd
	} else {
		h = *w.blocks[id].node.Hash
	}
	_, keysBefore := w.ffl.BlockCacheVerif()
	_, wasCached := keysBefore[h]
	blk, err := w.ffl.GetBlock(h)
	raw := w.rawBlock(h) // the uncached answer
	res := "BMissing"
	bad := (err == nil) != (raw != nil)
	if err == nil {
		var c *payload.Confirm
		if blk.HaveConfirm {
			c = blk.Confirm
		}
		res = fmt.Sprintf("BFound (%d, %d)", bid(w.blkid[blk.Hash()]), w.confID(c))
		buf := new(bytes.Buffer)
		if serr := blk.Serialize(buf); serr != nil || !bytes.Equal(buf.Bytes(), raw) {
			bad = true
		}
	}
	w.bTrace = append(w.bTrace, fmt.Sprintf("GetBlock b%d", id))
	if bad {
		sig := "GetBlock:lookup"
		if w.pushed[id] {
			sig = "GetBlock:entry-modified-by-pushBlockMsg"
		}
		w.e.st.Fail(sig, "ChainStoreFFLDB.GetBlock returns a block different from the stored one (confirm missing after elanet pushBlockMsg served the same hash)",
			map[string]interface{}{"block": id, "trace": w.bTrace})
	}
	if wasCached && len(w.bTrace) > 4 {
		w.bNontrivial = true
	}
	mid := 999
	if id >= 0 {
		mid = bid(id)
	}
	w.bSteps = append(w.bSteps, fmt.Sprintf("(BGet %d, %s, %s)", mid, res, w.blkObs()))
}

// the getdata handler for an unconfirmed block, on the real chain
func (w *chainWorld) push(id int) {
	h := *w.blocks[id].node.Hash
	elanet.PushBlockMsgVerif(w.chain, w.pool, h)
	w.pushed[id] = true
	w.bTrace = append(w.bTrace, fmt.Sprintf("pushBlockMsg b%d", id))
	w.bSteps = append(w.bSteps, fmt.Sprintf("(BPush %d, BUnit, %s)", bid(id), w.blkObs()))
}

func (w *chainWorld) emit(kind string) {
	e := w.e
	id := e.next()
	e.sh.Add(fmt.Sprintf("CTxc %d %d %d %v %s", id, w.params.TxCacheVolume, indexers.TrimmingInterval, w.params.MemoryFirst, coqList(w.tSteps)))
	e.st.LogCase(e.run.Out, id, map[string]interface{}{"cache": "TxCache", "kind": "chain-" + kind, "volume": w.params.TxCacheVolume, "trace": w.tTrace})
	e.st.Count("tc:"+strings.Join(w.tTrace, ";"), w.tNontrivial, "txcache:chain-"+kind)
	id = e.next()
	e.sh.Add(fmt.Sprintf("CBlk %d %s", id, coqList(w.bSteps)))
	e.st.LogCase(e.run.Out, id, map[string]interface{}{"cache": "GetBlock", "kind": kind, "trace": w.bTrace})
	e.st.Count("b:"+strings.Join(w.bTrace, ";"), w.bNontrivial, "getblock:"+kind)
}

func runChainStore(e *env, facts *srcFacts) {
	if len(facts.mutationSites) > 0 {
		e.st.Extra["alias_mutation_sites_note"] = "a caller assigns to a block obtained from the decoded block cache"
	}
	// ---- corpus: a confirmed block is cached by GetBlock, a peer asks for the
	// unconfirmed variant (pushBlockMsg), GetBlock is asked again.
	{
		w := newChainWorld(e, 0, 3, false)
		b1 := w.newBlock()
		b1.confirm = mkConfirm(e.rng, *b1.node.Hash)
		w.connect(b1, b1.confirm)
		w.getBlock(1)
		w.push(1)
		w.getBlock(1)
		b2 := w.newBlock()
		w.connect(b2, b2.confirm)
		w.push(2)
		w.getBlock(2)
		w.getBlock(1)
		w.getBlock(0)
		w.getBlock(1)
		w.fetch(b1.txs[0])
		w.emit("corpus-push")
		e.st.Sample(map[string]interface{}{"cache": "GetBlock", "kind": "corpus-push", "trace": w.bTrace})
		w.close()
	}
	// ---- corpus: blocks carrying transactions without outputs (a payload-only
	// type and an all-fee transfer) are connected, rolled back (each of their
	// transactions is looked up right after) and connected again.
	{
		w := newChainWorld(e, 0, 4, false)
		w.connect(w.newBlock(), nil)
		w.forceZeroOut = true
		b2 := w.newBlock()
		w.connect(b2, nil)
		b3 := w.newBlock()
		w.connect(b3, nil)
		w.disconnect()
		w.disconnect()
		w.connect(b2, nil)
		w.disconnect()
		w.emit("corpus-zero-outputs")
		w.close()
	}
	n := e.run.N(8, 150)
	for i := 1; i <= n; i++ {
		vol := uint32(e.rng.Intn(7))
		if e.rng.Chance(40) {
			vol = uint32(1<<32 - indexers.TrimmingInterval + uint64(e.rng.Intn(6))) // uint32 wrap: trim fires with a handful of entries
		}
		w := newChainWorld(e, i, vol, e.rng.Chance(8))
		nops := 25 + e.rng.Intn(30)
		var detached []*cblock
		for k := 0; k < nops; k++ {
			switch r := e.rng.Intn(100); {
			case r < 30:
				b := w.newBlock()
				w.connect(b, b.confirm)
				detached = nil
			case r < 38 && len(w.main) > 0:
				// reorganisation: roll back d blocks, then re-connect some of them
				// (possibly with another confirm) or build new ones
				d := 1 + e.rng.Intn(min(3, len(w.main)))
				for j := 0; j < d; j++ {
					detached = append([]*cblock{w.tip()}, detached...)
					w.disconnect()
					if e.rng.Chance(50) {
						w.fetchRandom()
					}
				}
			case r < 46 && len(detached) > 0:
				b := detached[0]
				detached = detached[1:]
				c := b.confirm
				if e.rng.Chance(40) {
					c = mkConfirm(e.rng, *b.node.Hash)
				}
				w.connect(b, c)
			case r < 70:
				w.fetchRandom()
			case r < 92:
				id := e.rng.Intn(len(w.blocks))
				if e.rng.Chance(5) {
					id = -1
				}
				w.getBlock(id)
			default:
				w.push(e.rng.Intn(len(w.blocks)))
			}
		}
		w.emit("random")
		if i == 1 {
			e.st.Sample(map[string]interface{}{"cache": "TxCache", "kind": "chain-random", "volume": vol, "trace": w.tTrace})
		}
		w.close()
	}
}

func (w *chainWorld) fetchRandom() {
	id := 1 + w.e.rng.Intn(w.nextTx)
	if w.e.rng.Chance(5) {
		id = 0
	}
	w.fetch(id)
}

func min(a, b int) int {
	if a < b {
		return a
	}
	return b
}
