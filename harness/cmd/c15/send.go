package main

import (
	"bytes"
	"fmt"
	"net"
	"sort"
	"strings"
	"time"

	elacommon "github.com/elastos/Elastos.ELA/common"
	"github.com/elastos/Elastos.ELA/core/types"
	common2 "github.com/elastos/Elastos.ELA/core/types/common"
	"github.com/elastos/Elastos.ELA/core/types/interfaces"
	"github.com/elastos/Elastos.ELA/core/types/payload"
	"github.com/elastos/Elastos.ELA/p2p"
	"github.com/elastos/Elastos.ELA/p2p/msg"
)

// recConn records what WriteMessage writes.
type recConn struct{ buf bytes.Buffer }

func (c *recConn) Read(b []byte) (int, error)         { return 0, fmt.Errorf("not readable") }
func (c *recConn) Write(b []byte) (int, error)        { return c.buf.Write(b) }
func (c *recConn) Close() error                       { return nil }
func (c *recConn) LocalAddr() net.Addr                { return &net.TCPAddr{} }
func (c *recConn) RemoteAddr() net.Addr               { return &net.TCPAddr{} }
func (c *recConn) SetDeadline(t time.Time) error      { return nil }
func (c *recConn) SetReadDeadline(t time.Time) error  { return nil }
func (c *recConn) SetWriteDeadline(t time.Time) error { return nil }

// the callback both peers of /repo pass to WriteMessage (p2p/peer/peer.go,
// dpos/p2p/peer/peer.go)
func getDposBlock(m p2p.Message) (*types.DposBlock, bool) {
	msgBlock, ok := m.(*msg.Block)
	if !ok {
		return nil, false
	}
	dposBlock, ok := msgBlock.Serializable.(*types.DposBlock)
	return dposBlock, ok
}

type sendWorld struct {
	e              *env
	blocks         []*types.Block
	bids           map[elacommon.Uint256]int
	serIDs         map[string]int
	steps          []string
	trace          []string
	sids           map[string]map[int]bool // "hash/confirm" -> serialisation ids sent so far
	nontr          bool
	everSent       map[int]bool
	growthReported bool
}

func (w *sendWorld) serID(b []byte) int {
	k := string(b)
	if id, ok := w.serIDs[k]; ok {
		return id
	}
	w.serIDs[k] = len(w.serIDs) + 1
	return w.serIDs[k]
}

func (w *sendWorld) obs() string {
	hashes, confirms, outer := p2p.SendCacheVerif()
	hs := make([]int, len(hashes))
	for i, h := range hashes {
		hs[i] = w.bids[h]
	}
	cs := make([]string, len(confirms))
	for i, c := range confirms {
		cs[i] = fmt.Sprint(c)
	}
	os := []string{}
	payloads := 0
	for h, ks := range outer {
		kk := make([]string, len(ks))
		for i, k := range ks {
			kk[i] = fmt.Sprint(k)
		}
		payloads += len(ks)
		os = append(os, fmt.Sprintf("(%d, %s)", w.bids[h], coqList(kk)))
	}
	sort.Strings(os)
	// bounds, after every operation
	if payloads > p2p.BlocksCacheSize || len(hashes) > p2p.BlocksCacheSize {
		w.e.st.Fail("WriteMessage:payload-bound", "send cache holds more serialized blocks than BlocksCacheSize",
			map[string]interface{}{"payloads": payloads, "trace": w.trace})
	}
	if len(outer) > p2p.BlocksCacheSize && !w.growthReported {
		w.growthReported = true
		w.e.st.Fail("WriteMessage:outer-map-growth", "send cache map keeps an entry for a block whose payload was evicted (one per block ever sent)",
			map[string]interface{}{"map_entries": len(outer), "limit": p2p.BlocksCacheSize, "trace": w.trace})
	}
	return fmt.Sprintf("(%s, %s, %s)", coqNs(hs), coqList(cs), coqList(os))
}

// send one message through the real WriteMessage; m is a block message when
// db != nil
func (w *sendWorld) send(m p2p.Message, db *types.DposBlock, label string) {
	conn := &recConn{}
	fresh := new(bytes.Buffer)
	if err := m.Serialize(fresh); err != nil {
		panic(err)
	}
	if err := p2p.WriteMessage(conn, 0x12345678, m, time.Minute, getDposBlock); err != nil {
		panic(err)
	}
	out := conn.buf.Bytes()
	if len(out) < p2p.HeaderSize {
		panic("short write")
	}
	got := out[p2p.HeaderSize:]
	var hdr p2p.Header
	hdr.Deserialize(out[:p2p.HeaderSize])
	w.trace = append(w.trace, label)
	var opT string
	sid := w.serID(fresh.Bytes())
	if db != nil {
		b := w.bids[db.Hash()]
		key := fmt.Sprintf("%d/%v", b, db.HaveConfirm)
		if w.everSent[b] {
			w.nontr = true
		}
		w.everSent[b] = true
		if !bytes.Equal(got, fresh.Bytes()) {
			sig := "WriteMessage:payload"
			// the only listed class: this (hash, HaveConfirm=true) was sent before
			// with a different confirm, i.e. with different bytes
			other := false
			for k := range w.sids[key] {
				if k != sid {
					other = true
				}
			}
			if other && db.HaveConfirm {
				sig = "WriteMessage:stale-confirm"
			}
			w.e.st.Fail(sig, "WriteMessage wrote bytes different from the message's serialization (a block re-sent with another confirm gets the confirm cached first)",
				map[string]interface{}{"trace": w.trace})
		}
		if w.sids[key] == nil {
			w.sids[key] = map[int]bool{}
		}
		w.sids[key][sid] = true
		opT = fmt.Sprintf("SSend %d %v %d", b, db.HaveConfirm, sid)
	} else {
		if !bytes.Equal(got, fresh.Bytes()) {
			w.e.st.Fail("WriteMessage:payload", "WriteMessage wrote bytes different from the message's serialization", map[string]interface{}{"trace": w.trace})
		}
		opT = fmt.Sprintf("SOther %d", sid)
	}
	if hdr.Length != uint32(len(got)) {
		w.e.st.Fail("WriteMessage:header", "header length differs from payload length", map[string]interface{}{"trace": w.trace})
	}
	w.steps = append(w.steps, fmt.Sprintf("(%s, %d, %s)", opT, w.serID(got), w.obs()))
}

func newSendWorld(e *env, nblocks int) *sendWorld {
	p2p.ResetSendCacheVerif()
	w := &sendWorld{e: e, bids: map[elacommon.Uint256]int{}, serIDs: map[string]int{}, sids: map[string]map[int]bool{}, everSent: map[int]bool{}}
	for i := 0; i < nblocks; i++ {
		cb := mkTx(common2.CoinBase, nil, []int64{int64(5000 + i)}, uint32(i))
		blk := mkBlock(elacommon.Uint256{byte(i)}, uint32(10+i), uint32(e.rng.U64()), []interfaces.Transaction{cb})
		w.blocks = append(w.blocks, blk)
		w.bids[blk.Hash()] = i + 1
	}
	return w
}

func (w *sendWorld) emit(kind string) {
	e := w.e
	id := e.next()
	e.sh.Add(fmt.Sprintf("CSend %d %s", id, coqList(w.steps)))
	e.st.LogCase(e.run.Out, id, map[string]interface{}{"cache": "WriteMessage", "kind": kind, "trace": w.trace})
	e.st.Count("s:"+strings.Join(w.trace, ";"), w.nontr, "send:"+kind)
}

func runSend(e *env) {
	// ---- corpus 1: one entry of the outer map per block ever sent
	{
		w := newSendWorld(e, 6)
		for i, b := range w.blocks {
			db := &types.DposBlock{Block: b}
			w.send(msg.NewBlock(db), db, fmt.Sprintf("block b%d unconfirmed", i+1))
		}
		db := &types.DposBlock{Block: w.blocks[0]}
		w.send(msg.NewBlock(db), db, "block b1 unconfirmed")
		w.send(msg.NewBlock(db), db, "block b1 unconfirmed")
		w.emit("corpus-growth")
		e.st.Sample(map[string]interface{}{"cache": "WriteMessage", "kind": "corpus-growth", "trace": w.trace})
	}
	// ---- corpus 2: the same block re-sent with another confirm
	{
		w := newSendWorld(e, 2)
		h := w.blocks[0].Hash()
		c1, c2 := mkConfirm(e.rng, h), mkConfirm(e.rng, h)
		d1 := &types.DposBlock{Block: w.blocks[0], HaveConfirm: true, Confirm: c1}
		d2 := &types.DposBlock{Block: w.blocks[0], HaveConfirm: true, Confirm: c2}
		w.send(msg.NewBlock(d1), d1, "block b1 confirm A")
		w.send(msg.NewBlock(d2), d2, "block b1 confirm B")
		d0 := &types.DposBlock{Block: w.blocks[0]}
		w.send(msg.NewBlock(d0), d0, "block b1 unconfirmed")
		w.send(msg.NewBlock(d1), d1, "block b1 confirm A")
		w.emit("corpus-confirm")
		e.st.Sample(map[string]interface{}{"cache": "WriteMessage", "kind": "corpus-confirm", "trace": w.trace})
	}
	// ---- generated
	for i := 0; i < e.run.N(60, 3000); i++ {
		nb := 2 + e.rng.Intn(4)
		w := newSendWorld(e, nb)
		consistent := e.rng.Chance(75) // one confirm per block throughout the trace
		confirms := map[int][]*payload.Confirm{}
		for b := range w.blocks {
			confirms[b] = []*payload.Confirm{mkConfirm(e.rng, w.blocks[b].Hash())}
			if !consistent {
				confirms[b] = append(confirms[b], mkConfirm(e.rng, w.blocks[b].Hash()))
			}
		}
		for k := 6 + e.rng.Intn(20); k > 0; k-- {
			switch r := e.rng.Intn(100); {
			case r < 8:
				w.send(msg.NewPing(uint64(e.rng.Intn(3))), nil, "ping")
			case r < 14:
				b := e.rng.Intn(nb)
				w.send(msg.NewBlock(w.blocks[b]), nil, fmt.Sprintf("plain block b%d", b+1)) // *types.Block: not cached
			default:
				b := e.rng.Intn(nb)
				db := &types.DposBlock{Block: w.blocks[b]}
				label := fmt.Sprintf("block b%d unconfirmed", b+1)
				if e.rng.Chance(55) {
					ci := e.rng.Intn(len(confirms[b]))
					db.HaveConfirm, db.Confirm = true, confirms[b][ci]
					label = fmt.Sprintf("block b%d confirm %c", b+1, 'A'+ci)
				}
				w.send(msg.NewBlock(db), db, label)
			}
		}
		kind := "varying-confirm"
		if consistent {
			kind = "consistent"
		}
		w.emit(kind)
	}
}
