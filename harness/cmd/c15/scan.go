package main

// Source facts the transparency theorems take as hypotheses, re-read from the
// tree under run.Repo on every run (go/parser):
//
//  1. every function of package blockchain that rolls a block back on the
//     store (a call of RollbackBlock) calls UTXOCache.CleanCache()
//     unconditionally (as a statement of the same statement list) after it
//     and before the disconnect event is delivered (events.Notify);
//  2. no function assigns to a field of a *DposBlock it obtained from
//     GetBlock / GetDposBlockByHash (the decoded block cache hands out its own
//     entries).
//
// They are written to coq/gen/C15_facts.v, and steer the fixed corpus traces
// (the reorganisation schedule replayed on the real UTXOCache is the one the
// scanned code follows).

import (
	"fmt"
	"go/ast"
	"go/parser"
	"go/token"
	"os"
	"path/filepath"
	"sort"
	"strings"
)

type srcFacts struct {
	rollbackSites map[string]bool // function -> CleanCache follows RollbackBlock before Notify
	mutationSites []string        // file:function:line
}

func selName(e ast.Expr) string {
	if s, ok := e.(*ast.SelectorExpr); ok {
		return s.Sel.Name
	}
	return ""
}

func exprString(e ast.Expr) string {
	switch x := e.(type) {
	case *ast.Ident:
		return x.Name
	case *ast.SelectorExpr:
		return exprString(x.X) + "." + x.Sel.Name
	case *ast.CallExpr:
		return exprString(x.Fun) + "()"
	}
	return "?"
}

func scanSource(e *env) *srcFacts {
	f := &srcFacts{rollbackSites: map[string]bool{}}
	fset := token.NewFileSet()

	// 1. rollback sites in package blockchain
	files, _ := filepath.Glob(filepath.Join(e.run.Repo, "blockchain", "*.go"))
	for _, fn := range files {
		if strings.HasSuffix(fn, "_test.go") || strings.Contains(fn, "_verif") {
			continue
		}
		af, err := parser.ParseFile(fset, fn, nil, 0)
		if err != nil {
			panic(err)
		}
		for _, d := range af.Decls {
			fd, ok := d.(*ast.FuncDecl)
			if !ok || fd.Body == nil || fd.Recv == nil {
				continue
			}
			// only methods of BlockChain hold a UTXOCache
			recv := ""
			if st, ok := fd.Recv.List[0].Type.(*ast.StarExpr); ok {
				if id, ok := st.X.(*ast.Ident); ok {
					recv = id.Name
				}
			}
			if recv != "BlockChain" {
				continue
			}
			// A rollback site is in order when, in the statement list that
			// directly contains the RollbackBlock call, a later statement IS the
			// call UTXOCache.CleanCache() (unconditional: not nested in an if /
			// for / switch / closure) and comes before the first later statement
			// that contains events.Notify.
			found, okAll := false, true
			var checkList func(list []ast.Stmt)
			direct := func(st ast.Stmt, suffix string) bool { // call outside nested blocks of st
				hit := false
				ast.Inspect(st, func(n ast.Node) bool {
					switch x := n.(type) {
					case *ast.BlockStmt, *ast.CaseClause, *ast.CommClause, *ast.FuncLit:
						return false
					case *ast.CallExpr:
						if strings.HasSuffix(exprString(x.Fun), suffix) {
							hit = true
						}
					}
					return true
				})
				return hit
			}
			anywhere := func(st ast.Stmt, name string) bool {
				hit := false
				ast.Inspect(st, func(n ast.Node) bool {
					if c, ok := n.(*ast.CallExpr); ok && exprString(c.Fun) == name {
						hit = true
					}
					return true
				})
				return hit
			}
			checkList = func(list []ast.Stmt) {
				for i, st := range list {
					if direct(st, ".RollbackBlock") {
						found = true
						ok := false
						for _, later := range list[i+1:] {
							if es, isExpr := later.(*ast.ExprStmt); isExpr {
								if c, isCall := es.X.(*ast.CallExpr); isCall && strings.HasSuffix(exprString(c.Fun), "UTXOCache.CleanCache") {
									ok = true
									break
								}
							}
							if anywhere(later, "events.Notify") {
								break
							}
						}
						okAll = okAll && ok
					}
					// nested statement lists
					ast.Inspect(st, func(n ast.Node) bool {
						switch x := n.(type) {
						case *ast.BlockStmt:
							checkList(x.List)
							return false
						case *ast.CaseClause:
							checkList(x.Body)
							return false
						case *ast.CommClause:
							checkList(x.Body)
							return false
						}
						return true
					})
				}
			}
			checkList(fd.Body.List)
			if found {
				f.rollbackSites[fd.Name.Name] = okAll
			}
		}
	}

	// 2. assignments to fields of a block obtained from the block cache
	filepath.Walk(e.run.Repo, func(path string, info os.FileInfo, err error) error {
		if err != nil {
			return nil
		}
		if info.IsDir() {
			b := info.Name()
			if b == ".git" || b == "vendor" || b == "test" || b == "benchmark" {
				return filepath.SkipDir
			}
			return nil
		}
		if !strings.HasSuffix(path, ".go") || strings.HasSuffix(path, "_test.go") {
			return nil
		}
		af, err := parser.ParseFile(fset, path, nil, 0)
		if err != nil {
			return nil
		}
		for _, d := range af.Decls {
			fd, ok := d.(*ast.FuncDecl)
			if !ok || fd.Body == nil {
				continue
			}
			tainted := map[string]bool{}
			ast.Inspect(fd.Body, func(n ast.Node) bool {
				as, ok := n.(*ast.AssignStmt)
				if !ok {
					return true
				}
				// v, _ := X.GetBlock(..) / X.GetDposBlockByHash(..)
				if len(as.Rhs) == 1 {
					if c, ok := as.Rhs[0].(*ast.CallExpr); ok {
						nm := selName(c.Fun)
						if nm == "GetBlock" || nm == "GetDposBlockByHash" {
							if id, ok := as.Lhs[0].(*ast.Ident); ok && id.Name != "_" {
								tainted[id.Name] = true
							}
						}
					}
				}
				for _, l := range as.Lhs {
					if s, ok := l.(*ast.SelectorExpr); ok {
						if id, ok := s.X.(*ast.Ident); ok && tainted[id.Name] {
							switch s.Sel.Name {
							case "HaveConfirm", "Confirm", "Block", "Header", "Transactions":
								rel, _ := filepath.Rel(e.run.Repo, path)
								f.mutationSites = append(f.mutationSites, fmt.Sprintf("%s:%s:%s.%s",
									rel, fd.Name.Name, id.Name, s.Sel.Name))
							}
						}
					}
				}
				return true
			})
		}
		return nil
	})
	sort.Strings(f.mutationSites)

	// facts for Coq
	var sb strings.Builder
	sb.WriteString("(* generated by harness/cmd/c15 from " + e.run.Repo + " on every run; do not edit *)\n")
	sb.WriteString("From Coq Require Import List String Bool.\nImport ListNotations.\nLocal Open Scope string_scope.\n")
	names := []string{}
	for k := range f.rollbackSites {
		names = append(names, k)
	}
	sort.Strings(names)
	items := []string{}
	for _, k := range names {
		items = append(items, fmt.Sprintf("(\"%s\", %v)", k, f.rollbackSites[k]))
	}
	sb.WriteString("(* BlockChain methods calling RollbackBlock; true = UTXOCache.CleanCache() follows before events.Notify *)\n")
	sb.WriteString("Definition rollback_sites : list (string * bool) := " + coqList(items) + ".\n")
	items = nil
	for _, s := range f.mutationSites {
		items = append(items, "\""+s+"\"")
	}
	sb.WriteString("(* assignments to a field of a *DposBlock obtained from GetBlock / GetDposBlockByHash *)\n")
	sb.WriteString("Definition alias_mutation_sites : list string := " + coqList(items) + ".\n")
	gen := "/verif/coq/gen/C15_facts.v"
	old, _ := os.ReadFile(gen)
	if string(old) != sb.String() {
		os.MkdirAll(filepath.Dir(gen), 0o755)
		if err := os.WriteFile(gen, []byte(sb.String()), 0o644); err != nil {
			panic(err)
		}
	}
	e.st.Extra["rollback_sites"] = f.rollbackSites
	e.st.Extra["alias_mutation_sites"] = f.mutationSites
	if len(f.rollbackSites) == 0 {
		e.st.Fail("scan:no-rollback-site", "no BlockChain method calling RollbackBlock was found (anchor moved)", nil)
	}
	return f
}

// cleanAfterRollback says whether every rollback site invalidates the UTXO
// cache after the store change.
func (f *srcFacts) cleanAfterRollback() bool {
	for _, ok := range f.rollbackSites {
		if !ok {
			return false
		}
	}
	return len(f.rollbackSites) > 0
}
