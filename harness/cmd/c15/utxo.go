package main

import (
	"bytes"
	"errors"
	"fmt"
	"sort"
	"strings"

	"github.com/elastos/Elastos.ELA/blockchain"
	elacommon "github.com/elastos/Elastos.ELA/common"
	"github.com/elastos/Elastos.ELA/common/config"
	common2 "github.com/elastos/Elastos.ELA/core/types/common"
	"github.com/elastos/Elastos.ELA/core/types/interfaces"
)

// mockStore is the IUTXOCacheStore behind the UTXOCache: a map that the trace
// changes the way connect/rollback change the real store.  Every successful
// read-through records the TxCache key set at that moment, which determines
// the victims of each insertTransaction (Go map iteration order).
type mockStore struct {
	txs   map[elacommon.Uint256]interfaces.Transaction
	cache *blockchain.UTXOCache
	snaps []map[elacommon.Uint256]bool
	gets  int
}

func (m *mockStore) GetTransaction(txID elacommon.Uint256) (interfaces.Transaction, uint32, error) {
	m.gets++
	tx, ok := m.txs[txID]
	if !ok {
		return nil, 0, errors.New("leveldb: not found")
	}
	s := map[elacommon.Uint256]bool{}
	for k := range m.cache.TxCache {
		s[k] = true
	}
	m.snaps = append(m.snaps, s)
	return tx, 0, nil
}

type utxoWorld struct {
	pool  []interfaces.Transaction
	ids   map[elacommon.Uint256]int // txid -> small id (1-based)
	store *mockStore
	cache *blockchain.UTXOCache
	max   int
}

type uOp struct {
	kind   string // ref tx clean cleantx add del
	tx     int    // small id (tx/add/del)
	inputs [][3]int
}

func newUtxoWorld(max int) *utxoWorld {
	w := &utxoWorld{ids: map[elacommon.Uint256]int{}, max: max}
	for i := 0; i < 8; i++ {
		n := 1 + i%3
		vals := make([]int64, n)
		for j := range vals {
			vals[j] = int64((i+1)*10 + j)
		}
		tx := mkTx(common2.TransferAsset, []*common2.Input{{Previous: common2.OutPoint{Index: uint16(i)}}}, vals, uint32(i))
		w.pool = append(w.pool, tx)
		w.ids[tx.Hash()] = i + 1
	}
	w.store = &mockStore{txs: map[elacommon.Uint256]interfaces.Transaction{}}
	blockchain.MaxReferenceSize = max
	w.cache = blockchain.NewUTXOCache(w.store, &config.Configuration{})
	w.store.cache = w.cache
	return w
}

func (w *utxoWorld) txKeys() []int {
	ks := []int{}
	for k := range w.cache.TxCache {
		ks = append(ks, w.ids[k])
	}
	sort.Ints(ks)
	return ks
}

func inputTerm(in common2.Input, ids map[elacommon.Uint256]int) string {
	return fmt.Sprintf("(%d, %d, %d)", ids[in.Previous.TxID], in.Previous.Index, in.Sequence)
}

func (w *utxoWorld) obs() string {
	ins := []string{}
	for el := w.cache.Inputs.Front(); el != nil; el = el.Next() {
		ins = append(ins, inputTerm(el.Value.(common2.Input), w.ids))
	}
	refs := []string{}
	for k, v := range w.cache.Reference {
		refs = append(refs, fmt.Sprintf("(%s, %d)", inputTerm(k, w.ids), int64(v.Value)))
	}
	sort.Strings(refs)
	return fmt.Sprintf("(%s, %s, %s)", coqList(ins), coqList(refs), coqNs(w.txKeys()))
}

// victims of the insertions of the last operation, from the snapshots
func (w *utxoWorld) victims() []int {
	var vs []int
	for k, s := range w.store.snaps {
		var next map[elacommon.Uint256]bool
		if k+1 < len(w.store.snaps) {
			next = w.store.snaps[k+1]
		} else {
			next = map[elacommon.Uint256]bool{}
			for h := range w.cache.TxCache {
				next[h] = true
			}
		}
		var v []int
		for h := range s {
			if !next[h] {
				v = append(v, w.ids[h])
			}
		}
		sort.Ints(v)
		vs = append(vs, v...)
	}
	return vs
}

func sameOutput(a, b *common2.Output) bool {
	ba, bb := new(bytes.Buffer), new(bytes.Buffer)
	a.Serialize(ba, common2.TxVersion09)
	b.Serialize(bb, common2.TxVersion09)
	return bytes.Equal(ba.Bytes(), bb.Bytes())
}

// apply runs one operation on the real UTXOCache; returns the Coq term of the
// step (op, result, observation) and evaluates the oracle when asked.
func (w *utxoWorld) apply(e *env, op uOp, oracle bool, trace *[]string, hit *bool, sig string) string {
	w.store.snaps, w.store.gets = nil, 0
	var opT, resT string
	switch op.kind {
	case "ref":
		ins := make([]*common2.Input, len(op.inputs))
		its := make([]string, len(op.inputs))
		for i, x := range op.inputs {
			ins[i] = &common2.Input{Previous: common2.OutPoint{TxID: w.pool[x[0]-1].Hash(), Index: uint16(x[1])}, Sequence: uint32(x[2])}
			its[i] = fmt.Sprintf("(%d, %d, %d)", x[0], x[1], x[2])
		}
		spender := mkTx(common2.TransferAsset, ins, []int64{1}, 99)
		refs, err := w.cache.GetTxReference(spender)
		// uncached answer, straight from the store
		var want []*common2.Output
		wantErr := ""
		for _, in := range ins {
			tx, ok := w.store.txs[in.Previous.TxID]
			if !ok {
				wantErr = "notfound"
				break
			}
			if int(in.Previous.Index) >= len(tx.Outputs()) {
				wantErr = "oor"
				break
			}
			want = append(want, tx.Outputs()[in.Previous.Index])
		}
		gotErr := ""
		if err != nil {
			gotErr = "notfound"
			if strings.Contains(err.Error(), "refIdx out of range") {
				gotErr = "oor"
			}
		}
		switch gotErr {
		case "":
			vals := []int{}
			for _, in := range ins {
				vals = append(vals, int(refs[in].Value))
			}
			resT = "RRefs " + coqNs(vals)
		case "oor":
			resT = "ROOR"
		default:
			resT = "RNotFound"
		}
		if w.store.gets == 0 && err == nil {
			*hit = true
		}
		if oracle {
			bad := gotErr != wantErr
			if !bad && err == nil {
				for i, in := range ins {
					o := refs[in]
					if !sameOutput(&o, want[i]) {
						bad = true
					}
				}
			}
			if bad {
				e.st.Fail(sig, "UTXOCache.GetTxReference answers differently from the store (cached "+gotErr+"/ok vs uncached "+wantErr+"/ok)",
					map[string]interface{}{"max": w.max, "trace": append(append([]string{}, *trace...), "GetTxReference "+strings.Join(its, " "))})
			}
		}
		opT = fmt.Sprintf("UGetRef %s %s", coqList(its), coqNs(w.victims()))
		*trace = append(*trace, "GetTxReference "+strings.Join(its, " "))
	case "tx":
		h := w.pool[op.tx-1].Hash()
		tx, err := w.cache.GetTransaction(h)
		stx, ok := w.store.txs[h]
		if err == nil {
			vals := []int{}
			for _, o := range tx.Outputs() {
				vals = append(vals, int(o.Value))
			}
			resT = "RTx " + coqNs(vals)
		} else {
			resT = "RNotFound"
		}
		if w.store.gets == 0 && err == nil {
			*hit = true
		}
		if oracle && ((err == nil) != ok || (ok && tx.Hash() != stx.Hash())) {
			e.st.Fail(sig, "UTXOCache.GetTransaction answers differently from the store",
				map[string]interface{}{"max": w.max, "trace": append(append([]string{}, *trace...), fmt.Sprintf("GetTransaction %d", op.tx))})
		}
		opT = fmt.Sprintf("UGetTx %d %s", op.tx, coqNs(w.victims()))
		*trace = append(*trace, fmt.Sprintf("GetTransaction %d", op.tx))
	case "clean":
		w.cache.CleanCache()
		opT, resT = "UClean", "RUnit"
		*trace = append(*trace, "CleanCache")
	case "cleantx":
		w.cache.CleanTxCache()
		opT, resT = "UCleanTx", "RUnit"
		*trace = append(*trace, "CleanTxCache")
	case "add":
		tx := w.pool[op.tx-1]
		w.store.txs[tx.Hash()] = tx
		vals := []int{}
		for _, o := range tx.Outputs() {
			vals = append(vals, int(o.Value))
		}
		opT, resT = fmt.Sprintf("UStoreAdd %d %s", op.tx, coqNs(vals)), "RUnit"
		*trace = append(*trace, fmt.Sprintf("store+%d", op.tx))
	case "del":
		delete(w.store.txs, w.pool[op.tx-1].Hash())
		opT, resT = fmt.Sprintf("UStoreDel %d", op.tx), "RUnit"
		*trace = append(*trace, fmt.Sprintf("store-%d", op.tx))
	}
	// bounds, after every operation
	if w.max >= 1 && (w.cache.Inputs.Len() > w.max || len(w.cache.Reference) > w.max || len(w.cache.TxCache) > w.max+1) {
		e.st.Fail("UTXOCache:bound", "UTXOCache exceeds MaxReferenceSize",
			map[string]interface{}{"max": w.max, "inputs": w.cache.Inputs.Len(), "reference": len(w.cache.Reference), "txcache": len(w.cache.TxCache), "trace": *trace})
	}
	return fmt.Sprintf("(%s, %s, %s)", opT, resT, w.obs())
}

func (w *utxoWorld) inStore() (in, out []int) {
	for i, tx := range w.pool {
		if _, ok := w.store.txs[tx.Hash()]; ok {
			in = append(in, i+1)
		} else {
			out = append(out, i+1)
		}
	}
	return
}

func (w *utxoWorld) randInputs(e *env) [][3]int {
	n := 1 + e.rng.Intn(3)
	res := make([][3]int, n)
	for i := range res {
		t := 1 + e.rng.Intn(len(w.pool))
		idx := e.rng.Intn(len(w.pool[t-1].Outputs()))
		if e.rng.Chance(8) {
			idx = len(w.pool[t-1].Outputs()) + e.rng.Intn(2)
		}
		res[i] = [3]int{t, idx, e.rng.Intn(2)}
	}
	return res
}

func (e *env) emitUtxo(w *utxoWorld, steps []string, trace []string, nontrivial bool, kind string) {
	id := e.next()
	e.sh.Add(fmt.Sprintf("CUtxo %d %d %s", id, w.max, coqList(steps)))
	e.st.LogCase(e.run.Out, id, map[string]interface{}{"cache": "UTXOCache", "kind": kind, "max": w.max, "trace": trace})
	e.st.Count("u:"+fmt.Sprint(w.max)+":"+strings.Join(trace, ";"), nontrivial, "utxo:"+kind)
}

func runUtxo(e *env, facts *srcFacts) {
	// ---- corpus 1: the reorganisation schedule of BlockChain.reorganizeChain
	// with the ETBlockDisconnected handler of netsync (MaybeAcceptTransaction ->
	// GetTxReference on the transactions of the block just disconnected), as
	// the scanned source orders CleanCache / RollbackBlock / events.Notify.
	// Block N-1 contains tx 1, block N contains tx 2 spending output 0 of tx 1.
	{
		w := newUtxoWorld(3)
		var steps, trace []string
		hit := false
		do := func(op uOp, oracle bool) {
			steps = append(steps, w.apply(e, op, oracle, &trace, &hit, "UTXOCache:reorg-stale-reference"))
		}
		do(uOp{kind: "add", tx: 1}, false)
		do(uOp{kind: "add", tx: 2}, false)
		do(uOp{kind: "ref", inputs: [][3]int{{1, 0, 0}}}, true) // tx 2 validated when its block was connected
		fixed := facts.cleanAfterRollback()
		do(uOp{kind: "clean"}, false) // reorganizeChain: CleanCache before the first disconnect
		// disconnect block N (tx 2)
		do(uOp{kind: "del", tx: 2}, false)
		if fixed {
			do(uOp{kind: "clean"}, false)
		}
		do(uOp{kind: "ref", inputs: [][3]int{{1, 0, 0}}}, true) // handler re-validates tx 2: caches (tx1,0)
		// disconnect block N-1 (tx 1)
		do(uOp{kind: "del", tx: 1}, false)
		if fixed {
			do(uOp{kind: "clean"}, false)
		}
		// after the reorganisation: tx 2 arrives again (mempool / new block)
		do(uOp{kind: "ref", inputs: [][3]int{{1, 0, 0}}}, true)
		e.emitUtxo(w, steps, trace, true, "corpus-reorg")
		e.st.Sample(map[string]interface{}{"cache": "UTXOCache", "kind": "corpus-reorg", "clean_after_rollback": fixed, "trace": trace})
	}
	// ---- corpus 2: eviction of the oldest reference, max = 2
	{
		w := newUtxoWorld(2)
		var steps, trace []string
		hit := false
		for _, op := range []uOp{{kind: "add", tx: 1}, {kind: "add", tx: 2}, {kind: "add", tx: 3}, {kind: "add", tx: 4},
			{kind: "ref", inputs: [][3]int{{1, 0, 0}, {2, 0, 0}, {2, 1, 0}}}, {kind: "ref", inputs: [][3]int{{1, 0, 0}}},
			{kind: "ref", inputs: [][3]int{{3, 2, 1}, {3, 2, 0}, {4, 0, 0}}}, {kind: "tx", tx: 1}, {kind: "ref", inputs: [][3]int{{2, 5, 0}}},
			{kind: "cleantx"}, {kind: "ref", inputs: [][3]int{{4, 0, 0}, {5, 0, 0}}}, {kind: "clean"}, {kind: "tx", tx: 6}} {
			steps = append(steps, w.apply(e, op, true, &trace, &hit, "UTXOCache:lookup"))
		}
		e.emitUtxo(w, steps, trace, true, "corpus-evict")
	}
	// ---- generated traces
	for i := 0; i < e.run.N(120, 6000); i++ {
		max := 1 + e.rng.Intn(4)
		disciplined := e.rng.Chance(70)
		w := newUtxoWorld(max)
		var steps, trace []string
		hit, changed, nontrivial := false, false, false
		nops := 8 + e.rng.Intn(25)
		for k := 0; k < nops; k++ {
			in, out := w.inStore()
			var ops []uOp
			switch r := e.rng.Intn(100); {
			case r < 45:
				ops = []uOp{{kind: "ref", inputs: w.randInputs(e)}}
			case r < 60:
				ops = []uOp{{kind: "tx", tx: 1 + e.rng.Intn(len(w.pool))}}
			case r < 65:
				ops = []uOp{{kind: "clean"}}
			case r < 72:
				ops = []uOp{{kind: "cleantx"}}
			case r < 88 || len(in) == 0:
				if len(out) == 0 {
					continue
				}
				ops = []uOp{{kind: "add", tx: out[e.rng.Intn(len(out))]}}
			default:
				ops = []uOp{{kind: "del", tx: in[e.rng.Intn(len(in))]}}
				if disciplined {
					// a block is rolled back: possibly several transactions, then CleanCache
					if len(in) > 1 && e.rng.Chance(40) {
						t2 := in[e.rng.Intn(len(in))]
						if t2 != ops[0].tx {
							ops = append(ops, uOp{kind: "del", tx: t2})
						}
					}
					ops = append(ops, uOp{kind: "clean"})
				}
			}
			for _, op := range ops {
				h := false
				steps = append(steps, w.apply(e, op, disciplined, &trace, &h, "UTXOCache:lookup"))
				if op.kind == "clean" || op.kind == "cleantx" || op.kind == "del" || w.cache.Inputs.Len() == max {
					changed = true
				}
				if h && changed {
					nontrivial = true
				}
				hit = hit || h
			}
		}
		kind := "free"
		if disciplined {
			kind = "disciplined"
		}
		e.emitUtxo(w, steps, trace, nontrivial, kind)
		if i == 0 {
			e.st.Sample(map[string]interface{}{"cache": "UTXOCache", "kind": kind, "max": max, "trace": trace})
		}
	}
}
