// C30 correspondence + oracle: forks across the last irreversible height on the
// real BlockChain + DPoS State of the regnet fixture.  The State reads a
// private copy of the parameters with CRCOnlyDPOSHeight / RevertToPOWStartHeight
// lowered (the rest of the node keeps regnet's rules); the consensus mode and
// the resume condition follow per-block bits, forced through
// State.ConsensusAlgorithm / State.DPOSWorkHeight from event callbacks.
// Compared with coq/model/Chain.v (active chain and LIH after every delivery).
// Oracle: every block disconnected during a delivery is above the LIH read
// before the delivery; LIH does not decrease.
package main

import (
	"fmt"
	"os"

	"verifharness/chaincase"
	"verifharness/elaenv"
	"verifharness/lib"
)

const sigLihDrop = "tryUpdateLastIrreversibleHeight: LIH lowered by a forward step after a rollback left it above DPOSStartHeight"

// modes: trunk/fork mode bit as a function of height
type modeFn func(h int) (dpos, resume bool)

func build(trunk int, forkAt, forkLen int, invalidAt int, mt, mf modeFn) []chaincase.Blk {
	var bs []chaincase.Blk
	prev := 0
	for h := 1; h <= trunk; h++ {
		d, r := mt(h)
		bs = append(bs, chaincase.Blk{ID: len(bs) + 1, Parent: prev, Dpos: d, Resume: r})
		prev = len(bs)
	}
	prev = forkAt // trunk block ids equal their heights
	for k := 1; k <= forkLen; k++ {
		d, r := mf(forkAt + k)
		kind := chaincase.Valid
		if k == invalidAt {
			kind = chaincase.BadSpend
		}
		bs = append(bs, chaincase.Blk{ID: len(bs) + 1, Parent: prev, Kind: kind, Dpos: d, Resume: r})
		prev = len(bs)
	}
	return bs
}

func main() {
	run := lib.ParseArgs()
	elaenv.InitLog(run.Out)
	rng := lib.NewRng(run.Seed)
	st := lib.NewStats("C30", "real regnet BlockChain + DPoS State (fixture) with the State's guard heights lowered (CRCOnlyDPOSHeight 1-3, RevertToPOWStartHeight 7-9): trunk of 8-14 blocks, one fork of 1-11 blocks starting 1-10 below the tip (across LIH), consensus mode per block: all DPoS / all PoW / one switch either way (with or without the resume condition), optionally one context-invalid block in the fork, fork delivered in order or as orphans first; plus persistent forks: DPoS then PoW (LIH frozen), a side chain forking at or up to 3 below LIH that keeps growing block by block until it is 3+ higher than the trunk. nontrivial = history with LIH > 0 and a fork heavier than the trunk; distinct by observation log")
	sh := &lib.Shards{Dir: run.Out, Imports: "From ELA Require Import corr.C30_corr.", CaseType: "C30_corr.case",
		Mismatch: "C30_corr.mismatches", Scope: "Z", PerShard: 8}
	if run.Thorough() {
		sh.PerShard = 40
	}
	id := 0

	doHist := func(h *chaincase.Hist) {
		id++
		obs, works, err := chaincase.Run(h)
		if err != nil {
			fmt.Fprintln(os.Stderr, "history", h.Name, ":", err)
			st.Fail("C30:harness", "history could not be executed: "+err.Error(), h)
			return
		}
		sh.Add(chaincase.CoqCase("Hist", id, h, obs, works, 10000))
		st.LogCase(run.Out, id, map[string]interface{}{"hist": h, "obs": obs})
		key := ""
		rolledBack := false
		maxLih := uint32(0)
		heavier := false
		for _, o := range obs {
			key += fmt.Sprintf("%d:%v%v%v:%v:%d|", o.Blk, o.InMain, o.Orphan, o.Err, o.Main, o.Lih)
			for _, dh := range o.Detached {
				if uint32(dh) <= o.LihBefore {
					st.Fail("C30:detached-at-or-below-lih", fmt.Sprintf("block at height %d disconnected while LIH was %d", dh, o.LihBefore),
						map[string]interface{}{"hist": h, "at": o})
				}
			}
			if len(o.Detached) > 0 {
				rolledBack = true
				heavier = true
			}
			// forward steps: the DPoS state processes a connected block between the
			// sample taken at its connect event and the next sample
			for i, ev := range o.Events {
				if ev <= 0 {
					continue
				}
				next := o.Lih
				if i+1 < len(o.Events) {
					if o.Events[i+1] < 0 {
						continue
					}
					next = o.LihTrace[i+1]
				}
				if next < o.LihTrace[i] {
					sig := "C30:lih-decreased-forward"
					if rolledBack {
						sig = sigLihDrop
					}
					st.Fail(sig, fmt.Sprintf("LIH went from %d to %d when the block at height %d was connected (delivery of block %d, events %v)",
						o.LihTrace[i], next, ev, o.Blk, o.Events), map[string]interface{}{"hist": h, "at": o})
				}
			}
			if o.Lih > maxLih {
				maxLih = o.Lih
			}
		}
		kind := "no-reorg"
		if heavier {
			kind = "reorg"
		}
		st.Count(key, maxLih > 0, kind)
		if id <= 3 {
			st.Sample(map[string]interface{}{"hist": h.Name, "last": obs[len(obs)-1]})
		}
	}

	allDpos := func(h int) (bool, bool) { return true, false }
	allPow := func(h int) (bool, bool) { return false, false }
	order := func(n int) []int {
		o := make([]int, n)
		for i := range o {
			o[i] = i + 1
		}
		return o
	}
	mk := func(name string, bs []chaincase.Blk, crc, rs uint32, ord []int) *chaincase.Hist {
		return &chaincase.Hist{Name: name, Blocks: bs, Order: ord, Irr: true, CRC: crc, RS: rs}
	}
	// ---- corpus
	// DPoS, LIH = 4 at height 10: 2-deep fork performed, LIH 4 -> 5
	doHist(mk("dpos-fork2", build(10, 8, 3, 0, allDpos, allDpos), 1, 7, order(13)))
	// failed switch in DPoS mode: LIH drops 4 -> 3 (known finding witness)
	doHist(mk("dpos-fork2-failed", build(10, 8, 3, 2, allDpos, allDpos), 1, 7, order(13)))
	// 7-deep fork refused by the guard (depth >= 6 in DPoS mode)
	doHist(mk("dpos-deep-refused", build(10, 3, 8, 0, allDpos, allDpos), 1, 7, order(18)))
	// fork point exactly at LIH / one above / one below, PoW mode after initialisation
	for _, fp := range []int{1, 2, 3} {
		// PoW: LIH initialised at height 7 to 1 and frozen
		doHist(mk(fmt.Sprintf("pow-forkpoint-%d", fp), build(10, fp, 10-fp+1, 0, allPow, allPow), 0, 7, order(10+10-fp+1)))
	}
	// switch PoW -> DPoS with the resume condition: LIH jumps above the tip
	doHist(mk("resume", build(14, 12, 3, 0, func(h int) (bool, bool) { return h >= 10, h == 11 }, allDpos), 1, 7, order(17)))
	// below CRCOnlyDPOSHeight the guard is off
	doHist(mk("guard-off-low", build(5, 1, 5, 0, allDpos, allDpos), 8, 9, order(10)))

	// ---- persistent forks below a frozen LIH: DPoS up to height sw (LIH follows
	// at sw-6), then PoW (LIH frozen at L), the trunk goes on for g blocks; a
	// side chain forks at L-r (r = 0..3, at or below L) and keeps growing,
	// block after block, until it is r+3 higher than the trunk.  Every attempt
	// must be refused: the fork point never moves.
	persistent := func(name string, sw, g, r int, rs uint32) {
		L := sw - 6
		if r > L {
			r = L
		}
		trunk := sw + g
		f := L - r
		mt := func(h int) (bool, bool) { return h < sw, false }
		bs := build(trunk, f, trunk-f+r+3, 0, mt, allPow)
		doHist(mk(name, bs, 1, rs, order(len(bs))))
	}
	persistent("frozen-lih-persistent-fork", 10, 3, 2, 7)
	for i := 0; i < run.N(4, 100); i++ {
		r := rng.Fork()
		persistent(fmt.Sprintf("persist-%d", i), r.Range(9, 14), r.Range(1, 5), r.Range(0, 3), uint32(r.Range(7, 8)))
	}

	// ---- the guard itself on an exhaustive small grid (model in the shards; here
	// the safety arithmetic: a pass means the fork point is above LIH)
	{
		maxCur := 16
		for _, crc := range []uint32{0, 3, 12} {
			for _, rs := range []uint32{5, 10, 14} {
				outs, err := chaincase.GuardGrid(crc, rs, maxCur)
				if err != nil {
					st.Fail("C30:harness", "guard grid could not be executed: "+err.Error(), nil)
					break
				}
				id++
				sh.Add(chaincase.CoqGuardGrid(id, crc, rs, maxCur, outs))
				st.LogCase(run.Out, id, map[string]interface{}{"guard_grid": []uint32{crc, rs}})
				k, bad := 0, 0
				for _, dpos := range []bool{false, true} {
					for _, l := range chaincase.GuardGridLs {
						for cur := 0; cur <= maxCur; cur++ {
							for d := 0; d <= maxCur+1; d++ {
								got := outs[k]
								k++
								if d <= cur && uint32(cur) > crc && !got && uint32(cur-d) <= l && bad < 3 {
									bad++
									st.Fail("C30:guard-passes-fork-at-or-below-lih", fmt.Sprintf("IsIrreversible(cur=%d, detach=%d) = false with LIH=%d dpos=%v CRCOnlyDPOSHeight=%d RevertToPOWStartHeight=%d: fork point %d is not above LIH",
										cur, d, l, dpos, crc, rs, cur-d), map[string]interface{}{"crc": crc, "rs": rs, "dpos": dpos, "lih": l, "cur": cur, "detach": d})
								}
							}
						}
					}
				}
				st.Count(fmt.Sprintf("grid:%d:%d", crc, rs), true, "guard-grid")
			}
		}
	}

	// ---- generated
	n := run.N(40, 600)
	for i := 0; i < n; i++ {
		r := rng.Fork()
		trunk := r.Range(8, 14)
		crc := uint32(r.Range(1, 3))
		rs := uint32(r.Range(7, 9))
		sw := r.Range(2, trunk)
		res := r.Chance(50)
		var mt modeFn
		switch r.Intn(4) {
		case 0:
			mt = allDpos
		case 1:
			mt = allPow
		case 2: // PoW then DPoS
			mt = func(h int) (bool, bool) { return h >= sw, res && h == sw+1 }
		default: // DPoS then PoW
			mt = func(h int) (bool, bool) { return h < sw, false }
		}
		mf := mt
		if r.Chance(30) {
			fm := r.Bool()
			mf = func(h int) (bool, bool) { return fm, false }
		}
		depth := r.Range(1, 10)
		if depth > trunk {
			depth = trunk
		}
		forkAt := trunk - depth
		forkLen := depth + 1
		if r.Chance(20) {
			forkLen = r.Range(1, depth)
		}
		inv := 0
		if r.Chance(25) {
			inv = r.Range(1, forkLen)
		}
		bs := build(trunk, forkAt, forkLen, inv, mt, mf)
		ord := order(len(bs))
		if r.Chance(30) { // fork as orphans first: deliver the fork in reverse
			for a, b := trunk, len(ord)-1; a < b; a, b = a+1, b-1 {
				ord[a], ord[b] = ord[b], ord[a]
			}
		}
		doHist(mk(fmt.Sprintf("gen-%d", i), bs, crc, rs, ord))
	}
	st.Traces = st.Evals
	sh.Flush()
	st.Write(run.Out)
}
