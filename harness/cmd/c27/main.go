// C27 correspondence and oracle: Arbiters.distributeDPOSReward of /repo
// (through the verif hook dpos/state/export_verif_c27.go) against
// coq/model/C27_Reward.v.
package main

import (
	"encoding/hex"
	"fmt"
	"math"
	"math/big"
	"sort"

	"github.com/elastos/Elastos.ELA/common"
	"github.com/elastos/Elastos.ELA/common/config"
	"github.com/elastos/Elastos.ELA/core/types/payload"
	crstate "github.com/elastos/Elastos.ELA/cr/state"
	"github.com/elastos/Elastos.ELA/dpos/state"

	"verifharness/elaenv"
	"verifharness/lib"
)

// ---- registry: program hash -> small id
type registry struct {
	ids map[common.Uint168]int
}

func (r *registry) id(h common.Uint168) int {
	if v, ok := r.ids[h]; ok {
		return v
	}
	v := len(r.ids) + 1
	r.ids[h] = v
	return v
}

// keyBytes returns a distinct owner/node key of 8 bytes (not 33: hashed as is)
func keyBytes(n int) []byte {
	return []byte{0xa0, byte(n >> 16), byte(n >> 8), byte(n), 0x55, 0x66, 0x77, 0x88}
}

// badKey33 is a 33-byte key that is not a curve point
func badKey33() []byte {
	b := make([]byte, 33)
	b[0] = 0x02
	for i := 1; i < 33; i++ {
		b[i] = 0xff
	}
	return b
}

func hashOf(key []byte) (common.Uint168, bool) {
	h, err := state.GetOwnerKeyStandardProgramHash(key)
	if err != nil {
		return common.Uint168{}, false
	}
	return *h, true
}

type arbSpec struct {
	Kind     string // origin | dpos | crc
	InMap    bool
	Elected  bool
	NoDposPK bool
	BadPK    bool   // crc: owner public key in the CR code is not a curve point
	Prod     string // crc, V3: "" = no node->owner entry, "ok" = entry, "badhex", "bad33"
}

type caseIn struct {
	Arbs          []arbSpec
	NCands        int
	DupCand       bool // last candidate repeats an arbiter's owner
	Votes         []int64
	ExtraVotes    int
	Total         int64
	CRCCount      int
	NormalCount   int
	Pow           bool
	HV1, HV2, HV3 uint32
	H             uint32
	Reward        int64
}

type obs struct {
	Verdict string
	Map     [][2]int64 // (id, value) sorted by id
	Change  int64
}

func coqOptZ(ok bool, v int) string { return lib.CoqOpt(ok, fmt.Sprintf("%d", v)) }

// build constructs the real Arbiters and the Coq description of the same state.
func build(c *caseIn) (*state.Arbiters, *registry, string) {
	reg := &registry{ids: map[common.Uint168]int{}}
	params := config.GetDefaultParams()
	var dh, ch common.Uint168
	dh[0], dh[20] = 0x21, 0xd1
	ch[0], ch[20] = 0x21, 0xc1
	params.DestroyELAProgramHash = &dh
	params.CRConfiguration.CRCProgramHash = &ch
	destroy, crc := reg.id(dh), reg.id(ch)
	params.DPoSConfiguration.CRCArbiters = make([]string, c.CRCCount)
	params.DPoSConfiguration.NormalArbitratorsCount = c.NormalCount
	params.CRConfiguration.CRCommitteeStartHeight = c.HV1
	params.CRConfiguration.CRClaimDPOSNodeStartHeight = c.HV2
	params.CRConfiguration.ChangeCommitteeNewCRHeight = c.HV3

	var arbs, cands []state.ArbiterMember
	crcMap := map[common.Uint168]state.ArbiterMember{}
	nodeOwner := map[string]string{}
	votes := map[common.Uint168]common.Fixed64{}
	var coqArbs, coqCands, coqVotes []string
	vi := 0
	nextVote := func() int64 {
		if vi < len(c.Votes) {
			vi++
			return c.Votes[vi-1]
		}
		return 0
	}
	var firstOwner common.Uint168
	for i, a := range c.Arbs {
		ownerKey := keyBytes(1000 + i)
		nodeKey := keyBytes(2000 + i)
		var m state.ArbiterMember
		var err error
		pkHash, pkOK := 0, true
		prodHash, prodOK := 0, true
		switch a.Kind {
		case "origin":
			m, err = state.NewOriginArbiter(ownerKey)
			nodeKey = ownerKey
			h, _ := hashOf(ownerKey)
			pkHash = reg.id(h)
		case "dpos":
			p := &state.Producer{}
			p.SetInfo(payload.ProducerInfo{OwnerKey: ownerKey, NodePublicKey: nodeKey})
			m, err = state.NewDPoSArbiter(p)
			h, _ := hashOf(ownerKey)
			pkHash = reg.id(h)
		default:
			codeKey := keyBytes(3000 + i)
			if a.BadPK {
				codeKey = badKey33()
			}
			code := append(append([]byte{byte(len(codeKey))}, codeKey...), 0xac)
			st := crstate.MemberElected
			if !a.Elected {
				st = crstate.MemberInactive
			}
			mem := &crstate.CRMember{Info: payload.CRInfo{Code: code}, MemberState: st}
			if !a.NoDposPK {
				mem.DPOSPublicKey = nodeKey
			}
			m, err = state.NewCRCArbiter(nodeKey, ownerKey, mem, true)
			if h, ok := hashOf(codeKey); ok {
				pkHash = reg.id(h)
			} else {
				pkOK = false
			}
		}
		if err != nil {
			panic(err)
		}
		// V3 producer key lookup for this node key
		switch a.Prod {
		case "ok":
			pk := keyBytes(4000 + i)
			nodeOwner[hex.EncodeToString(nodeKey)] = hex.EncodeToString(pk)
			h, _ := hashOf(pk)
			prodHash = reg.id(h)
			if i < len(c.Votes) && a.Kind == "crc" {
				votes[h] = common.Fixed64(nextVote())
			}
		case "badhex":
			nodeOwner[hex.EncodeToString(nodeKey)] = "zz"
			prodOK = false
		case "bad33":
			nodeOwner[hex.EncodeToString(nodeKey)] = hex.EncodeToString(badKey33())
			prodOK = false
		default:
			h, _ := hashOf(nodeKey)
			prodHash = reg.id(h)
		}
		oh := m.GetOwnerProgramHash()
		if i == 0 {
			firstOwner = oh
		}
		if a.InMap {
			crcMap[oh] = m
		}
		if a.Kind != "crc" || !a.InMap {
			votes[oh] = common.Fixed64(nextVote())
		}
		arbs = append(arbs, m)
		coqArbs = append(coqArbs, fmt.Sprintf("Build_arb %d %s %s %s %s %s %s", reg.id(oh), lib.CoqBool(a.InMap), lib.CoqBool(a.Kind == "crc"),
			lib.CoqBool(a.Elected), lib.CoqBool(a.NoDposPK), coqOptZ(pkOK, pkHash), coqOptZ(prodOK, prodHash)))
	}
	for i := 0; i < c.NCands; i++ {
		key := keyBytes(5000 + i)
		m, err := state.NewOriginArbiter(key)
		if err != nil {
			panic(err)
		}
		oh := m.GetOwnerProgramHash()
		if c.DupCand && i == c.NCands-1 && len(c.Arbs) > 0 {
			m = arbs[0]
			oh = firstOwner
		} else {
			votes[oh] = common.Fixed64(nextVote())
		}
		cands = append(cands, m)
		coqCands = append(coqCands, fmt.Sprintf("%d", reg.id(oh)))
	}
	for i := 0; i < c.ExtraVotes; i++ { // producers that are neither arbiter nor candidate
		h, _ := hashOf(keyBytes(6000 + i))
		votes[h] = common.Fixed64(nextVote())
	}
	type kvp struct {
		k int
		v int64
	}
	var vs []kvp
	for h, v := range votes {
		vs = append(vs, kvp{reg.id(h), int64(v)})
	}
	sort.Slice(vs, func(i, j int) bool { return vs[i].k < vs[j].k })
	for _, x := range vs {
		coqVotes = append(coqVotes, fmt.Sprintf("(%d, %s)", x.k, lib.CoqZi(x.v)))
	}
	alg := state.DPOS
	if c.Pow {
		alg = state.POW
	}
	a := state.NewArbitersVerifC27(params, alg, arbs, cands, crcMap,
		state.RewardData{OwnerVotesInRound: votes, TotalVotesInRound: common.Fixed64(c.Total)}, nodeOwner)
	coq := fmt.Sprintf("(Build_st %s %s %s %s %d %s %s %d %d %d %d %d)", lib.CoqList(coqArbs), lib.CoqList(coqCands), lib.CoqList(coqVotes),
		lib.CoqZi(c.Total), c.CRCCount, lib.CoqZi(int64(c.NormalCount)), lib.CoqBool(c.Pow), destroy, crc, c.HV1, c.HV2, c.HV3)
	return a, reg, coq
}

func runCase(c *caseIn) (obs, *registry, string) {
	a, reg, coq := build(c)
	var m map[common.Uint168]common.Fixed64
	var change common.Fixed64
	var err error
	panicked, _ := lib.Recover(func() { m, change, err = a.DistributeDPOSRewardVerif(c.H, common.Fixed64(c.Reward)) })
	o := obs{}
	switch {
	case panicked:
		o.Verdict = "RPanic"
	case err != nil:
		o.Verdict = "RErr"
	default:
		o.Verdict = "ROk"
		o.Change = int64(change)
		for h, v := range m {
			o.Map = append(o.Map, [2]int64{int64(reg.id(h)), int64(v)})
		}
		sort.Slice(o.Map, func(i, j int) bool { return o.Map[i][0] < o.Map[j][0] })
	}
	return o, reg, coq
}

func (o obs) coq() string {
	if o.Verdict != "ROk" {
		return o.Verdict
	}
	var es []string
	for _, e := range o.Map {
		es = append(es, fmt.Sprintf("(%d, %s)", e[0], lib.CoqZi(e[1])))
	}
	return fmt.Sprintf("(ROk %s %s)", lib.CoqList(es), lib.CoqZi(o.Change))
}

func main() {
	run := lib.ParseArgs()
	elaenv.InitLog(run.Out)
	rng := lib.NewRng(run.Seed)
	st := lib.NewStats("C27", "arbiter sets of 0..36 members (origin / dpos / CRC members: elected or not, with or without DPoS key, in or out of the CRC map, bad owner keys, producer-key lookups incl. panicking ones), 0..36 candidates (optionally repeating an arbiter), vote maps with zeros, equal, skewed and huge values, totals = sum / 0 / 1 / random, rewards 0, 1, 2, 3, 4, small, supply-range, 2^53+-1, 2^62, negative; all four eras selected through the real height test (boundaries -1/0/+1); POW mode; configured counts smaller, equal, larger than the arbiter list. nontrivial = distribution returned a map through the loops (not the early all-to-one-address return); distinct by canonical input+observation")
	sh := &lib.Shards{Dir: run.Out, Imports: "From ELA Require Import lib.GoFloat model.C27_Reward corr.C27_corr.", CaseType: "C27_corr.case",
		Mismatch: "C27_corr.mismatches", Scope: "Z", PerShard: 150}
	id := 0
	rewards := []int64{0, 1, 2, 3, 4, 5, 7, 100, 35 * 304414003 / 100, 36 * 106544901, 3835615668, 1 << 40, 1<<53 - 1, 1 << 53, 1<<53 + 1, 330000000000000000 / 100, 1 << 55, 1 << 60, 1<<62 + 12345,
		math.MaxInt64, -1, -1000, math.MinInt64}
	one := func(c *caseIn, kind string) obs {
		o, _, coq := runCase(c)
		id++
		sh.Add(fmt.Sprintf("CDist %d %s %d %s %s", id, coq, c.H, lib.CoqZi(c.Reward), o.coq()))
		st.LogCase(run.Out, id, map[string]interface{}{"kind": kind, "in": c, "out": o})
		early := len(c.Arbs) == 0 || c.CRCCount == len(c.Arbs)
		st.Count(fmt.Sprintf("%s|%v", coq, o), o.Verdict == "ROk" && !early, kind+":"+o.Verdict)
		// ---- property oracle, evaluated on the implementation's outputs
		in := map[string]interface{}{"in": c, "out": o}
		// a round as the node can produce it: reward within the coin supply, votes
		// non-negative and each at most the round total (a zero total is a round without
		// votes), a configured arbiter count that is not zero
		wellFormed := c.Reward >= 0 && c.Reward <= 1<<55 && c.Total >= 0 && c.CRCCount+c.NormalCount > 0
		var sumVotes big.Int
		for _, v := range c.Votes {
			if v < 0 || v > c.Total {
				wellFormed = false
			}
			sumVotes.Add(&sumVotes, big.NewInt(v))
		}
		if wellFormed {
			st.Hist["wellformed-round:"+o.Verdict]++
		}
		if o.Verdict == "ROk" {
			report := func(s, what string) {
				if !wellFormed {
					// negative reward / votes above the total / zero configured arbiters: not a
					// round the node can produce; recorded in the histogram only
					st.Hist["malformed:"+s]++
					return
				}
				if c.Total == 0 {
					s += ":zero-total-votes"
				}
				st.Fail(s, what, in)
			}
			if o.Change < 0 {
				report("distributeDPOSReward:negative-change", "negative remainder returned")
			}
			if o.Change > c.Reward {
				report("distributeDPOSReward:negative-paid", "remainder larger than the reward (negative amount attributed as paid)")
			}
			var sum big.Int
			for _, e := range o.Map {
				if e[1] < 0 {
					report("distributeDPOSReward:negative-payout", fmt.Sprintf("negative payout %d in the round reward map", e[1]))
					break
				}
			}
			for _, e := range o.Map {
				sum.Add(&sum, big.NewInt(e[1]))
			}
			if tot := new(big.Int).Add(&sum, big.NewInt(o.Change)); wellFormed && tot.Cmp(big.NewInt(c.Reward)) > 0 {
				st.Hist["note:map+change>reward"]++ // abnormal-CR credits: burnt and also left in change
			}
			// payouts + remainder never exceed the pool by more than the abnormal-CR credits
			// (V2/V3: (seats - arbiters) block-confirm shares, each at most reward/4/seats)
			if wellFormed && !early {
				n2 := 2 * uint32(len(c.Arbs))
				seats, n := int64(c.CRCCount+c.NormalCount), int64(len(c.Arbs))
				lim := big.NewInt(c.Reward)
				if (c.H >= c.HV3+n2 || c.H >= c.HV2+n2) && seats > n {
					ex := new(big.Int).Mul(big.NewInt(c.Reward), big.NewInt(seats-n))
					ex.Div(ex, big.NewInt(4*seats))
					lim.Add(lim, ex)
				}
				lim.Add(lim, big.NewInt(1))
				if tot := new(big.Int).Add(&sum, big.NewInt(o.Change)); tot.Cmp(lim) > 0 {
					report("distributeDPOSReward:payouts+change-exceed-pool", fmt.Sprintf("payouts %s + remainder %d exceed the pool %d (+ abnormal-CR credits)", sum.String(), o.Change, c.Reward))
				}
			}
			// map total <= paid + uncounted abnormal-CR credits (<= reward/4 + rounding), when votes add up
			if wellFormed && sumVotes.Cmp(big.NewInt(c.Total)) <= 0 {
				lim := new(big.Int).Sub(big.NewInt(c.Reward), big.NewInt(o.Change))
				extra := new(big.Int).Rsh(big.NewInt(c.Reward), 2)
				lim.Add(lim, extra)
				lim.Add(lim, big.NewInt(1))
				if sum.Cmp(lim) > 0 {
					report("distributeDPOSReward:map-exceeds-paid", "round reward map pays more than paid + reward/4")
				}
			}
		}
		return o
	}

	genArbs := func(n int, era int) []arbSpec {
		var as []arbSpec
		for i := 0; i < n; i++ {
			a := arbSpec{Kind: "origin"}
			switch rng.Intn(10) {
			case 0, 1:
				a.Kind = "dpos"
			case 2, 3, 4:
				a.Kind = "crc"
				a.InMap = rng.Chance(85)
				a.Elected = rng.Chance(75)
				a.NoDposPK = rng.Chance(40)
				a.BadPK = rng.Chance(10)
				switch rng.Intn(12) {
				case 0:
					if era == 3 && rng.Chance(30) {
						a.Prod = "badhex"
					}
				case 1:
					if era == 3 && rng.Chance(30) {
						a.Prod = "bad33"
					}
				case 2, 3:
					a.Prod = ""
				default:
					a.Prod = "ok"
				}
			default:
				a.InMap = rng.Chance(8)
			}
			as = append(as, a)
		}
		return as
	}
	genVotes := func(n int) ([]int64, int64) {
		vs := make([]int64, n)
		mode := rng.Intn(8)
		for i := range vs {
			switch mode {
			case 0:
				vs[i] = 0
			case 1:
				vs[i] = int64(1 + rng.Intn(1000))
			case 2:
				vs[i] = int64(rng.U64() >> uint(10+rng.Intn(50)))
			case 3:
				vs[i] = 100000000 * int64(1+rng.Intn(3000000))
			case 4:
				if rng.Chance(50) {
					vs[i] = 0
				} else {
					vs[i] = int64(rng.Intn(1 << 40))
				}
			case 5:
				vs[i] = 12345678
			case 6:
				vs[i] = int64(rng.U64() >> 1) // up to 2^63
			default:
				vs[i] = int64(rng.Intn(5))
			}
		}
		var sum int64
		for _, v := range vs {
			sum += v // wraps like Fixed64
		}
		total := sum
		switch rng.Intn(12) {
		case 0:
			total = 0
		case 1:
			total = 1
		case 2:
			total = sum + int64(rng.Intn(1000000))
		case 3:
			total = int64(rng.U64() >> uint(1+rng.Intn(60)))
		case 4:
			total = -sum
		}
		return vs, total
	}
	gen := func() *caseIn {
		c := &caseIn{}
		era := rng.Intn(4)
		n := rng.Intn(37)
		if rng.Chance(10) {
			n = 0
		}
		c.Arbs = genArbs(n, era)
		c.NCands = rng.Intn(37)
		if rng.Chance(30) {
			c.NCands = 0
		}
		c.DupCand = c.NCands > 0 && rng.Chance(5)
		c.ExtraVotes = rng.Intn(3)
		c.Votes, c.Total = genVotes(n + c.NCands + c.ExtraVotes)
		c.CRCCount = 12
		c.NormalCount = 24
		switch rng.Intn(6) {
		case 0:
			c.CRCCount = n
		case 1:
			c.CRCCount, c.NormalCount = rng.Intn(13), rng.Intn(30)
		case 2:
			c.CRCCount, c.NormalCount = rng.Intn(4), rng.Intn(4)
		}
		c.Pow = rng.Chance(8)
		c.HV1, c.HV2, c.HV3 = 1000, 2000, 3000
		base := []uint32{0, 1000, 2000, 3000}[era] + 2*uint32(n)
		switch rng.Intn(4) {
		case 0:
			c.H = base
		case 1:
			c.H = base + 1 + uint32(rng.Intn(500))
		case 2:
			if base > 0 {
				c.H = base - 1
			}
		default:
			c.H = base + uint32(rng.Intn(900))
		}
		if rng.Chance(3) { // uint32 wrap in the height test
			c.HV3 = math.MaxUint32 - uint32(rng.Intn(2*n+2))
		}
		switch rng.Intn(5) {
		case 0:
			c.Reward = rewards[rng.Intn(len(rewards))]
		case 1:
			c.Reward = int64(rng.Intn(2000))
		case 2:
			c.Reward = int64(rng.U64() >> uint(1+rng.Intn(62)))
		default:
			c.Reward = int64(36) * int64(100000000+rng.Intn(100000000))
		}
		return c
	}

	// ---- corpus: fixed boundary cases first
	mk := func(n, ncand int, votes []int64, total, reward int64, h uint32) *caseIn {
		c := &caseIn{NCands: ncand, Votes: votes, Total: total, CRCCount: 0, NormalCount: n, HV1: 1000, HV2: 2000, HV3: 3000, H: h, Reward: reward}
		for i := 0; i < n; i++ {
			c.Arbs = append(c.Arbs, arbSpec{Kind: "origin"})
		}
		return c
	}
	for _, h := range []uint32{10, 1500, 2500, 3500} {
		// zero-vote rounds: two and three normal arbiters, no votes at all
		one(mk(2, 0, []int64{0, 0}, 0, 1000000, h), "corpus-zero-votes")
		one(mk(3, 0, []int64{0, 0, 0}, 0, 1000000, h), "corpus-zero-votes")
		one(mk(2, 2, []int64{0, 0, 0, 0}, 0, 0, h), "corpus-zero-votes")
		one(mk(4, 1, []int64{5, 0, 0, 0, 0}, 0, 1000000, h), "corpus-zero-votes")
		// ordinary rounds
		one(mk(3, 2, []int64{50, 30, 10, 7, 3}, 100, 1000000, h), "corpus")
		one(mk(3, 2, []int64{50, 30, 10, 7, 3}, 100, 0, h), "corpus")
		one(mk(3, 2, []int64{50, 30, 10, 7, 3}, 100, 1, h), "corpus")
		one(mk(1, 0, []int64{1}, 1, 3, h), "corpus")
		one(mk(36, 36, nil, 1, 1<<53+1, h), "corpus")
		// arbiters without votes next to voted ones
		one(mk(4, 1, []int64{60, 0, 30, 0, 10}, 100, 7200000, h), "corpus")
		// more arbiters than configured seats, few votes on the listed owners
		{
			c := mk(5, 1, []int64{3, 2, 1, 1, 1, 2}, 100, 7200000, h)
			c.CRCCount, c.NormalCount = 1, 2
			one(c, "corpus-over-seats")
			c = mk(6, 0, []int64{0, 0, 1, 0, 0, 0}, 1000, 3600000, h)
			c.CRCCount, c.NormalCount = 2, 3
			one(c, "corpus-over-seats")
		}
	}
	st.Sample(map[string]interface{}{"case": "3 arbiters 2 candidates votes 50/30/10/7/3 of 100, reward 1000000, V3", "out": func() obs { o, _, _ := runCase(mk(3, 2, []int64{50, 30, 10, 7, 3}, 100, 1000000, 3500)); return o }()})
	st.Sample(map[string]interface{}{"case": "zero-vote round, 2 arbiters, reward 1000000, V3", "out": func() obs { o, _, _ := runCase(mk(2, 0, []int64{0, 0}, 0, 1000000, 3500)); return o }()})

	for i := 0; i < run.N(700, 10000); i++ {
		one(gen(), "gen")
	}
	st.Traces = st.Evals
	sh.Flush()
	st.Write(run.Out)
}
