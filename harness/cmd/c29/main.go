// C29: proposal spending stays within approved budgets.
//
// Drives the real entry points: SpecialContextCheck of CRCProposal /
// CRCProposalReview / CRCProposalTracking / CRCProposalWithdraw (through a
// params-only BlockChain), blockchain.CheckDuplicateTx, state.SortTransactions
// and Committee.ProcessBlock on a standalone committee, block by block, and
// compares every verdict and every per-proposal observation with
// coq/model/C29_Budget.v.  The property oracle replays payments and
// commitments in exact arithmetic.
package main

import (
	"fmt"
	"math/big"
	"os"
	"sort"
	"strings"

	"github.com/elastos/Elastos.ELA/blockchain"
	"github.com/elastos/Elastos.ELA/common"
	"github.com/elastos/Elastos.ELA/common/config"
	common2 "github.com/elastos/Elastos.ELA/core/types/common"
	"github.com/elastos/Elastos.ELA/core/types/interfaces"
	"github.com/elastos/Elastos.ELA/core/types/outputpayload"
	"github.com/elastos/Elastos.ELA/core/types/payload"
	"github.com/elastos/Elastos.ELA/cr/state"

	"verifharness/crkit"
	"verifharness/elaenv"
	"verifharness/lib"
)

const (
	nMembers   = 3
	h0         = 1000
	bigVotes   = int64(1000000000000000) // above any reject threshold used here
	withdrawFe = int64(10000)            // fee of a version-0 withdrawal
)

var (
	members [nMembers]*crkit.Key
	owners  [4]*crkit.Key
	sg      *crkit.Key
	nonce   uint64
)

func nextNonce() uint64 { nonce++; return nonce }

type bspec struct {
	Type  int   `json:"t"`
	Stage int   `json:"s"`
	Amt   int64 `json:"a"`
}

// cand is one candidate transaction of a block, in model terms.
type cand struct {
	Kind   string  `json:"k"` // reg review vote track withdraw
	Pid    int     `json:"p"`
	A      int64   `json:"a,omitempty"` // review: member; track: type; withdraw/vote: amount
	B      int64   `json:"b,omitempty"` // review: vote; track: stage
	Bs     []bspec `json:"bs,omitempty"`
	Dup    int     `json:"dup,omitempty"` // >0: a second, distinct transaction with the same content
	Auto   bool    `json:"auto,omitempty"` // withdraw: claim exactly what the node reports as available
	Excess int64   `json:"x,omitempty"`    // withdraw: claim available + Excess
	Note   string  `json:"note,omitempty"` // raw: what the pre-built transaction is
	raw    interfaces.Transaction
}

type pinfo struct {
	pid     int
	owner   *crkit.Key
	tx      interfaces.Transaction
	hash    common.Uint256
	bs      []bspec
	elig    map[int]bool // oracle: stages that became withdrawable
	paid    map[int]bool // oracle: stages paid
	paidSum *big.Int
	lastSt  state.ProposalStatus
	seen    bool
	close   bool // a CloseProposal proposal (no budgets); A of its candidate = target pid
}

type cfgT struct {
	V1                bool
	Stage, Used, Comm int64
	Term              bool // the council's term ends inside the trace (duty 24, voting 10 blocks)
}

type trace struct {
	id     int
	cfg    cfgT
	env    *crkit.Env
	h      uint32
	props  map[int]*pinfo
	blocks []string
	log    []interface{}
	st     *lib.Stats
	npaid  int
	kinds  map[string]bool
	failed bool
	// the trace leaves the Coq model (CloseProposal, council change): oracle only
	noModel bool
	// oracle snapshots, one per block() call, for rollback()
	snaps []snapT
}

type psnapT struct {
	elig, paid map[int]bool
	paidSum    *big.Int
	lastSt     state.ProposalStatus
	seen       bool
}

type snapT struct {
	h       uint32
	nblocks int
	npaid   int
	props   map[int]psnapT
}

func copyBoolMap(m map[int]bool) map[int]bool {
	r := map[int]bool{}
	for k, v := range m {
		r[k] = v
	}
	return r
}

func (t *trace) snapshot() {
	sn := snapT{h: t.h, nblocks: len(t.blocks), npaid: t.npaid, props: map[int]psnapT{}}
	for pid, p := range t.props {
		sn.props[pid] = psnapT{copyBoolMap(p.elig), copyBoolMap(p.paid), new(big.Int).Set(p.paidSum), p.lastSt, p.seen}
	}
	t.snaps = append(t.snaps, sn)
}

// rollback detaches the last k blocks with the real Committee.RollbackTo and
// puts the oracle and the emitted Coq trace back to the block sequence that
// remains: what follows is compared with the model run on the ACTIVE chain
// only (the linear sequence prefix + new blocks), so an undo step that also
// forgets something an earlier, still connected block did shows up as a
// difference.  Returns false when the trace is too short.
func (t *trace) rollback(k int) bool {
	if k <= 0 || len(t.snaps) == 0 || t.h < uint32(k) || t.h-uint32(k) <= t.snaps[0].h {
		return false
	}
	target := t.h - uint32(k)
	idx := -1
	for i, sn := range t.snaps {
		if sn.h == target {
			idx = i
		}
	}
	if idx < 0 {
		return false
	}
	if pk, _ := lib.Recover(func() { _ = t.env.Committee.RollbackTo(target) }); pk {
		t.fail("C29:rollback-panic", "Committee.RollbackTo panicked", map[string]interface{}{"to": target})
	}
	sn := t.snaps[idx]
	for pid, p := range t.props {
		if ps, ok := sn.props[pid]; ok {
			p.elig, p.paid, p.paidSum, p.lastSt, p.seen = copyBoolMap(ps.elig), copyBoolMap(ps.paid), new(big.Int).Set(ps.paidSum), ps.lastSt, ps.seen
		} else {
			p.elig, p.paid, p.paidSum, p.lastSt, p.seen = map[int]bool{}, map[int]bool{}, new(big.Int), 0, false
		}
	}
	t.blocks = t.blocks[:sn.nblocks]
	t.npaid = sn.npaid
	t.snaps = t.snaps[:idx+1]
	t.h = target
	t.log = append(t.log, map[string]interface{}{"rollback_to": target})
	t.st.Hist[fmt.Sprintf("rollback:%d", k)]++
	return true
}

func newParams(v1 bool, term bool) *config.Configuration {
	p := config.GetDefaultParams()
	cr := &p.CRConfiguration
	cr.MemberCount = nMembers
	cr.CRAgreementCount = 2
	cr.ProposalCRVotingPeriod = 2
	cr.ProposalPublicVotingPeriod = 2
	cr.CRVotingStartHeight = 10
	cr.CRCommitteeStartHeight = 20
	cr.DutyPeriod = 1000000
	cr.VotingPeriod = 100
	if term {
		cr.DutyPeriod = 24
		cr.VotingPeriod = 10
	}
	cr.CRClaimDPOSNodeStartHeight = 100000000
	cr.SecretaryGeneral = common.BytesToHexString(sg.Pub)
	p.DPoSV2StartHeight = 200000000
	p.CrossChainMonitorStartHeight = 200000000
	if v1 {
		cr.CRCProposalWithdrawPayloadV1Height = 0
	} else {
		cr.CRCProposalWithdrawPayloadV1Height = 200000000
	}
	return p
}

func newTrace(id int, c cfgT, st *lib.Stats) *trace {
	t := &trace{id: id, cfg: c, st: st, h: h0, props: map[int]*pinfo{}, kinds: map[string]bool{}}
	t.env = crkit.NewEnv(newParams(c.V1, c.Term))
	t.noModel = c.Term
	cm := t.env.Committee
	for i, k := range members {
		cm.Members[k.DID] = &state.CRMember{
			Info:        payload.CRInfo{Code: k.Code, CID: k.CID, DID: k.DID, NickName: fmt.Sprintf("m%d", i)},
			MemberState: state.MemberElected, DepositHash: k.Deposit, ActivateRequestHeight: ^uint32(0),
		}
		cm.GetState().DepositInfo[k.CID] = &state.DepositInfo{DepositAmount: state.MinDepositAmount, TotalAmount: state.MinDepositAmount}
	}
	cm.InElectionPeriod = true
	cm.LastCommitteeHeight = 20
	if c.Term {
		cm.LastCommitteeHeight = h0
	}
	cm.GetState().CurrentSession = 1
	cm.CRCCurrentStageAmount = common.Fixed64(c.Stage)
	cm.CRCCommitteeUsedAmount = common.Fixed64(c.Used)
	cm.CommitteeUsedAmount = common.Fixed64(c.Comm)
	cm.CirculationAmount = common.Fixed64(config.OriginIssuanceAmount)
	t.env.Height = h0
	return t
}

func toBudgets(bs []bspec) []payload.Budget {
	r := make([]payload.Budget, len(bs))
	for i, b := range bs {
		r[i] = payload.Budget{Type: payload.InstallmentType(b.Type), Stage: byte(b.Stage), Amount: common.Fixed64(b.Amt)}
	}
	return r
}

// prop returns (creating on first use) the proposal with model id pid.
func (t *trace) prop(pid int, bs []bspec) *pinfo {
	if p, ok := t.props[pid]; ok {
		return p
	}
	p := &pinfo{pid: pid, owner: owners[pid%len(owners)], bs: bs, elig: map[int]bool{}, paid: map[int]bool{}, paidSum: new(big.Int)}
	draft := []byte(fmt.Sprintf("draft-%d-%d", t.id, pid))
	p.tx, p.hash = crkit.Proposal(p.owner, members[pid%nMembers], p.owner.Addr, toBudgets(bs), draft, nextNonce())
	t.props[pid] = p
	return p
}

func coqBudgets(bs []bspec) string {
	xs := make([]string, len(bs))
	for i, b := range bs {
		xs[i] = fmt.Sprintf("Build_budget %d %d %s", b.Type, b.Stage, lib.CoqZi(b.Amt))
	}
	return "[" + strings.Join(xs, "; ") + "]"
}

func zz(m map[uint8]common.Fixed64) string {
	ks := make([]int, 0, len(m))
	for k := range m {
		ks = append(ks, int(k))
	}
	sort.Ints(ks)
	xs := make([]string, len(ks))
	for i, k := range ks {
		xs[i] = fmt.Sprintf("(%d, %s)", k, lib.CoqZi(int64(m[uint8(k)])))
	}
	return "[" + strings.Join(xs, "; ") + "]"
}
func zzs(m map[uint8]state.BudgetStatus) string {
	ks := make([]int, 0, len(m))
	for k := range m {
		ks = append(ks, int(k))
	}
	sort.Ints(ks)
	xs := make([]string, len(ks))
	for i, k := range ks {
		xs[i] = fmt.Sprintf("(%d, %d)", k, m[uint8(k)])
	}
	return "[" + strings.Join(xs, "; ") + "]"
}

type built struct {
	tx   interfaces.Transaction
	refs map[*common2.Input]common2.Output
	coq  string
	c    cand
	amt  int64 // withdraw: amount claimed
}

// build turns a candidate into a real signed transaction (and its model term).
func (t *trace) build(c cand) built {
	cm := t.env.Committee
	switch c.Kind {
	case "reg":
		p := t.prop(c.Pid, c.Bs)
		tx := p.tx
		if c.Dup > 0 { // same payload, different transaction
			tx, _ = crkit.Proposal(p.owner, members[c.Pid%nMembers], p.owner.Addr, toBudgets(p.bs),
				[]byte(fmt.Sprintf("draft-%d-%d", t.id, c.Pid)), nextNonce())
		}
		return built{tx: tx, coq: fmt.Sprintf("TReg %d %s", c.Pid, coqBudgets(p.bs)), c: c}
	case "raw":
		t.noModel = true
		return built{tx: c.raw, c: c}
	case "close":
		t.noModel = true
		p, ok := t.props[c.Pid]
		if !ok {
			tg := t.prop(int(c.A), nil)
			p = &pinfo{pid: c.Pid, owner: owners[c.Pid%len(owners)], close: true, elig: map[int]bool{}, paid: map[int]bool{}, paidSum: new(big.Int)}
			p.tx, p.hash = crkit.CloseProposalTx(p.owner, members[c.Pid%nMembers], tg.hash, []byte(fmt.Sprintf("close-%d-%d", t.id, c.Pid)), nextNonce())
			t.props[c.Pid] = p
		}
		return built{tx: p.tx, c: c}
	case "review":
		p := t.prop(c.Pid, nil)
		return built{tx: crkit.Review(members[c.A], p.hash, payload.VoteResult(c.B), nextNonce()),
			coq: fmt.Sprintf("TReview %d %d %d", c.Pid, c.A, c.B), c: c}
	case "vote":
		p := t.prop(c.Pid, nil)
		tx := crkit.VoteOutputTx(nextNonce(), common.Fixed64(c.A), []outputpayload.VoteContent{{
			VoteType:       outputpayload.CRCProposal,
			CandidateVotes: []outputpayload.CandidateVotes{{Candidate: p.hash.Bytes(), Votes: common.Fixed64(c.A)}}}}, nil, nil)
		return built{tx: tx, coq: fmt.Sprintf("TVoteReject %d %s", c.Pid, lib.CoqZi(c.A)), c: c}
	case "track":
		p := t.prop(c.Pid, nil)
		tx := crkit.Tracking(payload.CRCProposalTrackingType(c.A), p.hash, uint8(c.B), p.owner, nil, sg, nextNonce())
		return built{tx: tx, coq: fmt.Sprintf("TTrack %d %d %d", c.Pid, c.A, c.B), c: c}
	case "withdraw":
		p := t.prop(c.Pid, nil)
		amt := c.A
		if c.Auto {
			amt = int64(cm.AvailableWithdrawalAmount(p.hash)) + c.Excess
		}
		in := &common2.Input{Previous: common2.OutPoint{TxID: common.Hash([]byte(fmt.Sprintf("utxo%d", nextNonce()))), Index: 0}}
		if t.cfg.V1 {
			tx := crkit.WithdrawV1(p.owner, p.hash, p.owner.Addr, common.Fixed64(amt), []*common2.Input{in}, nextNonce())
			refs := map[*common2.Input]common2.Output{in: {Value: common.Fixed64(withdrawFe), ProgramHash: p.owner.Addr}}
			return built{tx: tx, refs: refs, coq: fmt.Sprintf("TWithdraw %d %s", c.Pid, lib.CoqZi(amt)), c: c, amt: amt}
		}
		inVal := amt + 777
		tx := crkit.WithdrawV0(p.owner, p.hash, p.owner.Addr, *t.env.Params.CRConfiguration.CRExpensesProgramHash,
			[]*common2.Input{in}, common.Fixed64(amt-withdrawFe), 777, nextNonce())
		refs := map[*common2.Input]common2.Output{in: {Value: common.Fixed64(inVal), ProgramHash: *t.env.Params.CRConfiguration.CRExpensesProgramHash}}
		return built{tx: tx, refs: refs, coq: fmt.Sprintf("TWithdraw %d %s", c.Pid, lib.CoqZi(amt)), c: c, amt: amt}
	}
	panic("unknown candidate kind " + c.Kind)
}

func (t *trace) fail(sig, what string, extra interface{}) {
	t.failed = true
	t.st.Fail(sig, what, map[string]interface{}{"trace": t.id, "cfg": t.cfg, "blocks": t.log, "at": extra})
}

func budgetsOf(p *pinfo) map[int]int64 {
	m := map[int]int64{}
	for _, b := range p.bs {
		if _, ok := m[b.Stage]; !ok {
			m[b.Stage] = b.Amt
		}
	}
	return m
}

// block checks the candidates as checkTxsContext does, forms the block of the
// accepted ones, runs CheckDuplicateTx and, if it passes, ProcessBlock.
func (t *trace) block(cands []cand) {
	if len(t.snaps) == 0 {
		t.snapshot()
	}
	defer t.snapshot()
	cm := t.env.Committee
	h := t.h + 1
	thr := int64(common.Fixed64(float64(cm.CirculationAmount) * t.env.Params.CRConfiguration.VoterRejectPercentage / 100.0))
	var pu common.Fixed64
	var acc []built
	var cs []string
	verdicts := []bool{}
	for _, c := range cands {
		b := t.build(c)
		ok, msg, panicked := true, "", false
		if c.Kind != "raw" {
			ok, msg, panicked = t.env.Check(b.tx, h, pu, b.refs)
		}
		if !ok && os.Getenv("C29_DEBUG") != "" {
			t.st.Hist["msg:"+c.Kind+":"+msg]++
		}
		if panicked {
			t.fail("C29:check-panic", "SpecialContextCheck panicked", c)
		}
		cs = append(cs, fmt.Sprintf("(%s, %s)", b.coq, lib.CoqBool(ok)))
		verdicts = append(verdicts, ok)
		t.st.Hist[c.Kind+map[bool]string{true: ":accepted", false: ":rejected"}[ok]]++
		if ok {
			acc = append(acc, b)
			if b.tx.IsCRCProposalTx() {
				blockchain.RecordCRCProposalAmount(&pu, b.tx)
			}
			t.kinds[c.Kind] = true
		}
	}
	txs := []interfaces.Transaction{crkit.Coinbase(nextNonce(), nil)}
	for _, b := range acc {
		txs = append(txs, b.tx)
	}
	dupOK := blockchain.CheckDuplicateTx(crkit.Block(h, txs)) == nil
	order := []string{}
	// oracle bookkeeping before the block
	outstanding := map[int]*big.Int{}
	for pid, p := range t.props {
		s := new(big.Int)
		bm := budgetsOf(p)
		for st := range p.elig {
			if !p.paid[st] {
				s.Add(s, big.NewInt(bm[st]))
			}
		}
		outstanding[pid] = s
	}
	if dupOK {
		sorted := append([]interfaces.Transaction{}, txs[1:]...)
		state.SortTransactions(sorted)
		for _, s := range sorted {
			for i, b := range acc {
				if b.tx == s {
					order = append(order, fmt.Sprint(i))
				}
			}
		}
		if pk, _ := lib.Recover(func() { t.env.Process(h, txs) }); pk {
			t.fail("C29:process-panic", "ProcessBlock panicked", cands)
		}
		t.h = h
	} else {
		t.st.Hist["block:duplicate-rejected"]++
	}
	t.log = append(t.log, map[string]interface{}{"cands": cands, "verdicts": verdicts, "dup_ok": dupOK})

	// ---- property oracle (exact arithmetic, own event log)
	if dupOK {
		wcount := map[int]int{}
		for _, b := range acc {
			if b.c.Kind == "withdraw" {
				wcount[b.c.Pid]++
			}
		}
		for _, b := range acc {
			p := t.props[b.c.Pid]
			if p == nil {
				continue
			}
			switch b.c.Kind {
			case "withdraw":
				t.npaid++
				a := big.NewInt(b.amt)
				p.paidSum.Add(p.paidSum, a)
				if a.Cmp(outstanding[b.c.Pid]) > 0 {
					if wcount[b.c.Pid] > 1 {
						t.fail("C29:double-withdraw-in-block", "two accepted withdrawals of one proposal in one block pay the same stages twice",
							map[string]interface{}{"pid": b.c.Pid, "claimed": b.amt, "outstanding": outstanding[b.c.Pid].String()})
					} else {
						t.fail("C29:withdraw-not-withdrawable", "a withdrawal paid more than the stages that had become withdrawable and were unpaid",
							map[string]interface{}{"pid": b.c.Pid, "claimed": b.amt, "outstanding": outstanding[b.c.Pid].String()})
					}
				}
				outstanding[b.c.Pid] = new(big.Int)
				for st := range p.elig {
					p.paid[st] = true
				}
			}
		}
		for _, b := range acc {
			p := t.props[b.c.Pid]
			if p != nil && b.c.Kind == "track" {
				switch payload.CRCProposalTrackingType(b.c.A) {
				case payload.Progress:
					if _, ok := budgetsOf(p)[int(b.c.B)]; ok {
						p.elig[int(b.c.B)] = true
					}
				case payload.Finalized:
					for _, bb := range p.bs {
						if bb.Type == int(payload.FinalPayment) {
							p.elig[bb.Stage] = true
							break
						}
					}
				}
			}
		}
	}
	// observation + status-driven eligibility (imprest at VoterAgreed)
	pids := make([]int, 0, len(t.props))
	for pid := range t.props {
		pids = append(pids, pid)
	}
	sort.Ints(pids)
	var ps []string
	committed := new(big.Int)
	for _, pid := range pids {
		p := t.props[pid]
		s := cm.GetProposal(p.hash)
		if s == nil {
			continue
		}
		if s.Status == state.VoterAgreed && (!p.seen || p.lastSt != state.VoterAgreed) && p.lastSt != state.VoterAgreed {
			for _, bb := range p.bs {
				if bb.Type == int(payload.Imprest) {
					p.elig[bb.Stage] = true
					break
				}
			}
		}
		p.seen, p.lastSt = true, s.Status
		appr := 0
		for _, v := range s.CRVotes {
			if v == payload.Approve {
				appr++
			}
		}
		ps = append(ps, fmt.Sprintf("(%d, Build_pobs %d %s %s %s %d %s %s %d)", pid, s.Status, zz(s.WithdrawableBudgets),
			zz(s.WithdrawnBudgets), zzs(s.BudgetsStatus), s.TrackingCount, lib.CoqBool(s.FinalPaymentStatus),
			lib.CoqZi(int64(s.VotersRejectAmount)), appr))
		// oracle on the implementation's own maps
		bm := budgetsOf(p)
		total := new(big.Int)
		for _, bb := range p.bs {
			total.Add(total, big.NewInt(bb.Amt))
		}
		wsum := new(big.Int)
		for st, a := range s.WithdrawnBudgets {
			wsum.Add(wsum, big.NewInt(int64(a)))
			if !p.elig[int(st)] || bm[int(st)] != int64(a) {
				t.fail("C29:withdrawn-stage-not-approved", "WithdrawnBudgets holds a stage that never became withdrawable or a wrong amount",
					map[string]interface{}{"pid": pid, "stage": st, "amount": int64(a)})
			}
		}
		if wsum.Cmp(total) > 0 || p.paidSum.Cmp(total) > 0 {
			t.fail("C29:withdrawn-exceeds-budget", "total withdrawn exceeds the sum of the approved budget stages",
				map[string]interface{}{"pid": pid, "withdrawn_map": wsum.String(), "paid": p.paidSum.String(), "budget": total.String()})
		}
		if av := cm.AvailableWithdrawalAmount(p.hash); true {
			e := new(big.Int)
			for st := range p.elig {
				if !p.paid[st] {
					e.Add(e, big.NewInt(bm[st]))
				}
			}
			if big.NewInt(int64(av)).Cmp(e) > 0 {
				t.fail("C29:available-exceeds-approved", "AvailableWithdrawalAmount exceeds the unpaid stages that became withdrawable",
					map[string]interface{}{"pid": pid, "available": int64(av), "expected": e.String()})
			}
		}
		switch s.Status {
		case state.CRCanceled, state.VoterCanceled, state.Aborted:
		case state.Terminated, state.Finished:
			for st := range p.elig {
				committed.Add(committed, big.NewInt(bm[st]))
			}
		default:
			committed.Add(committed, total)
		}
	}
	usedNow := int64(cm.CRCCommitteeUsedAmount)
	exact := new(big.Int).Add(big.NewInt(t.cfg.Used), committed)
	// what the council must keep reserved at any time: for closed (Terminated /
	// Finished) proposals the stages that became withdrawable and are unpaid, for
	// live ones every unpaid stage.  Holds across a council change as well (the
	// reserve is recomputed there), whereas the used0-relative accounting below
	// is only meaningful inside the term the trace started in.
	reserve := new(big.Int)
	for _, pid := range pids {
		p := t.props[pid]
		s := cm.GetProposal(p.hash)
		if s == nil {
			continue
		}
		bm := budgetsOf(p)
		switch s.Status {
		case state.CRCanceled, state.VoterCanceled, state.Aborted:
		case state.Terminated, state.Finished:
			for st := range p.elig {
				if !p.paid[st] {
					reserve.Add(reserve, big.NewInt(bm[st]))
				}
			}
		default:
			for st, a := range bm {
				if !p.paid[st] {
					reserve.Add(reserve, big.NewInt(a))
				}
			}
		}
	}
	if big.NewInt(usedNow).Cmp(reserve) < 0 {
		t.fail("C29:reserve-below-outstanding", "CRCCommitteeUsedAmount does not cover the stages owners can still withdraw plus the unpaid stages of live proposals",
			map[string]interface{}{"reserve_needed": reserve.String(), "used_field": usedNow, "council_changed": cm.LastCommitteeHeight != 20 && cm.LastCommitteeHeight != h0})
	}
	if t.cfg.Term && cm.LastCommitteeHeight != h0 {
		// a new council took office: used amount and stage amount were recomputed
	} else if exact.Cmp(big.NewInt(int64(cm.CRCCurrentStageAmount))) > 0 {
		t.fail("C29:overcommit", "budgets committed to live proposals exceed the committee's available funds (CRCCurrentStageAmount)",
			map[string]interface{}{"committed_exact": exact.String(), "available": int64(cm.CRCCurrentStageAmount), "used_field": usedNow})
	} else if big.NewInt(usedNow).Cmp(exact) < 0 {
		t.fail("C29:used-undercount", "CRCCommitteeUsedAmount is below the budgets actually committed, so a later proposal can over-commit",
			map[string]interface{}{"committed_exact": exact.String(), "used_field": usedNow})
	}
	t.blocks = append(t.blocks, fmt.Sprintf("Build_blk %s [%s] %s [%s] (Build_obs %s [%s] %d)", lib.CoqZi(thr),
		strings.Join(cs, "; "), lib.CoqBool(dupOK), strings.Join(order, "; "), lib.CoqZi(usedNow), strings.Join(ps, "; "), t.npaid))
}

func (t *trace) coq() string {
	return fmt.Sprintf("CTrace %d (Build_cfg %s 2 2 2 %d %d %d) %s %s %s %d [%s]", t.id, lib.CoqBool(t.cfg.V1),
		t.env.Params.CRConfiguration.MaxProposalTrackingCount, int64(t.env.Params.CRConfiguration.RealWithdrawSingleFee), nMembers,
		lib.CoqZi(t.cfg.Stage), lib.CoqZi(t.cfg.Used), lib.CoqZi(t.cfg.Comm), h0, strings.Join(t.blocks, ";\n    "))
}

// ---- scripted building blocks
func mkBudgets(imprest bool, n int, amt func(i int) int64) []bspec {
	var bs []bspec
	st := 1
	if imprest {
		bs = append(bs, bspec{int(payload.Imprest), 0, amt(0)})
	}
	for len(bs) < n-1 {
		bs = append(bs, bspec{int(payload.NormalPayment), st, amt(len(bs))})
		st++
	}
	bs = append(bs, bspec{int(payload.FinalPayment), st, amt(len(bs))})
	return bs
}

// toVoterAgreed registers pid and walks it to VoterAgreed (6 blocks).
func (t *trace) toVoterAgreed(pid int, bs []bspec) {
	t.block([]cand{{Kind: "reg", Pid: pid, Bs: bs}})
	t.block([]cand{{Kind: "review", Pid: pid, A: 0, B: 0}, {Kind: "review", Pid: pid, A: 1, B: 0}})
	for i := 0; i < 4; i++ {
		t.block(nil)
	}
}

const ela = int64(100000000)

// ---- scenario classes outside the Coq model (oracle only)

// closeScenarios: a CloseProposal proposal passes while its target is in an
// arbitrary point of its life (imprest collected or not, progress stages
// approved and collected or not), withdrawals before and after.
func (r *runner) closeScenarios(rng *lib.Rng, n int) {
	for i := 0; i < n; i++ {
		t := r.newTrace(stdCfg(rng.Bool()))
		nb := rng.Range(3, 5)
		bs := mkBudgets(true, nb, func(i int) int64 { return int64(rng.Intn(9)+1) * ela })
		t.toVoterAgreed(1, bs)
		step := func() []cand {
			var cs []cand
			if rng.Chance(40) {
				cs = append(cs, cand{Kind: "withdraw", Pid: 1, Auto: true})
			}
			if rng.Chance(45) {
				cs = append(cs, cand{Kind: "track", Pid: 1, A: 1, B: int64(rng.Range(1, nb-2+1))})
			}
			return cs
		}
		for k := rng.Intn(3); k > 0; k-- {
			t.block(step())
		}
		t.block(append(step(), cand{Kind: "close", Pid: 2, A: 1}))
		t.block(append(step(), cand{Kind: "review", Pid: 2, A: 0, B: 0}, cand{Kind: "review", Pid: 2, A: 1, B: 0}))
		for k := 0; k < 4; k++ {
			t.block(step())
		}
		t.block([]cand{{Kind: "withdraw", Pid: 1, Auto: true}})
		t.block([]cand{{Kind: "reg", Pid: 3, Bs: mkBudgets(true, 2, func(int) int64 { return 3 * ela })}})
		r.finish(t, "scenario:close-proposal", false)
	}
}

// termScenarios: the council's term ends inside the trace and a new council is
// elected; proposals are at arbitrary points (live, finished or terminated, with
// or without uncollected stages) when the reserve is recomputed.
func (r *runner) termScenarios(rng *lib.Rng, n int) {
	for i := 0; i < n; i++ {
		c := stdCfg(rng.Bool())
		c.Term = true
		t := r.newTrace(c)
		np := rng.Range(1, 2)
		nbs := map[int]int{}
		var regs, revs []cand
		for p := 1; p <= np; p++ {
			nbs[p] = rng.Range(3, 5)
			regs = append(regs, cand{Kind: "reg", Pid: p, Bs: mkBudgets(true, nbs[p], func(i int) int64 { return int64(rng.Intn(9)+1) * ela })})
			revs = append(revs, cand{Kind: "review", Pid: p, A: 0, B: 0}, cand{Kind: "review", Pid: p, A: 2, B: 0})
		}
		t.block(regs) // h0+1
		t.block(revs)
		for t.h < h0+5 {
			t.block(nil)
		}
		// an owner may wait with collecting until the next council sits; a proposal
		// may be finalised or terminated at a planned height
		waits, endAt, endTy := map[int]bool{}, map[int]uint32{}, map[int]int64{}
		for p := 1; p <= np; p++ {
			waits[p] = rng.Chance(60)
			if rng.Chance(70) {
				endAt[p] = uint32(h0 + rng.Range(7, 13))
				endTy[p] = rng.PickI64(5, 5, 5, 3)
			}
		}
		life := func() []cand {
			var cs []cand
			for p := 1; p <= np; p++ {
				if endAt[p] == t.h+1 {
					stg := int64(0)
					if endTy[p] == 5 {
						stg = int64(nbs[p] - 1)
					}
					cs = append(cs, cand{Kind: "track", Pid: p, A: endTy[p], B: stg})
					continue
				}
				switch x := rng.Intn(100); {
				case x < 25:
					if waits[p] && t.h+1 > h0+7 && t.h+1 <= h0+24 {
						continue
					}
					cs = append(cs, cand{Kind: "withdraw", Pid: p, Auto: true})
				case x < 50:
					cs = append(cs, cand{Kind: "track", Pid: p, A: 1, B: int64(rng.Range(1, nbs[p]-2+1))})
				case x < 65:
					cs = append(cs, cand{Kind: "track", Pid: p, A: 5, B: int64(nbs[p] - 1)})
				case x < 72:
					cs = append(cs, cand{Kind: "track", Pid: p, A: 3, B: 0})
				}
			}
			return cs
		}
		var newc []*crkit.Key
		for k := 0; k < 4; k++ {
			newc = append(newc, crkit.NewKey(2900+uint64(t.id), k))
		}
		for t.h < h0+30 {
			h := t.h + 1
			cs := life()
			if h == h0+14 { // first block of the voting period: candidates register
				for k, key := range newc {
					cs = append(cs, cand{Kind: "raw", Note: fmt.Sprintf("registerCR %d", k),
						raw: crkit.RegisterCR(key, fmt.Sprintf("t%d-%d", t.id, k), nextNonce(), common.Fixed64(5000*ela))})
				}
			}
			if h >= h0+20 && h <= h0+22 {
				var cv []outputpayload.CandidateVotes
				for k, key := range newc {
					cv = append(cv, outputpayload.CandidateVotes{Candidate: key.CID.Bytes(), Votes: common.Fixed64(int64(k+1+rng.Intn(5)) * ela)})
				}
				cs = append(cs, cand{Kind: "raw", Note: "voteCRC", raw: crkit.VoteOutputTx(nextNonce(), common.Fixed64(100*ela),
					[]outputpayload.VoteContent{{VoteType: outputpayload.CRC, CandidateVotes: cv}}, nil, nil)})
			}
			t.block(cs)
		}
		if t.env.Committee.LastCommitteeHeight != h0 {
			r.st.Hist["scenario:term:council-changed"]++
		}
		r.finish(t, "scenario:council-change", false)
	}
}

func stdCfg(v1 bool) cfgT { return cfgT{V1: v1, Stage: 100000 * ela, Used: 1000 * ela, Comm: 500 * ela} }

type runner struct {
	run  *lib.Run
	st   *lib.Stats
	sh   *lib.Shards
	next int
	coqN int
}

// finish logs the trace; sends it to Coq when emit is set.
func (r *runner) finish(t *trace, kind string, emit bool) {
	key := fmt.Sprint(t.log)
	nontrivial := t.kinds["withdraw"] || t.kinds["track"] || t.npaid > 0
	r.st.Count(key, nontrivial, kind)
	if emit && !t.noModel {
		r.sh.Add(t.coq())
		r.st.LogCase(r.run.Out, t.id, map[string]interface{}{"kind": kind, "cfg": t.cfg, "blocks": t.log})
		r.coqN++
	}
	if len(r.st.Samples) < 3 && nontrivial {
		r.st.Sample(map[string]interface{}{"kind": kind, "cfg": t.cfg, "blocks": t.log})
	}
}

func (r *runner) newTrace(c cfgT) *trace { r.next++; return newTrace(r.next, c, r.st) }

func (r *runner) corpus() {
	amt := func(i int) int64 { return int64(i+1) * 10 * ela }
	for _, v1 := range []bool{true, false} {
		// 1. full life cycle with every tracking kind
		t := r.newTrace(stdCfg(v1))
		bs := mkBudgets(true, 4, amt)
		t.toVoterAgreed(1, bs)
		t.block([]cand{{Kind: "withdraw", Pid: 1, Auto: true}})
		t.block([]cand{{Kind: "track", Pid: 1, A: 0, B: 0}})
		t.block([]cand{{Kind: "track", Pid: 1, A: 2, B: 1}})
		t.block([]cand{{Kind: "track", Pid: 1, A: 1, B: 1}, {Kind: "withdraw", Pid: 1, Auto: true}})
		t.block([]cand{{Kind: "withdraw", Pid: 1, Auto: true}, {Kind: "track", Pid: 1, A: 1, B: 2}})
		t.block([]cand{{Kind: "track", Pid: 1, A: 5, B: 3}})
		t.block([]cand{{Kind: "withdraw", Pid: 1, Auto: true, Excess: 1}, {Kind: "withdraw", Pid: 1, Auto: true}})
		t.block([]cand{{Kind: "withdraw", Pid: 1, Auto: true}})
		r.finish(t, "corpus:lifecycle", true)

		// 1b. reorganisations around withdrawals: the last withdrawal is detached
		// (its undo must not forget stages paid by earlier, still connected
		// blocks), then the chain continues; deeper variant detaches the tracking too
		for _, depth := range []int{1, 2, 3} {
			t = r.newTrace(stdCfg(v1))
			t.toVoterAgreed(1, bs)
			t.block([]cand{{Kind: "withdraw", Pid: 1, Auto: true}})
			t.block([]cand{{Kind: "track", Pid: 1, A: 1, B: 1}})
			t.block([]cand{{Kind: "withdraw", Pid: 1, Auto: true}})
			t.rollback(depth)
			t.block(nil)
			t.block([]cand{{Kind: "withdraw", Pid: 1, Auto: true}})
			t.block([]cand{{Kind: "track", Pid: 1, A: 1, B: 1}, {Kind: "withdraw", Pid: 1, Auto: true}})
			t.block([]cand{{Kind: "withdraw", Pid: 1, Auto: true}})
			t.rollback(1)
			t.block([]cand{{Kind: "withdraw", Pid: 1, Auto: true}})
			r.finish(t, "corpus:reorg-withdraw", true)
		}

		// 2. two withdrawals of one proposal in one block (was accepted and paid twice before the repair)
		t = r.newTrace(stdCfg(v1))
		t.toVoterAgreed(1, bs)
		t.block([]cand{{Kind: "withdraw", Pid: 1, Auto: true}, {Kind: "withdraw", Pid: 1, Auto: true}})
		t.block([]cand{{Kind: "withdraw", Pid: 1, Auto: true}})
		r.finish(t, "corpus:double-withdraw", true)

		// 3. two terminations / termination + finalisation in one block (released the unused budget twice)
		t = r.newTrace(stdCfg(v1))
		t.toVoterAgreed(1, bs)
		t.block([]cand{{Kind: "track", Pid: 1, A: 3, B: 0}, {Kind: "track", Pid: 1, A: 3, B: 0}})
		t.block([]cand{{Kind: "track", Pid: 1, A: 3, B: 0}})
		r.finish(t, "corpus:double-terminate", true)
		t = r.newTrace(stdCfg(v1))
		t.toVoterAgreed(1, bs)
		t.block([]cand{{Kind: "track", Pid: 1, A: 5, B: 3}, {Kind: "track", Pid: 1, A: 3, B: 0}})
		t.block([]cand{{Kind: "withdraw", Pid: 1, Auto: true}})
		r.finish(t, "corpus:finalize+terminate", true)

		// 4. budgets whose int64 sum wraps to 0 (4 x 2^62) or to a small value
		t = r.newTrace(stdCfg(v1))
		big62 := int64(1) << 62
		t.block([]cand{{Kind: "reg", Pid: 1, Bs: mkBudgets(false, 4, func(int) int64 { return big62 })}})
		t.block([]cand{{Kind: "reg", Pid: 2, Bs: mkBudgets(true, 5, func(i int) int64 {
			if i < 4 {
				return big62
			}
			return 5 * ela
		})}})
		t.block([]cand{{Kind: "reg", Pid: 3, Bs: mkBudgets(true, 2, func(int) int64 { return big62 })}})
		r.finish(t, "corpus:budget-sum-wraps", true)

		// 5. proposalsUsedAmount: two proposals in one block that only fit one at a time
		c := stdCfg(v1)
		c.Used = c.Stage - 15*ela
		t = r.newTrace(c)
		small := func(int) int64 { return 5 * ela }
		t.block([]cand{{Kind: "reg", Pid: 1, Bs: mkBudgets(true, 2, small)}, {Kind: "reg", Pid: 2, Bs: mkBudgets(true, 2, small)}})
		t.block([]cand{{Kind: "reg", Pid: 2, Bs: mkBudgets(true, 2, small)}})
		t.block([]cand{{Kind: "reg", Pid: 3, Bs: mkBudgets(false, 1, small)}})
		r.finish(t, "corpus:in-block-used-amount", true)

		// 6. same proposal payload twice in one block
		t = r.newTrace(stdCfg(v1))
		t.block([]cand{{Kind: "reg", Pid: 1, Bs: bs}, {Kind: "reg", Pid: 1, Bs: bs, Dup: 1}})
		t.block([]cand{{Kind: "reg", Pid: 1, Bs: bs}})
		r.finish(t, "corpus:same-proposal-twice", true)

		// 7. cancelled by the council / by the voters; 10% rule; malformed budgets
		t = r.newTrace(stdCfg(v1))
		t.block([]cand{{Kind: "reg", Pid: 1, Bs: bs}, {Kind: "reg", Pid: 2, Bs: mkBudgets(false, 3, amt)}})
		t.block([]cand{{Kind: "review", Pid: 1, A: 0, B: 0}, {Kind: "review", Pid: 1, A: 1, B: 1}, {Kind: "review", Pid: 2, A: 0, B: 0},
			{Kind: "review", Pid: 2, A: 2, B: 0}, {Kind: "review", Pid: 2, A: 1, B: 3}})
		t.block(nil)
		t.block([]cand{{Kind: "vote", Pid: 2, A: bigVotes}, {Kind: "vote", Pid: 1, A: bigVotes}, {Kind: "withdraw", Pid: 2, Auto: true}})
		t.block([]cand{{Kind: "vote", Pid: 2, A: 5}})
		t.block(nil)
		t.block([]cand{{Kind: "withdraw", Pid: 2, Auto: true}, {Kind: "track", Pid: 2, A: 1, B: 1}})
		t.block([]cand{{Kind: "reg", Pid: 3, Bs: mkBudgets(true, 3, func(int) int64 { return 4000 * ela })},
			{Kind: "reg", Pid: 4, Bs: []bspec{{0, 0, 5}, {1, 2, 5}, {2, 3, 5}}},
			{Kind: "reg", Pid: 5, Bs: []bspec{{0, 0, 5}, {0, 1, 5}, {2, 2, 5}}},
			{Kind: "reg", Pid: 6, Bs: []bspec{{1, 1, 5}, {2, 2, -5}}},
			{Kind: "reg", Pid: 7, Bs: []bspec{{2, 2, 5}, {1, 1, 5}}},
			{Kind: "reg", Pid: 8, Bs: []bspec{{1, 1, 5}, {1, 2, 5}}},
			{Kind: "reg", Pid: 9, Bs: []bspec{{3, 1, 5}, {2, 2, 5}}},
			{Kind: "reg", Pid: 10, Bs: []bspec{}}})
		r.finish(t, "corpus:cancel-and-rules", true)
	}
}

// ---- random traces
func (r *runner) random(rng *lib.Rng, n int) {
	for i := 0; i < n; i++ {
		c := stdCfg(rng.Bool())
		switch rng.Intn(4) {
		case 0:
			c.Stage, c.Used, c.Comm = 1000*ela, 900*ela, 0
		case 1:
			c.Used = c.Stage - int64(rng.Intn(200))*ela
		}
		t := r.newTrace(c)
		np := rng.Range(1, 3)
		amtf := func(int) int64 {
			switch rng.Intn(8) {
			case 0:
				return 0
			case 1:
				return int64(rng.Intn(50000))
			default:
				return int64(rng.Intn(40)+1) * ela
			}
		}
		specs := map[int][]bspec{}
		for p := 1; p <= np; p++ {
			specs[p] = mkBudgets(rng.Chance(70), rng.Range(1, 5), amtf)
		}
		nb := rng.Range(8, 16)
		rbk := rng.Fork()
		for b := 0; b < nb; b++ {
			var cs []cand
			for k := rng.Intn(4); k > 0; k-- {
				pid := rng.Range(1, np)
				bs := specs[pid]
				switch x := rng.Intn(100); {
				case x < 12:
					cs = append(cs, cand{Kind: "reg", Pid: pid, Bs: bs})
				case x < 32:
					cs = append(cs, cand{Kind: "review", Pid: pid, A: int64(rng.Intn(nMembers)), B: int64(rng.PickI64(0, 0, 0, 1, 2))})
				case x < 36:
					cs = append(cs, cand{Kind: "vote", Pid: pid, A: rng.PickI64(bigVotes, 7, 1000)})
				case x < 70:
					ty := rng.PickI64(0, 1, 1, 1, 2, 3, 5, 5)
					stg := int64(rng.Intn(len(bs) + 1))
					if ty == 5 && rng.Chance(80) {
						stg = int64(bs[len(bs)-1].Stage)
					}
					if (ty == 0 || ty == 3) && rng.Chance(85) {
						stg = 0
					}
					cs = append(cs, cand{Kind: "track", Pid: pid, A: ty, B: stg})
				default:
					cs = append(cs, cand{Kind: "withdraw", Pid: pid, Auto: true, Excess: rng.PickI64(0, 0, 0, 0, 0, 1, -1, 5*ela)})
				}
			}
			if b == 0 {
				cs = nil
				for p := 1; p <= np; p++ {
					cs = append(cs, cand{Kind: "reg", Pid: p, Bs: specs[p]})
				}
			}
			if b == 1 {
				for p := 1; p <= np; p++ {
					if rng.Chance(90) {
						cs = append(cs, cand{Kind: "review", Pid: p, A: 0, B: 0}, cand{Kind: "review", Pid: p, A: 1, B: 0})
					}
				}
			}
			t.block(cs)
			if !c.Term && b >= 7 && rbk.Chance(15) {
				t.rollback(rbk.Range(1, 3))
			}
		}
		r.finish(t, "random", true)
	}
}

// ---- exhaustive sweeps (thorough tier): the oracle sees every sequence,
// every emitEvery-th one also goes to Coq.

// one proposal with five stages, already VoterAgreed: every sequence of
// single-transaction blocks over the whole alphabet up to the given length;
// a rejected candidate leaves the state unchanged, so its subtree is pruned.
func (r *runner) sweepSingle(v1 bool, maxLen, emitEvery int) int {
	bs := mkBudgets(true, 5, func(i int) int64 { return int64(i+1) * 3 * ela })
	var alphabet []cand
	alphabet = append(alphabet, cand{Kind: "withdraw", Pid: 1, Auto: true})
	for s := 0; s <= 4; s++ {
		alphabet = append(alphabet, cand{Kind: "track", Pid: 1, A: 1, B: int64(s)})
	}
	for s := 1; s <= 3; s++ {
		alphabet = append(alphabet, cand{Kind: "track", Pid: 1, A: 2, B: int64(s)})
	}
	alphabet = append(alphabet, cand{Kind: "track", Pid: 1, A: 0, B: 0}, cand{Kind: "track", Pid: 1, A: 3, B: 0},
		cand{Kind: "track", Pid: 1, A: 5, B: 4}, cand{Kind: "track", Pid: 1, A: 5, B: 3})
	count := 0
	var rec func(prefix []int)
	rec = func(prefix []int) {
		for a := range alphabet {
			seq := append(append([]int{}, prefix...), a)
			t := r.newTrace(stdCfg(v1))
			t.toVoterAgreed(1, bs)
			before := len(t.log)
			lastAccepted := false
			for _, x := range seq {
				t.block([]cand{alphabet[x]})
			}
			if v, ok := t.log[len(t.log)-1].(map[string]interface{})["verdicts"].([]bool); ok && len(v) == 1 {
				lastAccepted = v[0]
			}
			_ = before
			count++
			r.finish(t, "sweep:single", count%emitEvery == 0)
			if lastAccepted && len(seq) < maxLen {
				rec(seq)
			}
		}
	}
	rec(nil)
	return count
}

// three proposals, a fixed script of four operations each, every interleaving
// of the twelve operations (34650), one operation per block.
func (r *runner) sweepInterleave(v1 bool, emitEvery, limit int) int {
	specs := [][]bspec{
		mkBudgets(true, 3, func(i int) int64 { return int64(i+1) * 7 * ela }),
		mkBudgets(true, 4, func(i int) int64 { return int64(i+2) * 5 * ela }),
		mkBudgets(false, 3, func(i int) int64 { return int64(i+1) * 11 * ela }),
	}
	scripts := [][]cand{
		{{Kind: "withdraw", Pid: 1, Auto: true}, {Kind: "track", Pid: 1, A: 1, B: 1}, {Kind: "track", Pid: 1, A: 5, B: 2}, {Kind: "withdraw", Pid: 1, Auto: true}},
		{{Kind: "track", Pid: 2, A: 1, B: 2}, {Kind: "withdraw", Pid: 2, Auto: true}, {Kind: "track", Pid: 2, A: 3, B: 0}, {Kind: "withdraw", Pid: 2, Auto: true}},
		{{Kind: "track", Pid: 3, A: 2, B: 1}, {Kind: "track", Pid: 3, A: 1, B: 1}, {Kind: "withdraw", Pid: 3, Auto: true}, {Kind: "track", Pid: 3, A: 5, B: 3}},
	}
	count := 0
	var rec func(pos [3]int, seq []cand)
	rec = func(pos [3]int, seq []cand) {
		if limit > 0 && count >= limit {
			return
		}
		if len(seq) == 12 {
			t := r.newTrace(stdCfg(v1))
			var regs, revs []cand
			for p := 1; p <= 3; p++ {
				regs = append(regs, cand{Kind: "reg", Pid: p, Bs: specs[p-1]})
				revs = append(revs, cand{Kind: "review", Pid: p, A: 0, B: 0}, cand{Kind: "review", Pid: p, A: 2, B: 0})
			}
			t.block(regs)
			t.block(revs)
			for i := 0; i < 4; i++ {
				t.block(nil)
			}
			for _, c := range seq {
				t.block([]cand{c})
			}
			count++
			r.finish(t, "sweep:interleave", count%emitEvery == 0)
			return
		}
		for p := 0; p < 3; p++ {
			if pos[p] < 4 {
				np := pos
				np[p]++
				rec(np, append(append([]cand{}, seq...), scripts[p][pos[p]]))
			}
		}
	}
	rec([3]int{}, nil)
	return count
}

func main() {
	run := lib.ParseArgs()
	elaenv.InitLog(run.Out)
	crkit.Init()
	rng := lib.NewRng(run.Seed)
	for i := range members {
		members[i] = crkit.NewKey(29, i)
	}
	for i := range owners {
		owners[i] = crkit.NewKey(29, 10+i)
	}
	sg = crkit.NewKey(29, 99)
	st := lib.NewStats("C29", "traces of blocks over <=3 Normal proposals x <=5 budget stages on a standalone Committee: candidates (register/review/vote-against/tracking of every kind/withdraw, payload v0 and v1) are checked with the real SpecialContextCheck against the pre-block state with the in-block proposalsUsedAmount, the accepted ones pass CheckDuplicateTx and ProcessBlock. Fixed corpus (double withdraw/terminate in one block, wrapping budget sums, in-block used amount, malformed budgets), random traces, and in the thorough tier every single-proposal sequence up to length 5 over the 14-letter alphabet plus all 34650 interleavings of three 4-step scripts. nontrivial = at least one tracking or withdrawal accepted; distinct by candidate/verdict log")
	sh := &lib.Shards{Dir: run.Out, Imports: "From ELA Require Import model.C29_Budget corr.C29_corr.", CaseType: "C29_corr.case",
		Mismatch: "C29_corr.mismatches", Scope: "Z", PerShard: 60}
	r := &runner{run: run, st: st, sh: sh}
	r.corpus()
	r.random(rng, run.N(150, 600))
	r.closeScenarios(rng.Fork(), run.N(40, 400))
	r.termScenarios(rng.Fork(), run.N(40, 400))
	if run.Thorough() {
		n1 := r.sweepSingle(true, 5, 150)
		n2 := r.sweepSingle(false, 4, 60)
		n3 := r.sweepInterleave(true, 120, 0)
		n4 := r.sweepInterleave(false, 150, 6000)
		st.Extra["sweep_single_v1_len5"] = n1
		st.Extra["sweep_single_v0_len4"] = n2
		st.Extra["sweep_interleave_v1"] = n3
		st.Extra["sweep_interleave_v0"] = n4
	} else {
		st.Extra["sweep_single_v1_len2"] = r.sweepSingle(true, 2, 10)
		st.Extra["sweep_interleave_v1_sample"] = r.sweepInterleave(true, 20, 200)
	}
	st.Extra["traces_sent_to_coq"] = r.coqN
	st.Traces = r.coqN
	sh.Flush()
	st.Write(run.Out)
	if len(st.Failures) > 0 {
		fmt.Fprintf(os.Stderr, "oracle failures: %d\n", len(st.Failures))
	}
}
