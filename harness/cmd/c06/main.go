// C06 correspondence + oracle: whole histories (blocks, forks,
// reorganisations, invalid blocks, mempool submissions) on a real regnet node
// core; compared with coq/model/Ledger.v through corr/C06_corr.v; oracle =
// independent replay of the active chain.
package main

import (
	"encoding/hex"
	"fmt"
	"os"

	"github.com/elastos/Elastos.ELA/common/config"
	"github.com/elastos/Elastos.ELA/crypto"

	ctypes "github.com/elastos/Elastos.ELA/core/types/common"
	"github.com/elastos/Elastos.ELA/core/types/interfaces"

	"verifharness/fixture"
	"verifharness/ledgerh"
	"verifharness/lib"
)

var mode = ledgerh.Mode{Unspent: true, Pool: true, Prop: "C06", Cfg: "cfg_fixed"}

func history(run *lib.Run, st *lib.Stats, sh *lib.Shards, id int, rng *lib.Rng, script func(h *ledgerh.H)) {
	// one origin arbiter = Keys[0]: the on-duty cross-chain arbiter is then a
	// key of the harness, so SideChainPow transactions can be signed and pass
	// the real context check
	f, err := fixture.New(fixture.Options{Tune: func(p *config.Configuration) {
		pk, _ := crypto.NewPubKey(fixture.KeySeed(0)).EncodePoint(true)
		p.DPoSConfiguration.OriginArbiters = []string{hex.EncodeToString(pk)}
	}})
	if err != nil {
		fmt.Fprintln(os.Stderr, "fixture:", err)
		os.Exit(2)
	}
	defer f.Close()
	h := ledgerh.New(f, rng, id, mode, st)
	h.Observe()
	script(h)
	h.Finish(sh, run.Out)
}

func main() {
	run := lib.ParseArgs()
	rng := lib.NewRng(run.Seed)
	st := lib.NewStats("C06", "histories on a real regnet BlockChain+ChainStore(ffldb)+TxPool: per step a valid block of 0-4 transfers over 4 keys (multi-input incl. several inputs from one parent tx, 1-5 outputs, zero-value outputs), a fork of depth 1-5 that does or does not take over (25% with a double-spending block inside), an invalid block (spent / unknown / out-of-range / immature / duplicate-input / two-spenders-in-block / same-block parent / duplicate tx / duplicate coinbase), or mempool traffic (valid, conflicting, invalid, collisions between transfer / Record / SideChainPow transactions on one outpoint with equal or different Sequence, mine the pool); in-block double spends also with differing Sequence. nontrivial = history reaching height>=2 with >4 transactions; distinct by step log")
	sh := &lib.Shards{Dir: run.Out, Imports: "From ELA Require Import model.Ledger corr.Ledger_run corr.C06_corr.", CaseType: "C06_corr.case",
		Mismatch: "C06_corr.mismatches", Scope: "N", PerShard: 5}
	id := 0
	next := func() int { id++; return id }

	// ---- corpus 1: the duplicate-coinbase witness (fixed by ccb9f8c7): block 4
	// reuses block 1's coinbase; before the fix outpoint (cb1,1) was spent in
	// block 3 and again in block 6.
	history(run, st, sh, next(), rng.Fork(), func(h *ledgerh.H) {
		f := h.F
		b1 := h.ValidBlock(h.GenesisBlk(), 0)
		h.Process(b1)
		b2 := h.ValidBlock(b1, 0)
		h.Process(b2)
		cb := b1.Coinbase()
		v := cb.Outputs()[1].Value
		owner := 0
		for i, k := range f.Keys {
			if k.Hash == cb.Outputs()[1].ProgramHash {
				owner = i
			}
		}
		tx1, _ := f.Transfer([]fixture.In{{Op: ctypes.OutPoint{TxID: cb.Hash(), Index: 1}, Key: owner}}, []fixture.Out{{Key: 3, Value: v - 100}}, 900001)
		b3 := h.BuildOn(b2, []interfaces.Transaction{tx1}, "", fixture.BlockOpt{Miner: 2})
		h.Process(b3)
		raw, _ := f.BuildBlock(b3.Block(), nil, fixture.BlockOpt{})
		raw.Transactions[0] = cb
		raw.Header.MerkleRoot = cb.Hash()
		f.Resolve(raw)
		h.Note("corpus: block reusing block 1's coinbase verbatim")
		b4 := h.FaultyBlock(b3, "dupcoinbase")
		if b4 != nil {
			h.Process(b4)
		}
		b5 := h.ValidBlock(h.Tip(), 0)
		h.Process(b5)
		tx2, _ := f.Transfer([]fixture.In{{Op: ctypes.OutPoint{TxID: cb.Hash(), Index: 1}, Key: owner}}, []fixture.Out{{Key: 2, Value: v - 200}}, 900002)
		b6 := h.BuildOn(h.Tip(), []interfaces.Transaction{tx2}, "spent", fixture.BlockOpt{Miner: 2})
		h.Process(b6)
	})
	// ---- corpus 2: a transaction with several inputs from one parent transaction is
	// connected, disconnected by a reorganisation, and its inputs are spent
	// one by one on the new branch.
	history(run, st, sh, next(), rng.Fork(), func(h *ledgerh.H) {
		f := h.F
		g := h.GenesisBlk()
		b1 := h.ValidBlock(g, 0)
		h.Process(b1)
		total := f.Genesis.Transactions[0].Outputs()[0].Value
		fan, _ := f.Transfer([]fixture.In{{Op: f.GenesisOut, Key: 0}}, []fixture.Out{{Key: 1, Value: 5000000}, {Key: 1, Value: 6000000}, {Key: 1, Value: 0}, {Key: 1, Value: 7000000}, {Key: 0, Value: total - 18000000 - 100}}, 900010)
		b2 := h.BuildOn(b1, []interfaces.Transaction{fan}, "", fixture.BlockOpt{Miner: 1})
		h.Process(b2)
		op := func(i uint16) fixture.In { return fixture.In{Op: ctypes.OutPoint{TxID: fan.Hash(), Index: i}, Key: 1} }
		join, _ := f.Transfer([]fixture.In{op(0), op(1), op(2), op(3)}, []fixture.Out{{Key: 2, Value: 18000000 - 100}}, 900011)
		b3 := h.BuildOn(b2, []interfaces.Transaction{join}, "", fixture.BlockOpt{Miner: 1})
		h.Process(b3)
		// competing branch from b2: spends the same outputs one by one
		t0, _ := f.Transfer([]fixture.In{op(0)}, []fixture.Out{{Key: 3, Value: 5000000 - 100}}, 900012)
		c3 := h.BuildOn(b2, []interfaces.Transaction{t0}, "", fixture.BlockOpt{Miner: 3})
		h.Process(c3)
		t1, _ := f.Transfer([]fixture.In{op(3), op(1)}, []fixture.Out{{Key: 3, Value: 13000000 - 100}}, 900013)
		c4 := h.BuildOn(c3, []interfaces.Transaction{t1}, "", fixture.BlockOpt{Miner: 3})
		h.Process(c4) // reorganisation: b3 disconnected
		t2, _ := f.Transfer([]fixture.In{op(2)}, []fixture.Out{{Key: 3, Value: 0}}, 900014)
		_ = t2
		c5 := h.BuildOn(c4, []interfaces.Transaction{join}, "spent", fixture.BlockOpt{Miner: 3})
		h.Process(c5) // the disconnected join now double-spends
	})

	// ---- corpus 3: in-block double spends whose two spenders differ in Sequence
	history(run, st, sh, next(), rng.Fork(), func(h *ledgerh.H) { h.CorpusSeqBlocks() })
	// ---- corpus 4: every pair of pool-capable transaction types (transfer,
	// Record, SideChainPow) colliding on one outpoint in the mempool
	history(run, st, sh, next(), rng.Fork(), func(h *ledgerh.H) { h.CorpusTypedPool() })

	// ---- corpus 5: several inputs on one parent transaction, unspent ones
	// before / after / around an already spent one, in blocks and in the pool
	history(run, st, sh, next(), rng.Fork(), func(h *ledgerh.H) { h.CorpusSiblings() })
	// ---- corpus 6: a reorganisation in the middle of a cache-missing transaction lookup
	history(run, st, sh, next(), rng.Fork(), func(h *ledgerh.H) { h.CorpusRacyLookup() })

	n := run.N(54, 3000)
	for i := 0; i < n; i++ {
		steps := 8 + rng.Intn(14)
		if run.Thorough() {
			steps = 10 + rng.Intn(30)
		}
		history(run, st, sh, next(), rng.Fork(), func(h *ledgerh.H) { h.Random(steps) })
	}
	st.Sample(map[string]interface{}{"history": 1, "what": "corpus: duplicate coinbase witness (rejected since ccb9f8c7)"})
	st.Sample(map[string]interface{}{"history": 2, "what": "corpus: 4-input join from one parent disconnected by a reorganisation, inputs re-spent singly"})
	st.Traces = st.Evals
	sh.Flush()
	st.Write(run.Out)
}
