package main

import (
	"reflect"

	"github.com/elastos/Elastos.ELA/common"
	"github.com/elastos/Elastos.ELA/core/contract/program"
	elatx "github.com/elastos/Elastos.ELA/core/types/common"
	"github.com/elastos/Elastos.ELA/core/types/functions"
	"github.com/elastos/Elastos.ELA/core/types/interfaces"
	"github.com/elastos/Elastos.ELA/core/types/outputpayload"
	"github.com/elastos/Elastos.ELA/core/types/payload"
)

// randomTx: a transfer-asset transaction with random inputs/outputs (never
// validated: it is only stored, serialized and compared).
func (w *world) randomTx() interfaces.Transaction {
	rng := w.filler.Rng
	var ins []*elatx.Input
	for i := 0; i < 1+rng.Intn(2); i++ {
		var h common.Uint256
		copy(h[:], rng.Bytes(32))
		ins = append(ins, &elatx.Input{Previous: elatx.OutPoint{TxID: h, Index: uint16(rng.Intn(4))}, Sequence: uint32(rng.Intn(10))})
	}
	var outs []*elatx.Output
	for i := 0; i < 1+rng.Intn(2); i++ {
		var ph common.Uint168
		copy(ph[:], rng.Bytes(21))
		ph[0] = 0x21
		outs = append(outs, &elatx.Output{AssetID: common.Uint256{1}, Value: common.Fixed64(1000 + rng.Intn(100000)), ProgramHash: ph,
			Type: elatx.OTNone, Payload: &outputpayload.DefaultOutput{}})
	}
	code := rng.Bytes(35)
	tx := functions.CreateTransaction(elatx.TxVersion09, elatx.TransferAsset, 0, &payload.TransferAsset{},
		[]*elatx.Attribute{{Usage: elatx.Nonce, Data: rng.Bytes(8)}}, ins, outs, 0,
		[]*program.Program{{Code: code, Parameter: rng.Bytes(65)}})
	tx.SetFee(common.Fixed64(100 + rng.Intn(1000)))
	return tx
}

// installCodecInvariants: the few places where the generic filler must
// respect what the checkpoint codecs can carry.
func installCodecInvariants(f *Filler) {
	_ = reflect.TypeOf
}
