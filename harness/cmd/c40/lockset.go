// C40 (a): the harness's own evaluation of the lockset checker (mirror of
// coq/model/C40_Locks.v [violations]) to name witnesses, plus classification.
package main

import (
	"encoding/json"
	"fmt"
	"os"
	"path/filepath"
	"sort"
	"strings"

	"verifharness/lib"
)

func excl(m1, m2 int) bool {
	return (m1 == mW && m2 != mNone) || (m2 == mW && m1 != mNone)
}

// firstConflict mirrors Coq [first_conflict]: the first access of p1 (reads in
// sorted order, then writes in sorted order — the order of the generated
// list) that conflicts with some access of p2.
func firstConflict(p1, p2 *Part) (string, bool) {
	for _, l := range sortedKeys(p1.Reads) {
		if p1.Writes[l] {
			continue // emitted as a write only
		}
		if p2.Writes[l] {
			return l, true
		}
	}
	for _, l := range sortedKeys(p1.Writes) {
		if p2.Writes[l] || p2.Reads[l] {
			return l, true
		}
	}
	return "", false
}

func allConflicts(p1, p2 *Part) []string {
	m := map[string]bool{}
	for l := range p1.Writes {
		if p2.Writes[l] || p2.Reads[l] {
			m[l] = true
		}
	}
	for l := range p2.Writes {
		if p1.Reads[l] {
			m[l] = true
		}
	}
	return sortedKeys(m)
}

type violation struct {
	P1, P2 *Part
	Loc    string
}

func violationsOf(parts []*Part) []violation {
	var out []violation
	for _, p1 := range parts {
		for _, p2 := range parts {
			if p1.ID <= p2.ID && !excl(p1.Mode, p2.Mode) {
				if l, ok := firstConflict(p1, p2); ok {
					out = append(out, violation{p1, p2, l})
				}
			}
		}
	}
	return out
}

// allowedParts: exported methods that are lock-free on purpose. Their parts
// are left out of the checked lists (same table: coq/model/C40_Known.v
// [allowed_parts]); reasons in notes/C40.md.
var allowedParts = map[string]allowed{
	"State.RegisterFuncitons/unlocked":          {"start-up wiring of callbacks (main.go, before the node runs)", []string{".State.RegisterFuncitons("}, []string{"main.go"}},
	"Committee.RegisterFuncitons/unlocked":      {"start-up wiring of callbacks (main.go, before the node runs)", []string{"ommittee.RegisterFuncitons("}, []string{"main.go"}},
	"State.ProcessVoteStatisticsBlock/unlocked": {"call-with-lock-held internal: only called from State.ProcessBlock, which holds mtx.Lock", []string{".ProcessVoteStatisticsBlock("}, []string{"dpos/state/"}},
	"Committee.Snapshot/unlocked":               {"rollback-comparison helper of the unit tests; no caller outside tests", []string{"ommittee.Snapshot(", "ommittee().Snapshot("}, nil},
}

// allowed: an exported method that is lock-free on purpose.  The entry holds
// only while every syntactic call site (any of Needles) lies under one of
// OnlyIn (nil: there must be none outside tests); otherwise the part is
// checked like any other.
type allowed struct {
	Reason  string
	Needles []string
	OnlyIn  []string
}

func (a allowed) holds(repo string) (bool, []string) {
	var bad []string
	for _, n := range a.Needles {
		for _, c := range grepCalls(repo, n, 50) {
			ok := false
			for _, p := range a.OnlyIn {
				if strings.HasPrefix(c, p) {
					ok = true
				}
			}
			if !ok {
				bad = append(bad, c)
			}
		}
	}
	return len(bad) == 0, bad
}

// culprits of a violating pair: the part that writes a conflicting location
// without holding the lock exclusively; when every writer holds it
// exclusively, the part that reads without holding the lock at all.
func culprits(v violation) []*Part {
	var out []*Part
	confl := allConflicts(v.P1, v.P2)
	writes := func(p *Part) bool {
		for _, l := range confl {
			if p.Writes[l] {
				return true
			}
		}
		return false
	}
	if v.P1.Mode != mW && writes(v.P1) {
		out = append(out, v.P1)
	}
	if v.P2 != v.P1 && v.P2.Mode != mW && writes(v.P2) {
		out = append(out, v.P2)
	}
	if len(out) == 0 {
		if v.P1.Mode == mNone {
			out = append(out, v.P1)
		}
		if v.P2 != v.P1 && v.P2.Mode == mNone {
			out = append(out, v.P2)
		}
	}
	return out
}

func findCallers(repo, method string, max int) []string {
	return grepCalls(repo, "."+method+"(", max)
}

// grepCalls: syntactic call sites (non-test production code) containing needle.
func grepCalls(repo, needle string, max int) []string {
	var out []string
	filepath.Walk(repo, func(p string, info os.FileInfo, err error) error {
		if err != nil || len(out) >= max {
			return nil
		}
		if info.IsDir() {
			n := info.Name()
			if n == ".git" || n == "vendor" || n == "test" || n == "benchmark" {
				return filepath.SkipDir
			}
			return nil
		}
		if !strings.HasSuffix(p, ".go") || strings.HasSuffix(p, "_test.go") {
			return nil
		}
		b, err := os.ReadFile(p)
		if err != nil {
			return nil
		}
		for i, line := range strings.Split(string(b), "\n") {
			if strings.Contains(line, needle) && !strings.HasPrefix(strings.TrimSpace(line), "func ") && !strings.HasPrefix(strings.TrimSpace(line), "//") {
				rel, _ := filepath.Rel(repo, p)
				out = append(out, fmt.Sprintf("%s:%d", rel, i+1))
				if len(out) >= max {
					break
				}
			}
		}
		return nil
	})
	return out
}

func runLockset(run *lib.Run, st *lib.Stats, sh *lib.Shards, next func() int) {
	tr, err := translate(run.Repo)
	if err != nil {
		fmt.Fprintln(os.Stderr, "C40 translator failed:", err)
		os.Exit(3) // fail closed
	}
	st.Extra["locations"] = len(tr.Locs) - 1
	st.Extra["parts"] = len(tr.Parts)
	st.Extra["exported_methods"] = tr.Methods
	st.Extra["checkpoint_channels"] = tr.Ckpt
	for _, ch := range tr.Ckpt {
		st.Count(fmt.Sprintf("ckpt:%s:%d:%d:%d", ch.Name, len(ch.LiveSites), len(ch.SnapSites), len(ch.StateUses)), len(ch.LiveSites)+len(ch.SnapSites) > 0, "checkpoint-channel")
		if len(ch.LiveSites) > 0 && len(ch.StateUses) > 0 {
			failLater("ckpt-handoff:"+ch.Name, fmt.Sprintf("core/checkpoint: a live registered checkpoint is handed to the file goroutine through fileChannels.%s at %s, and the file goroutine calls %s on it: state is read off the block path while the next blocks are processed", ch.Sender, ch.LiveSites[0], ch.StateUses[0]),
				map[string]interface{}{"channel": ch.Name, "sender": ch.Sender, "live_call_sites": ch.LiveSites, "state_methods_in_file_goroutine": ch.StateUses, "handlers": ch.Handlers})
		}
	}
	st.Extra["calls_not_followed"] = tr.Unknown
	st.Extra["other_functions_taking_the_lock"] = tr.ExtraEntries
	st.Extra["deep_copy_returns"] = tr.Deep
	deepReturns = tr.Deep

	var allowedNow []string
	for gi, g := range tr.Groups {
		var parts, checked []*Part
		for _, p := range tr.Parts {
			if p.Group == g {
				parts = append(parts, p)
				if a, ok := allowedParts[p.Name()]; ok {
					if holds, bad := a.holds(run.Repo); holds {
						allowedNow = append(allowedNow, p.Name())
						continue
					} else {
						st.Extra["allow_list_void:"+p.Name()] = bad
					}
				}
				checked = append(checked, p)
			}
		}
		vs := violationsOf(checked)
		vsAll := violationsOf(parts)
		i := next()
		sh.Add(fmt.Sprintf("CLock %d %d %d %d (N.of_nat (List.length (nth %d groups nil))) (N.of_nat (List.length (violations (nth %d groups nil))))", i, gi, len(parts), len(vsAll), gi, gi))
		st.LogCase(run.Out, i, map[string]interface{}{"op": "lockset", "group": g, "parts": len(parts), "violating_pairs_all": len(vsAll), "violating_pairs_checked": len(vs)})

		// per culprit part: partners and fields
		type agg struct {
			part     *Part
			partners map[string][]string
		}
		by := map[string]*agg{}
		for _, v := range vs {
			for _, c := range culprits(v) {
				a := by[c.Name()]
				if a == nil {
					a = &agg{part: c, partners: map[string][]string{}}
					by[c.Name()] = a
				}
				other := v.P2
				if c == v.P2 {
					other = v.P1
				}
				a.partners[other.Name()+" ["+modeName[other.Mode]+"]"] = allConflicts(c, other)
			}
		}
		var names []string
		for n := range by {
			names = append(names, n)
		}
		sort.Strings(names)
		for _, n := range names {
			a := by[n]
			var ps []string
			for k := range a.partners {
				ps = append(ps, k)
			}
			sort.Strings(ps)
			// prefer a partner that writes under the exclusive lock as the headline witness
			head := ps[0]
			for _, k := range ps {
				if strings.HasSuffix(k, "[MW]") {
					head = k
					break
				}
			}
			fields := a.partners[head]
			what := fmt.Sprintf("%s (%s, lock mode %s) accesses %s while %s can run at the same time: the lock does not keep them apart", n, a.part.Pos, modeName[a.part.Mode], strings.Join(trunc(fields, 4), ", "), head)
			input := map[string]interface{}{"method": n, "mode": modeName[a.part.Mode], "where": a.part.Pos, "conflicting_method": head,
				"fields": trunc(fields, 12), "other_partners": len(ps) - 1, "note": a.part.Note}
			if a.part.Kind == "escape" {
				input["callers"] = findCallers(run.Repo, a.part.Method, 6)
			}
			pending = append(pending, pendingFail{"lockset:" + n, what, input})
		}
		// counting: every pair of parts with a conflicting access is one evaluated case
		for _, p1 := range checked {
			for _, p2 := range checked {
				if p1.ID <= p2.ID {
					if l, ok := firstConflict(p1, p2); ok {
						st.Count(fmt.Sprintf("pair:%s:%s:%s", p1.Name(), p2.Name(), l), true, "lockset-pair:"+g)
					}
				}
			}
		}
		st.Sample(map[string]interface{}{"op": "lockset", "group": g, "parts": len(parts), "violating_pairs": len(vsAll), "culprit_parts": len(names)})
	}
	st.Extra["allow_listed_parts"] = allowedNow
	gen := "/verif/coq/gen/C40_summaries.v"
	if err := tr.writeGen(gen, allowedNow); err != nil {
		fmt.Fprintln(os.Stderr, "C40: cannot write", gen, err)
		os.Exit(3)
	}
	// human-readable dump for notes/debugging
	var sb strings.Builder
	for _, p := range tr.Parts {
		fmt.Fprintf(&sb, "%d %s %s %s\n   R: %s\n   W: %s\n", p.ID, p.Name(), modeName[p.Mode], p.Pos, strings.Join(sortedKeys(p.Reads), " "), strings.Join(sortedKeys(p.Writes), " "))
		if p.Note != "" {
			fmt.Fprintf(&sb, "   note: %s\n", p.Note)
		}
	}
	os.WriteFile(filepath.Join(run.Out, "summaries.txt"), []byte(sb.String()), 0o644)
}

var deepReturns []DeepReturn

type pendingFail struct {
	sig, what string
	input     interface{}
}

// flushFailures reports findings that are not recorded in
// known_findings.jsonl first: lib.Stats keeps at most 50 failures and an
// unrecorded one must never be crowded out by recorded ones.
func flushFailures(st *lib.Stats, fs []pendingFail) {
	known := map[string]bool{}
	if b, err := os.ReadFile("/verif/known_findings.jsonl"); err == nil {
		for _, line := range strings.Split(string(b), "\n") {
			var e struct{ Property, Status, Signature string }
			if json.Unmarshal([]byte(line), &e) == nil && e.Property == "C40" {
				known[e.Signature] = true
			}
		}
	}
	seen := map[string]bool{}
	for pass := 0; pass < 2; pass++ {
		for _, f := range fs {
			if known[f.sig] == (pass == 1) && !seen[f.sig] {
				seen[f.sig] = true // one report per signature: the list is capped
				st.Fail(f.sig, f.what, f.input)
			}
		}
	}
	st.Extra["distinct_failure_signatures"] = len(seen)
}
